package main

// Conversion of a world to istio objects, running the real generator (pilot/pkg/networking/core
// through core.NewConfigGenTest) and extracting what each proxy receives.

import (
	"fmt"
	"regexp"
	"sort"
	"strconv"
	"strings"
	"time"

	cluster "github.com/envoyproxy/go-control-plane/envoy/config/cluster/v3"
	listener "github.com/envoyproxy/go-control-plane/envoy/config/listener/v3"
	route "github.com/envoyproxy/go-control-plane/envoy/config/route/v3"
	"google.golang.org/protobuf/encoding/protojson"
	"google.golang.org/protobuf/proto"
	corev1 "k8s.io/api/core/v1"
	metav1 "k8s.io/apimachinery/pkg/apis/meta/v1"

	meshconfig "istio.io/api/mesh/v1alpha1"
	networking "istio.io/api/networking/v1alpha3"
	typev1beta1 "istio.io/api/type/v1beta1"
	"istio.io/istio/pilot/pkg/model"
	"istio.io/istio/pilot/pkg/networking/core"
	"istio.io/istio/pilot/pkg/serviceregistry/kube"
	"istio.io/istio/pkg/config"
	"istio.io/istio/pkg/config/mesh"
	"istio.io/istio/pkg/config/schema/gvk"
	"istio.io/istio/pkg/config/validation"

	"verifharness/internal/vh"
)

var baseTime = time.Date(2024, 1, 1, 0, 0, 0, 0, time.UTC)

const clusterID = "Kubernetes"

func meta(k config.GroupVersionKind, ns, name string, ts int) config.Meta {
	return config.Meta{GroupVersionKind: k, Namespace: ns, Name: name, CreationTimestamp: baseTime.Add(time.Duration(ts) * time.Second), Domain: "cluster.local"}
}

func seConfig(s *svcDef) config.Config {
	se := &networking.ServiceEntry{
		Hosts:     append([]string{}, s.Hosts...),
		Addresses: []string{s.vip()},
		ExportTo:  append([]string(nil), s.ExportTo...),
		Location:  networking.ServiceEntry_MESH_EXTERNAL,
	}
	for _, p := range s.Ports {
		se.Ports = append(se.Ports, &networking.ServicePort{Number: uint32(p.Num), Name: p.Name, Protocol: p.Proto})
	}
	switch s.Resolution {
	case "DNS":
		se.Resolution = networking.ServiceEntry_DNS
		se.Endpoints = []*networking.WorkloadEntry{{Address: s.endpoint()}}
	case "STATIC":
		se.Resolution = networking.ServiceEntry_STATIC
		se.Endpoints = []*networking.WorkloadEntry{{Address: fmt.Sprintf("10.9.%d.1", s.UID)}}
	default:
		se.Resolution = networking.ServiceEntry_NONE
	}
	return config.Config{Meta: meta(gvk.ServiceEntry, s.NS, s.Name, s.TS), Spec: se}
}

func k8sService(s *svcDef) *model.Service {
	svc := corev1.Service{
		ObjectMeta: metav1.ObjectMeta{Name: s.Name, Namespace: s.NS, CreationTimestamp: metav1.NewTime(baseTime.Add(time.Duration(s.TS) * time.Second))},
		Spec:       corev1.ServiceSpec{ClusterIP: s.vip()},
	}
	if len(s.ExportTo) > 0 {
		// "For a Kubernetes Service, the equivalent effect can be achieved by setting the annotation
		// networking.istio.io/exportTo to a comma-separated list of namespace names."
		svc.Annotations = map[string]string{"networking.istio.io/exportTo": strings.Join(s.ExportTo, ",")}
	}
	for _, p := range s.Ports {
		svc.Spec.Ports = append(svc.Spec.Ports, corev1.ServicePort{Name: p.Name, Port: int32(p.Num), Protocol: corev1.ProtocolTCP})
	}
	return kube.ConvertService(svc, nil, "cluster.local", clusterID, "cluster.local")
}

func drConfig(d *drDef) config.Config {
	dr := &networking.DestinationRule{Host: d.Host, ExportTo: append([]string(nil), d.ExportTo...)}
	if d.Selector != nil {
		dr.WorkloadSelector = &typev1beta1.WorkloadSelector{MatchLabels: d.Selector}
	}
	pool := func(n int) *networking.ConnectionPoolSettings {
		return &networking.ConnectionPoolSettings{Tcp: &networking.ConnectionPoolSettings_TCPSettings{MaxConnections: int32(n)}}
	}
	if d.TopPool || d.TopSNI || d.TopHash || len(d.PortLevel) > 0 {
		dr.TrafficPolicy = &networking.TrafficPolicy{}
	}
	if d.TopPool {
		dr.TrafficPolicy.ConnectionPool = pool(10000 + d.UID)
	}
	if d.TopSNI {
		dr.TrafficPolicy.Tls = &networking.ClientTLSSettings{Mode: networking.ClientTLSSettings_SIMPLE, Sni: fmt.Sprintf("dr%d.sni.test", d.UID)}
	}
	if d.TopHash {
		dr.TrafficPolicy.LoadBalancer = &networking.LoadBalancerSettings{LbPolicy: &networking.LoadBalancerSettings_ConsistentHash{
			ConsistentHash: &networking.LoadBalancerSettings_ConsistentHashLB{
				HashKey: &networking.LoadBalancerSettings_ConsistentHashLB_HttpHeaderName{HttpHeaderName: fmt.Sprintf("x-drhash-%d", d.UID)},
			},
		}}
	}
	for _, p := range d.PortLevel {
		dr.TrafficPolicy.PortLevelSettings = append(dr.TrafficPolicy.PortLevelSettings, &networking.TrafficPolicy_PortTrafficPolicy{
			Port:           &networking.PortSelector{Number: uint32(p)},
			ConnectionPool: pool(30000 + d.UID),
		})
	}
	for i, s := range d.Subsets {
		ss := &networking.Subset{Name: s.Name, Labels: map[string]string{"version": s.Name}}
		if s.Marked {
			ss.TrafficPolicy = &networking.TrafficPolicy{ConnectionPool: pool(20000 + d.UID*10 + i)}
		}
		dr.Subsets = append(dr.Subsets, ss)
	}
	return config.Config{Meta: meta(gvk.DestinationRule, d.NS, d.Name, d.TS), Spec: dr}
}

func dest(d destDef) *networking.Destination {
	out := &networking.Destination{Host: d.Host, Subset: d.Subset}
	if d.Port != 0 {
		out.Port = &networking.PortSelector{Number: uint32(d.Port)}
	}
	return out
}

func vsConfig(v *vsDef) config.Config {
	vs := &networking.VirtualService{Hosts: append([]string{}, v.Hosts...), Gateways: append([]string(nil), v.Gateways...), ExportTo: append([]string(nil), v.ExportTo...)}
	for _, rt := range v.Routes {
		switch rt.Kind {
		case "http":
			h := &networking.HTTPRoute{
				Headers: &networking.Headers{Response: &networking.Headers_HeaderOperations{Set: map[string]string{"x-vs-marker": fmt.Sprintf("vsmark-%d", v.UID)}}},
			}
			for _, d := range rt.Dests {
				h.Route = append(h.Route, &networking.HTTPRouteDestination{Destination: dest(d), Weight: int32(d.Weight)})
			}
			if rt.Mirror != nil {
				h.Mirror = dest(*rt.Mirror)
			}
			vs.Http = append(vs.Http, h)
		case "tcp":
			t := &networking.TCPRoute{Match: []*networking.L4MatchAttributes{{Port: uint32(rt.Port)}}}
			for _, d := range rt.Dests {
				t.Route = append(t.Route, &networking.RouteDestination{Destination: dest(d), Weight: int32(d.Weight)})
			}
			vs.Tcp = append(vs.Tcp, t)
		case "tls":
			t := &networking.TLSRoute{Match: []*networking.TLSMatchAttributes{{Port: uint32(rt.Port), SniHosts: append([]string{}, rt.SNIHosts...)}}}
			for _, d := range rt.Dests {
				t.Route = append(t.Route, &networking.RouteDestination{Destination: dest(d), Weight: int32(d.Weight)})
			}
			vs.Tls = append(vs.Tls, t)
		}
	}
	return config.Config{Meta: meta(gvk.VirtualService, v.NS, v.Name, v.TS), Spec: vs}
}

func scConfig(s *scDef) config.Config {
	sc := &networking.Sidecar{}
	if s.Selector != nil {
		sc.WorkloadSelector = &networking.WorkloadSelector{Labels: s.Selector}
	}
	for _, e := range s.Egress {
		l := &networking.IstioEgressListener{Hosts: append([]string{}, e.Hosts...)}
		if e.Port != nil {
			l.Port = &networking.SidecarPort{Number: uint32(e.Port.Num), Name: e.Port.Name, Protocol: e.Port.Proto}
		}
		sc.Egress = append(sc.Egress, l)
	}
	return config.Config{Meta: meta(gvk.Sidecar, s.NS, s.Name, s.TS), Spec: sc}
}

func meshConfig(m meshDef) *meshconfig.MeshConfig {
	mc := mesh.DefaultMeshConfig()
	mc.RootNamespace = rootNS
	mc.DefaultServiceExportTo = append([]string(nil), m.DefSvc...)
	mc.DefaultVirtualServiceExportTo = append([]string(nil), m.DefVS...)
	mc.DefaultDestinationRuleExportTo = append([]string(nil), m.DefDR...)
	if m.SEV != nil {
		vis := func(s string) meshconfig.ServiceEntryVisibility_Visibility {
			switch s {
			case "NONE":
				return meshconfig.ServiceEntryVisibility_NONE
			case "NAMESPACE":
				return meshconfig.ServiceEntryVisibility_NAMESPACE
			case "PUBLIC":
				return meshconfig.ServiceEntryVisibility_PUBLIC
			}
			return meshconfig.ServiceEntryVisibility_VISIBILITY_UNSPECIFIED
		}
		sev := &meshconfig.ServiceEntryVisibility{ApplyToSidecars: m.SEV.ApplyToSidecars, DefaultVisibility: vis(m.SEV.Default)}
		if m.SEV.PolicyVis != "" {
			sel := &meshconfig.LabelSelector{}
			if !m.SEV.PolicyMatchAll {
				sel.MatchLabels = map[string]string{"visref/no-namespace-has-this": "label"}
			}
			sev.Policies = []*meshconfig.ServiceEntryVisibility_Policy{{
				Visibility: vis(m.SEV.PolicyVis),
				MatchingRules: []*meshconfig.ServiceEntryVisibility_MatchRule{{
					Matcher: &meshconfig.ServiceEntryVisibility_MatchRule_NamespaceSelector{NamespaceSelector: sel},
				}},
			}}
		}
		mc.ServiceEntryVisibility = sev
	}
	return mc
}

// validateWorld passes every generated object through istio's own admission validation and drops
// what it rejects (so that every world is one a cluster would accept). Returns rejection notes.
func validateWorld(w *world) []string {
	var notes []string
	rej := func(kind string, err error) {
		s := err.Error()
		if len(s) > 100 {
			s = s[:100]
		}
		notes = append(notes, kind+": "+s)
	}
	var svcs []*svcDef
	for _, s := range w.Services {
		if s.Kind == "se" {
			if _, err := validation.ValidateServiceEntry(seConfig(s)); err != nil {
				rej("ServiceEntry", err)
				continue
			}
		}
		svcs = append(svcs, s)
	}
	w.Services = svcs
	var drs []*drDef
	for _, d := range w.DRs {
		if _, err := validation.ValidateDestinationRule(drConfig(d)); err != nil {
			rej("DestinationRule", err)
			continue
		}
		drs = append(drs, d)
	}
	w.DRs = drs
	var vss []*vsDef
	for _, v := range w.VSs {
		if _, err := validation.ValidateVirtualService(vsConfig(v)); err != nil {
			rej("VirtualService", err)
			continue
		}
		vss = append(vss, v)
	}
	w.VSs = vss
	var scs []*scDef
	for _, s := range w.Sidecars {
		if _, err := validation.ValidateSidecar(scConfig(s)); err != nil {
			rej("Sidecar", err)
			continue
		}
		scs = append(scs, s)
	}
	w.Sidecars = scs
	return notes
}

// ---------------------------------------------------------------------------------------
// observations

// occurrence of a planted marker or a cluster reference somewhere in a delivered resource
type occ struct {
	Res  string // e.g. "cds:outbound|80||a.example.com", "rds:80", "lds:0.0.0.0_80"
	What string // cluster | vip | endpoint | dr | vs | vhost | sni | svcmeta | drmeta | vsmeta
	// cluster reference
	Host   string
	Port   int
	Subset string
	// object attribution
	UID  int
	NS   string
	Name string
	Via  string // which marker
}

type proxyOut struct {
	clusterNames map[string]bool
	edsNames     map[string]bool
	occs         []occ
	nClusters    int
	nListeners   int
	nRoutes      int
	nVHosts      int
	unknownNames []string
}

var (
	reCluster  = regexp.MustCompile(`outbound\|(\d+)\|([^|"\\]*)\|([A-Za-z0-9*._-]+)`)
	reVIP      = regexp.MustCompile(`\b10\.7\.(\d+)\.1\b`)
	reEndpoint = regexp.MustCompile(`\bep(\d+)\.backend\.test\b`)
	reStaticEP = regexp.MustCompile(`\b10\.9\.(\d+)\.1\b`)
	reSNI      = regexp.MustCompile(`\bdr(\d+)\.sni\.test\b`)
	reHash     = regexp.MustCompile(`x-drhash-(\d+)`)
	reVSMark   = regexp.MustCompile(`vsmark-(\d+)`)
	reMaxConn  = regexp.MustCompile(`"maxConnections":\s*(\d+)`)
	reDRMeta   = regexp.MustCompile(`/namespaces/([a-z0-9-]+)/destination-rule/([a-z0-9-]+)`)
	reVSMeta   = regexp.MustCompile(`/namespaces/([a-z0-9-]+)/virtual-service/([a-z0-9-]+)`)
)

var jsonOpts = protojson.MarshalOptions{UseProtoNames: false, EmitUnpopulated: false}

func toJSON(m proto.Message) string {
	b, err := jsonOpts.Marshal(m)
	if err != nil {
		vh.Abort("cannot marshal %T to JSON: %v", m, err)
	}
	// protojson inserts random whitespace after ':' and ',' to discourage byte comparison; normalise
	return string(b)
}

func atoi(s string) int { n, _ := strconv.Atoi(s); return n }

// scanText finds every marker in the JSON text of one resource.
func scanText(res, js string, out *[]occ) {
	for _, m := range reCluster.FindAllStringSubmatch(js, -1) {
		*out = append(*out, occ{Res: res, What: "cluster", Port: atoi(m[1]), Subset: m[2], Host: m[3]})
	}
	for _, m := range reVIP.FindAllStringSubmatch(js, -1) {
		*out = append(*out, occ{Res: res, What: "svc", UID: atoi(m[1]), Via: "vip"})
	}
	for _, m := range reEndpoint.FindAllStringSubmatch(js, -1) {
		*out = append(*out, occ{Res: res, What: "svc", UID: atoi(m[1]), Via: "dns-endpoint"})
	}
	for _, m := range reStaticEP.FindAllStringSubmatch(js, -1) {
		*out = append(*out, occ{Res: res, What: "svc", UID: atoi(m[1]), Via: "static-endpoint"})
	}
	for _, m := range reSNI.FindAllStringSubmatch(js, -1) {
		*out = append(*out, occ{Res: res, What: "dr", UID: atoi(m[1]), Via: "sni"})
	}
	for _, m := range reHash.FindAllStringSubmatch(js, -1) {
		*out = append(*out, occ{Res: res, What: "dr", UID: atoi(m[1]), Via: "consistent-hash-header"})
	}
	for _, m := range reMaxConn.FindAllStringSubmatch(js, -1) {
		n := atoi(m[1])
		switch {
		case n >= 10000 && n < 20000:
			*out = append(*out, occ{Res: res, What: "dr", UID: n - 10000, Via: "connection-pool"})
		case n >= 20000 && n < 30000:
			*out = append(*out, occ{Res: res, What: "dr", UID: (n - 20000) / 10, Via: "subset-connection-pool"})
		case n >= 30000 && n < 40000:
			*out = append(*out, occ{Res: res, What: "dr", UID: n - 30000, Via: "port-connection-pool"})
		}
	}
	for _, m := range reVSMark.FindAllStringSubmatch(js, -1) {
		*out = append(*out, occ{Res: res, What: "vs", UID: atoi(m[1]), Via: "response-header"})
	}
	for _, m := range reDRMeta.FindAllStringSubmatch(js, -1) {
		*out = append(*out, occ{Res: res, What: "drmeta", NS: m[1], Name: m[2], Via: "istio-metadata"})
	}
	for _, m := range reVSMeta.FindAllStringSubmatch(js, -1) {
		*out = append(*out, occ{Res: res, What: "vsmeta", NS: m[1], Name: m[2], Via: "istio-metadata"})
	}
}

var excludedClusterNames = map[string]bool{
	"BlackHoleCluster": true, "PassthroughCluster": true, "InboundPassthroughCluster": true,
	"InboundPassthroughClusterIpv4": true, "InboundPassthroughClusterIpv6": true,
	"prometheus_stats": true, "agent": true, "sds-grpc": true, "xds-grpc": true, "zipkin": true,
	"connect_originate": true, "main_internal": true, "encap": true,
}

func observe(cg *core.ConfigGenTest, p *model.Proxy) *proxyOut {
	out := &proxyOut{clusterNames: map[string]bool{}, edsNames: map[string]bool{}}
	clusters := cg.Clusters(p)
	out.nClusters = len(clusters)
	for _, c := range clusters {
		name := c.GetName()
		if excludedClusterNames[name] || strings.HasPrefix(name, "inbound|") || strings.HasPrefix(name, "inbound-vip|") {
			continue
		}
		if !strings.HasPrefix(name, "outbound|") {
			out.unknownNames = append(out.unknownNames, name)
			continue
		}
		out.clusterNames[name] = true
		if c.GetType() == cluster.Cluster_EDS {
			eds := c.GetEdsClusterConfig().GetServiceName()
			if eds == "" {
				eds = name
			}
			out.edsNames[eds] = true
		}
		res := "cds:" + name
		scanText(res, toJSON(c), &out.occs)
		// istio's own attribution of the cluster to service objects
		if st := c.GetMetadata().GetFilterMetadata()["istio"]; st != nil {
			if l := st.GetFields()["services"].GetListValue(); l != nil {
				for _, v := range l.GetValues() {
					f := v.GetStructValue().GetFields()
					out.occs = append(out.occs, occ{Res: res, What: "svcmeta", NS: f["namespace"].GetStringValue(), Host: f["host"].GetStringValue(), Via: "istio-metadata"})
				}
			}
		}
	}
	listeners := cg.Listeners(p)
	out.nListeners = len(listeners)
	for _, l := range listeners {
		// inbound listeners are not the subject; they reference only the proxy's own services
		if l.GetName() == "virtualInbound" || l.GetTrafficDirection().String() == "INBOUND" {
			continue
		}
		res := "lds:" + l.GetName()
		scanText(res, toJSON(l), &out.occs)
		chains := append([]*listener.FilterChain{}, l.GetFilterChains()...)
		if l.GetDefaultFilterChain() != nil {
			chains = append(chains, l.GetDefaultFilterChain())
		}
		for _, fc := range chains {
			for _, sn := range fc.GetFilterChainMatch().GetServerNames() {
				out.occs = append(out.occs, occ{Res: res, What: "sni", Host: sn})
			}
		}
	}
	var routes []*route.RouteConfiguration
	if p.Type != model.Router {
		routes = cg.RoutesFromListeners(p, listeners)
	}
	out.nRoutes = len(routes)
	for _, rc := range routes {
		res := "rds:" + rc.GetName()
		scanText(res, toJSON(rc), &out.occs)
		for _, vhost := range rc.GetVirtualHosts() {
			n := vhost.GetName()
			if n == "allow_any" || n == "block_all" {
				continue
			}
			out.nVHosts++
			h, port := n, 0
			if i := strings.LastIndex(n, ":"); i > 0 {
				h, port = n[:i], atoi(n[i+1:])
			}
			out.occs = append(out.occs, occ{Res: res, What: "vhost", Host: h, Port: port})
		}
	}
	sort.Strings(out.unknownNames)
	// one occurrence per (resource, kind, subject)
	seen := map[occ]bool{}
	dedup := out.occs[:0]
	for _, o := range out.occs {
		if !seen[o] {
			seen[o] = true
			dedup = append(dedup, o)
		}
	}
	out.occs = dedup
	return out
}

// buildReal runs the real generator for every proxy of the world.
func buildReal(w *world) []*proxyOut {
	f := vh.NewF()
	defer f.Done()
	var cfgs []config.Config
	var k8s []*model.Service
	for _, s := range w.Services {
		if s.Kind == "se" {
			cfgs = append(cfgs, seConfig(s))
		} else {
			k8s = append(k8s, k8sService(s))
		}
	}
	for _, d := range w.DRs {
		cfgs = append(cfgs, drConfig(d))
	}
	for _, v := range w.VSs {
		cfgs = append(cfgs, vsConfig(v))
	}
	for _, s := range w.Sidecars {
		cfgs = append(cfgs, scConfig(s))
	}
	cg := core.NewConfigGenTest(f, core.TestOptions{Configs: cfgs, Services: k8s, MeshConfig: meshConfig(w.Mesh), ClusterID: clusterID})
	var outs []*proxyOut
	for i, p := range w.Proxies {
		labels := map[string]string{}
		for k, v := range p.Labels {
			labels[k] = v
		}
		mp := &model.Proxy{
			ID:              fmt.Sprintf("proxy-%d.%s", i, p.NS),
			ConfigNamespace: p.NS,
			Labels:          labels,
			Metadata:        &model.NodeMetadata{Namespace: p.NS, Labels: labels, ClusterID: clusterID},
			IPAddresses:     []string{fmt.Sprintf("10.99.%d.1", i+1)},
		}
		if p.Router {
			mp.Type = model.Router
		}
		outs = append(outs, observe(cg, cg.SetupProxy(mp)))
	}
	return outs
}
