package main

// Minimal reproductions of what fires on the unchanged tree:
//
//	/verif/bin/visref repro            (all)
//	/verif/bin/visref repro vsdest        (R1, R1b, R1c = vsdest-evicts, and their contrasts; a name selects every case it prefixes)
//	/verif/bin/visref repro drdefault     (R2, R2b = drdefault-ns)
//	/verif/bin/visref repro crosslistener (R3)
//
// Each reproduction is a hand-written world run through the same real generator and the same
// oracle as the check; the contrast world differs in one field and is silent.

import (
	"fmt"
	"os"
	"sort"

	"verifharness/internal/quiet"
)

type reproCase struct {
	name  string
	about string
	yaml  string
	w     *world
}

func http80() []portDef { return []portDef{{80, "http", "HTTP"}} }

func reproCases() []reproCase {
	return []reproCase{
		{
			name: "vsdest",
			about: "R1: a ServiceEntry exported to nobody (exportTo ~) in namespace ns1 is delivered to a sidecar of ns1 (no Sidecar resource at all) " +
				"because a VirtualService visible to ns1 routes to its hostname: model/sidecar.go collectImportedServices takes " +
				"HostnameAndNamespace[host][configNamespace] without IsServiceVisible.",
			yaml: `
apiVersion: networking.istio.io/v1
kind: ServiceEntry
metadata: {name: hidden, namespace: ns1}
spec:
  hosts: [hidden.example.com]
  addresses: [10.7.1.1]
  exportTo: ["~"]            # also fires with ["ns2"] (exported to another namespace only)
  ports: [{number: 80, name: http, protocol: HTTP}]
  resolution: DNS
  endpoints: [{address: ep1.backend.test}]
---
apiVersion: networking.istio.io/v1
kind: VirtualService
metadata: {name: front, namespace: ns1}
spec:
  hosts: [front.example.com]
  http:
  - route: [{destination: {host: hidden.example.com}}]
# proxy: sidecar in namespace ns1, no Sidecar resource
# observed: CDS contains outbound|80||hidden.example.com with endpoint ep1.backend.test
`,
			w: &world{
				Services: []*svcDef{{UID: 1, Kind: "se", NS: "ns1", Name: "hidden", Hosts: []string{"hidden.example.com"}, Ports: http80(), ExportTo: []string{"~"}, Resolution: "DNS"}},
				VSs:      []*vsDef{{UID: 2, NS: "ns1", Name: "front", Hosts: []string{"front.example.com"}, Routes: []routeDef{{Kind: "http", Dests: []destDef{{Host: "hidden.example.com"}}}}}},
				Proxies:  []*proxyDef{{NS: "ns1"}},
			},
		},
		{
			name:  "vsdest-other-ns-only",
			about: "R1b: same, service exported only to another namespace (exportTo [ns2]) and the proxy's Sidecar imports just the VirtualService host.",
			w: &world{
				Services: []*svcDef{{UID: 1, Kind: "se", NS: "ns1", Name: "hidden", Hosts: []string{"hidden.example.com"}, Ports: http80(), ExportTo: []string{"ns2"}, Resolution: "DNS"}},
				VSs:      []*vsDef{{UID: 2, NS: "ns1", Name: "front", Hosts: []string{"front.example.com"}, Routes: []routeDef{{Kind: "http", Dests: []destDef{{Host: "hidden.example.com"}}}}}},
				Sidecars: []*scDef{{NS: "ns1", Name: "default", Egress: []egressDef{{Hosts: []string{"./front.example.com"}}}}},
				Proxies:  []*proxyDef{{NS: "ns1"}},
			},
		},
		{
			name:  "vsdest-contrast",
			about: "R1 contrast (expected silent): the same service declared in ns2 instead of ns1 is NOT delivered (pickFirstVisibleNamespace does check visibility).",
			w: &world{
				Services: []*svcDef{{UID: 1, Kind: "se", NS: "ns2", Name: "hidden", Hosts: []string{"hidden.example.com"}, Ports: http80(), ExportTo: []string{"~"}, Resolution: "DNS"}},
				VSs:      []*vsDef{{UID: 2, NS: "ns1", Name: "front", Hosts: []string{"front.example.com"}, Routes: []routeDef{{Kind: "http", Dests: []destDef{{Host: "hidden.example.com"}}}}}},
				Proxies:  []*proxyDef{{NS: "ns1"}},
			},
		},
		{
			name: "vsdest-evicts",
			about: "R1c: positive side of R1. Kubernetes Service ns1/api (api.ns1.svc.cluster.local, port 7070) is exported to ns2 only; ServiceEntry ns2/squat claims the same hostname " +
				"(port 8080) and is exported to everybody. A sidecar of ns1 without any Sidecar resource must receive outbound|8080||api.ns1.svc.cluster.local (the only service with that " +
				"hostname exported to ns1, selected by the default */*). A VirtualService visible to ns1 routes to the hostname: collectImportedServices takes " +
				"HostnameAndNamespace[host][ns1] = the unexported Kubernetes service without IsServiceVisible, and appendSidecarServices lets a Kubernetes service REPLACE the " +
				"ServiceEntry already selected for the hostname. The exported service's cluster disappears from CDS while RDS still routes to it.",
			w: &world{
				Services: []*svcDef{
					{UID: 1, Kind: "k8s", NS: "ns1", Name: "api", Hosts: []string{"api.ns1.svc.cluster.local"}, Ports: []portDef{{7070, "grpc", "GRPC"}}, ExportTo: []string{"ns2"}},
					{UID: 2, Kind: "se", NS: "ns2", Name: "squat", Hosts: []string{"api.ns1.svc.cluster.local"}, Ports: []portDef{{8080, "http-alt", "HTTP"}}, ExportTo: []string{"*"}, Resolution: "STATIC"},
				},
				VSs:     []*vsDef{{UID: 3, NS: "ns1", Name: "front", Hosts: []string{"front.example.com"}, Routes: []routeDef{{Kind: "http", Dests: []destDef{{Host: "api.ns1.svc.cluster.local"}}}}}},
				Proxies: []*proxyDef{{NS: "ns1"}},
			},
		},
		{
			name:  "vsdest-evicts-contrast",
			about: "R1c contrast (expected silent): without the VirtualService the exported ServiceEntry is delivered.",
			w: &world{
				Services: []*svcDef{
					{UID: 1, Kind: "k8s", NS: "ns1", Name: "api", Hosts: []string{"api.ns1.svc.cluster.local"}, Ports: []portDef{{7070, "grpc", "GRPC"}}, ExportTo: []string{"ns2"}},
					{UID: 2, Kind: "se", NS: "ns2", Name: "squat", Hosts: []string{"api.ns1.svc.cluster.local"}, Ports: []portDef{{8080, "http-alt", "HTTP"}}, ExportTo: []string{"*"}, Resolution: "STATIC"},
				},
				Proxies: []*proxyDef{{NS: "ns1"}},
			},
		},
		{
			name: "crosslistener",
			about: "R3: hostname x.example.com exists in ns1 (ports 443, 9000, exportTo .) and in ns2 (ports 8080, 9000, exportTo *). Sidecar of ns1: a listener bound to 8080 importing */x.example.com " +
				"and a catch-all */*. Each listener picks its own namespace for the hostname (8080: ns2, the only one with that port; catch-all: ns1, own namespace wins) but " +
				"appendSidecarServices keeps the first service met per hostname and drops a later one of another namespace: CDS has only outbound|8080||x.example.com while LDS, " +
				"built per listener, has listeners 10.7.1.1_443 and 10.7.1.1_9000 pointing at clusters that are not delivered.",
			yaml: `
apiVersion: networking.istio.io/v1
kind: ServiceEntry
metadata: {name: own, namespace: ns1}
spec:
  hosts: [x.example.com]
  addresses: [10.7.1.1]
  exportTo: ["."]
  ports: [{number: 443, name: tls, protocol: TLS}, {number: 9000, name: tcp, protocol: TCP}]
  resolution: STATIC
  endpoints: [{address: 10.9.1.1}]
---
apiVersion: networking.istio.io/v1
kind: ServiceEntry
metadata: {name: other, namespace: ns2}
spec:
  hosts: [x.example.com]
  addresses: [10.7.2.1]
  ports: [{number: 8080, name: http-alt, protocol: HTTP}, {number: 9000, name: tcp, protocol: TCP}]
  resolution: STATIC
  endpoints: [{address: 10.9.2.1}]
---
apiVersion: networking.istio.io/v1
kind: Sidecar
metadata: {name: default, namespace: ns1}
spec:
  egress:
  - port: {number: 8080, name: http-alt, protocol: HTTP}
    hosts: ["*/x.example.com"]
  - hosts: ["*/*"]
# proxy: sidecar in namespace ns1
# expected: whichever namespace is chosen for the hostname, outbound|9000||x.example.com (both services are exported to ns1,
#           selected by */* and have port 9000, which no port-bound listener owns); for ns1/own also outbound|443||x.example.com
# observed: CDS = [outbound|8080||x.example.com]; LDS 10.7.1.1_443, 10.7.1.1_9000 reference the missing clusters
`,
			w: &world{
				Services: []*svcDef{
					{UID: 1, Kind: "se", NS: "ns1", Name: "own", Hosts: []string{"x.example.com"}, Ports: []portDef{{443, "tls", "TLS"}, {9000, "tcp", "TCP"}}, ExportTo: []string{"."}, Resolution: "STATIC"},
					{UID: 2, Kind: "se", NS: "ns2", Name: "other", Hosts: []string{"x.example.com"}, Ports: []portDef{{8080, "http-alt", "HTTP"}, {9000, "tcp", "TCP"}}, Resolution: "STATIC"},
				},
				Sidecars: []*scDef{{NS: "ns1", Name: "default", Egress: []egressDef{
					{Port: &portDef{8080, "http-alt", "HTTP"}, Hosts: []string{"*/x.example.com"}},
					{Hosts: []string{"*/*"}},
				}}},
				Proxies: []*proxyDef{{NS: "ns1"}},
			},
		},
		{
			name:  "crosslistener-contrast",
			about: "R3 contrast (expected silent): without the port-bound listener the ns1 service is delivered with all its ports.",
			w: &world{
				Services: []*svcDef{
					{UID: 1, Kind: "se", NS: "ns1", Name: "own", Hosts: []string{"x.example.com"}, Ports: []portDef{{443, "tls", "TLS"}, {9000, "tcp", "TCP"}}, ExportTo: []string{"."}, Resolution: "STATIC"},
					{UID: 2, Kind: "se", NS: "ns2", Name: "other", Hosts: []string{"x.example.com"}, Ports: []portDef{{8080, "http-alt", "HTTP"}, {9000, "tcp", "TCP"}}, Resolution: "STATIC"},
				},
				Sidecars: []*scDef{{NS: "ns1", Name: "default", Egress: []egressDef{{Hosts: []string{"*/*"}}}}},
				Proxies:  []*proxyDef{{NS: "ns1"}},
			},
		},
		{
			name: "drdefault",
			about: "R2: MeshConfig.defaultDestinationRuleExportTo: [\"~\"] (documented syntax: same as defaultServiceExportTo, * . ~ and namespace names). A " +
				"DestinationRule without exportTo in ns1 shapes the cluster of a sidecar in ns2: push_context.go setDestinationRules honours only \".\" and \"*\" " +
				"as mesh default and treats every other value as \"*\".",
			yaml: `
meshConfig: {defaultDestinationRuleExportTo: ["~"]}     # also fires with ["ns1"] or ["ns3"]
---
apiVersion: networking.istio.io/v1
kind: ServiceEntry
metadata: {name: svc, namespace: ns1}
spec:
  hosts: [a.example.com]
  ports: [{number: 80, name: http, protocol: HTTP}]
  resolution: DNS
  endpoints: [{address: ep1.backend.test}]
---
apiVersion: networking.istio.io/v1
kind: DestinationRule
metadata: {name: dr, namespace: ns1}
spec:
  host: a.example.com
  trafficPolicy: {connectionPool: {tcp: {maxConnections: 10002}}}
# proxy: sidecar in namespace ns2
# observed: cluster outbound|80||a.example.com has circuit breaker max_connections 10002
`,
			w: &world{
				Mesh:     meshDef{DefDR: []string{"~"}},
				Services: []*svcDef{{UID: 1, Kind: "se", NS: "ns1", Name: "svc", Hosts: []string{"a.example.com"}, Ports: http80(), Resolution: "DNS"}},
				DRs:      []*drDef{{UID: 2, NS: "ns1", Name: "dr", Host: "a.example.com", TopPool: true}},
				Proxies:  []*proxyDef{{NS: "ns2"}},
			},
		},
		{
			name: "drdefault-ns",
			about: "R2b: MeshConfig.defaultDestinationRuleExportTo: [\"ns1\"] - a value the DestinationRule.exportTo field itself accepts, so no question about \"~\". The rule without " +
				"exportTo in ns1 is by the documented default exported to ns1 only, yet it shapes the cluster of a sidecar in ns2.",
			w: &world{
				Mesh:     meshDef{DefDR: []string{"ns1"}},
				Services: []*svcDef{{UID: 1, Kind: "se", NS: "ns1", Name: "svc", Hosts: []string{"a.example.com"}, Ports: http80(), Resolution: "DNS"}},
				DRs:      []*drDef{{UID: 2, NS: "ns1", Name: "dr", Host: "a.example.com", TopPool: true}},
				Proxies:  []*proxyDef{{NS: "ns2"}},
			},
		},
		{
			name:  "drdefault-contrast",
			about: "R2 contrast (expected silent): mesh default [\".\"] is honoured.",
			w: &world{
				Mesh:     meshDef{DefDR: []string{"."}},
				Services: []*svcDef{{UID: 1, Kind: "se", NS: "ns1", Name: "svc", Hosts: []string{"a.example.com"}, Ports: http80(), Resolution: "DNS"}},
				DRs:      []*drDef{{UID: 2, NS: "ns1", Name: "dr", Host: "a.example.com", TopPool: true}},
				Proxies:  []*proxyDef{{NS: "ns2"}},
			},
		},
	}
}

func runRepro(args []string) {
	quiet.Logs("none")
	want := ""
	if len(args) > 0 {
		want = args[0]
	}
	for _, rc := range reproCases() {
		if want != "" && rc.name != want && !(len(rc.name) > len(want) && rc.name[:len(want)] == want) {
			continue
		}
		fmt.Printf("=== %s\n%s\n", rc.name, rc.about)
		if rc.yaml != "" {
			fmt.Println(rc.yaml)
		}
		fmt.Printf("world: %s\n", worldJSON(rc.w))
		if notes := validateWorld(rc.w); len(notes) > 0 {
			fmt.Printf("rejected by istio validation: %v\n", notes)
		}
		outs := buildReal(rc.w)
		st := &checkStats{unspecified: map[string]int{}}
		var names []string
		for n := range outs[0].clusterNames {
			names = append(names, n)
		}
		sort.Strings(names)
		fmt.Printf("outbound clusters delivered to proxy 0: %v\n", names)
		fs := checkProxy(rc.w, 0, outs[0], st)
		if len(fs) == 0 {
			fmt.Println("oracle: silent")
		}
		for _, f := range fs {
			fmt.Printf("oracle: key=%s\n        %s\n", f.key, f.msg)
		}
		fmt.Println()
	}
	os.Exit(0)
}
