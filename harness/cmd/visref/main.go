// Engine visref: property C07 - a proxy only ever receives services visible to and imported by
// its namespace; DestinationRules / VirtualServices not exported to it never shape its config.
//
// The real generator (core.NewConfigGenTest: push context, sidecar scopes, CDS/LDS/RDS builders) is
// run on PRNG worlds; everything delivered to each proxy is scanned for cluster references and for
// markers planted in the input objects, and judged by a visibility evaluator written from the API
// documentation (ref.go).
package main

import (
	"encoding/json"
	"fmt"
	"os"
	"sort"
	"strings"

	"verifharness/internal/quiet"
	"verifharness/internal/vh"
)

const (
	quickWorlds    = 300
	thoroughWorlds = 8000
)

func main() {
	if len(os.Args) > 1 && os.Args[1] == "repro" {
		runRepro(os.Args[2:])
		return
	}
	vh.Main(vh.Prop{
		ID:    "C07",
		Level: "exploration",
		Rule: "case = one PRNG world over namespaces ns1,ns2,ns3,istio-system(root): 4-9 services (ServiceEntries with 1-2 hosts incl. wildcard hosts, hostnames colliding across " +
			"namespaces and with Kubernetes hostnames; Kubernetes Services converted by the real kube.ConvertService from the exportTo annotation), every exportTo form " +
			"(unset, *, ., ~, own/other namespace lists) under mesh default*ExportTo settings (PRNG in quick; thorough additionally enumerates all 6^3 combinations of " +
			"{unset,*,.,~,ns1,[.,ns2]} round-robin and a serviceEntryVisibility stratum), 2-6 DestinationRules and 1-5 VirtualServices (http/tcp/tls, mesh and non-mesh gateways) " +
			"with their own exportTo, Sidecars (namespace-wide, workloadSelector, root-namespace default; 0-2 port-bound listeners + catch-all; host forms ns/h, */h, ./h, ~/h, ~*/h, ~./h, ~ns/h, " +
			"wildcard dnsNames, ~/*, */*) and in 40% of worlds a planted VirtualService-destination shape (destination service in the proxy namespace not exported to it). " +
			"Every object passes istio's admission validation (rejected ones are dropped). For 3 sidecar proxies in distinct namespaces (+ sometimes a router) the real CDS, LDS and RDS " +
			"are generated and every outbound|port|subset|host reference, EDS name, virtual host, SNI match and every planted marker (service VIP / endpoint address, DestinationRule " +
			"maxConnections/SNI/hash header, VirtualService response header, istio metadata) is judged (negative direction); positive direction per hostname: when at least one service " +
			"with the hostname is exported and selected by a port-unrestricted egress host, some deliverable same-hostname service has clusters for all its ports not owned by a port-bound listener. " +
			"Violation keys name the root cause as recognised from the INPUT shape only (leak=...: reason/vsdest/own-ns, DestinationRule exportTo form incl. unset-under-mesh-default; " +
			"missing=cluster explained-by=unexported-own-namespace-virtualservice-destination | egress-listeners-select-different-namespaces | none); an unrecognised shape keeps the generic key. " +
			"Non-trivial: for at least one proxy the reference hides at least one service instance and requires at least one; distinct = hash of the world.",
		Assumptions: []string{
			"trusted base: ref.go, a visibility evaluator written from istio.io/api (sidecar.proto, exportTo of ServiceEntry/VirtualService/DestinationRule, MeshConfig default*ExportTo and serviceEntryVisibility) and the property text",
			"core.NewConfigGenTest (in-memory config store, ServiceEntry registry, memory registry holding services produced by kube.ConvertService) stands for istiod's push context; EDS names are taken from CDS",
			"where the documentation is silent (wildcard-vs-exact egress matching, which same-hostname service wins, ports pulled in by a VirtualService destination) the negative checks use the permissive reading and the positive check the strict one; such cases are counted under unspecified:*",
			"mesh default*ExportTo values \"~\" and namespace lists are inside the quantifier for all three settings: config.proto documents defaultVirtualServiceExportTo/defaultDestinationRuleExportTo as having the same syntax as defaultServiceExportTo (namespace names, * . ~) and ValidateMeshConfig accepts them",
			"all pilot feature flags at their defaults: in particular PILOT_SIDECAR_PICK_BEST_SERVICE_NAMESPACE=true, so pickFirstVisibleNamespace is never executed and not observed; UnifiedSidecarScoping, FilterGatewayClusterConfig, ScopeGatewayToNamespace likewise only in their default setting",
		},
		Anchors: []string{
			"pilot/pkg/model/sidecar.go", "pilot/pkg/model/push_context.go", "pilot/pkg/model/virtualservice.go", "pilot/pkg/model/destination_rule.go",
			"pilot/pkg/model/serviceentry_visibility.go", "pkg/config/host/name.go", "pkg/config/visibility/visibility.go",
		},
		MinNontrivial: func(t string) int { return map[string]int{"quick": 150, "thorough": 4000}[t] },
		Batches:       func(t string) int { return map[string]int{"quick": 6, "thorough": 8}[t] },
		Parallel:      func(t string) int { return map[string]int{"quick": 6, "thorough": 6}[t] }, // <= 6 processes on the shared machine
		TimeoutSec:    func(t string) int { return map[string]int{"quick": 600, "thorough": 2400}[t] },
		Run:           run,
	})
}

func worldJSON(w *world) json.RawMessage {
	b, _ := json.Marshal(w)
	return b
}

// genCase: world i. Quick is a prefix of thorough. In thorough, worlds >= quickWorlds enumerate the
// mesh default combinations round-robin, and every 10th of them is a serviceEntryVisibility world.
func genCase(c *vh.Ctx, i int) *world {
	r := c.Rng("world", i)
	meshIdx := -1
	sev := false
	if i >= quickWorlds {
		meshIdx = (i - quickWorlds) % 216
		sev = i%10 == 7
	} else {
		sev = i%8 == 7
	}
	return genWorld(r, meshIdx, sev)
}

func run(c *vh.Ctx) {
	quiet.Logs("none")
	debug := os.Getenv("VISREF_DEBUG") != ""
	minimised := map[string]bool{}
	for i := 0; i < c.N(quickWorlds, thoroughWorlds); i++ {
		if !c.Mine(i) {
			continue
		}
		c.Case(fmt.Sprintf("world-%d", i), func() {
			w := genCase(c, i)
			for _, n := range validateWorld(w) {
				c.Count("objects_rejected_by_validation", 1)
				c.SetAdd("rejection_reasons", n[:min(len(n), 70)])
			}
			outs := buildReal(w)
			st := &checkStats{unspecified: map[string]int{}}
			var all []finding
			for pi := range w.Proxies {
				all = append(all, checkProxy(w, pi, outs[pi], st)...)
			}
			account(c, w, outs, st)
			if debug {
				fmt.Fprintf(os.Stderr, "WORLD %s\n", worldJSON(w))
				for pi, o := range outs {
					var names []string
					for n := range o.clusterNames {
						names = append(names, n)
					}
					sort.Strings(names)
					fmt.Fprintf(os.Stderr, "PROXY %d CDS %v\n", pi, names)
					for _, oc := range o.occs {
						if oc.What == "cluster" && resKind(oc.Res) != "cds" {
							fmt.Fprintf(os.Stderr, "PROXY %d REF %s -> outbound|%d|%s|%s\n", pi, oc.Res, oc.Port, oc.Subset, oc.Host)
						}
					}
				}
			}
			seen := map[string]bool{}
			for _, f := range all {
				if seen[f.key] {
					c.Count("violations_same_key_same_world", 1)
					continue
				}
				seen[f.key] = true
				payload := map[string]any{"world": worldJSON(w), "proxy": f.proxy, "occurrence": f.occ}
				if !minimised[f.key] && len(minimised) < 5 {
					minimised[f.key] = true
					mw, mmsg := minimise(w, f)
					payload["minimised_world"] = worldJSON(mw)
					payload["minimised_message"] = mmsg
				}
				c.Violation(f.key, f.msg, payload)
			}
		})
	}
}

// account records measured coverage.
func account(c *vh.Ctx, w *world, outs []*proxyOut, st *checkStats) {
	c.Count("worlds", 1)
	c.Count("proxies", len(w.Proxies))
	c.Count("services", len(w.Services))
	c.Count("destination_rules", len(w.DRs))
	c.Count("virtual_services", len(w.VSs))
	c.Count("sidecars", len(w.Sidecars))
	c.Count("negative_assertions", st.negative)
	c.Count("positive_assertions", st.positive)
	c.Count("clusters_delivered_only_via_virtualservice_destination", st.viaVSOnly)
	for k, n := range st.unspecified {
		c.Count("unspecified:"+k, n)
	}
	if w.Planted != "" {
		c.Count("worlds_with_planted_vs_destination_shape", 1)
		c.SetAdd("planted_shapes", w.Planted)
	}
	c.SetAdd("mesh_default_combos", fmt.Sprintf("svc=%v vs=%v dr=%v", w.Mesh.DefSvc, w.Mesh.DefVS, w.Mesh.DefDR))
	if w.Mesh.SEV != nil {
		c.Count("worlds_with_serviceEntryVisibility", 1)
		c.SetAdd("serviceEntryVisibility_forms", fmt.Sprintf("apply=%v resolved=%s", w.Mesh.SEV.ApplyToSidecars, w.Mesh.sevVisibility()))
	}
	nontrivial := false
	for pi, p := range w.Proxies {
		o := outs[pi]
		c.Count("clusters_checked", len(o.clusterNames))
		c.Count("eds_names_checked", len(o.edsNames))
		c.Count("listeners_checked", o.nListeners)
		c.Count("route_configs_checked", o.nRoutes)
		c.Count("virtual_hosts_checked", o.nVHosts)
		c.Count("marker_occurrences_checked", len(o.occs))
		c.Max("clusters_per_proxy", len(o.clusterNames))
		for _, n := range o.unknownNames {
			c.SetAdd("unclassified_cluster_names", n)
		}
		for _, oc := range o.occs {
			c.SetAdd("observation_kinds", resKind(oc.Res)+":"+oc.What+":"+oc.Via)
		}
		v := w.viewFor(p)
		c.SetAdd("scope_origins", proxyKind(p)+":"+v.scope.origin)
		hidden, required := 0, 0
		for i, in := range v.insts {
			if len(v.mayPorts[i]) == 0 {
				hidden++
			}
			if v.mustAll[i] {
				required++
			}
			// (exportTo form x egress host form x object kind) combos
			ef := exportForm(in.svc.ExportTo, in.svc.NS)
			if len(in.svc.ExportTo) == 0 {
				ef = "unset(" + exportForm(effectiveExport(nil, w.Mesh.DefSvc), in.svc.NS) + ")"
			}
			exp := w.svcExported(in.svc, p.NS)
			if v.scope.sc == nil {
				c.SetAdd("combos", fmt.Sprintf("%s|%s|no-sidecar|exported=%v", in.svc.Kind, ef, exp))
				continue
			}
			for _, l := range v.scope.egress() {
				for _, raw := range l.Hosts {
					e, ok := parseEntry(raw, p.NS)
					if !ok || !e.nsMatches(in.svc.NS) || !hostOverlap(in.host, e.dns) {
						continue
					}
					pb := ""
					if l.Port != nil {
						pb = "@port"
					}
					c.SetAdd("combos", fmt.Sprintf("%s|%s|%s%s|exported=%v", in.svc.Kind, ef, egressForm(raw), pb, exp))
				}
			}
		}
		if hidden > 0 && required > 0 {
			nontrivial = true
		}
		for _, d := range w.DRs {
			ef := exportForm(d.ExportTo, d.NS)
			if len(d.ExportTo) == 0 {
				ef = "unset(" + exportForm(effectiveExport(nil, w.Mesh.DefDR), d.NS) + ")"
			}
			c.SetAdd("combos", fmt.Sprintf("dr|%s|selector=%v|applies=%v", ef, d.Selector != nil, v.drOK[d.UID]))
		}
		for _, vs := range w.VSs {
			ef := exportForm(vs.ExportTo, vs.NS)
			if len(vs.ExportTo) == 0 {
				ef = "unset(" + exportForm(effectiveExport(nil, w.Mesh.DefVS), vs.NS) + ")"
			}
			c.SetAdd("combos", fmt.Sprintf("vs|%s|mesh=%v|exported=%v|imported=%v", ef, vs.meshBound(), w.vsExported(vs, p.NS), v.vsOK[vs.UID]))
		}
	}
	if nontrivial {
		c.Nontrivial(vh.Hash(string(worldJSON(w))))
	}
	c.Sample(map[string]any{"world": worldJSON(w), "negative_assertions": st.negative, "positive_assertions": st.positive})
}

// ---------------------------------------------------------------------------------------
// minimisation of a violating world (greedy removal while the same key keeps firing)

func cloneWorld(w *world) *world {
	var c world
	b, _ := json.Marshal(w)
	_ = json.Unmarshal(b, &c)
	return &c
}

func fires(w *world, key string) (bool, string) {
	defer func() { _ = recover() }()
	outs := buildReal(w)
	st := &checkStats{unspecified: map[string]int{}}
	for pi := range w.Proxies {
		for _, f := range checkProxy(w, pi, outs[pi], st) {
			if f.key == key {
				return true, f.msg
			}
		}
	}
	return false, ""
}

func minimise(w *world, f finding) (*world, string) {
	cur := cloneWorld(w)
	cur.Proxies = []*proxyDef{cur.Proxies[f.proxy]}
	ok, msg := fires(cur, f.key)
	if !ok {
		return w, f.msg
	}
	try := func(mut func(x *world) bool) {
		for {
			cand := cloneWorld(cur)
			if !mut(cand) {
				return
			}
			if ok, m := fires(cand, f.key); ok {
				cur, msg = cand, m
				continue
			}
			return
		}
	}
	// remove whole objects, one kind at a time, scanning indexes
	removeAt := func(kind string) {
		for idx := 0; ; {
			n := map[string]int{"svc": len(cur.Services), "dr": len(cur.DRs), "vs": len(cur.VSs), "sc": len(cur.Sidecars)}[kind]
			if idx >= n {
				return
			}
			cand := cloneWorld(cur)
			switch kind {
			case "svc":
				cand.Services = append(cand.Services[:idx], cand.Services[idx+1:]...)
			case "dr":
				cand.DRs = append(cand.DRs[:idx], cand.DRs[idx+1:]...)
			case "vs":
				cand.VSs = append(cand.VSs[:idx], cand.VSs[idx+1:]...)
			case "sc":
				cand.Sidecars = append(cand.Sidecars[:idx], cand.Sidecars[idx+1:]...)
			}
			if ok, m := fires(cand, f.key); ok {
				cur, msg = cand, m
			} else {
				idx++
			}
		}
	}
	for _, k := range []string{"svc", "dr", "vs", "sc"} {
		removeAt(k)
	}
	// simplify inside objects
	try(func(x *world) bool { // mesh defaults
		if x.Mesh.DefSvc != nil {
			x.Mesh.DefSvc = nil
			return true
		}
		return false
	})
	try(func(x *world) bool {
		if x.Mesh.DefVS != nil {
			x.Mesh.DefVS = nil
			return true
		}
		return false
	})
	try(func(x *world) bool {
		if x.Mesh.DefDR != nil {
			x.Mesh.DefDR = nil
			return true
		}
		return false
	})
	try(func(x *world) bool {
		if x.Mesh.SEV != nil {
			x.Mesh.SEV = nil
			return true
		}
		return false
	})
	for si := range cur.Sidecars {
		for li := 0; li < len(cur.Sidecars[si].Egress); li++ {
			for hi := 0; hi < len(cur.Sidecars[si].Egress[li].Hosts); {
				cand := cloneWorld(cur)
				e := &cand.Sidecars[si].Egress[li]
				if len(e.Hosts) <= 1 {
					break
				}
				e.Hosts = append(e.Hosts[:hi], e.Hosts[hi+1:]...)
				if ok, m := fires(cand, f.key); ok {
					cur, msg = cand, m
				} else {
					hi++
				}
			}
		}
		for li := 0; li < len(cur.Sidecars[si].Egress); {
			cand := cloneWorld(cur)
			s := cand.Sidecars[si]
			if len(s.Egress) <= 1 {
				break
			}
			s.Egress = append(s.Egress[:li], s.Egress[li+1:]...)
			if ok, m := fires(cand, f.key); ok {
				cur, msg = cand, m
			} else {
				li++
			}
		}
	}
	for vi := range cur.VSs {
		for ri := 0; ri < len(cur.VSs[vi].Routes); {
			cand := cloneWorld(cur)
			v := cand.VSs[vi]
			if len(v.Routes) <= 1 {
				break
			}
			v.Routes = append(v.Routes[:ri], v.Routes[ri+1:]...)
			if ok, m := fires(cand, f.key); ok {
				cur, msg = cand, m
			} else {
				ri++
			}
		}
		for hi := 0; hi < len(cur.VSs[vi].Hosts); {
			cand := cloneWorld(cur)
			v := cand.VSs[vi]
			if len(v.Hosts) <= 1 {
				break
			}
			v.Hosts = append(v.Hosts[:hi], v.Hosts[hi+1:]...)
			if ok, m := fires(cand, f.key); ok {
				cur, msg = cand, m
			} else {
				hi++
			}
		}
	}
	for si := range cur.Services {
		for pi := 0; pi < len(cur.Services[si].Ports); {
			cand := cloneWorld(cur)
			s := cand.Services[si]
			if len(s.Ports) <= 1 {
				break
			}
			s.Ports = append(s.Ports[:pi], s.Ports[pi+1:]...)
			if ok, m := fires(cand, f.key); ok {
				cur, msg = cand, m
			} else {
				pi++
			}
		}
		for hi := 0; hi < len(cur.Services[si].Hosts); {
			cand := cloneWorld(cur)
			s := cand.Services[si]
			if len(s.Hosts) <= 1 {
				break
			}
			s.Hosts = append(s.Hosts[:hi], s.Hosts[hi+1:]...)
			if ok, m := fires(cand, f.key); ok {
				cur, msg = cand, m
			} else {
				hi++
			}
		}
	}
	for di := range cur.DRs {
		for _, mut := range []func(d *drDef) bool{
			func(d *drDef) bool { r := len(d.Subsets) > 0; d.Subsets = nil; return r },
			func(d *drDef) bool { r := d.TopSNI; d.TopSNI = false; return r },
			func(d *drDef) bool { r := d.TopHash; d.TopHash = false; return r },
			func(d *drDef) bool { r := len(d.PortLevel) > 0; d.PortLevel = nil; return r },
		} {
			cand := cloneWorld(cur)
			if !mut(cand.DRs[di]) {
				continue
			}
			if ok, m := fires(cand, f.key); ok {
				cur, msg = cand, m
			}
		}
	}
	cur.Planted = ""
	return cur, msg
}

func sortedKeys(m map[string]int) []string {
	ks := make([]string, 0, len(m))
	for k := range m {
		ks = append(ks, k)
	}
	sort.Strings(ks)
	return ks
}

var _ = strings.Join
var _ = sortedKeys
