package main

// Reference visibility evaluator, written from the API documentation:
//   istio.io/api networking/v1alpha3 sidecar.proto (Sidecar, IstioEgressListener.hosts, NOTE 1-3),
//   service_entry.proto / virtual_service.proto / destination_rule.proto (exportTo),
//   mesh/v1alpha1 config.proto (default*ExportTo, ServiceEntryVisibility),
// and the text of property C07. It never calls istio's visibility or sidecar-scope code.
//
// Where the documentation is unambiguous the evaluator gives one answer; where it is silent or
// ambiguous it gives two: a permissive one (MAY, used by the negative checks: anything outside
// MAY is a leak) and a strict one (MUST, used by the positive check: anything inside MUST has to
// be delivered). Cases where the two differ are counted as "unspecified".

import (
	"sort"
	"strings"
)

// ---- hostname algebra ("FQDN, optionally a wildcard character in the left-most component") ----

func isWild(h string) bool { return strings.HasPrefix(h, "*") }

// hostSubsetOf: every name denoted by a is denoted by b.
func hostSubsetOf(a, b string) bool {
	a, b = strings.ToLower(a), strings.ToLower(b)
	if b == "*" {
		return true
	}
	if isWild(b) {
		suf := b[1:] // ".example.com"
		if isWild(a) {
			return strings.HasSuffix(a[1:], suf)
		}
		return len(a) > len(suf) && strings.HasSuffix(a, suf)
	}
	return a == b
}

// hostOverlap: some name is denoted by both.
func hostOverlap(a, b string) bool { return hostSubsetOf(a, b) || hostSubsetOf(b, a) }

// ---- exportTo ----

// effectiveExport resolves own exportTo, else the mesh default, else "*" ("If not set the system
// will use * as the default").
func effectiveExport(own, meshDefault []string) []string {
	if len(own) > 0 {
		return own
	}
	if meshDefault != nil {
		return meshDefault
	}
	return []string{"*"}
}

// exportedTo: is an object living in objNS with effective exportTo e exported to namespace ns?
// "." = the namespace the object is declared in, "*" = all, "~" = none, otherwise a namespace name.
func exportedTo(e []string, objNS, ns string) bool {
	for _, x := range e {
		switch x {
		case "*":
			return true
		case ".":
			if objNS == ns {
				return true
			}
		case "~":
		default:
			if x == ns {
				return true
			}
		}
	}
	return false
}

// sevVisibility resolves MeshConfig.serviceEntryVisibility for a ServiceEntry (no namespace in the
// harness carries labels): first policy whose rules all match, else default; unspecified = PUBLIC.
func (m *meshDef) sevVisibility() string {
	s := m.SEV
	if s == nil {
		return "PUBLIC"
	}
	v := s.Default
	if s.PolicyVis != "" && s.PolicyMatchAll {
		v = s.PolicyVis
	}
	if v == "" {
		v = "PUBLIC"
	}
	return v
}

func (w *world) svcExported(s *svcDef, ns string) bool {
	if !exportedTo(effectiveExport(s.ExportTo, w.Mesh.DefSvc), s.NS, ns) {
		return false
	}
	// serviceEntryVisibility "only narrows", only ServiceEntries, only when sidecars opted in
	if s.Kind == "se" && w.Mesh.SEV != nil && w.Mesh.SEV.ApplyToSidecars {
		switch w.Mesh.sevVisibility() {
		case "NONE":
			return false
		case "NAMESPACE":
			return s.NS == ns
		}
	}
	return true
}

func (w *world) vsExported(v *vsDef, ns string) bool {
	return exportedTo(effectiveExport(v.ExportTo, w.Mesh.DefVS), v.NS, ns)
}

// drApplies: exported to the proxy's namespace; a rule with a workloadSelector applies only to
// selected workloads of its own namespace ("Workload selectors do not apply across namespace
// boundaries").
func (w *world) drApplies(d *drDef, p *proxyDef) bool {
	if d.Selector != nil {
		if d.NS != p.NS {
			return false
		}
		for k, v := range d.Selector {
			if p.Labels[k] != v {
				return false
			}
		}
		return exportedTo(effectiveExport(d.ExportTo, []string{"."}), d.NS, p.NS)
	}
	return exportedTo(effectiveExport(d.ExportTo, w.Mesh.DefDR), d.NS, p.NS)
}

// ---- which Sidecar applies to a proxy (sidecar.proto introduction, NOTE 1 and NOTE 2) ----

type scope struct {
	sc        *scDef // nil: no Sidecar applies => everything exported is imported
	ambiguous bool   // several candidates of the same rank: documented as undefined
	origin    string
}

func selects(sel, labels map[string]string) bool {
	for k, v := range sel {
		if labels[k] != v {
			return false
		}
	}
	return true
}

func (w *world) scopeFor(p *proxyDef) scope {
	if p.Router {
		return scope{origin: "router"} // NOTE 3: a Sidecar is not applicable to gateways
	}
	var withSel, without []*scDef
	for _, sc := range w.Sidecars {
		if sc.NS != p.NS {
			continue
		}
		if sc.Selector != nil {
			if selects(sc.Selector, p.Labels) {
				withSel = append(withSel, sc)
			}
		} else {
			without = append(without, sc)
		}
	}
	if len(withSel) > 0 {
		return scope{sc: withSel[0], ambiguous: len(withSel) > 1, origin: "selector"}
	}
	if len(without) > 0 {
		return scope{sc: without[0], ambiguous: len(without) > 1, origin: "namespace"}
	}
	if p.NS != rootNS {
		var root []*scDef
		for _, sc := range w.Sidecars {
			if sc.NS == rootNS && sc.Selector == nil {
				root = append(root, sc)
			}
		}
		if len(root) > 0 {
			return scope{sc: root[0], ambiguous: len(root) > 1, origin: "root"}
		}
	}
	return scope{origin: "none"}
}

// effective egress listeners: "If not specified, inherits the system detected defaults" => */*.
func (s scope) egress() []egressDef {
	if s.sc == nil || len(s.sc.Egress) == 0 {
		return []egressDef{{Hosts: []string{"*/*"}}}
	}
	return s.sc.Egress
}

// ---- egress host entries ----

type hostEntry struct {
	excl bool
	ns   string // "*", or a namespace name ("." already resolved to the proxy's namespace)
	dns  string
}

func parseEntry(h, proxyNS string) (hostEntry, bool) {
	nsPart, dns, ok := strings.Cut(h, "/")
	if !ok || strings.Contains(dns, "/") {
		return hostEntry{}, false
	}
	e := hostEntry{dns: dns}
	if strings.HasPrefix(nsPart, "~") {
		e.excl = true
		nsPart = nsPart[1:]
		if nsPart == "" {
			nsPart = "*" // "a bare ~ namespace is treated as the wildcard namespace *"
		}
	}
	if nsPart == "." {
		nsPart = proxyNS
	}
	e.ns = nsPart
	return e, true
}

func (e hostEntry) nsMatches(ns string) bool { return e.ns == "*" || e.ns == ns }

// listenerImportsHost: does the host list of one egress listener import hostname h of namespace ns?
// "a host is exposed only when it is imported by some entry and not excluded by any entry".
// strict: the host must be within the entry's dnsName; permissive: overlap is enough (the
// documentation says "services ... matching dnsName" and does not settle wildcard-vs-exact).
func listenerImportsHost(l egressDef, proxyNS, ns, h string, strict bool) bool {
	imported := false
	for _, raw := range l.Hosts {
		e, ok := parseEntry(raw, proxyNS)
		if !ok || !e.nsMatches(ns) {
			continue
		}
		if e.excl {
			if strict {
				// MUST-import: any overlapping exclusion could remove it
				if hostOverlap(h, e.dns) {
					return false
				}
			} else if hostSubsetOf(h, e.dns) {
				return false
			}
			continue
		}
		if strict {
			if hostSubsetOf(h, e.dns) {
				imported = true
			}
		} else if hostOverlap(h, e.dns) {
			imported = true
		}
	}
	return imported
}

// ---- VirtualServices a scope imports ----

// vsImportedBy: mesh-bound, exported to the proxy's namespace and one of its hosts selected by the
// listener's host list in the VirtualService's namespace (permissive matching).
func (w *world) vsImportedBy(v *vsDef, l egressDef, p *proxyDef) bool {
	if !v.meshBound() || !w.vsExported(v, p.NS) {
		return false
	}
	for _, h := range v.Hosts {
		if listenerImportsHost(l, p.NS, v.NS, h, false) {
			return true
		}
	}
	return false
}

func (w *world) vsImported(v *vsDef, s scope, p *proxyDef) bool {
	for _, l := range s.egress() {
		if w.vsImportedBy(v, l, p) {
			return true
		}
	}
	return false
}

// ---- the import relation on service instances ----

type instance struct {
	svc  *svcDef
	host string
}

func (w *world) instances() []instance {
	var out []instance
	for _, s := range w.Services {
		for _, h := range s.Hosts {
			out = append(out, instance{s, h})
		}
	}
	return out
}

// view is everything the reference knows about one proxy.
type view struct {
	w     *world
	p     *proxyDef
	scope scope
	// mayPorts[instance index] = ports of the instance the proxy MAY receive (exported AND imported,
	// permissive); mustAll[instance index] = exported AND selected by a port-unrestricted egress host
	// (strict) => all its ports MUST be delivered, modulo the per-hostname choice.
	insts    []instance
	mayPorts []map[int]bool
	mayVia   []string // "hosts", "vs", "hosts+vs"
	mustAll  []bool
	vsOK     map[int]bool // VirtualService UID -> imported (so it may shape routes/listeners)
	drOK     map[int]bool // DestinationRule UID -> applies
}

func (w *world) viewFor(p *proxyDef) *view {
	v := &view{w: w, p: p, scope: w.scopeFor(p), insts: w.instances(), vsOK: map[int]bool{}, drOK: map[int]bool{}}
	v.mayPorts = make([]map[int]bool, len(v.insts))
	v.mayVia = make([]string, len(v.insts))
	v.mustAll = make([]bool, len(v.insts))
	listeners := v.scope.egress()
	for _, d := range w.DRs {
		v.drOK[d.UID] = w.drApplies(d, p)
	}
	for _, vs := range w.VSs {
		v.vsOK[vs.UID] = w.vsImported(vs, v.scope, p)
	}
	for i, in := range v.insts {
		v.mayPorts[i] = map[int]bool{}
		if !w.svcExported(in.svc, p.NS) {
			continue
		}
		via := map[string]bool{}
		for _, l := range listeners {
			// through the host list
			if listenerImportsHost(l, p.NS, in.svc.NS, in.host, false) {
				for _, pt := range in.svc.Ports {
					if l.Port == nil || l.Port.Num == pt.Num {
						v.mayPorts[i][pt.Num] = true
						via["hosts"] = true
					}
				}
			}
			if l.Port == nil && listenerImportsHost(l, p.NS, in.svc.NS, in.host, true) {
				v.mustAll[i] = true
			}
			// as the destination of a VirtualService the listener imports
			for _, vs := range w.VSs {
				if !w.vsImportedBy(vs, l, p) {
					continue
				}
				for _, rt := range vs.Routes {
					dests := append([]destDef{}, rt.Dests...)
					if rt.Mirror != nil {
						dests = append(dests, *rt.Mirror)
					}
					for _, d := range dests {
						if strings.EqualFold(d.Host, in.host) {
							// permissive: every port of the destination service
							for _, pt := range in.svc.Ports {
								v.mayPorts[i][pt.Num] = true
							}
							via["vs"] = true
						}
					}
				}
			}
		}
		var vs []string
		for k := range via {
			vs = append(vs, k)
		}
		sort.Strings(vs)
		v.mayVia[i] = strings.Join(vs, "+")
	}
	return v
}

// mayHostPort: some instance with hostname h and port p may be delivered.
func (v *view) mayHostPort(h string, port int) bool {
	for i, in := range v.insts {
		if strings.EqualFold(in.host, h) && v.mayPorts[i][port] {
			return true
		}
	}
	return false
}

func (v *view) mayHost(h string) bool {
	for i, in := range v.insts {
		if strings.EqualFold(in.host, h) && len(v.mayPorts[i]) > 0 {
			return true
		}
	}
	return false
}

// maySvc: may anything of service object uid be delivered?
func (v *view) maySvc(uid int) bool {
	for i, in := range v.insts {
		if in.svc.UID == uid && len(v.mayPorts[i]) > 0 {
			return true
		}
	}
	return false
}

// siblingMay: some other service object defines one of s's (namespace, hostname) pairs and may be
// delivered. A service is identified by namespace and hostname; several objects for one service
// with different exportTo are a conflict the documentation does not resolve.
func (v *view) siblingMay(s *svcDef) bool {
	for i, in := range v.insts {
		if in.svc.UID != s.UID && in.svc.NS == s.NS && s.hasHost(in.host) && len(v.mayPorts[i]) > 0 {
			return true
		}
	}
	return false
}

func (v *view) mayNamespaceHost(ns, h string) bool {
	for i, in := range v.insts {
		if in.svc.NS == ns && strings.EqualFold(in.host, h) && len(v.mayPorts[i]) > 0 {
			return true
		}
	}
	return false
}

// vsDestinationAllowed: a route/listener may name cluster (host, port, subset) because an imported
// VirtualService routes there (the name is then taken from the VirtualService text, which the proxy
// is entitled to see; whether a cluster of that name is delivered is judged separately).
func (v *view) vsDestinationAllowed(h string, port int, subset string) bool {
	for _, vs := range v.w.VSs {
		if !v.vsOK[vs.UID] {
			continue
		}
		for _, rt := range vs.Routes {
			dests := append([]destDef{}, rt.Dests...)
			if rt.Mirror != nil {
				dests = append(dests, *rt.Mirror)
			}
			for _, d := range dests {
				if strings.EqualFold(d.Host, h) && d.Subset == subset && (d.Port == 0 || d.Port == port) {
					return true
				}
			}
		}
	}
	return false
}

func (v *view) vsHostAllowed(h string) bool {
	for _, vs := range v.w.VSs {
		if !v.vsOK[vs.UID] {
			continue
		}
		for _, x := range vs.Hosts {
			if strings.EqualFold(x, h) {
				return true
			}
		}
	}
	return false
}

// subsetAllowed: subset name s on a cluster of host h comes from an applying DestinationRule whose
// host covers h.
func (v *view) subsetAllowed(h, s string) bool {
	for _, d := range v.w.DRs {
		if !v.drOK[d.UID] || !hostSubsetOf(h, d.Host) {
			continue
		}
		for _, ss := range d.Subsets {
			if ss.Name == s {
				return true
			}
		}
	}
	return false
}
