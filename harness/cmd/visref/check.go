package main

// The oracle: negative (leak) checks on everything a proxy received, positive (delivery) check on
// CDS, both against the reference view of ref.go.

import (
	"fmt"
	"sort"
	"strings"
)

type finding struct {
	key   string
	msg   string
	proxy int
	occ   *occ
}

type checkStats struct {
	negative    int
	positive    int
	unspecified map[string]int
	viaVSOnly   int // clusters delivered only because a VirtualService routes to them
	leakShapes  int
}

func proxyKind(p *proxyDef) string {
	if p.Router {
		return "router"
	}
	return "sidecar"
}

func resKind(res string) string {
	if i := strings.Index(res, ":"); i > 0 {
		return res[:i]
	}
	return res
}

func (w *world) drByUID(uid int) *drDef {
	for _, d := range w.DRs {
		if d.UID == uid {
			return d
		}
	}
	return nil
}

func (w *world) vsByUID(uid int) *vsDef {
	for _, v := range w.VSs {
		if v.UID == uid {
			return v
		}
	}
	return nil
}

func (w *world) svcByUID(uid int) *svcDef {
	for _, s := range w.Services {
		if s.UID == uid {
			return s
		}
	}
	return nil
}

// why explains the reference's verdict on a hostname for the violation message.
func (v *view) why(h string) string {
	var parts []string
	for i, in := range v.insts {
		if !strings.EqualFold(in.host, h) {
			continue
		}
		var ports []int
		for p := range v.mayPorts[i] {
			ports = append(ports, p)
		}
		sort.Ints(ports)
		parts = append(parts, fmt.Sprintf("%s/%s(%s) exportTo=%v exported=%v may-ports=%v via=%q",
			in.svc.NS, in.svc.Name, in.svc.Kind, in.svc.ExportTo, v.w.svcExported(in.svc, v.p.NS), ports, v.mayVia[i]))
	}
	if len(parts) == 0 {
		return "no service with this hostname exists"
	}
	return strings.Join(parts, "; ")
}

// leakClass classifies why (hostname h, port) must not reach the proxy; it is the stable,
// root-cause part of violation keys. port 0 = any port.
//   reason : no-such-service | not-exported | not-imported  (over the services with that hostname and port)
//   vsdest : the hostname is a destination of a VirtualService the scope imports
//   own-ns : a service with that hostname(+port) lives in the proxy's own namespace but is not exported to it
func (v *view) leakClass(h string, port int, onlyUID int) string {
	exists, exported, own := false, false, false
	hosts := map[string]bool{strings.ToLower(h): true}
	if onlyUID != 0 {
		// judging one service object: all its hostnames count
		for _, in := range v.insts {
			if in.svc.UID == onlyUID {
				hosts[strings.ToLower(in.host)] = true
			}
		}
	}
	for _, in := range v.insts {
		if !hosts[strings.ToLower(in.host)] || (port != 0 && !in.svc.hasPort(port)) || (onlyUID != 0 && in.svc.UID != onlyUID) {
			continue
		}
		exists = true
		if v.w.svcExported(in.svc, v.p.NS) {
			exported = true
		} else if in.svc.NS == v.p.NS {
			own = true
		}
	}
	reason := "not-imported"
	switch {
	case !exists:
		reason = "no-such-service"
	case !exported:
		reason = "not-exported"
	}
	vsdest := false
	for _, vs := range v.w.VSs {
		if !v.vsOK[vs.UID] {
			continue
		}
		for _, rt := range vs.Routes {
			for _, d := range rt.Dests {
				if hosts[strings.ToLower(d.Host)] {
					vsdest = true
				}
			}
			if rt.Mirror != nil && hosts[strings.ToLower(rt.Mirror.Host)] {
				vsdest = true
			}
		}
	}
	yn := map[bool]string{true: "yes", false: "no"}
	return fmt.Sprintf("reason=%s vsdest=%s own-ns=%s", reason, yn[vsdest], yn[own])
}

// missingExplainedBy names, from the input shape alone, the known root causes that can make istio
// drop an exported and imported service with hostname h (idxs = instances with that hostname):
//
//	unexported-own-namespace-virtualservice-destination: h is a destination of a VirtualService the
//	  scope imports and a KUBERNETES service with hostname h lives in the proxy's own namespace without
//	  being exported to it (collectImportedServices takes that service without a visibility test and,
//	  being a Kubernetes service, it replaces the exported ServiceEntry already selected for the hostname)
//	egress-listeners-select-different-namespaces: a port-bound egress listener can take hostname h
//	  from a set of namespaces different from the set the port-unrestricted listeners can take it from
//	  (each listener picks its own namespace for the hostname; the scope keeps the first and drops the
//	  other while LDS is still built per listener)
//
// Several matching shapes are joined with "+"; none => "none".
func (v *view) missingExplainedBy(h string, idxs []int) string {
	var out []string
	// (1) VirtualService destination hidden in the proxy's own namespace
	// Only a hidden KUBERNETES service can make clusters go missing: for one hostname a Kubernetes
	// service takes precedence over ServiceEntries and replaces the one already selected; a hidden
	// ServiceEntry is ignored or has its ports merged in (a leak, judged by the negative checks), it
	// never removes anything.
	ownHidden := false
	for _, i := range idxs {
		if v.insts[i].svc.NS == v.p.NS && v.insts[i].svc.Kind == "k8s" && !v.w.svcExported(v.insts[i].svc, v.p.NS) {
			ownHidden = true
		}
	}
	if ownHidden {
		vsdest := false
		for _, vs := range v.w.VSs {
			if !v.vsOK[vs.UID] {
				continue
			}
			for _, rt := range vs.Routes {
				for _, d := range rt.Dests {
					if strings.EqualFold(d.Host, h) {
						vsdest = true
					}
				}
				if rt.Mirror != nil && strings.EqualFold(rt.Mirror.Host, h) {
					vsdest = true
				}
			}
		}
		if vsdest {
			out = append(out, "unexported-own-namespace-virtualservice-destination")
		}
	}
	// (2) listeners that can see the hostname in different sets of namespaces
	if v.scope.sc != nil {
		nc := map[string]bool{}
		for _, l := range v.scope.egress() {
			if l.Port != nil {
				continue
			}
			for _, i := range idxs {
				in := v.insts[i]
				if v.w.svcExported(in.svc, v.p.NS) && listenerImportsHost(l, v.p.NS, in.svc.NS, h, false) {
					nc[in.svc.NS] = true
				}
			}
		}
		split := false
		for _, l := range v.scope.egress() {
			if l.Port == nil {
				continue
			}
			np := map[string]bool{}
			for _, i := range idxs {
				in := v.insts[i]
				if v.w.svcExported(in.svc, v.p.NS) && in.svc.hasPort(l.Port.Num) && listenerImportsHost(l, v.p.NS, in.svc.NS, h, false) {
					np[in.svc.NS] = true
				}
			}
			if len(np) == 0 {
				continue
			}
			same := len(np) == len(nc)
			for ns := range np {
				if !nc[ns] {
					same = false
				}
			}
			if !same {
				split = true
			}
		}
		if split {
			out = append(out, "egress-listeners-select-different-namespaces")
		}
	}
	if len(out) == 0 {
		return "none"
	}
	sort.Strings(out)
	return strings.Join(out, "+")
}

// drLeakKey is the root-cause part of a DestinationRule leak key.
func (v *view) drLeakKey(d *drDef) string {
	form := exportForm(d.ExportTo, d.NS)
	if len(d.ExportTo) == 0 {
		// istio's setDestinationRules says "We only honor . and *" for the mesh default; name that
		// class apart so that it is one key family
		def := exportForm(effectiveExport(nil, v.w.Mesh.DefDR), d.NS)
		if def == "." || def == "*" {
			form = "unset-mesh-default(" + def + ")"
		} else {
			form = "unset-mesh-default-not-dot-or-star(" + def + ")"
		}
	}
	sel := ""
	if d.Selector != nil {
		sel = " selector=yes"
	}
	return fmt.Sprintf("leak=destination-rule exportTo=%s%s", form, sel)
}

func checkProxy(w *world, pi int, out *proxyOut, st *checkStats) []finding {
	p := w.Proxies[pi]
	v := w.viewFor(p)
	var fs []finding
	add := func(key, msg string, o *occ) {
		fs = append(fs, finding{key: fmt.Sprintf("%s proxy=%s", key, proxyKind(p)), msg: fmt.Sprintf("proxy %d ns=%s labels=%v scope=%s: %s", pi, p.NS, p.Labels, v.scope.origin, msg), proxy: pi, occ: o})
	}
	if v.scope.ambiguous {
		st.unspecified["ambiguous-sidecar-selection"]++
		return nil
	}

	// ---------------- negative ----------------
	for i := range out.occs {
		o := &out.occs[i]
		rk := resKind(o.Res)
		switch o.What {
		case "cluster":
			st.negative++
			okSvc := v.mayHostPort(o.Host, o.Port)
			if rk == "cds" {
				if !okSvc {
					add(fmt.Sprintf("leak=service %s in=cds via=cluster-name", v.leakClass(o.Host, o.Port, 0)),
						fmt.Sprintf("%s names outbound|%d|%s|%s but no service with that hostname and port is exported to %s and imported by its scope [%s]", o.Res, o.Port, o.Subset, o.Host, p.NS, v.why(o.Host)), o)
				} else if o.Subset != "" {
					st.negative++
					if !v.subsetAllowed(o.Host, o.Subset) {
						// which rule(s) define the subset? prefer the rule istio itself names in the cluster metadata
						var cands []*drDef
						for _, d := range w.DRs {
							if hostSubsetOf(o.Host, d.Host) {
								for _, ss := range d.Subsets {
									if ss.Name == o.Subset {
										cands = append(cands, d)
									}
								}
							}
						}
						// every generated subset carries its rule's connection-pool marker: exact attribution
						var src *drDef
						for j := range out.occs {
							m := &out.occs[j]
							if m.Res == o.Res && m.What == "dr" && m.Via == "subset-connection-pool" {
								for _, d := range cands {
									if d.UID == m.UID {
										src = d
									}
								}
							}
						}
						switch {
						case len(cands) == 0:
							add("leak=subset-of-no-rule in=cds", fmt.Sprintf("%s: subset %q of %s is defined by no DestinationRule at all", o.Res, o.Subset, o.Host), o)
						case src != nil || len(cands) == 1:
							if src == nil {
								src = cands[0]
							}
							add(v.drLeakKey(src)+" in=cds via=subset-name",
								fmt.Sprintf("%s: subset %q of %s comes from DestinationRule %s/%s (exportTo %v, selector %v, mesh default %v) which does not apply to %s", o.Res, o.Subset, o.Host, src.NS, src.Name, src.ExportTo, src.Selector, w.Mesh.DefDR, p.NS), o)
						default:
							forms := map[string]bool{}
							for _, d := range cands {
								forms[strings.TrimPrefix(v.drLeakKey(d), "leak=destination-rule ")] = true
							}
							var fl []string
							for f := range forms {
								fl = append(fl, f)
							}
							sort.Strings(fl)
							add("leak=destination-rule "+strings.Join(fl, "|")+" in=cds via=subset-name",
								fmt.Sprintf("%s: subset %q of %s is defined only by DestinationRules that do not apply to %s (%d candidates)", o.Res, o.Subset, o.Host, p.NS, len(cands)), o)
						}
					}
				}
			} else if !okSvc && !v.vsDestinationAllowed(o.Host, o.Port, o.Subset) {
				add(fmt.Sprintf("leak=cluster-reference %s in=%s", v.leakClass(o.Host, o.Port, 0), rk),
					fmt.Sprintf("%s references outbound|%d|%s|%s: neither an exported+imported service nor the destination of an imported VirtualService [%s]", o.Res, o.Port, o.Subset, o.Host, v.why(o.Host)), o)
			}
		case "svc":
			st.negative++
			if !v.maySvc(o.UID) {
				s := w.svcByUID(o.UID)
				if s == nil {
					continue
				}
				if v.siblingMay(s) {
					// another object defines the same (namespace, hostname) and may be delivered: the
					// documentation does not say how conflicting entries for one service combine
					st.unspecified["same-namespace-same-hostname-objects-with-different-export"]++
					continue
				}
				add(fmt.Sprintf("leak=service %s in=%s via=%s", v.leakClass(s.Hosts[0], 0, s.UID), rk, o.Via),
					fmt.Sprintf("%s carries the %s of %s/%s (%s, hosts %v, exportTo %v) which must not reach this proxy [%s]", o.Res, o.Via, s.NS, s.Name, s.Kind, s.Hosts, s.ExportTo, v.why(s.Hosts[0])), o)
			}
		case "svcmeta":
			st.negative++
			if !v.mayNamespaceHost(o.NS, o.Host) {
				uid := 0
				for _, in := range v.insts {
					if in.svc.NS == o.NS && strings.EqualFold(in.host, o.Host) && uid == 0 {
						uid = in.svc.UID
					}
				}
				add(fmt.Sprintf("leak=service %s in=%s via=istio-metadata", v.leakClass(o.Host, 0, uid), rk),
					fmt.Sprintf("%s is attributed by istio to service %s/%s which must not reach this proxy [%s]", o.Res, o.NS, o.Host, v.why(o.Host)), o)
			}
		case "dr", "drmeta":
			st.negative++
			var d *drDef
			if o.What == "dr" {
				d = w.drByUID(o.UID)
			} else {
				for _, x := range w.DRs {
					if x.NS == o.NS && x.Name == o.Name {
						d = x
					}
				}
			}
			if d == nil {
				continue
			}
			if !v.drOK[d.UID] {
				add(fmt.Sprintf("%s in=%s via=%s", v.drLeakKey(d), rk, o.Via),
					fmt.Sprintf("%s is shaped (%s) by DestinationRule %s/%s (host %s, exportTo %v, selector %v, mesh default %v) which does not apply to namespace %s", o.Res, o.Via, d.NS, d.Name, d.Host, d.ExportTo, d.Selector, w.Mesh.DefDR, p.NS), o)
			}
		case "vs", "vsmeta":
			st.negative++
			var vs *vsDef
			if o.What == "vs" {
				vs = w.vsByUID(o.UID)
			} else {
				for _, x := range w.VSs {
					if x.NS == o.NS && x.Name == o.Name {
						vs = x
					}
				}
			}
			if vs == nil {
				continue
			}
			if !v.vsOK[vs.UID] {
				reason := "not-imported"
				if !w.vsExported(vs, p.NS) {
					reason = "not-exported"
				} else if !vs.meshBound() {
					reason = "not-mesh-bound"
				}
				form := exportForm(vs.ExportTo, vs.NS)
				if len(vs.ExportTo) == 0 {
					form = "unset-default-" + exportForm(effectiveExport(nil, w.Mesh.DefVS), vs.NS)
				}
				add(fmt.Sprintf("leak=virtual-service reason=%s exportTo=%s in=%s via=%s", reason, form, rk, o.Via),
					fmt.Sprintf("%s is shaped (%s) by VirtualService %s/%s (hosts %v, gateways %v, exportTo %v, mesh default %v) which this proxy must not use", o.Res, o.Via, vs.NS, vs.Name, vs.Hosts, vs.Gateways, vs.ExportTo, w.Mesh.DefVS), o)
			}
		case "vhost":
			st.negative++
			ok := v.vsHostAllowed(o.Host)
			if !ok {
				if o.Port != 0 {
					ok = v.mayHostPort(o.Host, o.Port)
				} else {
					ok = v.mayHost(o.Host)
				}
			}
			if !ok {
				add(fmt.Sprintf("leak=virtual-host %s in=rds", v.leakClass(o.Host, o.Port, 0)),
					fmt.Sprintf("%s has virtual host %s:%d backed by no exported+imported service and no imported VirtualService host [%s]", o.Res, o.Host, o.Port, v.why(o.Host)), o)
			}
		case "sni":
			st.negative++
			ok := v.mayHost(o.Host) || v.vsHostAllowed(o.Host)
			if !ok {
				// TLS routes may match SNI hosts listed in an imported VirtualService
				for _, vs := range w.VSs {
					if !v.vsOK[vs.UID] {
						continue
					}
					for _, rt := range vs.Routes {
						for _, sn := range rt.SNIHosts {
							if strings.EqualFold(sn, o.Host) {
								ok = true
							}
						}
					}
				}
			}
			if !ok {
				add(fmt.Sprintf("leak=sni-match %s in=lds", v.leakClass(o.Host, 0, 0)),
					fmt.Sprintf("%s matches SNI %s which belongs to no exported+imported service and no imported VirtualService [%s]", o.Res, o.Host, v.why(o.Host)), o)
			}
		}
	}
	for n := range out.edsNames {
		st.negative++
		if !out.clusterNames[n] {
			// EDS names are taken from CDS, so this cannot differ; kept as a guard of the harness itself
			add("leak=eds-name-without-cluster", fmt.Sprintf("EDS name %s has no cluster", n), nil)
		}
	}

	// ---------------- positive ----------------
	byHost := map[string][]int{}
	for i, in := range v.insts {
		byHost[strings.ToLower(in.host)] = append(byHost[strings.ToLower(in.host)], i)
	}
	hosts := make([]string, 0, len(byHost))
	for h := range byHost {
		hosts = append(hosts, h)
	}
	sort.Strings(hosts)
	for _, h := range hosts {
		var must, mayOnly []int
		for _, i := range byHost[h] {
			if v.mustAll[i] {
				// strict reading: a service is (namespace, hostname); when another object defines the
				// same service and is NOT exported to this namespace the objects conflict and the
				// documentation does not say which one counts
				conflict := false
				for _, j := range byHost[h] {
					if j != i && v.insts[j].svc.UID != v.insts[i].svc.UID && v.insts[j].svc.NS == v.insts[i].svc.NS && !w.svcExported(v.insts[j].svc, p.NS) {
						conflict = true
					}
				}
				if conflict {
					st.unspecified["same-namespace-same-hostname-objects-with-different-export"]++
					mayOnly = append(mayOnly, i)
					continue
				}
				must = append(must, i)
			} else if len(v.mayPorts[i]) > 0 {
				mayOnly = append(mayOnly, i)
			}
		}
		// may-but-not-must through the host list = matching left open by the documentation
		for _, i := range mayOnly {
			if strings.Contains(v.mayVia[i], "hosts") {
				portBoundOnly := true
				for _, l := range v.scope.egress() {
					if l.Port == nil && listenerImportsHost(l, p.NS, v.insts[i].svc.NS, h, false) {
						portBoundOnly = false
					}
				}
				if !portBoundOnly {
					st.unspecified["wildcard-overlap-import-or-exclusion"]++
				}
			}
		}
		if len(must) == 0 {
			continue
		}
		st.positive++
		// "the hosts exposed on a listener port will be based on the listener with the most specific
		// port": ports owned by a port-bound listener are not required of the catch-all listener
		claimed := map[int]bool{}
		for _, l := range v.scope.egress() {
			if l.Port != nil {
				claimed[l.Port.Num] = true
			}
		}
		// one namespace is legitimately chosen per hostname: the obligation is met by ANY same-hostname
		// service the catch-all listener may have chosen (permissive reading), not only by the strict ones
		cands := append([]int{}, must...)
		for _, i := range byHost[h] {
			if len(v.mayPorts[i]) == 0 {
				continue // not exported to this namespace, or not imported at all
			}
			in := false
			for _, m := range must {
				if m == i {
					in = true
				}
			}
			if in {
				continue
			}
			for _, l := range v.scope.egress() {
				if l.Port == nil && listenerImportsHost(l, p.NS, v.insts[i].svc.NS, h, false) {
					cands = append(cands, i)
					break
				}
			}
		}
		satisfied := false
		var missing []string
		missingNames := map[string]bool{}
		for _, i := range cands {
			all := true
			for _, pt := range v.insts[i].svc.Ports {
				if claimed[pt.Num] {
					continue
				}
				name := fmt.Sprintf("outbound|%d||%s", pt.Num, h)
				if !out.clusterNames[name] {
					all = false
					missing = append(missing, fmt.Sprintf("%s (of %s/%s)", name, v.insts[i].svc.NS, v.insts[i].svc.Name))
					missingNames[name] = true
				}
			}
			if all {
				satisfied = true
				break
			}
		}
		if satisfied {
			continue
		}
		// root cause, recognised from the INPUT shape only (never from what istio produced); a shape
		// that is not recognised keeps explained-by=none and therefore stays a VIOLATION
		explained := v.missingExplainedBy(h, byHost[h])
		// supporting observation: do LDS/RDS of the same proxy reference the clusters CDS lacks?
		var dangling []string
		for j := range out.occs {
			oc := &out.occs[j]
			if oc.What == "cluster" && resKind(oc.Res) != "cds" && missingNames[fmt.Sprintf("outbound|%d|%s|%s", oc.Port, oc.Subset, strings.ToLower(oc.Host))] {
				dangling = append(dangling, oc.Res)
			}
		}
		sort.Strings(dangling)
		add(fmt.Sprintf("missing=cluster explained-by=%s", explained),
			fmt.Sprintf("hostname %s is exported to %s and selected by a port-unrestricted egress host, but no such service has clusters for all its ports; missing %v; resources of this proxy that reference the missing clusters: %v [%s]", h, p.NS, missing, dangling, v.why(h)), nil)
	}

	// coverage: clusters that exist only because a VirtualService routes to them
	for i := range v.insts {
		if v.mayVia[i] == "vs" {
			for pt := range v.mayPorts[i] {
				if out.clusterNames[fmt.Sprintf("outbound|%d||%s", pt, strings.ToLower(v.insts[i].host))] {
					st.viaVSOnly++
					break
				}
			}
		}
	}
	return fs
}
