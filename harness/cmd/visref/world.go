package main

// World grammar for C07: services (ServiceEntry and Kubernetes-registry), Sidecars,
// VirtualServices, DestinationRules, mesh default export settings, proxies.
// Everything is plain data (JSON-serialisable) so that a violation's replay payload is the
// complete input; conversion to istio objects is in real.go.

import (
	"fmt"
	"math/rand"
	"sort"
	"strings"
)

const rootNS = "istio-system"

var (
	appNamespaces = []string{"ns1", "ns2", "ns3"}
	allNamespaces = []string{"ns1", "ns2", "ns3", rootNS}
)

type portDef struct {
	Num   int    `json:"num"`
	Name  string `json:"name"`
	Proto string `json:"proto"`
}

var portPool = []portDef{
	{80, "http", "HTTP"},
	{8080, "http-alt", "HTTP"},
	{443, "tls", "TLS"},
	{9000, "tcp", "TCP"},
	{7070, "grpc", "GRPC"},
}

// svcDef is one service object: a ServiceEntry (possibly several hosts) or a Kubernetes Service.
// UID is planted in the object (VIP 10.7.UID.1, DNS endpoint epUID.backend.test) so that the
// generated config can be attributed to the object and not only to the hostname.
type svcDef struct {
	UID        int       `json:"uid"`
	Kind       string    `json:"kind"` // "se" | "k8s"
	NS         string    `json:"ns"`
	Name       string    `json:"name"`
	Hosts      []string  `json:"hosts"`
	Ports      []portDef `json:"ports"`
	ExportTo   []string  `json:"exportTo"` // nil = unset
	Resolution string    `json:"resolution,omitempty"`
	TS         int       `json:"ts"`
}

func (s *svcDef) vip() string      { return fmt.Sprintf("10.7.%d.1", s.UID) }
func (s *svcDef) endpoint() string { return fmt.Sprintf("ep%d.backend.test", s.UID) }
func (s *svcDef) hasPort(p int) bool {
	for _, q := range s.Ports {
		if q.Num == p {
			return true
		}
	}
	return false
}

func (s *svcDef) hasHost(h string) bool {
	for _, x := range s.Hosts {
		if x == h {
			return true
		}
	}
	return false
}

type subsetDef struct {
	Name   string `json:"name"`
	Marked bool   `json:"marked"` // subset-level connectionPool marker
}

// drDef: markers: top-level maxConnections 10000+UID, SNI drUID.sni.test, consistent-hash header
// x-drhash-UID, subset maxConnections 20000+UID*10+index, port-level maxConnections 30000+UID.
type drDef struct {
	UID       int               `json:"uid"`
	NS        string            `json:"ns"`
	Name      string            `json:"name"`
	Host      string            `json:"host"`
	ExportTo  []string          `json:"exportTo"`
	Subsets   []subsetDef       `json:"subsets,omitempty"`
	TopPool   bool              `json:"topPool,omitempty"`
	TopSNI    bool              `json:"topSNI,omitempty"`
	TopHash   bool              `json:"topHash,omitempty"`
	PortLevel []int             `json:"portLevel,omitempty"`
	Selector  map[string]string `json:"selector,omitempty"`
	TS        int               `json:"ts"`
}

type destDef struct {
	Host   string `json:"host"`
	Port   int    `json:"port,omitempty"`
	Subset string `json:"subset,omitempty"`
	Weight int    `json:"weight,omitempty"`
}

type routeDef struct {
	Kind     string    `json:"kind"` // http | tcp | tls
	Port     int       `json:"port,omitempty"`
	SNIHosts []string  `json:"sniHosts,omitempty"`
	Dests    []destDef `json:"dests"`
	Mirror   *destDef  `json:"mirror,omitempty"`
}

// vsDef: every HTTP route sets the response header x-vs-marker: vsmark-UID.
type vsDef struct {
	UID      int        `json:"uid"`
	NS       string     `json:"ns"`
	Name     string     `json:"name"`
	Hosts    []string   `json:"hosts"`
	Gateways []string   `json:"gateways,omitempty"`
	ExportTo []string   `json:"exportTo"`
	Routes   []routeDef `json:"routes"`
	TS       int        `json:"ts"`
}

func (v *vsDef) meshBound() bool {
	if len(v.Gateways) == 0 {
		return true
	}
	for _, g := range v.Gateways {
		if g == "mesh" {
			return true
		}
	}
	return false
}

type egressDef struct {
	Port  *portDef `json:"port,omitempty"`
	Hosts []string `json:"hosts"`
}

type scDef struct {
	NS       string            `json:"ns"`
	Name     string            `json:"name"`
	Selector map[string]string `json:"selector,omitempty"`
	Egress   []egressDef       `json:"egress,omitempty"`
	TS       int               `json:"ts"`
}

type sevDef struct {
	ApplyToSidecars bool   `json:"applyToSidecars"`
	Default         string `json:"default"`          // "", NONE, NAMESPACE, PUBLIC
	PolicyVis       string `json:"policyVis"`        // "" = no policy
	PolicyMatchAll  bool   `json:"policyMatchesAll"` // namespaceSelector {} (matches every namespace) vs a selector no namespace satisfies
}

type meshDef struct {
	DefSvc []string `json:"defaultServiceExportTo"` // nil = unset
	DefVS  []string `json:"defaultVirtualServiceExportTo"`
	DefDR  []string `json:"defaultDestinationRuleExportTo"`
	SEV    *sevDef  `json:"serviceEntryVisibility,omitempty"`
}

type proxyDef struct {
	NS     string            `json:"ns"`
	Labels map[string]string `json:"labels,omitempty"`
	Router bool              `json:"router,omitempty"`
}

type world struct {
	Mesh     meshDef     `json:"mesh"`
	Services []*svcDef   `json:"services"`
	DRs      []*drDef    `json:"destinationRules"`
	VSs      []*vsDef    `json:"virtualServices"`
	Sidecars []*scDef    `json:"sidecars"`
	Proxies  []*proxyDef `json:"proxies"`
	Planted  string      `json:"planted,omitempty"`
}

// ---------------------------------------------------------------------------------------
// generator

var seHostPool = []string{
	"a.example.com", "b.example.com", "c.example.com",
	"x.wild.example.com", "y.wild.example.com", "*.wild.example.com",
	"wild.example.com", // must NOT be selected by */*.wild.example.com
}

var k8sNames = []string{"web", "api", "db"}

func k8sHost(name, ns string) string { return name + "." + ns + ".svc.cluster.local" }

func pick[T any](r *rand.Rand, xs []T) T { return xs[r.Intn(len(xs))] }

// meshDefaultChoices: the documented syntax of default*ExportTo (list of namespace names and the
// aliases * . ~); nil = unset.
var meshDefaultChoices = [][]string{nil, {"*"}, {"."}, {"~"}, {"ns1"}, {".", "ns2"}}

func genExportTo(r *rand.Rand, own string, allowNone bool) []string {
	other := func() string { return pick(r, allNamespaces) }
	for {
		switch r.Intn(10) {
		case 0, 1, 2:
			return nil
		case 3:
			return []string{"*"}
		case 4, 5:
			return []string{"."}
		case 6:
			if allowNone {
				return []string{"~"}
			}
		case 7:
			return []string{other()}
		case 8:
			a, b := other(), other()
			if a != b {
				return []string{a, b}
			}
		case 9:
			a := other()
			if a != own {
				return []string{".", a}
			}
		}
	}
}

func genPorts(r *rand.Rand) []portDef {
	n := 1 + r.Intn(3)
	perm := r.Perm(len(portPool))
	idx := append([]int{}, perm[:n]...)
	sort.Ints(idx)
	out := make([]portDef, 0, n)
	for _, i := range idx {
		out = append(out, portPool[i])
	}
	return out
}

func genWorld(r *rand.Rand, meshIdx int, withSEV bool) *world {
	w := &world{}
	// mesh defaults: meshIdx < 0 => PRNG; otherwise enumerate the 6^3 combinations
	if meshIdx < 0 {
		if r.Intn(3) > 0 {
			w.Mesh.DefSvc = pick(r, meshDefaultChoices)
		}
		if r.Intn(3) > 0 {
			w.Mesh.DefVS = pick(r, meshDefaultChoices)
		}
		if r.Intn(3) > 0 {
			w.Mesh.DefDR = pick(r, meshDefaultChoices)
		}
	} else {
		n := len(meshDefaultChoices)
		w.Mesh.DefSvc = meshDefaultChoices[meshIdx%n]
		w.Mesh.DefVS = meshDefaultChoices[(meshIdx/n)%n]
		w.Mesh.DefDR = meshDefaultChoices[(meshIdx/n/n)%n]
	}
	if withSEV {
		s := &sevDef{ApplyToSidecars: r.Intn(4) > 0, Default: pick(r, []string{"", "NONE", "NAMESPACE", "PUBLIC"})}
		if r.Intn(2) == 0 {
			s.PolicyVis = pick(r, []string{"NONE", "NAMESPACE", "PUBLIC"})
			s.PolicyMatchAll = r.Intn(2) == 0
		}
		w.Mesh.SEV = s
	}

	uid := 0
	next := func() int { uid++; return uid }
	ts := func() int { return r.Intn(6) } // few distinct values => ties

	// services
	nsvc := 4 + r.Intn(6)
	k8sSeen := map[string]bool{}
	for i := 0; i < nsvc; i++ {
		s := &svcDef{UID: next(), NS: pick(r, allNamespaces), Ports: genPorts(r), TS: ts()}
		if r.Intn(10) < 7 {
			s.Kind = "se"
			s.Name = fmt.Sprintf("se%d", s.UID)
			nh := 1
			if r.Intn(4) == 0 {
				nh = 2
			}
			for len(s.Hosts) < nh {
				var h string
				if r.Intn(8) == 0 {
					// a ServiceEntry squatting on a Kubernetes hostname (possibly of another namespace)
					h = k8sHost(pick(r, k8sNames), pick(r, appNamespaces))
				} else {
					h = pick(r, seHostPool)
				}
				if !s.hasHost(h) {
					s.Hosts = append(s.Hosts, h)
				}
			}
			wild := false
			for _, h := range s.Hosts {
				if strings.HasPrefix(h, "*") {
					wild = true
				}
			}
			if wild {
				s.Resolution = pick(r, []string{"NONE", "STATIC"})
			} else {
				s.Resolution = pick(r, []string{"DNS", "DNS", "STATIC", "NONE"})
			}
			s.ExportTo = genExportTo(r, s.NS, true)
		} else {
			s.Kind = "k8s"
			s.Name = pick(r, k8sNames)
			if s.NS == rootNS {
				s.NS = pick(r, appNamespaces)
			}
			if k8sSeen[s.NS+"/"+s.Name] {
				continue
			}
			k8sSeen[s.NS+"/"+s.Name] = true
			s.Hosts = []string{k8sHost(s.Name, s.NS)}
			s.ExportTo = genExportTo(r, s.NS, true)
		}
		w.Services = append(w.Services, s)
	}

	hostsInWorld := w.hostnames()
	anyHost := func() string {
		switch r.Intn(10) {
		case 0:
			return pick(r, seHostPool)
		case 1:
			return k8sHost(pick(r, k8sNames), pick(r, appNamespaces))
		default:
			return pick(r, hostsInWorld)
		}
	}

	// destination rules
	ndr := 2 + r.Intn(5)
	for i := 0; i < ndr; i++ {
		d := &drDef{UID: next(), NS: pick(r, allNamespaces), TS: ts()}
		d.Name = fmt.Sprintf("dr%d", d.UID)
		switch r.Intn(8) {
		case 0:
			d.Host = "*.example.com"
		case 1:
			d.Host = "*.wild.example.com"
		case 2:
			d.Host = "*.svc.cluster.local"
		default:
			d.Host = anyHost()
		}
		d.ExportTo = genExportTo(r, d.NS, false)
		if r.Intn(10) == 0 {
			d.Selector = map[string]string{"app": pick(r, []string{"a", "b"})}
			if r.Intn(2) == 0 {
				d.ExportTo = nil
			} else {
				d.ExportTo = []string{"."}
			}
		}
		nsub := r.Intn(3)
		for k := 0; k < nsub; k++ {
			name := pick(r, []string{"v1", "v2", fmt.Sprintf("u%d", d.UID)})
			dup := false
			for _, s := range d.Subsets {
				if s.Name == name {
					dup = true
				}
			}
			if !dup {
				d.Subsets = append(d.Subsets, subsetDef{Name: name, Marked: true})
			}
		}
		d.TopPool = r.Intn(3) > 0
		d.TopSNI = r.Intn(3) == 0
		d.TopHash = r.Intn(3) == 0
		if r.Intn(4) == 0 {
			d.PortLevel = []int{pick(r, portPool).Num}
		}
		if !d.TopPool && !d.TopSNI && !d.TopHash && len(d.Subsets) == 0 && len(d.PortLevel) == 0 {
			d.TopPool = true
		}
		w.DRs = append(w.DRs, d)
		// a second rule for the same host in the same namespace with a related exportTo (equal,
		// superset, subset, unrelated): istio merges such rules depending on their exportTo sets
		if d.Selector == nil && r.Intn(4) == 0 {
			e := &drDef{UID: next(), NS: d.NS, Host: d.Host, TS: ts(), TopPool: r.Intn(2) == 0}
			e.Name = fmt.Sprintf("dr%d", e.UID)
			e.Subsets = []subsetDef{{Name: pick(r, []string{"v1", "v2", fmt.Sprintf("u%d", e.UID)}), Marked: true}}
			explicit := func(xs []string) bool {
				for _, x := range xs {
					if x == "*" || x == "." {
						return false
					}
				}
				return len(xs) > 0
			}
			switch {
			case explicit(d.ExportTo) && r.Intn(3) == 0:
				e.ExportTo = append([]string{}, d.ExportTo...)
			case explicit(d.ExportTo) && len(d.ExportTo) > 1 && r.Intn(2) == 0:
				e.ExportTo = []string{d.ExportTo[r.Intn(len(d.ExportTo))]}
			case explicit(d.ExportTo):
				e.ExportTo = append([]string{}, d.ExportTo...)
				for _, ns := range allNamespaces {
					dup := false
					for _, x := range e.ExportTo {
						if x == ns {
							dup = true
						}
					}
					if !dup {
						e.ExportTo = append(e.ExportTo, ns)
						break
					}
				}
			default:
				e.ExportTo = genExportTo(r, e.NS, false)
			}
			w.DRs = append(w.DRs, e)
		}
	}

	// virtual services
	nvs := 1 + r.Intn(5)
	for i := 0; i < nvs; i++ {
		w.VSs = append(w.VSs, genVS(r, w, next(), ts(), anyHost))
	}

	// sidecars
	for _, ns := range allNamespaces {
		p := 6
		if ns == rootNS {
			p = 3
		}
		if r.Intn(10) < p {
			w.Sidecars = append(w.Sidecars, genSidecar(r, w, ns, "default", nil, ts(), anyHost))
		}
		if ns != rootNS && r.Intn(4) == 0 {
			w.Sidecars = append(w.Sidecars, genSidecar(r, w, ns, "for-app-a", map[string]string{"app": "a"}, ts(), anyHost))
		}
	}

	// proxies: three sidecar proxies in distinct namespaces, sometimes a router
	perm := r.Perm(len(allNamespaces))
	for _, i := range perm[:3] {
		p := &proxyDef{NS: allNamespaces[i]}
		switch r.Intn(3) {
		case 0:
			p.Labels = map[string]string{"app": "a"}
		case 1:
			p.Labels = map[string]string{"app": "b"}
		}
		w.Proxies = append(w.Proxies, p)
	}
	sort.Slice(w.Proxies, func(i, j int) bool { return w.Proxies[i].NS < w.Proxies[j].NS })
	if r.Intn(4) == 0 {
		// a router; first or last, because gateways share the namespace's default scope when a sidecar
		// proxy of the namespace asked for it earlier
		gw := &proxyDef{NS: pick(r, allNamespaces), Router: true, Labels: map[string]string{"istio": "ingressgateway"}}
		if r.Intn(2) == 0 {
			w.Proxies = append(w.Proxies, gw)
		} else {
			w.Proxies = append([]*proxyDef{gw}, w.Proxies...)
		}
	}

	// planted shapes (the candidate from DESIGN.md and its neighbours)
	switch r.Intn(20) {
	case 0, 1, 2, 3, 4, 5, 6, 7:
		plant(r, w, next, ts)
	case 8, 9:
		plantCrossListener(r, w, next, ts)
	}
	return w
}

// plantCrossListener: the same hostname in the proxy's namespace P and in another namespace Q; a
// port-bound egress listener can only take Q's service (P's lacks the port) while the catch-all
// listener selects the hostname too (and prefers P's). Found by the PRNG grammar first (seed 4,
// world 243); planted so that every run exercises it.
func plantCrossListener(r *rand.Rand, w *world, next func() int, ts func() int) {
	var sidecars []*proxyDef
	for _, x := range w.Proxies {
		if !x.Router {
			sidecars = append(sidecars, x)
		}
	}
	P := pick(r, sidecars).NS
	Q := P
	for Q == P {
		Q = pick(r, allNamespaces)
	}
	var keep []*scDef
	for _, sc := range w.Sidecars {
		if sc.NS != P {
			keep = append(keep, sc)
		}
	}
	w.Sidecars = keep
	h := pick(r, []string{"shared0.example.com", "a.example.com"})
	bound := pick(r, portPool)
	var ownPorts []portDef
	for _, p := range portPool {
		if p.Num != bound.Num && r.Intn(2) == 0 {
			ownPorts = append(ownPorts, p)
		}
	}
	if len(ownPorts) == 0 {
		for _, p := range portPool {
			if p.Num != bound.Num {
				ownPorts = append(ownPorts, p)
				break
			}
		}
	}
	own := &svcDef{UID: next(), Kind: "se", NS: P, Hosts: []string{h}, Ports: ownPorts, ExportTo: pick(r, [][]string{{"."}, {"*"}}), Resolution: "STATIC", TS: ts()}
	own.Name = fmt.Sprintf("se%d", own.UID)
	other := &svcDef{UID: next(), Kind: "se", NS: Q, Hosts: []string{h}, Ports: []portDef{bound}, ExportTo: []string{"*"}, Resolution: "STATIC", TS: ts()}
	if r.Intn(2) == 0 {
		other.Ports = append(other.Ports, ownPorts[0])
		sort.Slice(other.Ports, func(i, j int) bool { return other.Ports[i].Num < other.Ports[j].Num })
	}
	other.Name = fmt.Sprintf("se%d", other.UID)
	w.Services = append(w.Services, own, other)
	sc := &scDef{NS: P, Name: "default", TS: ts()}
	sc.Egress = []egressDef{
		{Port: &portDef{Num: bound.Num, Name: bound.Name, Proto: bound.Proto}, Hosts: []string{pick(r, []string{"*", Q}) + "/" + h}},
		{Hosts: []string{pick(r, []string{"*/*", "./" + h, "./*"})}},
	}
	w.Sidecars = append(w.Sidecars, sc)
	w.Planted = "cross-listener-same-hostname"
}

func (w *world) hostnames() []string {
	seen := map[string]bool{}
	var out []string
	for _, s := range w.Services {
		for _, h := range s.Hosts {
			if !seen[h] {
				seen[h] = true
				out = append(out, h)
			}
		}
	}
	sort.Strings(out)
	return out
}

func genDest(r *rand.Rand, w *world, anyHost func() string) destDef {
	d := destDef{Host: anyHost()}
	if strings.HasPrefix(d.Host, "*") {
		d.Host = "x.wild.example.com"
	}
	if r.Intn(2) == 0 {
		d.Port = pick(r, portPool).Num
	}
	switch r.Intn(5) {
	case 0:
		d.Subset = "v1"
	case 1:
		if len(w.DRs) > 0 {
			dr := pick(r, w.DRs)
			if len(dr.Subsets) > 0 {
				d.Subset = pick(r, dr.Subsets).Name
			}
		}
	}
	return d
}

func genVS(r *rand.Rand, w *world, uid, ts int, anyHost func() string) *vsDef {
	v := &vsDef{UID: uid, NS: pick(r, allNamespaces), TS: ts}
	v.Name = fmt.Sprintf("vs%d", uid)
	nh := 1 + r.Intn(2)
	for len(v.Hosts) < nh {
		var h string
		switch r.Intn(6) {
		case 0:
			h = fmt.Sprintf("vsonly%d.example.com", r.Intn(3))
		case 1:
			h = pick(r, []string{"*.example.com", "*.wild.example.com"})
		default:
			h = anyHost()
		}
		dup := false
		for _, x := range v.Hosts {
			if x == h {
				dup = true
			}
		}
		if !dup {
			v.Hosts = append(v.Hosts, h)
		}
	}
	switch r.Intn(10) {
	case 0:
		v.Gateways = []string{"mesh"}
	case 1:
		v.Gateways = []string{rootNS + "/gw"}
	case 2:
		v.Gateways = []string{"mesh", rootNS + "/gw"}
	}
	v.ExportTo = genExportTo(r, v.NS, false)
	nr := 1 + r.Intn(2)
	for k := 0; k < nr; k++ {
		rt := routeDef{Kind: "http"}
		switch r.Intn(8) {
		case 0:
			rt.Kind = "tcp"
			rt.Port = 9000
		case 1:
			rt.Kind = "tls"
			rt.Port = 443
			h := v.Hosts[0]
			rt.SNIHosts = []string{h}
		}
		nd := 1 + r.Intn(2)
		for j := 0; j < nd; j++ {
			rt.Dests = append(rt.Dests, genDest(r, w, anyHost))
		}
		if nd == 2 {
			rt.Dests[0].Weight = 30
			rt.Dests[1].Weight = 70
		}
		if rt.Kind == "http" && r.Intn(6) == 0 {
			m := genDest(r, w, anyHost)
			rt.Mirror = &m
		}
		v.Routes = append(v.Routes, rt)
	}
	return v
}

var egressDNSForms = []string{"*", "*.example.com", "*.wild.example.com", "*.svc.cluster.local", "*.ns2.svc.cluster.local", "*.com"}

func genEgressHost(r *rand.Rand, w *world, anyHost func() string) string {
	var nsPart string
	switch r.Intn(12) {
	case 0, 1, 2:
		nsPart = "*"
	case 3, 4, 5:
		nsPart = "."
	case 6:
		nsPart = pick(r, []string{"~", "~*", "~."})
	case 7:
		nsPart = "~" + pick(r, allNamespaces)
	default:
		nsPart = pick(r, allNamespaces)
	}
	var dns string
	switch r.Intn(10) {
	case 0, 1, 2:
		dns = pick(r, egressDNSForms)
	case 3:
		dns = fmt.Sprintf("vsonly%d.example.com", r.Intn(3))
	case 4:
		if len(w.VSs) > 0 {
			dns = pick(r, pick(r, w.VSs).Hosts)
		} else {
			dns = anyHost()
		}
	default:
		dns = anyHost()
	}
	return nsPart + "/" + dns
}

func genSidecar(r *rand.Rand, w *world, ns, name string, sel map[string]string, ts int, anyHost func() string) *scDef {
	sc := &scDef{NS: ns, Name: name, Selector: sel, TS: ts}
	if r.Intn(12) == 0 {
		return sc // no egress section at all: documented to inherit the defaults
	}
	if r.Intn(15) == 0 {
		sc.Egress = []egressDef{{Hosts: []string{"~/*"}}}
		return sc
	}
	nPortBound := 0
	switch r.Intn(10) {
	case 0, 1, 2:
		nPortBound = 1
	case 3:
		nPortBound = 2
	}
	perm := r.Perm(len(portPool))
	for i := 0; i < nPortBound; i++ {
		p := portPool[perm[i]]
		e := egressDef{Port: &portDef{Num: p.Num, Name: p.Name, Proto: p.Proto}}
		nh := 1 + r.Intn(3)
		for k := 0; k < nh; k++ {
			e.Hosts = append(e.Hosts, genEgressHost(r, w, anyHost))
		}
		sc.Egress = append(sc.Egress, e)
	}
	if nPortBound == 0 || r.Intn(5) > 0 {
		e := egressDef{}
		if r.Intn(8) == 0 {
			e.Hosts = []string{"*/*"}
			if r.Intn(2) == 0 {
				e.Hosts = append(e.Hosts, genEgressHost(r, w, anyHost))
			}
		} else {
			nh := 1 + r.Intn(4)
			for k := 0; k < nh; k++ {
				e.Hosts = append(e.Hosts, genEgressHost(r, w, anyHost))
			}
		}
		sc.Egress = append(sc.Egress, e)
	}
	return sc
}

// plant adds the shape named in DESIGN.md: a proxy namespace P whose Sidecar imports a
// VirtualService by host but not the VirtualService's destination H by host list, while H exists in
// P itself with an exportTo that does NOT include P ("~" or other namespaces only) - plus
// neighbours of that shape (H only in another namespace and not exported; H exported).
func plant(r *rand.Rand, w *world, next func() int, ts func() int) {
	var sidecars []*proxyDef
	for _, x := range w.Proxies {
		if !x.Router {
			sidecars = append(sidecars, x)
		}
	}
	p := pick(r, sidecars)
	P := p.NS
	// replace the Sidecars that could apply to p by one we control
	var keep []*scDef
	for _, sc := range w.Sidecars {
		if sc.NS != P {
			keep = append(keep, sc)
		}
	}
	w.Sidecars = keep
	vsHost := fmt.Sprintf("planted%d.example.com", r.Intn(2))
	destHost := pick(r, []string{"a.example.com", "b.example.com", "hidden.example.com"})
	vsNS := P
	if r.Intn(3) == 0 {
		vsNS = pick(r, allNamespaces)
	}
	svcNS := P
	shape := "dest-in-proxy-ns"
	if r.Intn(4) == 0 {
		for svcNS == P {
			svcNS = pick(r, allNamespaces)
		}
		shape = "dest-in-other-ns"
	}
	var exp []string
	switch r.Intn(6) {
	case 0:
		exp = []string{"~"}
	case 1, 2:
		o := P
		for o == P {
			o = pick(r, allNamespaces)
		}
		exp = []string{o}
	case 3:
		exp = []string{"."}
	case 4:
		exp = nil
	case 5:
		exp = []string{"*"}
	}
	s := &svcDef{UID: next(), Kind: "se", NS: svcNS, Hosts: []string{destHost}, Ports: genPorts(r), ExportTo: exp,
		Resolution: pick(r, []string{"DNS", "STATIC"}), TS: ts()}
	s.Name = fmt.Sprintf("se%d", s.UID)
	w.Services = append(w.Services, s)
	v := &vsDef{UID: next(), NS: vsNS, Hosts: []string{vsHost}, TS: ts()}
	v.Name = fmt.Sprintf("vs%d", v.UID)
	if vsNS != P {
		v.ExportTo = pick(r, [][]string{{"*"}, {P}, nil})
	} else {
		v.ExportTo = pick(r, [][]string{{"."}, nil, {"*"}})
	}
	d := destDef{Host: destHost}
	if r.Intn(2) == 0 {
		d.Port = s.Ports[0].Num
	}
	kind := "http"
	port := 0
	switch r.Intn(6) {
	case 0:
		kind, port = "tcp", 9000
	}
	v.Routes = []routeDef{{Kind: kind, Port: port, Dests: []destDef{d}}}
	w.VSs = append(w.VSs, v)
	nsPart := vsNS
	if vsNS == P && r.Intn(2) == 0 {
		nsPart = "."
	} else if r.Intn(4) == 0 {
		nsPart = "*"
	}
	sc := &scDef{NS: P, Name: "default", TS: ts()}
	e := egressDef{Hosts: []string{nsPart + "/" + vsHost}}
	if r.Intn(3) == 0 {
		o := P
		for o == P || o == svcNS {
			o = pick(r, allNamespaces)
		}
		e.Hosts = append(e.Hosts, o+"/*")
	}
	if r.Intn(4) == 0 {
		pp := s.Ports[0]
		e.Port = &portDef{Num: pp.Num, Name: pp.Name, Proto: pp.Proto}
	}
	sc.Egress = []egressDef{e}
	w.Sidecars = append(w.Sidecars, sc)
	w.Planted = fmt.Sprintf("%s exportTo=%s", shape, exportForm(exp, svcNS))
}

// exportForm classifies an exportTo list for coverage accounting.
func exportForm(e []string, own string) string {
	if len(e) == 0 {
		return "unset"
	}
	var parts []string
	for _, x := range e {
		switch x {
		case "*", ".", "~":
			parts = append(parts, x)
		default:
			if x == own {
				parts = append(parts, "own-ns")
			} else {
				parts = append(parts, "other-ns")
			}
		}
	}
	sort.Strings(parts)
	return strings.Join(parts, "+")
}

// egressForm classifies an egress host entry.
func egressForm(h string) string {
	nsPart, dns, _ := strings.Cut(h, "/")
	var n string
	switch {
	case nsPart == "*", nsPart == ".", nsPart == "~", nsPart == "~*", nsPart == "~.":
		n = nsPart
	case strings.HasPrefix(nsPart, "~"):
		n = "~ns"
	default:
		n = "ns"
	}
	var d string
	switch {
	case dns == "*":
		d = "*"
	case strings.HasPrefix(dns, "*"):
		d = "*.suffix"
	default:
		d = "exact"
	}
	return n + "/" + d
}
