package main

// World generator (stratum V). Small literal pools make objects collide: the same host in several
// ServiceEntries and namespaces, overlapping wildcards, the same port number with different
// protocols, the same VIP for several services, several Gateways with the same servers bound to one
// workload, subsets nobody backs, delegates, tcp/tls routes, Sidecars with port listeners and
// EnvoyFilter patches from a template list. Every draw comes from the *rand.Rand handed in; no map
// iteration feeds a draw. Every object is passed through the real admission validator of its kind by
// the caller (validateWorld); rejected objects are dropped and counted.

import (
	"fmt"
	"math/rand"
	"sort"
	"strings"
	"time"

	"google.golang.org/protobuf/types/known/durationpb"
	"google.golang.org/protobuf/types/known/wrapperspb"

	meshconfig "istio.io/api/mesh/v1alpha1"
	networking "istio.io/api/networking/v1alpha3"
	securityv1beta1 "istio.io/api/security/v1beta1"
	typev1beta1 "istio.io/api/type/v1beta1"
	"istio.io/istio/pkg/config"
	"istio.io/istio/pkg/config/schema/gvk"
)

const rootNS = "istio-system"

var (
	namespaces = []string{"ns1", "ns2", "ns3"}
	baseTime   = time.Date(2024, 1, 1, 0, 0, 0, 0, time.UTC)
)

type proxyDef struct {
	Kind         string            `json:"kind"` // sidecar | router
	NS           string            `json:"ns"`
	Labels       map[string]string `json:"labels"`
	IPs          []string          `json:"ips"`
	IstioVersion string            `json:"istioVersion"`
	DNSCapture   bool              `json:"dnsCapture,omitempty"`
	DNSAutoAlloc bool              `json:"dnsAutoAllocate,omitempty"`
	HTTP10       bool              `json:"http10,omitempty"`
	Interception string            `json:"interception,omitempty"`
	Unprivileged bool              `json:"unprivileged,omitempty"`
	ExactBalance bool              `json:"exactBalance,omitempty"`
	Locality     string            `json:"locality,omitempty"`
}

func (p *proxyDef) String() string {
	keys := make([]string, 0, len(p.Labels))
	for k := range p.Labels {
		keys = append(keys, k)
	}
	sort.Strings(keys)
	var sb strings.Builder
	for _, k := range keys {
		fmt.Fprintf(&sb, "%s=%s,", k, p.Labels[k])
	}
	return fmt.Sprintf("%s/%s{%s}", p.Kind, p.NS, strings.TrimSuffix(sb.String(), ","))
}

type world struct {
	Configs  []config.Config
	Proxies  []*proxyDef
	Mesh     *meshconfig.MeshConfig
	FilterGW bool // PILOT_FILTER_GATEWAY_CLUSTER_CONFIG for this world

	Generated int
	Rejected  map[string]int // kind -> objects dropped by the admission validator

	seq int
}

func pick[T any](r *rand.Rand, xs []T) T { return xs[r.Intn(len(xs))] }

func chance(r *rand.Rand, pct int) bool { return r.Intn(100) < pct }

func (w *world) add(r *rand.Rand, k config.GroupVersionKind, name, ns string, spec config.Spec) {
	// creation timestamps with ties
	ts := baseTime.Add(time.Duration(r.Intn(6)) * time.Minute)
	// names are unique per (kind, namespace)
	for _, c := range w.Configs {
		if c.GroupVersionKind == k && c.Namespace == ns && c.Name == name {
			name = fmt.Sprintf("%s-%d", name, w.seq)
		}
	}
	w.seq++
	w.Configs = append(w.Configs, config.Config{
		Meta: config.Meta{GroupVersionKind: k, Name: name, Namespace: ns, CreationTimestamp: ts, Domain: "cluster.local"},
		Spec: spec,
	})
}

func (w *world) ofKind(k config.GroupVersionKind) []*config.Config {
	var out []*config.Config
	for i := range w.Configs {
		if w.Configs[i].GroupVersionKind == k {
			out = append(out, &w.Configs[i])
		}
	}
	return out
}

// ---------------------------------------------------------------------------------------
// literal pools

var (
	exactHosts = []string{"a.example.com", "b.example.com", "api.b.example.com", "c.example.com", "db.corp.internal", "cache.corp.internal",
		"svc-a.ns1.svc.cluster.local", "svc-b.ns2.svc.cluster.local", "svc-a.ns2.svc.cluster.local"}
	caseHosts  = []string{"A.example.com", "B.Example.com", "DB.corp.internal"}
	wildHosts  = []string{"*.example.com", "*.example.com", "*.b.example.com", "*.corp.internal", "*.corp.internal", "*.ns1.svc.cluster.local", "*.ns3.svc.cluster.local", "*.com"}
	vips       = []string{"10.10.0.1", "10.10.0.2", "10.10.0.3", "240.240.0.1"}
	cidrs      = []string{"10.20.0.0/24", "10.20.0.0/16", "10.10.0.1/32"}
	epIPs      = []string{"10.30.0.1", "10.30.0.2", "10.30.0.3", "10.30.1.1", "10.9.1.1", "10.9.2.1"}
	epHosts    = []string{"backend-1.internal", "backend-2.internal", "a.example.com"}
	localities = []string{"region1/zone1/sub1", "region1/zone2", "region2/zone1", ""}
	gwHosts    = []string{"shop.example.org", "api.example.org", "*.example.org", "*", "a.example.com", "*.example.com", "pay.shop.example.org", "SHOP.example.org"}
	credNames  = []string{"cred-a", "cred-b", "cred-c"}
	labelSets  = []map[string]string{{"app": "a"}, {"app": "a", "version": "v1"}, {"app": "b"}, {"version": "v2"}, {"app": "a", "version": "v2"}, {"app": "c"}}
)

type portT struct {
	num   uint32
	proto string
}

var portPool = []portT{
	{80, "HTTP"}, {80, "TCP"}, {80, "HTTP2"}, {80, ""}, {8080, "HTTP"}, {8080, "GRPC"}, {8080, "TCP"}, {8080, ""},
	{443, "HTTPS"}, {443, "TLS"}, {443, "TCP"}, {443, "HTTP"}, {9090, "TCP"}, {9090, "HTTP"}, {9090, "GRPC-WEB"},
	{3306, "MYSQL"}, {3306, "TCP"}, {27017, "MONGO"}, {6379, "REDIS"}, {53, "UDP"}, {7070, "HTTP_PROXY"},
}

func genExportTo(r *rand.Rand) []string {
	switch r.Intn(10) {
	case 0:
		return []string{"."}
	case 1:
		return []string{"*"}
	case 2:
		return []string{pick(r, namespaces)}
	case 3:
		return []string{"ns1", "ns2"}
	case 4:
		return []string{rootNS, "ns1"}
	}
	return nil
}

// ---------------------------------------------------------------------------------------
// services

func genPorts(r *rand.Rand) []*networking.ServicePort {
	n := 1 + r.Intn(3)
	var out []*networking.ServicePort
	seenNum := map[uint32]bool{}
	for len(out) < n {
		p := pick(r, portPool)
		if chance(r, 2) {
			// ports the sidecar itself listens on (valid for a ServiceEntry; rare in practice)
			p = pick(r, []portT{{15006, "TCP"}, {15001, "HTTP"}, {15001, "TCP"}, {15090, "HTTP"}, {15021, "HTTP"}})
		}
		if seenNum[p.num] {
			if chance(r, 50) {
				n--
			}
			continue
		}
		seenNum[p.num] = true
		name := strings.ReplaceAll(strings.ToLower(p.proto), "_", "-")
		if name == "" {
			name = "port"
		}
		sp := &networking.ServicePort{Number: p.num, Protocol: p.proto, Name: fmt.Sprintf("%s-%d", name, p.num)}
		if chance(r, 20) {
			sp.TargetPort = pick(r, []uint32{8080, 8443, 9999, p.num})
		}
		if chance(r, 10) {
			// protocol selection by port name only
			sp.Protocol = ""
			sp.Name = pick(r, []string{"http", "tcp", "grpc-x", "https", "tls", "mongo", "foo"}) + fmt.Sprint(len(out))
		}
		out = append(out, sp)
	}
	return out
}

func genEndpoint(r *rand.Rand, dns bool, ports []*networking.ServicePort) *networking.WorkloadEntry {
	we := &networking.WorkloadEntry{}
	if dns {
		we.Address = pick(r, epHosts)
		if chance(r, 20) {
			we.Address = pick(r, epIPs)
		}
	} else {
		we.Address = pick(r, epIPs)
		if chance(r, 5) {
			we.Address = "2001:db8::" + fmt.Sprint(1+r.Intn(3))
		}
		if chance(r, 4) {
			we.Address = "unix:///var/run/app.sock"
		}
	}
	if chance(r, 60) {
		we.Labels = map[string]string{"version": pick(r, []string{"v1", "v2", "v3"})}
		if chance(r, 40) {
			we.Labels["app"] = pick(r, []string{"a", "b"})
		}
	}
	if chance(r, 30) && !strings.HasPrefix(we.Address, "unix://") {
		we.Ports = map[string]uint32{}
		for _, p := range ports {
			if chance(r, 70) {
				we.Ports[p.Name] = pick(r, []uint32{p.Number, 18080, 19090})
			}
		}
	}
	if chance(r, 30) {
		we.Locality = pick(r, localities)
	}
	if chance(r, 15) {
		we.Network = pick(r, []string{"network1", "network2"})
	}
	if chance(r, 20) {
		we.Weight = uint32(pick(r, []int{1, 2, 10, 100, 0}))
	}
	if chance(r, 20) {
		we.ServiceAccount = "sa-" + pick(r, []string{"a", "b"})
	}
	return we
}

func (w *world) genServiceEntry(r *rand.Rand, i int) {
	se := &networking.ServiceEntry{}
	ns := pick(r, namespaces)
	if chance(r, 10) {
		ns = rootNS
	}
	// hosts
	nh := 1
	if chance(r, 35) {
		nh = 2 + r.Intn(2)
	}
	wild := false
	for len(se.Hosts) < nh {
		var h string
		switch k := r.Intn(20); {
		case k < 13:
			h = pick(r, exactHosts)
		case k < 14:
			h = pick(r, caseHosts)
		default:
			h = pick(r, wildHosts)
			wild = true
		}
		dup := false
		for _, o := range se.Hosts {
			if o == h {
				dup = true
			}
		}
		if !dup {
			se.Hosts = append(se.Hosts, h)
		}
	}
	se.Ports = genPorts(r)
	if len(se.Hosts) > 1 {
		// several hosts are admitted only with HTTP / TLS ports
		kept := se.Ports[:0]
		for _, p := range se.Ports {
			switch strings.ToUpper(p.Protocol) {
			case "HTTP", "HTTP2", "GRPC", "GRPC-WEB", "HTTPS", "TLS", "HTTP_PROXY":
				kept = append(kept, p)
			}
		}
		if len(kept) == 0 {
			kept = append(kept, &networking.ServicePort{Number: 80, Protocol: "HTTP", Name: "http-80"})
		}
		se.Ports = kept
	}
	// resolution
	switch k := r.Intn(10); {
	case k < 4:
		se.Resolution = networking.ServiceEntry_STATIC
	case k < 6:
		se.Resolution = networking.ServiceEntry_DNS
	case k < 7:
		se.Resolution = networking.ServiceEntry_DNS_ROUND_ROBIN
	default:
		se.Resolution = networking.ServiceEntry_NONE
	}
	if wild && chance(r, 70) {
		se.Resolution = networking.ServiceEntry_NONE
	}
	// addresses
	switch k := r.Intn(10); {
	case k < 4:
		se.Addresses = []string{pick(r, vips)}
	case k < 5:
		se.Addresses = []string{pick(r, cidrs)}
	case k < 6:
		se.Addresses = []string{pick(r, vips), pick(r, cidrs)}
	case k < 7:
		se.Addresses = []string{pick(r, vips), "2001:db8:1::" + fmt.Sprint(1+r.Intn(2))}
	}
	// endpoints
	switch se.Resolution {
	case networking.ServiceEntry_STATIC:
		if chance(r, 25) {
			se.WorkloadSelector = &networking.WorkloadSelector{Labels: pick(r, labelSets)}
		} else {
			n := r.Intn(4)
			if n == 0 && len(se.Addresses) == 0 {
				n = 1
			}
			for k := 0; k < n; k++ {
				se.Endpoints = append(se.Endpoints, genEndpoint(r, false, se.Ports))
			}
		}
	case networking.ServiceEntry_DNS, networking.ServiceEntry_DNS_ROUND_ROBIN:
		n := r.Intn(3)
		if se.Resolution == networking.ServiceEntry_DNS_ROUND_ROBIN && n > 1 {
			n = 1
		}
		for k := 0; k < n; k++ {
			se.Endpoints = append(se.Endpoints, genEndpoint(r, true, se.Ports))
		}
	case networking.ServiceEntry_NONE:
		if chance(r, 20) {
			se.WorkloadSelector = &networking.WorkloadSelector{Labels: pick(r, labelSets)}
		}
	}
	if chance(r, 40) {
		se.Location = networking.ServiceEntry_MESH_INTERNAL
	}
	if se.Resolution != networking.ServiceEntry_NONE && se.Resolution != networking.ServiceEntry_STATIC {
		kept := se.Addresses[:0]
		for _, a := range se.Addresses {
			if !strings.Contains(a, "/") {
				kept = append(kept, a)
			}
		}
		se.Addresses = kept
		if wild && len(se.Endpoints) == 0 {
			se.Endpoints = append(se.Endpoints, genEndpoint(r, true, se.Ports))
		}
	}
	se.ExportTo = genExportTo(r)
	if chance(r, 15) {
		se.SubjectAltNames = []string{"spiffe://cluster.local/ns/" + ns + "/sa/x"}
	}
	w.add(r, gvk.ServiceEntry, fmt.Sprintf("se-%d", i), ns, se)
}

func (w *world) genWorkloadEntry(r *rand.Rand, i int) {
	we := &networking.WorkloadEntry{
		Address: pick(r, epIPs),
		Labels:  pick(r, labelSets),
	}
	if chance(r, 30) {
		we.Locality = pick(r, localities)
	}
	if chance(r, 20) {
		we.Ports = map[string]uint32{"http-80": 8080}
	}
	if chance(r, 15) {
		we.Network = "network2"
	}
	w.add(r, gvk.WorkloadEntry, fmt.Sprintf("we-%d", i), pick(r, namespaces), we)
}

type svcRef struct {
	Host  string
	NS    string
	Ports []*networking.ServicePort
}

func (w *world) services() []svcRef {
	var out []svcRef
	for _, c := range w.ofKind(gvk.ServiceEntry) {
		se := c.Spec.(*networking.ServiceEntry)
		for _, h := range se.Hosts {
			out = append(out, svcRef{Host: h, NS: c.Namespace, Ports: se.Ports})
		}
	}
	return out
}

// ---------------------------------------------------------------------------------------
// destination rules

func genLB(r *rand.Rand) *networking.LoadBalancerSettings {
	lb := &networking.LoadBalancerSettings{}
	switch r.Intn(9) {
	case 0:
		lb.LbPolicy = &networking.LoadBalancerSettings_Simple{Simple: networking.LoadBalancerSettings_ROUND_ROBIN}
	case 1:
		lb.LbPolicy = &networking.LoadBalancerSettings_Simple{Simple: networking.LoadBalancerSettings_LEAST_REQUEST}
	case 2:
		lb.LbPolicy = &networking.LoadBalancerSettings_Simple{Simple: networking.LoadBalancerSettings_RANDOM}
	case 3:
		lb.LbPolicy = &networking.LoadBalancerSettings_Simple{Simple: networking.LoadBalancerSettings_PASSTHROUGH}
	case 4:
		lb.LbPolicy = &networking.LoadBalancerSettings_ConsistentHash{ConsistentHash: &networking.LoadBalancerSettings_ConsistentHashLB{
			HashKey: &networking.LoadBalancerSettings_ConsistentHashLB_HttpHeaderName{HttpHeaderName: "x-user"}}}
	case 5:
		lb.LbPolicy = &networking.LoadBalancerSettings_ConsistentHash{ConsistentHash: &networking.LoadBalancerSettings_ConsistentHashLB{
			HashKey: &networking.LoadBalancerSettings_ConsistentHashLB_HttpCookie{HttpCookie: &networking.LoadBalancerSettings_ConsistentHashLB_HTTPCookie{
				Name: "session", Ttl: durationpb.New(time.Duration(r.Intn(3)) * time.Minute), Path: pick(r, []string{"", "/"})}},
			// 9000000000 is above Envoy's maximum (8388608) and admission-valid all the same
			MinimumRingSize: uint64(pick(r, []int{0, 1, 1024, 1024, 8388608, 8388608, 9000000000}))}}
	case 6:
		lb.LbPolicy = &networking.LoadBalancerSettings_ConsistentHash{ConsistentHash: &networking.LoadBalancerSettings_ConsistentHashLB{
			HashKey:       &networking.LoadBalancerSettings_ConsistentHashLB_UseSourceIp{UseSourceIp: true},
			HashAlgorithm: &networking.LoadBalancerSettings_ConsistentHashLB_Maglev{Maglev: &networking.LoadBalancerSettings_ConsistentHashLB_MagLev{TableSize: uint64(pick(r, []int{65537, 5, 4999999}))}}}}
	case 7:
		lb.LbPolicy = &networking.LoadBalancerSettings_ConsistentHash{ConsistentHash: &networking.LoadBalancerSettings_ConsistentHashLB{
			HashKey:       &networking.LoadBalancerSettings_ConsistentHashLB_HttpQueryParameterName{HttpQueryParameterName: "user"},
			HashAlgorithm: &networking.LoadBalancerSettings_ConsistentHashLB_RingHash_{RingHash: &networking.LoadBalancerSettings_ConsistentHashLB_RingHash{MinimumRingSize: uint64(pick(r, []int{0, 1, 2048}))}}}}
	}
	if chance(r, 25) {
		ll := &networking.LocalityLoadBalancerSetting{}
		switch r.Intn(3) {
		case 0:
			ll.Distribute = []*networking.LocalityLoadBalancerSetting_Distribute{
				{From: "region1/zone1/*", To: map[string]uint32{"region1/zone1/*": 80, "region1/zone2/*": 20}},
				{From: "region2/*", To: map[string]uint32{"region2/*": 100}},
			}
		case 1:
			ll.Failover = []*networking.LocalityLoadBalancerSetting_Failover{{From: "region1", To: "region2"}}
		case 2:
			ll.FailoverPriority = []string{"topology.istio.io/network", "version"}
		}
		if chance(r, 20) {
			ll.Enabled = wrapperspb.Bool(chance(r, 50))
		}
		lb.LocalityLbSetting = ll
	}
	if chance(r, 15) {
		lb.WarmupDurationSecs = durationpb.New(time.Duration(1+r.Intn(100)) * time.Second)
	} else if chance(r, 10) {
		lb.Warmup = &networking.WarmupConfiguration{Duration: durationpb.New(30 * time.Second), MinimumPercent: wrapperspb.Double(float64(r.Intn(101))), Aggression: wrapperspb.Double(1 + float64(r.Intn(3)))}
	}
	return lb
}

func genClientTLS(r *rand.Rand) *networking.ClientTLSSettings {
	t := &networking.ClientTLSSettings{}
	switch r.Intn(6) {
	case 0:
		t.Mode = networking.ClientTLSSettings_DISABLE
	case 1:
		t.Mode = networking.ClientTLSSettings_ISTIO_MUTUAL
		if chance(r, 30) {
			t.Sni = "sni.example.com"
		}
	case 2:
		t.Mode = networking.ClientTLSSettings_SIMPLE
		if chance(r, 50) {
			t.CaCertificates = "/etc/certs/ca.pem"
		}
		if chance(r, 50) {
			t.Sni = pick(r, exactHosts)
		}
		if chance(r, 30) {
			t.SubjectAltNames = []string{"san.example.com"}
		}
		if chance(r, 15) {
			t.InsecureSkipVerify = wrapperspb.Bool(true)
			t.CaCertificates = ""
			t.SubjectAltNames = nil
		}
	case 3:
		t.Mode = networking.ClientTLSSettings_MUTUAL
		t.ClientCertificate, t.PrivateKey = "/etc/certs/cert.pem", "/etc/certs/key.pem"
		if chance(r, 60) {
			t.CaCertificates = "/etc/certs/ca.pem"
		}
	case 4:
		t.Mode = networking.ClientTLSSettings_SIMPLE
		t.CredentialName = pick(r, credNames)
	case 5:
		t.Mode = networking.ClientTLSSettings_MUTUAL
		t.CredentialName = pick(r, credNames)
		if chance(r, 40) {
			t.SubjectAltNames = []string{"san.example.com", "san2.example.com"}
		}
	}
	return t
}

func genTrafficPolicy(r *rand.Rand, ports []*networking.ServicePort, top bool) *networking.TrafficPolicy {
	tp := &networking.TrafficPolicy{}
	if chance(r, 50) {
		tp.LoadBalancer = genLB(r)
	}
	if chance(r, 40) {
		cp := &networking.ConnectionPoolSettings{}
		if chance(r, 70) {
			cp.Tcp = &networking.ConnectionPoolSettings_TCPSettings{MaxConnections: int32(pick(r, []int{0, 1, 100, 2147483647}))}
			if chance(r, 50) {
				cp.Tcp.ConnectTimeout = durationpb.New(time.Duration(1+r.Intn(5000)) * time.Millisecond)
			}
			if chance(r, 30) {
				cp.Tcp.TcpKeepalive = &networking.ConnectionPoolSettings_TCPSettings_TcpKeepalive{Probes: uint32(r.Intn(10)), Time: durationpb.New(time.Duration(1+r.Intn(7200)) * time.Second), Interval: durationpb.New(75 * time.Second)}
			}
			if chance(r, 20) {
				cp.Tcp.MaxConnectionDuration = durationpb.New(time.Duration(1+r.Intn(3600)) * time.Second)
			}
			if chance(r, 20) {
				cp.Tcp.IdleTimeout = durationpb.New(time.Duration(1+r.Intn(3600)) * time.Second)
			}
		}
		if chance(r, 70) {
			cp.Http = &networking.ConnectionPoolSettings_HTTPSettings{
				Http1MaxPendingRequests:  int32(pick(r, []int{0, 1, 1024})),
				Http2MaxRequests:         int32(pick(r, []int{0, 1, 1000})),
				MaxRequestsPerConnection: int32(pick(r, []int{0, 1, 10})),
				MaxRetries:               int32(pick(r, []int{0, 3})),
				H2UpgradePolicy:          networking.ConnectionPoolSettings_HTTPSettings_H2UpgradePolicy(r.Intn(3)),
			}
			if cp.Http.H2UpgradePolicy != networking.ConnectionPoolSettings_HTTPSettings_UPGRADE {
				cp.Http.UseClientProtocol = chance(r, 20)
			}
			if chance(r, 30) {
				cp.Http.IdleTimeout = durationpb.New(time.Duration(1+r.Intn(3600)) * time.Second)
			}
			if chance(r, 20) {
				cp.Http.MaxConcurrentStreams = int32(pick(r, []int{1, 100, 2147483647}))
			}
		}
		if cp.Tcp != nil || cp.Http != nil {
			tp.ConnectionPool = cp
		}
	}
	if chance(r, 35) {
		od := &networking.OutlierDetection{}
		if chance(r, 60) {
			od.Consecutive_5XxErrors = wrapperspb.UInt32(uint32(pick(r, []int{0, 1, 5})))
		}
		if chance(r, 30) {
			od.ConsecutiveGatewayErrors = wrapperspb.UInt32(uint32(pick(r, []int{0, 1, 5})))
		}
		if chance(r, 20) {
			od.SplitExternalLocalOriginErrors = true
			od.ConsecutiveLocalOriginFailures = wrapperspb.UInt32(uint32(1 + r.Intn(5)))
		}
		if chance(r, 60) {
			od.Interval = durationpb.New(time.Duration(1+r.Intn(60000)) * time.Millisecond)
		}
		if chance(r, 60) {
			od.BaseEjectionTime = durationpb.New(time.Duration(1+r.Intn(300)) * time.Second)
		}
		if chance(r, 50) {
			od.MaxEjectionPercent = int32(pick(r, []int{0, 1, 50, 100}))
		}
		if chance(r, 40) {
			od.MinHealthPercent = int32(pick(r, []int{0, 1, 50, 100}))
		}
		tp.OutlierDetection = od
	}
	if chance(r, 45) {
		tp.Tls = genClientTLS(r)
	}
	if top && chance(r, 30) && len(ports) > 0 {
		n := 1 + r.Intn(2)
		for k := 0; k < n; k++ {
			p := pick(r, ports)
			pl := &networking.TrafficPolicy_PortTrafficPolicy{Port: &networking.PortSelector{Number: p.Number}}
			if chance(r, 50) {
				pl.LoadBalancer = genLB(r)
			}
			if chance(r, 50) {
				pl.Tls = genClientTLS(r)
			}
			if chance(r, 30) {
				pl.ConnectionPool = &networking.ConnectionPoolSettings{Tcp: &networking.ConnectionPoolSettings_TCPSettings{MaxConnections: 7}}
			}
			if chance(r, 30) || (pl.LoadBalancer == nil && pl.Tls == nil && pl.ConnectionPool == nil) {
				pl.OutlierDetection = &networking.OutlierDetection{Consecutive_5XxErrors: wrapperspb.UInt32(3)}
			}
			tp.PortLevelSettings = append(tp.PortLevelSettings, pl)
		}
	}
	if top && chance(r, 6) {
		tp.Tunnel = &networking.TrafficPolicy_TunnelSettings{Protocol: pick(r, []string{"CONNECT", "POST", ""}), TargetHost: "tunnel.example.com", TargetPort: 8443}
	}
	if top && chance(r, 6) {
		tp.ProxyProtocol = &networking.TrafficPolicy_ProxyProtocol{Version: networking.TrafficPolicy_ProxyProtocol_VERSION(r.Intn(2))}
	}
	if tp.LoadBalancer == nil && tp.ConnectionPool == nil && tp.OutlierDetection == nil && tp.Tls == nil && len(tp.PortLevelSettings) == 0 && tp.Tunnel == nil && tp.ProxyProtocol == nil {
		tp.LoadBalancer = &networking.LoadBalancerSettings{LbPolicy: &networking.LoadBalancerSettings_Simple{Simple: networking.LoadBalancerSettings_ROUND_ROBIN}}
	}
	return tp
}

func (w *world) genDestinationRule(r *rand.Rand, i int) {
	svcs := w.services()
	dr := &networking.DestinationRule{}
	ns := pick(r, namespaces)
	var ports []*networking.ServicePort
	switch k := r.Intn(10); {
	case k < 6 && len(svcs) > 0:
		s := pick(r, svcs)
		dr.Host, ports = s.Host, s.Ports
		if chance(r, 60) {
			ns = s.NS
		}
	case k < 8:
		dr.Host = pick(r, wildHosts)
	case k < 9:
		dr.Host = pick(r, exactHosts)
	default:
		dr.Host = "svc-a" // short name, resolved against the rule's namespace
	}
	if chance(r, 10) {
		ns = rootNS
	}
	if chance(r, 60) {
		dr.TrafficPolicy = genTrafficPolicy(r, ports, true)
	}
	if chance(r, 65) {
		names := []string{"v1", "v2", "v3", "canary"}
		n := 1 + r.Intn(3)
		for k := 0; k < n; k++ {
			s := &networking.Subset{Name: names[k]}
			switch r.Intn(5) {
			case 0: // nobody carries this label: subset without endpoints
				s.Labels = map[string]string{"version": "nobody"}
			case 1:
				s.Labels = map[string]string{"version": names[k], "app": pick(r, []string{"a", "b"})}
			case 2:
				// no labels at all (allowed; selects everything)
			default:
				s.Labels = map[string]string{"version": names[k]}
			}
			if chance(r, 30) {
				s.TrafficPolicy = genTrafficPolicy(r, ports, false)
			}
			dr.Subsets = append(dr.Subsets, s)
		}
	}
	dr.ExportTo = genExportTo(r)
	if chance(r, 10) {
		dr.WorkloadSelector = &typev1beta1.WorkloadSelector{MatchLabels: pick(r, labelSets)}
		if len(dr.ExportTo) > 0 {
			dr.ExportTo = []string{"."}
		}
	}
	w.add(r, gvk.DestinationRule, fmt.Sprintf("dr-%d", i), ns, dr)
}

// ---------------------------------------------------------------------------------------
// gateways

func genServerTLS(r *rand.Rand, proto string) *networking.ServerTLSSettings {
	t := &networking.ServerTLSSettings{}
	modes := []networking.ServerTLSSettings_TLSmode{networking.ServerTLSSettings_SIMPLE, networking.ServerTLSSettings_SIMPLE, networking.ServerTLSSettings_MUTUAL,
		networking.ServerTLSSettings_ISTIO_MUTUAL, networking.ServerTLSSettings_OPTIONAL_MUTUAL}
	if proto == "TLS" {
		modes = append(modes, networking.ServerTLSSettings_PASSTHROUGH, networking.ServerTLSSettings_PASSTHROUGH, networking.ServerTLSSettings_AUTO_PASSTHROUGH)
	}
	t.Mode = pick(r, modes)
	switch t.Mode {
	case networking.ServerTLSSettings_SIMPLE, networking.ServerTLSSettings_MUTUAL, networking.ServerTLSSettings_OPTIONAL_MUTUAL:
		switch r.Intn(4) {
		case 0, 1:
			t.CredentialName = pick(r, credNames)
		case 2:
			t.ServerCertificate, t.PrivateKey = "/etc/certs/server.pem", "/etc/certs/key.pem"
			if t.Mode != networking.ServerTLSSettings_SIMPLE {
				t.CaCertificates = "/etc/certs/ca.pem"
			}
		case 3:
			t.CredentialNames = []string{pick(r, credNames), "cred-ecdsa"}
		}
		if chance(r, 25) {
			t.MinProtocolVersion = networking.ServerTLSSettings_TLSProtocol(r.Intn(5))
		}
		if chance(r, 15) {
			t.MaxProtocolVersion = networking.ServerTLSSettings_TLSV1_3
		}
		if chance(r, 20) {
			t.CipherSuites = []string{"ECDHE-RSA-AES128-GCM-SHA256", "ECDHE-RSA-AES256-GCM-SHA384"}
		}
		if t.Mode != networking.ServerTLSSettings_SIMPLE && chance(r, 30) {
			t.SubjectAltNames = []string{"client.example.org"}
		}
	}
	return t
}

func genGatewayHosts(r *rand.Rand) []string {
	n := 1 + r.Intn(3)
	var out []string
	for len(out) < n {
		h := pick(r, gwHosts)
		if chance(r, 30) {
			h = pick(r, []string{"ns1", "ns2", "*", "."}) + "/" + h
		}
		dup := false
		for _, o := range out {
			if o == h {
				dup = true
			}
		}
		if h == "*/*" && len(out) > 0 {
			// "*/*" followed/preceded by a "./x" host crashes mergeGateways in the pinned tree (known finding,
			// panic:...sanitizeServerHostNamespace); emitted on purpose only by genKnownCrashGateway.
			continue
		}
		if !dup {
			out = append(out, h)
		}
		if h == "*/*" {
			break
		}
	}
	return out
}

type gwPort struct {
	num   uint32
	proto string
}

var gwPortPool = []gwPort{{80, "HTTP"}, {80, "HTTP"}, {8080, "HTTP"}, {8080, "HTTP2"}, {8080, "GRPC"}, {443, "HTTPS"}, {443, "HTTPS"}, {443, "TLS"}, {8443, "HTTPS"}, {8443, "TLS"},
	{9000, "TCP"}, {9000, "MONGO"}, {443, "TCP"}, {80, "TCP"}, {15443, "TLS"}, {8080, "HTTPS"}}

func (w *world) genGateway(r *rand.Rand, i int) {
	gw := &networking.Gateway{Selector: map[string]string{"istio": "ingressgateway"}}
	if chance(r, 15) {
		gw.Selector = map[string]string{"istio": "egressgateway"}
	}
	if chance(r, 10) {
		gw.Selector = map[string]string{"istio": "ingressgateway", "app": "gw"}
	}
	ns := rootNS
	if chance(r, 25) {
		ns = pick(r, namespaces)
	}
	n := 1 + r.Intn(3)
	for k := 0; k < n; k++ {
		p := pick(r, gwPortPool)
		s := &networking.Server{Port: &networking.Port{Number: p.num, Protocol: p.proto, Name: fmt.Sprintf("%s-%d-%d", strings.ToLower(p.proto), p.num, k)}, Hosts: genGatewayHosts(r)}
		if k == 0 && chance(r, 30) {
			s.Port.Name = strings.ToLower(p.proto) // same port name across gateways
		}
		switch p.proto {
		case "HTTPS", "TLS":
			s.Tls = genServerTLS(r, p.proto)
		case "HTTP":
			if chance(r, 15) {
				s.Tls = &networking.ServerTLSSettings{HttpsRedirect: true}
			}
		}
		if chance(r, 10) {
			s.Bind = pick(r, []string{"127.0.0.2", "10.9.3.1", "0.0.0.0"})
		}
		if chance(r, 15) {
			s.Name = fmt.Sprintf("srv-%d", k)
		}
		gw.Servers = append(gw.Servers, s)
		if chance(r, 15) {
			// an exact duplicate of the server (same port, hosts, TLS), as copy-paste produces
			d := s.DeepCopy()
			d.Port.Name += "-dup"
			if d.Name != "" {
				d.Name += "-dup"
			}
			gw.Servers = append(gw.Servers, d)
		}
	}
	w.add(r, gvk.Gateway, fmt.Sprintf("gw-%d", i), ns, gw)
}

// genGatewayClone copies an existing gateway (all servers, hosts and TLS settings) into another object,
// optionally in another namespace: duplicate servers across gateways bound to one workload.
func (w *world) genGatewayClone(r *rand.Rand, i int) {
	gws := w.ofKind(gvk.Gateway)
	if len(gws) == 0 {
		return
	}
	src := pick(r, gws)
	gw := src.Spec.(*networking.Gateway).DeepCopy()
	if chance(r, 50) && len(gw.Servers) > 0 {
		// same port and hosts, different TLS material / mode
		s := gw.Servers[r.Intn(len(gw.Servers))]
		if s.Tls != nil && s.Tls.CredentialName != "" {
			s.Tls.CredentialName = pick(r, credNames)
		} else if s.Port.Protocol == "HTTPS" || s.Port.Protocol == "TLS" {
			s.Tls = genServerTLS(r, s.Port.Protocol)
		}
	}
	ns := src.Namespace
	if chance(r, 40) {
		ns = pick(r, append([]string{rootNS}, namespaces...))
	}
	w.add(r, gvk.Gateway, fmt.Sprintf("gw-clone-%d", i), ns, gw)
}

// genKnownCrashGateway emits the one Gateway shape known to crash the pinned tree, with low frequency,
// so that the monitor keeps observing it without losing the rest of the run.
func (w *world) genKnownCrashGateway(r *rand.Rand) {
	gw := &networking.Gateway{Selector: map[string]string{"istio": "ingressgateway"}, Servers: []*networking.Server{{
		Port:  &networking.Port{Number: 80, Protocol: "HTTP", Name: "http"},
		Hosts: []string{"*/*", "./a.example.com"},
	}}}
	w.add(r, gvk.Gateway, "gw-star", rootNS, gw)
}

// ---------------------------------------------------------------------------------------
// virtual services

func (w *world) gatewayRefs(r *rand.Rand, ns string) []string {
	var out []string
	for _, g := range w.ofKind(gvk.Gateway) {
		if g.Namespace == ns && chance(r, 50) {
			out = append(out, g.Name)
		} else {
			out = append(out, g.Namespace+"/"+g.Name)
		}
	}
	return out
}

func genStringMatch(r *rand.Rand, vals []string, regexes []string) *networking.StringMatch {
	switch r.Intn(3) {
	case 0:
		return &networking.StringMatch{MatchType: &networking.StringMatch_Exact{Exact: pick(r, vals)}}
	case 1:
		return &networking.StringMatch{MatchType: &networking.StringMatch_Prefix{Prefix: pick(r, vals)}}
	}
	return &networking.StringMatch{MatchType: &networking.StringMatch_Regex{Regex: pick(r, regexes)}}
}

var (
	pathPool  = []string{"/", "/api", "/api/", "/api/v1", "/static", "/Admin", "/health", "/a/b"}
	pathRegex = []string{"/api/v[0-9]+", "/api/.*", ".*", "/a|/b", "(?i)/mixed", "^/anchored$"}
	hdrVals   = []string{"alice", "bob", "prod", "true", "1"}
	hdrRegex  = []string{"a.*", "(alice|bob)", "[0-9]+", ".*"}
)

func (w *world) genDestination(r *rand.Rand, svcs []svcRef, wantProto func(string) bool) *networking.Destination {
	d := &networking.Destination{}
	var cands []svcRef
	for _, s := range svcs {
		if !strings.Contains(s.Host, "*") {
			cands = append(cands, s)
		}
	}
	if len(cands) == 0 || chance(r, 8) {
		// a host nobody defines (allowed: references are not checked at admission)
		d.Host = pick(r, []string{"ghost.example.com", "nothing.ns1.svc.cluster.local", "svc-a"})
		if chance(r, 60) {
			d.Port = &networking.PortSelector{Number: pick(r, []uint32{80, 8080, 443})}
		}
		return d
	}
	s := pick(r, cands)
	d.Host = s.Host
	var ports []*networking.ServicePort
	for _, p := range s.Ports {
		if wantProto == nil || wantProto(p.Protocol) {
			ports = append(ports, p)
		}
	}
	if len(ports) == 0 {
		ports = s.Ports
	}
	if len(s.Ports) > 1 || chance(r, 50) {
		d.Port = &networking.PortSelector{Number: pick(r, ports).Number}
		if chance(r, 5) {
			d.Port.Number = 12345 // a port the service does not have
		}
	}
	if chance(r, 40) {
		d.Subset = pick(r, []string{"v1", "v2", "v3", "canary", "undefined"})
	}
	return d
}

func isHTTPProto(p string) bool {
	switch strings.ToUpper(p) {
	case "HTTP", "HTTP2", "GRPC", "GRPC-WEB", "HTTP_PROXY", "":
		return true
	}
	return false
}

func isTCPProto(p string) bool { return !isHTTPProto(p) || p == "" }
func isTLSProto(p string) bool { return strings.ToUpper(p) == "TLS" || strings.ToUpper(p) == "HTTPS" }

func genHeaderOps(r *rand.Rand) *networking.Headers {
	h := &networking.Headers{}
	op := &networking.Headers_HeaderOperations{}
	if chance(r, 60) {
		op.Set = map[string]string{"x-set": "1"}
	}
	if chance(r, 40) {
		op.Add = map[string]string{"x-add": "v", "x-add2": "%DOWNSTREAM_REMOTE_ADDRESS%"}
	}
	if chance(r, 30) {
		op.Remove = []string{"x-remove"}
	}
	if chance(r, 50) {
		h.Request = op
	} else {
		h.Response = op
	}
	return h
}

func (w *world) genHTTPRoute(r *rand.Rand, svcs []svcRef, vsGateways []string, idx int, allowDelegate bool, delegates []*config.Config) *networking.HTTPRoute {
	hr := &networking.HTTPRoute{}
	if chance(r, 50) {
		hr.Name = fmt.Sprintf("route-%d", idx)
	}
	// match
	nm := r.Intn(3)
	for k := 0; k < nm; k++ {
		m := &networking.HTTPMatchRequest{}
		if chance(r, 70) {
			m.Uri = genStringMatch(r, pathPool, pathRegex)
		}
		if chance(r, 25) {
			m.Headers = map[string]*networking.StringMatch{pick(r, []string{"x-user", "x-env", "X-Mixed"}): genStringMatch(r, hdrVals, hdrRegex)}
		}
		if chance(r, 10) {
			m.WithoutHeaders = map[string]*networking.StringMatch{"x-skip": genStringMatch(r, hdrVals, hdrRegex)}
		}
		if chance(r, 15) {
			m.QueryParams = map[string]*networking.StringMatch{"q": {MatchType: &networking.StringMatch_Exact{Exact: "1"}}}
		}
		if chance(r, 15) {
			m.Method = &networking.StringMatch{MatchType: &networking.StringMatch_Exact{Exact: pick(r, []string{"GET", "POST"})}}
		}
		if chance(r, 10) {
			m.Authority = genStringMatch(r, exactHosts, []string{".*\\.example\\.com"})
		}
		if chance(r, 10) {
			m.Scheme = &networking.StringMatch{MatchType: &networking.StringMatch_Exact{Exact: "https"}}
		}
		if chance(r, 15) {
			m.Port = pick(r, []uint32{80, 8080, 443, 9090})
		}
		if chance(r, 10) {
			m.IgnoreUriCase = true
		}
		if chance(r, 10) {
			m.SourceLabels = pick(r, labelSets)
		}
		if chance(r, 8) {
			m.SourceNamespace = pick(r, namespaces)
		}
		if chance(r, 15) && len(vsGateways) > 0 {
			m.Gateways = []string{pick(r, vsGateways)}
		}
		if chance(r, 5) {
			m.StatPrefix = "stat"
		}
		if m.Uri == nil && m.Headers == nil && m.QueryParams == nil && m.Method == nil && m.Authority == nil && m.Scheme == nil && m.Port == 0 &&
			m.SourceLabels == nil && m.SourceNamespace == "" && m.Gateways == nil && m.WithoutHeaders == nil {
			m.Uri = &networking.StringMatch{MatchType: &networking.StringMatch_Prefix{Prefix: "/"}}
		}
		hr.Match = append(hr.Match, m)
	}
	// action
	switch k := r.Intn(20); {
	case k < 2:
		red := &networking.HTTPRedirect{Uri: pick(r, []string{"", "/new"}), Authority: pick(r, []string{"", "other.example.com"})}
		if red.Uri == "" && red.Authority == "" {
			red.Scheme = "https"
		}
		if chance(r, 30) {
			red.RedirectCode = pick(r, []uint32{301, 302, 303, 307, 308})
		}
		if chance(r, 20) {
			red.RedirectPort = &networking.HTTPRedirect_Port{Port: 8443}
		} else if chance(r, 10) {
			red.RedirectPort = &networking.HTTPRedirect_DerivePort{DerivePort: networking.HTTPRedirect_FROM_PROTOCOL_DEFAULT}
		}
		hr.Redirect = red
	case k < 4:
		hr.DirectResponse = &networking.HTTPDirectResponse{Status: pick(r, []uint32{200, 404, 503, 418})}
		if chance(r, 60) {
			hr.DirectResponse.Body = &networking.HTTPBody{Specifier: &networking.HTTPBody_String_{String_: "hello"}}
		} else if chance(r, 30) {
			hr.DirectResponse.Body = &networking.HTTPBody{Specifier: &networking.HTTPBody_Bytes{Bytes: []byte{0, 1, 2}}}
		}
	case k < 6 && allowDelegate && len(delegates) > 0:
		d := pick(r, delegates)
		hr.Delegate = &networking.Delegate{Name: d.Name, Namespace: d.Namespace}
		return hr
	default:
		nd := 1
		if chance(r, 40) {
			nd = 2 + r.Intn(2)
		}
		weights := splitWeights(r, nd)
		for k := 0; k < nd; k++ {
			rd := &networking.HTTPRouteDestination{Destination: w.genDestination(r, svcs, isHTTPProto)}
			if nd > 1 {
				rd.Weight = weights[k]
			} else if chance(r, 20) {
				rd.Weight = 100
			}
			if chance(r, 15) {
				rd.Headers = genHeaderOps(r)
			}
			hr.Route = append(hr.Route, rd)
		}
	}
	if hr.Redirect == nil && hr.DirectResponse == nil {
		if chance(r, 20) {
			hr.Rewrite = &networking.HTTPRewrite{Uri: pick(r, []string{"/rewritten", "/"}), Authority: pick(r, []string{"", "rewritten.example.com"})}
			if chance(r, 25) {
				hr.Rewrite = &networking.HTTPRewrite{UriRegexRewrite: &networking.RegexRewrite{Match: "^/api/(.*)$", Rewrite: "/\\1"}}
			}
		}
		if chance(r, 25) {
			hr.Timeout = durationpb.New(time.Duration(1+r.Intn(30000)) * time.Millisecond)
		}
		if chance(r, 25) {
			hr.Retries = &networking.HTTPRetry{Attempts: int32(r.Intn(5))}
			if hr.Retries.Attempts == 0 {
				// retries disabled: admission refuses any other retry field
			} else if chance(r, 50) {
				hr.Retries.PerTryTimeout = durationpb.New(time.Duration(1+r.Intn(5000)) * time.Millisecond)
			}
			if hr.Retries.Attempts > 0 && chance(r, 50) {
				hr.Retries.RetryOn = pick(r, []string{"5xx", "gateway-error,connect-failure", "retriable-status-codes,503", "cancelled,unavailable", "503,504"})
			}
			if hr.Retries.Attempts > 0 && chance(r, 20) {
				hr.Retries.RetryRemoteLocalities = wrapperspb.Bool(true)
			}
			if hr.Retries.Attempts > 0 && chance(r, 15) {
				hr.Retries.Backoff = durationpb.New(time.Duration(1+r.Intn(2000)) * time.Millisecond)
			}
		}
		if chance(r, 15) {
			f := &networking.HTTPFaultInjection{}
			if chance(r, 60) {
				f.Delay = &networking.HTTPFaultInjection_Delay{HttpDelayType: &networking.HTTPFaultInjection_Delay_FixedDelay{FixedDelay: durationpb.New(time.Duration(1+r.Intn(5000)) * time.Millisecond)}}
				if chance(r, 70) {
					f.Delay.Percentage = &networking.Percent{Value: pick(r, []float64{0, 0.0001, 0.5, 33.3333, 100})}
				}
			}
			if f.Delay == nil || chance(r, 50) {
				f.Abort = &networking.HTTPFaultInjection_Abort{ErrorType: &networking.HTTPFaultInjection_Abort_HttpStatus{HttpStatus: pick(r, []int32{200, 404, 500, 503, 599})}}
				if chance(r, 30) {
					f.Abort.ErrorType = &networking.HTTPFaultInjection_Abort_GrpcStatus{GrpcStatus: pick(r, []string{"UNAVAILABLE", "INTERNAL", "DEADLINE_EXCEEDED"})}
				}
				if chance(r, 70) {
					f.Abort.Percentage = &networking.Percent{Value: pick(r, []float64{0, 0.0001, 0.5, 99.9999, 100})}
				}
			}
			hr.Fault = f
		}
		if chance(r, 12) {
			hr.Mirror = w.genDestination(r, svcs, isHTTPProto)
			if chance(r, 60) {
				hr.MirrorPercentage = &networking.Percent{Value: pick(r, []float64{0, 0.5, 50, 100})}
			}
		} else if chance(r, 10) {
			n := 1 + r.Intn(2)
			for k := 0; k < n; k++ {
				mp := &networking.HTTPMirrorPolicy{Destination: w.genDestination(r, svcs, isHTTPProto)}
				if chance(r, 60) {
					mp.Percentage = &networking.Percent{Value: pick(r, []float64{0, 0.5, 50, 100})}
				}
				hr.Mirrors = append(hr.Mirrors, mp)
			}
		}
	}
	if chance(r, 12) {
		cp := &networking.CorsPolicy{
			AllowOrigins: []*networking.StringMatch{genStringMatch(r, []string{"https://example.com", "*"}, []string{"https://.*\\.example\\.com"})},
			AllowMethods: []string{"GET", "POST"},
		}
		if chance(r, 50) {
			cp.AllowHeaders = []string{"x-a", "x-b"}
			cp.ExposeHeaders = []string{"x-c"}
		}
		if chance(r, 50) {
			cp.MaxAge = durationpb.New(time.Duration(1+r.Intn(86400)) * time.Second)
		}
		if chance(r, 30) {
			cp.AllowCredentials = wrapperspb.Bool(chance(r, 50))
		}
		hr.CorsPolicy = cp
	}
	if chance(r, 15) {
		hr.Headers = genHeaderOps(r)
	}
	return hr
}

func splitWeights(r *rand.Rand, n int) []int32 {
	if n == 1 {
		return []int32{100}
	}
	switch r.Intn(6) {
	case 0: // one destination with weight 0
		out := make([]int32, n)
		out[0] = 100
		return out
	case 1: // weights that do not sum to 100 (allowed: relative weights)
		out := make([]int32, n)
		for i := range out {
			out[i] = int32(1 + r.Intn(5))
		}
		return out
	}
	out := make([]int32, n)
	rest := int32(100)
	for i := 0; i < n-1; i++ {
		out[i] = int32(r.Intn(int(rest) + 1))
		rest -= out[i]
	}
	out[n-1] = rest
	return out
}

func (w *world) genVirtualService(r *rand.Rand, i int, delegates []*config.Config) {
	svcs := w.services()
	vs := &networking.VirtualService{}
	ns := pick(r, namespaces)
	if chance(r, 20) {
		ns = rootNS
	}
	gwRefs := w.gatewayRefs(r, ns)
	mesh := true
	switch k := r.Intn(10); {
	case k < 3 || len(gwRefs) == 0:
	case k < 4:
		vs.Gateways = []string{"mesh"}
	case k < 8:
		mesh = false
		vs.Gateways = []string{pick(r, gwRefs)}
		if chance(r, 30) {
			vs.Gateways = append(vs.Gateways, pick(r, gwRefs))
		}
	default:
		vs.Gateways = []string{pick(r, gwRefs), "mesh"}
	}
	// hosts
	nh := 1
	if chance(r, 35) {
		nh = 2 + r.Intn(2)
	}
	for len(vs.Hosts) < nh {
		var h string
		switch k := r.Intn(12); {
		case k < 5 && len(svcs) > 0:
			h = pick(r, svcs).Host
		case k < 7:
			h = pick(r, wildHosts)
		case k < 8:
			h = pick(r, caseHosts)
		case k < 9 && mesh:
			h = "svc-a" // short name
		case k < 11 && !mesh:
			h = strings.TrimLeft(pick(r, gwHosts), "")
			if strings.Contains(h, "/") {
				h = h[strings.Index(h, "/")+1:]
			}
		case k < 12 && !mesh:
			h = "*"
		default:
			h = pick(r, exactHosts)
		}
		dup := false
		for _, o := range vs.Hosts {
			if o == h || o == "*" || h == "*" || wildcardMatches(o, h) || wildcardMatches(h, o) {
				dup = true // admission rejects hosts that cover each other within one virtual service
			}
		}
		if !dup {
			vs.Hosts = append(vs.Hosts, h)
		} else if chance(r, 50) {
			nh--
		}
	}
	// http
	nr := r.Intn(4)
	kindSel := r.Intn(10)
	if kindSel >= 7 {
		nr = r.Intn(2)
	}
	for k := 0; k < nr; k++ {
		vs.Http = append(vs.Http, w.genHTTPRoute(r, svcs, vs.Gateways, k, true, delegates))
	}
	// tcp
	if kindSel >= 6 && kindSel < 9 || (nr == 0 && kindSel < 6) {
		n := 1 + r.Intn(2)
		for k := 0; k < n; k++ {
			tr := &networking.TCPRoute{}
			if chance(r, 70) {
				m := &networking.L4MatchAttributes{}
				if chance(r, 70) {
					m.Port = pick(r, []uint32{80, 443, 9090, 3306, 9000, 8080})
				}
				if chance(r, 25) {
					m.DestinationSubnets = []string{pick(r, cidrs)}
				}
				if chance(r, 15) {
					m.SourceLabels = pick(r, labelSets)
				}
				if chance(r, 15) && len(vs.Gateways) > 0 {
					m.Gateways = []string{pick(r, vs.Gateways)}
				}
				if chance(r, 8) {
					m.SourceNamespace = pick(r, namespaces)
				}
				tr.Match = []*networking.L4MatchAttributes{m}
				if chance(r, 20) {
					tr.Match = append(tr.Match, &networking.L4MatchAttributes{Port: pick(r, []uint32{80, 9090, 9000})})
				}
			}
			nd := 1 + r.Intn(2)
			ws := splitWeights(r, nd)
			for j := 0; j < nd; j++ {
				rd := &networking.RouteDestination{Destination: w.genDestination(r, svcs, isTCPProto)}
				if nd > 1 {
					rd.Weight = ws[j]
				}
				tr.Route = append(tr.Route, rd)
			}
			vs.Tcp = append(vs.Tcp, tr)
		}
	}
	// tls
	if kindSel >= 8 || (kindSel == 5) {
		n := 1 + r.Intn(2)
		for k := 0; k < n; k++ {
			m := &networking.TLSMatchAttributes{}
			// sni hosts must be covered by the hosts of the virtual service
			for _, h := range vs.Hosts {
				if chance(r, 70) || len(m.SniHosts) == 0 {
					if strings.HasPrefix(h, "*.") && chance(r, 50) {
						m.SniHosts = append(m.SniHosts, "sub"+h[1:])
					} else if h != "svc-a" {
						m.SniHosts = append(m.SniHosts, h)
					}
				}
			}
			if len(m.SniHosts) == 0 {
				m.SniHosts = []string{"a.example.com"}
			}
			if chance(r, 60) {
				m.Port = pick(r, []uint32{443, 8443, 15443})
			}
			if chance(r, 15) {
				m.DestinationSubnets = []string{pick(r, cidrs)}
			}
			if chance(r, 15) && len(vs.Gateways) > 0 {
				m.Gateways = []string{pick(r, vs.Gateways)}
			}
			tr := &networking.TLSRoute{Match: []*networking.TLSMatchAttributes{m}}
			nd := 1 + r.Intn(2)
			ws := splitWeights(r, nd)
			for j := 0; j < nd; j++ {
				rd := &networking.RouteDestination{Destination: w.genDestination(r, svcs, isTLSProto)}
				if nd > 1 {
					rd.Weight = ws[j]
				}
				tr.Route = append(tr.Route, rd)
			}
			vs.Tls = append(vs.Tls, tr)
		}
	}
	vs.ExportTo = genExportTo(r)
	w.add(r, gvk.VirtualService, fmt.Sprintf("vs-%d", i), ns, vs)
}

// genDelegate makes a delegate VirtualService (no hosts, no gateways).
func (w *world) genDelegate(r *rand.Rand, i int) {
	svcs := w.services()
	vs := &networking.VirtualService{}
	n := 1 + r.Intn(3)
	for k := 0; k < n; k++ {
		vs.Http = append(vs.Http, w.genHTTPRoute(r, svcs, nil, k, false, nil))
	}
	vs.ExportTo = genExportTo(r)
	w.add(r, gvk.VirtualService, fmt.Sprintf("delegate-%d", i), pick(r, namespaces), vs)
}

// ---------------------------------------------------------------------------------------
// sidecars

func genEgressHosts(r *rand.Rand, svcs []svcRef) []string {
	n := 1 + r.Intn(3)
	var out []string
	for len(out) < n {
		var h string
		switch r.Intn(8) {
		case 0:
			h = "*/*"
		case 1:
			h = "./*"
		case 2:
			h = pick(r, namespaces) + "/*"
		case 3:
			h = "~/*"
		case 4:
			h = "*/" + pick(r, wildHosts)
		case 5:
			h = rootNS + "/*"
		default:
			if len(svcs) > 0 {
				s := pick(r, svcs)
				h = pick(r, []string{s.NS, "*", "."}) + "/" + s.Host
			} else {
				h = "*/" + pick(r, exactHosts)
			}
		}
		dup := false
		for _, o := range out {
			if o == h {
				dup = true
			}
		}
		if !dup {
			out = append(out, h)
		}
	}
	return out
}

func (w *world) genSidecar(r *rand.Rand, i int) {
	svcs := w.services()
	sc := &networking.Sidecar{}
	ns := pick(r, namespaces)
	name := fmt.Sprintf("sidecar-%d", i)
	switch r.Intn(5) {
	case 0: // root namespace default
		ns, name = rootNS, "default"
	case 1, 2:
		sc.WorkloadSelector = &networking.WorkloadSelector{Labels: pick(r, labelSets)}
	default:
		name = "default"
	}
	// egress
	nPort := r.Intn(3)
	for k := 0; k < nPort; k++ {
		p := pick(r, portPool)
		if p.proto == "UDP" {
			continue
		}
		el := &networking.IstioEgressListener{
			Port:  &networking.SidecarPort{Number: p.num, Protocol: p.proto, Name: fmt.Sprintf("egress-%d", k)},
			Hosts: genEgressHosts(r, svcs),
		}
		if p.proto == "" {
			el.Port.Protocol = "HTTP"
		}
		switch r.Intn(4) {
		case 0:
			el.Bind = pick(r, []string{"127.0.0.1", "0.0.0.0", "10.10.0.1", "::"})
		case 1:
			el.Bind = pick(r, []string{"127.0.0.1", "0.0.0.0"})
			el.CaptureMode = networking.CaptureMode_NONE
		case 2:
			el.CaptureMode = networking.CaptureMode(r.Intn(3))
		}
		sc.Egress = append(sc.Egress, el)
	}
	{
		// admission wants distinct ports among the port listeners
		seen := map[uint32]bool{}
		kept := sc.Egress[:0]
		for _, e := range sc.Egress {
			if !seen[e.Port.Number] {
				seen[e.Port.Number] = true
				kept = append(kept, e)
			}
		}
		sc.Egress = kept
	}
	if chance(r, 8) {
		sc.Egress = append(sc.Egress, &networking.IstioEgressListener{Bind: "unix:///var/run/egress.sock", Port: &networking.SidecarPort{Number: 0, Protocol: "HTTP", Name: "uds"}, Hosts: genEgressHosts(r, svcs)})
	}
	if len(sc.Egress) == 0 || chance(r, 70) {
		sc.Egress = append(sc.Egress, &networking.IstioEgressListener{Hosts: genEgressHosts(r, svcs)})
	}
	// ingress (only with a workload selector)
	if sc.WorkloadSelector != nil && chance(r, 50) {
		n := 1 + r.Intn(2)
		for k := 0; k < n; k++ {
			p := pick(r, []portT{{80, "HTTP"}, {8080, "HTTP"}, {9090, "TCP"}, {443, "HTTPS"}, {8443, "TLS"}, {7000, "GRPC"}, {15006, "TCP"}})
			il := &networking.IstioIngressListener{
				Port:            &networking.SidecarPort{Number: p.num, Protocol: p.proto, Name: fmt.Sprintf("ingress-%d", k)},
				DefaultEndpoint: pick(r, []string{"127.0.0.1:8080", "0.0.0.0:9000", "unix:///var/run/in.sock", "[::1]:8080"}),
			}
			if chance(r, 20) {
				il.Bind = pick(r, []string{"0.0.0.0", "10.9.1.1"})
			}
			if chance(r, 20) {
				il.CaptureMode = networking.CaptureMode(r.Intn(3))
			}
			if (p.proto == "HTTPS" || p.proto == "TLS") && chance(r, 70) {
				il.Tls = &networking.ServerTLSSettings{Mode: pick(r, []networking.ServerTLSSettings_TLSmode{networking.ServerTLSSettings_SIMPLE, networking.ServerTLSSettings_MUTUAL}),
					ServerCertificate: "/etc/certs/server.pem", PrivateKey: "/etc/certs/key.pem", CaCertificates: "/etc/certs/ca.pem"}
			}
			if chance(r, 15) {
				il.ConnectionPool = &networking.ConnectionPoolSettings{Http: &networking.ConnectionPoolSettings_HTTPSettings{Http1MaxPendingRequests: 5}}
			}
			sc.Ingress = append(sc.Ingress, il)
		}
	}
	if chance(r, 30) {
		sc.OutboundTrafficPolicy = &networking.OutboundTrafficPolicy{Mode: networking.OutboundTrafficPolicy_Mode(r.Intn(2))}
		if chance(r, 30) && len(svcs) > 0 {
			s := pick(r, svcs)
			if !strings.Contains(s.Host, "*") {
				sc.OutboundTrafficPolicy.Mode = networking.OutboundTrafficPolicy_ALLOW_ANY
				sc.OutboundTrafficPolicy.EgressProxy = &networking.Destination{Host: s.Host, Port: &networking.PortSelector{Number: s.Ports[0].Number}}
				if chance(r, 30) {
					sc.OutboundTrafficPolicy.EgressProxy.Subset = "v1"
				}
			}
		}
	}
	if chance(r, 15) {
		sc.InboundConnectionPool = &networking.ConnectionPoolSettings{Tcp: &networking.ConnectionPoolSettings_TCPSettings{MaxConnections: 50}, Http: &networking.ConnectionPoolSettings_HTTPSettings{Http2MaxRequests: 10}}
	}
	w.add(r, gvk.Sidecar, name, ns, sc)
}

// ---------------------------------------------------------------------------------------
// security

func (w *world) genPeerAuthentication(r *rand.Rand, i int) {
	pa := &securityv1beta1.PeerAuthentication{Mtls: &securityv1beta1.PeerAuthentication_MutualTLS{Mode: securityv1beta1.PeerAuthentication_MutualTLS_Mode(r.Intn(4))}}
	ns := pick(r, append([]string{rootNS}, namespaces...))
	name := "default"
	if chance(r, 50) {
		pa.Selector = &typev1beta1.WorkloadSelector{MatchLabels: pick(r, labelSets)}
		name = fmt.Sprintf("pa-%d", i)
		if chance(r, 60) {
			pa.PortLevelMtls = map[uint32]*securityv1beta1.PeerAuthentication_MutualTLS{
				pick(r, []uint32{80, 8080, 9090, 443}): {Mode: securityv1beta1.PeerAuthentication_MutualTLS_Mode(r.Intn(4))},
			}
		}
	}
	w.add(r, gvk.PeerAuthentication, name, ns, pa)
}

// ---------------------------------------------------------------------------------------

func genProxies(r *rand.Rand) []*proxyDef {
	versions := []string{"1.23.0", "1.26.2", "1.28.0", "1.30.0"}
	p0 := &proxyDef{Kind: "sidecar", NS: "ns1", Labels: map[string]string{"app": "a", "version": "v1"}, IPs: []string{"10.9.1.1"}, IstioVersion: pick(r, versions)}
	p1 := &proxyDef{Kind: "sidecar", NS: pick(r, []string{"ns2", "ns3", "ns1"}), Labels: pick(r, labelSets), IPs: []string{"10.9.2.1"}, IstioVersion: pick(r, versions)}
	for _, p := range []*proxyDef{p0, p1} {
		if chance(r, 40) {
			p.DNSCapture = true
			p.DNSAutoAlloc = chance(r, 50)
		}
		if chance(r, 20) {
			p.HTTP10 = true
		}
		switch r.Intn(6) {
		case 0:
			p.Interception = "NONE"
		case 1:
			p.Interception = "TPROXY"
		}
		if chance(r, 15) {
			p.IPs = append(p.IPs, "2001:db8:9::"+fmt.Sprint(1+r.Intn(2)))
		}
		if chance(r, 5) {
			p.IPs = []string{"2001:db8:9::1"}
		}
		if chance(r, 10) {
			p.ExactBalance = true
		}
		if chance(r, 60) {
			p.Locality = pick(r, []string{"region1/zone1/sub1", "region1/zone2", "region2/zone1", "region3"})
		}
	}
	gwLabels := map[string]string{"istio": "ingressgateway"}
	if chance(r, 12) {
		gwLabels = map[string]string{"istio": "egressgateway"}
	}
	if chance(r, 12) {
		gwLabels = map[string]string{"istio": "ingressgateway", "app": "gw"}
	}
	p2 := &proxyDef{Kind: "router", NS: rootNS, Labels: gwLabels, IPs: []string{"10.9.3.1"}, IstioVersion: pick(r, versions), Unprivileged: chance(r, 20)}
	if chance(r, 15) {
		p2.NS = "ns1"
	}
	if chance(r, 10) {
		p2.IPs = append(p2.IPs, "2001:db8:9::3")
	}
	if chance(r, 50) {
		p2.Locality = pick(r, []string{"region1/zone1/sub1", "region2/zone1"})
	}
	return []*proxyDef{p0, p1, p2}
}

func genMesh(r *rand.Rand, m *meshconfig.MeshConfig) {
	m.RootNamespace = rootNS
	if chance(r, 30) {
		m.OutboundTrafficPolicy = &meshconfig.MeshConfig_OutboundTrafficPolicy{Mode: meshconfig.MeshConfig_OutboundTrafficPolicy_REGISTRY_ONLY}
	}
	if chance(r, 30) {
		m.AccessLogFile = "/dev/stdout"
		if chance(r, 30) {
			m.AccessLogEncoding = meshconfig.MeshConfig_JSON
		}
	}
	if chance(r, 15) {
		m.EnableAutoMtls = wrapperspb.Bool(false)
	}
	if chance(r, 15) {
		m.ProtocolDetectionTimeout = durationpb.New(time.Duration(r.Intn(5000)) * time.Millisecond)
	}
	if chance(r, 15) {
		m.DefaultServiceExportTo = []string{"."}
	}
	if chance(r, 10) {
		m.DefaultVirtualServiceExportTo = []string{"."}
	}
	if chance(r, 10) {
		m.DefaultDestinationRuleExportTo = []string{"."}
	}
	if chance(r, 20) {
		m.LocalityLbSetting = &networking.LocalityLoadBalancerSetting{Failover: []*networking.LocalityLoadBalancerSetting_Failover{{From: "region1", To: "region2"}}}
	}
	if chance(r, 10) {
		m.EnablePrometheusMerge = wrapperspb.Bool(false)
	}
	if chance(r, 10) {
		m.H2UpgradePolicy = meshconfig.MeshConfig_UPGRADE
	}
}

// genWorld draws one world. The caller validates it.
func genWorld(r *rand.Rand, mesh *meshconfig.MeshConfig) *world {
	w := &world{Rejected: map[string]int{}, Mesh: mesh}
	genMesh(r, mesh)
	w.FilterGW = chance(r, 30)
	w.Proxies = genProxies(r)

	nse := 3 + r.Intn(6)
	for i := 0; i < nse; i++ {
		w.genServiceEntry(r, i)
	}
	// twins: a second ServiceEntry of the same namespace for the same host(s) that the sidecar scope can merge with the
	// first (same resolution, location, exportTo) but that declares the shared port NUMBERS under other names /
	// protocols and adds a port of its own - two teams describing one external API differently.
	if chance(r, 35) {
		if ses := w.ofKind(gvk.ServiceEntry); len(ses) > 0 {
			src := ses[r.Intn(len(ses))]
			tw := src.Spec.(*networking.ServiceEntry).DeepCopy()
			for _, p := range tw.Ports {
				if chance(r, 70) {
					switch strings.ToUpper(p.Protocol) {
					case "HTTPS":
						p.Protocol = "TLS"
					case "TLS":
						p.Protocol = "HTTPS"
					case "HTTP":
						p.Protocol = pick(r, []string{"HTTP2", "GRPC"})
					case "TCP":
						p.Protocol = "TLS"
					default:
						p.Protocol = "HTTP"
					}
					p.Name = fmt.Sprintf("%s-twin-%d", strings.ToLower(p.Protocol), p.Number)
				}
			}
			if chance(r, 60) {
				tw.Ports = append(tw.Ports, &networking.ServicePort{Number: 8443, Protocol: "TLS", Name: "tls-twin-extra"})
			}
			if len(tw.Hosts) > 1 && chance(r, 50) {
				tw.Hosts = tw.Hosts[:1]
			}
			w.add(r, gvk.ServiceEntry, fmt.Sprintf("se-twin-%d", nse), src.Namespace, tw)
		}
	}
	nwe := r.Intn(4)
	for i := 0; i < nwe; i++ {
		w.genWorkloadEntry(r, i)
	}
	ndr := r.Intn(5)
	for i := 0; i < ndr; i++ {
		w.genDestinationRule(r, i)
	}
	ngw := 1 + r.Intn(3)
	for i := 0; i < ngw; i++ {
		w.genGateway(r, i)
	}
	if chance(r, 45) {
		w.genGatewayClone(r, 0)
		if chance(r, 30) {
			w.genGatewayClone(r, 1)
		}
	}
	if chance(r, 2) {
		w.genKnownCrashGateway(r)
	}
	nd := 0
	if chance(r, 30) {
		nd = 1 + r.Intn(2)
	}
	for i := 0; i < nd; i++ {
		w.genDelegate(r, i)
	}
	var delegates []*config.Config
	for _, c := range w.ofKind(gvk.VirtualService) {
		delegates = append(delegates, c)
	}
	if chance(r, 15) && nd > 0 {
		// a delegate reference that resolves to nothing
		delegates = append(delegates, &config.Config{Meta: config.Meta{Name: "no-such-delegate", Namespace: "ns1"}})
	}
	nvs := 2 + r.Intn(6)
	for i := 0; i < nvs; i++ {
		w.genVirtualService(r, i, delegates)
	}
	nsc := 0
	if chance(r, 55) {
		nsc = 1 + r.Intn(2)
	}
	for i := 0; i < nsc; i++ {
		w.genSidecar(r, i)
	}
	npa := 0
	if chance(r, 40) {
		npa = 1 + r.Intn(2)
	}
	for i := 0; i < npa; i++ {
		w.genPeerAuthentication(r, i)
	}
	nef := 0
	if chance(r, 50) {
		nef = 1 + r.Intn(3)
	}
	for i := 0; i < nef; i++ {
		w.genEnvoyFilter(r, i)
	}
	return w
}
