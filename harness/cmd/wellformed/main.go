// Engine wellformed: property C14 — every xDS snapshot sent to a proxy is closed and well-formed.
//
// For each PRNG world and each of its proxies the real generators (pilot/pkg/xds Cds/Eds/Lds/Rds/
// Nds/EcdsGenerator around core.ConfigGeneratorImpl on the push context of core.NewConfigGenTest)
// produce one full push; validators written from the Envoy API documentation judge it (check.go,
// pgv.go). Stratum V: worlds of admission-valid objects built to collide. Stratum I: the same worlds
// with one object damaged by one operator (mutate.go).
package main

import (
	"encoding/json"
	"fmt"
	"os"
	"runtime/debug"
	"runtime/pprof"
	"sort"
	"strings"
	"time"

	corev3 "github.com/envoyproxy/go-control-plane/envoy/config/core/v3"
	"google.golang.org/protobuf/encoding/protojson"
	"google.golang.org/protobuf/proto"
	"google.golang.org/protobuf/reflect/protoregistry"

	meshconfig "istio.io/api/mesh/v1alpha1"
	networking "istio.io/api/networking/v1alpha3"
	"istio.io/istio/pilot/pkg/features"
	"istio.io/istio/pilot/pkg/model"
	"istio.io/istio/pilot/pkg/networking/core"
	"istio.io/istio/pkg/config"
	"istio.io/istio/pkg/config/host"
	"istio.io/istio/pkg/config/labels"
	"istio.io/istio/pkg/config/mesh"
	"istio.io/istio/pkg/config/protocol"
	"istio.io/istio/pkg/config/schema/collections"
	"istio.io/istio/pkg/config/schema/gvk"

	"verifharness/internal/quiet"
	"verifharness/internal/vh"
)

const (
	quickV, quickI = 300, 300
	// measured: ~0.5 s per world (3 proxies, -race) per process; 6000 + 6000 worlds on 6 processes stay below 25 min
	thoroughV, thoroughI = 6000, 6000
	caseWatchdog         = 240 * time.Second
)

func main() {
	if runRepro() {
		return
	}
	vh.Main(vh.Prop{
		ID:    "C14",
		Level: "exploration",
		Rule: "case = one PRNG world x 3 proxies (2 sidecars with PRNG metadata: istio version, DNS capture, HTTP/1.0, interception REDIRECT/TPROXY/NONE, dual stack; 1 router bound to the generated Gateways), " +
			"full push through the real CDS/EDS/LDS/RDS/NDS/ECDS generators. Stratum V (case V-i): 3-8 ServiceEntries, WorkloadEntries, DestinationRules, 1-5 Gateways (clones, duplicate servers), 2-7 VirtualServices " +
			"(http/tcp/tls, delegates), Sidecars, PeerAuthentications, EnvoyFilters from a template list, drawn from small literal pools so that hosts, wildcards, ports/protocols, VIPs, gateway servers and TLS settings collide; " +
			"every object passed the real admission validator of its kind (rejected ones dropped and counted). Stratum I (case I-i): world V-i with ONE object damaged by ONE operator of a finite list (mutate.go), passed through the " +
			"protobuf wire encoding (only objects that can be decoded exist; no nil list elements) and accepted only if the real validator rejects the result (otherwise the case counts as stratum V, key V:admitted:op=...). " +
			"PILOT_FILTER_GATEWAY_CLUSTER_CONFIG is on in ~30% of worlds. Asserted on every push: no panic / process crash; unique resource names per type and envelope name = payload name; every RDS name of a listener and every EDS " +
			"service name of a cluster is answered; no domain twice (lower case) in a RouteConfiguration; no two filter chains of a listener sharing a lookup tuple of Envoy's filter chain manager; no partial wildcard server name; " +
			"no two listeners of one socket type on one address; weighted cluster sums in (0, 2^32-1]; cluster references of route configurations whose references Envoy validates at load time (validate_clusters) resolve in CDS; " +
			"protoc-gen-validate ValidateAll() of every message, looking through every typed Any. Counted but not asserted (unspecified or outside the property text): FractionalPercent above 1, virtual hosts sharing a name, " +
			"ECDS names not produced, other dangling cluster references. Keys: stratum V findings carry cause=<root cause> when a recogniser (explain.go) finds the cause in the INPUT objects, else the generic rule detail; " +
			"stratum I findings are keyed (operator, kind, rule); crashes name the panicking istio function. " +
			"Non-trivial: all three proxies produced listeners and clusters (or a crash was observed) and the world shows >= 2 distinct interaction shapes (V) / the operator was applicable and rejected by the validator (I); distinct = hash of the object set.",
		Assumptions: []string{
			"trusted base: the engine's validators (check.go, pgv.go) written from the Envoy v3 API reference and Envoy's load-time rejections as cited in the comments of check.go (RouteMatcher: single \"*\" domain and unique domains, compared in lower case; FilterChainManagerImpl::addFilterChains: identical matches, overlapping lookup tuples, partial wildcards, server names lower-cased; ListenerImpl::hasDuplicatedAddress: also for listeners that do not bind; CDS: duplicate cluster names; weighted clusters: sum in (0, 2^32-1]); protoc-gen-validate ValidateAll() generated in go-control-plane stands for the xDS API's own validation rules",
			"core.NewConfigGenTest (in-memory config store without validation, ServiceEntry registry, mesh config) stands for istiod's push context; generators are invoked as DiscoveryServer does for a forced full push",
			"an object that bypassed admission validation is still a decodable protobuf message (wire round trip); Go-only states (nil elements of repeated fields, nil map values) are not inputs",
			"typed configs whose type is not linked into the binary are counted (any_unknown_types) and not validated",
			"the root-cause recognisers of explain.go read the input objects only; a finding they do not recognise keeps its generic key and is a VIOLATION",
		},
		Anchors: []string{
			"pilot/pkg/networking/core/", "pilot/pkg/xds/eds.go", "pilot/pkg/xds/rds.go", "pkg/config/validation/validation.go", "pilot/pkg/model/gateway.go",
		},
		CrashIsViolation: true,
		MinNontrivial: func(t string) int {
			if t == "thorough" {
				return 6000
			}
			return 300
		},
		Batches:    func(t string) int { return map[string]int{"quick": 6, "thorough": 6}[t] },
		Parallel:   func(t string) int { return map[string]int{"quick": 6, "thorough": 6}[t] },
		TimeoutSec: func(t string) int { return map[string]int{"quick": 900, "thorough": 5400}[t] },
		Run:        run,
	})
}

func run(c *vh.Ctx) {
	quiet.Logs("none")
	if spec := os.Getenv(chunkEnv); spec != "" {
		runChunk(c, spec)
		return
	}
	supervise(c)
}

// runChunk runs the cases [from,to) of one stratum that belong to this batch (worker process).
func runChunk(c *vh.Ctx, spec string) {
	var stratum string
	var from, to int
	p := strings.Split(spec, ":")
	if len(p) != 3 {
		vh.Abort("bad %s=%q", chunkEnv, spec)
	}
	stratum = p[0]
	fmt.Sscan(p[1], &from)
	fmt.Sscan(p[2], &to)
	debugOut := os.Getenv("WELLFORMED_DEBUG") != ""
	if pf := os.Getenv("WELLFORMED_CPUPROFILE"); pf != "" {
		f, err := os.Create(pf)
		if err == nil {
			_ = pprof.StartCPUProfile(f)
			defer pprof.StopCPUProfile()
		}
	}
	for i := from; i < to; i++ {
		if !c.Mine(i) {
			continue
		}
		if stratum == "V" {
			c.Case(fmt.Sprintf("V-%d", i), func() { caseV(c, i, debugOut) })
		} else {
			c.Case(fmt.Sprintf("I-%d", i), func() { caseI(c, i, debugOut) })
		}
	}
}

// ---------------------------------------------------------------------------------------
// admission validation (the real validators, input side)

type validationResult struct {
	Err      error
	Panic    string // top istio frame when the validator itself crashed
	PanicMsg string
	Stack    string
}

func validateConfig(cfg config.Config) (res validationResult) {
	s, ok := collections.PilotGatewayAPI().FindByGroupVersionAliasesKind(cfg.GroupVersionKind)
	if !ok {
		vh.Abort("no schema for %v", cfg.GroupVersionKind)
	}
	defer func() {
		if r := recover(); r != nil {
			if hp, ok := r.(vh.HarnessPanic); ok {
				panic(hp)
			}
			st := string(debug.Stack())
			res = validationResult{Err: fmt.Errorf("validator panicked: %v", r), Panic: vh.TopIstioFrame(st), PanicMsg: fmt.Sprint(r), Stack: st}
		}
	}()
	_, err := s.ValidateConfig(cfg)
	return validationResult{Err: err}
}

// buildValidWorld draws world i and keeps only objects the real admission validators accept.
func buildValidWorld(c *vh.Ctx, i int) *world {
	m := mesh.DefaultMeshConfig()
	w := genWorld(c.Rng("world", i), m)
	kept := w.Configs[:0]
	for _, cfg := range w.Configs {
		w.Generated++
		res := validateConfig(cfg)
		if res.Panic != "" {
			c.Violation("panic:"+res.Panic, fmt.Sprintf("admission validator panicked on a generated %s: %s", cfg.GroupVersionKind.Kind, res.PanicMsg),
				map[string]any{"object": objectJSON(cfg), "stack": firstLines(res.Stack, 40)})
			continue
		}
		if res.Err != nil {
			w.Rejected[cfg.GroupVersionKind.Kind]++
			c.SetAdd("generator_rejections", cfg.GroupVersionKind.Kind+": "+firstReason(res.Err))
			continue
		}
		kept = append(kept, cfg)
	}
	w.Configs = kept
	return w
}

func firstReason(err error) string {
	s := err.Error()
	s = strings.TrimSpace(strings.TrimPrefix(strings.TrimSpace(s), "*"))
	if i := strings.Index(s, "\n"); i >= 0 {
		rest := strings.TrimSpace(s[i+1:])
		if strings.HasSuffix(strings.TrimSpace(s[:i]), "occurred:") || strings.HasSuffix(strings.TrimSpace(s[:i]), "error occurred:") {
			s = rest
			if j := strings.Index(s, "\n"); j >= 0 {
				s = s[:j]
			}
		} else {
			s = s[:i]
		}
	}
	s = strings.TrimSpace(strings.TrimPrefix(strings.TrimSpace(s), "*"))
	s = quotedRe.ReplaceAllString(s, `"…"`)
	if len(s) > 80 {
		s = s[:80]
	}
	return s
}

func firstLines(s string, n int) string {
	l := strings.Split(s, "\n")
	if len(l) > n {
		l = l[:n]
	}
	return strings.Join(l, "\n")
}

// ---------------------------------------------------------------------------------------
// running one world

type proxyOutcome struct {
	Proxy    *proxyDef
	Findings []finding
	Stats    *stats
	Summary  string
	Panic    string // top istio frame
	PanicMsg string
	Stack    string
}

type worldOutcome struct {
	Proxies    []*proxyOutcome
	SetupPanic *proxyOutcome // panic while building the environment / push context
	Fatal      *vh.FailerFatal
	Harness    *vh.HarnessPanic
	TimedOut   bool
}

func toModelProxy(i int, p *proxyDef) *model.Proxy {
	labels := map[string]string{}
	for k, v := range p.Labels {
		labels[k] = v
	}
	md := &model.NodeMetadata{
		Namespace:    p.NS,
		Labels:       labels,
		IstioVersion: p.IstioVersion,
	}
	if p.DNSCapture {
		md.DNSCapture = true
	}
	if p.DNSAutoAlloc {
		md.DNSAutoAllocate = true
	}
	if p.HTTP10 {
		md.HTTP10 = "1"
	}
	if p.Interception != "" {
		md.InterceptionMode = model.TrafficInterceptionMode(p.Interception)
	}
	if p.Unprivileged {
		md.UnprivilegedPod = "true"
	}
	if p.ExactBalance {
		md.InboundListenerExactBalance = true
		md.OutboundListenerExactBalance = true
	}
	mp := &model.Proxy{
		ID:              fmt.Sprintf("proxy-%d.%s", i, p.NS),
		ConfigNamespace: p.NS,
		DNSDomain:       p.NS + ".svc.cluster.local",
		IPAddresses:     append([]string{}, p.IPs...),
		Labels:          labels,
		Metadata:        md,
		Type:            model.SidecarProxy,
		// istiod always gives a connected proxy a (possibly empty) locality (pilot/pkg/xds/ads.go)
		Locality: &corev3.Locality{},
	}
	if p.Locality != "" {
		parts := strings.SplitN(p.Locality, "/", 3)
		mp.Locality.Region = parts[0]
		if len(parts) > 1 {
			mp.Locality.Zone = parts[1]
		}
		if len(parts) > 2 {
			mp.Locality.SubZone = parts[2]
		}
	}
	if p.Kind == "router" {
		mp.Type = model.Router
	}
	return mp
}

// hasClusterRemove reports whether any EnvoyFilter of the world removes clusters (a dangling reference is then the user's wish).
func hasClusterRemove(w *world) bool {
	for _, c := range w.ofKind(gvk.EnvoyFilter) {
		for _, p := range c.Spec.(*networking.EnvoyFilter).GetConfigPatches() {
			if p.GetApplyTo() == networking.EnvoyFilter_CLUSTER && p.GetPatch().GetOperation() == networking.EnvoyFilter_Patch_REMOVE {
				return true
			}
		}
	}
	return false
}

func buildCheckCtx(w *world, p *proxyDef, mp *model.Proxy, push *model.PushContext) *checkCtx {
	// input side: what the proxy was given (services in its scope; destination rule in force per host)
	removed := hasClusterRemove(w)
	return &checkCtx{
		ProxyKind: p.Kind,
		MustExist: func(h string, port int, subset string) bool {
			if mp.SidecarScope == nil {
				return false
			}
			svc := mp.SidecarScope.ServicesByHostname()[host.Name(h)]
			if svc == nil {
				return false
			}
			sp, ok := svc.Ports.GetByPort(port)
			if !ok || sp.Protocol == protocol.UDP {
				return false
			}
			var subsetLabels labels.Instance
			if subset != "" {
				cdr := mp.SidecarScope.DestinationRule(model.TrafficDirectionOutbound, mp, svc.Hostname)
				if cdr == nil || cdr.GetRule() == nil {
					return false
				}
				dr, ok := cdr.GetRule().Spec.(*networking.DestinationRule)
				if !ok {
					return false
				}
				found := false
				for _, s := range dr.GetSubsets() {
					if s.GetName() == subset {
						found = true
						subsetLabels = s.GetLabels()
					}
				}
				if !found {
					return false
				}
			}
			// istio documents that a DNS-resolved cluster without any endpoint is not generated
			// (metric pilot_dns_cluster_without_endpoints): such a reference dangles by design
			if svc.Resolution == model.DNSLB || svc.Resolution == model.DNSRoundRobinLB {
				if len(push.ServiceEndpointsByPort(svc, port, labels.Instance(subsetLabels))) == 0 {
					return false
				}
			}
			return true
		},
		ClusterRemoved: func(string) bool { return removed },
	}
}

// runWorld builds the environment and pushes to every proxy. It runs on its own goroutine so that a
// generation that never returns is reported as inconclusive; panics of the code under test are
// caught per phase so that the remaining proxies are still observed.
func runWorld(w *world) *worldOutcome {
	out := &worldOutcome{}
	done := make(chan struct{})
	features.FilterGatewayClusterConfig = w.FilterGW
	go func() {
		defer close(done)
		f := vh.NewF()
		defer f.Done()
		var cg *core.ConfigGenTest
		if po := guarded(out, func() {
			cg = core.NewConfigGenTest(f, core.TestOptions{Configs: w.Configs, MeshConfig: w.Mesh})
		}); po != nil {
			out.SetupPanic = po
			return
		}
		if out.Fatal != nil || out.Harness != nil {
			return
		}
		for i, p := range w.Proxies {
			po := &proxyOutcome{Proxy: p}
			if pp := guarded(out, func() {
				mp := cg.SetupProxy(toModelProxy(i, p))
				snap := generate(cg, mp)
				po.Summary = snap.summary()
				if d := os.Getenv("WELLFORMED_DUMP"); d != "" {
					dumpResources(p, snap, d)
				}
				po.Findings, po.Stats = checkSnapshot(snap, buildCheckCtx(w, p, mp, cg.PushContext()))
				if snap.NameTable != nil {
					po.Stats.Resources["NDS"] = 1
					po.Stats.Resources["NDS-entries"] = len(snap.NameTable.GetTable())
				}
			}); pp != nil {
				po.Panic, po.PanicMsg, po.Stack = pp.Panic, pp.PanicMsg, pp.Stack
			}
			out.Proxies = append(out.Proxies, po)
			if out.Fatal != nil || out.Harness != nil {
				return
			}
		}
	}()
	select {
	case <-done:
	case <-time.After(caseWatchdog):
		out = &worldOutcome{TimedOut: true}
	}
	return out
}

// dumpResources prints resources whose "<TYPE>:<name>" contains one of the comma-separated patterns (development aid).
func dumpResources(p *proxyDef, s *snapshot, patterns string) {
	pj := func(typ, name string, m proto.Message) {
		for _, pat := range strings.Split(patterns, ",") {
			if strings.Contains(typ+":"+name, pat) {
				b, _ := protojson.MarshalOptions{Multiline: true, Resolver: protoregistry.GlobalTypes}.Marshal(m)
				fmt.Fprintf(os.Stderr, "DUMP proxy=%s %s:%s\n%s\n", p, typ, name, b)
			}
		}
	}
	for _, r := range s.Clusters {
		pj("CDS", r.Msg.GetName(), r.Msg)
	}
	for _, r := range s.Listeners {
		pj("LDS", r.Msg.GetName(), r.Msg)
	}
	for _, r := range s.Routes {
		pj("RDS", r.Msg.GetName(), r.Msg)
	}
	for _, r := range s.Endpoints {
		pj("EDS", r.Msg.GetClusterName(), r.Msg)
	}
}

// guarded runs fn; a panic out of the code under test is returned, harness aborts are recorded.
func guarded(out *worldOutcome, fn func()) (po *proxyOutcome) {
	defer func() {
		if r := recover(); r != nil {
			switch v := r.(type) {
			case vh.FailerFatal:
				out.Fatal = &v
			case vh.HarnessPanic:
				out.Harness = &v
			default:
				st := string(debug.Stack())
				fmt.Fprintf(os.Stderr, "GENERATION-PANIC: %v\n%s\n", r, firstLines(st, 60))
				po = &proxyOutcome{Panic: vh.TopIstioFrame(st), PanicMsg: fmt.Sprint(r), Stack: firstLines(st, 50)}
			}
		}
	}()
	fn()
	return nil
}

// ---------------------------------------------------------------------------------------
// cases

func objectJSON(cfg config.Config) map[string]any {
	var spec any
	if b, err := config.ToJSON(cfg.Spec); err == nil {
		spec = json.RawMessage(b)
	} else {
		spec = fmt.Sprint(cfg.Spec)
	}
	return map[string]any{"kind": cfg.GroupVersionKind.Kind, "namespace": cfg.Namespace, "name": cfg.Name,
		"created": cfg.CreationTimestamp.Format(time.RFC3339), "spec": spec}
}

func worldJSON(w *world) map[string]any {
	var objs []any
	for _, c := range w.Configs {
		objs = append(objs, objectJSON(c))
	}
	mc := map[string]any{}
	if w.Mesh != nil {
		mc["outboundTrafficPolicy"] = w.Mesh.GetOutboundTrafficPolicy().GetMode().String()
		mc["accessLogFile"] = w.Mesh.GetAccessLogFile()
		mc["defaultServiceExportTo"] = w.Mesh.GetDefaultServiceExportTo()
		mc["enableAutoMtls"] = w.Mesh.GetEnableAutoMtls().GetValue()
	}
	return map[string]any{"objects": objs, "proxies": w.Proxies, "filterGatewayClusterConfig": w.FilterGW, "mesh": mc}
}

// record feeds the measured observations of one world into the evidence and reports whether every proxy produced output.
func record(c *vh.Ctx, stratum string, w *world, o *worldOutcome) (complete bool, crashed bool) {
	c.Count("worlds_"+stratum, 1)
	c.Count("objects_generated", w.Generated)
	for _, k := range sortedKeys(w.Rejected) {
		c.Count("objects_rejected_by_validator_"+k, w.Rejected[k])
	}
	c.Count("objects_in_worlds", len(w.Configs))
	if w.FilterGW {
		c.Count("worlds_with_gateway_cluster_filter", 1)
	}
	complete = len(o.Proxies) == len(w.Proxies)
	if o.SetupPanic != nil {
		crashed = true
	}
	for _, po := range o.Proxies {
		if po.Panic != "" {
			crashed = true
			continue
		}
		st := po.Stats
		c.Count("proxies_pushed", 1)
		c.Count("proxies_pushed_"+po.Proxy.Kind, 1)
		for _, k := range sortedKeys(st.Resources) {
			c.Count("resources_validated_"+k, st.Resources[k])
		}
		if st.Resources["LDS"] == 0 || st.Resources["CDS"] == 0 {
			complete = false
		}
		c.Count("pgv_validateall_calls", st.PGVRoots)
		c.Count("pgv_messages_covered", st.PGVMessages)
		for _, k := range sortedKeys(st.AnyResolved) {
			c.Count("typed_configs_resolved", st.AnyResolved[k])
			c.SetAdd("typed_config_types_validated", strings.TrimPrefix(k, "type.googleapis.com/"))
		}
		for _, k := range sortedKeys(st.AnyUnknown) {
			c.Count("typed_configs_unknown_type", st.AnyUnknown[k])
			c.SetAdd("any_unknown_types", k)
		}
		for _, k := range sortedKeys(st.NoValidator) {
			c.SetAdd("messages_without_validator", k)
		}
		c.Count("closure_rds_names_followed", st.RDSFollowed)
		c.Count("closure_eds_names_followed", st.EDSFollowed)
		c.Count("closure_eds_empty_assignments", st.EDSEmpty)
		c.Count("closure_ecds_names_followed", st.ECDSFollowed)
		c.Count("unasserted_ecds_names_not_produced", st.ECDSMissing)
		c.Count("closure_cluster_refs_followed", st.ClusterRefs)
		for _, k := range sortedKeys(st.ClusterRefsBy) {
			c.Count("closure_cluster_refs_"+k, st.ClusterRefsBy[k])
		}
		c.Count("closure_cluster_refs_resolved_in_cds", st.RefResolved)
		c.Count("closure_cluster_refs_bootstrap_builtin", st.RefBuiltin)
		c.Count("closure_cluster_refs_to_unknown_service", st.RefUnknownSvc)
		c.Count("unasserted_cluster_refs_dangling_for_known_service", st.RefDanglingKnown)
		c.Count("closure_cluster_refs_excused_by_user_patch", st.RefExempt)
		c.Count("closure_cluster_refs_dangling_other_name", st.RefOtherName)
		for _, k := range sortedKeys(st.OtherNames) {
			c.SetAdd("dangling_non_service_cluster_names", k)
		}
		c.Count("virtual_hosts_checked", st.VHosts)
		c.Count("vhost_domains_checked", st.Domains)
		c.Count("filter_chains_checked", st.FilterChains)
		c.Count("filter_chain_match_tuples", st.FCMTuples)
		c.Count("filter_chains_sharing_a_name_without_matcher", st.DupChainNames)
		c.Count("weighted_cluster_sets_checked", st.Weighted)
		c.Count("fraction_fields_checked", st.Fractions)
		c.Count("unspecified_fractional_percent_above_one", st.FractionsAboveOne)
		c.Count("unspecified_virtual_host_name_shared", st.DupVHostNames)
		c.Count("inline_route_configs_checked", st.InlineRoutes)
		c.Max("listeners_per_proxy", st.Resources["LDS"])
		c.Max("clusters_per_proxy", st.Resources["CDS"])
		for _, k := range sortedKeys(st.Shapes) {
			c.SetAdd("interaction_shapes", "out:"+k)
		}
	}
	return complete, crashed
}

func stratumKey(stratum, op, kind, rule string) string {
	if stratum == "I" {
		return fmt.Sprintf("I:op=%s:kind=%s:%s", op, kind, rule)
	}
	if strings.HasPrefix(rule, "panic:") {
		// a crash on admission-valid input is named after the crashing function only
		return rule
	}
	if op != "" && !strings.Contains(rule, ":cause=") {
		// an object damaged by an operator that the admission validator still accepts: the operator names the input shape
		return fmt.Sprintf("V:admitted:op=%s:kind=%s:%s", op, kind, rule)
	}
	return "V:" + rule
}

func caseV(c *vh.Ctx, i int, debugOut bool) {
	w := buildValidWorld(c, i)
	o := runWorld(w)
	report(c, "V", "", "", i, w, o, nil, debugOut)
}

// report turns an outcome into evidence, verdicts and violations. base (stratum I only) holds the
// finding keys of the unmutated world per proxy: those belong to stratum V and are not repeated.
func report(c *vh.Ctx, stratum, op, kind string, i int, w *world, o *worldOutcome, base map[int]map[string]bool, debugOut bool) {
	if o.TimedOut {
		c.Count("generation_watchdog_fired", 1)
		c.Inconclusive(fmt.Sprintf("generation did not return within %s", caseWatchdog))
		return
	}
	if o.Fatal != nil {
		c.Inconclusive("environment setup failed: " + o.Fatal.Msg)
		return
	}
	if o.Harness != nil {
		c.Inconclusive("harness: " + o.Harness.Msg)
		return
	}
	shapes := worldShapes(w)
	for _, s := range shapes {
		c.SetAdd("interaction_shapes", s)
	}
	for _, t := range envoyFilterTemplates(w) {
		c.SetAdd("envoyfilter_templates", t)
	}
	complete, crashed := record(c, stratum, w, o)
	wj := worldJSON(w)
	if debugOut {
		b, _ := json.Marshal(wj)
		fmt.Fprintf(os.Stderr, "WORLD %s\n", b)
		for _, po := range o.Proxies {
			fmt.Fprintf(os.Stderr, "PROXY %s: %s findings=%d panic=%q\n", po.Proxy, po.Summary, len(po.Findings), po.Panic)
			for _, f := range po.Findings {
				fmt.Fprintf(os.Stderr, "  FINDING %s: %s\n", f.key(), f.Msg)
			}
		}
	}
	if stratum == "V" {
		if (complete || crashed) && len(shapes) >= 2 {
			c.Nontrivial(vh.Hash(wj, op))
		}
	} else if complete || crashed {
		c.Nontrivial(vh.Hash(wj, op))
	}
	c.Sample(map[string]any{"stratum": stratum, "operator": op, "objects": len(w.Configs), "shapes": shapes, "proxies": summaries(o)})

	payload := func(extra map[string]any) map[string]any {
		m := map[string]any{"world": wj, "stratum": stratum}
		if op != "" {
			m["operator"], m["mutated_kind"] = op, kind
		}
		for k, v := range extra {
			m[k] = v
		}
		return m
	}
	if o.SetupPanic != nil {
		c.Count("panics_observed", 1)
		c.Violation(stratumKey(stratum, op, kind, "panic:"+o.SetupPanic.Panic),
			fmt.Sprintf("building the push context panicked: %s", o.SetupPanic.PanicMsg), payload(map[string]any{"stack": o.SetupPanic.Stack}))
		return
	}
	for pi, po := range o.Proxies {
		if po.Panic != "" {
			c.Count("panics_observed", 1)
			rule := "panic:" + po.Panic
			if base != nil && base[pi][rule] {
				c.Count("stratum_I_findings_already_in_base_world", 1)
				continue
			}
			c.Violation(stratumKey(stratum, op, kind, rule), fmt.Sprintf("generation for proxy %s panicked: %s", po.Proxy, po.PanicMsg),
				payload(map[string]any{"proxy": po.Proxy, "stack": po.Stack}))
			continue
		}
		seen := map[string]bool{}
		for _, f := range po.Findings {
			k := f.key()
			if seen[k] {
				continue
			}
			seen[k] = true
			if base != nil && base[pi][k] {
				c.Count("stratum_I_findings_already_in_base_world", 1)
				continue
			}
			c.Count("rule_violations_"+stratum, 1)
			ek := k
			if stratum == "I" {
				// a damaged object can merely uncover a cause that lies in the admission-valid objects (e.g. a broken Sidecar
				// no longer hides a service): such a finding is keyed by that cause, like in stratum V
				if x := explainedKey(w, po.Proxy, f); x != k {
					c.Count("stratum_I_findings_with_a_stratum_V_cause", 1)
					c.Violation("V:"+x, fmt.Sprintf("proxy %s: %s", po.Proxy, f.Msg), payload(map[string]any{"proxy": po.Proxy, "rule": k, "all_findings_of_proxy": findingMsgs(po.Findings, 12)}))
					continue
				}
			}
			if stratum == "V" {
				// root cause recognised from the input shape (explain.go), else the generic key
				ek = explainedKey(w, po.Proxy, f)
				if ek != k {
					c.Count("stratum_V_findings_with_recognised_cause", 1)
				} else {
					c.Count("stratum_V_findings_without_recognised_cause", 1)
				}
			}
			c.Violation(stratumKey(stratum, op, kind, ek), fmt.Sprintf("proxy %s: %s", po.Proxy, f.Msg), payload(map[string]any{"proxy": po.Proxy, "rule": k, "all_findings_of_proxy": findingMsgs(po.Findings, 12)}))
		}
	}
}

func findingMsgs(fs []finding, n int) []string {
	var out []string
	for _, f := range fs {
		if len(out) >= n {
			break
		}
		out = append(out, f.key()+": "+f.Msg)
	}
	return out
}

func summaries(o *worldOutcome) []string {
	var out []string
	for _, po := range o.Proxies {
		s := po.Proxy.String() + ": " + po.Summary
		if po.Panic != "" {
			s += " panic at " + po.Panic
		}
		out = append(out, s)
	}
	return out
}

func findingKeys(o *worldOutcome) map[int]map[string]bool {
	out := map[int]map[string]bool{}
	for pi, po := range o.Proxies {
		out[pi] = map[string]bool{}
		if po.Panic != "" {
			out[pi]["panic:"+po.Panic] = true
		}
		for _, f := range po.Findings {
			out[pi][f.key()] = true
		}
	}
	return out
}

func caseI(c *vh.Ctx, i int, debugOut bool) {
	w := buildValidWorld(c, i) // the same base world as case V-i
	op, victim := mutateWorldCounting(c, i, w, true)
	if victim < 0 {
		c.Count("stratum_I_no_applicable_operator", 1)
		c.Inconclusive("no operator applicable to this world")
		return
	}
	fmt.Fprintf(os.Stderr, "I-OP case=I-%d op=%s kind=%s\n", i, op.Name, op.Kind.Kind)
	kind := op.Kind.Kind
	opID := kind + "/" + op.Name
	c.SetAdd("operators_exercised", opID)
	res := validateConfig(w.Configs[victim])
	stratum := "I"
	switch {
	case res.Panic != "":
		c.Count("panics_observed", 1)
		c.Violation(stratumKey("I", op.Name, kind, "panic:"+res.Panic), fmt.Sprintf("admission validator panicked on the damaged %s: %s", kind, res.PanicMsg),
			map[string]any{"object": objectJSON(w.Configs[victim]), "stack": firstLines(res.Stack, 40), "operator": op.Name})
	case res.Err == nil && op.Kind == gvk.EnvoyFilter:
		// ValidateEnvoyFilter does not judge the content of a patch and EnvoyFilter is documented as "garbage in,
		// garbage out": a damaged patch stays in stratum I whatever the validator says
		c.Count("stratum_I_envoyfilter_mutant_admitted", 1)
		c.SetAdd("operators_not_rejected_by_validator", opID)
	case res.Err == nil:
		// the damaged object is still admission-valid: this world belongs to stratum V
		stratum = "V"
		c.Count("stratum_I_mutant_still_valid", 1)
		c.SetAdd("operators_not_rejected_by_validator", opID)
	default:
		c.Count("stratum_I_mutant_rejected_by_validator", 1)
		c.SetAdd("operators_rejected_by_validator", opID)
	}
	o := runWorld(w)
	var base map[int]map[string]bool
	dirty := o.SetupPanic != nil
	for _, po := range o.Proxies {
		if po.Panic != "" || len(po.Findings) > 0 {
			dirty = true
		}
	}
	if dirty && !o.TimedOut && o.Fatal == nil && o.Harness == nil {
		// attribute: whatever the unmutated world shows as well is stratum V's (reported by case V-i)
		bw := buildValidWorldQuiet(c, i)
		bo := runWorld(bw)
		if !bo.TimedOut && bo.Fatal == nil && bo.Harness == nil && bo.SetupPanic == nil {
			base = findingKeys(bo)
		}
		c.Count("stratum_I_base_world_reruns", 1)
	}
	if stratum == "V" {
		// admission accepted the damaged object: findings are stratum V, keyed with the operator that led there
		report(c, "V", op.Name, kind, i, w, o, base, debugOut)
		return
	}
	report(c, "I", op.Name, kind, i, w, o, base, debugOut)
}

// mutateWorld damages one object of w with one operator, both drawn from the "mutate" stream of case i.
func mutateWorld(c *vh.Ctx, i int, w *world) (op operator, victim int) {
	return mutateWorldCounting(c, i, w, false)
}

func mutateWorldCounting(c *vh.Ctx, i int, w *world, count bool) (op operator, victim int) {
	r := c.Rng("mutate", i)
	victim = -1
	for attempt := 0; attempt < 40 && victim < 0; attempt++ {
		o := operators[r.Intn(len(operators))]
		var cands []int
		for ci := range w.Configs {
			if w.Configs[ci].GroupVersionKind == o.Kind {
				cands = append(cands, ci)
			}
		}
		if len(cands) == 0 {
			continue
		}
		ci := cands[r.Intn(len(cands))]
		cp := w.Configs[ci].DeepCopy()
		if !o.Apply(r, cp.Spec) {
			continue
		}
		// what the control plane can be handed is a decoded message: pass the damaged object through the wire
		wired, ok := wireRoundTrip(cp.Spec)
		if !ok {
			if count {
				c.Count("stratum_I_mutant_not_representable_on_the_wire", 1)
			}
			continue
		}
		if pm, isProto := w.Configs[ci].Spec.(proto.Message); isProto && proto.Equal(pm, wired.(proto.Message)) {
			if count {
				c.Count("stratum_I_operator_without_effect", 1)
			}
			continue
		}
		cp.Spec = wired
		w.Configs[ci] = cp
		op, victim = o, ci
	}
	return op, victim
}

// wireRoundTrip encodes a spec as binary protobuf and decodes it into a fresh message: the result is an
// object that can really arrive (no nil list elements / map values, which exist only as Go values).
func wireRoundTrip(spec config.Spec) (config.Spec, bool) {
	m, ok := spec.(proto.Message)
	if !ok {
		return nil, false
	}
	b, err := proto.Marshal(m)
	if err != nil {
		return nil, false
	}
	out := m.ProtoReflect().New().Interface()
	if err := proto.Unmarshal(b, out); err != nil {
		return nil, false
	}
	return out, true
}

// buildValidWorldQuiet rebuilds world i without touching evidence counters.
func buildValidWorldQuiet(c *vh.Ctx, i int) *world {
	m := mesh.DefaultMeshConfig()
	w := genWorld(c.Rng("world", i), m)
	kept := w.Configs[:0]
	for _, cfg := range w.Configs {
		if res := validateConfig(cfg); res.Err == nil {
			kept = append(kept, cfg)
		}
	}
	w.Configs = kept
	return w
}

var _ = sort.Strings
var _ = meshconfig.MeshConfig{}
