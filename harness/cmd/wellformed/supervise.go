package main

// Crash isolation below the framework's child level. Hostile objects (stratum I) crash istio code on
// goroutines the case cannot guard (registry controllers, krt handlers): the process dies and with
// it every later case of the batch. The framework's child therefore only supervises: it runs the
// cases in worker processes (the same binary, the same -child flags, WELLFORMED_CHUNK=<stratum>:<from>:<to>),
// merges their results into its own Ctx, and when a worker dies it attributes the crash to the case
// the worker had logged last, reports it as a violation (the property says "does not crash"), re-runs
// the cases before it (their partial results are discarded) and continues after it.

import (
	"bufio"
	"encoding/json"
	"fmt"
	"os"
	"os/exec"
	"path/filepath"
	"strings"
	"syscall"
	"time"

	"verifharness/internal/vh"
)

const (
	chunkEnv      = "WELLFORMED_CHUNK"
	workerTimeout = 40 * time.Minute
)

func outRoot() string {
	if v := os.Getenv("VERIF_OUT"); v != "" {
		return v
	}
	return vh.VerifRoot
}

type supervisor struct {
	c      *vh.Ctx
	runDir string
	nSpawn int
}

func supervise(c *vh.Ctx) {
	s := &supervisor{c: c, runDir: filepath.Join(outRoot(), "run", c.Prop.ID)}
	_ = os.MkdirAll(s.runDir, 0o755)
	chunk := c.N(25, 60) * c.NBatch // global index span holding ~25 / ~60 of this batch's cases
	for _, st := range []struct {
		name string
		n    int
	}{{"V", c.N(quickV, thoroughV)}, {"I", c.N(quickI, thoroughI)}} {
		if c.Only != "" {
			// replay of one case
			var idx int
			if !strings.HasPrefix(c.Only, st.name+"-") {
				continue
			}
			if _, err := fmt.Sscanf(c.Only, st.name+"-%d", &idx); err != nil {
				continue
			}
			s.handle(st.name, idx, idx+1)
			continue
		}
		for from := 0; from < st.n; from += chunk {
			to := from + chunk
			if to > st.n {
				to = st.n
			}
			s.handle(st.name, from, to)
		}
	}
	c.Count("worker_processes_spawned", s.nSpawn)
}

func (s *supervisor) mine(from, to int) []int {
	var out []int
	for i := from; i < to; i++ {
		if s.c.Mine(i) {
			out = append(out, i)
		}
	}
	return out
}

type workerRun struct {
	res      vh.Result
	haveRes  bool
	clean    bool // exited 0 with a final result
	timedOut bool
	log      string
}

func (s *supervisor) spawn(stratum string, from, to int) workerRun {
	s.nSpawn++
	tag := fmt.Sprintf("worker.%d.%s-%d-%d.%d", s.c.Batch, stratum, from, to, s.nSpawn)
	outf := filepath.Join(s.runDir, tag+".json")
	logf := filepath.Join(s.runDir, tag+".log")
	_ = os.Remove(outf)
	wr := workerRun{log: logf}
	lf, err := os.Create(logf)
	if err != nil {
		return wr
	}
	defer lf.Close()
	cmd := exec.Command(os.Args[0], "-child", "-prop", s.c.Prop.ID, "-tier", s.c.Tier, "-seed", fmt.Sprint(s.c.Seed),
		"-batch", fmt.Sprint(s.c.Batch), "-nbatch", fmt.Sprint(s.c.NBatch), "-out", outf)
	cmd.Env = append(os.Environ(), fmt.Sprintf("%s=%s:%d:%d", chunkEnv, stratum, from, to))
	cmd.Stdout, cmd.Stderr = lf, lf
	cmd.SysProcAttr = &syscall.SysProcAttr{Pdeathsig: syscall.SIGKILL}
	if err := cmd.Start(); err != nil {
		fmt.Fprintf(os.Stderr, "worker start: %v\n", err)
		return wr
	}
	done := make(chan error, 1)
	go func() { done <- cmd.Wait() }()
	var exitErr error
	select {
	case exitErr = <-done:
	case <-time.After(workerTimeout):
		wr.timedOut = true
		_ = cmd.Process.Signal(syscall.SIGQUIT)
		select {
		case <-done:
		case <-time.After(10 * time.Second):
			_ = cmd.Process.Kill()
			<-done
		}
	}
	if b, err := os.ReadFile(outf); err == nil && json.Unmarshal(b, &wr.res) == nil {
		wr.haveRes = true
	}
	wr.clean = exitErr == nil && !wr.timedOut && wr.haveRes && wr.res.Done
	if wr.clean {
		_ = os.Remove(outf)
	}
	return wr
}

// handle runs the batch's cases in [from,to) of a stratum, surviving worker crashes.
func (s *supervisor) handle(stratum string, from, to int) {
	cases := s.mine(from, to)
	if len(cases) == 0 {
		return
	}
	wr := s.spawn(stratum, from, to)
	if wr.clean {
		s.merge(stratum, cases, &wr.res)
		return
	}
	// the worker died: the culprit is the last case it logged
	last, opLine, tail := lastCase(wr.log)
	culprit := -1
	if last != "" {
		fmt.Sscanf(strings.TrimPrefix(last, stratum+"-"), "%d", &culprit)
	}
	if culprit < from || culprit >= to {
		// died before its first case (or unreadable log): nothing attributable; give up on this span
		s.c.Case(fmt.Sprintf("%s-%d..%d", stratum, from, to), func() {
			s.c.Inconclusive(fmt.Sprintf("worker process ended abnormally before logging a case (see %s)", wr.log))
		})
		return
	}
	name := fmt.Sprintf("%s-%d", stratum, culprit)
	s.c.Case(name, func() {
		if wr.timedOut {
			s.c.Count("generation_watchdog_fired", 1)
			s.c.Inconclusive(fmt.Sprintf("worker did not finish within %s while in this case", workerTimeout))
			return
		}
		if strings.Contains(tail, vh.FailerMarker) && !strings.Contains(tail, "panic: ") && !strings.Contains(tail, "fatal error: ") {
			s.c.Inconclusive("environment setup failed on a background goroutine (failer fatal)")
			return
		}
		top, headline := crashInfo(tail)
		s.c.Count("process_crashes_observed", 1)
		op, kind := "", ""
		if stratum == "I" {
			for _, f := range strings.Fields(opLine) {
				if strings.HasPrefix(f, "op=") {
					op = strings.TrimPrefix(f, "op=")
				}
				if strings.HasPrefix(f, "kind=") {
					kind = strings.TrimPrefix(f, "kind=")
				}
			}
		}
		key := "crash:" + top
		if stratum == "I" && op != "" {
			key = fmt.Sprintf("I:op=%s:kind=%s:crash:%s", op, kind, top)
		}
		payload := map[string]any{"log": wr.log, "headline": headline, "stack": firstLines(tail[strings.Index(tail, headlineStart(tail)):], 40)}
		if w := s.rebuild(stratum, culprit); w != nil {
			payload["world"] = worldJSON(w)
		}
		s.c.Violation(key, "the process crashed (panic outside the pushing goroutine): "+headline, payload)
	})
	// cases before the culprit: run again in a fresh worker (the dead worker's partial result is dropped)
	if culprit > from {
		s.handle(stratum, from, culprit)
	}
	if culprit+1 < to {
		s.handle(stratum, culprit+1, to)
	}
}

// rebuild regenerates the input of a case without running it (for the replay payload of a crash).
func (s *supervisor) rebuild(stratum string, i int) (w *world) {
	defer func() {
		if r := recover(); r != nil {
			w = nil
		}
	}()
	w = buildValidWorldQuiet(s.c, i)
	if stratum == "I" {
		mutateWorld(s.c, i, w)
	}
	return w
}

// merge folds a finished worker's result into the supervisor's Ctx, case by case.
func (s *supervisor) merge(stratum string, cases []int, res *vh.Result) {
	c := s.c
	inconcl := map[string][]string{}
	for _, n := range res.Inconclusive {
		if i := strings.Index(n, ": "); i > 0 {
			inconcl[n[:i]] = append(inconcl[n[:i]], n[i+2:])
		}
	}
	viols := map[string][]vh.Violation{}
	for _, v := range res.Violations {
		viols[v.Case] = append(viols[v.Case], v)
	}
	replayedInc, replayedViol := 0, 0
	for _, i := range cases {
		name := fmt.Sprintf("%s-%d", stratum, i)
		c.Case(name, func() {
			for _, v := range viols[name] {
				replayedViol++
				c.Violation(v.Key, v.Msg, v.Replay)
			}
			for _, n := range inconcl[name] {
				replayedInc++
				c.Inconclusive(n)
			}
		})
	}
	for _, k := range sortedKeys(res.Counters) {
		v := int(res.Counters[k])
		switch {
		case k == "inconclusive":
			if v > replayedInc {
				c.Count(k, v-replayedInc)
			}
		case k == "violations_raw":
			if v > replayedViol {
				c.Count(k, v-replayedViol)
			}
		case strings.HasPrefix(k, "max:"):
			c.Max(strings.TrimPrefix(k, "max:"), v)
		default:
			c.Count(k, v)
		}
	}
	for _, k := range sortedKeys(res.Sets) {
		for _, v := range res.Sets[k] {
			c.SetAdd(k, v)
		}
	}
	for _, h := range res.Nontrivial {
		c.Nontrivial(h)
	}
	for _, smp := range res.Samples {
		c.Sample(smp)
	}
}

// lastCase returns the last "CASE x" line of a worker log, the last "I-OP" line after it and the text after it.
func lastCase(logf string) (last, opLine, tail string) {
	f, err := os.Open(logf)
	if err != nil {
		return "", "", ""
	}
	defer f.Close()
	var sb strings.Builder
	sc := bufio.NewScanner(f)
	sc.Buffer(make([]byte, 1<<20), 1<<26)
	for sc.Scan() {
		l := sc.Text()
		if strings.HasPrefix(l, "CASE ") {
			last = strings.TrimPrefix(l, "CASE ")
			opLine = ""
			sb.Reset()
			continue
		}
		if strings.HasPrefix(l, "I-OP ") {
			opLine = l
			continue
		}
		if sb.Len() < 1<<20 {
			sb.WriteString(l)
			sb.WriteByte('\n')
		}
	}
	return last, opLine, sb.String()
}

func headlineStart(s string) string {
	idx := -1
	m := ""
	for _, mk := range []string{"panic: ", "fatal error: ", "SIGSEGV"} {
		if i := strings.Index(s, mk); i >= 0 && (idx < 0 || i < idx) {
			idx, m = i, mk
		}
	}
	return m
}

// crashInfo extracts the innermost istio frame of the crashing goroutine and the headline (as the framework does for its children).
func crashInfo(s string) (top, headline string) {
	mk := headlineStart(s)
	if mk == "" {
		return "unknown", "worker exited abnormally without panic text"
	}
	rest := s[strings.Index(s, mk):]
	headline = strings.ReplaceAll(firstLines(rest, 2), "\n", " | ")
	if len(headline) > 300 {
		headline = headline[:300]
	}
	return vh.TopIstioFrame(rest), headline
}
