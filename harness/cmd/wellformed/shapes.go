package main

// Interaction shapes: which collisions a world really contains, computed from the final object set
// (after validation dropped objects), for the evidence.

import (
	"sort"
	"strings"

	networking "istio.io/api/networking/v1alpha3"
	"istio.io/istio/pkg/config/schema/gvk"
)

func wildcardMatches(pattern, h string) bool {
	if !strings.HasPrefix(pattern, "*") {
		return false
	}
	suffix := strings.ToLower(pattern[1:])
	h = strings.ToLower(h)
	return len(h) > len(suffix) && strings.HasSuffix(h, suffix)
}

func worldShapes(w *world) []string {
	set := map[string]bool{}
	add := func(s string) { set[s] = true }

	type hostAt struct{ host, ns string }
	var hosts []hostAt
	vipOwners := map[string][]string{}
	type portUse struct {
		proto string
		host  string
	}
	portUses := map[uint32][]portUse{}
	for _, c := range w.ofKind(gvk.ServiceEntry) {
		se := c.Spec.(*networking.ServiceEntry)
		add("se:resolution-" + se.GetResolution().String())
		if len(se.GetAddresses()) == 0 {
			add("se:no-address")
		}
		for _, a := range se.GetAddresses() {
			if strings.Contains(a, "/") {
				add("se:cidr-address")
			}
			vipOwners[a] = append(vipOwners[a], c.Namespace+"/"+c.Name)
		}
		if se.GetWorkloadSelector() != nil {
			add("se:workload-selector")
		}
		if len(se.GetHosts()) > 1 {
			add("se:several-hosts")
		}
		for _, h := range se.GetHosts() {
			hosts = append(hosts, hostAt{h, c.Namespace})
			for _, p := range se.GetPorts() {
				portUses[p.GetNumber()] = append(portUses[p.GetNumber()], portUse{strings.ToUpper(p.GetProtocol()), h})
			}
		}
		for _, e := range se.GetEndpoints() {
			if strings.HasPrefix(e.GetAddress(), "10.9.") {
				add("se:endpoint-is-a-proxy-under-test")
			}
			if strings.HasPrefix(e.GetAddress(), "unix://") {
				add("se:uds-endpoint")
			}
		}
	}
	for i := range hosts {
		for j := i + 1; j < len(hosts); j++ {
			a, b := hosts[i], hosts[j]
			switch {
			case a.host == b.host && a.ns == b.ns:
				add("se:same-host-twice-in-one-namespace")
			case a.host == b.host:
				add("se:same-host-in-two-namespaces")
			case strings.EqualFold(a.host, b.host):
				add("se:hosts-differ-only-in-case")
			case wildcardMatches(a.host, b.host) || wildcardMatches(b.host, a.host):
				if strings.HasPrefix(a.host, "*") && strings.HasPrefix(b.host, "*") {
					add("se:wildcard-overlaps-wildcard")
				} else {
					add("se:wildcard-overlaps-exact-host")
				}
			}
		}
	}
	for a, owners := range vipOwners {
		if len(owners) > 1 {
			if strings.Contains(a, "/") {
				add("se:same-cidr-for-several-entries")
			} else {
				add("se:same-vip-for-several-entries")
			}
		}
	}
	for _, uses := range portUses {
		protos := map[string]bool{}
		hostsOn := map[string]bool{}
		for _, u := range uses {
			protos[u.proto] = true
			hostsOn[u.host] = true
		}
		if len(hostsOn) > 1 {
			add("port:same-number-on-several-services")
		}
		httpish, tcpish, auto := false, false, false
		for p := range protos {
			switch {
			case p == "":
				auto = true
			case isHTTPProto(p):
				httpish = true
			default:
				tcpish = true
			}
		}
		if httpish && tcpish {
			add("port:http-and-tcp-on-one-number")
		}
		if auto && (httpish || tcpish) {
			add("port:auto-detect-and-explicit-on-one-number")
		}
		if protos["TLS"] && protos["HTTPS"] || (protos["TLS"] || protos["HTTPS"]) && protos["TCP"] {
			add("port:tls-and-tcp-on-one-number")
		}
	}

	// gateways
	type srvKey struct {
		port  uint32
		hosts string
	}
	type srvAt struct {
		gw    string
		proto string
		tls   string
	}
	servers := map[srvKey][]srvAt{}
	portProtos := map[uint32]map[string]bool{}
	gwHostsSeen := map[string]string{}
	for _, c := range w.ofKind(gvk.Gateway) {
		g := c.Spec.(*networking.Gateway)
		for _, s := range g.GetServers() {
			hs := append([]string{}, s.GetHosts()...)
			sort.Strings(hs)
			k := srvKey{s.GetPort().GetNumber(), strings.Join(hs, ",")}
			servers[k] = append(servers[k], srvAt{c.Namespace + "/" + c.Name, s.GetPort().GetProtocol(), s.GetTls().String()})
			if portProtos[s.GetPort().GetNumber()] == nil {
				portProtos[s.GetPort().GetNumber()] = map[string]bool{}
			}
			portProtos[s.GetPort().GetNumber()][strings.ToUpper(s.GetPort().GetProtocol())] = true
			if s.GetTls() != nil {
				add("gw:tls-" + s.GetTls().GetMode().String())
			}
			if s.GetBind() != "" {
				add("gw:bind")
			}
			for _, h := range s.GetHosts() {
				bare := h
				if i := strings.Index(h, "/"); i >= 0 {
					bare = h[i+1:]
					add("gw:namespaced-host")
				}
				lk := strings.ToLower(bare)
				if prev, ok := gwHostsSeen[lk]; ok && prev != bare {
					add("gw:hosts-differ-only-in-case")
				}
				gwHostsSeen[lk] = bare
				if h == "*/*" && len(s.GetHosts()) > 1 {
					add("gw:star-star-with-other-hosts")
				}
			}
		}
	}
	for _, at := range servers {
		if len(at) < 2 {
			continue
		}
		gws := map[string]bool{}
		tls := map[string]bool{}
		for _, a := range at {
			gws[a.gw] = true
			tls[a.tls] = true
		}
		if len(gws) > 1 {
			add("gw:same-server-in-several-gateways")
		} else {
			add("gw:same-server-twice-in-one-gateway")
		}
		if len(tls) > 1 {
			add("gw:same-port-and-hosts-different-tls")
		}
	}
	for _, ps := range portProtos {
		if len(ps) > 1 {
			add("gw:one-port-several-protocols")
		}
		if ps["TLS"] && ps["HTTPS"] {
			add("gw:passthrough-and-terminating-on-one-port")
		}
	}

	// destination rules
	drHosts := map[string]int{}
	for _, c := range w.ofKind(gvk.DestinationRule) {
		d := c.Spec.(*networking.DestinationRule)
		drHosts[d.GetHost()]++
		if strings.HasPrefix(d.GetHost(), "*") {
			add("dr:wildcard-host")
		}
		if d.GetWorkloadSelector() != nil {
			add("dr:workload-selector")
		}
		for _, s := range d.GetSubsets() {
			if s.GetLabels()["version"] == "nobody" {
				add("dr:subset-without-endpoints")
			}
			if s.GetTrafficPolicy() != nil {
				add("dr:subset-traffic-policy")
			}
		}
		if tp := d.GetTrafficPolicy(); tp != nil {
			if len(tp.GetPortLevelSettings()) > 0 {
				add("dr:port-level-settings")
			}
			if tp.GetTls() != nil {
				add("dr:tls-" + tp.GetTls().GetMode().String())
			}
			if tp.GetLoadBalancer().GetConsistentHash() != nil {
				add("dr:consistent-hash")
			}
			if tp.GetLoadBalancer().GetLocalityLbSetting() != nil {
				add("dr:locality-lb")
			}
			if tp.GetTunnel() != nil {
				add("dr:tunnel")
			}
		}
	}
	for _, n := range drHosts {
		if n > 1 {
			add("dr:several-rules-for-one-host")
		}
	}

	// virtual services
	vsHosts := map[string]int{}
	svcHosts := map[string]bool{}
	for _, h := range hosts {
		svcHosts[h.host] = true
	}
	for _, c := range w.ofKind(gvk.VirtualService) {
		v := c.Spec.(*networking.VirtualService)
		if len(v.GetHosts()) == 0 {
			add("vs:delegate-object")
		}
		for _, h := range v.GetHosts() {
			vsHosts[strings.ToLower(h)]++
		}
		mesh, gwb := len(v.GetGateways()) == 0, false
		for _, g := range v.GetGateways() {
			if g == "mesh" {
				mesh = true
			} else {
				gwb = true
			}
		}
		if mesh && gwb {
			add("vs:gateway-and-mesh")
		}
		if len(v.GetTcp()) > 0 {
			add("vs:tcp-route")
		}
		if len(v.GetTls()) > 0 {
			add("vs:tls-route")
		}
		if len(v.GetHttp()) > 0 && (len(v.GetTcp()) > 0 || len(v.GetTls()) > 0) {
			add("vs:http-and-l4-routes")
		}
		for _, h := range v.GetHttp() {
			if h.GetDelegate() != nil {
				add("vs:delegate")
				if h.GetDelegate().GetName() == "no-such-delegate" {
					add("vs:delegate-dangling")
				}
			}
			if len(h.GetRoute()) > 1 {
				add("vs:weighted")
				z := 0
				for _, d := range h.GetRoute() {
					if d.GetWeight() == 0 {
						z++
					}
				}
				if z == len(h.GetRoute()) {
					add("vs:weighted-all-zero")
				} else if z > 0 {
					add("vs:weighted-some-zero")
				}
			}
			if h.GetMirror() != nil || len(h.GetMirrors()) > 0 {
				add("vs:mirror")
			}
			if h.GetFault() != nil {
				add("vs:fault")
			}
			if h.GetRedirect() != nil {
				add("vs:redirect")
			}
			if h.GetDirectResponse() != nil {
				add("vs:direct-response")
			}
			if h.GetCorsPolicy() != nil {
				add("vs:cors")
			}
			for _, d := range h.GetRoute() {
				if !svcHosts[d.GetDestination().GetHost()] {
					add("vs:destination-unknown-host")
				}
				if d.GetDestination().GetSubset() == "undefined" {
					add("vs:destination-undefined-subset")
				}
				if d.GetDestination().GetPort().GetNumber() == 12345 {
					add("vs:destination-port-not-on-service")
				}
			}
		}
	}
	for _, n := range vsHosts {
		if n > 1 {
			add("vs:several-for-one-host")
		}
	}

	// sidecars
	for _, c := range w.ofKind(gvk.Sidecar) {
		s := c.Spec.(*networking.Sidecar)
		if c.Namespace == rootNS {
			add("sidecar:root-namespace-default")
		}
		if s.GetWorkloadSelector() != nil {
			add("sidecar:workload-selector")
		}
		if len(s.GetIngress()) > 0 {
			add("sidecar:ingress-listener")
		}
		for _, e := range s.GetEgress() {
			if e.GetPort() != nil {
				add("sidecar:egress-port-listener")
			}
			if e.GetBind() != "" {
				add("sidecar:egress-bind")
				if strings.HasPrefix(e.GetBind(), "unix://") {
					add("sidecar:egress-uds")
				}
			}
			if e.GetCaptureMode() == networking.CaptureMode_NONE {
				add("sidecar:capture-none")
			}
		}
		if s.GetOutboundTrafficPolicy().GetEgressProxy() != nil {
			add("sidecar:egress-proxy")
		}
		if s.GetOutboundTrafficPolicy() != nil {
			add("sidecar:outbound-policy-" + s.GetOutboundTrafficPolicy().GetMode().String())
		}
	}
	if len(w.ofKind(gvk.PeerAuthentication)) > 0 {
		add("security:peer-authentication")
	}
	if len(w.ofKind(gvk.EnvoyFilter)) > 0 {
		add("envoyfilter:present")
	}
	if len(w.ofKind(gvk.WorkloadEntry)) > 0 {
		add("workload-entries")
	}
	if w.FilterGW {
		add("feature:filter-gateway-cluster-config")
	}
	if w.Mesh.GetOutboundTrafficPolicy().GetMode().String() == "REGISTRY_ONLY" {
		add("mesh:registry-only")
	}
	if w.Mesh.GetAccessLogFile() != "" {
		add("mesh:access-log")
	}
	for _, p := range w.Proxies {
		if p.Interception != "" {
			add("proxy:interception-" + p.Interception)
		}
		if p.DNSCapture {
			add("proxy:dns-capture")
		}
		if p.HTTP10 {
			add("proxy:http10")
		}
		if len(p.IPs) > 1 {
			add("proxy:dual-stack")
		} else if strings.Contains(p.IPs[0], ":") {
			add("proxy:ipv6-only")
		}
		if p.Unprivileged {
			add("proxy:unprivileged-gateway")
		}
		add("proxy:version-" + p.IstioVersion)
	}
	out := make([]string, 0, len(set))
	for s := range set {
		out = append(out, s)
	}
	sort.Strings(out)
	return out
}

func envoyFilterTemplates(w *world) []string {
	var out []string
	for _, c := range w.ofKind(gvk.EnvoyFilter) {
		if t := c.Annotations["verif/templates"]; t != "" {
			out = append(out, strings.Split(t, ",")...)
		}
	}
	sort.Strings(out)
	return out
}
