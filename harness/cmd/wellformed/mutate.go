package main

// Stratum I: one valid object of a valid world is damaged by ONE operator from a finite list, the
// way an object looks that reached istiod without passing admission validation (webhook disabled,
// failurePolicy Ignore, file/MCP source, older CRD schema). The store of NewConfigGenTest does not
// validate, so the object reaches the generators unfiltered.
//
// Only objects that can exist are in the property's quantifier ("every object the control plane can be
// handed"): whatever the source (Kubernetes JSON, files, MCP-over-xDS), an object arrives as a decoded
// protobuf message. A Go-only state such as a nil pointer inside a repeated field or a nil map value
// cannot be decoded from any encoding (JSON null elements are refused or become empty messages, the
// binary encoding has no notion of it). Every damaged object therefore goes through wireRoundTrip
// (binary protobuf, the most permissive encoding) before use, and the operators damage with empty
// messages ("- {}"), never with nil elements.

import (
	"math/rand"

	"google.golang.org/protobuf/types/known/durationpb"
	"google.golang.org/protobuf/types/known/structpb"
	"google.golang.org/protobuf/types/known/wrapperspb"

	networking "istio.io/api/networking/v1alpha3"
	typev1beta1 "istio.io/api/type/v1beta1"
	"istio.io/istio/pkg/config"
	"istio.io/istio/pkg/config/schema/gvk"
)

type operator struct {
	Name  string
	Kind  config.GroupVersionKind
	Apply func(r *rand.Rand, spec config.Spec) bool // false: not applicable to this object
}

func se(f func(r *rand.Rand, s *networking.ServiceEntry) bool) func(*rand.Rand, config.Spec) bool {
	return func(r *rand.Rand, spec config.Spec) bool { return f(r, spec.(*networking.ServiceEntry)) }
}

func vs(f func(r *rand.Rand, s *networking.VirtualService) bool) func(*rand.Rand, config.Spec) bool {
	return func(r *rand.Rand, spec config.Spec) bool { return f(r, spec.(*networking.VirtualService)) }
}

func dr(f func(r *rand.Rand, s *networking.DestinationRule) bool) func(*rand.Rand, config.Spec) bool {
	return func(r *rand.Rand, spec config.Spec) bool { return f(r, spec.(*networking.DestinationRule)) }
}

func gw(f func(r *rand.Rand, s *networking.Gateway) bool) func(*rand.Rand, config.Spec) bool {
	return func(r *rand.Rand, spec config.Spec) bool { return f(r, spec.(*networking.Gateway)) }
}

func sc(f func(r *rand.Rand, s *networking.Sidecar) bool) func(*rand.Rand, config.Spec) bool {
	return func(r *rand.Rand, spec config.Spec) bool { return f(r, spec.(*networking.Sidecar)) }
}

func ef(f func(r *rand.Rand, s *networking.EnvoyFilter) bool) func(*rand.Rand, config.Spec) bool {
	return func(r *rand.Rand, spec config.Spec) bool { return f(r, spec.(*networking.EnvoyFilter)) }
}

// helpers over virtual services
func httpDests(s *networking.VirtualService) []*networking.HTTPRouteDestination {
	var out []*networking.HTTPRouteDestination
	for _, h := range s.Http {
		out = append(out, h.Route...)
	}
	return out
}

func l4Dests(s *networking.VirtualService) []*networking.RouteDestination {
	var out []*networking.RouteDestination
	for _, t := range s.Tcp {
		out = append(out, t.Route...)
	}
	for _, t := range s.Tls {
		out = append(out, t.Route...)
	}
	return out
}

func httpMatches(s *networking.VirtualService) []*networking.HTTPMatchRequest {
	var out []*networking.HTTPMatchRequest
	for _, h := range s.Http {
		out = append(out, h.Match...)
	}
	return out
}

func routedHTTP(s *networking.VirtualService) []*networking.HTTPRoute {
	var out []*networking.HTTPRoute
	for _, h := range s.Http {
		if len(h.Route) > 0 {
			out = append(out, h)
		}
	}
	return out
}

func allTrafficPolicies(s *networking.DestinationRule) []*networking.TrafficPolicy {
	var out []*networking.TrafficPolicy
	if s.TrafficPolicy != nil {
		out = append(out, s.TrafficPolicy)
	}
	for _, ss := range s.Subsets {
		if ss.TrafficPolicy != nil {
			out = append(out, ss.TrafficPolicy)
		}
	}
	return out
}

func ensureTP(s *networking.DestinationRule) *networking.TrafficPolicy {
	if s.TrafficPolicy == nil {
		s.TrafficPolicy = &networking.TrafficPolicy{}
	}
	return s.TrafficPolicy
}

var operators = []operator{
	// ---- ServiceEntry
	{"host-empty", gvk.ServiceEntry, se(func(r *rand.Rand, s *networking.ServiceEntry) bool { s.Hosts[r.Intn(len(s.Hosts))] = ""; return true })},
	{"host-none", gvk.ServiceEntry, se(func(r *rand.Rand, s *networking.ServiceEntry) bool { s.Hosts = nil; return true })},
	{"host-duplicate", gvk.ServiceEntry, se(func(r *rand.Rand, s *networking.ServiceEntry) bool {
		s.Hosts = append(s.Hosts, s.Hosts[0])
		return true
	})},
	{"host-duplicate-case", gvk.ServiceEntry, se(func(r *rand.Rand, s *networking.ServiceEntry) bool {
		h := []byte(s.Hosts[0])
		for i := range h {
			if h[i] >= 'a' && h[i] <= 'z' {
				h[i] -= 32
				break
			}
		}
		s.Hosts = append(s.Hosts, string(h))
		return true
	})},
	{"host-star", gvk.ServiceEntry, se(func(r *rand.Rand, s *networking.ServiceEntry) bool { s.Hosts[0] = "*"; return true })},
	{"host-malformed", gvk.ServiceEntry, se(func(r *rand.Rand, s *networking.ServiceEntry) bool {
		s.Hosts[0] = pick(r, []string{"a_b..example.com", "*.*.example.com", "foo*", "exa mple.com", "-bad-.com", "a.example.com:80", "http://a.example.com", "*a.example.com"})
		return true
	})},
	{"port-zero", gvk.ServiceEntry, se(func(r *rand.Rand, s *networking.ServiceEntry) bool {
		s.Ports[r.Intn(len(s.Ports))].Number = 0
		return true
	})},
	{"port-70000", gvk.ServiceEntry, se(func(r *rand.Rand, s *networking.ServiceEntry) bool {
		s.Ports[r.Intn(len(s.Ports))].Number = 70000
		return true
	})},
	{"port-none", gvk.ServiceEntry, se(func(r *rand.Rand, s *networking.ServiceEntry) bool { s.Ports = nil; return true })},
	{"port-empty-entry", gvk.ServiceEntry, se(func(r *rand.Rand, s *networking.ServiceEntry) bool {
		s.Ports = append(s.Ports, &networking.ServicePort{})
		return true
	})},
	{"target-port-70000", gvk.ServiceEntry, se(func(r *rand.Rand, s *networking.ServiceEntry) bool { s.Ports[0].TargetPort = 70000; return true })},
	{"port-number-duplicate", gvk.ServiceEntry, se(func(r *rand.Rand, s *networking.ServiceEntry) bool {
		p := s.Ports[0]
		s.Ports = append(s.Ports, &networking.ServicePort{Number: p.Number, Name: p.Name + "-again", Protocol: pick(r, []string{"TCP", "HTTP", p.Protocol})})
		return true
	})},
	{"port-name-duplicate", gvk.ServiceEntry, se(func(r *rand.Rand, s *networking.ServiceEntry) bool {
		p := s.Ports[0]
		s.Ports = append(s.Ports, &networking.ServicePort{Number: p.Number + 1, Name: p.Name, Protocol: p.Protocol})
		return true
	})},
	{"port-name-empty", gvk.ServiceEntry, se(func(r *rand.Rand, s *networking.ServiceEntry) bool { s.Ports[0].Name = ""; return true })},
	{"protocol-unknown", gvk.ServiceEntry, se(func(r *rand.Rand, s *networking.ServiceEntry) bool {
		s.Ports[r.Intn(len(s.Ports))].Protocol = pick(r, []string{"FOO", "http/2", "UDP", "QUIC"})
		return true
	})},
	{"address-invalid", gvk.ServiceEntry, se(func(r *rand.Rand, s *networking.ServiceEntry) bool {
		s.Addresses = []string{pick(r, []string{"not-an-ip", "10.0.0.0/33", "300.1.1.1", "", "10.0.0.1/", "::/129", "0.0.0.0"})}
		return true
	})},
	{"address-duplicate", gvk.ServiceEntry, se(func(r *rand.Rand, s *networking.ServiceEntry) bool {
		if len(s.Addresses) == 0 {
			s.Addresses = []string{"10.10.0.1"}
		}
		s.Addresses = append(s.Addresses, s.Addresses[0])
		return true
	})},
	{"endpoint-address-invalid", gvk.ServiceEntry, se(func(r *rand.Rand, s *networking.ServiceEntry) bool {
		if len(s.Endpoints) == 0 {
			return false
		}
		s.Endpoints[r.Intn(len(s.Endpoints))].Address = pick(r, []string{"", "not an address", "300.1.1.1", "unix://relative/path", "10.0.0.1:80", "*.example.com"})
		return true
	})},
	{"endpoint-empty-entry", gvk.ServiceEntry, se(func(r *rand.Rand, s *networking.ServiceEntry) bool {
		if s.WorkloadSelector != nil {
			return false
		}
		s.Endpoints = append(s.Endpoints, &networking.WorkloadEntry{})
		return true
	})},
	{"endpoint-port-invalid", gvk.ServiceEntry, se(func(r *rand.Rand, s *networking.ServiceEntry) bool {
		if len(s.Endpoints) == 0 {
			return false
		}
		s.Endpoints[0].Ports = map[string]uint32{s.Ports[0].Name: pick(r, []uint32{0, 70000}), "no-such-port": 80}
		return true
	})},
	{"endpoint-for-resolution-none", gvk.ServiceEntry, se(func(r *rand.Rand, s *networking.ServiceEntry) bool {
		s.Resolution = networking.ServiceEntry_NONE
		s.WorkloadSelector = nil
		s.Endpoints = []*networking.WorkloadEntry{{Address: "10.30.0.9"}}
		return true
	})},
	{"endpoint-hostname-for-static", gvk.ServiceEntry, se(func(r *rand.Rand, s *networking.ServiceEntry) bool {
		s.Resolution = networking.ServiceEntry_STATIC
		s.WorkloadSelector = nil
		s.Endpoints = []*networking.WorkloadEntry{{Address: "backend.internal"}}
		return true
	})},
	{"wildcard-host-dns-no-endpoints", gvk.ServiceEntry, se(func(r *rand.Rand, s *networking.ServiceEntry) bool {
		s.Hosts = []string{"*.wild.example.com"}
		s.Resolution = networking.ServiceEntry_DNS
		s.Endpoints, s.WorkloadSelector = nil, nil
		return true
	})},
	{"selector-and-endpoints", gvk.ServiceEntry, se(func(r *rand.Rand, s *networking.ServiceEntry) bool {
		s.WorkloadSelector = &networking.WorkloadSelector{Labels: map[string]string{"app": "a"}}
		s.Endpoints = append(s.Endpoints, &networking.WorkloadEntry{Address: "10.30.0.9"})
		return true
	})},
	{"selector-empty", gvk.ServiceEntry, se(func(r *rand.Rand, s *networking.ServiceEntry) bool {
		s.Endpoints = nil
		s.WorkloadSelector = &networking.WorkloadSelector{}
		return true
	})},
	{"resolution-unknown", gvk.ServiceEntry, se(func(r *rand.Rand, s *networking.ServiceEntry) bool {
		s.Resolution = networking.ServiceEntry_Resolution(9)
		return true
	})},
	{"export-to-invalid", gvk.ServiceEntry, se(func(r *rand.Rand, s *networking.ServiceEntry) bool {
		s.ExportTo = pick(r, [][]string{{"~", "*"}, {""}, {"*", "."}, {"not a namespace!"}, {"~"}})
		return true
	})},
	{"endpoint-weight-huge", gvk.ServiceEntry, se(func(r *rand.Rand, s *networking.ServiceEntry) bool {
		if len(s.Endpoints) == 0 {
			return false
		}
		for _, e := range s.Endpoints {
			e.Weight = 4294967295
		}
		return true
	})},
	{"endpoint-locality-malformed", gvk.ServiceEntry, se(func(r *rand.Rand, s *networking.ServiceEntry) bool {
		if len(s.Endpoints) == 0 {
			return false
		}
		s.Endpoints[0].Locality = pick(r, []string{"/", "a//b", "a/b/c/d", "*/x", " "})
		return true
	})},

	// ---- VirtualService
	{"host-empty", gvk.VirtualService, vs(func(r *rand.Rand, s *networking.VirtualService) bool {
		if len(s.Hosts) == 0 {
			return false
		}
		s.Hosts[r.Intn(len(s.Hosts))] = ""
		return true
	})},
	{"host-none", gvk.VirtualService, vs(func(r *rand.Rand, s *networking.VirtualService) bool {
		if len(s.Hosts) == 0 {
			return false
		}
		s.Hosts = nil
		return true
	})},
	{"host-duplicate", gvk.VirtualService, vs(func(r *rand.Rand, s *networking.VirtualService) bool {
		if len(s.Hosts) == 0 {
			return false
		}
		s.Hosts = append(s.Hosts, s.Hosts[0])
		return true
	})},
	{"host-duplicate-case", gvk.VirtualService, vs(func(r *rand.Rand, s *networking.VirtualService) bool {
		if len(s.Hosts) == 0 {
			return false
		}
		h := []byte(s.Hosts[0])
		ok := false
		for i := range h {
			if h[i] >= 'a' && h[i] <= 'z' {
				h[i] -= 32
				ok = true
				break
			}
		}
		s.Hosts = append(s.Hosts, string(h))
		return ok
	})},
	{"host-malformed", gvk.VirtualService, vs(func(r *rand.Rand, s *networking.VirtualService) bool {
		if len(s.Hosts) == 0 {
			return false
		}
		s.Hosts[0] = pick(r, []string{"a_b..example.com", "*.*.example.com", "foo*", "exa mple.com", "a.example.com:80", "*a.example.com", "**"})
		return true
	})},
	{"host-overlapping-wildcards", gvk.VirtualService, vs(func(r *rand.Rand, s *networking.VirtualService) bool {
		if len(s.Hosts) == 0 {
			return false
		}
		s.Hosts = append(s.Hosts, "*", "*.com", "*.example.com")
		return true
	})},
	{"port-zero", gvk.VirtualService, vs(func(r *rand.Rand, s *networking.VirtualService) bool {
		ds := httpDests(s)
		if len(ds) == 0 || ds[0].Destination == nil {
			return false
		}
		ds[0].Destination.Port = &networking.PortSelector{Number: 0}
		return true
	})},
	{"port-70000", gvk.VirtualService, vs(func(r *rand.Rand, s *networking.VirtualService) bool {
		ok := false
		for _, d := range httpDests(s) {
			if d.Destination != nil {
				d.Destination.Port = &networking.PortSelector{Number: 70000}
				ok = true
			}
		}
		for _, d := range l4Dests(s) {
			if d.Destination != nil {
				d.Destination.Port = &networking.PortSelector{Number: 70000}
				ok = true
			}
		}
		return ok
	})},
	{"match-port-70000", gvk.VirtualService, vs(func(r *rand.Rand, s *networking.VirtualService) bool {
		ok := false
		for _, m := range httpMatches(s) {
			m.Port, ok = 70000, true
		}
		for _, t := range s.Tcp {
			for _, m := range t.Match {
				m.Port, ok = 70000, true
			}
		}
		for _, t := range s.Tls {
			for _, m := range t.Match {
				m.Port, ok = 70000, true
			}
		}
		return ok
	})},
	{"weight-negative", gvk.VirtualService, vs(func(r *rand.Rand, s *networking.VirtualService) bool {
		ok := false
		for _, d := range httpDests(s) {
			d.Weight, ok = -1, true
		}
		for _, d := range l4Dests(s) {
			d.Weight, ok = -1, true
		}
		return ok
	})},
	{"weight-negative-one-of-many", gvk.VirtualService, vs(func(r *rand.Rand, s *networking.VirtualService) bool {
		for _, h := range s.Http {
			if len(h.Route) > 1 {
				h.Route[0].Weight = -50
				return true
			}
		}
		for _, h := range s.Tcp {
			if len(h.Route) > 1 {
				h.Route[0].Weight = -50
				return true
			}
		}
		return false
	})},
	{"weight-over-100", gvk.VirtualService, vs(func(r *rand.Rand, s *networking.VirtualService) bool {
		ok := false
		for _, d := range httpDests(s) {
			d.Weight, ok = 150, true
		}
		for _, d := range l4Dests(s) {
			d.Weight, ok = 150, true
		}
		return ok
	})},
	{"weight-max-int", gvk.VirtualService, vs(func(r *rand.Rand, s *networking.VirtualService) bool {
		ok := false
		for _, d := range httpDests(s) {
			d.Weight, ok = 2147483647, true
		}
		for _, d := range l4Dests(s) {
			d.Weight, ok = 2147483647, true
		}
		return ok
	})},
	{"weight-all-zero", gvk.VirtualService, vs(func(r *rand.Rand, s *networking.VirtualService) bool {
		for _, h := range s.Http {
			if len(h.Route) > 1 {
				for _, d := range h.Route {
					d.Weight = 0
				}
				return true
			}
		}
		for _, h := range s.Tcp {
			if len(h.Route) > 1 {
				for _, d := range h.Route {
					d.Weight = 0
				}
				return true
			}
		}
		for _, h := range s.Tls {
			if len(h.Route) > 1 {
				for _, d := range h.Route {
					d.Weight = 0
				}
				return true
			}
		}
		return false
	})},
	{"destination-missing", gvk.VirtualService, vs(func(r *rand.Rand, s *networking.VirtualService) bool {
		ds := httpDests(s)
		ls := l4Dests(s)
		switch {
		case len(ds) > 0 && (len(ls) == 0 || r.Intn(2) == 0):
			ds[r.Intn(len(ds))].Destination = nil
		case len(ls) > 0:
			ls[r.Intn(len(ls))].Destination = nil
		default:
			return false
		}
		return true
	})},
	{"destination-host-empty", gvk.VirtualService, vs(func(r *rand.Rand, s *networking.VirtualService) bool {
		ok := false
		for _, d := range httpDests(s) {
			if d.Destination != nil {
				d.Destination.Host, ok = "", true
			}
		}
		for _, d := range l4Dests(s) {
			if d.Destination != nil {
				d.Destination.Host, ok = "", true
			}
		}
		return ok
	})},
	{"destination-host-malformed", gvk.VirtualService, vs(func(r *rand.Rand, s *networking.VirtualService) bool {
		ok := false
		for _, d := range httpDests(s) {
			if d.Destination != nil {
				d.Destination.Host, ok = pick(r, []string{"*.example.com", "a|b|c", "outbound|80||a.example.com", "a b", "*"}), true
			}
		}
		return ok
	})},
	{"route-destination-empty-entry", gvk.VirtualService, vs(func(r *rand.Rand, s *networking.VirtualService) bool {
		hs := routedHTTP(s)
		if len(hs) == 0 {
			return false
		}
		hs[0].Route = append(hs[0].Route, &networking.HTTPRouteDestination{})
		return true
	})},
	{"http-route-empty-last", gvk.VirtualService, vs(func(r *rand.Rand, s *networking.VirtualService) bool {
		s.Http = append(s.Http, &networking.HTTPRoute{})
		return true
	})},
	{"http-route-empty", gvk.VirtualService, vs(func(r *rand.Rand, s *networking.VirtualService) bool {
		s.Http = append([]*networking.HTTPRoute{{}}, s.Http...)
		return true
	})},
	{"tcp-route-empty", gvk.VirtualService, vs(func(r *rand.Rand, s *networking.VirtualService) bool {
		s.Tcp = append([]*networking.TCPRoute{{}}, s.Tcp...)
		return true
	})},
	{"tls-route-no-sni", gvk.VirtualService, vs(func(r *rand.Rand, s *networking.VirtualService) bool {
		if len(s.Tls) == 0 {
			return false
		}
		s.Tls[0].Match = []*networking.TLSMatchAttributes{{Port: 443}}
		return true
	})},
	{"tls-route-no-match", gvk.VirtualService, vs(func(r *rand.Rand, s *networking.VirtualService) bool {
		if len(s.Tls) == 0 {
			return false
		}
		s.Tls[0].Match = nil
		return true
	})},
	{"tls-sni-malformed", gvk.VirtualService, vs(func(r *rand.Rand, s *networking.VirtualService) bool {
		if len(s.Tls) == 0 || len(s.Tls[0].Match) == 0 {
			return false
		}
		s.Tls[0].Match[0].SniHosts = []string{pick(r, []string{"*", "foo*bar.com", "*foo.com", "", "a.*.com", "outside.other.org"})}
		return true
	})},
	{"match-empty-entry", gvk.VirtualService, vs(func(r *rand.Rand, s *networking.VirtualService) bool {
		if len(s.Http) == 0 {
			return false
		}
		s.Http[0].Match = append(s.Http[0].Match, &networking.HTTPMatchRequest{})
		return true
	})},
	{"subnet-invalid", gvk.VirtualService, vs(func(r *rand.Rand, s *networking.VirtualService) bool {
		for _, t := range s.Tcp {
			for _, m := range t.Match {
				m.DestinationSubnets = []string{pick(r, []string{"not-a-cidr", "10.0.0.0/33", "", "300.0.0.0/8"})}
				return true
			}
		}
		for _, t := range s.Tls {
			for _, m := range t.Match {
				m.DestinationSubnets = []string{pick(r, []string{"not-a-cidr", "10.0.0.0/33", "", "300.0.0.0/8"})}
				return true
			}
		}
		return false
	})},
	{"regex-invalid", gvk.VirtualService, vs(func(r *rand.Rand, s *networking.VirtualService) bool {
		ms := httpMatches(s)
		if len(ms) == 0 {
			return false
		}
		bad := pick(r, []string{"[", "(unclosed", "*", "a{2,1}", "(?P<n>x)(?P<n>y)", "\\", ""})
		m := ms[r.Intn(len(ms))]
		switch r.Intn(4) {
		case 0:
			m.Uri = &networking.StringMatch{MatchType: &networking.StringMatch_Regex{Regex: bad}}
		case 1:
			m.Headers = map[string]*networking.StringMatch{"x-user": {MatchType: &networking.StringMatch_Regex{Regex: bad}}}
		case 2:
			m.QueryParams = map[string]*networking.StringMatch{"q": {MatchType: &networking.StringMatch_Regex{Regex: bad}}}
		case 3:
			m.Authority = &networking.StringMatch{MatchType: &networking.StringMatch_Regex{Regex: bad}}
		}
		return true
	})},
	{"string-match-empty", gvk.VirtualService, vs(func(r *rand.Rand, s *networking.VirtualService) bool {
		ms := httpMatches(s)
		if len(ms) == 0 {
			return false
		}
		m := ms[r.Intn(len(ms))]
		switch r.Intn(4) {
		case 0:
			m.Uri = &networking.StringMatch{}
		case 1:
			m.Headers = map[string]*networking.StringMatch{"x-user": {}}
		case 2:
			m.Uri = &networking.StringMatch{MatchType: &networking.StringMatch_Prefix{Prefix: ""}}
		case 3:
			m.Method = &networking.StringMatch{MatchType: &networking.StringMatch_Exact{Exact: ""}}
		}
		return true
	})},
	{"header-name-invalid", gvk.VirtualService, vs(func(r *rand.Rand, s *networking.VirtualService) bool {
		ms := httpMatches(s)
		name := pick(r, []string{"", "bad header", "x\nnewline", ":path", "x-\x00nul"})
		if len(ms) > 0 && r.Intn(2) == 0 {
			ms[0].Headers = map[string]*networking.StringMatch{name: {MatchType: &networking.StringMatch_Exact{Exact: "v"}}}
			return true
		}
		if len(s.Http) == 0 {
			return false
		}
		s.Http[0].Headers = &networking.Headers{Request: &networking.Headers_HeaderOperations{Set: map[string]string{name: "v"}, Remove: []string{name}}}
		return true
	})},
	{"header-value-invalid", gvk.VirtualService, vs(func(r *rand.Rand, s *networking.VirtualService) bool {
		if len(s.Http) == 0 {
			return false
		}
		s.Http[0].Headers = &networking.Headers{Response: &networking.Headers_HeaderOperations{Add: map[string]string{"x-a": "line1\nline2", "x-b": "nul\x00"}}}
		return true
	})},
	{"gateway-dangling", gvk.VirtualService, vs(func(r *rand.Rand, s *networking.VirtualService) bool {
		if len(s.Hosts) == 0 {
			return false
		}
		s.Gateways = []string{pick(r, []string{"no-such-gateway", "nowhere/no-such-gateway", "", "a/b/c", "mesh/mesh"})}
		return true
	})},
	{"gateway-duplicate", gvk.VirtualService, vs(func(r *rand.Rand, s *networking.VirtualService) bool {
		if len(s.Gateways) == 0 {
			return false
		}
		s.Gateways = append(s.Gateways, s.Gateways[0])
		return true
	})},
	{"delegate-dangling", gvk.VirtualService, vs(func(r *rand.Rand, s *networking.VirtualService) bool {
		if len(s.Hosts) == 0 {
			return false
		}
		s.Http = append([]*networking.HTTPRoute{{Match: []*networking.HTTPMatchRequest{{Uri: &networking.StringMatch{MatchType: &networking.StringMatch_Prefix{Prefix: "/d"}}}},
			Delegate: &networking.Delegate{Name: "no-such-delegate", Namespace: "nowhere"}}}, s.Http...)
		return true
	})},
	{"delegate-with-route", gvk.VirtualService, vs(func(r *rand.Rand, s *networking.VirtualService) bool {
		hs := routedHTTP(s)
		if len(hs) == 0 {
			return false
		}
		hs[0].Delegate = &networking.Delegate{Name: "delegate-0", Namespace: "ns1"}
		return true
	})},
	{"delegate-has-hosts", gvk.VirtualService, vs(func(r *rand.Rand, s *networking.VirtualService) bool {
		if len(s.Hosts) != 0 {
			return false
		}
		s.Hosts = []string{"a.example.com"}
		return true
	})},
	{"delegate-self", gvk.VirtualService, vs(func(r *rand.Rand, s *networking.VirtualService) bool {
		if len(s.Hosts) != 0 {
			return false
		}
		// a delegate that delegates further (not allowed)
		s.Http = append(s.Http, &networking.HTTPRoute{Delegate: &networking.Delegate{Name: "delegate-0", Namespace: "ns1"}})
		return true
	})},
	{"redirect-and-route", gvk.VirtualService, vs(func(r *rand.Rand, s *networking.VirtualService) bool {
		hs := routedHTTP(s)
		if len(hs) == 0 {
			return false
		}
		hs[0].Redirect = &networking.HTTPRedirect{Uri: "/elsewhere"}
		return true
	})},
	{"redirect-code-invalid", gvk.VirtualService, vs(func(r *rand.Rand, s *networking.VirtualService) bool {
		if len(s.Http) == 0 {
			return false
		}
		s.Http[0].Route, s.Http[0].Delegate, s.Http[0].DirectResponse, s.Http[0].Mirror, s.Http[0].Mirrors, s.Http[0].Rewrite = nil, nil, nil, nil, nil, nil
		s.Http[0].Redirect = &networking.HTTPRedirect{Uri: "/x", RedirectCode: pick(r, []uint32{200, 999, 1, 304})}
		return true
	})},
	{"redirect-port-70000", gvk.VirtualService, vs(func(r *rand.Rand, s *networking.VirtualService) bool {
		if len(s.Http) == 0 {
			return false
		}
		s.Http[0].Route, s.Http[0].Delegate, s.Http[0].DirectResponse, s.Http[0].Mirror, s.Http[0].Mirrors, s.Http[0].Rewrite = nil, nil, nil, nil, nil, nil
		s.Http[0].Redirect = &networking.HTTPRedirect{Uri: "/x", RedirectPort: &networking.HTTPRedirect_Port{Port: 70000}}
		return true
	})},
	{"direct-response-status-invalid", gvk.VirtualService, vs(func(r *rand.Rand, s *networking.VirtualService) bool {
		if len(s.Http) == 0 {
			return false
		}
		s.Http[0].Route, s.Http[0].Delegate, s.Http[0].Redirect, s.Http[0].Mirror, s.Http[0].Mirrors, s.Http[0].Rewrite = nil, nil, nil, nil, nil, nil
		s.Http[0].DirectResponse = &networking.HTTPDirectResponse{Status: pick(r, []uint32{0, 99, 600, 1000})}
		return true
	})},
	{"direct-response-body-huge", gvk.VirtualService, vs(func(r *rand.Rand, s *networking.VirtualService) bool {
		if len(s.Http) == 0 {
			return false
		}
		s.Http[0].Route, s.Http[0].Delegate, s.Http[0].Redirect, s.Http[0].Mirror, s.Http[0].Mirrors, s.Http[0].Rewrite = nil, nil, nil, nil, nil, nil
		s.Http[0].DirectResponse = &networking.HTTPDirectResponse{Status: 200, Body: &networking.HTTPBody{Specifier: &networking.HTTPBody_String_{String_: string(make([]byte, 2*1024*1024))}}}
		return true
	})},
	{"percent-out-of-range", gvk.VirtualService, vs(func(r *rand.Rand, s *networking.VirtualService) bool {
		hs := routedHTTP(s)
		if len(hs) == 0 {
			return false
		}
		v := pick(r, []float64{150, -1, 100.0001, 1e9})
		h := hs[r.Intn(len(hs))]
		switch r.Intn(3) {
		case 0:
			h.Fault = &networking.HTTPFaultInjection{Abort: &networking.HTTPFaultInjection_Abort{ErrorType: &networking.HTTPFaultInjection_Abort_HttpStatus{HttpStatus: 503}, Percentage: &networking.Percent{Value: v}}}
		case 1:
			h.Fault = &networking.HTTPFaultInjection{Delay: &networking.HTTPFaultInjection_Delay{HttpDelayType: &networking.HTTPFaultInjection_Delay_FixedDelay{FixedDelay: durationpb.New(1e9)}, Percentage: &networking.Percent{Value: v}}}
		case 2:
			if h.Route[0].Destination == nil {
				return false
			}
			h.Mirror = h.Route[0].Destination
			h.MirrorPercentage = &networking.Percent{Value: v}
		}
		return true
	})},
	{"fault-status-invalid", gvk.VirtualService, vs(func(r *rand.Rand, s *networking.VirtualService) bool {
		hs := routedHTTP(s)
		if len(hs) == 0 {
			return false
		}
		ab := &networking.HTTPFaultInjection_Abort{ErrorType: &networking.HTTPFaultInjection_Abort_HttpStatus{HttpStatus: pick(r, []int32{0, 99, 600, -1, 1000})}}
		if r.Intn(3) == 0 {
			ab.ErrorType = &networking.HTTPFaultInjection_Abort_GrpcStatus{GrpcStatus: "NO_SUCH_STATUS"}
		}
		hs[0].Fault = &networking.HTTPFaultInjection{Abort: ab}
		return true
	})},
	{"fault-delay-invalid", gvk.VirtualService, vs(func(r *rand.Rand, s *networking.VirtualService) bool {
		hs := routedHTTP(s)
		if len(hs) == 0 {
			return false
		}
		hs[0].Fault = &networking.HTTPFaultInjection{Delay: &networking.HTTPFaultInjection_Delay{HttpDelayType: &networking.HTTPFaultInjection_Delay_FixedDelay{
			FixedDelay: pick(r, []*durationpb.Duration{durationpb.New(-1e9), durationpb.New(0), {Seconds: 1, Nanos: -5}, {Seconds: 400000000000}})}}}
		return true
	})},
	{"fault-empty", gvk.VirtualService, vs(func(r *rand.Rand, s *networking.VirtualService) bool {
		hs := routedHTTP(s)
		if len(hs) == 0 {
			return false
		}
		hs[0].Fault = pick(r, []*networking.HTTPFaultInjection{{}, {Abort: &networking.HTTPFaultInjection_Abort{}}, {Delay: &networking.HTTPFaultInjection_Delay{}}})
		return true
	})},
	{"timeout-negative", gvk.VirtualService, vs(func(r *rand.Rand, s *networking.VirtualService) bool {
		hs := routedHTTP(s)
		if len(hs) == 0 {
			return false
		}
		hs[0].Timeout = pick(r, []*durationpb.Duration{durationpb.New(-1e9), {Seconds: 1, Nanos: -5}, {Seconds: 400000000000}, {Nanos: 2000000000}})
		return true
	})},
	{"retries-invalid", gvk.VirtualService, vs(func(r *rand.Rand, s *networking.VirtualService) bool {
		hs := routedHTTP(s)
		if len(hs) == 0 {
			return false
		}
		hs[0].Retries = pick(r, []*networking.HTTPRetry{
			{Attempts: -1},
			{Attempts: 2, PerTryTimeout: durationpb.New(-1e9)},
			{Attempts: 2, RetryOn: "no-such-policy,5xx"},
			{Attempts: 2, RetryOn: "999,abc"},
			{Attempts: 0, RetryOn: "5xx", PerTryTimeout: durationpb.New(1e9)},
			{Attempts: 2147483647},
			{Attempts: 2, Backoff: durationpb.New(-1)},
		})
		return true
	})},
	{"mirror-missing-host", gvk.VirtualService, vs(func(r *rand.Rand, s *networking.VirtualService) bool {
		hs := routedHTTP(s)
		if len(hs) == 0 {
			return false
		}
		if r.Intn(2) == 0 {
			hs[0].Mirror = &networking.Destination{}
		} else {
			hs[0].Mirror = nil
			hs[0].Mirrors = []*networking.HTTPMirrorPolicy{{Destination: nil}, {}}
		}
		return true
	})},
	{"rewrite-invalid", gvk.VirtualService, vs(func(r *rand.Rand, s *networking.VirtualService) bool {
		hs := routedHTTP(s)
		if len(hs) == 0 {
			return false
		}
		hs[0].Rewrite = pick(r, []*networking.HTTPRewrite{
			{},
			{UriRegexRewrite: &networking.RegexRewrite{Match: "[", Rewrite: "/x"}},
			{UriRegexRewrite: &networking.RegexRewrite{Match: "", Rewrite: ""}},
			{Uri: "/x", UriRegexRewrite: &networking.RegexRewrite{Match: "/a", Rewrite: "/b"}},
			{Uri: "line1\nline2"},
		})
		return true
	})},
	{"cors-invalid", gvk.VirtualService, vs(func(r *rand.Rand, s *networking.VirtualService) bool {
		if len(s.Http) == 0 {
			return false
		}
		s.Http[0].CorsPolicy = pick(r, []*networking.CorsPolicy{
			{AllowOrigins: []*networking.StringMatch{{MatchType: &networking.StringMatch_Regex{Regex: "["}}}},
			{AllowOrigins: []*networking.StringMatch{{}}},
			{AllowMethods: []string{"NOT A METHOD", ""}},
			{MaxAge: durationpb.New(-1e9)},
			{MaxAge: &durationpb.Duration{Nanos: 5}},
			{AllowHeaders: []string{"bad header\n"}},
		})
		return true
	})},
	{"export-to-invalid", gvk.VirtualService, vs(func(r *rand.Rand, s *networking.VirtualService) bool {
		s.ExportTo = pick(r, [][]string{{"~", "*"}, {""}, {"*", "."}, {"not a namespace!"}})
		return true
	})},
	{"source-labels-invalid", gvk.VirtualService, vs(func(r *rand.Rand, s *networking.VirtualService) bool {
		ms := httpMatches(s)
		if len(ms) == 0 {
			return false
		}
		ms[0].SourceLabels = map[string]string{"": "", "bad key!": "bad value!"}
		return true
	})},
	{"no-routes-at-all", gvk.VirtualService, vs(func(r *rand.Rand, s *networking.VirtualService) bool {
		s.Http, s.Tcp, s.Tls = nil, nil, nil
		return true
	})},

	// ---- DestinationRule
	{"host-empty", gvk.DestinationRule, dr(func(r *rand.Rand, s *networking.DestinationRule) bool { s.Host = ""; return true })},
	{"host-malformed", gvk.DestinationRule, dr(func(r *rand.Rand, s *networking.DestinationRule) bool {
		s.Host = pick(r, []string{"*", "a_b..example.com", "*.*.example.com", "foo*", "a b", "*a.example.com"})
		return true
	})},
	{"subset-duplicate", gvk.DestinationRule, dr(func(r *rand.Rand, s *networking.DestinationRule) bool {
		if len(s.Subsets) == 0 {
			s.Subsets = []*networking.Subset{{Name: "v1", Labels: map[string]string{"version": "v1"}}}
		}
		d := s.Subsets[0].DeepCopy()
		d.Labels = map[string]string{"version": "other"}
		s.Subsets = append(s.Subsets, d)
		return true
	})},
	{"subset-name-empty", gvk.DestinationRule, dr(func(r *rand.Rand, s *networking.DestinationRule) bool {
		s.Subsets = append(s.Subsets, &networking.Subset{Name: "", Labels: map[string]string{"version": "v9"}})
		return true
	})},
	{"subset-name-malformed", gvk.DestinationRule, dr(func(r *rand.Rand, s *networking.DestinationRule) bool {
		s.Subsets = append(s.Subsets, &networking.Subset{Name: pick(r, []string{"a|b", "has space", "UPPER", "x/y", "v1\n"}), Labels: map[string]string{"version": "v9"}})
		return true
	})},
	{"subset-empty-entry", gvk.DestinationRule, dr(func(r *rand.Rand, s *networking.DestinationRule) bool {
		s.Subsets = append(s.Subsets, &networking.Subset{})
		return true
	})},
	{"subset-labels-invalid", gvk.DestinationRule, dr(func(r *rand.Rand, s *networking.DestinationRule) bool {
		s.Subsets = append(s.Subsets, &networking.Subset{Name: "weird", Labels: map[string]string{"": "", "bad key!": "bad value!"}})
		return true
	})},
	{"port-zero", gvk.DestinationRule, dr(func(r *rand.Rand, s *networking.DestinationRule) bool {
		tp := ensureTP(s)
		tp.PortLevelSettings = append(tp.PortLevelSettings, &networking.TrafficPolicy_PortTrafficPolicy{Port: &networking.PortSelector{Number: 0}, Tls: &networking.ClientTLSSettings{Mode: networking.ClientTLSSettings_SIMPLE}})
		return true
	})},
	{"port-70000", gvk.DestinationRule, dr(func(r *rand.Rand, s *networking.DestinationRule) bool {
		tp := ensureTP(s)
		tp.PortLevelSettings = append(tp.PortLevelSettings, &networking.TrafficPolicy_PortTrafficPolicy{Port: &networking.PortSelector{Number: 70000}, LoadBalancer: &networking.LoadBalancerSettings{LbPolicy: &networking.LoadBalancerSettings_Simple{Simple: networking.LoadBalancerSettings_RANDOM}}})
		return true
	})},
	{"port-level-empty", gvk.DestinationRule, dr(func(r *rand.Rand, s *networking.DestinationRule) bool {
		tp := ensureTP(s)
		tp.PortLevelSettings = append(tp.PortLevelSettings, pick(r, []*networking.TrafficPolicy_PortTrafficPolicy{{}, {Port: nil, Tls: &networking.ClientTLSSettings{Mode: networking.ClientTLSSettings_SIMPLE}}}))
		return true
	})},
	{"port-level-duplicate", gvk.DestinationRule, dr(func(r *rand.Rand, s *networking.DestinationRule) bool {
		tp := ensureTP(s)
		tp.PortLevelSettings = append(tp.PortLevelSettings,
			&networking.TrafficPolicy_PortTrafficPolicy{Port: &networking.PortSelector{Number: 80}, Tls: &networking.ClientTLSSettings{Mode: networking.ClientTLSSettings_SIMPLE}},
			&networking.TrafficPolicy_PortTrafficPolicy{Port: &networking.PortSelector{Number: 80}, Tls: &networking.ClientTLSSettings{Mode: networking.ClientTLSSettings_DISABLE}})
		return true
	})},
	{"connection-pool-negative", gvk.DestinationRule, dr(func(r *rand.Rand, s *networking.DestinationRule) bool {
		tp := ensureTP(s)
		tp.ConnectionPool = pick(r, []*networking.ConnectionPoolSettings{
			{Tcp: &networking.ConnectionPoolSettings_TCPSettings{MaxConnections: -1}},
			{Tcp: &networking.ConnectionPoolSettings_TCPSettings{ConnectTimeout: durationpb.New(-1e9)}},
			{Tcp: &networking.ConnectionPoolSettings_TCPSettings{ConnectTimeout: durationpb.New(0)}},
			{Tcp: &networking.ConnectionPoolSettings_TCPSettings{ConnectTimeout: durationpb.New(500000)}},
			{Tcp: &networking.ConnectionPoolSettings_TCPSettings{TcpKeepalive: &networking.ConnectionPoolSettings_TCPSettings_TcpKeepalive{Time: durationpb.New(-1e9), Interval: durationpb.New(500000)}}},
			{Tcp: &networking.ConnectionPoolSettings_TCPSettings{IdleTimeout: durationpb.New(-1e9), MaxConnectionDuration: durationpb.New(-1e9)}},
			{Http: &networking.ConnectionPoolSettings_HTTPSettings{Http1MaxPendingRequests: -1, Http2MaxRequests: -1, MaxRequestsPerConnection: -1, MaxRetries: -1}},
			{Http: &networking.ConnectionPoolSettings_HTTPSettings{IdleTimeout: durationpb.New(-1e9)}},
			{Http: &networking.ConnectionPoolSettings_HTTPSettings{MaxConcurrentStreams: -1}},
			{},
		})
		return true
	})},
	{"outlier-invalid", gvk.DestinationRule, dr(func(r *rand.Rand, s *networking.DestinationRule) bool {
		tp := ensureTP(s)
		tp.OutlierDetection = pick(r, []*networking.OutlierDetection{
			{MaxEjectionPercent: 150},
			{MaxEjectionPercent: -1},
			{MinHealthPercent: 150},
			{MinHealthPercent: -5},
			{Interval: durationpb.New(-1e9)},
			{Interval: durationpb.New(500000)},
			{BaseEjectionTime: durationpb.New(-1e9)},
			{BaseEjectionTime: &durationpb.Duration{Seconds: 400000000000}},
			{ConsecutiveErrors: -1}, //nolint:staticcheck
			{Consecutive_5XxErrors: wrapperspb.UInt32(4294967295), ConsecutiveGatewayErrors: wrapperspb.UInt32(4294967295)},
		})
		return true
	})},
	{"lb-invalid", gvk.DestinationRule, dr(func(r *rand.Rand, s *networking.DestinationRule) bool {
		tp := ensureTP(s)
		tp.LoadBalancer = pick(r, []*networking.LoadBalancerSettings{
			{LbPolicy: &networking.LoadBalancerSettings_Simple{Simple: networking.LoadBalancerSettings_SimpleLB(42)}},
			{LbPolicy: &networking.LoadBalancerSettings_ConsistentHash{ConsistentHash: &networking.LoadBalancerSettings_ConsistentHashLB{}}},
			{LbPolicy: &networking.LoadBalancerSettings_ConsistentHash{ConsistentHash: &networking.LoadBalancerSettings_ConsistentHashLB{HashKey: &networking.LoadBalancerSettings_ConsistentHashLB_HttpHeaderName{HttpHeaderName: ""}}}},
			{LbPolicy: &networking.LoadBalancerSettings_ConsistentHash{ConsistentHash: &networking.LoadBalancerSettings_ConsistentHashLB{HashKey: &networking.LoadBalancerSettings_ConsistentHashLB_HttpCookie{HttpCookie: &networking.LoadBalancerSettings_ConsistentHashLB_HTTPCookie{Name: ""}}}}},
			{LbPolicy: &networking.LoadBalancerSettings_ConsistentHash{ConsistentHash: &networking.LoadBalancerSettings_ConsistentHashLB{HashKey: &networking.LoadBalancerSettings_ConsistentHashLB_HttpCookie{HttpCookie: &networking.LoadBalancerSettings_ConsistentHashLB_HTTPCookie{Name: "c", Ttl: durationpb.New(-1e9)}}}}},
			{LbPolicy: &networking.LoadBalancerSettings_ConsistentHash{ConsistentHash: &networking.LoadBalancerSettings_ConsistentHashLB{HashKey: &networking.LoadBalancerSettings_ConsistentHashLB_UseSourceIp{UseSourceIp: true}, MinimumRingSize: 18446744073709551615}}},
			{LbPolicy: &networking.LoadBalancerSettings_ConsistentHash{ConsistentHash: &networking.LoadBalancerSettings_ConsistentHashLB{HashKey: &networking.LoadBalancerSettings_ConsistentHashLB_UseSourceIp{UseSourceIp: true},
				HashAlgorithm: &networking.LoadBalancerSettings_ConsistentHashLB_RingHash_{RingHash: &networking.LoadBalancerSettings_ConsistentHashLB_RingHash{MinimumRingSize: 9000000000}}}}},
			{LbPolicy: &networking.LoadBalancerSettings_ConsistentHash{ConsistentHash: &networking.LoadBalancerSettings_ConsistentHashLB{HashKey: &networking.LoadBalancerSettings_ConsistentHashLB_UseSourceIp{UseSourceIp: true},
				HashAlgorithm: &networking.LoadBalancerSettings_ConsistentHashLB_Maglev{Maglev: &networking.LoadBalancerSettings_ConsistentHashLB_MagLev{TableSize: pick(r, []uint64{4, 6000000, 10})}}}}},
			{WarmupDurationSecs: durationpb.New(-1e9)},
			{WarmupDurationSecs: durationpb.New(500000)},
			{Warmup: &networking.WarmupConfiguration{Duration: durationpb.New(1e9), MinimumPercent: wrapperspb.Double(150), Aggression: wrapperspb.Double(0.5)}},
			{Warmup: &networking.WarmupConfiguration{Duration: nil, MinimumPercent: wrapperspb.Double(-1), Aggression: wrapperspb.Double(-3)}},
		})
		return true
	})},
	{"locality-lb-invalid", gvk.DestinationRule, dr(func(r *rand.Rand, s *networking.DestinationRule) bool {
		tp := ensureTP(s)
		if tp.LoadBalancer == nil {
			tp.LoadBalancer = &networking.LoadBalancerSettings{}
		}
		tp.LoadBalancer.LocalityLbSetting = pick(r, []*networking.LocalityLoadBalancerSetting{
			{Distribute: []*networking.LocalityLoadBalancerSetting_Distribute{{From: "region1/*", To: map[string]uint32{"region1/*": 50, "region2/*": 70}}}},
			{Distribute: []*networking.LocalityLoadBalancerSetting_Distribute{{From: "region1/*", To: map[string]uint32{"region1/*": 0}}}},
			{Distribute: []*networking.LocalityLoadBalancerSetting_Distribute{{From: "", To: map[string]uint32{"": 100}}}},
			{Distribute: []*networking.LocalityLoadBalancerSetting_Distribute{{From: "*/zone", To: map[string]uint32{"a/*/c": 100}}}},
			{Distribute: []*networking.LocalityLoadBalancerSetting_Distribute{{From: "region1/*", To: map[string]uint32{"region1/*": 4294967295, "region2/*": 4294967295}}}},
			{Distribute: []*networking.LocalityLoadBalancerSetting_Distribute{{}}},
			{Distribute: []*networking.LocalityLoadBalancerSetting_Distribute{{From: "region1/*", To: map[string]uint32{"region1/*": 100}}}, Failover: []*networking.LocalityLoadBalancerSetting_Failover{{From: "region1", To: "region2"}}},
			{Failover: []*networking.LocalityLoadBalancerSetting_Failover{{From: "region1", To: "region1"}}},
			{Failover: []*networking.LocalityLoadBalancerSetting_Failover{{From: "region1/zone1", To: "*"}, {}}},
			{Failover: []*networking.LocalityLoadBalancerSetting_Failover{{From: "region1", To: "region2"}}, FailoverPriority: []string{"a", "a", ""}},
		})
		return true
	})},
	{"tls-invalid", gvk.DestinationRule, dr(func(r *rand.Rand, s *networking.DestinationRule) bool {
		tp := ensureTP(s)
		tp.Tls = pick(r, []*networking.ClientTLSSettings{
			{Mode: networking.ClientTLSSettings_MUTUAL},
			{Mode: networking.ClientTLSSettings_MUTUAL, ClientCertificate: "/c.pem"},
			{Mode: networking.ClientTLSSettings_MUTUAL, ClientCertificate: "/c.pem", PrivateKey: "/k.pem", CredentialName: "cred-a"},
			{Mode: networking.ClientTLSSettings_ISTIO_MUTUAL, ClientCertificate: "/c.pem", PrivateKey: "/k.pem", CaCertificates: "/ca.pem"},
			{Mode: networking.ClientTLSSettings_TLSmode(9)},
			{Mode: networking.ClientTLSSettings_SIMPLE, CredentialName: "cred-a", CaCertificates: "/ca.pem", InsecureSkipVerify: wrapperspb.Bool(true), SubjectAltNames: []string{"", "x"}},
			{Mode: networking.ClientTLSSettings_SIMPLE, Sni: "*.bad sni\n", SubjectAltNames: []string{""}},
			{Mode: networking.ClientTLSSettings_SIMPLE, CaCrl: "/crl.pem", CredentialName: "cred-a"},
		})
		return true
	})},
	{"tunnel-invalid", gvk.DestinationRule, dr(func(r *rand.Rand, s *networking.DestinationRule) bool {
		tp := ensureTP(s)
		tp.Tunnel = pick(r, []*networking.TrafficPolicy_TunnelSettings{
			{},
			{Protocol: "GET", TargetHost: "t.example.com", TargetPort: 443},
			{Protocol: "CONNECT", TargetHost: "", TargetPort: 443},
			{Protocol: "CONNECT", TargetHost: "t.example.com", TargetPort: 0},
			{Protocol: "CONNECT", TargetHost: "t.example.com", TargetPort: 70000},
			{Protocol: "CONNECT", TargetHost: "bad host\n", TargetPort: 443},
		})
		return true
	})},
	{"selector-empty", gvk.DestinationRule, dr(func(r *rand.Rand, s *networking.DestinationRule) bool {
		s.WorkloadSelector = pick(r, []*typev1beta1.WorkloadSelector{{}, {MatchLabels: map[string]string{"": ""}}, {MatchLabels: map[string]string{"app": "*"}}})
		return true
	})},
	{"export-to-invalid", gvk.DestinationRule, dr(func(r *rand.Rand, s *networking.DestinationRule) bool {
		s.ExportTo = pick(r, [][]string{{"~", "*"}, {""}, {"*", "."}, {"not a namespace!"}})
		return true
	})},

	// ---- Gateway
	{"host-empty", gvk.Gateway, gw(func(r *rand.Rand, s *networking.Gateway) bool { s.Servers[0].Hosts[0] = ""; return true })},
	{"host-none", gvk.Gateway, gw(func(r *rand.Rand, s *networking.Gateway) bool { s.Servers[0].Hosts = nil; return true })},
	{"host-duplicate", gvk.Gateway, gw(func(r *rand.Rand, s *networking.Gateway) bool {
		s.Servers[0].Hosts = append(s.Servers[0].Hosts, s.Servers[0].Hosts[0])
		return true
	})},
	{"host-malformed", gvk.Gateway, gw(func(r *rand.Rand, s *networking.Gateway) bool {
		s.Servers[0].Hosts[0] = pick(r, []string{"a_b..example.com", "*.*.example.com", "foo*", "ns1/ns2/a.example.com", "/a.example.com", "ns1/", "/", "*/", "a b", "*a.example.com", "~/a.example.com"})
		return true
	})},
	{"star-mixed", gvk.Gateway, gw(func(r *rand.Rand, s *networking.Gateway) bool {
		s.Servers[0].Hosts = append([]string{"*/*"}, s.Servers[0].Hosts...)
		if s.Servers[0].Hosts[1] == "*/*" {
			s.Servers[0].Hosts[1] = "ns1/a.example.com"
		}
		return true
	})},
	{"port-zero", gvk.Gateway, gw(func(r *rand.Rand, s *networking.Gateway) bool { s.Servers[0].Port.Number = 0; return true })},
	{"port-70000", gvk.Gateway, gw(func(r *rand.Rand, s *networking.Gateway) bool { s.Servers[0].Port.Number = 70000; return true })},
	{"port-missing", gvk.Gateway, gw(func(r *rand.Rand, s *networking.Gateway) bool { s.Servers[0].Port = nil; return true })},
	{"port-name-empty", gvk.Gateway, gw(func(r *rand.Rand, s *networking.Gateway) bool { s.Servers[0].Port.Name = ""; return true })},
	{"port-name-duplicate", gvk.Gateway, gw(func(r *rand.Rand, s *networking.Gateway) bool {
		d := s.Servers[0].DeepCopy()
		d.Port.Number += 1000
		s.Servers = append(s.Servers, d)
		return true
	})},
	{"protocol-unknown", gvk.Gateway, gw(func(r *rand.Rand, s *networking.Gateway) bool {
		s.Servers[0].Port.Protocol = pick(r, []string{"FOO", "", "UDP", "http/2", "HTTP_PROXY"})
		return true
	})},
	{"server-empty-entry", gvk.Gateway, gw(func(r *rand.Rand, s *networking.Gateway) bool {
		s.Servers = append(s.Servers, &networking.Server{})
		return true
	})},
	{"server-none", gvk.Gateway, gw(func(r *rand.Rand, s *networking.Gateway) bool { s.Servers = nil; return true })},
	{"server-name-duplicate", gvk.Gateway, gw(func(r *rand.Rand, s *networking.Gateway) bool {
		s.Servers[0].Name = "same"
		d := s.Servers[0].DeepCopy()
		s.Servers = append(s.Servers, d)
		return true
	})},
	{"selector-empty", gvk.Gateway, gw(func(r *rand.Rand, s *networking.Gateway) bool {
		s.Selector = pick(r, []map[string]string{{}, nil, {"": ""}})
		return true
	})},
	{"tls-missing", gvk.Gateway, gw(func(r *rand.Rand, s *networking.Gateway) bool {
		s.Servers[0].Port.Protocol = pick(r, []string{"HTTPS", "TLS"})
		s.Servers[0].Tls = nil
		return true
	})},
	{"tls-on-plaintext", gvk.Gateway, gw(func(r *rand.Rand, s *networking.Gateway) bool {
		s.Servers[0].Port.Protocol = pick(r, []string{"HTTP", "TCP", "GRPC"})
		s.Servers[0].Tls = &networking.ServerTLSSettings{Mode: networking.ServerTLSSettings_SIMPLE, CredentialName: "cred-a"}
		return true
	})},
	{"tls-invalid", gvk.Gateway, gw(func(r *rand.Rand, s *networking.Gateway) bool {
		s.Servers[0].Port.Protocol = "HTTPS"
		s.Servers[0].Tls = pick(r, []*networking.ServerTLSSettings{
			{Mode: networking.ServerTLSSettings_SIMPLE},
			{Mode: networking.ServerTLSSettings_SIMPLE, ServerCertificate: "/c.pem"},
			{Mode: networking.ServerTLSSettings_MUTUAL, ServerCertificate: "/c.pem", PrivateKey: "/k.pem"},
			{Mode: networking.ServerTLSSettings_PASSTHROUGH},
			{Mode: networking.ServerTLSSettings_AUTO_PASSTHROUGH},
			{Mode: networking.ServerTLSSettings_ISTIO_MUTUAL, ServerCertificate: "/c.pem", PrivateKey: "/k.pem", CredentialName: "cred-a"},
			{Mode: networking.ServerTLSSettings_TLSmode(9), CredentialName: "cred-a"},
			{Mode: networking.ServerTLSSettings_SIMPLE, CredentialName: "cred-a", CredentialNames: []string{"cred-b"}, ServerCertificate: "/c.pem", PrivateKey: "/k.pem"},
			{Mode: networking.ServerTLSSettings_SIMPLE, CredentialNames: []string{"a", "b", "c", ""}},
			{Mode: networking.ServerTLSSettings_SIMPLE, CredentialName: "cred-a", MinProtocolVersion: networking.ServerTLSSettings_TLSV1_3, MaxProtocolVersion: networking.ServerTLSSettings_TLSV1_0},
			{Mode: networking.ServerTLSSettings_SIMPLE, CredentialName: "cred-a", CipherSuites: []string{"NOT-A-CIPHER", "", "ECDHE-RSA-AES128-GCM-SHA256", "ECDHE-RSA-AES128-GCM-SHA256"}},
			{Mode: networking.ServerTLSSettings_SIMPLE, CredentialName: "cred-a", VerifyCertificateSpki: []string{"not base64!"}, VerifyCertificateHash: []string{"zz"}},
			{Mode: networking.ServerTLSSettings_SIMPLE, CredentialName: "cred-a", EcdhCurves: []string{"NOT-A-CURVE", "P-256", "P-256"}},
			{Mode: networking.ServerTLSSettings_MUTUAL, TlsCertificates: []*networking.ServerTLSSettings_TLSCertificate{{ServerCertificate: "/a.pem", PrivateKey: "/a.key"}, {ServerCertificate: "", PrivateKey: ""}, {}}},
			{HttpsRedirect: true, Mode: networking.ServerTLSSettings_SIMPLE, CredentialName: "cred-a"},
		})
		return true
	})},
	{"bind-invalid", gvk.Gateway, gw(func(r *rand.Rand, s *networking.Gateway) bool {
		s.Servers[0].Bind = pick(r, []string{"not-an-ip", "300.1.1.1", "10.0.0.1:80", "unix:///x.sock", "[::1]", " "})
		return true
	})},

	// ---- Sidecar
	{"host-empty", gvk.Sidecar, sc(func(r *rand.Rand, s *networking.Sidecar) bool { s.Egress[0].Hosts[0] = ""; return true })},
	{"host-none", gvk.Sidecar, sc(func(r *rand.Rand, s *networking.Sidecar) bool { s.Egress[0].Hosts = nil; return true })},
	{"host-duplicate", gvk.Sidecar, sc(func(r *rand.Rand, s *networking.Sidecar) bool {
		s.Egress[0].Hosts = append(s.Egress[0].Hosts, s.Egress[0].Hosts[0])
		return true
	})},
	{"host-malformed", gvk.Sidecar, sc(func(r *rand.Rand, s *networking.Sidecar) bool {
		s.Egress[0].Hosts[0] = pick(r, []string{"no-namespace.example.com", "ns1/ns2/a.example.com", "/a.example.com", "ns1/", "/", "*/foo*", "~/", "*/*.*.com", "ns 1/a.example.com", "*", "a/b/c/d"})
		return true
	})},
	{"star-mixed", gvk.Sidecar, sc(func(r *rand.Rand, s *networking.Sidecar) bool {
		s.Egress[0].Hosts = append([]string{"*/*"}, "ns1/a.example.com", "./b.example.com", "~/*")
		return true
	})},
	{"port-zero", gvk.Sidecar, sc(func(r *rand.Rand, s *networking.Sidecar) bool {
		s.Egress[0].Port = &networking.SidecarPort{Number: 0, Protocol: "HTTP", Name: "zero"}
		return true
	})},
	{"port-70000", gvk.Sidecar, sc(func(r *rand.Rand, s *networking.Sidecar) bool {
		s.Egress[0].Port = &networking.SidecarPort{Number: 70000, Protocol: "HTTP", Name: "big"}
		return true
	})},
	{"port-duplicate", gvk.Sidecar, sc(func(r *rand.Rand, s *networking.Sidecar) bool {
		p := &networking.SidecarPort{Number: 8080, Protocol: "HTTP", Name: "dup"}
		s.Egress = append([]*networking.IstioEgressListener{{Port: p, Hosts: []string{"*/*"}}, {Port: p, Hosts: []string{"./*"}, Bind: "127.0.0.1"}}, s.Egress...)
		return true
	})},
	{"protocol-unknown", gvk.Sidecar, sc(func(r *rand.Rand, s *networking.Sidecar) bool {
		s.Egress[0].Port = &networking.SidecarPort{Number: 8080, Protocol: pick(r, []string{"FOO", "", "UDP"}), Name: "p"}
		return true
	})},
	{"egress-none", gvk.Sidecar, sc(func(r *rand.Rand, s *networking.Sidecar) bool { s.Egress = nil; s.Ingress = nil; return true })},
	{"egress-empty-entry", gvk.Sidecar, sc(func(r *rand.Rand, s *networking.Sidecar) bool {
		s.Egress = append(s.Egress, &networking.IstioEgressListener{})
		return true
	})},
	{"egress-two-catch-all", gvk.Sidecar, sc(func(r *rand.Rand, s *networking.Sidecar) bool {
		s.Egress = append(s.Egress, &networking.IstioEgressListener{Hosts: []string{"*/*"}}, &networking.IstioEgressListener{Hosts: []string{"./*"}})
		return true
	})},
	{"bind-invalid", gvk.Sidecar, sc(func(r *rand.Rand, s *networking.Sidecar) bool {
		s.Egress[0].Port = &networking.SidecarPort{Number: 8080, Protocol: "HTTP", Name: "p"}
		s.Egress[0].Bind = pick(r, []string{"not-an-ip", "300.1.1.1", "10.0.0.1:80", "unix://relative.sock", "[::1]", " "})
		return true
	})},
	{"uds-with-port", gvk.Sidecar, sc(func(r *rand.Rand, s *networking.Sidecar) bool {
		s.Egress[0].Port = &networking.SidecarPort{Number: 8080, Protocol: "HTTP", Name: "p"}
		s.Egress[0].Bind = "unix:///var/run/x.sock"
		return true
	})},
	{"selector-empty", gvk.Sidecar, sc(func(r *rand.Rand, s *networking.Sidecar) bool {
		s.WorkloadSelector = pick(r, []*networking.WorkloadSelector{{}, {Labels: map[string]string{"": ""}}, {Labels: map[string]string{"app": "*"}}})
		return true
	})},
	{"ingress-invalid", gvk.Sidecar, sc(func(r *rand.Rand, s *networking.Sidecar) bool {
		if s.WorkloadSelector == nil {
			s.WorkloadSelector = &networking.WorkloadSelector{Labels: map[string]string{"app": "a"}}
		}
		s.Ingress = append(s.Ingress, pick(r, []*networking.IstioIngressListener{
			{},
			{Port: &networking.SidecarPort{Number: 0, Protocol: "HTTP", Name: "zero"}, DefaultEndpoint: "127.0.0.1:8080"},
			{Port: &networking.SidecarPort{Number: 70000, Protocol: "HTTP", Name: "big"}, DefaultEndpoint: "127.0.0.1:8080"},
			{Port: &networking.SidecarPort{Number: 8080, Protocol: "HTTP", Name: "p"}, DefaultEndpoint: "garbage"},
			{Port: &networking.SidecarPort{Number: 8080, Protocol: "HTTP", Name: "p"}, DefaultEndpoint: "127.0.0.1:0"},
			{Port: &networking.SidecarPort{Number: 8080, Protocol: "HTTP", Name: "p"}, DefaultEndpoint: "127.0.0.1:70000"},
			{Port: &networking.SidecarPort{Number: 8080, Protocol: "HTTP", Name: "p"}, DefaultEndpoint: "10.1.1.1:8080"},
			{Port: &networking.SidecarPort{Number: 8080, Protocol: "HTTP", Name: "p"}, DefaultEndpoint: "unix://relative"},
			{Port: &networking.SidecarPort{Number: 8080, Protocol: "FOO", Name: "p"}, DefaultEndpoint: "127.0.0.1:8080"},
			{Port: &networking.SidecarPort{Number: 8080, Protocol: "HTTP", Name: "p"}, DefaultEndpoint: "127.0.0.1:8080", Bind: "not-an-ip"},
			{Port: &networking.SidecarPort{Number: 8443, Protocol: "HTTPS", Name: "p"}, DefaultEndpoint: "127.0.0.1:8080", Tls: &networking.ServerTLSSettings{Mode: networking.ServerTLSSettings_SIMPLE}},
			{Port: &networking.SidecarPort{Number: 8443, Protocol: "HTTP", Name: "p"}, DefaultEndpoint: "127.0.0.1:8080", Tls: &networking.ServerTLSSettings{Mode: networking.ServerTLSSettings_PASSTHROUGH}},
			{Port: &networking.SidecarPort{Number: 8443, Protocol: "TLS", Name: "p"}, DefaultEndpoint: "127.0.0.1:8080", Tls: &networking.ServerTLSSettings{Mode: networking.ServerTLSSettings_MUTUAL, CredentialName: "cred-a"}},
		}))
		return true
	})},
	{"ingress-port-duplicate", gvk.Sidecar, sc(func(r *rand.Rand, s *networking.Sidecar) bool {
		if s.WorkloadSelector == nil {
			s.WorkloadSelector = &networking.WorkloadSelector{Labels: map[string]string{"app": "a"}}
		}
		s.Ingress = append(s.Ingress,
			&networking.IstioIngressListener{Port: &networking.SidecarPort{Number: 8080, Protocol: "HTTP", Name: "p1"}, DefaultEndpoint: "127.0.0.1:8080"},
			&networking.IstioIngressListener{Port: &networking.SidecarPort{Number: 8080, Protocol: "TCP", Name: "p2"}, DefaultEndpoint: "127.0.0.1:9090"})
		return true
	})},
	{"ingress-without-selector", gvk.Sidecar, sc(func(r *rand.Rand, s *networking.Sidecar) bool {
		s.WorkloadSelector = nil
		s.Ingress = append(s.Ingress, &networking.IstioIngressListener{Port: &networking.SidecarPort{Number: 8080, Protocol: "HTTP", Name: "p1"}, DefaultEndpoint: "127.0.0.1:8080"})
		return true
	})},
	{"egress-proxy-invalid", gvk.Sidecar, sc(func(r *rand.Rand, s *networking.Sidecar) bool {
		s.OutboundTrafficPolicy = &networking.OutboundTrafficPolicy{Mode: networking.OutboundTrafficPolicy_ALLOW_ANY, EgressProxy: pick(r, []*networking.Destination{
			{}, {Host: "a.example.com"}, {Host: "", Port: &networking.PortSelector{Number: 80}}, {Host: "a.example.com", Port: &networking.PortSelector{Number: 70000}},
			{Host: "*.example.com", Port: &networking.PortSelector{Number: 80}}, {Host: "a.example.com", Port: &networking.PortSelector{Number: 0}}, {Host: "ghost.example.com", Subset: "nope", Port: &networking.PortSelector{Number: 80}},
		})}
		return true
	})},
	{"outbound-policy-unknown", gvk.Sidecar, sc(func(r *rand.Rand, s *networking.Sidecar) bool {
		s.OutboundTrafficPolicy = &networking.OutboundTrafficPolicy{Mode: networking.OutboundTrafficPolicy_Mode(7)}
		return true
	})},
	{"capture-mode-unknown", gvk.Sidecar, sc(func(r *rand.Rand, s *networking.Sidecar) bool {
		s.Egress[0].CaptureMode = networking.CaptureMode(9)
		return true
	})},

	// ---- EnvoyFilter
	{"patch-empty", gvk.EnvoyFilter, ef(func(r *rand.Rand, s *networking.EnvoyFilter) bool {
		s.ConfigPatches = append(s.ConfigPatches, pick(r, []*networking.EnvoyFilter_EnvoyConfigObjectPatch{{}, {ApplyTo: networking.EnvoyFilter_CLUSTER}, {ApplyTo: networking.EnvoyFilter_CLUSTER, Patch: &networking.EnvoyFilter_Patch{}}}))
		return true
	})},
	{"patch-value-missing", gvk.EnvoyFilter, ef(func(r *rand.Rand, s *networking.EnvoyFilter) bool {
		for _, p := range s.ConfigPatches {
			if p.Patch != nil && p.Patch.Value != nil {
				p.Patch.Value = nil
				return true
			}
		}
		return false
	})},
	{"patch-value-wrong-type", gvk.EnvoyFilter, ef(func(r *rand.Rand, s *networking.EnvoyFilter) bool {
		v, _ := structpb.NewStruct(map[string]any{"no_such_field": "x", "name": map[string]any{"nested": 1}})
		for _, p := range s.ConfigPatches {
			if p.Patch != nil && p.Patch.Value != nil {
				p.Patch.Value = v
				return true
			}
		}
		return false
	})},
	{"patch-value-invalid-content", gvk.EnvoyFilter, ef(func(r *rand.Rand, s *networking.EnvoyFilter) bool {
		// structurally parseable, semantically empty objects of each kind
		mk := func(m map[string]any) *structpb.Struct { v, _ := structpb.NewStruct(m); return v }
		s.ConfigPatches = append(s.ConfigPatches, pick(r, []*networking.EnvoyFilter_EnvoyConfigObjectPatch{
			{ApplyTo: networking.EnvoyFilter_CLUSTER, Patch: &networking.EnvoyFilter_Patch{Operation: networking.EnvoyFilter_Patch_ADD, Value: mk(map[string]any{"name": ""})}},
			{ApplyTo: networking.EnvoyFilter_CLUSTER, Patch: &networking.EnvoyFilter_Patch{Operation: networking.EnvoyFilter_Patch_ADD, Value: mk(map[string]any{"name": "BlackHoleCluster", "connect_timeout": "1s"})}},
			{ApplyTo: networking.EnvoyFilter_LISTENER, Patch: &networking.EnvoyFilter_Patch{Operation: networking.EnvoyFilter_Patch_ADD, Value: mk(map[string]any{"name": "ef-empty-listener"})}},
			{ApplyTo: networking.EnvoyFilter_VIRTUAL_HOST, Patch: &networking.EnvoyFilter_Patch{Operation: networking.EnvoyFilter_Patch_ADD, Value: mk(map[string]any{"name": "ef-dup-domain", "domains": []any{"*"}})}},
			{ApplyTo: networking.EnvoyFilter_HTTP_ROUTE, Patch: &networking.EnvoyFilter_Patch{Operation: networking.EnvoyFilter_Patch_INSERT_FIRST, Value: mk(map[string]any{"name": "ef-no-match"})}},
			{ApplyTo: networking.EnvoyFilter_FILTER_CHAIN, Patch: &networking.EnvoyFilter_Patch{Operation: networking.EnvoyFilter_Patch_ADD, Value: mk(map[string]any{"name": "ef-empty-chain"})}},
			{ApplyTo: networking.EnvoyFilter_HTTP_FILTER, Patch: &networking.EnvoyFilter_Patch{Operation: networking.EnvoyFilter_Patch_INSERT_FIRST, Value: mk(map[string]any{"name": ""})}},
		}))
		return true
	})},
	{"operation-mismatch", gvk.EnvoyFilter, ef(func(r *rand.Rand, s *networking.EnvoyFilter) bool {
		for _, p := range s.ConfigPatches {
			if p.Patch != nil {
				p.Patch.Operation = pick(r, []networking.EnvoyFilter_Patch_Operation{networking.EnvoyFilter_Patch_INSERT_BEFORE, networking.EnvoyFilter_Patch_REPLACE, networking.EnvoyFilter_Patch_INSERT_AFTER, networking.EnvoyFilter_Patch_INVALID, networking.EnvoyFilter_Patch_Operation(42)})
				return true
			}
		}
		return false
	})},
	{"apply-to-mismatch", gvk.EnvoyFilter, ef(func(r *rand.Rand, s *networking.EnvoyFilter) bool {
		for _, p := range s.ConfigPatches {
			p.ApplyTo = networking.EnvoyFilter_ApplyTo((int(p.ApplyTo) + 1 + r.Intn(8)) % 13)
			return true
		}
		return false
	})},
	{"match-invalid", gvk.EnvoyFilter, ef(func(r *rand.Rand, s *networking.EnvoyFilter) bool {
		for _, p := range s.ConfigPatches {
			p.Match = pick(r, []*networking.EnvoyFilter_EnvoyConfigObjectMatch{
				{Context: networking.EnvoyFilter_PatchContext(9)},
				{Proxy: &networking.EnvoyFilter_ProxyMatch{ProxyVersion: "["}},
				{ObjectTypes: &networking.EnvoyFilter_EnvoyConfigObjectMatch_Listener{Listener: &networking.EnvoyFilter_ListenerMatch{PortNumber: 70000, FilterChain: &networking.EnvoyFilter_ListenerMatch_FilterChainMatch{Filter: &networking.EnvoyFilter_ListenerMatch_FilterMatch{Name: "", SubFilter: &networking.EnvoyFilter_ListenerMatch_SubFilterMatch{Name: "x"}}}}}},
				{ObjectTypes: &networking.EnvoyFilter_EnvoyConfigObjectMatch_Cluster{Cluster: &networking.EnvoyFilter_ClusterMatch{}}},
				{ObjectTypes: &networking.EnvoyFilter_EnvoyConfigObjectMatch_RouteConfiguration{RouteConfiguration: nil}},
			})
			return true
		}
		return false
	})},
	{"selector-empty", gvk.EnvoyFilter, ef(func(r *rand.Rand, s *networking.EnvoyFilter) bool {
		s.WorkloadSelector = pick(r, []*networking.WorkloadSelector{{}, {Labels: map[string]string{"": ""}}, {Labels: map[string]string{"app": "*"}}})
		return true
	})},
}

// operatorsFor indexes the list by kind.
func operatorsFor(k config.GroupVersionKind) []operator {
	var out []operator
	for _, o := range operators {
		if o.Kind == k {
			out = append(out, o)
		}
	}
	return out
}
