package main

// Delta-debugging of a failing world (development / review aid behind the repro subcommand): objects,
// proxies and then every list element, map entry, message field and scalar of every remaining object
// are removed one at a time for as long as the real generators still show the wanted finding. Stratum V
// worlds stay admission-valid throughout (every candidate passes the real validator of its kind);
// in stratum I the damaged object stays rejected by its validator.

import (
	"fmt"
	"os"
	"sort"
	"strings"

	"google.golang.org/protobuf/proto"
	"google.golang.org/protobuf/reflect/protoreflect"

	"istio.io/istio/pkg/config"
)

// evalKeys pushes the world and returns finding key -> first message over all proxies (panics included).
func evalKeys(w *world) map[string]string {
	o := runWorld(w)
	keys := map[string]string{}
	if o.TimedOut || o.Fatal != nil || o.Harness != nil {
		return keys
	}
	if o.SetupPanic != nil {
		keys["panic:"+o.SetupPanic.Panic] = o.SetupPanic.PanicMsg
	}
	for pi, po := range o.Proxies {
		if po.Panic != "" {
			if _, ok := keys["panic:"+po.Panic]; !ok {
				keys["panic:"+po.Panic] = po.PanicMsg
			}
		}
		for _, f := range po.Findings {
			k := explainedKey(w, w.Proxies[pi], f)
			if _, ok := keys[k]; !ok {
				keys[k] = fmt.Sprintf("proxy %s: %s", po.Proxy, f.Msg)
			}
		}
	}
	return keys
}

func hasKey(keys map[string]string, want string) bool {
	for k := range keys {
		if strings.Contains(k, want) {
			return true
		}
	}
	return false
}

func cloneWorld(w *world) *world {
	c := &world{Mesh: w.Mesh, FilterGW: w.FilterGW, Rejected: map[string]int{}}
	c.Proxies = append(c.Proxies, w.Proxies...)
	for _, cfg := range w.Configs {
		c.Configs = append(c.Configs, cfg.DeepCopy())
	}
	return c
}

// minimise shrinks w while pred(candidate) holds. victim (>= 0) is the index of the damaged object of a stratum-I
// world: it is never removed and must stay rejected by its validator; all other objects must stay admission-valid.
func minimise(w *world, want string, victim int, verbose bool) *world {
	tests := 0
	ok := func(c *world, v int) bool {
		for i, cfg := range c.Configs {
			res := validateConfig(cfg)
			if i == v {
				if res.Err == nil {
					return false
				}
				continue
			}
			if res.Err != nil {
				return false
			}
		}
		tests++
		return hasKey(evalKeys(c), want)
	}
	cur := cloneWorld(w)
	// 1. whole objects
	for i := len(cur.Configs) - 1; i >= 0; i-- {
		if i == victim {
			continue
		}
		c := cloneWorld(cur)
		c.Configs = append(c.Configs[:i:i], c.Configs[i+1:]...)
		v := victim
		if victim > i {
			v--
		}
		if ok(c, v) {
			cur, victim = c, v
		}
	}
	// 2. proxies
	for i := len(cur.Proxies) - 1; i >= 0 && len(cur.Proxies) > 1; i-- {
		c := cloneWorld(cur)
		c.Proxies = append(c.Proxies[:i:i], c.Proxies[i+1:]...)
		if ok(c, victim) {
			cur = c
		}
	}
	// 3. mesh config back to the default, feature flag off
	// (kept as drawn when the finding depends on it)
	// 4. inside the objects
	for pass := 0; pass < 2; pass++ {
		for oi := range cur.Configs {
			n := 0
			for {
				c := cloneWorld(cur)
				m, isProto := c.Configs[oi].Spec.(proto.Message)
				if !isProto {
					break
				}
				cnt := n
				if !reduceNth(m.ProtoReflect(), &cnt) {
					break
				}
				if ok(c, victim) {
					cur = c // the same index now names the next candidate
				} else {
					n++
				}
			}
		}
	}
	if verbose {
		fmt.Fprintf(os.Stderr, "minimise: %d generator runs, %d objects left\n", tests, len(cur.Configs))
	}
	return cur
}

// reduceNth applies the n-th possible reduction (depth-first order) to m; *n counts down. It reports whether a
// reduction was applied.
func reduceNth(m protoreflect.Message, n *int) bool {
	var fds []protoreflect.FieldDescriptor
	m.Range(func(fd protoreflect.FieldDescriptor, _ protoreflect.Value) bool {
		fds = append(fds, fd)
		return true
	})
	sort.Slice(fds, func(i, j int) bool { return fds[i].Number() < fds[j].Number() })
	for _, fd := range fds {
		v := m.Get(fd)
		switch {
		case fd.IsList():
			l := m.Mutable(fd).List()
			for i := 0; i < l.Len(); i++ {
				if *n == 0 {
					// remove element i
					var keep []protoreflect.Value
					for j := 0; j < l.Len(); j++ {
						if j != i {
							keep = append(keep, l.Get(j))
						}
					}
					l.Truncate(0)
					for _, k := range keep {
						l.Append(k)
					}
					if l.Len() == 0 {
						m.Clear(fd)
					}
					return true
				}
				*n--
				if fd.Kind() == protoreflect.MessageKind {
					if reduceNth(l.Get(i).Message(), n) {
						return true
					}
				}
			}
		case fd.IsMap():
			mp := m.Mutable(fd).Map()
			var keys []protoreflect.MapKey
			mp.Range(func(k protoreflect.MapKey, _ protoreflect.Value) bool { keys = append(keys, k); return true })
			sort.Slice(keys, func(i, j int) bool { return keys[i].String() < keys[j].String() })
			for _, k := range keys {
				if *n == 0 {
					mp.Clear(k)
					if mp.Len() == 0 {
						m.Clear(fd)
					}
					return true
				}
				*n--
				if fd.MapValue().Kind() == protoreflect.MessageKind {
					if reduceNth(mp.Get(k).Message(), n) {
						return true
					}
				}
			}
		case fd.Kind() == protoreflect.MessageKind || fd.Kind() == protoreflect.GroupKind:
			if *n == 0 {
				m.Clear(fd)
				return true
			}
			*n--
			if reduceNth(m.Mutable(fd).Message(), n) {
				return true
			}
		default:
			_ = v
			if *n == 0 {
				m.Clear(fd)
				return true
			}
			*n--
		}
	}
	return false
}

var _ = config.Config{}
