package main

// Root-cause recognition for findings on admission-valid worlds (stratum V). A finding whose cause is recognised
// from the shape of the INPUT (the objects of the world, the proxy) gets the key "<rule>:cause=<cause>"; anything
// else keeps its generic key "<rule>:<detail>" and so can never be covered by a known-finding line written for a
// recognised cause. The recognisers look at the input only; the finding tells them where to look (listener port,
// colliding server name, domain).

import (
	"net"
	"strconv"
	"strings"

	networking "istio.io/api/networking/v1alpha3"
	"istio.io/istio/pkg/config"
	"istio.io/istio/pkg/config/schema/gvk"
)

// explainedKey is the key of a finding of one proxy of a world.
func explainedKey(w *world, p *proxyDef, f finding) string {
	if cause := recogniseCause(w, p, f); cause != "" {
		return f.Rule + ":cause=" + cause
	}
	return f.key()
}

func recogniseCause(w *world, p *proxyDef, f finding) string {
	if f.Rule == "pgv" {
		return causePGV(w, f)
	}
	if f.Info == nil {
		return ""
	}
	switch f.Rule {
	case "name-duplicate":
		if f.Detail == "LDS" {
			return causeSidecarIngressWildcard(w, f.Info["name"])
		}
		return ""
	case "vhost-domain-duplicate":
		return causeVHostDomain(w, p, f)
	case "listener-address-duplicate":
		return causeListenerAddress(w, p, f)
	case "fc-server-name-partial-wildcard":
		return causePartialWildcard(w, p, f)
	case "fc-match-duplicate", "fc-match-overlap":
		if p.Kind == "router" {
			if c := causeAutoPassthroughCase(w, p, f); c != "" {
				return c
			}
			return causeGatewayChains(w, p, f)
		}
		return causeOutboundChains(w, p, f)
	}
	return ""
}

// ---------------------------------------------------------------------------------------

func hostOfVHostName(n string) string {
	if i := strings.LastIndex(n, ":"); i > 0 {
		if _, err := strconv.Atoi(n[i+1:]); err == nil {
			return n[:i]
		}
	}
	return n
}

func worldHasHost(w *world, h string) bool {
	for _, c := range w.ofKind(gvk.ServiceEntry) {
		for _, x := range c.Spec.(*networking.ServiceEntry).GetHosts() {
			if strings.EqualFold(x, h) {
				return true
			}
		}
	}
	for _, c := range w.ofKind(gvk.VirtualService) {
		for _, x := range c.Spec.(*networking.VirtualService).GetHosts() {
			if strings.EqualFold(x, h) {
				return true
			}
		}
	}
	return false
}

// causeVHostDomain: a wildcard host "*.<ns>.svc.<domain>" seen by a proxy of namespace <ns> is given the short
// alternate name "*" (httproute.go generateAltVirtualHostsForKubernetesService strips ".<ns>.svc.<domain>"),
// which is the catch-all domain that allow_any / block_all already uses.
func causeVHostDomain(w *world, p *proxyDef, f finding) string {
	if f.Info["domain"] != "*" && !strings.HasPrefix(f.Info["domain"], "*:") {
		return ""
	}
	own := "*." + p.NS + ".svc.cluster.local"
	for _, v := range []string{f.Info["vhostA"], f.Info["vhostB"]} {
		if strings.EqualFold(hostOfVHostName(v), own) && worldHasHost(w, own) {
			return "wildcard-host-of-the-proxy-namespace-domain-shortened-to-catch-all"
		}
	}
	return ""
}

func isHTTPFamily(proto, name string) bool {
	pr := strings.ToUpper(proto)
	if pr == "" {
		// protocol selection by port name prefix
		n := strings.ToLower(name)
		if i := strings.Index(n, "-"); i >= 0 {
			n = n[:i]
		}
		n = strings.TrimRight(n, "0123456789")
		pr = strings.ToUpper(n)
	}
	switch pr {
	case "HTTP", "HTTP2", "GRPC", "GRPC-WEB", "HTTP_PROXY":
		return true
	}
	return false
}

// causeListenerAddress: model.conflictWithReservedListener keeps outbound listeners off the ports of virtualOutbound
// (15001) and virtualInbound (15006) only when the bind is the wildcard or when it is empty AND the protocol is HTTP
// ("if the protocol is HTTP and bind == "", the listener address will be 0.0.0.0:port"); a non-HTTP service port
// without a VIP is also put on 0.0.0.0:<port>.
func causeListenerAddress(w *world, p *proxyDef, f finding) string {
	virt := map[string]int{"virtualOutbound": 15001, "virtualInbound": 15006}
	var port int
	var other string
	switch {
	case virt[f.Info["classA"]] != 0 && f.Info["classB"] == "outbound":
		port, other = virt[f.Info["classA"]], f.Info["b"]
	case virt[f.Info["classB"]] != 0 && f.Info["classA"] == "outbound":
		port, other = virt[f.Info["classB"]], f.Info["a"]
	case (f.Info["classA"] == "inbound" && f.Info["classB"] == "virtualInbound") || (f.Info["classA"] == "virtualInbound" && f.Info["classB"] == "inbound"):
		// A Sidecar ingress listener on the port of virtualInbound: conflictWithReservedListener is consulted for the
		// static listener ports only on the inbound side ("virtual listener port ... only need to check for outbound listener")
		for _, c := range w.ofKind(gvk.Sidecar) {
			for _, in := range c.Spec.(*networking.Sidecar).GetIngress() {
				if in.GetPort().GetNumber() == 15006 {
					return "sidecar-ingress-listener-on-the-virtual-inbound-port"
				}
			}
		}
		return ""
	case (f.Info["classA"] == "inbound" && f.Info["classB"] == "outbound") || (f.Info["classA"] == "outbound" && f.Info["classB"] == "inbound"):
		n := f.Info["a"]
		if f.Info["classB"] == "inbound" {
			n = f.Info["b"]
		}
		return causeSidecarIngressWildcard(w, n)
	case f.Info["classA"] == "outbound" && f.Info["classB"] == "outbound":
		// A Sidecar egress listener bound explicitly to one wildcard address ("::" or "0.0.0.0") on a dual-stack proxy: the
		// catch-all egress listener builds the wildcard listener of the same port with the other wildcard as additional
		// address; the two listeners are kept apart by name (bind as written) and share an address.
		ba, pa := splitListenerName(f.Info["a"])
		bb, pb := splitListenerName(f.Info["b"])
		v4, v6 := false, false
		for _, ip := range p.IPs {
			if strings.Contains(ip, ":") {
				v6 = true
			} else {
				v4 = true
			}
		}
		if pa == pb && pa != 0 && ba != bb && isWildcardBind(ba) && isWildcardBind(bb) && v4 && v6 {
			for _, c := range w.ofKind(gvk.Sidecar) {
				for _, e := range c.Spec.(*networking.Sidecar).GetEgress() {
					if int(e.GetPort().GetNumber()) == pa && isWildcardBind(e.GetBind()) {
						return "sidecar-egress-listener-bound-to-one-wildcard-address-on-a-dual-stack-proxy"
					}
				}
			}
		}
		return ""
	default:
		return ""
	}
	if !strings.HasSuffix(other, "_"+strconv.Itoa(port)) {
		return ""
	}
	for _, c := range w.ofKind(gvk.ServiceEntry) {
		for _, sp := range c.Spec.(*networking.ServiceEntry).GetPorts() {
			// a ServiceEntry port has the protocol it states (no inference from the port name); none = auto-detected, not HTTP
			if int(sp.GetNumber()) == port && !isHTTPFamily(sp.GetProtocol(), "") {
				return "non-http-service-port-equals-a-virtual-listener-port"
			}
		}
	}
	for _, c := range w.ofKind(gvk.Sidecar) {
		for _, e := range c.Spec.(*networking.Sidecar).GetEgress() {
			if int(e.GetPort().GetNumber()) == port && !isHTTPFamily(e.GetPort().GetProtocol(), e.GetPort().GetName()) {
				return "non-http-service-port-equals-a-virtual-listener-port"
			}
		}
	}
	return ""
}

// causeSidecarIngressWildcard: a Sidecar ingress listener bound explicitly to the wildcard address (captureMode NONE) is
// named <wildcard>_<port> like the outbound wildcard listener of a service on that port; nothing compares the two sets.
func causeSidecarIngressWildcard(w *world, listenerName string) string {
	bind, port := splitListenerName(listenerName)
	if !isWildcardBind(bind) || port == 0 {
		return ""
	}
	ingress := false
	for _, c := range w.ofKind(gvk.Sidecar) {
		for _, in := range c.Spec.(*networking.Sidecar).GetIngress() {
			if int(in.GetPort().GetNumber()) == port && isWildcardBind(in.GetBind()) {
				ingress = true
			}
		}
	}
	if !ingress {
		return ""
	}
	for _, c := range w.ofKind(gvk.ServiceEntry) {
		for _, sp := range c.Spec.(*networking.ServiceEntry).GetPorts() {
			if int(sp.GetNumber()) == port {
				return "sidecar-ingress-listener-bound-to-the-wildcard-address-on-an-outbound-service-port"
			}
		}
	}
	return ""
}

// causePartialWildcard: an AUTO_PASSTHROUGH gateway server gets one filter chain per mesh-internal service port whose
// server name is the SNI-DNAT cluster name outbound_.<port>_.<subset>_.<host>; for a wildcard service host the name
// contains "*" in the middle.
func causePartialWildcard(w *world, p *proxyDef, f finding) string {
	n := f.Info["name"]
	if !strings.HasPrefix(n, "outbound_.") {
		return ""
	}
	q := strings.SplitN(n, "_.", 4)
	if len(q) != 4 || !strings.HasPrefix(q[3], "*") {
		return ""
	}
	auto := false
	for _, c := range w.ofKind(gvk.Gateway) {
		for _, s := range c.Spec.(*networking.Gateway).GetServers() {
			if s.GetTls().GetMode() == networking.ServerTLSSettings_AUTO_PASSTHROUGH {
				auto = true
			}
		}
	}
	if auto && worldHasHost(w, q[3]) {
		return "auto-passthrough-sni-built-from-a-wildcard-service-host"
	}
	return ""
}

// causeAutoPassthroughCase: the SNI-DNAT server names of an AUTO_PASSTHROUGH server are built from the service host
// names as written; two mesh-internal hosts that differ only in case give two chains whose names Envoy lower-cases
// into one.
func causeAutoPassthroughCase(w *world, p *proxyDef, f finding) string {
	sni := f.Info["sni"]
	if !strings.HasPrefix(sni, "outbound_.") {
		return ""
	}
	q := strings.SplitN(sni, "_.", 4)
	if len(q) != 4 {
		return ""
	}
	lits := map[string]bool{}
	for _, c := range w.ofKind(gvk.ServiceEntry) {
		for _, h := range c.Spec.(*networking.ServiceEntry).GetHosts() {
			if strings.ToLower(h) == q[3] {
				lits[h] = true
			}
		}
	}
	if len(lits) >= 2 {
		return "auto-passthrough-sni-of-service-hosts-differing-only-in-case"
	}
	// Every AUTO_PASSTHROUGH server builds one chain per mesh-internal service its hosts match. Two such servers of one
	// port whose hosts are different strings (so that CheckDuplicates keeps both) and match the same service give the
	// same SNI-DNAT chain twice.
	_, port := splitListenerName(f.Info["listener"])
	hosts := map[string]bool{}
	n := 0
	for _, gs := range gatewayServersOnPort(w, p, port) {
		if gs.s.GetTls().GetMode() != networking.ServerTLSSettings_AUTO_PASSTHROUGH {
			continue
		}
		n++
		for _, h := range gs.s.GetHosts() {
			if ns, rest, ok := strings.Cut(h, "/"); ok && ns == "." {
				h = gs.cfg.Namespace + "/" + rest
			}
			hosts[h] = true
		}
	}
	if n >= 2 && len(hosts) >= 2 {
		return "auto-passthrough-servers-of-one-port-matching-the-same-service"
	}
	return ""
}

// ---------------------------------------------------------------------------------------
// gateways

func splitListenerName(n string) (bind string, port int) {
	i := strings.LastIndex(n, "_")
	if i < 0 {
		return n, 0
	}
	port, _ = strconv.Atoi(n[i+1:])
	return n[:i], port
}

func selects(sel map[string]string, labels map[string]string) bool {
	for k, v := range sel {
		if labels[k] != v {
			return false
		}
	}
	return true
}

func isWildcardBind(b string) bool { return b == "0.0.0.0" || b == "::" }

func normSNI(h string) string {
	h = strings.ToLower(h)
	if strings.HasPrefix(h, "*.") {
		h = h[1:]
	}
	return h
}

type gwServer struct {
	cfg *config.Config
	s   *networking.Server
}

func gatewayServersOnPort(w *world, p *proxyDef, port int) []gwServer {
	var out []gwServer
	for _, c := range w.ofKind(gvk.Gateway) {
		g := c.Spec.(*networking.Gateway)
		if !selects(g.GetSelector(), p.Labels) {
			continue
		}
		for _, s := range g.GetServers() {
			if int(s.GetPort().GetNumber()) == port {
				out = append(out, gwServer{c, s})
			}
		}
	}
	return out
}

// causeGatewayChains recognises, for two filter chains of a gateway listener that collide on SNI name sni (or, with
// sni == "", that both have no match at all):
//
//   - explicit-wildcard-bind: one of the servers is bound explicitly to the wildcard address, the other has no bind:
//     mergeGateways keys servers (and remembers TLS hosts) by the bind as written and so keeps them apart, while
//     buildGatewayListeners names the listener after the effective bind and so puts both into listener 0.0.0.0_<port>;
//   - hosts equal as SNI but not as strings: model.CheckDuplicates compares the host strings as written
//     ("ns1/a.example.com", "./a.example.com" resolved per gateway namespace, "A.example.com"), while the filter chain
//     match is built from the bare host and Envoy lower-cases server names;
//   - a TLS server with the match-all host "*" (no server_names in its chain) next to a plaintext server on the same
//     port and bind: mergeGateways refuses the pair only when the plaintext server comes first;
//   - one-bind-per-port memory: mergeGateways remembers ONE bind per port for plaintext servers (plainTextServers[port])
//     and ONE bind per TLS host (CheckDuplicates' knownHosts[host] = bind); a server on a second bind in between makes
//     it forget the first, so that a third server colliding with the first is accepted.
func causeGatewayChains(w *world, p *proxyDef, f finding) string {
	lbind, port := splitListenerName(f.Info["listener"])
	sni := f.Info["sni"]
	if sni == "" && f.Info["tuple"] == "" {
		return ""
	}
	type contrib struct {
		bind  string // as written
		raw   string // host string as mergeGateways compares it ("" for plaintext servers)
		plain bool
	}
	var on []contrib // servers whose chain collides in this listener
	others := 0      // servers of the same kind on the same port under another bind
	for _, gs := range gatewayServersOnPort(w, p, port) {
		sb := gs.s.GetBind()
		onListener := sb == lbind || (sb == "" && isWildcardBind(lbind))
		tlsServer := gs.s.GetTls() != nil && !(gs.s.GetTls().GetHttpsRedirect() && isHTTPFamily(gs.s.GetPort().GetProtocol(), ""))
		if !tlsServer {
			if sni != "" {
				continue
			}
			if onListener {
				// mergeGateways keys plaintext servers by (port, protocol as written, bind); servers of mergeable protocols
				// join the server it remembers for the port, all others are refused - unless it remembers another bind
				on = append(on, contrib{bind: sb, raw: "plain:" + gs.s.GetPort().GetProtocol(), plain: true})
			} else {
				others++
			}
			continue
		}
		for _, h := range gs.s.GetHosts() {
			full := h
			if ns, rest, ok := strings.Cut(h, "/"); ok {
				switch ns {
				case ".":
					full = gs.cfg.Namespace + "/" + rest
				case "*":
					full = rest
				}
				h = rest
			}
			hit := (sni == "" && h == "*") || (sni != "" && normSNI(h) == sni)
			if !hit {
				continue
			}
			if onListener {
				on = append(on, contrib{bind: sb, raw: full})
			} else {
				others++
			}
		}
	}
	if len(on) < 2 {
		return ""
	}
	binds, raws := map[string]bool{}, map[string]bool{}
	plain, tlsN := 0, 0
	chains := map[string]bool{} // distinct colliding chains: bind + (plaintext group | one per TLS server host)
	for i, c := range on {
		binds[c.bind] = true
		if c.plain {
			chains[c.bind+"|"+c.raw] = true
		} else {
			chains[c.bind+"|tls"+strconv.Itoa(i)] = true
		}
	}
	if len(chains) < 2 {
		return ""
	}
	for _, c := range on {
		if c.plain {
			plain++
		} else {
			tlsN++
			raws[c.raw] = true
		}
	}
	switch {
	case len(binds) > 1:
		return "gateway-server-bound-explicitly-to-the-wildcard-address"
	case plain > 0 && tlsN > 0:
		return "gateway-tls-server-with-match-all-host-next-to-plaintext-server-on-one-port"
	case len(raws) > 1:
		lower := map[string]bool{}
		for r := range raws {
			lower[strings.ToLower(r)] = true
		}
		if len(lower) < 2 {
			return "gateway-tls-hosts-equal-as-sni-but-differing-in-case"
		}
		return "gateway-tls-hosts-equal-as-sni-but-differing-in-namespace-prefix"
	case others > 0:
		return "gateway-conflict-tracking-remembers-one-bind-per-port"
	}
	return ""
}

// ---------------------------------------------------------------------------------------
// sidecar outbound

func normCIDRString(s string) string {
	if !strings.Contains(s, "/") {
		if ip := net.ParseIP(s); ip != nil {
			if ip.To4() != nil {
				return ip.String() + "/32"
			}
			return ip.String() + "/128"
		}
		return s
	}
	_, n, err := net.ParseCIDR(s)
	if err != nil {
		return s
	}
	return n.String()
}

// causeOutboundChains recognises, for sidecar outbound listeners:
//   - several TLS match blocks / TLS service hosts on one port whose SNI host lists share a host without being equal
//     lists: istio's duplicate detection (hashRuntimeTLSMatchPredicates within a VirtualService, filterChainOpts.
//     conflictsWith between services) compares whole lists, as written; Envoy refuses any shared server name and
//     compares them in lower case;
//   - several tcp routes of one VirtualService with the same effective destination subnets (explicit
//     destinationSubnets equal to the service's CIDR followed by a route without subnets, or the same subnets twice):
//     buildSidecarOutboundTCPFilterChainOpts only suppresses the service's own default chain in that case.
func causeOutboundChains(w *world, p *proxyDef, f finding) string {
	sni := f.Info["sni"]
	if sni != "" && f.Info["dst"] != "" {
		// buildSidecarOutboundTLSFilterChainOpts assigns a match block's destinationSubnets to the variable that holds the
		// service's CIDRs and never resets it: a following match block without destinationSubnets inherits them.
		for _, c := range w.ofKind(gvk.VirtualService) {
			leaked := false
			for _, t := range c.Spec.(*networking.VirtualService).GetTls() {
				for _, m := range t.GetMatch() {
					has := false
					for _, h := range m.GetSniHosts() {
						if normSNI(h) == sni {
							has = true
						}
					}
					if len(m.GetDestinationSubnets()) > 0 {
						for _, sn := range m.GetDestinationSubnets() {
							if has && normCIDRString(sn) == f.Info["dst"] {
								leaked = true
							}
						}
						continue
					}
					if leaked && has {
						return "virtualservice-tls-destination-subnets-leak-into-the-following-match"
					}
				}
			}
		}
	}
	if sni != "" && f.Info["dst"] != "" {
		// two tls match blocks with the SNI host whose destination subnets are the same in effect (explicit subnets equal
		// to the service's CIDR vs. none): hashRuntimeTLSMatchPredicates compares the blocks as written
		var svcCIDRs []string
		for _, c := range w.ofKind(gvk.ServiceEntry) {
			for _, a := range c.Spec.(*networking.ServiceEntry).GetAddresses() {
				svcCIDRs = append(svcCIDRs, normCIDRString(a))
			}
		}
		for _, c := range w.ofKind(gvk.VirtualService) {
			written := map[string]bool{}
			for _, t := range c.Spec.(*networking.VirtualService).GetTls() {
				for _, m := range t.GetMatch() {
					has := false
					for _, h := range m.GetSniHosts() {
						if normSNI(h) == sni {
							has = true
						}
					}
					if !has {
						continue
					}
					eff := m.GetDestinationSubnets()
					if len(eff) == 0 {
						eff = svcCIDRs
					}
					for _, sn := range eff {
						if normCIDRString(sn) == f.Info["dst"] {
							written[strings.Join(m.GetSniHosts(), ",")+"|"+strings.Join(m.GetDestinationSubnets(), ",")] = true
						}
					}
				}
			}
			if len(written) >= 2 {
				return "virtualservice-tls-matches-with-the-same-sni-and-effective-destination-subnets"
			}
		}
	}
	if sni != "" {
		// SNI sources: every tls match block, every host of a service entry
		type src struct {
			set     string // the list as written, sorted
			literal string // the element equal to sni up to case / wildcard form
		}
		var srcs []src
		add := func(list []string) {
			lit := ""
			for _, h := range list {
				if normSNI(h) == sni {
					lit = h
				}
			}
			if lit == "" {
				return
			}
			cp := append([]string{}, list...)
			sortStrings(cp)
			srcs = append(srcs, src{strings.Join(cp, ","), lit})
		}
		for _, c := range w.ofKind(gvk.VirtualService) {
			for _, t := range c.Spec.(*networking.VirtualService).GetTls() {
				for _, m := range t.GetMatch() {
					add(m.GetSniHosts())
				}
			}
		}
		for _, c := range w.ofKind(gvk.ServiceEntry) {
			for _, h := range c.Spec.(*networking.ServiceEntry).GetHosts() {
				add([]string{h})
			}
		}
		sets, lits := map[string]bool{}, map[string]bool{}
		for _, s := range srcs {
			sets[s.set] = true
			lits[s.literal] = true
		}
		if len(sets) < 2 {
			return ""
		}
		if len(lits) > 1 {
			return "outbound-sni-hosts-differing-only-in-case-or-form"
		}
		return "outbound-sni-host-shared-by-unequal-sni-lists"
	}
	dst := f.Info["dst"]
	if dst == "" {
		return ""
	}
	// effective destination subnets per tcp route of each virtual service
	var svcCIDRs []string
	for _, c := range w.ofKind(gvk.ServiceEntry) {
		for _, a := range c.Spec.(*networking.ServiceEntry).GetAddresses() {
			svcCIDRs = append(svcCIDRs, normCIDRString(a))
		}
	}
	routes := 0 // over all virtual services: several of them can apply to one service (overlapping hosts)
	for _, c := range w.ofKind(gvk.VirtualService) {
		for _, t := range c.Spec.(*networking.VirtualService).GetTcp() {
			eff := map[string]bool{}
			if len(t.GetMatch()) == 0 {
				for _, a := range svcCIDRs {
					eff[a] = true
				}
			}
			for _, m := range t.GetMatch() {
				if len(m.GetDestinationSubnets()) == 0 {
					for _, a := range svcCIDRs {
						eff[a] = true
					}
				}
				for _, s := range m.GetDestinationSubnets() {
					eff[normCIDRString(s)] = true
				}
			}
			if eff[dst] {
				routes++
			}
		}
	}
	if routes >= 2 {
		return "virtualservice-tcp-routes-with-the-same-effective-destination-subnets"
	}
	return ""
}

func sortStrings(s []string) {
	for i := 1; i < len(s); i++ {
		for j := i; j > 0 && s[j] < s[j-1]; j-- {
			s[j], s[j-1] = s[j-1], s[j]
		}
	}
}

// causePGV: values that admission accepts and the translation copies into a field for which the xDS API has a
// tighter bound.
func causePGV(w *world, f finding) string {
	if strings.HasPrefix(f.Detail, "Cluster_RingHashLbConfig.MinimumRingSize:") {
		// ValidateDestinationRule puts no upper bound on consistentHash.minimumRingSize / ringHash.minimumRingSize;
		// Envoy's bound is 8388608 (8M)
		for _, c := range w.ofKind(gvk.DestinationRule) {
			d := c.Spec.(*networking.DestinationRule)
			tps := []*networking.TrafficPolicy{d.GetTrafficPolicy()}
			for _, ss := range d.GetSubsets() {
				tps = append(tps, ss.GetTrafficPolicy())
			}
			for _, tp := range tps {
				lbs := []*networking.LoadBalancerSettings{tp.GetLoadBalancer()}
				for _, pl := range tp.GetPortLevelSettings() {
					lbs = append(lbs, pl.GetLoadBalancer())
				}
				for _, lb := range lbs {
					ch := lb.GetConsistentHash()
					if ch.GetMinimumRingSize() > 8388608 || ch.GetRingHash().GetMinimumRingSize() > 8388608 { //nolint:staticcheck
						return "destinationrule-minimum-ring-size-above-the-envoy-maximum-is-admitted"
					}
				}
			}
		}
	}
	return ""
}
