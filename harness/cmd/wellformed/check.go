package main

// The oracle: structural well-formedness and closure of one snapshot. No istio function takes part in a verdict.
// Every asserted rule is something Envoy refuses at load time (so that "a proxy can load" the resource fails) or a
// rule of the xDS API itself; what the Envoy documentation / source leaves open is counted, not asserted.
//
//   - duplicate resource names in one CDS / LDS response: Envoy rejects the whole update ("duplicate cluster ...
//     found", "duplicate listener ... found" in CdsApiImpl / LdsApiImpl::onConfigUpdate);
//   - virtual-host domains: Router::RouteMatcher lower-cases every domain and throws "Only a single wildcard domain
//     is permitted in route ..." for a second "*" and "Only unique values for domains are permitted. Duplicate entry
//     of domain ..." for any other repeated exact, suffix- or prefix-wildcard domain - also within one virtual host;
//   - filter chains: FilterChainManagerImpl::addFilterChains refuses (a) a filter_chain_match equal (as a message) to
//     an earlier one ("filter chain '..' has the same matching rules defined as '..'"), (b) "partial wildcards are not
//     supported in \"server_names\"" (only "*.suffix"), and (c) any two chains that meet in one leaf of its lookup
//     tries ("multiple filter chains with overlapping matching rules are defined"): destination port, each
//     destination prefix (CidrRange normalised; none = one empty entry), each server name (lower-cased, "*.x" stored as
//     ".x"; none = one empty entry), transport protocol, each application protocol, each direct source prefix,
//     source type, each source prefix, each source port - fcmTuples builds exactly these tuples;
//   - listener addresses: see checkListenerAddresses;
//   - weighted clusters (route.v3.WeightedCluster): "The sum of weights across all entries in the clusters array must
//     be greater than 0, and must not exceed uint32_t maximal value (4294967295)";
//   - route configurations whose cluster references Envoy validates when loading (validate_clusters);
//   - protoc-gen-validate constraints of the API (pgv.go).

import (
	"fmt"
	"net"
	"sort"
	"strings"

	cluster "github.com/envoyproxy/go-control-plane/envoy/config/cluster/v3"
	corev3 "github.com/envoyproxy/go-control-plane/envoy/config/core/v3"
	listener "github.com/envoyproxy/go-control-plane/envoy/config/listener/v3"
	route "github.com/envoyproxy/go-control-plane/envoy/config/route/v3"
	hcm "github.com/envoyproxy/go-control-plane/envoy/extensions/filters/network/http_connection_manager/v3"
	tcp "github.com/envoyproxy/go-control-plane/envoy/extensions/filters/network/tcp_proxy/v3"
	typev3 "github.com/envoyproxy/go-control-plane/envoy/type/v3"
	"google.golang.org/protobuf/proto"
)

// finding is one rule broken by a snapshot. Rule (+Detail) is stable across seeds and becomes the
// violation key; Msg names the concrete resource.
type finding struct {
	Rule   string
	Detail string
	Msg    string
	// Info names the concrete things involved (listener, port, server name, virtual hosts ...) for the root-cause
	// recognisers of explain.go; it never enters a key directly.
	Info map[string]string
}

func (f finding) key() string {
	if f.Detail == "" {
		return f.Rule
	}
	return f.Rule + ":" + f.Detail
}

// stats are the measured observations of one snapshot check (fed into evidence counters).
type stats struct {
	Resources        map[string]int // per xDS type
	PGVRoots         int
	PGVMessages      int
	AnyResolved      map[string]int
	AnyUnknown       map[string]int
	NoValidator      map[string]int
	RDSFollowed      int
	EDSFollowed      int
	EDSEmpty         int
	ECDSFollowed     int
	ECDSMissing      int // extension configs named by a listener that ECDS did not return (counted, not asserted)
	ClusterRefs      int // cluster references followed from routes / tcp_proxy
	ClusterRefsBy    map[string]int
	RefResolved      int
	RefBuiltin       int
	RefDanglingKnown int // unasserted: dangling although the proxy was given the service port / subset, or an inbound cluster
	RefUnknownSvc    int // names a host:port / subset the proxy has no service / subset for (legitimate dangling)
	RefExempt        int // excused by a user REMOVE patch
	RefOtherName     int // dangling name that is not direction|port|subset|host (e.g. UnknownService)
	OtherNames       map[string]bool
	VHosts           int
	Domains          int
	FilterChains     int
	DupChainNames    int // chains sharing a name (legal without filter_chain_matcher)
	FCMTuples        int
	Weighted         int
	Fractions        int
	// FractionsAboveOne counts FractionalPercent messages with numerator > denominator (unspecified by the API, loadable).
	FractionsAboveOne int
	// DupVHostNames counts virtual hosts sharing a name within one RouteConfiguration (see checkRouteConfiguration).
	DupVHostNames int
	InlineRoutes  int
	Shapes        map[string]bool // interaction shapes observed in the output
}

func newStats() *stats {
	return &stats{Resources: map[string]int{}, AnyResolved: map[string]int{}, AnyUnknown: map[string]int{}, NoValidator: map[string]int{},
		ClusterRefsBy: map[string]int{}, Shapes: map[string]bool{}, OtherNames: map[string]bool{}}
}

// checkCtx is what the oracle may know about the input side of a snapshot.
type checkCtx struct {
	ProxyKind string // sidecar | router
	// MustExist reports whether the proxy was given what a cluster direction|port|subset|host stands for: host:port
	// is a non-UDP port of a service in its scope, the destination rule in force for host (as seen by this proxy)
	// defines subset (if any), and - for DNS-resolved services, whose clusters istio documents to omit when they
	// have no endpoints - at least one endpoint is selected. A reference to such a cluster must resolve in CDS.
	MustExist func(host string, port int, subset string) bool
	// ClusterRemoved reports whether a user EnvoyFilter REMOVE patch names this cluster (dangling by request).
	ClusterRemoved func(name string) bool
}

// userNamePrefix marks names that only user-supplied EnvoyFilter content of the generator uses; whether they
// resolve is the user's business.
const userNamePrefix = "ef-"

// documented cluster names that are part of the proxy's bootstrap, not of CDS.
var bootstrapClusters = map[string]bool{
	"prometheus_stats": true, "agent": true, "sds-grpc": true, "xds-grpc": true, "zipkin": true,
	"envoy_accesslog_service": true, "lightstep": true, "datadog": true,
}

type clusterRef struct {
	Name   string
	Source string // route | weighted | mirror | tcp | tcp-weighted
	Where  string
	// Validated: the reference sits in a route configuration for which Envoy checks cluster references at load time
	// (RouteConfiguration.validate_clusters: "defaults to true if the route table is statically defined via the
	// route_config option, false if via rds"): an unknown cluster then makes Envoy refuse the resource.
	Validated bool
}

type checker struct {
	cx       *checkCtx
	st       *stats
	findings []finding
	refs     []clusterRef
	// validatedRC: location (where + path) of every route configuration whose cluster references Envoy validates
	validatedRC []string
}

func (c *checker) inValidatedRC(loc string) bool {
	for _, p := range c.validatedRC {
		if strings.HasPrefix(loc, p) {
			return true
		}
	}
	return false
}

func (c *checker) add(rule, detail, format string, args ...any) {
	c.findings = append(c.findings, finding{Rule: rule, Detail: detail, Msg: fmt.Sprintf(format, args...)})
}

// addInfo is add with the concrete objects involved (key/value pairs).
func (c *checker) addInfo(info []string, rule, detail, format string, args ...any) {
	m := map[string]string{}
	for i := 0; i+1 < len(info); i += 2 {
		m[info[i]] = info[i+1]
	}
	c.findings = append(c.findings, finding{Rule: rule, Detail: detail, Msg: fmt.Sprintf(format, args...), Info: m})
}

// checkSnapshot evaluates every rule on one snapshot.
func checkSnapshot(s *snapshot, cx *checkCtx) ([]finding, *stats) {
	c := &checker{cx: cx, st: newStats()}
	st := c.st

	for _, b := range s.BadPayload {
		c.add("payload-unmarshal", "", "%s", b)
	}

	// ---- unique names per type, envelope name = payload name
	uniq := func(typ string, names []string, envs []string) {
		st.Resources[typ] += len(names)
		seen := map[string]bool{}
		for i, n := range names {
			if seen[n] {
				c.addInfo([]string{"name", n}, "name-duplicate", typ, "%s: resource name %q occurs more than once in one response", typ, n)
			}
			seen[n] = true
			if envs[i] != n {
				c.add("envelope-name-mismatch", typ, "%s: resource envelope is named %q but the payload is named %q", typ, envs[i], n)
			}
			// Cluster.name, ClusterLoadAssignment.cluster_name and TypedExtensionConfig.name carry a min_len rule of their own
			// (reported as pgv:...); a Listener may be unnamed (API: "If no name is provided, Envoy will allocate an internal
			// UUID"). A RouteConfiguration delivered by RDS is found by its name only, so an unnamed one can never be loaded.
			if n == "" && typ == "RDS" {
				c.add("name-empty", typ, "%s: resource without a name", typ)
			}
		}
	}
	var names, envs []string
	for _, r := range s.Clusters {
		names, envs = append(names, r.Msg.GetName()), append(envs, r.Envelope)
	}
	uniq("CDS", names, envs)
	names, envs = nil, nil
	for _, r := range s.Listeners {
		names, envs = append(names, r.Msg.GetName()), append(envs, r.Envelope)
	}
	uniq("LDS", names, envs)
	names, envs = nil, nil
	for _, r := range s.Routes {
		names, envs = append(names, r.Msg.GetName()), append(envs, r.Envelope)
	}
	uniq("RDS", names, envs)
	names, envs = nil, nil
	for _, r := range s.Endpoints {
		names, envs = append(names, r.Msg.GetClusterName()), append(envs, r.Envelope)
	}
	uniq("EDS", names, envs)
	names, envs = nil, nil
	for _, r := range s.Ext {
		names, envs = append(names, r.Msg.GetName()), append(envs, r.Envelope)
	}
	uniq("ECDS", names, envs)

	// ---- closure LDS -> RDS, CDS -> EDS, LDS -> ECDS
	have := map[string]bool{}
	for _, r := range s.Routes {
		have[r.Msg.GetName()] = true
	}
	for _, n := range s.RDSRequested {
		st.RDSFollowed++
		if !have[n] {
			c.add("rds-not-produced", cx.ProxyKind, "route configuration %q is named by a listener but the RDS generator returned no resource of that name (returned: %s)", n, strings.Join(keysOf(have), ","))
		}
	}
	have = map[string]bool{}
	for _, r := range s.Endpoints {
		have[r.Msg.GetClusterName()] = true
		if len(r.Msg.GetEndpoints()) == 0 {
			st.EDSEmpty++
		}
	}
	for _, n := range s.EDSRequested {
		st.EDSFollowed++
		if !have[n] {
			c.add("eds-not-produced", cx.ProxyKind, "EDS cluster %q has no ClusterLoadAssignment of that name in the EDS response (returned %d assignments)", n, len(s.Endpoints))
		}
	}
	have = map[string]bool{}
	for _, r := range s.Ext {
		have[r.Msg.GetName()] = true
	}
	for _, n := range s.ECDSRequested {
		st.ECDSFollowed++
		if !have[n] {
			// not asserted: the property names route configurations and endpoint sets only
			st.ECDSMissing++
		}
	}

	// ---- per resource: PGV (through Any) and the structural rules met on the way
	walk := func(typ, name string, m proto.Message) {
		where := typ + ":" + name
		w := newWalker(func(path string, m proto.Message) { c.visit(where, path, m) })
		w.root(typ, m)
		st.PGVRoots += w.roots
		st.PGVMessages += w.messages
		for k, v := range w.anyResolved {
			st.AnyResolved[k] += v
		}
		for k, v := range w.anyUnknown {
			st.AnyUnknown[k] += v
		}
		for k, v := range w.noValidator {
			st.NoValidator[k] += v
		}
		for _, b := range w.anyBroken {
			c.add("any-unmarshal", typ, "%s: typed config does not unmarshal into its declared type: %s", where, b)
		}
		sort.Slice(w.issues, func(i, j int) bool { return w.issues[i].Key+w.issues[i].Msg < w.issues[j].Key+w.issues[j].Msg })
		for _, is := range w.issues {
			c.add("pgv", is.Key, "%s violates the xDS API validation rules: %s", where, is.Msg)
		}
	}
	for _, r := range s.Clusters {
		walk("CDS", r.Msg.GetName(), r.Msg)
	}
	for _, r := range s.Endpoints {
		walk("EDS", r.Msg.GetClusterName(), r.Msg)
	}
	for _, r := range s.Listeners {
		walk("LDS", r.Msg.GetName(), r.Msg)
		c.checkListener(r.Msg)
	}
	for _, r := range s.Routes {
		walk("RDS", r.Msg.GetName(), r.Msg)
	}
	for _, r := range s.Ext {
		walk("ECDS", r.Msg.GetName(), r.Msg)
	}
	c.checkListenerAddresses(s)

	// ---- closure routes / tcp_proxy -> CDS
	inCDS := map[string]bool{}
	for _, r := range s.Clusters {
		inCDS[r.Msg.GetName()] = true
	}
	for _, ref := range c.refs {
		st.ClusterRefs++
		st.ClusterRefsBy[ref.Source]++
		switch {
		case inCDS[ref.Name]:
			st.RefResolved++
		case bootstrapClusters[ref.Name]:
			st.RefBuiltin++
		case cx.ClusterRemoved != nil && cx.ClusterRemoved(ref.Name):
			st.RefExempt++
		case strings.HasPrefix(ref.Name, userNamePrefix):
			st.RefExempt++
		case ref.Validated:
			// the only dangling reference Envoy refuses at load time ("route: unknown cluster '...'")
			c.add("cluster-ref-unknown-in-validated-route-config", ref.Source, "%s references cluster %q which CDS does not contain, in a route configuration whose cluster references Envoy validates when loading it (validate_clusters)", ref.Where, ref.Name)
		default:
			// Any other dangling reference is loadable (Envoy answers 503 / resets the connection at run time) and the
			// property does not speak of it: classified for the evidence, never asserted. "Known" = the proxy was given
			// that service port (and subset), so the reference would be expected to resolve.
			dir, port, subset, hostname, ok := parseClusterName(ref.Name)
			if !ok {
				// not a service cluster name (istio's placeholder "UnknownService" for a destination without host,
				// names from user patches): cannot be something the proxy was given; dangling like an unknown host
				st.RefOtherName++
				st.OtherNames[ref.Name] = true
				continue
			}
			if dir == "outbound" && cx.MustExist != nil && cx.MustExist(hostname, port, subset) {
				st.RefDanglingKnown++
				continue
			}
			if dir == "inbound" {
				st.RefDanglingKnown++
				continue
			}
			st.RefUnknownSvc++
		}
	}
	return c.findings, st
}

func keysOf(m map[string]bool) []string {
	out := make([]string, 0, len(m))
	for k := range m {
		out = append(out, k)
	}
	sort.Strings(out)
	return out
}

// parseClusterName splits direction|port|subset|host (documented istio cluster naming).
func parseClusterName(n string) (dir string, port int, subset, hostname string, ok bool) {
	if strings.HasPrefix(n, "outbound_.") {
		// SNI-DNAT form used by AUTO_PASSTHROUGH gateways: outbound_.<port>_.<subset>_.<host>
		q := strings.SplitN(n, "_.", 4)
		if len(q) != 4 {
			return "", 0, "", "", false
		}
		if _, err := fmt.Sscanf(q[1], "%d", &port); err != nil {
			return "", 0, "", "", false
		}
		return "outbound", port, q[2], q[3], true
	}
	p := strings.Split(n, "|")
	if len(p) != 4 || (p[0] != "outbound" && p[0] != "inbound") {
		return "", 0, "", "", false
	}
	if _, err := fmt.Sscanf(p[1], "%d", &port); err != nil {
		return "", 0, "", "", false
	}
	return p[0], port, p[2], p[3], true
}

// visit is called for every message of every resource (looking through Any).
func (c *checker) visit(where, path string, m proto.Message) {
	switch v := m.(type) {
	case *route.RouteConfiguration:
		c.checkRouteConfiguration(where, path, v)
		inline := strings.HasPrefix(where, "LDS:")
		if (v.GetValidateClusters() == nil && inline) || v.GetValidateClusters().GetValue() {
			c.validatedRC = append(c.validatedRC, where+" "+path)
		}
	case *hcm.HttpConnectionManager:
		if v.GetRouteConfig() != nil {
			c.st.InlineRoutes++
		}
	case *route.RouteAction:
		loc := where + " " + path
		switch cs := v.GetClusterSpecifier().(type) {
		case *route.RouteAction_Cluster:
			c.refs = append(c.refs, clusterRef{Name: cs.Cluster, Source: "route", Where: loc, Validated: c.inValidatedRC(loc)})
		case *route.RouteAction_WeightedClusters:
			c.checkWeighted(loc, cs.WeightedClusters)
			for _, wc := range cs.WeightedClusters.GetClusters() {
				if wc.GetName() != "" {
					c.refs = append(c.refs, clusterRef{Name: wc.GetName(), Source: "weighted", Where: loc, Validated: c.inValidatedRC(loc)})
				}
			}
		}
		for _, mp := range v.GetRequestMirrorPolicies() {
			if mp.GetCluster() != "" {
				c.refs = append(c.refs, clusterRef{Name: mp.GetCluster(), Source: "mirror", Where: loc, Validated: c.inValidatedRC(loc)})
			}
		}
	case *tcp.TcpProxy:
		loc := where + " " + path
		switch cs := v.GetClusterSpecifier().(type) {
		case *tcp.TcpProxy_Cluster:
			c.refs = append(c.refs, clusterRef{Name: cs.Cluster, Source: "tcp", Where: loc})
		case *tcp.TcpProxy_WeightedClusters:
			c.st.Weighted++
			var total uint64
			for _, wc := range cs.WeightedClusters.GetClusters() {
				total += uint64(wc.GetWeight())
				if wc.GetWeight() == 0 {
					c.add("weight-out-of-range", "tcp-weighted-cluster-zero", "%s: tcp_proxy weighted cluster %q has weight 0 (API requires >= 1)", loc, wc.GetName())
				}
				c.refs = append(c.refs, clusterRef{Name: wc.GetName(), Source: "tcp-weighted", Where: loc})
			}
			if total == 0 {
				c.add("weighted-total-zero", "tcp", "%s: tcp_proxy weighted clusters sum to 0", loc)
			}
			if total > 4294967295 {
				c.add("weighted-total-overflow", "tcp", "%s: tcp_proxy weighted clusters sum to %d > 4294967295", loc, total)
			}
		}
	case *typev3.FractionalPercent:
		c.st.Fractions++
		den := uint32(100)
		switch v.GetDenominator() {
		case typev3.FractionalPercent_TEN_THOUSAND:
			den = 10000
		case typev3.FractionalPercent_MILLION:
			den = 1000000
		}
		if v.GetNumerator() > den {
			// Unspecified, not asserted: envoy/type/v3/percent.proto puts no bound on the numerator and Envoy loads
			// such a value (it evaluates "random % denominator < numerator", i.e. always true). Counted only.
			c.st.FractionsAboveOne++
		}
	case *typev3.Percent:
		// envoy.type.v3.Percent carries its own rule (value in [0,100]) which ValidateAll() enforces (key pgv:Percent.Value)
		c.st.Fractions++
	}
}

func lastField(path string) string {
	if i := strings.LastIndex(path, "."); i >= 0 {
		path = path[i+1:]
	}
	return indexRe.ReplaceAllString(path, "")
}

func (c *checker) checkWeighted(loc string, wc *route.WeightedCluster) {
	c.st.Weighted++
	var total uint64
	for _, cl := range wc.GetClusters() {
		total += uint64(cl.GetWeight().GetValue())
		if cl.GetName() == "" && cl.GetClusterHeader() == "" {
			c.add("weighted-cluster-unnamed", "", "%s: weighted cluster entry without name", loc)
		}
	}
	if len(wc.GetClusters()) > 0 && total == 0 {
		c.add("weighted-total-zero", "route", "%s: route weighted clusters sum to 0 (Envoy: sum of weights must be greater than 0)", loc)
	}
	if total > 4294967295 {
		c.add("weighted-total-overflow", "route", "%s: route weighted clusters sum to %d, above the uint32 maximum Envoy accepts", loc, total)
	}
	if wc.GetTotalWeight() != nil && uint64(wc.GetTotalWeight().GetValue()) != total { //nolint:staticcheck
		c.add("weighted-total-mismatch", "route", "%s: total_weight %d differs from the sum of weights %d", loc, wc.GetTotalWeight().GetValue(), total) //nolint:staticcheck
	}
}

// checkRouteConfiguration: virtual-host names and domains are unique (domains case-insensitively, as
// Envoy lower-cases them before inserting into its lookup maps).
func (c *checker) checkRouteConfiguration(where, path string, rc *route.RouteConfiguration) {
	names := map[string]bool{}
	domains := map[string]string{}
	for _, vh := range rc.GetVirtualHosts() {
		c.st.VHosts++
		if names[vh.GetName()] {
			// Unspecified, not asserted: the API says of VirtualHost.name only "used when emitting certain statistics but
			// is not relevant for routing"; uniqueness is demanded for VHDS only, which istio does not use. Counted.
			c.st.DupVHostNames++
		}
		names[vh.GetName()] = true
		for _, d := range vh.GetDomains() {
			c.st.Domains++
			ld := strings.ToLower(d)
			if prev, ok := domains[ld]; ok {
				detail := "exact"
				if ld == "*" {
					detail = "catch-all"
				} else if strings.HasPrefix(ld, "*") || strings.HasSuffix(ld, "*") {
					detail = "wildcard"
				}
				if prev == vh.GetName() {
					detail += ":same-vhost"
				} else {
					a, b := vhostClass(prev), vhostClass(vh.GetName())
					if a > b {
						a, b = b, a
					}
					detail += ":" + a + "+" + b
				}
				c.addInfo([]string{"rc", rc.GetName(), "domain", ld, "vhostA", prev, "vhostB", vh.GetName()},
					"vhost-domain-duplicate", detail, "%s %s: route configuration %q: domain %q appears in virtual host %q and again in %q (Envoy: only unique values for domains are permitted)",
					where, path, rc.GetName(), d, prev, vh.GetName())
				continue
			}
			domains[ld] = vh.GetName()
		}
	}
}

// vhostClass generalises a virtual-host name (istio names them <host>:<port>, allow_any, block_all, or after the
// gateway host) so that the violation key names the kind of collision, not the literals.
func vhostClass(name string) string {
	switch {
	case name == "allow_any" || name == "block_all":
		return "builtin-catch-all"
	case strings.HasPrefix(name, userNamePrefix):
		return "user-added"
	case strings.HasPrefix(name, "inbound|"):
		return "inbound"
	case strings.HasPrefix(name, "*:") || name == "*":
		return "star-host"
	case strings.HasPrefix(name, "*"):
		return "wildcard-host"
	}
	return "host"
}

// listenerClass generalises a listener for violation keys.
func listenerClass(proxyKind string, l *listener.Listener) string {
	switch {
	case l.GetName() == "virtualInbound":
		return "virtualInbound"
	case l.GetName() == "virtualOutbound":
		return "virtualOutbound"
	case strings.HasPrefix(l.GetName(), userNamePrefix):
		return "user-added"
	case proxyKind == "router":
		return "gateway"
	case l.GetTrafficDirection() == corev3.TrafficDirection_INBOUND:
		return "inbound"
	}
	return "outbound"
}

// ---------------------------------------------------------------------------------------
// listeners

func normCIDR(cr *corev3.CidrRange) string {
	ip := net.ParseIP(cr.GetAddressPrefix())
	if ip == nil {
		return cr.GetAddressPrefix() + "/" + fmt.Sprint(cr.GetPrefixLen().GetValue())
	}
	bits := 128
	if v4 := ip.To4(); v4 != nil {
		ip, bits = v4, 32
	}
	l := int(cr.GetPrefixLen().GetValue())
	if l > bits {
		l = bits
	}
	return ip.Mask(net.CIDRMask(l, bits)).String() + "/" + fmt.Sprint(l)
}

// fcmTuples expands a filter chain match the way Envoy's FilterChainManagerImpl inserts it into its
// lookup tries: an unset list is one entry "", a set list one entry per element.
func fcmTuples(m *listener.FilterChainMatch) []string {
	orEmpty := func(in []string) []string {
		if len(in) == 0 {
			return []string{""}
		}
		return in
	}
	var dst, direct, src, sni, ports []string
	for _, r := range m.GetPrefixRanges() {
		dst = append(dst, normCIDR(r))
	}
	for _, r := range m.GetDirectSourcePrefixRanges() {
		direct = append(direct, normCIDR(r))
	}
	for _, r := range m.GetSourcePrefixRanges() {
		src = append(src, normCIDR(r))
	}
	for _, n := range m.GetServerNames() {
		n = strings.ToLower(n)
		if strings.HasPrefix(n, "*.") {
			n = n[1:]
		}
		sni = append(sni, n)
	}
	for _, p := range m.GetSourcePorts() {
		ports = append(ports, fmt.Sprint(p))
	}
	var out []string
	for _, a := range orEmpty(dst) {
		for _, b := range orEmpty(sni) {
			for _, cc := range orEmpty(m.GetApplicationProtocols()) {
				for _, d := range orEmpty(direct) {
					for _, e := range orEmpty(src) {
						for _, f := range orEmpty(ports) {
							out = append(out, fmt.Sprintf("port=%d|dst=%s|sni=%s|tp=%s|alpn=%s|direct=%s|srctype=%d|src=%s|sport=%s",
								m.GetDestinationPort().GetValue(), a, b, m.GetTransportProtocol(), cc, d, m.GetSourceType(), e, f))
						}
					}
				}
			}
		}
	}
	return out
}

func (c *checker) checkListener(l *listener.Listener) {
	// Filter chain names. Envoy requires them to be unique only when chains are selected by name through
	// filter_chain_matcher (API: "filter_chain_matcher requires that filter chains are uniquely named within a
	// listener"); with filter_chain_match istio reuses fixed names on purpose (virtualInbound-catchall-http for
	// the TLS and the plaintext variant), which Envoy loads. Duplicates are therefore a violation only with a matcher.
	names := map[string]bool{}
	chains := l.GetFilterChains()
	byName := l.GetFilterChainMatcher() != nil
	for _, fc := range chains {
		c.st.FilterChains++
		if fc.GetName() == "" {
			if byName {
				c.add("fc-name-empty-with-matcher", "", "listener %q selects chains by name but has an unnamed filter chain", l.GetName())
			}
			continue
		}
		if names[fc.GetName()] {
			c.st.DupChainNames++
			if byName {
				c.add("fc-name-duplicate", "", "listener %q selects chains by name (filter_chain_matcher) and has two filter chains named %q", l.GetName(), fc.GetName())
			}
		}
		names[fc.GetName()] = true
	}
	if l.GetDefaultFilterChain() != nil {
		c.st.FilterChains++
	}
	if byName {
		c.st.Shapes["listener:filter-chain-matcher"] = true
		return
	}
	// identical match / overlapping match
	type owner struct {
		idx  int
		name string
	}
	seen := map[string]owner{}
	reported := map[[2]int]bool{}
	empties := 0
	for i, fc := range chains {
		m := fc.GetFilterChainMatch()
		if m == nil {
			m = &listener.FilterChainMatch{}
		}
		if proto.Equal(m, &listener.FilterChainMatch{}) {
			empties++
		}
		for _, n := range m.GetServerNames() {
			if strings.Contains(n, "*") && !strings.HasPrefix(n, "*.") {
				c.addInfo([]string{"listener", l.GetName(), "name", n}, "fc-server-name-partial-wildcard", listenerClass(c.cx.ProxyKind, l), "listener %q filter chain %d (%q): server name %q (Envoy: partial wildcards are not supported in server_names)", l.GetName(), i, fc.GetName(), n)
			} else if strings.Contains(strings.TrimPrefix(n, "*."), "*") {
				c.addInfo([]string{"listener", l.GetName(), "name", n}, "fc-server-name-partial-wildcard", listenerClass(c.cx.ProxyKind, l), "listener %q filter chain %d (%q): server name %q (Envoy: partial wildcards are not supported in server_names)", l.GetName(), i, fc.GetName(), n)
			}
		}
		tuples := fcmTuples(m)
		c.st.FCMTuples += len(tuples)
		for _, t := range tuples {
			if o, ok := seen[t]; ok && o.idx != i {
				if reported[[2]int{o.idx, i}] {
					continue
				}
				reported[[2]int{o.idx, i}] = true
				om := chains[o.idx].GetFilterChainMatch()
				if om == nil {
					om = &listener.FilterChainMatch{}
				}
				if proto.Equal(om, m) {
					detail := "non-empty-match"
					if proto.Equal(m, &listener.FilterChainMatch{}) {
						detail = "two-match-all-chains"
					}
					c.addInfo(fcmInfo(l, t, om, m), "fc-match-duplicate", listenerClass(c.cx.ProxyKind, l)+":"+detail, "listener %q: filter chains %d (%q) and %d (%q) have the identical filter_chain_match {%s} (Envoy: multiple filter chains with the same matching rules are defined)",
						l.GetName(), o.idx, o.name, i, fc.GetName(), compact(m))
				} else {
					c.addInfo(fcmInfo(l, t, om, m), "fc-match-overlap", listenerClass(c.cx.ProxyKind, l)+":"+overlapKind(om, m, t), "listener %q: filter chains %d (%q) {%s} and %d (%q) {%s} both match %s (Envoy: multiple filter chains with overlapping matching rules are defined)",
						l.GetName(), o.idx, o.name, compact(om), i, fc.GetName(), compact(m), t)
				}
				continue
			}
			seen[t] = owner{i, fc.GetName()}
		}
	}
	if empties > 1 {
		c.st.Shapes["listener:several-match-all-chains"] = true
	}
}

// fcmInfo names the listener, the colliding lookup tuple and its parts for the recognisers.
func fcmInfo(l *listener.Listener, tuple string, a, b *listener.FilterChainMatch) []string {
	out := []string{"listener", l.GetName(), "tuple", tuple, "port", fmt.Sprint(l.GetAddress().GetSocketAddress().GetPortValue()),
		"bind", l.GetAddress().GetSocketAddress().GetAddress()}
	for _, f := range strings.Split(tuple, "|") {
		if k, v, ok := strings.Cut(f, "="); ok && (k == "sni" || k == "dst" || k == "alpn" || k == "tp") {
			out = append(out, k, v)
		}
	}
	return out
}

// overlapKind says which dimension two different matches share: the same SNI literally, the same SNI up to case
// (Envoy lower-cases server names), or no SNI at all.
func overlapKind(a, b *listener.FilterChainMatch, tuple string) string {
	sni := ""
	for _, f := range strings.Split(tuple, "|") {
		if strings.HasPrefix(f, "sni=") {
			sni = strings.TrimPrefix(f, "sni=")
		}
	}
	if sni == "" {
		return "no-sni"
	}
	norm := func(n string) string {
		n = strings.ToLower(n)
		if strings.HasPrefix(n, "*.") {
			n = n[1:]
		}
		return n
	}
	lit := func(m *listener.FilterChainMatch) string {
		for _, n := range m.GetServerNames() {
			if norm(n) == sni {
				return n
			}
		}
		return ""
	}
	if lit(a) != lit(b) {
		return "sni-differs-only-in-case"
	}
	return "same-sni"
}

func compact(m proto.Message) string {
	s := fmt.Sprint(m)
	if len(s) > 300 {
		s = s[:300] + "…"
	}
	return s
}

func addrString(a *corev3.Address) string {
	switch v := a.GetAddress().(type) {
	case *corev3.Address_SocketAddress:
		ip := v.SocketAddress.GetAddress()
		if p := net.ParseIP(ip); p != nil {
			ip = p.String()
		}
		return fmt.Sprintf("%s/%s:%d", v.SocketAddress.GetProtocol(), ip, v.SocketAddress.GetPortValue())
	case *corev3.Address_Pipe:
		return "pipe:" + v.Pipe.GetPath()
	case *corev3.Address_EnvoyInternalAddress:
		return "internal:" + v.EnvoyInternalAddress.GetServerListenerName()
	}
	return ""
}

// checkListenerAddresses: Envoy refuses a listener whose address (or additional address) equals that of another
// listener ("error adding listener: '<name>' has duplicate address '<addr>' as existing listener"). This holds for
// listeners that do not bind as well: Envoy's ListenerImpl::hasDuplicatedAddress compares the addresses of every
// pair of listeners of the same socket type and exempts only listeners binding to port 0 ("For listeners that do
// not bind or listeners that do not bind to port 0 we must check to make sure we are not duplicating the address.
// This avoids ambiguity about which non-binding listener is used ..."); originally (Envoy <= 1.21): "for listeners
// that do not bind we must check to make sure we are not duplicating ... Only the first one will be used when
// searched for by address. Thus we error and do not allow this." istio knows this: model.conflictWithReservedListener
// drops outbound listeners on the virtual listeners' ports whatever their bind_to_port, and its own test validator
// (pilot/test/xdstest.ValidateListeners) flags every duplicate address. TCP and UDP listeners do not conflict.
func (c *checker) checkListenerAddresses(s *snapshot) {
	seen := map[string]string{}
	class := map[string]string{}
	for _, r := range s.Listeners {
		l := r.Msg
		class[l.GetName()] = listenerClass(c.cx.ProxyKind, l)
		addrs := []string{addrString(l.GetAddress())}
		for _, aa := range l.GetAdditionalAddresses() {
			addrs = append(addrs, addrString(aa.GetAddress()))
		}
		for _, a := range addrs {
			if a == "" {
				continue
			}
			if prev, ok := seen[a]; ok && prev != l.GetName() {
				ca, cb := class[prev], class[l.GetName()]
				if ca > cb {
					ca, cb = cb, ca
				}
				c.addInfo([]string{"a", prev, "b", l.GetName(), "addr", a, "classA", class[prev], "classB", class[l.GetName()]},
					"listener-address-duplicate", ca+"+"+cb, "listeners %q and %q both listen on %s (Envoy: duplicate address as existing listener)", prev, l.GetName(), a)
				continue
			}
			seen[a] = l.GetName()
		}
	}
}

// listenerReferences extracts the RDS route names and ECDS extension-config names a listener refers to.
func listenerReferences(l *listener.Listener) (rds, ecds []string) {
	w := newWalker(func(_ string, m proto.Message) {
		switch v := m.(type) {
		case *hcm.HttpConnectionManager:
			if r := v.GetRds(); r != nil {
				rds = append(rds, r.GetRouteConfigName())
			}
			for _, f := range v.GetHttpFilters() {
				if f.GetConfigDiscovery() != nil {
					ecds = append(ecds, f.GetName())
				}
			}
		case *listener.Filter:
			if v.GetConfigDiscovery() != nil {
				ecds = append(ecds, v.GetName())
			}
		}
	})
	w.noValidate = true
	w.walk("", l.ProtoReflect(), 0)
	return rds, ecds
}

var _ = cluster.Cluster{}
