package main

// Minimal reproductions of what the check found on the unchanged tree (development / review aid):
//
//	WELLFORMED_REPRO=list /verif/bin/wellformed
//	WELLFORMED_REPRO=<name>|all /verif/bin/wellformed     (add WELLFORMED_DUMP=LDS:0.0.0.0_443 to print a resource)
//
// Each reproduction is a hand-written world of admission-valid objects (asserted with the real
// validators) pushed through the same generators and judged by the same oracle as the check.

import (
	"fmt"
	"os"
	"sort"
	"strings"

	"istio.io/istio/pilot/pkg/config/kube/crd"
	"istio.io/istio/pkg/config/mesh"

	"verifharness/internal/quiet"
)

type repro struct {
	Name    string
	Expect  string // rule (prefix) expected to fire
	Proxies []*proxyDef
	YAML    string
}

var sidecarNS1 = &proxyDef{Kind: "sidecar", NS: "ns1", Labels: map[string]string{"app": "a"}, IPs: []string{"10.9.1.1"}, IstioVersion: "1.28.0"}
var ingress = &proxyDef{Kind: "router", NS: "istio-system", Labels: map[string]string{"istio": "ingressgateway"}, IPs: []string{"10.9.3.1"}, IstioVersion: "1.28.0"}

var repros = []repro{
	{Name: "wildcard-host-in-proxy-namespace", Expect: "vhost-domain-duplicate:catch-all", Proxies: []*proxyDef{sidecarNS1}, YAML: `
apiVersion: networking.istio.io/v1
kind: ServiceEntry
metadata: {name: wild, namespace: ns2}
spec:
  hosts: ["*.ns1.svc.cluster.local"]
  ports: [{number: 80, name: http, protocol: HTTP}]
  resolution: NONE
`},
	{Name: "service-on-port-15006", Expect: "listener-address-duplicate:outbound+virtualInbound", Proxies: []*proxyDef{sidecarNS1}, YAML: `
apiVersion: networking.istio.io/v1
kind: ServiceEntry
metadata: {name: p15006, namespace: ns1}
spec:
  hosts: [tcp.example.com]
  ports: [{number: 15006, name: tcp, protocol: TCP}]
  resolution: DNS
`},
	{Name: "service-on-port-15001", Expect: "listener-address-duplicate:outbound+virtualOutbound", Proxies: []*proxyDef{sidecarNS1}, YAML: `
apiVersion: networking.istio.io/v1
kind: ServiceEntry
metadata: {name: p15001, namespace: ns1}
spec:
  hosts: [tcp.example.com]
  ports: [{number: 15001, name: tcp, protocol: TCP}]
  resolution: DNS
`},
	{Name: "auto-passthrough-wildcard-service", Expect: "fc-server-name-partial-wildcard", Proxies: []*proxyDef{ingress}, YAML: `
apiVersion: networking.istio.io/v1
kind: ServiceEntry
metadata: {name: wild, namespace: ns1}
spec:
  hosts: ["*.internal.example.com"]
  location: MESH_INTERNAL
  ports: [{number: 443, name: tls, protocol: TLS}]
  resolution: NONE
---
apiVersion: networking.istio.io/v1
kind: Gateway
metadata: {name: eastwest, namespace: istio-system}
spec:
  selector: {istio: ingressgateway}
  servers:
  - port: {number: 15443, name: tls, protocol: TLS}
    hosts: ["*"]
    tls: {mode: AUTO_PASSTHROUGH}
`},
	{Name: "gateway-explicit-wildcard-bind", Expect: "fc-match-duplicate:gateway:two-match-all-chains", Proxies: []*proxyDef{ingress}, YAML: `
apiVersion: networking.istio.io/v1
kind: Gateway
metadata: {name: gw, namespace: istio-system}
spec:
  selector: {istio: ingressgateway}
  servers:
  - port: {number: 8080, name: http-a, protocol: HTTP}
    hosts: ["a.example.org"]
  - port: {number: 8080, name: http-b, protocol: HTTP}
    bind: 0.0.0.0
    hosts: ["b.example.org"]
`},
	{Name: "gateway-same-tls-host-dot-namespace", Expect: "fc-match-duplicate:gateway:non-empty-match", Proxies: []*proxyDef{ingress}, YAML: `
apiVersion: networking.istio.io/v1
kind: Gateway
metadata: {name: gw-a, namespace: ns1}
spec:
  selector: {istio: ingressgateway}
  servers:
  - port: {number: 443, name: https, protocol: HTTPS}
    hosts: ["./api.example.org"]
    tls: {mode: SIMPLE, credentialName: cred-a}
---
apiVersion: networking.istio.io/v1
kind: Gateway
metadata: {name: gw-b, namespace: ns2}
spec:
  selector: {istio: ingressgateway}
  servers:
  - port: {number: 443, name: https, protocol: HTTPS}
    hosts: ["./api.example.org"]
    tls: {mode: SIMPLE, credentialName: cred-b}
`},
	{Name: "gateway-same-tls-host-namespace-prefix", Expect: "fc-match-overlap:gateway:same-sni", Proxies: []*proxyDef{ingress}, YAML: `
apiVersion: networking.istio.io/v1
kind: Gateway
metadata: {name: gw, namespace: istio-system}
spec:
  selector: {istio: ingressgateway}
  servers:
  - port: {number: 443, name: https-a, protocol: HTTPS}
    hosts: ["ns2/a.example.com", "x.example.com"]
    tls: {mode: SIMPLE, credentialName: cred-a}
  - port: {number: 443, name: https-b, protocol: HTTPS}
    hosts: ["a.example.com", "y.example.com"]
    tls: {mode: SIMPLE, credentialName: cred-b}
`},
	{Name: "gateway-tls-hosts-differ-in-case", Expect: "fc-match-overlap:gateway:sni-differs-only-in-case", Proxies: []*proxyDef{ingress}, YAML: `
apiVersion: networking.istio.io/v1
kind: Gateway
metadata: {name: gw, namespace: istio-system}
spec:
  selector: {istio: ingressgateway}
  servers:
  - port: {number: 443, name: https-a, protocol: HTTPS}
    hosts: ["SHOP.example.org", "x.example.org"]
    tls: {mode: SIMPLE, credentialName: cred-a}
  - port: {number: 443, name: https-b, protocol: HTTPS}
    hosts: ["shop.example.org"]
    tls: {mode: SIMPLE, credentialName: cred-b}
`},
	{Name: "virtualservice-tls-routes-share-sni", Expect: "fc-match-overlap:outbound:same-sni", Proxies: []*proxyDef{sidecarNS1}, YAML: `
apiVersion: networking.istio.io/v1
kind: ServiceEntry
metadata: {name: tls, namespace: ns1}
spec:
  hosts: ["a.example.com", "b.example.com"]
  ports: [{number: 443, name: tls, protocol: TLS}]
  resolution: DNS
---
apiVersion: networking.istio.io/v1
kind: VirtualService
metadata: {name: tls, namespace: ns1}
spec:
  hosts: ["a.example.com", "b.example.com"]
  tls:
  - match: [{port: 443, sniHosts: ["a.example.com", "b.example.com"]}]
    route: [{destination: {host: a.example.com, port: {number: 443}}}]
  - match: [{port: 443, sniHosts: ["b.example.com"]}]
    route: [{destination: {host: b.example.com, port: {number: 443}}}]
`},
	{Name: "virtualservice-tcp-route-subnet-equals-service-cidr", Expect: "fc-match-duplicate:outbound:non-empty-match", Proxies: []*proxyDef{sidecarNS1}, YAML: `
apiVersion: networking.istio.io/v1
kind: ServiceEntry
metadata: {name: cidr, namespace: ns1}
spec:
  hosts: [db.example.com]
  addresses: ["10.20.0.0/16"]
  ports: [{number: 9090, name: tcp, protocol: TCP}]
  resolution: NONE
---
apiVersion: networking.istio.io/v1
kind: VirtualService
metadata: {name: tcp, namespace: ns1}
spec:
  hosts: [db.example.com]
  tcp:
  - match: [{destinationSubnets: ["10.20.0.0/16"]}]
    route: [{destination: {host: db.example.com, port: {number: 9090}}}]
  - route: [{destination: {host: db.example.com, port: {number: 9090}}}]
`},
	{Name: "destinationrule-ring-size-above-envoy-maximum", Expect: "pgv:Cluster_RingHashLbConfig.MinimumRingSize", Proxies: []*proxyDef{sidecarNS1}, YAML: `
apiVersion: networking.istio.io/v1
kind: ServiceEntry
metadata: {name: svc, namespace: ns1}
spec:
  hosts: [a.example.com]
  ports: [{number: 80, name: http, protocol: HTTP}]
  resolution: DNS
---
apiVersion: networking.istio.io/v1
kind: DestinationRule
metadata: {name: ring, namespace: ns1}
spec:
  host: a.example.com
  trafficPolicy:
    loadBalancer:
      consistentHash: {useSourceIp: true, minimumRingSize: 9000000000}
`},
	{Name: "virtualservice-header-name-with-newline", Expect: "pgv:HeaderValue.Key", Proxies: []*proxyDef{sidecarNS1}, YAML: `
apiVersion: networking.istio.io/v1
kind: ServiceEntry
metadata: {name: svc, namespace: ns1}
spec:
  hosts: [a.example.com]
  ports: [{number: 80, name: http, protocol: HTTP}]
  resolution: DNS
---
apiVersion: networking.istio.io/v1
kind: VirtualService
metadata: {name: hdr, namespace: ns1}
spec:
  hosts: [a.example.com]
  http:
  - route: [{destination: {host: a.example.com}}]
    headers: {request: {set: {"x\nnewline": "v"}}}
`},
	{Name: "gateway-star-star-with-dot-host", Expect: "panic:istio.io/istio/pilot/pkg/model.sanitizeServerHostNamespace", Proxies: []*proxyDef{ingress}, YAML: `
apiVersion: networking.istio.io/v1
kind: Gateway
metadata: {name: gw, namespace: istio-system}
spec:
  selector: {istio: ingressgateway}
  servers:
  - port: {number: 80, name: http, protocol: HTTP}
    hosts: ["*/*", "./a.example.com"]
`},
}

// runRepro handles WELLFORMED_REPRO; it returns true when the process is done.
func runRepro() bool {
	sel := os.Getenv("WELLFORMED_REPRO")
	if sel == "" {
		return false
	}
	quiet.Logs("none")
	if sel == "list" {
		for _, r := range repros {
			fmt.Printf("%-55s expects %s\n", r.Name, r.Expect)
		}
		return true
	}
	bad := 0
	for _, r := range repros {
		if sel != "all" && sel != r.Name {
			continue
		}
		cfgs, _, err := crd.ParseInputs(r.YAML)
		if err != nil {
			fmt.Printf("%s: YAML does not parse: %v\n", r.Name, err)
			bad++
			continue
		}
		w := &world{Mesh: mesh.DefaultMeshConfig(), Proxies: r.Proxies, Rejected: map[string]int{}}
		w.Mesh.RootNamespace = rootNS
		valid := true
		for _, c := range cfgs {
			c.CreationTimestamp = baseTime
			c.Domain = "cluster.local"
			if res := validateConfig(c); res.Err != nil {
				fmt.Printf("%s: %s %s/%s is NOT admission-valid: %v\n", r.Name, c.GroupVersionKind.Kind, c.Namespace, c.Name, res.Err)
				valid = false
			}
			w.Configs = append(w.Configs, c)
		}
		o := runWorld(w)
		keys := map[string]string{}
		if o.SetupPanic != nil {
			keys["panic:"+o.SetupPanic.Panic] = o.SetupPanic.PanicMsg
		}
		for _, po := range o.Proxies {
			if po.Panic != "" {
				keys["panic:"+po.Panic] = po.PanicMsg
			}
			for _, f := range po.Findings {
				if _, ok := keys[f.key()]; !ok {
					keys[f.key()] = f.Msg
				}
			}
		}
		hit := false
		var ks []string
		for k := range keys {
			ks = append(ks, k)
			if strings.HasPrefix(k, r.Expect) {
				hit = true
			}
		}
		sort.Strings(ks)
		status := "REPRODUCED"
		if !hit || !valid {
			status = "NOT-REPRODUCED"
			bad++
		}
		fmt.Printf("== %s: %s (objects admission-valid: %v; expected %s)\n", r.Name, status, valid, r.Expect)
		for _, k := range ks {
			fmt.Printf("   %s\n      %s\n", k, keys[k])
		}
	}
	if bad > 0 {
		os.Exit(1)
	}
	return true
}
