package main

// Minimal reproductions of what the check found on the unchanged tree (development / review aid):
//
//	/verif/bin/wellformed repro list
//	/verif/bin/wellformed repro <name>|all          (add WELLFORMED_DUMP=LDS:0.0.0.0_443 to print a resource)
//	/verif/bin/wellformed repro case:V-123          regenerate case V-123 of VERIF_SEED and list its finding keys
//	/verif/bin/wellformed repro case:I-45 <key-substring> [save:<name>]
//	                                                shrink the case to a minimal world that still shows the key
//
// A reproduction is a small world (hand-written YAML here, or shrunk from a generated case by minimise.go and
// stored in repros.json) pushed through the same generators and judged by the same oracle as the check. For
// every object the verdict of the real admission validator is printed: stratum V reproductions consist of
// admission-valid objects only; a stratum I reproduction has exactly one rejected object.

import (
	_ "embed"
	"encoding/json"
	"fmt"
	"os"
	"os/exec"
	"path/filepath"
	"sort"
	"strconv"
	"strings"
	"time"

	meshconfig "istio.io/api/mesh/v1alpha1"
	"istio.io/istio/pilot/pkg/config/kube/crd"
	"istio.io/istio/pkg/config"
	"istio.io/istio/pkg/config/mesh"
	"istio.io/istio/pkg/config/schema/collections"

	"sigs.k8s.io/yaml"

	"verifharness/internal/quiet"
	"verifharness/internal/vh"
)

//go:embed repros.json
var storedReprosJSON []byte

type repro struct {
	Name    string
	Expect  string // key (substring) expected to fire
	Proxies []*proxyDef
	YAML    string
	// Repeat > 1: push the world that many times and take the union of the findings (for behaviour that depends on
	// map iteration order inside istio)
	Repeat int `json:",omitempty"`
	// Crash: the finding is a crash of the whole process (panic on a goroutine of the registry); the world is pushed in
	// a child process and the expected function is looked for in its panic text.
	Crash bool `json:",omitempty"`
	// stored reproductions (repros.json)
	Stratum  string         `json:",omitempty"`
	Objects  []storedObject `json:",omitempty"`
	FilterGW bool           `json:",omitempty"`
	Mesh     map[string]any `json:",omitempty"`
}

type storedObject struct {
	Kind      string          `json:"kind"`
	Namespace string          `json:"namespace"`
	Name      string          `json:"name"`
	Created   string          `json:"created"`
	Spec      json.RawMessage `json:"spec"`
}

var sidecarNS1 = &proxyDef{Kind: "sidecar", NS: "ns1", Labels: map[string]string{"app": "a"}, IPs: []string{"10.9.1.1"}, IstioVersion: "1.28.0"}
var ingress = &proxyDef{Kind: "router", NS: "istio-system", Labels: map[string]string{"istio": "ingressgateway"}, IPs: []string{"10.9.3.1"}, IstioVersion: "1.28.0"}

var repros = []repro{
	{Name: "wildcard-host-in-proxy-namespace", Expect: "vhost-domain-duplicate:cause=wildcard-host-of-the-proxy-namespace-domain-shortened-to-catch-all", Proxies: []*proxyDef{sidecarNS1}, YAML: `
apiVersion: networking.istio.io/v1
kind: ServiceEntry
metadata: {name: wild, namespace: ns2}
spec:
  hosts: ["*.ns1.svc.cluster.local"]
  ports: [{number: 80, name: http, protocol: HTTP}]
  resolution: NONE
`},
	{Name: "service-on-port-15006", Expect: "listener-address-duplicate:cause=non-http-service-port-equals-a-virtual-listener-port", Proxies: []*proxyDef{sidecarNS1}, YAML: `
apiVersion: networking.istio.io/v1
kind: ServiceEntry
metadata: {name: p15006, namespace: ns1}
spec:
  hosts: [tcp.example.com]
  ports: [{number: 15006, name: tcp, protocol: TCP}]
  resolution: DNS
`},
	{Name: "service-on-port-15001", Expect: "listener-address-duplicate:cause=non-http-service-port-equals-a-virtual-listener-port", Proxies: []*proxyDef{sidecarNS1}, YAML: `
apiVersion: networking.istio.io/v1
kind: ServiceEntry
metadata: {name: p15001, namespace: ns1}
spec:
  hosts: [tcp.example.com]
  ports: [{number: 15001, name: tcp, protocol: TCP}]
  resolution: DNS
`},
	{Name: "auto-passthrough-wildcard-service", Expect: "fc-server-name-partial-wildcard:cause=auto-passthrough-sni-built-from-a-wildcard-service-host", Proxies: []*proxyDef{ingress}, YAML: `
apiVersion: networking.istio.io/v1
kind: ServiceEntry
metadata: {name: wild, namespace: ns1}
spec:
  hosts: ["*.internal.example.com"]
  location: MESH_INTERNAL
  ports: [{number: 443, name: tls, protocol: TLS}]
  resolution: NONE
---
apiVersion: networking.istio.io/v1
kind: Gateway
metadata: {name: eastwest, namespace: istio-system}
spec:
  selector: {istio: ingressgateway}
  servers:
  - port: {number: 15443, name: tls, protocol: TLS}
    hosts: ["*"]
    tls: {mode: AUTO_PASSTHROUGH}
`},
	{Name: "gateway-explicit-wildcard-bind", Expect: "fc-match-duplicate:cause=gateway-server-bound-explicitly-to-the-wildcard-address", Proxies: []*proxyDef{ingress}, YAML: `
apiVersion: networking.istio.io/v1
kind: Gateway
metadata: {name: gw, namespace: istio-system}
spec:
  selector: {istio: ingressgateway}
  servers:
  - port: {number: 8080, name: http-a, protocol: HTTP}
    hosts: ["a.example.org"]
  - port: {number: 8080, name: http-b, protocol: HTTP}
    bind: 0.0.0.0
    hosts: ["b.example.org"]
`},
	{Name: "gateway-same-tls-host-dot-namespace", Expect: "fc-match-duplicate:cause=gateway-tls-hosts-equal-as-sni-but-differing-in-namespace-prefix", Proxies: []*proxyDef{ingress}, YAML: `
apiVersion: networking.istio.io/v1
kind: Gateway
metadata: {name: gw-a, namespace: ns1}
spec:
  selector: {istio: ingressgateway}
  servers:
  - port: {number: 443, name: https, protocol: HTTPS}
    hosts: ["./api.example.org"]
    tls: {mode: SIMPLE, credentialName: cred-a}
---
apiVersion: networking.istio.io/v1
kind: Gateway
metadata: {name: gw-b, namespace: ns2}
spec:
  selector: {istio: ingressgateway}
  servers:
  - port: {number: 443, name: https, protocol: HTTPS}
    hosts: ["./api.example.org"]
    tls: {mode: SIMPLE, credentialName: cred-b}
`},
	{Name: "gateway-same-tls-host-namespace-prefix", Expect: "fc-match-overlap:cause=gateway-tls-hosts-equal-as-sni-but-differing-in-namespace-prefix", Proxies: []*proxyDef{ingress}, YAML: `
apiVersion: networking.istio.io/v1
kind: Gateway
metadata: {name: gw, namespace: istio-system}
spec:
  selector: {istio: ingressgateway}
  servers:
  - port: {number: 443, name: https-a, protocol: HTTPS}
    hosts: ["ns2/a.example.com", "x.example.com"]
    tls: {mode: SIMPLE, credentialName: cred-a}
  - port: {number: 443, name: https-b, protocol: HTTPS}
    hosts: ["a.example.com", "y.example.com"]
    tls: {mode: SIMPLE, credentialName: cred-b}
`},
	{Name: "gateway-tls-hosts-differ-in-case", Expect: "fc-match-overlap:cause=gateway-tls-hosts-equal-as-sni-but-differing-in-case", Proxies: []*proxyDef{ingress}, YAML: `
apiVersion: networking.istio.io/v1
kind: Gateway
metadata: {name: gw, namespace: istio-system}
spec:
  selector: {istio: ingressgateway}
  servers:
  - port: {number: 443, name: https-a, protocol: HTTPS}
    hosts: ["SHOP.example.org", "x.example.org"]
    tls: {mode: SIMPLE, credentialName: cred-a}
  - port: {number: 443, name: https-b, protocol: HTTPS}
    hosts: ["shop.example.org"]
    tls: {mode: SIMPLE, credentialName: cred-b}
`},
	{Name: "virtualservice-tls-routes-share-sni", Expect: "fc-match-overlap:cause=outbound-sni-host-shared-by-unequal-sni-lists", Proxies: []*proxyDef{sidecarNS1}, YAML: `
apiVersion: networking.istio.io/v1
kind: ServiceEntry
metadata: {name: tls, namespace: ns1}
spec:
  hosts: ["a.example.com", "b.example.com"]
  ports: [{number: 443, name: tls, protocol: TLS}]
  resolution: DNS
---
apiVersion: networking.istio.io/v1
kind: VirtualService
metadata: {name: tls, namespace: ns1}
spec:
  hosts: ["a.example.com", "b.example.com"]
  tls:
  - match: [{port: 443, sniHosts: ["a.example.com", "b.example.com"]}]
    route: [{destination: {host: a.example.com, port: {number: 443}}}]
  - match: [{port: 443, sniHosts: ["b.example.com"]}]
    route: [{destination: {host: b.example.com, port: {number: 443}}}]
`},
	{Name: "virtualservice-tcp-route-subnet-equals-service-cidr", Expect: "fc-match-duplicate:cause=virtualservice-tcp-routes-with-the-same-effective-destination-subnets", Proxies: []*proxyDef{sidecarNS1}, YAML: `
apiVersion: networking.istio.io/v1
kind: ServiceEntry
metadata: {name: cidr, namespace: ns1}
spec:
  hosts: [db.example.com]
  addresses: ["10.20.0.0/16"]
  ports: [{number: 9090, name: tcp, protocol: TCP}]
  resolution: NONE
---
apiVersion: networking.istio.io/v1
kind: VirtualService
metadata: {name: tcp, namespace: ns1}
spec:
  hosts: [db.example.com]
  tcp:
  - match: [{destinationSubnets: ["10.20.0.0/16"]}]
    route: [{destination: {host: db.example.com, port: {number: 9090}}}]
  - route: [{destination: {host: db.example.com, port: {number: 9090}}}]
`},
	{Name: "destinationrule-ring-size-above-envoy-maximum", Expect: "pgv:cause=destinationrule-minimum-ring-size-above-the-envoy-maximum-is-admitted", Proxies: []*proxyDef{sidecarNS1}, YAML: `
apiVersion: networking.istio.io/v1
kind: ServiceEntry
metadata: {name: svc, namespace: ns1}
spec:
  hosts: [a.example.com]
  ports: [{number: 80, name: http, protocol: HTTP}]
  resolution: DNS
---
apiVersion: networking.istio.io/v1
kind: DestinationRule
metadata: {name: ring, namespace: ns1}
spec:
  host: a.example.com
  trafficPolicy:
    loadBalancer:
      consistentHash: {useSourceIp: true, minimumRingSize: 9000000000}
`},
	{Name: "virtualservice-header-name-with-newline", Expect: "pgv:HeaderValue.Key", Proxies: []*proxyDef{sidecarNS1}, YAML: `
apiVersion: networking.istio.io/v1
kind: ServiceEntry
metadata: {name: svc, namespace: ns1}
spec:
  hosts: [a.example.com]
  ports: [{number: 80, name: http, protocol: HTTP}]
  resolution: DNS
---
apiVersion: networking.istio.io/v1
kind: VirtualService
metadata: {name: hdr, namespace: ns1}
spec:
  hosts: [a.example.com]
  http:
  - route: [{destination: {host: a.example.com}}]
    headers: {request: {set: {"x\nnewline": "v"}}}
`},
	{Name: "gateway-star-star-with-dot-host", Expect: "panic:istio.io/istio/pilot/pkg/model.sanitizeServerHostNamespace", Proxies: []*proxyDef{ingress}, YAML: `
apiVersion: networking.istio.io/v1
kind: Gateway
metadata: {name: gw, namespace: istio-system}
spec:
  selector: {istio: ingressgateway}
  servers:
  - port: {number: 80, name: http, protocol: HTTP}
    hosts: ["*/*", "./a.example.com"]
`},
	{Name: "serviceentry-workload-selector-without-host", Stratum: "I", Crash: true,
		Expect: "crash:istio.io/istio/pilot/pkg/serviceregistry/serviceentry.services.func1", Proxies: []*proxyDef{sidecarNS1}, YAML: `
apiVersion: networking.istio.io/v1
kind: ServiceEntry
metadata: {name: nohost, namespace: ns1}
spec:
  ports: [{number: 80, name: http, protocol: HTTP}]
  resolution: STATIC
  workloadSelector: {labels: {app: a}}
`},
	{Name: "serviceentry-workload-selector-invalid-address", Stratum: "I", Crash: true,
		Expect: "crash:istio.io/istio/pilot/pkg/serviceregistry/serviceentry.services.func1", Proxies: []*proxyDef{sidecarNS1}, YAML: `
apiVersion: networking.istio.io/v1
kind: ServiceEntry
metadata: {name: badaddr, namespace: ns1}
spec:
  hosts: [a.example.com]
  addresses: ["::/129"]
  ports: [{number: 80, name: http, protocol: HTTP}]
  resolution: STATIC
  workloadSelector: {labels: {app: a}}
`},
	// The RDS generator walks the requested route names in map order; the panic needs "80" before "<host>:80": the
	// virtual hosts computed for "80" are cached per port, the same slice goes into the route configuration, the
	// EnvoyFilter REMOVE filters it in place (zeroing the tail), and "<host>:80" then reads nil entries from the cache.
	{Name: "envoyfilter-removes-virtual-host-on-port-with-sniffed-service", Expect: "panic:istio.io/istio/pilot/pkg/networking/core.getVirtualHostsForSniffedServicePort", Repeat: 40,
		Proxies: []*proxyDef{sidecarNS1}, YAML: `
apiVersion: networking.istio.io/v1
kind: ServiceEntry
metadata: {name: http, namespace: ns1}
spec:
  hosts: [a.example.com, b.example.com]
  ports: [{number: 80, name: http, protocol: HTTP}]
  resolution: DNS
---
apiVersion: networking.istio.io/v1
kind: ServiceEntry
metadata: {name: sniffed, namespace: ns1}
spec:
  hosts: [c.example.com]
  addresses: [10.10.0.1]
  ports: [{number: 80, name: auto}]
  resolution: DNS
---
apiVersion: networking.istio.io/v1alpha3
kind: EnvoyFilter
metadata: {name: remove-vhost, namespace: istio-system}
spec:
  configPatches:
  - applyTo: VIRTUAL_HOST
    match: {context: SIDECAR_OUTBOUND}
    patch: {operation: REMOVE}
`},
}

// demands says what the property asks of the output, per rule (printed by repro).
func demands(key string) string {
	switch {
	case strings.Contains(key, "panic:") || strings.Contains(key, "crash:"):
		return "generation terminates without crashing"
	case strings.Contains(key, "vhost-domain-duplicate"):
		return "virtual-host domains within a route configuration do not collide (Envoy: \"Only a single wildcard domain is permitted\" / \"Only unique values for domains are permitted\": the whole RouteConfiguration is refused)"
	case strings.Contains(key, "fc-match-"):
		return "filter-chain matches within a listener do not collide (Envoy: \"filter chain ... has the same matching rules defined as ...\" / \"multiple filter chains with overlapping matching rules are defined\": the whole listener is refused)"
	case strings.Contains(key, "fc-server-name-partial-wildcard"):
		return "resources a proxy can load (Envoy: \"partial wildcards are not supported in server_names\": the whole listener is refused)"
	case strings.Contains(key, "listener-address-duplicate"):
		return "resources a proxy can load (Envoy: \"error adding listener: '...' has duplicate address '...' as existing listener\", checked for non-binding listeners as well)"
	case strings.Contains(key, "name-duplicate"):
		return "names are unique within a type (Envoy refuses the response: \"duplicate cluster/listener ... found\")"
	case strings.Contains(key, "weighted-total"):
		return "weights are in range (Envoy: the sum of weights must be greater than 0 and must not exceed 4294967295)"
	case strings.Contains(key, "rds-not-produced"), strings.Contains(key, "eds-not-produced"):
		return "every route configuration named by a listener and every endpoint set named by an EDS cluster is produced when requested"
	case strings.Contains(key, "pgv:"):
		return "every resource satisfies the xDS API's own validation rules (protoc-gen-validate)"
	}
	return "resources a proxy can load"
}

func loadStoredRepros() []repro {
	var out []repro
	if len(storedReprosJSON) > 0 {
		_ = json.Unmarshal(storedReprosJSON, &out)
	}
	return out
}

func schemaForKind(kind string) (c config.GroupVersionKind, ok bool) {
	for _, s := range collections.PilotGatewayAPI().All() {
		if s.Kind() == kind && (strings.HasSuffix(s.Group(), "istio.io")) {
			return s.GroupVersionKind(), true
		}
	}
	return c, false
}

func storedToConfigs(objs []storedObject) ([]config.Config, error) {
	var out []config.Config
	for _, o := range objs {
		k, ok := schemaForKind(o.Kind)
		if !ok {
			return nil, fmt.Errorf("unknown kind %s", o.Kind)
		}
		sch, _ := collections.PilotGatewayAPI().FindByGroupVersionAliasesKind(k)
		spec, err := crd.FromJSON(sch, string(o.Spec))
		if err != nil {
			return nil, fmt.Errorf("%s %s/%s: %v", o.Kind, o.Namespace, o.Name, err)
		}
		ts, _ := time.Parse(time.RFC3339, o.Created)
		out = append(out, config.Config{Meta: config.Meta{GroupVersionKind: k, Name: o.Name, Namespace: o.Namespace, CreationTimestamp: ts, Domain: "cluster.local"}, Spec: spec})
	}
	return out, nil
}

func configsToStored(cfgs []config.Config) []storedObject {
	var out []storedObject
	for _, c := range cfgs {
		b, err := config.ToJSON(c.Spec)
		if err != nil {
			b = []byte("{}")
		}
		out = append(out, storedObject{Kind: c.GroupVersionKind.Kind, Namespace: c.Namespace, Name: c.Name, Created: c.CreationTimestamp.Format(time.RFC3339), Spec: b})
	}
	return out
}

func meshToMap(m *meshconfig.MeshConfig) map[string]any {
	out := map[string]any{}
	if m.GetOutboundTrafficPolicy().GetMode() == meshconfig.MeshConfig_OutboundTrafficPolicy_REGISTRY_ONLY {
		out["registryOnly"] = true
	}
	if m.GetAccessLogFile() != "" {
		out["accessLogFile"] = m.GetAccessLogFile()
	}
	if len(m.GetDefaultServiceExportTo()) > 0 {
		out["defaultServiceExportTo"] = m.GetDefaultServiceExportTo()[0]
	}
	return out
}

func meshFromMap(in map[string]any) *meshconfig.MeshConfig {
	m := mesh.DefaultMeshConfig()
	m.RootNamespace = rootNS
	if in["registryOnly"] == true {
		m.OutboundTrafficPolicy = &meshconfig.MeshConfig_OutboundTrafficPolicy{Mode: meshconfig.MeshConfig_OutboundTrafficPolicy_REGISTRY_ONLY}
	}
	if v, ok := in["accessLogFile"].(string); ok {
		m.AccessLogFile = v
	}
	if v, ok := in["defaultServiceExportTo"].(string); ok {
		m.DefaultServiceExportTo = []string{v}
	}
	return m
}

// printWorld prints the objects with the verdict of the real admission validator of each.
func printWorld(w *world) (rejected int) {
	fmt.Printf("   world: %d object(s), %d proxy(ies), PILOT_FILTER_GATEWAY_CLUSTER_CONFIG=%v, mesh %v\n", len(w.Configs), len(w.Proxies), w.FilterGW, meshToMap(w.Mesh))
	for _, c := range w.Configs {
		verdict := "admission-valid"
		if res := validateConfig(c); res.Panic != "" {
			verdict = "VALIDATOR PANICS at " + res.Panic
			rejected++
		} else if res.Err != nil {
			verdict = "REJECTED by admission: " + firstReason(res.Err)
			rejected++
		}
		b, _ := config.ToJSON(c.Spec)
		fmt.Printf("   - %s %s/%s  [%s]\n       %s\n", c.GroupVersionKind.Kind, c.Namespace, c.Name, verdict, string(b))
	}
	for _, p := range w.Proxies {
		b, _ := json.Marshal(p)
		fmt.Printf("   proxy %s\n", b)
	}
	return rejected
}

func reproWorld(r repro) (*world, error) {
	w := &world{Mesh: meshFromMap(r.Mesh), Proxies: r.Proxies, Rejected: map[string]int{}, FilterGW: r.FilterGW}
	if r.YAML != "" {
		cfgs, err := parseYAMLNoValidation(r.YAML)
		if err != nil {
			return nil, err
		}
		for _, c := range cfgs {
			c.CreationTimestamp = baseTime
			c.Domain = "cluster.local"
			w.Configs = append(w.Configs, c)
		}
		return w, nil
	}
	cfgs, err := storedToConfigs(r.Objects)
	if err != nil {
		return nil, err
	}
	w.Configs = cfgs
	return w, nil
}

// parseYAMLNoValidation reads a YAML stream of istio objects without applying admission validation.
func parseYAMLNoValidation(y string) ([]config.Config, error) {
	var out []config.Config
	for _, doc := range strings.Split(y, "\n---") {
		if strings.TrimSpace(doc) == "" {
			continue
		}
		cfgs, _, err := crd.ParseInputs(doc)
		if err == nil {
			out = append(out, cfgs...)
			continue
		}
		if !strings.Contains(err.Error(), "configuration is invalid") {
			return nil, err
		}
		// an object admission rejects: decode it by hand
		var ik crd.IstioKind
		if e := yaml.Unmarshal([]byte(doc), &ik); e != nil {
			return nil, e
		}
		k, ok := schemaForKind(ik.Kind)
		if !ok {
			return nil, fmt.Errorf("unknown kind %s", ik.Kind)
		}
		sch, _ := collections.PilotGatewayAPI().FindByGroupVersionAliasesKind(k)
		c, e := crd.ConvertObject(sch, &ik, "cluster.local")
		if e != nil {
			return nil, e
		}
		out = append(out, *c)
	}
	return out, nil
}

func runOneRepro(r repro) bool {
	w, err := reproWorld(r)
	if err != nil {
		fmt.Printf("== %s: cannot build the world: %v\n", r.Name, err)
		return false
	}
	fmt.Printf("== %s\n", r.Name)
	rejected := printWorld(w)
	wantRejected := 0
	if r.Stratum == "I" {
		wantRejected = 1
	}
	if r.Crash && os.Getenv("WELLFORMED_REPRO_CHILD") == "" {
		cmd := exec.Command(os.Args[0], "repro", r.Name)
		cmd.Env = append(os.Environ(), "WELLFORMED_REPRO_CHILD=1")
		outB, err := cmd.CombinedOutput()
		out := string(outB)
		fn := strings.TrimPrefix(r.Expect[strings.Index(r.Expect, "crash:"):], "crash:")
		head := ""
		if i := strings.Index(out, "panic: "); i >= 0 {
			head = firstLines(out[i:], 1)
		}
		hit := err != nil && head != "" && strings.Contains(out, fn)
		fmt.Printf("   istio produced: the child process pushing this world ended with %v\n     %s\n     innermost istio frame: %s\n", err, head, vh.TopIstioFrame(out[strings.Index(out, "panic: ")+1:]))
		fmt.Printf("   the property demands: %s\n", demands(r.Expect))
		status := "REPRODUCED"
		if !hit {
			status = "NOT-REPRODUCED"
		}
		fmt.Printf("   => %s (expected key contains %q)\n", status, r.Expect)
		return hit
	}
	keys := evalKeys(w)
	for n := 1; n < r.Repeat; n++ {
		for k, v := range evalKeys(w) {
			if _, ok := keys[k]; !ok {
				keys[k] = v + fmt.Sprintf(" (seen in push %d of %d)", n+1, r.Repeat)
			}
		}
	}
	var ks []string
	hit := false
	for k := range keys {
		ks = append(ks, k)
		if strings.Contains(k, r.Expect) {
			hit = true
		}
	}
	sort.Strings(ks)
	fmt.Printf("   istio produced (finding keys of this world):\n")
	for _, k := range ks {
		fmt.Printf("     %s\n        %s\n", k, keys[k])
	}
	fmt.Printf("   the property demands: %s\n", demands(r.Expect))
	status := "REPRODUCED"
	if !hit {
		status = "NOT-REPRODUCED"
	}
	if rejected != wantRejected {
		status += fmt.Sprintf(" (BUT %d object(s) rejected by admission, expected %d)", rejected, wantRejected)
	}
	fmt.Printf("   => %s (expected key contains %q)\n", status, r.Expect)
	return hit && rejected == wantRejected
}

func allRepros() []repro {
	return append(append([]repro{}, repros...), loadStoredRepros()...)
}

// runRepro handles "repro ..." on the command line (and WELLFORMED_REPRO=<name> as before); it returns true when the process is done.
func runRepro() bool {
	var args []string
	if len(os.Args) > 1 && os.Args[1] == "repro" {
		args = os.Args[2:]
		if len(args) == 0 {
			args = []string{"list"}
		}
	} else if sel := os.Getenv("WELLFORMED_REPRO"); sel != "" {
		args = []string{sel}
	} else {
		return false
	}
	quiet.Logs("none")
	sel := args[0]
	switch {
	case sel == "list":
		for _, r := range allRepros() {
			fmt.Printf("%-70s expects %s\n", r.Name, r.Expect)
		}
		return true
	case strings.HasPrefix(sel, "case:"):
		reproCase(strings.TrimPrefix(sel, "case:"), args[1:])
		return true
	}
	bad, n := 0, 0
	for _, r := range allRepros() {
		if sel != "all" && sel != r.Name {
			continue
		}
		n++
		if !runOneRepro(r) {
			bad++
		}
	}
	if n == 0 {
		fmt.Printf("no reproduction named %q (try: repro list)\n", sel)
		os.Exit(2)
	}
	if bad > 0 {
		os.Exit(1)
	}
	return true
}

// reproCase regenerates a generated case and optionally shrinks it.
func reproCase(name string, rest []string) {
	seed := int64(1)
	if v := os.Getenv("VERIF_SEED"); v != "" {
		seed, _ = strconv.ParseInt(v, 10, 64)
	}
	c := &vh.Ctx{Prop: &vh.Prop{ID: "C14"}, Seed: seed}
	stratum, idxs, _ := strings.Cut(name, "-")
	i, err := strconv.Atoi(idxs)
	if err != nil || (stratum != "V" && stratum != "I") {
		fmt.Printf("case must be V-<n> or I-<n>\n")
		os.Exit(2)
	}
	w := buildValidWorldQuiet(c, i)
	victim := -1
	opName := ""
	if stratum == "I" {
		op, v := mutateWorld(c, i, w)
		if v < 0 {
			fmt.Printf("no operator applicable\n")
			os.Exit(2)
		}
		victim, opName = v, op.Kind.Kind+"/"+op.Name
		if validateConfig(w.Configs[v]).Err == nil {
			fmt.Printf("operator %s left the object admission-valid: the case counts as stratum V\n", opName)
			victim = -1
		}
	}
	fmt.Printf("== case %s seed %d %s\n", name, seed, opName)
	if len(rest) == 0 {
		printWorld(w)
		keys := evalKeys(w)
		var ks []string
		for k := range keys {
			ks = append(ks, k)
		}
		sort.Strings(ks)
		for _, k := range ks {
			fmt.Printf("   %s\n      %s\n", k, keys[k])
		}
		return
	}
	want := rest[0]
	if !hasKey(evalKeys(w), want) {
		fmt.Printf("the case does not show a key containing %q\n", want)
		os.Exit(1)
	}
	m := minimise(w, want, victim, true)
	r := repro{Name: name, Expect: want, Proxies: m.Proxies, Objects: configsToStored(m.Configs), FilterGW: m.FilterGW, Mesh: meshToMap(m.Mesh), Stratum: "V"}
	if victim >= 0 {
		r.Stratum = "I"
	}
	for _, a := range rest[1:] {
		if strings.HasPrefix(a, "save:") {
			r.Name = strings.TrimPrefix(a, "save:")
		}
	}
	runOneRepro(r)
	for _, a := range rest[1:] {
		if strings.HasPrefix(a, "save:") {
			saveRepro(r)
		}
		if strings.HasPrefix(a, "out:") {
			// write this one reproduction to a file (merged into repros.json later; lets several shrink runs work in parallel)
			if n := strings.TrimPrefix(a, "out:"); n != "" {
				r.Name = strings.TrimSuffix(filepath.Base(n), ".json")
				b, _ := json.MarshalIndent(r, "", " ")
				_ = os.WriteFile(n, b, 0o644)
			}
		}
	}
}

// saveRepro adds (or replaces) a stored reproduction in repros.json next to the engine source (development only).
func saveRepro(r repro) {
	path := filepath.Join(vh.VerifRoot, "harness", "cmd", "wellformed", "repros.json")
	var all []repro
	if b, err := os.ReadFile(path); err == nil {
		_ = json.Unmarshal(b, &all)
	}
	kept := all[:0]
	for _, o := range all {
		if o.Name != r.Name {
			kept = append(kept, o)
		}
	}
	kept = append(kept, r)
	sort.Slice(kept, func(i, j int) bool { return kept[i].Name < kept[j].Name })
	b, _ := json.MarshalIndent(kept, "", " ")
	if err := os.WriteFile(path, append(b, '\n'), 0o644); err != nil {
		fmt.Printf("cannot save: %v\n", err)
		return
	}
	fmt.Printf("   saved as %q in %s (rebuild to embed)\n", r.Name, path)
}
