package main

// EnvoyFilter templates: ADD / MERGE / REMOVE / REPLACE / INSERT_* on clusters, listeners, filter
// chains, network filters, HTTP filters, route configurations, virtual hosts, HTTP routes and
// extension configs. The content a template inserts is itself well-formed and uses names that
// cannot collide with generated ones (prefix "ef-", per-object index in SNI / domains), so that a
// broken output is the generator's doing and not the user's.

import (
	"fmt"
	"math/rand"
	"strings"

	"istio.io/istio/pilot/pkg/config/kube/crd"
	"istio.io/istio/pkg/config/schema/gvk"

	"verifharness/internal/vh"
)

type efTemplate struct {
	Name string
	// Patch is the YAML of one configPatches entry, indented by two spaces; %[1]d is a number unique per inserted
	// object, %[2]s a context, %[3]s a service host, %[4]d a port, %[5]d a free listener port.
	Patch string
	// Contexts the template may be instantiated in ("" = leave unset).
	Contexts []string
}

const hcmType = "type.googleapis.com/envoy.extensions.filters.network.http_connection_manager.v3.HttpConnectionManager"

var anyCtx = []string{"ANY", "SIDECAR_OUTBOUND", "SIDECAR_INBOUND", "GATEWAY"}

var efTemplates = []efTemplate{
	{Name: "cluster-add", Contexts: anyCtx, Patch: `
  - applyTo: CLUSTER
    match: {context: %[2]s}
    patch:
      operation: ADD
      value:
        name: ef-cluster-a
        type: STATIC
        connect_timeout: 1s
        load_assignment:
          cluster_name: ef-cluster-a
          endpoints:
          - lb_endpoints:
            - endpoint: {address: {socket_address: {address: 127.0.0.1, port_value: 9999}}}
`},
	// the same cluster for the inbound and the outbound side of a sidecar (two patches, as users write it when filters of
	// both directions call out to it): istio de-duplicates the inserted clusters by name (normalizeClusters)
	{Name: "cluster-add-inbound-and-outbound", Contexts: []string{"SIDECAR_OUTBOUND"}, Patch: `
  - applyTo: CLUSTER
    match: {context: SIDECAR_OUTBOUND}
    patch:
      operation: ADD
      value:
        name: ef-cluster-b-%[1]d
        type: STATIC
        connect_timeout: 1s
        load_assignment:
          cluster_name: ef-cluster-b-%[1]d
          endpoints:
          - lb_endpoints:
            - endpoint: {address: {socket_address: {address: 127.0.0.1, port_value: 9998}}}
  - applyTo: CLUSTER
    match: {context: SIDECAR_INBOUND}
    patch:
      operation: ADD
      value:
        name: ef-cluster-b-%[1]d
        type: STATIC
        connect_timeout: 1s
        load_assignment:
          cluster_name: ef-cluster-b-%[1]d
          endpoints:
          - lb_endpoints:
            - endpoint: {address: {socket_address: {address: 127.0.0.1, port_value: 9998}}}
`},
	{Name: "cluster-merge-service", Contexts: []string{"ANY", "SIDECAR_OUTBOUND", "GATEWAY"}, Patch: `
  - applyTo: CLUSTER
    match: {context: %[2]s, cluster: {service: "%[3]s", portNumber: %[4]d}}
    patch:
      operation: MERGE
      value:
        connect_timeout: 7s
        circuit_breakers: {thresholds: [{max_connections: 11, priority: HIGH}]}
`},
	{Name: "cluster-merge-all", Contexts: anyCtx, Patch: `
  - applyTo: CLUSTER
    match: {context: %[2]s}
    patch:
      operation: MERGE
      value:
        upstream_connection_options: {tcp_keepalive: {keepalive_time: 300}}
        common_lb_config: {healthy_panic_threshold: {value: 25}}
`},
	{Name: "cluster-merge-subset", Contexts: []string{"SIDECAR_OUTBOUND", "GATEWAY"}, Patch: `
  - applyTo: CLUSTER
    match: {context: %[2]s, cluster: {subset: v1}}
    patch:
      operation: MERGE
      value: {lb_policy: RANDOM}
`},
	{Name: "cluster-remove-service", Contexts: []string{"SIDECAR_OUTBOUND", "GATEWAY", "ANY"}, Patch: `
  - applyTo: CLUSTER
    match: {context: %[2]s, cluster: {service: "%[3]s"}}
    patch: {operation: REMOVE}
`},
	{Name: "cluster-remove-builtin", Contexts: []string{"SIDECAR_OUTBOUND", "SIDECAR_INBOUND"}, Patch: `
  - applyTo: CLUSTER
    match: {context: %[2]s, cluster: {name: InboundPassthroughCluster}}
    patch: {operation: REMOVE}
`},
	{Name: "listener-merge-port", Contexts: anyCtx, Patch: `
  - applyTo: LISTENER
    match: {context: %[2]s, listener: {portNumber: %[4]d}}
    patch:
      operation: MERGE
      value: {per_connection_buffer_limit_bytes: 32768, tcp_backlog_size: 512}
`},
	{Name: "listener-merge-all", Contexts: anyCtx, Patch: `
  - applyTo: LISTENER
    match: {context: %[2]s}
    patch:
      operation: MERGE
      value: {listener_filters_timeout: 2s}
`},
	{Name: "listener-add", Contexts: []string{"SIDECAR_OUTBOUND", "GATEWAY", "ANY"}, Patch: `
  - applyTo: LISTENER
    match: {context: %[2]s}
    patch:
      operation: ADD
      value:
        name: ef-listener-%[1]d
        address: {socket_address: {address: 127.0.0.1, port_value: %[5]d}}
        filter_chains:
        - filters:
          - name: envoy.filters.network.tcp_proxy
            typed_config:
              "@type": type.googleapis.com/envoy.extensions.filters.network.tcp_proxy.v3.TcpProxy
              stat_prefix: ef
              cluster: ef-cluster-a
`},
	{Name: "listener-remove-port", Contexts: anyCtx, Patch: `
  - applyTo: LISTENER
    match: {context: %[2]s, listener: {portNumber: %[4]d}}
    patch: {operation: REMOVE}
`},
	{Name: "listener-remove-virtual", Contexts: []string{"SIDECAR_OUTBOUND", "SIDECAR_INBOUND"}, Patch: `
  - applyTo: LISTENER
    match: {context: %[2]s, listener: {name: virtualOutbound}}
    patch: {operation: REMOVE}
`},
	{Name: "listener-filter-add", Contexts: []string{"SIDECAR_INBOUND", "GATEWAY"}, Patch: `
  - applyTo: LISTENER_FILTER
    match: {context: %[2]s}
    patch:
      operation: INSERT_FIRST
      value:
        name: envoy.filters.listener.proxy_protocol
        typed_config:
          "@type": type.googleapis.com/envoy.extensions.filters.listener.proxy_protocol.v3.ProxyProtocol
`},
	{Name: "filter-chain-merge-tls", Contexts: anyCtx, Patch: `
  - applyTo: FILTER_CHAIN
    match: {context: %[2]s, listener: {filterChain: {transportProtocol: tls}}}
    patch:
      operation: MERGE
      value: {transport_socket_connect_timeout: 9s}
`},
	{Name: "filter-chain-merge-port", Contexts: anyCtx, Patch: `
  - applyTo: FILTER_CHAIN
    match: {context: %[2]s, listener: {portNumber: %[4]d}}
    patch:
      operation: MERGE
      value: {metadata: {filter_metadata: {ef: {k: v}}}}
`},
	{Name: "filter-chain-remove-sni", Contexts: []string{"SIDECAR_OUTBOUND", "GATEWAY", "ANY"}, Patch: `
  - applyTo: FILTER_CHAIN
    match: {context: %[2]s, listener: {filterChain: {sni: "%[3]s"}}}
    patch: {operation: REMOVE}
`},
	{Name: "filter-chain-remove-tls", Contexts: []string{"SIDECAR_INBOUND", "GATEWAY"}, Patch: `
  - applyTo: FILTER_CHAIN
    match: {context: %[2]s, listener: {portNumber: %[4]d, filterChain: {transportProtocol: tls}}}
    patch: {operation: REMOVE}
`},
	{Name: "filter-chain-add", Contexts: []string{"SIDECAR_OUTBOUND", "GATEWAY"}, Patch: `
  - applyTo: FILTER_CHAIN
    match: {context: %[2]s, listener: {portNumber: %[4]d}}
    patch:
      operation: ADD
      value:
        name: ef-chain-%[1]d
        filter_chain_match: {server_names: ["ef-%[1]d.added.example.net"], transport_protocol: tls}
        filters:
        - name: envoy.filters.network.tcp_proxy
          typed_config:
            "@type": type.googleapis.com/envoy.extensions.filters.network.tcp_proxy.v3.TcpProxy
            stat_prefix: ef
            cluster: ef-cluster-a
`},
	{Name: "network-filter-insert-first", Contexts: anyCtx, Patch: `
  - applyTo: NETWORK_FILTER
    match: {context: %[2]s, listener: {portNumber: %[4]d}}
    patch:
      operation: INSERT_FIRST
      value:
        name: envoy.filters.network.connection_limit
        typed_config:
          "@type": type.googleapis.com/envoy.extensions.filters.network.connection_limit.v3.ConnectionLimit
          stat_prefix: ef
          max_connections: 100
`},
	{Name: "network-filter-insert-before-tcp", Contexts: anyCtx, Patch: `
  - applyTo: NETWORK_FILTER
    match: {context: %[2]s, listener: {filterChain: {filter: {name: envoy.filters.network.tcp_proxy}}}}
    patch:
      operation: INSERT_BEFORE
      value:
        name: envoy.filters.network.connection_limit
        typed_config:
          "@type": type.googleapis.com/envoy.extensions.filters.network.connection_limit.v3.ConnectionLimit
          stat_prefix: ef
          max_connections: 10
`},
	{Name: "network-filter-merge-hcm", Contexts: anyCtx, Patch: `
  - applyTo: NETWORK_FILTER
    match: {context: %[2]s, listener: {filterChain: {filter: {name: envoy.filters.network.http_connection_manager}}}}
    patch:
      operation: MERGE
      value:
        typed_config:
          "@type": ` + hcmType + `
          xff_num_trusted_hops: 2
          server_name: ef-server
          common_http_protocol_options: {idle_timeout: 30s}
`},
	{Name: "network-filter-merge-tcp", Contexts: anyCtx, Patch: `
  - applyTo: NETWORK_FILTER
    match: {context: %[2]s, listener: {filterChain: {filter: {name: envoy.filters.network.tcp_proxy}}}}
    patch:
      operation: MERGE
      value:
        typed_config:
          "@type": type.googleapis.com/envoy.extensions.filters.network.tcp_proxy.v3.TcpProxy
          idle_timeout: 10s
`},
	{Name: "network-filter-replace-tcp", Contexts: []string{"SIDECAR_OUTBOUND", "GATEWAY"}, Patch: `
  - applyTo: NETWORK_FILTER
    match: {context: %[2]s, listener: {portNumber: %[4]d, filterChain: {filter: {name: envoy.filters.network.tcp_proxy}}}}
    patch:
      operation: REPLACE
      value:
        name: envoy.filters.network.tcp_proxy
        typed_config:
          "@type": type.googleapis.com/envoy.extensions.filters.network.tcp_proxy.v3.TcpProxy
          stat_prefix: ef-replaced
          cluster: ef-cluster-a
`},
	{Name: "network-filter-remove", Contexts: anyCtx, Patch: `
  - applyTo: NETWORK_FILTER
    match: {context: %[2]s, listener: {filterChain: {filter: {name: istio.stats}}}}
    patch: {operation: REMOVE}
`},
	{Name: "network-filter-remove-mx", Contexts: anyCtx, Patch: `
  - applyTo: NETWORK_FILTER
    match: {context: %[2]s, listener: {filterChain: {filter: {name: istio.metadata_exchange}}}}
    patch: {operation: REMOVE}
`},
	{Name: "http-filter-insert-before-router", Contexts: anyCtx, Patch: `
  - applyTo: HTTP_FILTER
    match:
      context: %[2]s
      listener: {filterChain: {filter: {name: envoy.filters.network.http_connection_manager, subFilter: {name: envoy.filters.http.router}}}}
    patch:
      operation: INSERT_BEFORE
      value:
        name: envoy.filters.http.lua
        typed_config:
          "@type": type.googleapis.com/envoy.extensions.filters.http.lua.v3.Lua
          default_source_code: {inline_string: "function envoy_on_request(h) end"}
`},
	{Name: "http-filter-insert-first", Contexts: anyCtx, Patch: `
  - applyTo: HTTP_FILTER
    match: {context: %[2]s, listener: {portNumber: %[4]d}}
    patch:
      operation: INSERT_FIRST
      value:
        name: envoy.filters.http.buffer
        typed_config:
          "@type": type.googleapis.com/envoy.extensions.filters.http.buffer.v3.Buffer
          max_request_bytes: 1024
`},
	{Name: "http-filter-insert-after-cors", Contexts: anyCtx, Patch: `
  - applyTo: HTTP_FILTER
    match:
      context: %[2]s
      listener: {filterChain: {filter: {name: envoy.filters.network.http_connection_manager, subFilter: {name: envoy.filters.http.cors}}}}
    patch:
      operation: INSERT_AFTER
      value:
        name: envoy.filters.http.header_to_metadata
        typed_config:
          "@type": type.googleapis.com/envoy.extensions.filters.http.header_to_metadata.v3.Config
          request_rules:
          - header: x-version
            on_header_present: {metadata_namespace: ef, key: version, type: STRING}
`},
	{Name: "http-filter-merge-router", Contexts: anyCtx, Patch: `
  - applyTo: HTTP_FILTER
    match:
      context: %[2]s
      listener: {filterChain: {filter: {name: envoy.filters.network.http_connection_manager, subFilter: {name: envoy.filters.http.router}}}}
    patch:
      operation: MERGE
      value:
        typed_config:
          "@type": type.googleapis.com/envoy.extensions.filters.http.router.v3.Router
          suppress_envoy_headers: true
`},
	{Name: "http-filter-remove-fault", Contexts: anyCtx, Patch: `
  - applyTo: HTTP_FILTER
    match:
      context: %[2]s
      listener: {filterChain: {filter: {name: envoy.filters.network.http_connection_manager, subFilter: {name: envoy.filters.http.fault}}}}
    patch: {operation: REMOVE}
`},
	{Name: "http-filter-replace-cors", Contexts: anyCtx, Patch: `
  - applyTo: HTTP_FILTER
    match:
      context: %[2]s
      listener: {filterChain: {filter: {name: envoy.filters.network.http_connection_manager, subFilter: {name: envoy.filters.http.cors}}}}
    patch:
      operation: REPLACE
      value:
        name: envoy.filters.http.cors
        typed_config:
          "@type": type.googleapis.com/envoy.extensions.filters.http.cors.v3.Cors
`},
	{Name: "route-configuration-merge", Contexts: anyCtx, Patch: `
  - applyTo: ROUTE_CONFIGURATION
    match: {context: %[2]s}
    patch:
      operation: MERGE
      value:
        request_headers_to_add:
        - header: {key: x-ef, value: "1"}
          append_action: OVERWRITE_IF_EXISTS_OR_ADD
        max_direct_response_body_size_bytes: 2048
`},
	{Name: "route-configuration-merge-port", Contexts: []string{"SIDECAR_OUTBOUND", "ANY"}, Patch: `
  - applyTo: ROUTE_CONFIGURATION
    match: {context: %[2]s, routeConfiguration: {portNumber: %[4]d}}
    patch:
      operation: MERGE
      value: {response_headers_to_remove: [x-envoy-upstream-service-time]}
`},
	{Name: "virtual-host-add", Contexts: []string{"SIDECAR_OUTBOUND", "GATEWAY"}, Patch: `
  - applyTo: VIRTUAL_HOST
    match: {context: %[2]s}
    patch:
      operation: ADD
      value:
        name: ef-vhost-%[1]d
        domains: ["ef-%[1]d.added.example.net"]
        routes:
        - match: {prefix: /}
          direct_response: {status: 204}
`},
	{Name: "virtual-host-merge", Contexts: anyCtx, Patch: `
  - applyTo: VIRTUAL_HOST
    match: {context: %[2]s}
    patch:
      operation: MERGE
      value:
        retry_policy: {retry_on: "5xx", num_retries: 1}
        response_headers_to_add:
        - header: {key: x-ef-vhost, value: "1"}
`},
	{Name: "virtual-host-merge-named", Contexts: []string{"SIDECAR_OUTBOUND"}, Patch: `
  - applyTo: VIRTUAL_HOST
    match: {context: %[2]s, routeConfiguration: {vhost: {name: "%[3]s:%[4]d"}}}
    patch:
      operation: MERGE
      value: {include_request_attempt_count: true}
`},
	{Name: "virtual-host-remove", Contexts: []string{"SIDECAR_OUTBOUND"}, Patch: `
  - applyTo: VIRTUAL_HOST
    match: {context: %[2]s, routeConfiguration: {vhost: {name: "%[3]s:%[4]d"}}}
    patch: {operation: REMOVE}
`},
	{Name: "virtual-host-remove-catchall", Contexts: []string{"SIDECAR_OUTBOUND"}, Patch: `
  - applyTo: VIRTUAL_HOST
    match: {context: %[2]s, routeConfiguration: {vhost: {name: allow_any}}}
    patch: {operation: REMOVE}
`},
	{Name: "http-route-merge", Contexts: anyCtx, Patch: `
  - applyTo: HTTP_ROUTE
    match: {context: %[2]s, routeConfiguration: {vhost: {route: {action: ROUTE}}}}
    patch:
      operation: MERGE
      value:
        route: {timeout: 3s, max_stream_duration: {max_stream_duration: 60s}}
`},
	{Name: "http-route-merge-named", Contexts: anyCtx, Patch: `
  - applyTo: HTTP_ROUTE
    match: {context: %[2]s, routeConfiguration: {vhost: {route: {name: route-0}}}}
    patch:
      operation: MERGE
      value:
        response_headers_to_add:
        - header: {key: x-ef-route, value: "1"}
`},
	{Name: "http-route-remove", Contexts: anyCtx, Patch: `
  - applyTo: HTTP_ROUTE
    match: {context: %[2]s, routeConfiguration: {vhost: {route: {action: DIRECT_RESPONSE}}}}
    patch: {operation: REMOVE}
`},
	{Name: "http-route-remove-named", Contexts: anyCtx, Patch: `
  - applyTo: HTTP_ROUTE
    match: {context: %[2]s, routeConfiguration: {vhost: {route: {name: route-1}}}}
    patch: {operation: REMOVE}
`},
	{Name: "http-route-insert-first", Contexts: anyCtx, Patch: `
  - applyTo: HTTP_ROUTE
    match: {context: %[2]s}
    patch:
      operation: INSERT_FIRST
      value:
        name: ef-route-%[1]d
        match: {prefix: /ef-%[1]d}
        direct_response: {status: 204}
`},
	{Name: "http-route-insert-before", Contexts: anyCtx, Patch: `
  - applyTo: HTTP_ROUTE
    match: {context: %[2]s, routeConfiguration: {vhost: {route: {name: route-0}}}}
    patch:
      operation: INSERT_BEFORE
      value:
        name: ef-route-before-%[1]d
        match: {path: /ef-before}
        route: {cluster: ef-cluster-a}
`},
	{Name: "http-route-add", Contexts: anyCtx, Patch: `
  - applyTo: HTTP_ROUTE
    match: {context: %[2]s, routeConfiguration: {vhost: {name: "%[3]s:%[4]d"}}}
    patch:
      operation: ADD
      value:
        name: ef-route-added-%[1]d
        match: {prefix: /ef-added}
        redirect: {host_redirect: ef.example.net}
`},
	{Name: "extension-config", Contexts: []string{"SIDECAR_OUTBOUND", "SIDECAR_INBOUND", "GATEWAY"}, Patch: `
  - applyTo: EXTENSION_CONFIG
    patch:
      operation: ADD
      value:
        name: ef-ext-%[1]d
        typed_config:
          "@type": type.googleapis.com/envoy.extensions.filters.http.lua.v3.Lua
          default_source_code: {inline_string: "function envoy_on_request(h) end"}
  - applyTo: HTTP_FILTER
    match:
      context: %[2]s
      listener: {filterChain: {filter: {name: envoy.filters.network.http_connection_manager, subFilter: {name: envoy.filters.http.router}}}}
    patch:
      operation: INSERT_BEFORE
      value:
        name: ef-ext-%[1]d
        config_discovery:
          config_source: {ads: {}, initial_fetch_timeout: 0s, resource_api_version: V3}
          type_urls: ["type.googleapis.com/envoy.extensions.filters.http.lua.v3.Lua"]
`},
}

func (w *world) genEnvoyFilter(r *rand.Rand, i int) {
	svcs := w.services()
	ns := rootNS
	selector := ""
	switch r.Intn(4) {
	case 0:
		ns = pick(r, namespaces)
	case 1:
		ns = pick(r, append([]string{rootNS, rootNS}, namespaces...))
		ls := pick(r, append([]map[string]string{{"istio": "ingressgateway"}}, labelSets...))
		var kv []string
		for _, k := range sortedKeys(ls) {
			kv = append(kv, fmt.Sprintf("%s: %q", k, ls[k]))
		}
		selector = "  workloadSelector: {labels: {" + strings.Join(kv, ", ") + "}}\n"
	}
	n := 1 + r.Intn(3)
	var patches strings.Builder
	var names []string
	used := map[string]bool{}
	for k := 0; k < n; k++ {
		t := pick(r, efTemplates)
		if used[t.Name] {
			continue // the same insertion twice would be the user's duplicate, not the generator's
		}
		used[t.Name] = true
		ctx := pick(r, t.Contexts)
		hostName, port := "a.example.com", 80
		if len(svcs) > 0 {
			s := pick(r, svcs)
			hostName, port = s.Host, int(pick(r, s.Ports).Number)
		}
		if chance(r, 20) {
			port = pick(r, []int{80, 443, 8080, 15006, 15001})
		}
		uid := i*10 + k // unique per inserted object within a world
		patches.WriteString(strings.TrimLeft(fmt.Sprintf(t.Patch, uid, ctx, hostName, port, 15900+uid), "\n"))
		names = append(names, t.Name+"@"+ctx)
	}
	prio := ""
	if chance(r, 20) {
		prio = fmt.Sprintf("  priority: %d\n", pick(r, []int{-10, 0, 10}))
	}
	y := fmt.Sprintf("apiVersion: networking.istio.io/v1alpha3\nkind: EnvoyFilter\nmetadata:\n  name: ef-%d\n  namespace: %s\n  annotations:\n    verif/templates: %q\nspec:\n%s%s  configPatches:\n%s",
		i, ns, strings.Join(names, ","), selector, prio, patches.String())
	cfgs, _, err := crd.ParseInputs(y)
	if err != nil || len(cfgs) != 1 {
		vh.Abort("EnvoyFilter template %v does not parse: %v\n%s", names, err, y)
	}
	w.add(r, gvk.EnvoyFilter, cfgs[0].Name, ns, cfgs[0].Spec)
	w.Configs[len(w.Configs)-1].Annotations = cfgs[0].Annotations
}

func sortedKeys[V any](m map[string]V) []string {
	out := make([]string, 0, len(m))
	for k := range m {
		out = append(out, k)
	}
	// insertion sort, tiny maps
	for i := 1; i < len(out); i++ {
		for j := i; j > 0 && out[j] < out[j-1]; j-- {
			out[j], out[j-1] = out[j-1], out[j]
		}
	}
	return out
}
