package main

// Running the real generators: one full push (CDS, EDS for every EDS cluster, LDS, RDS for every
// referenced route name, NDS, ECDS for every referenced extension config) for one proxy.
//
// The generator objects are the exported xDS generators of pilot/pkg/xds (CdsGenerator, LdsGenerator,
// RdsGenerator, EdsGenerator, NdsGenerator, EcdsGenerator) around the ConfigGeneratorImpl of
// core.NewConfigGenTest, called with a forced full PushRequest - exactly what DiscoveryServer
// registers in its Generators map, without the gRPC server around it.

import (
	"fmt"
	"sort"

	cluster "github.com/envoyproxy/go-control-plane/envoy/config/cluster/v3"
	corev3 "github.com/envoyproxy/go-control-plane/envoy/config/core/v3"
	endpoint "github.com/envoyproxy/go-control-plane/envoy/config/endpoint/v3"
	listener "github.com/envoyproxy/go-control-plane/envoy/config/listener/v3"
	route "github.com/envoyproxy/go-control-plane/envoy/config/route/v3"
	discovery "github.com/envoyproxy/go-control-plane/envoy/service/discovery/v3"
	"google.golang.org/protobuf/proto"

	"istio.io/istio/pilot/pkg/model"
	"istio.io/istio/pilot/pkg/networking/core"
	"istio.io/istio/pilot/pkg/xds"
	dnsProto "istio.io/istio/pkg/dns/proto"
	"istio.io/istio/pkg/util/sets"
)

// res is one resource as delivered: the name on the discovery.Resource envelope and the payload.
type res[T proto.Message] struct {
	Envelope string
	Msg      T
}

// snapshot is everything one proxy would be sent by one full push.
type snapshot struct {
	Clusters  []res[*cluster.Cluster]
	Listeners []res[*listener.Listener]
	Routes    []res[*route.RouteConfiguration]
	Endpoints []res[*endpoint.ClusterLoadAssignment]
	Ext       []res[*corev3.TypedExtensionConfig]
	NameTable *dnsProto.NameTable

	RDSRequested  []string // route names referenced by listeners (sorted, distinct)
	EDSRequested  []string // service names of EDS-type clusters (sorted, distinct)
	ECDSRequested []string // extension config names referenced by listeners (sorted, distinct)

	// badPayload lists resources whose Any payload did not unmarshal into the type of its xDS type.
	BadPayload []string
}

func unmarshalAll[T proto.Message](s *snapshot, typ string, rs model.Resources, mk func() T) []res[T] {
	out := make([]res[T], 0, len(rs))
	for _, r := range rs {
		m := mk()
		if r.GetResource() == nil {
			s.BadPayload = append(s.BadPayload, typ+":"+r.GetName()+": nil payload")
			continue
		}
		if err := r.GetResource().UnmarshalTo(m); err != nil {
			s.BadPayload = append(s.BadPayload, typ+":"+r.GetName()+": "+err.Error())
			continue
		}
		out = append(out, res[T]{Envelope: r.GetName(), Msg: m})
	}
	return out
}

func sortedDistinct(in []string) []string {
	m := map[string]bool{}
	for _, s := range in {
		m[s] = true
	}
	out := make([]string, 0, len(m))
	for s := range m {
		out = append(out, s)
	}
	sort.Strings(out)
	return out
}

// generate runs one full push for the proxy against the world's push context.
func generate(cg *core.ConfigGenTest, proxy *model.Proxy) *snapshot {
	push := cg.PushContext()
	req := &model.PushRequest{Forced: true, Push: push, Reason: model.NewReasonStats(model.ProxyRequest)}
	s := &snapshot{}
	none := &model.WatchedResource{ResourceNames: sets.New[string]()}

	cds := xds.CdsGenerator{ConfigGenerator: cg.ConfigGen}
	rs, _, err := cds.Generate(proxy, none, req)
	if err != nil {
		s.BadPayload = append(s.BadPayload, "CDS generator error: "+err.Error())
	}
	s.Clusters = unmarshalAll(s, "CDS", rs, func() *cluster.Cluster { return &cluster.Cluster{} })

	var edsNames []string
	for _, c := range s.Clusters {
		if c.Msg.GetType() == cluster.Cluster_EDS && c.Msg.GetClusterType() == nil {
			n := c.Msg.GetEdsClusterConfig().GetServiceName()
			if n == "" {
				n = c.Msg.GetName()
			}
			edsNames = append(edsNames, n)
		}
	}
	s.EDSRequested = sortedDistinct(edsNames)
	if len(s.EDSRequested) > 0 {
		eds := &xds.EdsGenerator{Cache: model.DisabledCache{}, EndpointIndex: cg.Env().EndpointIndex}
		rs, _, err = eds.Generate(proxy, &model.WatchedResource{ResourceNames: sets.New(s.EDSRequested...)}, req)
		if err != nil {
			s.BadPayload = append(s.BadPayload, "EDS generator error: "+err.Error())
		}
		s.Endpoints = unmarshalAll(s, "EDS", rs, func() *endpoint.ClusterLoadAssignment { return &endpoint.ClusterLoadAssignment{} })
	}

	lds := xds.LdsGenerator{ConfigGenerator: cg.ConfigGen}
	rs, _, err = lds.Generate(proxy, none, req)
	if err != nil {
		s.BadPayload = append(s.BadPayload, "LDS generator error: "+err.Error())
	}
	s.Listeners = unmarshalAll(s, "LDS", rs, func() *listener.Listener { return &listener.Listener{} })

	var rdsNames, ecdsNames []string
	for _, l := range s.Listeners {
		r, e := listenerReferences(l.Msg)
		rdsNames = append(rdsNames, r...)
		ecdsNames = append(ecdsNames, e...)
	}
	s.RDSRequested = sortedDistinct(rdsNames)
	s.ECDSRequested = sortedDistinct(ecdsNames)
	if len(s.RDSRequested) > 0 {
		rds := xds.RdsGenerator{ConfigGenerator: cg.ConfigGen}
		rs, _, err = rds.Generate(proxy, &model.WatchedResource{ResourceNames: sets.New(s.RDSRequested...)}, req)
		if err != nil {
			s.BadPayload = append(s.BadPayload, "RDS generator error: "+err.Error())
		}
		s.Routes = unmarshalAll(s, "RDS", rs, func() *route.RouteConfiguration { return &route.RouteConfiguration{} })
	}
	if len(s.ECDSRequested) > 0 {
		ecds := &xds.EcdsGenerator{ConfigGenerator: cg.ConfigGen}
		rs, _, err = ecds.Generate(proxy, &model.WatchedResource{ResourceNames: sets.New(s.ECDSRequested...)}, req)
		if err != nil {
			s.BadPayload = append(s.BadPayload, "ECDS generator error: "+err.Error())
		}
		s.Ext = unmarshalAll(s, "ECDS", rs, func() *corev3.TypedExtensionConfig { return &corev3.TypedExtensionConfig{} })
	}

	// NDS: istio-agent's DNS table; requested by every proxy, non-empty only with DNS capture.
	nds := xds.NdsGenerator{ConfigGenerator: cg.ConfigGen}
	rs, _, err = nds.Generate(proxy, none, req)
	if err != nil {
		s.BadPayload = append(s.BadPayload, "NDS generator error: "+err.Error())
	}
	for _, r := range rs {
		nt := &dnsProto.NameTable{}
		if err := r.GetResource().UnmarshalTo(nt); err != nil {
			s.BadPayload = append(s.BadPayload, "NDS: "+err.Error())
			continue
		}
		s.NameTable = nt
	}
	return s
}

func (s *snapshot) summary() string {
	return fmt.Sprintf("cds=%d eds=%d/%d lds=%d rds=%d/%d ecds=%d/%d", len(s.Clusters), len(s.Endpoints), len(s.EDSRequested),
		len(s.Listeners), len(s.Routes), len(s.RDSRequested), len(s.Ext), len(s.ECDSRequested))
}

var _ = discovery.Resource{}
