package main

// protoc-gen-validate over a whole resource tree: ValidateAll() on the resource (which descends into
// every embedded message) and, since generated validators stop at google.protobuf.Any, a reflection
// walk that resolves every Any against the global proto registry (all Envoy extension types are
// linked through istio.io/istio/pkg/config/xds) and validates/walks the payload in turn.

import (
	"errors"
	"fmt"
	"regexp"
	"strings"

	"google.golang.org/protobuf/proto"
	"google.golang.org/protobuf/reflect/protoreflect"
	"google.golang.org/protobuf/reflect/protoregistry"
	"google.golang.org/protobuf/types/known/anypb"

	_ "istio.io/istio/pkg/config/xds" // links every Envoy extension type
)

type validatorAll interface{ ValidateAll() error }

type pgvLeaf interface {
	Field() string
	Reason() string
	Cause() error
	ErrorName() string
}

type pgvMulti interface{ AllErrors() []error }

type pgvIssue struct {
	Key string // <ErrorName>.<Field>:<reason without literals>
	Msg string // full path of the chain
}

var (
	quotedRe = regexp.MustCompile(`"[^"]*"`)
	indexRe  = regexp.MustCompile(`\[[^\]]*\]`)
)

// flattenPGV turns a (multi-)error from ValidateAll into its leaf violations.
func flattenPGV(err error, prefix string, out *[]pgvIssue) {
	if err == nil {
		return
	}
	if m, ok := err.(pgvMulti); ok {
		for _, e := range m.AllErrors() {
			flattenPGV(e, prefix, out)
		}
		return
	}
	if l, ok := err.(pgvLeaf); ok {
		path := prefix + "/" + strings.TrimSuffix(l.ErrorName(), "ValidationError") + "." + l.Field()
		if c := l.Cause(); c != nil {
			var inner pgvLeaf
			var innerM pgvMulti
			if errors.As(c, &inner) || errors.As(c, &innerM) {
				flattenPGV(c, path, out)
				return
			}
		}
		field := indexRe.ReplaceAllString(l.Field(), "[]")
		// literals (patterns, offending values) are dropped so that the key is stable and plain ASCII
		reason := strings.Join(strings.Fields(quotedRe.ReplaceAllString(l.Reason(), "")), " ")
		*out = append(*out, pgvIssue{
			Key: strings.TrimSuffix(l.ErrorName(), "ValidationError") + "." + field + ":" + reason,
			Msg: path + ": " + l.Reason(),
		})
		return
	}
	*out = append(*out, pgvIssue{Key: "non-pgv-error", Msg: prefix + ": " + err.Error()})
}

// walker visits every message of a resource tree, looking through Any.
type walker struct {
	visit       func(path string, m proto.Message)
	issues      []pgvIssue
	roots       int            // ValidateAll calls (resource + every resolved Any payload)
	messages    int            // messages visited (each is covered by a ValidateAll of its root)
	anyResolved map[string]int // type URL -> count
	anyUnknown  map[string]int // type URL not in the registry
	anyBroken   []string       // payload does not unmarshal into its declared type
	noValidator map[string]int // message types without generated validator (non-Envoy payloads)
	noValidate  bool           // walk only (reference extraction)
}

func newWalker(visit func(path string, m proto.Message)) *walker {
	return &walker{visit: visit, anyResolved: map[string]int{}, anyUnknown: map[string]int{}, noValidator: map[string]int{}}
}

// root validates one top-level message and walks it.
func (w *walker) root(path string, m proto.Message) {
	if m == nil || !m.ProtoReflect().IsValid() {
		return
	}
	w.roots++
	if w.noValidate {
		w.walk(path, m.ProtoReflect(), 0)
		return
	}
	if v, ok := m.(validatorAll); ok {
		var iss []pgvIssue
		flattenPGV(v.ValidateAll(), path, &iss)
		w.issues = append(w.issues, iss...)
	} else {
		w.noValidator[string(m.ProtoReflect().Descriptor().FullName())]++
	}
	w.walk(path, m.ProtoReflect(), 0)
}

const anyName = protoreflect.FullName("google.protobuf.Any")

func (w *walker) walk(path string, m protoreflect.Message, depth int) {
	if depth > 64 {
		return
	}
	w.messages++
	if w.visit != nil {
		w.visit(path, m.Interface())
	}
	if m.Descriptor().FullName() == anyName {
		a, ok := m.Interface().(*anypb.Any)
		if !ok || a.GetTypeUrl() == "" {
			return
		}
		mt, err := protoregistry.GlobalTypes.FindMessageByURL(a.GetTypeUrl())
		if err != nil {
			w.anyUnknown[a.GetTypeUrl()]++
			return
		}
		inner := mt.New().Interface()
		if err := (proto.UnmarshalOptions{DiscardUnknown: false}).Unmarshal(a.GetValue(), inner); err != nil {
			w.anyBroken = append(w.anyBroken, fmt.Sprintf("%s: %s: %v", path, a.GetTypeUrl(), err))
			return
		}
		w.anyResolved[a.GetTypeUrl()]++
		short := a.GetTypeUrl()
		if i := strings.LastIndex(short, "."); i >= 0 {
			short = short[i+1:]
		}
		w.root(path+"<"+short+">", inner)
		return
	}
	m.Range(func(fd protoreflect.FieldDescriptor, v protoreflect.Value) bool {
		switch {
		case fd.IsMap():
			if fd.MapValue().Kind() != protoreflect.MessageKind && fd.MapValue().Kind() != protoreflect.GroupKind {
				return true
			}
			v.Map().Range(func(k protoreflect.MapKey, mv protoreflect.Value) bool {
				w.walk(fmt.Sprintf("%s.%s[%s]", path, fd.Name(), k.String()), mv.Message(), depth+1)
				return true
			})
		case fd.IsList():
			if fd.Kind() != protoreflect.MessageKind && fd.Kind() != protoreflect.GroupKind {
				return true
			}
			l := v.List()
			for i := 0; i < l.Len(); i++ {
				w.walk(fmt.Sprintf("%s.%s[%d]", path, fd.Name(), i), l.Get(i).Message(), depth+1)
			}
		case fd.Kind() == protoreflect.MessageKind || fd.Kind() == protoreflect.GroupKind:
			w.walk(path+"."+string(fd.Name()), v.Message(), depth+1)
		}
		return true
	})
}
