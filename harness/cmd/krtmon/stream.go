package main

// Event-stream monitor: one recorder per subscriber, checked by a per-key automaton
// {absent, present(v)}.
//
// What is asserted and why (pkg/kube/krt/core.go, EventStream doc): "Events will be sent in
// order, and will not be dropped or deduplicated", Old is "set on Update or Delete", New "on Add
// or Update", and the stream "does not publish events for retrigger operations where the
// resultant object ... is equal to an existing object". Update coalescing is not excluded by that
// text and is accepted here: only per-key chaining (Old == last New) is required, which is what
// "in order, none dropped" means for a consumer that replays the stream.

import (
	"fmt"
	"sync"

	"istio.io/istio/pkg/kube/controllers"
	"istio.io/istio/pkg/kube/krt"
)

const (
	evAdd = iota
	evUpdate
	evDelete
)

var evNames = []string{"add", "update", "delete"}

type Ev struct {
	T        int
	Old, New *Obj
	Batch    int
}

func (e Ev) String() string {
	s := evNames[e.T]
	if e.Old != nil {
		s += " old=" + e.Old.canon()
	}
	if e.New != nil {
		s += " new=" + e.New.canon()
	}
	return s
}

type Sub struct {
	ID       int
	Node     int
	NodeKind string
	Mode     string // register | batch-existing | batch-noexisting
	When     string // early | mid | quiescent
	reg      krt.HandlerRegistration

	mu    sync.Mutex
	evs   []Ev
	batch int

	// checker state (case goroutine only)
	pos     int
	state   map[string]Obj
	unknown bool            // base state unknown (registered mid-burst without existing state)
	touched map[string]bool // keys whose state is known (only when unknown)
	dead    bool            // a violation was already reported for this stream
}

func (s *Sub) record(es []krt.Event[Obj]) {
	s.mu.Lock()
	defer s.mu.Unlock()
	s.batch++
	for _, e := range es {
		v := Ev{Batch: s.batch}
		switch e.Event {
		case controllers.EventAdd:
			v.T = evAdd
		case controllers.EventUpdate:
			v.T = evUpdate
		case controllers.EventDelete:
			v.T = evDelete
		default:
			v.T = -1
		}
		if e.Old != nil {
			o := *e.Old
			v.Old = &o
		}
		if e.New != nil {
			o := *e.New
			v.New = &o
		}
		s.evs = append(s.evs, v)
	}
}

// subscribe registers a recorder on node id. base is the (actual) content at registration for
// batch-noexisting subscribers registered at a quiescent point; nil with unknown=true mid-burst.
func (w *World) subscribe(id int, n *Node, mode, when string, base map[string]Obj, unknown bool) *Sub {
	s := &Sub{ID: id, Node: n.ID, NodeKind: n.Kind, Mode: mode, When: when, state: map[string]Obj{}, unknown: unknown}
	if unknown {
		s.touched = map[string]bool{}
	}
	for k, v := range base {
		s.state[k] = v
	}
	c := w.cols[n.ID]
	switch mode {
	case "register":
		s.reg = c.Register(func(e krt.Event[Obj]) { s.record([]krt.Event[Obj]{e}) })
	case "batch-existing":
		s.reg = c.RegisterBatch(s.record, true)
	default:
		s.reg = c.RegisterBatch(s.record, false)
	}
	return s
}

type streamViolation struct {
	Rule string
	Msg  string
	Pos  int // index of the offending event in the subscriber's stream
}

// advance runs the automaton over the events recorded since the last call.
// noopRule: assert that no Update has Old equal to New (not asserted on static inputs, whose
// UpdateObject is documented to emit unconditionally, unlike ConditionalUpdateObject).
func (s *Sub) advance(noopRule bool) (checked int, vs []streamViolation) {
	s.mu.Lock()
	evs := s.evs[s.pos:]
	s.mu.Unlock()
	seenRule := map[string]bool{}
	fail := func(i int, rule, format string, a ...any) {
		if seenRule[rule] || len(vs) >= 6 {
			return
		}
		seenRule[rule] = true
		ctx := ""
		s.mu.Lock()
		bad := s.evs[s.pos+i]
		key := ""
		if bad.New != nil {
			key = bad.New.ResourceName()
		} else if bad.Old != nil {
			key = bad.Old.ResourceName()
		}
		var hist []string
		for j := 0; j <= s.pos+i; j++ {
			e := s.evs[j]
			if (e.New != nil && e.New.ResourceName() == key) || (e.Old != nil && e.Old.ResourceName() == key) {
				hist = append(hist, fmt.Sprintf("\n  #%d(batch %d) %s", j, e.Batch, e))
			}
		}
		s.mu.Unlock()
		if len(hist) > 8 {
			hist = hist[len(hist)-8:]
		}
		for _, l := range hist {
			ctx += l
		}
		vs = append(vs, streamViolation{Rule: rule, Pos: s.pos + i, Msg: fmt.Sprintf(format, a...) + "; events of this subscriber for the key:" + ctx})
	}
	for i, e := range evs {
		var key string
		switch e.T {
		case evAdd:
			if e.New == nil || e.Old != nil {
				fail(i, "malformed", "add event with New=%v Old=%v", e.New, e.Old)
				continue
			}
			key = e.New.ResourceName()
		case evUpdate:
			if e.New == nil || e.Old == nil {
				fail(i, "malformed", "update event with New=%v Old=%v", e.New, e.Old)
				continue
			}
			key = e.New.ResourceName()
			if e.Old.ResourceName() != key {
				fail(i, "malformed", "update event changes key %s -> %s", e.Old.ResourceName(), key)
				continue
			}
		case evDelete:
			if e.Old == nil || e.New != nil {
				fail(i, "malformed", "delete event with New=%v Old=%v", e.New, e.Old)
				continue
			}
			key = e.Old.ResourceName()
		default:
			fail(i, "malformed", "unknown event type")
			continue
		}
		cur, present := s.state[key]
		known := !s.unknown || s.touched[key]
		switch e.T {
		case evAdd:
			if known && present {
				fail(i, "add-present", "Add for key %s which is already present (duplicate add)", key)
			}
			s.state[key] = *e.New
		case evUpdate:
			if known && !present {
				fail(i, "update-absent", "Update for key %s which is not present", key)
			}
			if known && present && !cur.Equals(*e.Old) {
				fail(i, "update-old-mismatch", "Update for key %s: Old differs from the last delivered object %s", key, cur.canon())
			}
			if noopRule && e.Old.Equals(*e.New) {
				fail(i, "noop-update", "Update for key %s with Old equal to New", key)
			}
			s.state[key] = *e.New
		case evDelete:
			if known && !present {
				fail(i, "delete-absent", "Delete for key %s which is not present", key)
			}
			if known && present && !cur.Equals(*e.Old) {
				fail(i, "delete-old-mismatch", "Delete for key %s: Old differs from the last delivered object %s", key, cur.canon())
			}
			delete(s.state, key)
		}
		if s.unknown {
			s.touched[key] = true
		}
	}
	s.pos += len(evs)
	return len(evs), vs
}

// replayDiff compares the replayed stream with the collection's actual content.
func (s *Sub) replayDiff(actual map[string]Obj) string {
	for _, k := range sortedKeys(actual) {
		if s.unknown && !s.touched[k] {
			continue
		}
		v, ok := s.state[k]
		if !ok {
			return fmt.Sprintf("key %s is in the collection but absent after replaying the stream", k)
		}
		if !v.Equals(actual[k]) {
			return fmt.Sprintf("key %s: collection has %s, replay has %s", k, actual[k].canon(), v.canon())
		}
	}
	for _, k := range sortedKeys(s.state) {
		if _, ok := actual[k]; !ok {
			return fmt.Sprintf("key %s is present after replaying the stream but not in the collection", k)
		}
	}
	return ""
}
