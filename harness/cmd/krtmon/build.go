package main

// krt side: interprets a Program with the public krt API only.

import (
	"fmt"
	"sync/atomic"

	"k8s.io/apimachinery/pkg/types"

	"istio.io/istio/pkg/kube/krt"
)

type World struct {
	p        *Program
	stop     chan struct{}
	cols     []krt.Collection[Obj] // by node id; element i is written once before any reader of it is created
	statics  []*krt.StaticCollection[Obj]
	ssingles []krt.StaticSingleton[Obj]
	singles  []krt.Singleton[Obj]
	outers   []*krt.StaticCollection[krt.Collection[Obj]]
	idx      []krt.Index[string, Obj]
	idxCols  []krt.Collection[krt.IndexObject[string, Obj]]
	built    []bool
	idxBuilt []bool
	calls    atomic.Int64 // transformation invocations (evidence only)
	fetches  atomic.Int64
}

func newWorld(p *Program) *World {
	n := len(p.Nodes)
	return &World{
		p: p, stop: make(chan struct{}),
		cols: make([]krt.Collection[Obj], n), statics: make([]*krt.StaticCollection[Obj], n),
		ssingles: make([]krt.StaticSingleton[Obj], n), singles: make([]krt.Singleton[Obj], n),
		outers: make([]*krt.StaticCollection[krt.Collection[Obj]], n), built: make([]bool, n),
		idx: make([]krt.Index[string, Obj], len(p.Indexes)), idxBuilt: make([]bool, len(p.Indexes)),
		idxCols: make([]krt.Collection[krt.IndexObject[string, Obj]], len(p.Indexes)),
	}
}

func (w *World) opts(name string) []krt.CollectionOption {
	return []krt.CollectionOption{krt.WithStop(w.stop), krt.WithName(name)}
}

func (w *World) fetchOpts(fs []CF) []krt.FetchOption {
	out := make([]krt.FetchOption, 0, len(fs))
	for _, f := range fs {
		f := f
		switch f.Kind {
		case "key":
			out = append(out, krt.FilterKey(f.Keys[0]))
		case "keys":
			out = append(out, krt.FilterKeys(f.Keys...))
		case "objname":
			out = append(out, krt.FilterObjectName(types.NamespacedName{Name: f.Name, Namespace: f.Namespace}))
		case "label":
			out = append(out, krt.FilterLabel(f.M))
		case "selects":
			out = append(out, krt.FilterSelects(f.M))
		case "selectsne":
			out = append(out, krt.FilterSelectsNonEmpty(f.M))
		case "index":
			out = append(out, krt.FilterIndex[string, Obj](w.idx[f.Idx], f.IdxKey))
		case "generic":
			out = append(out, krt.FilterGeneric(func(a any) bool { return genericPred(f, a.(Obj)) }))
		}
	}
	return out
}

func (w *World) concretes(c Clause, in *Obj) []CF {
	fs := make([]CF, 0, len(c.Filters))
	for _, f := range c.Filters {
		fs = append(fs, w.p.concrete(f, in))
	}
	return fs
}

func (w *World) runClauses(ctx krt.HandlerContext, b *Body, in *Obj) [][]Obj {
	w.calls.Add(1)
	res := make([][]Obj, len(b.Clauses))
	for i, c := range b.Clauses {
		w.fetches.Add(1)
		res[i] = krt.Fetch(ctx, w.cols[c.Target], w.fetchOpts(w.concretes(c, in))...)
	}
	return res
}

func (w *World) buildIndex(ix *Index) {
	if w.idxBuilt[ix.ID] {
		return
	}
	by := ix.By
	w.idx[ix.ID] = krt.NewIndex[string, Obj](w.cols[ix.Node], fmt.Sprintf("ix%d", ix.ID), func(o Obj) []string { return indexKeys(by, o) })
	w.idxBuilt[ix.ID] = true
}

// buildNode constructs node n; initial content of inputs comes from in.
func (w *World) buildNode(n *Node, in *Inputs) {
	if w.built[n.ID] {
		return
	}
	p := w.p
	name := fmt.Sprintf("%s%d", n.Kind, n.ID)
	src := func(ids []int) []krt.Collection[Obj] {
		out := make([]krt.Collection[Obj], 0, len(ids))
		for _, id := range ids {
			out = append(out, w.cols[id])
		}
		return out
	}
	// indexes used by this node's body must exist first
	if n.Body != nil {
		for _, c := range n.Body.Clauses {
			for _, f := range c.Filters {
				if f.Kind == "index" {
					w.buildIndex(p.Indexes[f.Idx])
				}
			}
		}
	}
	switch n.Kind {
	case kStatic:
		var init []Obj
		for _, k := range sortedKeys(in.Static[n.ID]) {
			init = append(init, in.Static[n.ID][k])
		}
		sc := krt.NewStaticCollection[Obj](nil, init, w.opts(name)...)
		w.statics[n.ID] = &sc
		w.cols[n.ID] = sc
	case kSSingle:
		s := krt.NewStatic[Obj](in.SSingle[n.ID], true, w.opts(name)...)
		w.ssingles[n.ID] = s
		w.cols[n.ID] = s.AsCollection()
	case kOne:
		w.cols[n.ID] = krt.NewCollection(w.cols[n.Parent], func(ctx krt.HandlerContext, i Obj) *Obj {
			return combineOne(n, i, w.runClauses(ctx, n.Body, &i))
		}, w.opts(name)...)
	case kMany:
		w.cols[n.ID] = krt.NewManyCollection(w.cols[n.Parent], func(ctx krt.HandlerContext, i Obj) []Obj {
			return combineMany(n, i, w.runClauses(ctx, n.Body, &i))
		}, w.opts(name)...)
	case kSingle:
		s := krt.NewSingleton[Obj](func(ctx krt.HandlerContext) *Obj {
			return combineSingle(n, w.runClauses(ctx, n.Body, nil))
		}, w.opts(name)...)
		w.singles[n.ID] = s
		w.cols[n.ID] = s.AsCollection()
	case kIdxOne:
		ix := p.Indexes[n.Parent]
		w.buildIndex(ix)
		ic := w.idx[ix.ID].AsCollection(w.opts(fmt.Sprintf("ixc%d", n.ID))...)
		w.idxCols[ix.ID] = ic
		w.cols[n.ID] = krt.NewCollection(ic, func(ctx krt.HandlerContext, io krt.IndexObject[string, Obj]) *Obj {
			return combineIdx(n, io.Key, io.Objects, w.runClauses(ctx, n.Body, nil))
		}, w.opts(name)...)
	case kMap:
		w.cols[n.ID] = krt.MapCollection(w.cols[n.Parent], func(o Obj) Obj { return mapFn(n, o) }, w.opts(name)...)
	case kJoin:
		w.cols[n.ID] = krt.JoinCollection(src(n.Srcs), w.opts(name)...)
	case kJoinU:
		w.cols[n.ID] = krt.JoinCollection(src(n.Srcs), append(w.opts(name), krt.WithJoinUnchecked())...)
	case kMerge:
		w.cols[n.ID] = krt.JoinWithMergeCollection(src(n.Srcs), mergeFn, w.opts(name)...)
	case kNested:
		outer := krt.NewStaticCollection[krt.Collection[Obj]](nil, src(in.Nested[n.ID]), w.opts(name+"outer")...)
		w.outers[n.ID] = &outer
		w.cols[n.ID] = krt.NestedJoinWithMergeCollection[Obj](outer, mergeFn, w.opts(name)...)
	}
	w.built[n.ID] = true
}

// apply executes one history operation against the krt inputs.
func (w *World) apply(op *Op) {
	switch op.Kind {
	case "upd":
		w.statics[op.Node].UpdateObject(*op.Obj)
	case "cupd":
		w.statics[op.Node].ConditionalUpdateObject(*op.Obj)
	case "del":
		w.statics[op.Node].DeleteObject(op.Key)
	case "reset":
		w.statics[op.Node].Reset(op.Objs)
	case "delobjs":
		ks := map[string]bool{}
		for _, o := range op.Objs {
			ks[o.ResourceName()] = true
		}
		w.statics[op.Node].DeleteObjects(func(o Obj) bool { return ks[o.ResourceName()] })
	case "sset":
		w.ssingles[op.Node].Set(op.Obj)
	case "nadd":
		w.outers[op.Node].UpdateObject(w.cols[op.Member])
	case "ndel":
		w.outers[op.Node].DeleteObject(krt.GetKey[krt.Collection[Obj]](w.cols[op.Member]))
	case "ndelm":
		ks := map[string]bool{}
		for _, m := range op.Members {
			ks[krt.GetKey[krt.Collection[Obj]](w.cols[m])] = true
		}
		w.outers[op.Node].DeleteObjects(func(c krt.Collection[Obj]) bool { return ks[krt.GetKey[krt.Collection[Obj]](c)] })
	}
}
