package main

// Reference recomputation: evaluates a Program over plain maps. No krt imports, no shared code
// with krt: filters are re-implemented from the documented semantics (README "Fetch details" and
// the doc comments of the Filter* constructors).

import "sort"

// Inputs is the harness's own model of the input collections.
type Inputs struct {
	Static  map[int]map[string]Obj // static collection node -> key -> object
	SSingle map[int]*Obj           // static singleton node -> value
	Nested  map[int][]int          // nested node -> current member nodes
}

func (in *Inputs) clone() *Inputs {
	c := &Inputs{Static: map[int]map[string]Obj{}, SSingle: map[int]*Obj{}, Nested: map[int][]int{}}
	for k, m := range in.Static {
		mm := make(map[string]Obj, len(m))
		for kk, v := range m {
			mm[kk] = v
		}
		c.Static[k] = mm
	}
	for k, v := range in.SSingle {
		c.SSingle[k] = v
	}
	for k, v := range in.Nested {
		c.Nested[k] = append([]int(nil), v...)
	}
	return c
}

type RefState map[int]map[string]Obj

// refMatch: does object o pass concrete filter f?
//
//	FilterKey/FilterKeys/FilterObjectName: the object's key is (one of) the given key(s).
//	FilterLabel(l): "only objects that match these labels" — every pair of l is in the object's labels; empty l matches all.
//	FilterSelects(l): "only objects that select these labels. An empty selector matches everything."
//	FilterSelectsNonEmpty(l): same, but "an empty selector matches nothing".
//	FilterIndex(idx,k): objects for which the index's extract function yields k.
//	FilterGeneric(f): f(o).
func (p *Program) refMatch(f CF, o Obj) bool {
	switch f.Kind {
	case "key", "keys":
		k := o.ResourceName()
		for _, w := range f.Keys {
			if w == k {
				return true
			}
		}
		return false
	case "objname":
		return o.Name == f.Name && o.Namespace == f.Namespace
	case "label":
		return subset(f.M, o.Labels)
	case "selects":
		return subset(o.Selector, f.M)
	case "selectsne":
		return len(o.Selector) > 0 && subset(o.Selector, f.M)
	case "index":
		for _, k := range indexKeys(p.Indexes[f.Idx].By, o) {
			if k == f.IdxKey {
				return true
			}
		}
		return false
	case "generic":
		return genericPred(f, o)
	}
	return true
}

func (p *Program) refFetch(st RefState, target int, fs []CF) []Obj {
	var out []Obj
	m := st[target]
	for _, k := range sortedKeys(m) {
		o := m[k]
		ok := true
		for _, f := range fs {
			if !p.refMatch(f, o) {
				ok = false
				break
			}
		}
		if ok {
			out = append(out, o)
		}
	}
	return out
}

func (p *Program) refClauses(st RefState, b *Body, in *Obj) [][]Obj {
	res := make([][]Obj, len(b.Clauses))
	for i, c := range b.Clauses {
		fs := make([]CF, 0, len(c.Filters))
		for _, f := range c.Filters {
			fs = append(fs, p.concrete(f, in))
		}
		res[i] = p.refFetch(st, c.Target, fs)
	}
	return res
}

// refIndex groups a node's objects by index key.
func (p *Program) refIndex(st RefState, ix *Index) map[string][]Obj {
	out := map[string][]Obj{}
	m := st[ix.Node]
	for _, k := range sortedKeys(m) {
		seen := map[string]bool{}
		for _, ik := range indexKeys(ix.By, m[k]) {
			if !seen[ik] {
				seen[ik] = true
				out[ik] = append(out[ik], m[k])
			}
		}
	}
	return out
}

// eval computes every node (that exists: late nodes only when includeLate) from the inputs.
// dupKeys reports many-collection output keys produced by more than one parent at the same
// time: the generator's histories must never make that happen (uniqueness precondition of krt).
func (p *Program) eval(in *Inputs, includeLate bool) (st RefState, dupKeys []string) {
	st = RefState{}
	for _, n := range p.Nodes {
		if n.Late && !includeLate {
			continue
		}
		out := map[string]Obj{}
		switch n.Kind {
		case kStatic:
			for k, v := range in.Static[n.ID] {
				out[k] = v
			}
		case kSSingle:
			if v := in.SSingle[n.ID]; v != nil {
				out[v.ResourceName()] = *v
			}
		case kOne:
			par := st[n.Parent]
			for _, k := range sortedKeys(par) {
				i := par[k]
				if o := combineOne(n, i, p.refClauses(st, n.Body, &i)); o != nil {
					out[o.ResourceName()] = *o
				}
			}
		case kMany:
			par := st[n.Parent]
			for _, k := range sortedKeys(par) {
				i := par[k]
				for _, o := range combineMany(n, i, p.refClauses(st, n.Body, &i)) {
					if _, dup := out[o.ResourceName()]; dup {
						dupKeys = append(dupKeys, o.ResourceName())
					}
					out[o.ResourceName()] = o
				}
			}
		case kSingle:
			if o := combineSingle(n, p.refClauses(st, n.Body, nil)); o != nil {
				out[o.ResourceName()] = *o
			}
		case kIdxOne:
			g := p.refIndex(st, p.Indexes[n.Parent])
			for _, ik := range sortedKeys(g) {
				if o := combineIdx(n, ik, g[ik], p.refClauses(st, n.Body, nil)); o != nil {
					out[o.ResourceName()] = *o
				}
			}
		case kMap:
			for k, v := range st[n.Parent] {
				out[k] = mapFn(n, v)
			}
		case kJoin, kJoinU:
			// "Key conflicts are resolved by picking the item produced by the first collections in the list"
			for i := len(n.Srcs) - 1; i >= 0; i-- {
				for k, v := range st[n.Srcs[i]] {
					out[k] = v
				}
			}
		case kMerge, kNested:
			srcs := n.Srcs
			if n.Kind == kNested {
				srcs = in.Nested[n.ID]
			}
			all := map[string][]Obj{}
			for _, s := range srcs {
				for k, v := range st[s] {
					all[k] = append(all[k], v)
				}
			}
			for k, ts := range all {
				if o := mergeFn(ts); o != nil {
					out[k] = *o
				}
			}
		}
		st[n.ID] = out
	}
	sort.Strings(dupKeys)
	return st, dupKeys
}
