package main

// State monitor: at a quiescent point, everything readable through the public API of every
// collection must equal the reference recomputation from the current inputs.

import (
	"fmt"
	"math/rand"
	"sort"
	"strings"

	"istio.io/istio/pkg/kube/krt"
)

type mismatch struct {
	Monitor string // state-list state-getkey index-lookup fetch singleton-get indexcollection
	Node    int
	Kind    string
	Msg     string
}

type stateStats struct {
	Comparisons, Objects, GetKeys, Lookups, Fetches, NonEmptyDerived int
	FilterKinds                                                      map[string]bool
}

func toMap(l []Obj) (map[string]Obj, string) {
	m := make(map[string]Obj, len(l))
	dup := ""
	for _, o := range l {
		k := o.ResourceName()
		if _, ok := m[k]; ok {
			dup = k
		}
		m[k] = o
	}
	return m, dup
}

func diffMaps(want, got map[string]Obj) string {
	var d []string
	for _, k := range sortedKeys(want) {
		g, ok := got[k]
		if !ok {
			d = append(d, "missing "+want[k].canon())
		} else if !g.Equals(want[k]) {
			d = append(d, "differs want="+want[k].canon()+" got="+g.canon())
		}
	}
	for _, k := range sortedKeys(got) {
		if _, ok := want[k]; !ok {
			d = append(d, "extra "+got[k].canon())
		}
	}
	if len(d) > 6 {
		d = append(d[:6], fmt.Sprintf("… (%d differences)", len(d)))
	}
	return strings.Join(d, "; ")
}

type seen struct {
	keys map[int]map[string]bool // node -> keys that ever existed
	idx  map[int]map[string]bool // index -> index keys that ever existed
}

func newSeen() *seen { return &seen{keys: map[int]map[string]bool{}, idx: map[int]map[string]bool{}} }

func (s *seen) add(m map[int]map[string]bool, id int, k string) {
	if m[id] == nil {
		m[id] = map[string]bool{}
	}
	m[id][k] = true
}

// checkState compares every built node with the reference state. r drives the choice of probe filters.
func (w *World) checkState(ref RefState, sn *seen, r *rand.Rand, st *stateStats) (out []mismatch, actual map[int]map[string]Obj) {
	p := w.p
	actual = map[int]map[string]Obj{}
	add := func(mon string, n *Node, format string, a ...any) {
		out = append(out, mismatch{Monitor: mon, Node: n.ID, Kind: n.Kind, Msg: fmt.Sprintf("node %d (%s): ", n.ID, n.Kind) + fmt.Sprintf(format, a...)})
	}
	for _, n := range p.Nodes {
		if !w.built[n.ID] {
			continue
		}
		col := w.cols[n.ID]
		want := ref[n.ID]
		st.Comparisons++
		st.Objects += len(want)
		if len(want) > 0 && n.Kind != kStatic && n.Kind != kSSingle {
			st.NonEmptyDerived++
		}
		// List
		got, dup := toMap(col.List())
		actual[n.ID] = got
		if dup != "" {
			add("state-list-duplicate", n, "List() returns key %s more than once", dup)
		}
		if d := diffMaps(want, got); d != "" {
			add("state-list", n, "List() != reference: %s", d)
		}
		// GetKey: all known keys, keys that existed earlier, and unknown keys
		for k := range want {
			sn.add(sn.keys, n.ID, k)
		}
		keys := sortedKeys(sn.keys[n.ID])
		keys = append(keys, "zz/unknown", "unknown", p.randKeyIn(r)+"x")
		if n.Kind == kSSingle {
			// krt.NewStatic ignores the key in GetKey (singleton.go: static.GetKey); it is an input, not a derived
			// collection, and is only read through List()/Get() here.
			keys = nil
		}
		for _, k := range keys {
			st.GetKeys++
			g := col.GetKey(k)
			wv, ok := want[k]
			switch {
			case ok && g == nil:
				add("state-getkey", n, "GetKey(%s) = nil, reference has %s", k, wv.canon())
			case ok && !g.Equals(wv):
				add("state-getkey", n, "GetKey(%s) = %s, reference has %s", k, g.canon(), wv.canon())
			case !ok && g != nil:
				add("state-getkey", n, "GetKey(%s) = %s, reference has no such key", k, g.canon())
			}
		}
		if s := w.singles[n.ID]; s != nil {
			g := s.Get()
			if (g == nil) != (len(want) == 0) {
				add("singleton-get", n, "Get() nil=%v but reference has %d objects", g == nil, len(want))
			} else if g != nil {
				if wv, ok := want[g.ResourceName()]; !ok || !wv.Equals(*g) {
					add("singleton-get", n, "Get() = %s differs from reference", g.canon())
				}
			}
		}
		// filtered fetch (no context: a one-time query through the same Fetch code path)
		for i := 0; i < 2; i++ {
			var in *Obj
			shape := ""
			if ks := sortedKeys(ref[0]); len(ks) > 0 && r.Intn(2) == 0 {
				o := ref[0][ks[r.Intn(len(ks))]]
				in, shape = &o, shIn
			}
			var fs []CF
			var kinds []string
			for _, f := range p.genProbeFilters(r, n.ID, shape, w) {
				fs = append(fs, p.concrete(f, in))
				kinds = append(kinds, f.Kind)
			}
			sort.Strings(kinds)
			if len(kinds) == 0 {
				kinds = []string{"all"}
			}
			st.FilterKinds["probe:"+strings.Join(kinds, "+")] = true
			st.Fetches++
			gotF, dupF := toMap(krt.FetchOrList[Obj](nil, col, w.fetchOpts(fs)...))
			wantF, _ := toMap(p.refFetch(ref, n.ID, fs))
			if dupF != "" {
				add("fetch-duplicate", n, "Fetch(%v) returns key %s twice", fs, dupF)
			}
			if d := diffMaps(wantF, gotF); d != "" {
				mon := "fetch"
				for _, f := range fs {
					if f.Kind == "selects" && f.M == nil {
						mon = "fetch-selects-nil"
					}
				}
				add(mon, n, "Fetch(%v) != reference filter: %s", fs, d)
			}
		}
	}
	// indexes
	for _, ix := range p.Indexes {
		if !w.idxBuilt[ix.ID] {
			continue
		}
		n := p.node(ix.Node)
		g := p.refIndex(ref, ix)
		for k := range g {
			sn.add(sn.idx, ix.ID, k)
		}
		keys := append(sortedKeys(sn.idx[ix.ID]), "zz-unknown")
		for _, k := range keys {
			st.Lookups++
			gotL, dup := toMap(w.idx[ix.ID].Lookup(k))
			wantL, _ := toMap(g[k])
			if dup != "" {
				add("index-lookup-duplicate", n, "index %d (%s) Lookup(%s) returns object %s twice", ix.ID, ix.By, k, dup)
			}
			if d := diffMaps(wantL, gotL); d != "" {
				add("index-lookup", n, "index %d (%s) Lookup(%s) != reference: %s", ix.ID, ix.By, k, d)
			}
		}
		if ic := w.idxCols[ix.ID]; ic != nil {
			// Index.AsCollection: List and GetKey are promised (events are documented as imprecise and not monitored)
			gotKeys := map[string]bool{}
			for _, io := range ic.List() {
				gotKeys[io.Key] = true
				gm, _ := toMap(io.Objects)
				wm, _ := toMap(g[io.Key])
				if d := diffMaps(wm, gm); d != "" {
					add("indexcollection", n, "index %d AsCollection().List() entry %s != reference: %s", ix.ID, io.Key, d)
				}
			}
			for k := range g {
				if !gotKeys[k] {
					add("indexcollection", n, "index %d AsCollection().List() lacks key %s", ix.ID, k)
				}
			}
			for _, k := range keys {
				io := ic.GetKey(k)
				if (io == nil) != (len(g[k]) == 0) {
					add("indexcollection", n, "index %d AsCollection().GetKey(%s) nil=%v, reference has %d objects", ix.ID, k, io == nil, len(g[k]))
				}
			}
		}
	}
	return out, actual
}

// genProbeFilters draws filters for a monitor-side query; index filters only use indexes that exist.
func (p *Program) genProbeFilters(r *rand.Rand, target int, shape string, w *World) []Filt {
	nIdx := len(p.Indexes)
	fs := p.genFilters(r, target, shape, true)
	// genFilters may have appended fresh indexes; the monitor must not change the program
	p.Indexes = p.Indexes[:nIdx]
	var out []Filt
	for _, f := range fs {
		if f.Kind == "index" && (f.Idx >= nIdx || !w.idxBuilt[f.Idx]) {
			continue
		}
		out = append(out, f)
	}
	return out
}
