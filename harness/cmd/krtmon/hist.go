package main

// History generator. No krt imports. Every mutator goroutine owns a disjoint slice of the key
// space (and of the child-name space), so the model after a phase is independent of the
// interleaving, and a many-collection output key is produced by at most one parent at every
// instant of every interleaving (krt's uniqueness precondition).

import (
	"fmt"
	"hash/fnv"
	"math/rand"
	"sort"
	"strconv"
)

type Op struct {
	Node    int
	Kind    string // upd cupd del reset delobjs sset nadd ndel ndelm sub
	Obj     *Obj   `json:",omitempty"`
	Key     string `json:",omitempty"`
	Objs    []Obj  `json:",omitempty"`
	Member  int    `json:",omitempty"`
	Members []int  `json:",omitempty"` // ndelm: members leaving the outer collection in one batch (DeleteObjects)
	SubN    int    `json:",omitempty"` // sub: node to subscribe to
	SubM    string `json:",omitempty"` // sub: mode
}

func (o Op) String() string {
	switch o.Kind {
	case "upd", "cupd":
		return fmt.Sprintf("%s n%d %s", o.Kind, o.Node, o.Obj.canon())
	case "del":
		return fmt.Sprintf("del n%d %s", o.Node, o.Key)
	case "sset":
		if o.Obj == nil {
			return fmt.Sprintf("sset n%d nil", o.Node)
		}
		return fmt.Sprintf("sset n%d %s", o.Node, o.Obj.canon())
	case "reset", "delobjs":
		s := fmt.Sprintf("%s n%d", o.Kind, o.Node)
		for _, x := range o.Objs {
			s += " [" + x.canon() + "]"
		}
		return s
	case "nadd", "ndel":
		return fmt.Sprintf("%s n%d member=%d", o.Kind, o.Node, o.Member)
	case "ndelm":
		return fmt.Sprintf("ndelm n%d members=%v", o.Node, o.Members)
	}
	return fmt.Sprintf("sub node=%d mode=%s", o.SubN, o.SubM)
}

type histGen struct {
	r       *rand.Rand
	p       *Program
	model   *Inputs
	valCtr  int
	nChild  int
	kinds   map[string]int // op pattern counters (evidence)
	exists  func(id int) bool
	statics []int
	// startOwner: for every child name attached to some object when the phase began, the mutator owning that
	// object. Only that mutator can detach it during the phase, so only that mutator may re-attach it: otherwise
	// a concurrent schedule could attach it to a second parent before the first one let go.
	startOwner map[string]int
}

func (g *histGen) beginPhase(M int) {
	g.startOwner = map[string]int{}
	for _, s := range g.statics {
		for k, o := range g.model.Static[s] {
			for _, c := range o.Refs {
				g.startOwner[c] = ownerOf(k, M)
			}
		}
	}
}

func ownerOf(s string, m int) int {
	if m <= 1 {
		return 0
	}
	f := fnv.New32a()
	f.Write([]byte(s))
	return int(f.Sum32() % uint32(m))
}

func (g *histGen) nextVal() string { g.valCtr++; return "v" + strconv.Itoa(g.valCtr) }

func (g *histGen) randLabels() map[string]string {
	r := g.r
	m := map[string]string{}
	for _, k := range labelKeys {
		if r.Intn(2) == 0 {
			m[k] = labelVals[r.Intn(len(labelVals))]
		}
	}
	if r.Intn(2) == 0 {
		m["owner"] = g.p.randKeyIn(r)
	}
	if r.Intn(7) == 0 {
		m["drop"] = "1"
	}
	if len(m) == 0 && g.p.SelNil {
		return nil
	}
	return m
}

func (g *histGen) randSelector() map[string]string {
	n := g.r.Intn(3)
	if n == 0 {
		if g.r.Intn(2) == 0 {
			return nil
		}
		return map[string]string{}
	}
	return parseKV(randKV(g.r, n))
}

// childFree lists the child names of static s owned by mutator m that no live object lists.
func (g *histGen) childFree(s, m, M int) []string {
	used := map[string]bool{}
	for _, o := range g.model.Static[s] {
		for _, c := range o.Refs {
			used[c] = true
		}
	}
	var out []string
	for j := 0; j < g.nChild; j++ {
		c := fmt.Sprintf("s%d-c%d", s, j)
		if so, attached := g.startOwner[c]; attached && so != m {
			continue
		}
		if !used[c] && ownerOf(c, M) == m {
			out = append(out, c)
		}
	}
	return out
}

func without(s []string, x string) []string {
	var out []string
	for _, v := range s {
		if v != x {
			out = append(out, v)
		}
	}
	return out
}

func (g *histGen) upd(s int, o Obj) Op {
	o = mk(o)
	g.model.Static[s][o.ResourceName()] = o
	k := "upd"
	if g.r.Intn(10) < 3 {
		k = "cupd"
	}
	return Op{Node: s, Kind: k, Obj: &o}
}

func (g *histGen) del(s int, key string) Op {
	delete(g.model.Static[s], key)
	return Op{Node: s, Kind: "del", Key: key}
}

// genMutator produces n operations for mutator m of M, updating the model.
func (g *histGen) genMutator(m, M, n int) []Op {
	r := g.r
	var ops []Op
	ownedKeys := func() []string {
		var ks []string
		for ns := 0; ns < g.p.NS; ns++ {
			for nm := 0; nm < g.p.Names; nm++ {
				k := fmt.Sprintf("ns%d/n%d", ns, nm)
				if ownerOf(k, M) == m {
					ks = append(ks, k)
				}
			}
		}
		return ks
	}()
	if len(ownedKeys) == 0 {
		return nil
	}
	for len(ops) < n {
		s := g.statics[r.Intn(len(g.statics))]
		key := ownedKeys[r.Intn(len(ownedKeys))]
		var ns, nm string
		for i := range key {
			if key[i] == '/' {
				ns, nm = key[:i], key[i+1:]
			}
		}
		cur, present := g.model.Static[s][key]
		if !present {
			g.kinds["add"]++
			o := Obj{Name: nm, Namespace: ns, Labels: g.randLabels(), Selector: g.randSelector(), Val: g.nextVal()}
			if fr := g.childFree(s, m, M); len(fr) > 0 && r.Intn(2) == 0 {
				o.Refs = []string{fr[r.Intn(len(fr))]}
			}
			ops = append(ops, g.upd(s, o))
			continue
		}
		switch k := r.Intn(100); {
		case k < 14:
			g.kinds["update-val"]++
			cur.Val = g.nextVal()
			ops = append(ops, g.upd(s, cur))
		case k < 22:
			g.kinds["noop-update"]++
			ops = append(ops, g.upd(s, cur))
		case k < 40:
			g.kinds["label-change"]++
			l := copyMap(cur.Labels)
			if l == nil {
				l = map[string]string{}
			}
			lk := labelKeys[r.Intn(len(labelKeys))]
			if _, ok := l[lk]; ok && r.Intn(2) == 0 {
				delete(l, lk)
			} else {
				l[lk] = labelVals[r.Intn(len(labelVals))]
			}
			if len(l) == 0 && g.p.SelNil {
				l = nil
			}
			cur.Labels = l
			ops = append(ops, g.upd(s, cur))
		case k < 47:
			g.kinds["selector-change"]++
			cur.Selector = g.randSelector()
			ops = append(ops, g.upd(s, cur))
		case k < 55:
			g.kinds["owner-change"]++
			cur.Labels = withLabel(cur.Labels, "owner", g.p.randKeyIn(r))
			ops = append(ops, g.upd(s, cur))
		case k < 59:
			g.kinds["drop-toggle"]++
			l := copyMap(cur.Labels)
			if _, ok := l["drop"]; ok {
				delete(l, "drop")
				if len(l) == 0 && g.p.SelNil {
					l = nil
				}
			} else {
				l = withLabel(l, "drop", "1")
			}
			cur.Labels = l
			ops = append(ops, g.upd(s, cur))
		case k < 65:
			if fr := g.childFree(s, m, M); len(fr) > 0 {
				g.kinds["child-add"]++
				cur.Refs = append(append([]string(nil), cur.Refs...), fr[r.Intn(len(fr))])
				ops = append(ops, g.upd(s, cur))
			}
		case k < 69:
			if len(cur.Refs) > 0 {
				g.kinds["child-remove"]++
				cur.Refs = without(cur.Refs, cur.Refs[r.Intn(len(cur.Refs))])
				ops = append(ops, g.upd(s, cur))
			}
		case k < 77:
			// move a child to another parent owned by the same mutator: first drop, then add
			if len(cur.Refs) == 0 {
				break
			}
			var others []string
			for _, ok := range ownedKeys {
				if _, pr := g.model.Static[s][ok]; pr && ok != key {
					others = append(others, ok)
				}
			}
			if len(others) == 0 {
				break
			}
			g.kinds["child-move"]++
			c := cur.Refs[r.Intn(len(cur.Refs))]
			cur.Refs = without(cur.Refs, c)
			ops = append(ops, g.upd(s, cur))
			if r.Intn(3) == 0 { // an unrelated touch of the source in between
				cur.Val = g.nextVal()
				ops = append(ops, g.upd(s, cur))
			}
			dst := g.model.Static[s][others[r.Intn(len(others))]]
			dst.Refs = append(append([]string(nil), dst.Refs...), c)
			ops = append(ops, g.upd(s, dst))
		case k < 85:
			g.kinds["delete"]++
			ops = append(ops, g.del(s, key))
		case k < 91:
			g.kinds["delete-then-add"]++
			ops = append(ops, g.del(s, key))
			if r.Intn(2) == 0 {
				cur.Val = g.nextVal()
			}
			ops = append(ops, g.upd(s, cur))
		default:
			g.kinds["rapid-flip"]++
			alt := cur
			switch r.Intn(3) {
			case 0:
				alt.Val = g.nextVal()
			case 1:
				alt.Labels = withLabel(cur.Labels, "app", labelVals[r.Intn(len(labelVals))])
			default:
				alt.Labels = withLabel(cur.Labels, "owner", g.p.randKeyIn(r))
			}
			for i, k := 0, 3+r.Intn(6); i < k; i++ {
				if i%2 == 0 {
					ops = append(ops, g.upd(s, alt))
				} else if r.Intn(4) == 0 {
					ops = append(ops, g.del(s, key))
				} else {
					ops = append(ops, g.upd(s, cur))
				}
			}
		}
	}
	return ops
}

// genSide produces operations on the side inputs (static singletons, nested membership). They
// touch parts of the model no mutator touches, so they may be interleaved anywhere, but only one
// goroutine issues them (NewStatic.Set calls handlers synchronously on the caller).
// genBulk produces whole-collection Reset / DeleteObjects operations; they are generated and
// executed at a fixed position of a sequential phase.
func (g *histGen) genSide() []Op { return g.genGlobal(false, true) }
func (g *histGen) genBulk() []Op { return g.genGlobal(true, false) }

func (g *histGen) genGlobal(bulk, side bool) []Op {
	r := g.r
	var ops []Op
	for _, n := range g.p.Nodes {
		if !g.exists(n.ID) {
			continue
		}
		if (n.Kind == kStatic) != bulk {
			continue
		}
		switch n.Kind {
		case kSSingle:
			for i := 0; i < r.Intn(4); i++ {
				g.kinds["singleton-set"]++
				if r.Intn(5) == 0 {
					g.model.SSingle[n.ID] = nil
					ops = append(ops, Op{Node: n.ID, Kind: "sset"})
					continue
				}
				o := mk(Obj{Name: "ss" + strconv.Itoa(n.ID), Namespace: "single", Labels: g.randLabels(), Val: g.nextVal()})
				g.model.SSingle[n.ID] = &o
				ops = append(ops, Op{Node: n.ID, Kind: "sset", Obj: &o})
			}
		case kNested:
			// at most one membership change per join and phase: they are executed after the phase, the first of a
			// round at a quiescent point (see main.go, which may add batch removals "ndelm" from a PRNG stream of its own)
			for i := 0; i < r.Intn(2); i++ {
				cur := g.model.Nested[n.ID]
				var cands []int
				for _, c := range g.p.Nodes {
					if c.ID < n.ID && c.Shape == shIn && g.exists(c.ID) && c.Kind != kSSingle {
						cands = append(cands, c.ID)
					}
				}
				c := cands[r.Intn(len(cands))]
				in := false
				for _, x := range cur {
					if x == c {
						in = true
					}
				}
				if in && len(cur) > 1 {
					g.kinds["nested-remove"]++
					var nc []int
					for _, x := range cur {
						if x != c {
							nc = append(nc, x)
						}
					}
					g.model.Nested[n.ID] = nc
					ops = append(ops, Op{Node: n.ID, Kind: "ndel", Member: c})
				} else if !in {
					g.kinds["nested-add"]++
					g.model.Nested[n.ID] = append(append([]int(nil), cur...), c)
					ops = append(ops, Op{Node: n.ID, Kind: "nadd", Member: c})
				}
			}
		case kStatic:
			if r.Intn(3) != 0 {
				continue
			}
			m := g.model.Static[n.ID]
			ks := sortedKeys(m)
			if len(ks) == 0 {
				continue
			}
			if r.Intn(2) == 0 {
				g.kinds["delete-objects"]++
				var objs []Obj
				for _, k := range ks {
					if r.Intn(3) == 0 {
						objs = append(objs, m[k])
						delete(m, k)
					}
				}
				if len(objs) > 0 {
					ops = append(ops, Op{Node: n.ID, Kind: "delobjs", Objs: objs})
				}
			} else {
				// Reset to a shuffled new state: some objects dropped, some changed, refs may move
				// between parents within the one atomic step.
				g.kinds["reset"]++
				var objs []Obj
				var freed []string
				for _, k := range ks {
					o := m[k]
					switch r.Intn(4) {
					case 0:
						freed = append(freed, o.Refs...)
						delete(m, k)
						continue
					case 1:
						o.Val = g.nextVal()
					case 2:
						if len(o.Refs) > 0 {
							freed = append(freed, o.Refs[0])
							o.Refs = without(o.Refs, o.Refs[0])
						}
					}
					objs = append(objs, o)
				}
				for _, c := range freed {
					if len(objs) > 0 && r.Intn(2) == 0 {
						i := r.Intn(len(objs))
						objs[i].Refs = append(append([]string(nil), objs[i].Refs...), c)
					}
				}
				r.Shuffle(len(objs), func(i, j int) { objs[i], objs[j] = objs[j], objs[i] })
				for i := range objs {
					objs[i] = mk(objs[i])
					m[objs[i].ResourceName()] = objs[i]
				}
				ops = append(ops, Op{Node: n.ID, Kind: "reset", Objs: objs})
			}
		}
	}
	return ops
}

// interleave merges b into a at random positions, keeping both orders.
func interleave(r *rand.Rand, a, b []Op) []Op {
	if len(b) == 0 {
		return a
	}
	pos := make([]int, len(b))
	for i := range pos {
		pos[i] = r.Intn(len(a) + 1)
	}
	sort.Ints(pos)
	out := make([]Op, 0, len(a)+len(b))
	j := 0
	for i := 0; i <= len(a); i++ {
		for j < len(b) && pos[j] == i {
			out = append(out, b[j])
			j++
		}
		if i < len(a) {
			out = append(out, a[i])
		}
	}
	return out
}
