package main

// Minimal reproductions of what the monitor reports on the unchanged tree, against the real
// krt code and nothing else:   /verif/bin/krtmon repro
// Each scenario prints what the property requires and what was observed.

import (
	"fmt"
	"os"
	"sort"
	"strings"
	"sync"
	"time"

	"istio.io/istio/pkg/kube/krt"
)

type recorder struct {
	mu  sync.Mutex
	evs []string
}

func (r *recorder) rec(e krt.Event[Obj]) {
	r.mu.Lock()
	defer r.mu.Unlock()
	s := e.Event.String() + " " + krt.GetKey(e.Latest())
	if e.Old != nil {
		s += " old.Val=" + e.Old.Val
	}
	if e.New != nil {
		s += " new.Val=" + e.New.Val
	}
	r.evs = append(r.evs, s)
}

func (r *recorder) get() []string {
	r.mu.Lock()
	defer r.mu.Unlock()
	return append([]string(nil), r.evs...)
}

func idle() {
	var st idleStats
	if !waitIdle(&st, 30*time.Second) {
		panic("not idle: " + st.Busy)
	}
}

func keysOf(l []Obj) string {
	var s []string
	for _, o := range l {
		s = append(s, o.ResourceName()+"="+o.Val)
	}
	sort.Strings(s)
	return "[" + strings.Join(s, " ") + "]"
}

func firstVal(ts []Obj) *Obj { // merge: keep the first, count the candidates
	o := ts[0]
	o.Val = fmt.Sprintf("%s(merged %d)", o.Val, len(ts))
	o = mk(o)
	return &o
}

// reproCrash: removing a member collection from a NestedJoinWithMergeCollection while that member
// loses a key whose add the join has not processed yet => nil dereference in
// nestedjoinmerge.go handleCollectionDelete (`*oldCollectionValue.GetKey(keyString)`), on a krt
// goroutine, i.e. the process dies.   /verif/bin/krtmon repro crash
func reproCrash() {
	obj := func(name, val string) Obj { return mk(Obj{Name: name, Namespace: "ns", Val: val}) }
	for i := 0; i < 200000; i++ {
		stop := make(chan struct{})
		a := krt.NewStaticCollection[Obj](nil, nil, krt.WithStop(stop))
		b := krt.NewStaticCollection[Obj](nil, nil, krt.WithStop(stop))
		outer := krt.NewStaticCollection[krt.Collection[Obj]](nil, []krt.Collection[Obj]{a, b}, krt.WithStop(stop))
		n := krt.NestedJoinWithMergeCollection[Obj](outer, firstVal, krt.WithStop(stop))
		n.WaitUntilSynced(stop)
		var wg sync.WaitGroup
		wg.Add(2)
		b.UpdateObject(obj("k", "b0"))
		go func() { defer wg.Done(); outer.DeleteObject(krt.GetKey[krt.Collection[Obj]](b)) }()
		go func() { defer wg.Done(); b.DeleteObject("ns/k") }()
		wg.Wait()
		if i%2000 == 0 {
			fmt.Printf("7. run %d: no crash yet\n", i)
		}
		close(stop)
	}
	fmt.Println("7. nested member removal crash: not reproduced")
}

func runRepro() {
	if len(os.Args) > 2 && os.Args[2] == "crash" {
		reproCrash()
		return
	}
	obj := func(name, val string, labels, sel map[string]string) Obj {
		return mk(Obj{Name: name, Namespace: "ns", Val: val, Labels: labels, Selector: sel})
	}

	// ---- 1. JoinWithMergeCollection publishes every delete twice
	{
		stop := make(chan struct{})
		a := krt.NewStaticCollection[Obj](nil, nil, krt.WithStop(stop), krt.WithName("a"))
		b := krt.NewStaticCollection[Obj](nil, nil, krt.WithStop(stop), krt.WithName("b"))
		m := krt.JoinWithMergeCollection([]krt.Collection[Obj]{a, b}, firstVal, krt.WithStop(stop), krt.WithName("m"))
		r := &recorder{}
		m.Register(r.rec)
		a.UpdateObject(obj("k", "v1", nil, nil))
		idle()
		a.DeleteObject("ns/k")
		idle()
		fmt.Printf("1. mergejoin delete: want [add, delete]; got %q\n", r.get())
		close(stop)
	}

	// ---- 2. FilterSelects(nil) does not filter at all
	{
		stop := make(chan struct{})
		pol := krt.NewStaticCollection[Obj](nil, []Obj{obj("p", "v", nil, map[string]string{"app": "a"})}, krt.WithStop(stop))
		var none map[string]string
		got := krt.FetchOrList[Obj](nil, pol, krt.FilterSelects(none))
		got2 := krt.FetchOrList[Obj](nil, pol, krt.FilterSelects(map[string]string{}))
		got3 := krt.FetchOrList[Obj](nil, pol, krt.FilterSelectsNonEmpty(none))
		fmt.Printf("2. object with selector app=a, fetched with the labels of a label-less workload: want []; FilterSelects(nil)=%s FilterSelects({})=%s FilterSelectsNonEmpty(nil)=%s\n",
			keysOf(got), keysOf(got2), keysOf(got3))
		close(stop)
	}

	// ---- 3. an index over a (checked) JoinCollection returns objects the join itself hides
	{
		stop := make(chan struct{})
		a := krt.NewStaticCollection[Obj](nil, []Obj{obj("k", "from-a", nil, nil)}, krt.WithStop(stop))
		b := krt.NewStaticCollection[Obj](nil, []Obj{obj("k", "from-b", nil, nil)}, krt.WithStop(stop))
		j := krt.JoinCollection([]krt.Collection[Obj]{a, b}, krt.WithStop(stop))
		ix := krt.NewIndex[string, Obj](j, "ns", func(o Obj) []string { return []string{o.Namespace} })
		idle()
		fmt.Printf("3. join index: List()=%s; want Lookup(ns) the same; got %s\n", keysOf(j.List()), keysOf(ix.Lookup("ns")))
		close(stop)
	}

	// ---- 4. checked JoinCollection: event stream depends on which source's queue runs first
	{
		seen := map[string]int{}
		for i := 0; i < 300; i++ {
			stop := make(chan struct{})
			a := krt.NewStaticCollection[Obj](nil, nil, krt.WithStop(stop))
			b := krt.NewStaticCollection[Obj](nil, []Obj{obj("k", "from-b", nil, nil)}, krt.WithStop(stop))
			j := krt.JoinCollection([]krt.Collection[Obj]{a, b}, krt.WithStop(stop))
			r := &recorder{}
			j.Register(r.rec)
			a.UpdateObject(obj("k", "from-a", nil, nil)) // higher priority source adds the key while b's initial add may still be queued
			idle()
			seen[strings.Join(r.get(), " | ")]++
			close(stop)
		}
		fmt.Printf("4. join overlap, 300 runs of {b has k; subscribe; a adds k}: want every stream to start with an add of ns/k; streams seen:\n")
		for _, k := range sortedKeys(seen) {
			fmt.Printf("     %3dx %s\n", seen[k], k)
		}
	}

	// ---- 5. a many-collection output key that moves between parents can be lost for good
	{
		lost := 0
		const runs = 200
		for i := 0; i < runs; i++ {
			stop := make(chan struct{})
			parents := krt.NewStaticCollection[Obj](nil, []Obj{obj("A", "a", nil, nil), obj("B", "b", nil, nil)}, krt.WithStop(stop))
			items := krt.NewStaticCollection[Obj](nil, []Obj{obj("y", "1", map[string]string{"owner": "A"}, nil)}, krt.WithStop(stop))
			many := krt.NewManyCollection(parents, func(ctx krt.HandlerContext, p Obj) []Obj {
				var out []Obj
				for _, y := range krt.Fetch(ctx, items, krt.FilterLabel(map[string]string{"owner": p.Name})) {
					out = append(out, mk(Obj{Name: y.Name, Namespace: "child", Val: "owned-by-" + p.Name}))
				}
				return out
			}, krt.WithStop(stop))
			idle()
			items.UpdateObject(obj("y", "1", map[string]string{"owner": "B"}, nil)) // one atomic input change: y moves from A to B
			idle()
			if got := keysOf(many.List()); got != "[child/y=owned-by-B]" {
				if lost == 0 {
					fmt.Printf("5. moving key: want [child/y=owned-by-B]; got %s (quiescent, persistent)\n", got)
				}
				lost++
			}
			close(stop)
		}
		fmt.Printf("5. moving key: wrong final content in %d of %d runs\n", lost, runs)
	}

	// ---- 6. NestedJoinWithMergeCollection: removing a member collection can publish Update with Old == New
	{
		noop := 0
		const runs = 300
		for i := 0; i < runs && noop == 0; i++ {
			stop := make(chan struct{})
			a := krt.NewStaticCollection[Obj](nil, []Obj{obj("k", "a0", nil, nil)}, krt.WithStop(stop))
			b := krt.NewStaticCollection[Obj](nil, []Obj{obj("k", "b0", nil, nil)}, krt.WithStop(stop))
			outer := krt.NewStaticCollection[krt.Collection[Obj]](nil, []krt.Collection[Obj]{a, b}, krt.WithStop(stop))
			n := krt.NestedJoinWithMergeCollection[Obj](outer, firstVal, krt.WithStop(stop))
			var mu sync.Mutex
			var bad []string
			n.Register(func(e krt.Event[Obj]) {
				if e.Old != nil && e.New != nil && e.Old.Equals(*e.New) {
					mu.Lock()
					bad = append(bad, "update old=new="+e.New.Val)
					mu.Unlock()
				}
			})
			idle()
			var wg sync.WaitGroup
			wg.Add(2)
			go func() { defer wg.Done(); outer.DeleteObject(krt.GetKey[krt.Collection[Obj]](b)) }()
			go func() { defer wg.Done(); a.UpdateObject(obj("k", fmt.Sprintf("a%d", i+1), nil, nil)) }()
			wg.Wait()
			idle()
			mu.Lock()
			if len(bad) > 0 {
				noop++
				fmt.Printf("6. nested member removal racing an update (run %d): want no Update with Old equal to New; got %q\n", i, bad)
			}
			mu.Unlock()
			close(stop)
		}
		if noop == 0 {
			fmt.Printf("6. nested member removal: not reproduced in %d runs\n", runs)
		}
	}

	// ---- 8. NestedJoinWithMergeCollection: a member added while one of its keys is deleted leaves a stale merge
	{
		stale := 0
		const runs = 3000
		for i := 0; i < runs && stale == 0; i++ {
			stop := make(chan struct{})
			a := krt.NewStaticCollection[Obj](nil, []Obj{obj("k", "a0", nil, nil)}, krt.WithStop(stop))
			b := krt.NewStaticCollection[Obj](nil, []Obj{obj("k", "b0", nil, nil)}, krt.WithStop(stop))
			outer := krt.NewStaticCollection[krt.Collection[Obj]](nil, []krt.Collection[Obj]{a}, krt.WithStop(stop))
			n := krt.NestedJoinWithMergeCollection[Obj](outer, firstVal, krt.WithStop(stop))
			idle()
			outer.UpdateObject(b)                    // b becomes a member (its subscription is set up asynchronously)
			a.UpdateObject(obj("k", "a1", nil, nil)) // recomputes k over the members listed now: a and b
			b.DeleteObject("ns/k")                   // may happen before the join has subscribed to b
			idle()
			if got := keysOf(n.List()); got != "[ns/k=a1(merged 1)]" {
				stale++
				fmt.Printf("8. nested member addition racing a delete (run %d): want [ns/k=a1(merged 1)]; got %s (quiescent, persistent)\n", i, got)
			}
			close(stop)
		}
		if stale == 0 {
			fmt.Printf("8. nested member addition: not reproduced in %d runs\n", runs)
		}
	}
}
