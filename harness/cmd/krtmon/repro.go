package main

// Minimal reproductions of what the monitor reports on the unchanged tree, against the real
// krt code and nothing else:   /verif/bin/krtmon repro
// Each scenario prints what the property requires and what was observed.

import (
	"fmt"
	"os"
	"sort"
	"strings"
	"sync"
	"time"

	"istio.io/istio/pkg/kube/krt"
)

type recorder struct {
	mu  sync.Mutex
	evs []string
}

func (r *recorder) rec(e krt.Event[Obj]) {
	r.mu.Lock()
	defer r.mu.Unlock()
	s := e.Event.String() + " " + krt.GetKey(e.Latest())
	if e.Old != nil {
		s += " old.Val=" + e.Old.Val
	}
	if e.New != nil {
		s += " new.Val=" + e.New.Val
	}
	r.evs = append(r.evs, s)
}

func (r *recorder) get() []string {
	r.mu.Lock()
	defer r.mu.Unlock()
	return append([]string(nil), r.evs...)
}

func idle() {
	var st idleStats
	if !waitIdle(&st, 30*time.Second) {
		panic("not idle: " + st.Busy)
	}
}

func keysOf(l []Obj) string {
	var s []string
	for _, o := range l {
		s = append(s, o.ResourceName()+"="+o.Val)
	}
	sort.Strings(s)
	return "[" + strings.Join(s, " ") + "]"
}

func firstVal(ts []Obj) *Obj { // merge: keep the first, count the candidates
	o := ts[0]
	o.Val = fmt.Sprintf("%s(merged %d)", o.Val, len(ts))
	o = mk(o)
	return &o
}

// reproCrash: removing a member collection from a NestedJoinWithMergeCollection while that member
// loses a key whose add the join has not processed yet => nil dereference in
// nestedjoinmerge.go handleCollectionDelete (`*oldCollectionValue.GetKey(keyString)`), on a krt
// goroutine, i.e. the process dies.   /verif/bin/krtmon repro crash
func reproCrash() {
	obj := func(name, val string) Obj { return mk(Obj{Name: name, Namespace: "ns", Val: val}) }
	for i := 0; i < 200000; i++ {
		stop := make(chan struct{})
		a := krt.NewStaticCollection[Obj](nil, nil, krt.WithStop(stop))
		b := krt.NewStaticCollection[Obj](nil, nil, krt.WithStop(stop))
		outer := krt.NewStaticCollection[krt.Collection[Obj]](nil, []krt.Collection[Obj]{a, b}, krt.WithStop(stop))
		n := krt.NestedJoinWithMergeCollection[Obj](outer, firstVal, krt.WithStop(stop))
		n.WaitUntilSynced(stop)
		var wg sync.WaitGroup
		wg.Add(2)
		b.UpdateObject(obj("k", "b0"))
		go func() { defer wg.Done(); outer.DeleteObject(krt.GetKey[krt.Collection[Obj]](b)) }()
		go func() { defer wg.Done(); b.DeleteObject("ns/k") }()
		wg.Wait()
		if i%2000 == 0 {
			fmt.Printf("7. run %d: no crash yet\n", i)
		}
		close(stop)
	}
	fmt.Println("7. nested member removal crash: not reproduced")
}

func runRepro() {
	if len(os.Args) > 2 && os.Args[2] == "crash" {
		reproCrash()
		return
	}
	if len(os.Args) > 2 && os.Args[2] == "9" {
		repro9()
		return
	}
	if len(os.Args) > 2 && os.Args[2] == "10" {
		repro10()
		return
	}
	obj := func(name, val string, labels, sel map[string]string) Obj {
		return mk(Obj{Name: name, Namespace: "ns", Val: val, Labels: labels, Selector: sel})
	}

	// ---- 1. JoinWithMergeCollection publishes every delete twice
	{
		stop := make(chan struct{})
		a := krt.NewStaticCollection[Obj](nil, nil, krt.WithStop(stop), krt.WithName("a"))
		b := krt.NewStaticCollection[Obj](nil, nil, krt.WithStop(stop), krt.WithName("b"))
		m := krt.JoinWithMergeCollection([]krt.Collection[Obj]{a, b}, firstVal, krt.WithStop(stop), krt.WithName("m"))
		r := &recorder{}
		m.Register(r.rec)
		a.UpdateObject(obj("k", "v1", nil, nil))
		idle()
		a.DeleteObject("ns/k")
		idle()
		fmt.Printf("1. mergejoin delete: want [add, delete]; got %q\n", r.get())
		close(stop)
	}

	// ---- 2. FilterSelects(nil) does not filter at all
	{
		stop := make(chan struct{})
		pol := krt.NewStaticCollection[Obj](nil, []Obj{obj("p", "v", nil, map[string]string{"app": "a"})}, krt.WithStop(stop))
		var none map[string]string
		got := krt.FetchOrList[Obj](nil, pol, krt.FilterSelects(none))
		got2 := krt.FetchOrList[Obj](nil, pol, krt.FilterSelects(map[string]string{}))
		got3 := krt.FetchOrList[Obj](nil, pol, krt.FilterSelectsNonEmpty(none))
		fmt.Printf("2. object with selector app=a, fetched with the labels of a label-less workload: want []; FilterSelects(nil)=%s FilterSelects({})=%s FilterSelectsNonEmpty(nil)=%s\n",
			keysOf(got), keysOf(got2), keysOf(got3))
		close(stop)
	}

	// ---- 3. an index over a (checked) JoinCollection returns objects the join itself hides
	{
		stop := make(chan struct{})
		a := krt.NewStaticCollection[Obj](nil, []Obj{obj("k", "from-a", nil, nil)}, krt.WithStop(stop))
		b := krt.NewStaticCollection[Obj](nil, []Obj{obj("k", "from-b", nil, nil)}, krt.WithStop(stop))
		j := krt.JoinCollection([]krt.Collection[Obj]{a, b}, krt.WithStop(stop))
		ix := krt.NewIndex[string, Obj](j, "ns", func(o Obj) []string { return []string{o.Namespace} })
		idle()
		fmt.Printf("3. join index: List()=%s; want Lookup(ns) the same; got %s\n", keysOf(j.List()), keysOf(ix.Lookup("ns")))
		close(stop)
	}

	// ---- 4. checked JoinCollection: event stream depends on which source's queue runs first
	{
		seen := map[string]int{}
		for i := 0; i < 300; i++ {
			stop := make(chan struct{})
			a := krt.NewStaticCollection[Obj](nil, nil, krt.WithStop(stop))
			b := krt.NewStaticCollection[Obj](nil, []Obj{obj("k", "from-b", nil, nil)}, krt.WithStop(stop))
			j := krt.JoinCollection([]krt.Collection[Obj]{a, b}, krt.WithStop(stop))
			r := &recorder{}
			j.Register(r.rec)
			a.UpdateObject(obj("k", "from-a", nil, nil)) // higher priority source adds the key while b's initial add may still be queued
			idle()
			seen[strings.Join(r.get(), " | ")]++
			close(stop)
		}
		fmt.Printf("4. join overlap, 300 runs of {b has k; subscribe; a adds k}: want every stream to start with an add of ns/k; streams seen:\n")
		for _, k := range sortedKeys(seen) {
			fmt.Printf("     %3dx %s\n", seen[k], k)
		}
	}

	// ---- 5. a many-collection output key that moves between parents can be lost for good
	{
		lost := 0
		const runs = 200
		for i := 0; i < runs; i++ {
			stop := make(chan struct{})
			parents := krt.NewStaticCollection[Obj](nil, []Obj{obj("A", "a", nil, nil), obj("B", "b", nil, nil)}, krt.WithStop(stop))
			items := krt.NewStaticCollection[Obj](nil, []Obj{obj("y", "1", map[string]string{"owner": "A"}, nil)}, krt.WithStop(stop))
			many := krt.NewManyCollection(parents, func(ctx krt.HandlerContext, p Obj) []Obj {
				var out []Obj
				for _, y := range krt.Fetch(ctx, items, krt.FilterLabel(map[string]string{"owner": p.Name})) {
					out = append(out, mk(Obj{Name: y.Name, Namespace: "child", Val: "owned-by-" + p.Name}))
				}
				return out
			}, krt.WithStop(stop))
			idle()
			items.UpdateObject(obj("y", "1", map[string]string{"owner": "B"}, nil)) // one atomic input change: y moves from A to B
			idle()
			if got := keysOf(many.List()); got != "[child/y=owned-by-B]" {
				if lost == 0 {
					fmt.Printf("5. moving key: want [child/y=owned-by-B]; got %s (quiescent, persistent)\n", got)
				}
				lost++
			}
			close(stop)
		}
		fmt.Printf("5. moving key: wrong final content in %d of %d runs\n", lost, runs)
	}

	// ---- 6. NestedJoinWithMergeCollection: removing a member collection can publish Update with Old == New
	{
		noop := 0
		const runs = 300
		for i := 0; i < runs && noop == 0; i++ {
			stop := make(chan struct{})
			a := krt.NewStaticCollection[Obj](nil, []Obj{obj("k", "a0", nil, nil)}, krt.WithStop(stop))
			b := krt.NewStaticCollection[Obj](nil, []Obj{obj("k", "b0", nil, nil)}, krt.WithStop(stop))
			outer := krt.NewStaticCollection[krt.Collection[Obj]](nil, []krt.Collection[Obj]{a, b}, krt.WithStop(stop))
			n := krt.NestedJoinWithMergeCollection[Obj](outer, firstVal, krt.WithStop(stop))
			var mu sync.Mutex
			var bad []string
			n.Register(func(e krt.Event[Obj]) {
				if e.Old != nil && e.New != nil && e.Old.Equals(*e.New) {
					mu.Lock()
					bad = append(bad, "update old=new="+e.New.Val)
					mu.Unlock()
				}
			})
			idle()
			var wg sync.WaitGroup
			wg.Add(2)
			go func() { defer wg.Done(); outer.DeleteObject(krt.GetKey[krt.Collection[Obj]](b)) }()
			go func() { defer wg.Done(); a.UpdateObject(obj("k", fmt.Sprintf("a%d", i+1), nil, nil)) }()
			wg.Wait()
			idle()
			mu.Lock()
			if len(bad) > 0 {
				noop++
				fmt.Printf("6. nested member removal racing an update (run %d): want no Update with Old equal to New; got %q\n", i, bad)
			}
			mu.Unlock()
			close(stop)
		}
		if noop == 0 {
			fmt.Printf("6. nested member removal: not reproduced in %d runs\n", runs)
		}
	}

	// ---- 8. NestedJoinWithMergeCollection: a member added while one of its keys is deleted leaves a stale merge
	{
		stale := 0
		const runs = 3000
		for i := 0; i < runs && stale == 0; i++ {
			stop := make(chan struct{})
			a := krt.NewStaticCollection[Obj](nil, []Obj{obj("k", "a0", nil, nil)}, krt.WithStop(stop))
			b := krt.NewStaticCollection[Obj](nil, []Obj{obj("k", "b0", nil, nil)}, krt.WithStop(stop))
			outer := krt.NewStaticCollection[krt.Collection[Obj]](nil, []krt.Collection[Obj]{a}, krt.WithStop(stop))
			n := krt.NestedJoinWithMergeCollection[Obj](outer, firstVal, krt.WithStop(stop))
			idle()
			outer.UpdateObject(b)                    // b becomes a member (its subscription is set up asynchronously)
			a.UpdateObject(obj("k", "a1", nil, nil)) // recomputes k over the members listed now: a and b
			b.DeleteObject("ns/k")                   // may happen before the join has subscribed to b
			idle()
			if got := keysOf(n.List()); got != "[ns/k=a1(merged 1)]" {
				stale++
				fmt.Printf("8. nested member addition racing a delete (run %d): want [ns/k=a1(merged 1)]; got %s (quiescent, persistent)\n", i, got)
			}
			close(stop)
		}
		if stale == 0 {
			fmt.Printf("8. nested member addition: not reproduced in %d runs\n", runs)
		}
	}

	repro9()
}

// gate is a krt.Syncer the scenario opens by hand.
type gate chan struct{}

func (g gate) WaitUntilSynced(stop <-chan struct{}) bool {
	select {
	case <-g:
		return true
	case <-stop:
		return false
	}
}

func (g gate) HasSynced() bool {
	select {
	case <-g:
		return true
	default:
		return false
	}
}

// repro9 (deterministic): NestedJoinWithMergeCollection, a member is removed from the outer collection while
// the join still has an event of (any) member for one of the removed member's keys to process.
//
// The join computes every merge over the LIVE outer collection (calculateMerged -> j.collections.List()), but
// learns of the removal through an event of the outer collection that is handled on another goroutine
// (handleCollectionDelete, not on j.queue). An event handled in between already reflects the removal:
//   - key only in the removed member: the queued event is turned into Delete(merged object) and the key leaves
//     j.outputs; handleCollectionDelete then finds res == nil && !ok ("this shouldn't happen"), and publishes a
//     second Delete with the member's un-merged object as Old               => delete of an unknown key
//   - key also in another member: the queued event publishes Update(old merge -> merge without the member);
//     handleCollectionDelete publishes Update(outputs[key] -> same merge) without an Equal test => Old == New
//
// The window is held open here with a third member whose Syncer is closed by hand: the outer handler goroutine
// waits in handleCollectionUpdate -> WaitUntilSynced (holding no lock) with the delete event queued behind it.
// In the monitor's programs the window opens by scheduling alone: two removals issued back to back, the first on
// a nested join that is itself a member of the second (`ndel n4 member=1; ndel n5 member=1`, n5 = nested[n4 n0 n1]).
func repro9() {
	obj := func(name, val string) Obj { return mk(Obj{Name: name, Namespace: "ns", Val: val}) }
	// ---- 9a. minimal, no scheduling involved: two members that share a key leave the outer collection in one batch.
	// handleCollectionDelete(first) merges over the live outer collection (already empty) and publishes Delete(merged);
	// handleCollectionDelete(second) finds the key neither in the live members nor in outputs and publishes Delete again.
	{
		stop := make(chan struct{})
		a := krt.NewStaticCollection[Obj](nil, []Obj{obj("k", "a0")}, krt.WithStop(stop), krt.WithName("a"))
		b := krt.NewStaticCollection[Obj](nil, []Obj{obj("k", "b0")}, krt.WithStop(stop), krt.WithName("b"))
		outer := krt.NewStaticCollection[krt.Collection[Obj]](nil, []krt.Collection[Obj]{a, b}, krt.WithStop(stop), krt.WithName("outer"))
		n := krt.NestedJoinWithMergeCollection[Obj](outer, func(ts []Obj) *Obj {
			o := mk(Obj{Name: ts[0].Name, Namespace: ts[0].Namespace, Val: fmt.Sprintf("merged %d", len(ts))})
			return &o
		}, krt.WithStop(stop), krt.WithName("n"))
		r := &recorder{}
		n.Register(r.rec)
		idle()
		outer.DeleteObjects(func(krt.Collection[Obj]) bool { return true })
		idle()
		fmt.Printf("9a. nested join {a:[k] b:[k]}, outer.DeleteObjects(all): want [add, delete]; got %q\n", r.get())
		close(stop)
	}
	stop := make(chan struct{})
	defer close(stop)
	g := make(gate)
	a := krt.NewStaticCollection[Obj](nil, []Obj{obj("both", "a0")}, krt.WithStop(stop), krt.WithName("a"))
	b := krt.NewStaticCollection[Obj](nil, []Obj{obj("both", "b0"), obj("onlyb", "b0")}, krt.WithStop(stop), krt.WithName("b"))
	d := krt.NewStaticCollection[Obj](g, nil, krt.WithStop(stop), krt.WithName("d"))
	outer := krt.NewStaticCollection[krt.Collection[Obj]](nil, []krt.Collection[Obj]{a, b}, krt.WithStop(stop), krt.WithName("outer"))
	n := krt.NestedJoinWithMergeCollection[Obj](outer, firstVal, krt.WithStop(stop), krt.WithName("n"))
	r := &recorder{}
	n.RegisterBatch(func(es []krt.Event[Obj]) {
		for _, e := range es {
			r.rec(e)
		}
	}, true)
	waitEvents := func(subs ...string) bool {
		for t := 0; t < 20000; t++ {
			all := strings.Join(r.get(), "\n")
			ok := true
			for _, s := range subs {
				ok = ok && strings.Contains(all, s)
			}
			if ok {
				return true
			}
			time.Sleep(time.Millisecond)
		}
		return false
	}
	idle()                                                 // 2 adds delivered
	outer.UpdateObject(d)                                  // d becomes a member (Add: subscription only)
	outer.UpdateObject(d)                                  // Update: the outer handler now waits for d to sync
	time.Sleep(50 * time.Millisecond)                      // (not needed for the outcome: the next event queues behind in any case)
	outer.DeleteObject(krt.GetKey[krt.Collection[Obj]](b)) // b leaves the live outer collection; the join's handler has not run yet
	b.UpdateObject(obj("onlyb", "b1"))                     // events of the (still subscribed) member b ...
	a.UpdateObject(obj("both", "a1"))                      // ... and of a for a key b also has
	if !waitEvents("delete ns/onlyb", "new.Val=a1(merged 1)") {
		fmt.Printf("9b. setup failed, events so far: %q\n", r.get())
		return
	}
	close(g) // the outer handler proceeds: handleCollectionUpdate(d), then handleCollectionDelete(b)
	idle()
	fmt.Printf("9b. nested join {a:[both] b:[both onlyb]}; b removed from the outer collection while events for both keys are queued.\n" +
		"   want: add both, add onlyb, then exactly one delete of ns/onlyb and no Update with old == new\n   got:\n")
	for _, e := range r.get() {
		fmt.Printf("     %s\n", e)
	}
	fmt.Printf("   final content %s (want [ns/both=a1(merged 1)])\n", keysOf(n.List()))
}

// repro10 (racing loop): krt.NewStatic, a handler registering with existing state while Set runs. RegisterBatch inserts
// the handler, then loads the value and calls the handler with an Add on the caller's goroutine; Set swaps the value and
// calls the handlers on the setter's goroutine; nothing orders the two. A consumer replaying the stream sees a
// duplicate Add, an Update whose Old it never got, or a Delete of a key it never had.   /verif/bin/krtmon repro 10
func repro10() {
	seen := map[string]int{}
	for i := 0; i < 20000; i++ {
		v0 := mk(Obj{Name: "s", Namespace: "single", Val: "v0"})
		v1 := mk(Obj{Name: "s", Namespace: "single", Val: "v1"})
		s := krt.NewStatic[Obj](&v0, true)
		r := &recorder{}
		var wg sync.WaitGroup
		wg.Add(1)
		go func() {
			defer wg.Done()
			if i%2 == 0 {
				s.Set(&v1)
			} else {
				s.Set(nil)
			}
		}()
		s.AsCollection().RegisterBatch(func(es []krt.Event[Obj]) {
			for _, e := range es {
				r.rec(e)
			}
		}, true)
		wg.Wait()
		seen[strings.Join(r.get(), " | ")]++
	}
	fmt.Printf("10. static singleton {v0}; RegisterBatch(existing state) racing Set(v1) / Set(nil), 20000 runs; consistent streams are\n" +
		"    [add v0 | update v0->v1], [add v1], [add v0 | delete v0], []; streams seen:\n")
	for _, k := range sortedKeys(seen) {
		fmt.Printf("     %5dx %s\n", seen[k], k)
	}
}
