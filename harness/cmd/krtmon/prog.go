package main

// Program descriptors and their PRNG generator. No krt imports: a descriptor is pure data,
// interpreted once by build.go (krt collections) and once by ref.go (maps).

import (
	"fmt"
	"math/rand"
	"sort"
	"strconv"
	"strings"
)

const (
	kStatic  = "static"  // krt.NewStaticCollection input
	kSSingle = "ssingle" // krt.NewStatic singleton input
	kOne     = "one"     // krt.NewCollection
	kMany    = "many"    // krt.NewManyCollection
	kSingle  = "single"  // krt.NewSingleton
	kJoin    = "join"    // krt.JoinCollection (checked, overlapping keys allowed)
	kJoinU   = "joinu"   // krt.JoinCollection WithJoinUnchecked (disjoint sources)
	kMerge   = "merge"   // krt.JoinWithMergeCollection
	kNested  = "nested"  // krt.NestedJoinWithMergeCollection
	kMap     = "map"     // krt.MapCollection
	kIdxOne  = "idxone"  // krt.NewCollection over Index.AsCollection()
)

// key shapes: which keys a node's objects carry
const (
	shIn     = "in"     // ns<i>/n<j>, the shape of static inputs
	shChild  = "child"  // outputs of a many node
	shSingle = "single" // one fixed key
	shIx     = "ix"     // ix<id>/<index key>
	shMixed  = "mixed"
)

type Program struct {
	Nodes   []*Node
	Indexes []*Index
	NS      int  // namespaces ns0..
	Names   int  // names n0..
	Moving  bool // some many node lets output keys move between parents
	SelNil  bool // label-less objects carry a nil (not empty) label map
	// Risk is the one stratum feature of this program ("" for none). The features are the
	// inputs for which the unchanged tree is known to violate the property; keeping them in
	// strata of their own (and tainting only the nodes that depend on them) keeps every other
	// verdict precise. moving-keys | join-overlap | nil-labels | nested-race (member collections are
	// added to a nested join while events flow; elsewhere membership changes at quiescent points)
	Risk string

	taint []bool
}

type Node struct {
	ID     int
	Kind   string
	Parent int   `json:",omitempty"` // primary input node (one, many, map); index id (idxone)
	Srcs   []int `json:",omitempty"` // join / joinu / merge / nested (initial members)
	Body   *Body `json:",omitempty"`
	Late   bool  `json:",omitempty"` // constructed after the first history phase
	Shape  string
}

type Body struct {
	Clauses   []Clause
	NilRule   int    // 0 never nil; 1 nil when input has label drop; 2 nil when clause 0 is empty; 3 nil unless input namespace is NSOnly
	NSOnly    string `json:",omitempty"`
	LabelFrom int    // -1, or clause whose result size becomes an output label
	ManyMode  string `json:",omitempty"` // refs-fixed | refs-moving | sel-fixed | sel-moving
}

type Clause struct {
	Target  int
	Filters []Filt
}

// Filt is a filter whose concrete argument is derived from the input object (see concrete()).
type Filt struct {
	Kind string // key keys objname label selects selectsne index generic
	Arg  string
	Idx  int `json:",omitempty"`
}

type Index struct {
	ID   int
	Node int
	By   string // ns | name | refs | label:<k>
	Late bool   `json:",omitempty"`
}

// CF is a concrete filter: what is handed to krt.Filter* and, independently, to refMatch.
type CF struct {
	Kind      string
	Keys      []string
	Name      string
	Namespace string
	M         map[string]string
	Idx       int
	IdxKey    string
	Gen       string
	GenArg    string
}

func (f CF) String() string {
	switch f.Kind {
	case "key", "keys":
		return f.Kind + "(" + strings.Join(f.Keys, ",") + ")"
	case "objname":
		return "objname(" + f.Namespace + "/" + f.Name + ")"
	case "label", "selects", "selectsne":
		if f.M == nil {
			return f.Kind + "(nil)"
		}
		return f.Kind + "(" + canonMap(f.M) + ")"
	case "index":
		return fmt.Sprintf("index(%d,%s)", f.Idx, f.IdxKey)
	}
	return "generic(" + f.Gen + ":" + f.GenArg + ")"
}

func parseKV(s string) map[string]string {
	m := map[string]string{}
	for _, kv := range strings.Split(s, ",") {
		if kv == "" {
			continue
		}
		p := strings.SplitN(kv, "=", 2)
		m[p[0]] = p[1]
	}
	return m
}

// concrete derives the concrete filter from the descriptor and the input object (nil for singletons).
// Pure; used by both sides.
func (p *Program) concrete(f Filt, in *Obj) CF {
	fixed := func() (string, bool) {
		if strings.HasPrefix(f.Arg, "fixed:") {
			return strings.TrimPrefix(f.Arg, "fixed:"), true
		}
		return "", false
	}
	switch f.Kind {
	case "key":
		if v, ok := fixed(); ok {
			return CF{Kind: "key", Keys: []string{v}}
		}
		if strings.HasPrefix(f.Arg, "ref0:") { // first ref as key in a many node's namespace
			if len(in.Refs) == 0 {
				return CF{Kind: "key", Keys: []string{"none/none"}}
			}
			return CF{Kind: "key", Keys: []string{strings.TrimPrefix(f.Arg, "ref0:") + "/" + in.Refs[0]}}
		}
		return CF{Kind: "key", Keys: []string{in.ResourceName()}}
	case "keys":
		if v, ok := fixed(); ok {
			return CF{Kind: "keys", Keys: strings.Split(v, ",")}
		}
		if strings.HasPrefix(f.Arg, "refs:") {
			ns := strings.TrimPrefix(f.Arg, "refs:")
			ks := []string{}
			for _, r := range in.Refs {
				ks = append(ks, ns+"/"+r)
			}
			return CF{Kind: "keys", Keys: ks}
		}
		// self+<key>
		return CF{Kind: "keys", Keys: []string{in.ResourceName(), strings.TrimPrefix(f.Arg, "self+")}}
	case "objname":
		if v, ok := fixed(); ok {
			q := strings.SplitN(v, "/", 2)
			return CF{Kind: "objname", Namespace: q[0], Name: q[1]}
		}
		return CF{Kind: "objname", Namespace: in.Namespace, Name: in.Name}
	case "label":
		if v, ok := fixed(); ok {
			return CF{Kind: "label", M: parseKV(v)}
		}
		if f.Arg == "owner" {
			return CF{Kind: "label", M: map[string]string{"owner": in.ResourceName()}}
		}
		return CF{Kind: "label", M: in.Selector}
	case "selects", "selectsne":
		if v, ok := fixed(); ok {
			return CF{Kind: f.Kind, M: parseKV(v)}
		}
		return CF{Kind: f.Kind, M: in.Labels}
	case "index":
		c := CF{Kind: "index", Idx: f.Idx}
		if v, ok := fixed(); ok {
			c.IdxKey = v
		} else if f.Arg == "ns" {
			c.IdxKey = in.Namespace
		} else if f.Arg == "name" {
			c.IdxKey = in.Name
		} else if strings.HasPrefix(f.Arg, "label:") {
			c.IdxKey = in.Labels[strings.TrimPrefix(f.Arg, "label:")]
		}
		return c
	default:
		c := CF{Kind: "generic", Gen: f.Arg}
		if f.Arg == "samens" {
			c.GenArg = in.Namespace
		} else if strings.HasPrefix(f.Arg, "haslabel:") {
			c.Gen, c.GenArg = "haslabel", strings.TrimPrefix(f.Arg, "haslabel:")
		}
		return c
	}
}

// genericPred is the body of a FilterGeneric closure; pure.
func genericPred(c CF, o Obj) bool {
	switch c.Gen {
	case "odd":
		return odd(o)
	case "even":
		return !odd(o)
	case "samens":
		return o.Namespace == c.GenArg
	case "haslabel":
		_, ok := o.Labels[c.GenArg]
		return ok
	}
	return true
}

// indexKeys is the extract function of an index; pure.
func indexKeys(by string, o Obj) []string {
	switch {
	case by == "ns":
		return []string{o.Namespace}
	case by == "name":
		return []string{o.Name}
	case by == "refs":
		return o.Refs
	case strings.HasPrefix(by, "label:"):
		if v, ok := o.Labels[strings.TrimPrefix(by, "label:")]; ok {
			return []string{v}
		}
		return nil
	}
	return nil
}

// ---- output construction shared by both sides (pure, no fetching) ---------------------------

func withLabel(m map[string]string, k, v string) map[string]string {
	r := copyMap(m)
	if r == nil {
		r = map[string]string{}
	}
	r[k] = v
	return r
}

func digests(res [][]Obj, from int) []string {
	out := []string{}
	for i := from; i < len(res); i++ {
		s := make([]string, 0, len(res[i]))
		for _, o := range res[i] {
			s = append(s, o.canon())
		}
		sort.Strings(s)
		out = append(out, strings.Join(s, ";"))
	}
	return out
}

func combineOne(n *Node, in Obj, res [][]Obj) *Obj {
	b := n.Body
	switch b.NilRule {
	case 1:
		if _, ok := in.Labels["drop"]; ok {
			return nil
		}
	case 2:
		if len(res) > 0 && len(res[0]) == 0 {
			return nil
		}
	case 3:
		if in.Namespace != b.NSOnly {
			return nil
		}
	}
	lbl := in.Labels
	if b.LabelFrom >= 0 && b.LabelFrom < len(res) {
		lbl = withLabel(lbl, "cnt", strconv.Itoa(len(res[b.LabelFrom])%3))
	}
	parts := append([]string{"one", strconv.Itoa(n.ID), in.Val}, digests(res, 0)...)
	o := mk(Obj{Name: in.Name, Namespace: in.Namespace, Labels: lbl, Selector: in.Selector, Refs: in.Refs, Val: h(parts...)})
	return &o
}

func combineMany(n *Node, in Obj, res [][]Obj) []Obj {
	b := n.Body
	id := strconv.Itoa(n.ID)
	var out []Obj
	switch b.ManyMode {
	case "refs-fixed", "refs-moving":
		d := digests(res, 0)
		for _, r := range in.Refs {
			name := r
			if b.ManyMode == "refs-fixed" {
				name = in.Namespace + "." + in.Name + "-" + r
			}
			parts := append([]string{"many", id, in.Val, r}, d...)
			out = append(out, mk(Obj{Name: name, Namespace: "c" + id, Labels: withLabel(in.Labels, "parent", in.Name),
				Selector: in.Selector, Val: h(parts...)}))
		}
	default: // sel-fixed, sel-moving: one child per object of clause 0
		d := digests(res, 1)
		if len(res) == 0 {
			return nil
		}
		for _, y := range res[0] {
			name := y.Namespace + "." + y.Name
			if b.ManyMode == "sel-fixed" {
				name = in.Namespace + "." + in.Name + "-" + name
			}
			parts := append([]string{"sel", id, in.Val, y.canon()}, d...)
			out = append(out, mk(Obj{Name: name, Namespace: "c" + id, Labels: withLabel(y.Labels, "parent", in.Name),
				Selector: y.Selector, Val: h(parts...)}))
		}
	}
	return out
}

func combineSingle(n *Node, res [][]Obj) *Obj {
	if n.Body.NilRule == 2 && len(res) > 0 && len(res[0]) == 0 {
		return nil
	}
	lbl := map[string]string{}
	if len(res) > 0 {
		lbl["cnt"] = strconv.Itoa(len(res[0]) % 3)
	}
	parts := append([]string{"single", strconv.Itoa(n.ID)}, digests(res, 0)...)
	o := mk(Obj{Name: "s" + strconv.Itoa(n.ID), Namespace: "single", Labels: lbl, Val: h(parts...)})
	return &o
}

func combineIdx(n *Node, key string, objs []Obj, res [][]Obj) *Obj {
	if n.Body.NilRule == 2 && len(res) > 0 && len(res[0]) == 0 {
		return nil
	}
	parts := append([]string{"ix", strconv.Itoa(n.ID), key}, digests([][]Obj{objs}, 0)...)
	parts = append(parts, digests(res, 0)...)
	o := mk(Obj{Name: key, Namespace: "ix" + strconv.Itoa(n.ID), Labels: map[string]string{"n": strconv.Itoa(len(objs) % 4)}, Val: h(parts...)})
	return &o
}

func mapFn(n *Node, in Obj) Obj {
	return mk(Obj{Name: in.Name, Namespace: in.Namespace, Labels: in.Labels, Selector: in.Selector, Refs: in.Refs,
		Val: h("map", strconv.Itoa(n.ID), in.Val)})
}

// mergeFn is order-insensitive (nested joins hand the candidates over in arbitrary order) and never nil.
func mergeFn(ts []Obj) *Obj {
	s := append([]Obj(nil), ts...)
	sort.Slice(s, func(i, j int) bool { return s[i].canon() < s[j].canon() })
	lbl := map[string]string{}
	refs := map[string]bool{}
	parts := []string{"merge"}
	for i := len(s) - 1; i >= 0; i-- { // smallest canon wins label conflicts
		for k, v := range s[i].Labels {
			lbl[k] = v
		}
		for _, r := range s[i].Refs {
			refs[r] = true
		}
	}
	for _, o := range s {
		parts = append(parts, o.Val)
	}
	lbl["merged"] = strconv.Itoa(len(s))
	o := mk(Obj{Name: s[0].Name, Namespace: s[0].Namespace, Labels: lbl, Selector: s[0].Selector, Refs: sortedKeys(refs), Val: h(parts...)})
	return &o
}

// ---- generator --------------------------------------------------------------------------------

var labelKeys = []string{"app", "ver", "tier"}
var labelVals = []string{"a", "b", "c"}

func (p *Program) node(id int) *Node { return p.Nodes[id] }

func (p *Program) indexable(id int) bool {
	n := p.node(id)
	switch n.Kind {
	case kStatic, kOne, kMany, kSingle, kMerge, kNested, kIdxOne:
		return true
	case kMap:
		return p.indexable(n.Parent)
	case kJoin, kJoinU:
		for _, s := range n.Srcs {
			if !p.indexable(s) {
				return false
			}
		}
		return true
	}
	return false
}

func (p *Program) randKeyIn(r *rand.Rand) string {
	return fmt.Sprintf("ns%d/n%d", r.Intn(p.NS), r.Intn(p.Names))
}

func randKV(r *rand.Rand, n int) string {
	ks := r.Perm(len(labelKeys))[:n]
	sort.Ints(ks)
	s := []string{}
	for _, k := range ks {
		s = append(s, labelKeys[k]+"="+labelVals[r.Intn(len(labelVals))])
	}
	return strings.Join(s, ",")
}

// childNS is the namespace of a many node's outputs.
func childNS(id int) string { return "c" + strconv.Itoa(id) }

func (p *Program) getIndex(r *rand.Rand, node int, late bool) *Index {
	var cands []*Index
	for _, ix := range p.Indexes {
		if ix.Node == node && (!ix.Late || late) {
			cands = append(cands, ix)
		}
	}
	if len(cands) > 0 && r.Intn(3) > 0 {
		return cands[r.Intn(len(cands))]
	}
	bys := []string{"ns", "name", "label:app", "label:tier", "refs"}
	ix := &Index{ID: len(p.Indexes), Node: node, By: bys[r.Intn(len(bys))], Late: late && r.Intn(2) == 0}
	p.Indexes = append(p.Indexes, ix)
	return ix
}

// genFilters draws 0..2 compatible filters for fetching target from a body whose input has the given shape
// (shape "" = singleton body, only fixed arguments).
func (p *Program) genFilters(r *rand.Rand, target int, inShape string, late bool) []Filt {
	t := p.node(target)
	hasIn := inShape != ""
	var out []Filt
	keyish := false
	n := r.Intn(3)
	if t.Kind == kSSingle {
		// a NewStatic singleton ignores keys in GetKey by design; only value filters make sense on it
		if r.Intn(2) == 0 {
			return nil
		}
		return []Filt{{Kind: "generic", Arg: []string{"odd", "even"}[r.Intn(2)]}}
	}
	for i := 0; i < n; i++ {
		switch k := r.Intn(9); {
		case k == 0 && !keyish: // key
			keyish = true
			switch {
			case hasIn && t.Shape == shChild && r.Intn(2) == 0:
				out = append(out, Filt{Kind: "key", Arg: "ref0:" + childNS(t.ID)})
			case hasIn && r.Intn(3) > 0:
				out = append(out, Filt{Kind: "key", Arg: "self"})
			default:
				out = append(out, Filt{Kind: "key", Arg: "fixed:" + p.randKeyIn(r)})
			}
		case k == 1 && !keyish: // keys
			keyish = true
			switch {
			case hasIn && t.Shape == shChild:
				out = append(out, Filt{Kind: "keys", Arg: "refs:" + childNS(t.ID)})
			case hasIn:
				out = append(out, Filt{Kind: "keys", Arg: "self+" + p.randKeyIn(r)})
			default:
				out = append(out, Filt{Kind: "keys", Arg: "fixed:" + p.randKeyIn(r) + "," + p.randKeyIn(r)})
			}
		case k == 2 && !keyish: // objname
			keyish = true
			if hasIn && r.Intn(3) > 0 {
				out = append(out, Filt{Kind: "objname", Arg: "self"})
			} else {
				out = append(out, Filt{Kind: "objname", Arg: "fixed:" + p.randKeyIn(r)})
			}
		case k == 3:
			if hasIn && r.Intn(3) > 0 {
				out = append(out, Filt{Kind: "label", Arg: "sel"})
			} else {
				out = append(out, Filt{Kind: "label", Arg: "fixed:" + randKV(r, 1+r.Intn(2))})
			}
		case k == 4:
			if hasIn && r.Intn(3) > 0 {
				out = append(out, Filt{Kind: "selects", Arg: "labels"})
			} else {
				out = append(out, Filt{Kind: "selects", Arg: "fixed:" + randKV(r, r.Intn(3))})
			}
		case k == 5:
			if hasIn && r.Intn(3) > 0 {
				out = append(out, Filt{Kind: "selectsne", Arg: "labels"})
			} else {
				out = append(out, Filt{Kind: "selectsne", Arg: "fixed:" + randKV(r, r.Intn(3))})
			}
		case (k == 6 || k == 7) && !keyish && p.indexable(target): // index (cannot be combined with key filters)
			keyish = true
			ix := p.getIndex(r, target, late)
			f := Filt{Kind: "index", Idx: ix.ID}
			switch {
			case ix.By == "ns" && hasIn && r.Intn(3) > 0:
				f.Arg = "ns"
			case ix.By == "name" && hasIn && r.Intn(3) > 0:
				f.Arg = "name"
			case strings.HasPrefix(ix.By, "label:") && hasIn && r.Intn(3) > 0:
				f.Arg = ix.By
			case ix.By == "ns":
				f.Arg = fmt.Sprintf("fixed:ns%d", r.Intn(p.NS))
			case ix.By == "name":
				f.Arg = fmt.Sprintf("fixed:n%d", r.Intn(p.Names))
			case ix.By == "refs":
				f.Arg = fmt.Sprintf("fixed:s%d-c%d", r.Intn(2), r.Intn(4))
			default:
				f.Arg = "fixed:" + labelVals[r.Intn(len(labelVals))]
			}
			out = append(out, f)
		default:
			g := []string{"odd", "even", "haslabel:app", "haslabel:drop"}
			if hasIn {
				g = append(g, "samens", "samens")
			}
			out = append(out, Filt{Kind: "generic", Arg: g[r.Intn(len(g))]})
		}
	}
	// only one of each non-key kind is representable in krt's filter struct: later options overwrite earlier ones
	seen := map[string]bool{}
	var ded []Filt
	for _, f := range out {
		if seen[f.Kind] {
			continue
		}
		seen[f.Kind] = true
		ded = append(ded, f)
	}
	return ded
}

func (p *Program) genBody(r *rand.Rand, self int, inShape string, late bool) *Body {
	b := &Body{LabelFrom: -1}
	nc := r.Intn(3)
	if inShape == "" && nc == 0 {
		nc = 1
	}
	for i := 0; i < nc; i++ {
		t := r.Intn(self)
		if p.node(t).Late && !late {
			continue
		}
		b.Clauses = append(b.Clauses, Clause{Target: t, Filters: p.genFilters(r, t, inShape, late)})
		if r.Intn(4) == 0 { // fetch the same collection a second time with different filters (index + non-index => doNotIndex)
			b.Clauses = append(b.Clauses, Clause{Target: t, Filters: p.genFilters(r, t, inShape, late)})
		}
	}
	if len(b.Clauses) > 0 {
		if r.Intn(3) == 0 {
			b.LabelFrom = r.Intn(len(b.Clauses))
		}
		if r.Intn(4) == 0 {
			b.NilRule = 2
		}
	}
	if b.NilRule == 0 && inShape == shIn && r.Intn(4) == 0 {
		b.NilRule = 1
	}
	return b
}

// genProgram builds a random DAG. allowMoving gates many nodes whose output keys can move between parents.
func genProgram(r *rand.Rand, size int) *Program {
	p := &Program{NS: 2 + r.Intn(2), Names: 3 + r.Intn(3)}
	switch k := r.Intn(12); {
	case k < 2:
		p.Risk = "moving-keys"
	case k < 4:
		p.Risk = "join-overlap"
	case k < 6:
		p.Risk = "nil-labels"
		p.SelNil = true
	case k < 7:
		p.Risk = "nested-race"
	}
	nStatic := 2 + r.Intn(2)
	for i := 0; i < nStatic; i++ {
		p.Nodes = append(p.Nodes, &Node{ID: i, Kind: kStatic, Shape: shIn})
	}
	if r.Intn(2) == 0 {
		p.Nodes = append(p.Nodes, &Node{ID: len(p.Nodes), Kind: kSSingle, Shape: shSingle})
	}
	nDerived := 3 + r.Intn(size)
	lateFrom := len(p.Nodes) + nDerived // nodes with id >= lateFrom are late (a suffix keeps dependencies consistent)
	if r.Intn(2) == 0 {
		lateFrom = len(p.Nodes) + 1 + r.Intn(nDerived)
	}
	byShape := func(sh string, max int) []int {
		var out []int
		for _, n := range p.Nodes {
			if n.ID < max && n.Shape == sh {
				out = append(out, n.ID)
			}
		}
		return out
	}
	pick := func(c []int) int { return c[r.Intn(len(c))] }
	for len(p.Nodes) < nStatic+nDerived+1 && len(p.Nodes) < 24 {
		id := len(p.Nodes)
		late := id >= lateFrom
		n := &Node{ID: id, Late: late}
		ins := byShape(shIn, id)
		children := byShape(shChild, id)
		switch k := r.Intn(20); {
		case k < 5:
			n.Kind, n.Shape = kOne, shIn
			n.Parent = pick(ins)
			if len(children) > 0 && r.Intn(4) == 0 {
				n.Parent, n.Shape = pick(children), shChild
			}
			n.Body = p.genBody(r, id, n.Shape, late)
			if n.Shape == shChild && n.Body.NilRule == 1 {
				n.Body.NilRule = 0
			}
		case k < 9:
			n.Kind, n.Shape = kMany, shChild
			n.Parent = pick(ins)
			n.Body = p.genBody(r, id, shIn, late)
			n.Body.NilRule, n.Body.LabelFrom = 0, -1
			modes := []string{"refs-fixed", "sel-fixed"}
			if p.Risk == "moving-keys" {
				modes = []string{"refs-fixed", "refs-moving", "sel-fixed", "sel-moving", "refs-moving", "sel-moving"}
			}
			n.Body.ManyMode = modes[r.Intn(len(modes))]
			if strings.HasPrefix(n.Body.ManyMode, "sel") {
				// clause 0 selects the objects owned by this parent (label owner=<parent key>)
				var t []int
				for _, c := range ins {
					if !p.node(c).Late || late {
						t = append(t, c)
					}
				}
				own := Clause{Target: pick(t), Filters: []Filt{{Kind: "label", Arg: "owner"}}}
				if r.Intn(3) == 0 {
					own.Filters = append(own.Filters, Filt{Kind: "generic", Arg: []string{"odd", "even", "haslabel:app"}[r.Intn(3)]})
				}
				n.Body.Clauses = append([]Clause{own}, n.Body.Clauses...)
			}
			if strings.HasSuffix(n.Body.ManyMode, "moving") {
				p.Moving = true
			}
		case k < 11:
			n.Kind, n.Shape = kSingle, shSingle
			n.Body = p.genBody(r, id, "", late)
			if len(n.Body.Clauses) == 0 {
				n.Body.Clauses = []Clause{{Target: r.Intn(nStatic)}}
			}
		case k < 13 && len(ins) >= 2:
			n.Kind, n.Shape = kJoin, shIn
			n.Srcs = distinct(r, ins, 2+r.Intn(2))
			if p.Risk != "join-overlap" {
				// disjoint sources: source i is restricted to namespace ns<i> by a helper one-node
				if len(n.Srcs) > p.NS {
					n.Srcs = n.Srcs[:p.NS]
				}
				ok := true
				for _, s := range n.Srcs {
					if p.node(s).Late && !late {
						ok = false
					}
				}
				if !ok {
					continue
				}
				for i, s := range n.Srcs {
					hn := &Node{ID: len(p.Nodes), Kind: kOne, Parent: s, Shape: shIn, Late: late,
						Body: &Body{NilRule: 3, NSOnly: fmt.Sprintf("ns%d", i), LabelFrom: -1}}
					p.Nodes = append(p.Nodes, hn)
					n.Srcs[i] = hn.ID
				}
				n.ID = len(p.Nodes)
			}
		case k < 14 && len(manys(p, id)) >= 2:
			// WithJoinUnchecked requires disjoint sources: many nodes write into their own namespace c<id>
			n.Kind, n.Shape = kJoinU, shChild
			n.Srcs = distinct(r, manys(p, id), 2)
		case k < 16 && len(ins) >= 2:
			n.Kind, n.Shape = kMerge, shIn
			n.Srcs = distinct(r, ins, 2+r.Intn(2))
		case k < 17 && len(ins) >= 2:
			n.Kind, n.Shape = kNested, shIn
			n.Srcs = distinct(r, ins, 2+r.Intn(2))
		case k < 18:
			n.Kind = kMap
			n.Parent = pick(append(ins, children...))
			n.Shape = p.node(n.Parent).Shape
		default:
			var cands []int
			for _, c := range append(ins, children...) {
				if p.indexable(c) {
					cands = append(cands, c)
				}
			}
			if len(cands) == 0 {
				continue
			}
			n.Kind, n.Shape = kIdxOne, shIx
			t := pick(cands)
			ix := p.getIndex(r, t, late)
			if ix.Late && !late {
				ix.Late = false
			}
			n.Parent = ix.ID
			n.Body = p.genBody(r, id, "", late)
		}
		if n.Kind == "" {
			continue
		}
		// a non-late node cannot depend on a late one
		if !late {
			bad := false
			for _, d := range p.deps(n) {
				if p.node(d).Late {
					bad = true
				}
			}
			if bad {
				continue
			}
		}
		p.Nodes = append(p.Nodes, n)
	}
	// a few extra indexes that no body uses, only looked up by the monitor
	for i := 0; i < 1+r.Intn(2); i++ {
		t := r.Intn(len(p.Nodes))
		if p.indexable(t) && p.node(t).Kind != kIdxOne {
			ix := p.getIndex(r, t, true)
			if p.node(t).Late {
				ix.Late = true
			}
		}
	}
	for _, ix := range p.Indexes {
		if p.node(ix.Node).Late {
			ix.Late = true
		}
	}
	p.computeTaint()
	return p
}

func manys(p *Program, max int) []int {
	var out []int
	for _, n := range p.Nodes {
		if n.ID < max && n.Kind == kMany {
			out = append(out, n.ID)
		}
	}
	return out
}

// noopFree: does the collection promise never to publish an Update whose Old equals New?
// Transforming collections do (core.go EventStream doc; mergejoin drops equal refreshes).
// StaticCollection.UpdateObject and NewStatic.Set publish unconditionally (that is what
// ConditionalUpdateObject is for), and pass-through shapes (join, map) forward what they get.
func (p *Program) noopFree(id int) bool {
	n := p.node(id)
	switch n.Kind {
	case kStatic, kSSingle:
		return false
	case kMap:
		return p.noopFree(n.Parent)
	case kJoin, kJoinU:
		for _, s := range n.Srcs {
			if !p.noopFree(s) {
				return false
			}
		}
		return true
	}
	return true
}

func distinct(r *rand.Rand, c []int, n int) []int {
	if n > len(c) {
		n = len(c)
	}
	perm := r.Perm(len(c))[:n]
	out := make([]int, 0, n)
	for _, i := range perm {
		out = append(out, c[i])
	}
	return out
}

// deps lists the nodes a node reads from (primary, sources, fetch targets, indexed node).
func (p *Program) deps(n *Node) []int {
	var d []int
	switch n.Kind {
	case kOne, kMany, kMap:
		d = append(d, n.Parent)
	case kIdxOne:
		d = append(d, p.Indexes[n.Parent].Node)
	}
	d = append(d, n.Srcs...)
	if n.Body != nil {
		for _, c := range n.Body.Clauses {
			d = append(d, c.Target)
			for _, f := range c.Filters {
				if f.Kind == "index" {
					d = append(d, p.Indexes[f.Idx].Node)
				}
			}
		}
	}
	return d
}

// computeTaint marks the nodes whose content or events can be affected by the program's risk feature.
func (p *Program) computeTaint() {
	p.taint = make([]bool, len(p.Nodes))
	for _, n := range p.Nodes {
		switch p.Risk {
		case "moving-keys":
			if n.Body != nil && strings.HasSuffix(n.Body.ManyMode, "moving") {
				p.taint[n.ID] = true
			}
		case "join-overlap":
			if n.Kind == kJoin {
				p.taint[n.ID] = true
			}
		case "nested-race":
			if n.Kind == kNested {
				p.taint[n.ID] = true
			}
		case "nil-labels":
			if n.Body != nil {
				for _, c := range n.Body.Clauses {
					for _, f := range c.Filters {
						if f.Kind == "selects" && f.Arg == "labels" {
							p.taint[n.ID] = true
						}
					}
				}
			}
		}
		for _, d := range p.deps(n) {
			if p.taint[d] {
				p.taint[n.ID] = true
			}
		}
	}
}

func (p *Program) tainted(id int) bool { return p.taint != nil && p.taint[id] }

// lineage: is the node of one of the given kinds, or a pass-through shape (map, join) over one?
func (p *Program) lineage(id int, kinds ...string) bool {
	n := p.node(id)
	for _, k := range kinds {
		if n.Kind == k {
			return true
		}
	}
	switch n.Kind {
	case kMap:
		return p.lineage(n.Parent, kinds...)
	case kJoin, kJoinU:
		for _, s := range n.Srcs {
			if p.lineage(s, kinds...) {
				return true
			}
		}
	}
	return false
}

// cascade: a merge-type collection (or a pass-through over one) that consumes the event stream of
// another merge-type collection.
func (p *Program) cascade(id int) bool {
	n := p.node(id)
	switch n.Kind {
	case kMerge:
		for _, s := range n.Srcs {
			if p.lineage(s, kMerge, kNested) {
				return true
			}
		}
	case kNested: // members are dynamic: any earlier input-shaped node can become one
		for _, c := range p.Nodes {
			if c.ID < id && c.Shape == shIn && p.lineage(c.ID, kMerge, kNested) {
				return true
			}
		}
	case kMap:
		return p.cascade(n.Parent)
	case kJoin, kJoinU:
		for _, s := range n.Srcs {
			if p.cascade(s) {
				return true
			}
		}
	}
	return false
}

// reads: does node y read node x, directly or through other nodes? mem gives, for nested joins, every
// node that is or was a member during the round in question (n.Srcs is only the initial membership).
func (p *Program) reads(y, x int, mem map[int][]int) bool {
	seen := map[int]bool{}
	var walk func(id int) bool
	walk = func(id int) bool {
		if seen[id] {
			return false
		}
		seen[id] = true
		n := p.node(id)
		ds := p.deps(n)
		if n.Kind == kNested {
			ds = mem[id]
		}
		for _, d := range ds {
			if d == x || walk(d) {
				return true
			}
		}
		return false
	}
	return walk(y)
}

// passOver: is the node in the set, or a pass-through shape (map, join) over a node of the set?
func (p *Program) passOver(id int, set map[int]bool) bool {
	if set[id] {
		return true
	}
	n := p.node(id)
	switch n.Kind {
	case kMap:
		return p.passOver(n.Parent, set)
	case kJoin, kJoinU:
		for _, s := range n.Srcs {
			if p.passOver(s, set) {
				return true
			}
		}
	}
	return false
}

// shapes lists the collection shapes and filter kinds a program uses (for evidence).
func (p *Program) features() (shapes, filters []string) {
	ss, fs := map[string]bool{}, map[string]bool{}
	for _, n := range p.Nodes {
		s := n.Kind
		if n.Body != nil && n.Body.ManyMode != "" {
			s += ":" + n.Body.ManyMode
		}
		if n.Late {
			s += ":late"
		}
		ss[s] = true
		if n.Body == nil {
			continue
		}
		seenT := map[int][]string{}
		for _, c := range n.Body.Clauses {
			ks := []string{}
			for _, f := range c.Filters {
				ks = append(ks, f.Kind)
			}
			sort.Strings(ks)
			combo := strings.Join(ks, "+")
			if combo == "" {
				combo = "all"
			}
			fs[combo] = true
			seenT[c.Target] = append(seenT[c.Target], combo)
		}
		for _, cs := range seenT {
			if len(cs) > 1 {
				idx, non := false, false
				for _, c := range cs {
					if strings.Contains(c, "index") {
						idx = true
					} else {
						non = true
					}
				}
				if idx && non {
					fs["same-collection:index+nonindex"] = true
				} else {
					fs["same-collection:twice"] = true
				}
			}
		}
	}
	for _, ix := range p.Indexes {
		s := "index:" + ix.By
		if ix.Late {
			s += ":late"
		}
		ss[s] = true
	}
	return sortedKeys(ss), sortedKeys(fs)
}
