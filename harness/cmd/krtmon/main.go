// krtmon: runtime monitor for property C16 (krt derived collections equal their function of
// the inputs; subscriber event streams are consistent with that state).
package main

import (
	"encoding/json"
	"fmt"
	"math/rand"
	"os"
	"strings"
	"sync"
	"time"

	"verifharness/internal/vh"
)

func main() {
	if len(os.Args) > 1 && os.Args[1] == "repro" {
		runRepro()
		return
	}
	vh.Main(vh.Prop{
		ID:    "C16",
		Level: "exploration",
		Rule: "case = PRNG-generated krt program (DAG of NewCollection/NewManyCollection/NewSingleton/Join/JoinWithMerge/NestedJoinWithMerge/" +
			"MapCollection/Index.AsCollection over 2-3 static collections, transformation bodies fetching other collections with random filter " +
			"combinations) plus a PRNG history in sequential and concurrent phases; non-trivial = at least one derived collection was non-empty at a " +
			"quiescent comparison and at least one subscriber stream was checked; distinct by program descriptor",
		Assumptions: []string{
			"trusted base: Go runtime (a stop-the-world runtime.Stack snapshot in which every istio/harness goroutine is parked on a channel or condition variable is the quiescence barrier), race detector, the harness's reference evaluator (ref.go) and input model",
			"transformations handed to krt are pure and keep many-collection output keys unique across parents at every instant (generator invariant, asserted on the reference side)",
			"not monitored: event streams of Index.AsCollection (documented as imprecise), GetKey on krt.NewStatic inputs (key-agnostic by design), WithJoinUnchecked only over disjoint sources (overlap is documented undefined behaviour)",
			"a member collection is added to or removed from a NestedJoinWithMergeCollection only while that member itself is quiescent (membership changes are issued after the phase's mutators have joined and a barrier; a further barrier precedes a change whose member is downstream of an earlier change of the same round): a member that changes while it leaves crashes the process on the unchanged tree (krtmon repro crash) and would take a whole batch of cases with it; KRTMON_NESTED_RACE=1 re-enables it. Other members of the join may still be delivering events, and several members may leave in one batch (outer.DeleteObjects); stream violations of the delete-absent rule on such a join in such a phase are keyed via=nested-member-removal",
			"inputs on which the unchanged tree is known to violate the property (many-collection keys moving between parents, overlapping keys in a checked JoinCollection, nil label maps handed to FilterSelects) are generated in strata of their own (Program.Risk); only nodes that depend on the feature report under the stratum key, every other node keeps a precise key",
		},
		// krt plus the generic helpers it calls into with its locks held: a race between two krt goroutines on
		// krt state usually has its innermost istio frame in pkg/maps, pkg/slices or pkg/util/sets.
		Anchors:       []string{"pkg/kube/krt/", "pkg/maps/", "pkg/slices/", "pkg/util/sets/", "pkg/util/smallset/", "pkg/queue/", "pkg/ptr/", "pkg/config/labels/"},
		MinNontrivial: func(t string) int { return map[string]int{"quick": 150, "thorough": 1500}[t] },
		Batches:       func(t string) int { return map[string]int{"quick": 6, "thorough": 8}[t] },
		Parallel:      func(t string) int { return map[string]int{"quick": 6, "thorough": 8}[t] },
		TimeoutSec:    func(t string) int { return map[string]int{"quick": 600, "thorough": 3000}[t] },
		Run:           run,
	})
}

func run(c *vh.Ctx) {
	for i := 0; i < c.N(200, 2000); i++ {
		if !c.Mine(i) {
			continue
		}
		c.Case(fmt.Sprintf("program-%d", i), func() { runProgram(c, i) })
	}
}

type phaseLog struct {
	Kind     string
	Mutators int
	Ops      [][]string
}

func opStrings(ops []Op, max int) []string {
	var s []string
	for i, o := range ops {
		if i >= max {
			s = append(s, fmt.Sprintf("… %d more", len(ops)-max))
			break
		}
		s = append(s, o.String())
	}
	return s
}

func runProgram(c *vh.Ctx, i int) {
	r := c.Rng("program", i)
	rb := c.Rng("nested-batch-removal", i)
	thorough := !c.Quick()
	// sizes are drawn from the case PRNG only (quick is a prefix of thorough)
	size := 4 + r.Intn(5)
	totalOps := 200 + r.Intn(200)
	maxMut := 2 + r.Intn(5)
	big := r.Intn(10) == 0
	if thorough && i >= 200 {
		maxMut = 2 + r.Intn(15)
		if big {
			totalOps = 1000 + r.Intn(2000)
		} else {
			totalOps = 200 + r.Intn(500)
		}
	}
	p := genProgram(r, size)
	pj, _ := json.Marshal(p)
	fmt.Fprintf(os.Stderr, "PROGRAM %s\n", pj)

	model := &Inputs{Static: map[int]map[string]Obj{}, SSingle: map[int]*Obj{}, Nested: map[int][]int{}}
	g := &histGen{r: r, p: p, model: model, nChild: 4 + r.Intn(4), kinds: map[string]int{}}
	for _, n := range p.Nodes {
		switch n.Kind {
		case kStatic:
			model.Static[n.ID] = map[string]Obj{}
			g.statics = append(g.statics, n.ID)
		case kNested:
			model.Nested[n.ID] = append([]int(nil), n.Srcs...)
		}
	}
	w := newWorld(p)
	defer close(w.stop)
	g.exists = func(id int) bool { return w.built[id] }
	// initial content, present before any collection is constructed
	g.beginPhase(1)
	g.genMutator(0, 1, r.Intn(3*p.Names))
	for k := range g.kinds {
		delete(g.kinds, k)
	}
	for _, n := range p.Nodes {
		if n.Kind == kSSingle && r.Intn(2) == 0 {
			o := mk(Obj{Name: fmt.Sprintf("ss%d", n.ID), Namespace: "single", Labels: g.randLabels(), Val: g.nextVal()})
			model.SSingle[n.ID] = &o
		}
	}

	var (
		subsMu sync.Mutex
		subs   []*Sub
		phases []phaseLog
		ist    idleStats
		sst    = stateStats{FilterKinds: map[string]bool{}}
		sn     = newSeen()
	)
	addSub := func(node int, mode, when string, base map[string]Obj, unknown bool) {
		subsMu.Lock()
		id := len(subs)
		subsMu.Unlock()
		s := w.subscribe(id, p.node(node), mode, when, base, unknown)
		subsMu.Lock()
		subs = append(subs, s)
		subsMu.Unlock()
	}
	modes := []string{"register", "batch-existing", "batch-noexisting"}
	replay := func(msg string) map[string]any {
		return map[string]any{"program": json.RawMessage(pj), "phases": phases, "witness": msg}
	}
	// Violation keys: precise (<monitor> kind=<shape>) for nodes the program's risk feature cannot
	// influence; one key per risk stratum and monitor class for nodes it can.
	// removalRaced: nested joins that, in the current phase, lost members while the join could still have (or get)
	// other events to process that were computed after the removal: several members in one batch, or one member
	// while another membership change of the same round upstream of the join was still propagating.
	removalRaced := map[int]bool{}
	key := func(mon string, node int) string {
		class := "state"
		if strings.HasPrefix(mon, "stream-") {
			class = "stream"
		}
		switch {
		case mon == "fetch-selects-nil":
			return "risk=nil-labels state"
		case mon == "stream-delete-absent" && p.passOver(node, removalRaced):
			// nestedjoinmerge.go handleCollectionDelete publishes a Delete (Old = the member's un-merged object) for a key
			// that an earlier event, computed over the live outer collection, already removed (krtmon repro 9). Rule,
			// shape and phase identify it, so it is named before the (coarser) risk strata.
			return "stream-delete-absent via=nested-member-removal"
		case p.tainted(node):
			return "risk=" + p.Risk + " " + class
		case class == "stream" && p.cascade(node):
			return "stream via=mergejoin-cascade"
		case mon == "stream-delete-absent" && p.lineage(node, kMerge, kNested):
			return "stream-delete-absent via=mergejoin"
		case mon == "stream-noop-update" && p.lineage(node, kNested):
			return "stream-noop-update via=nested"
		}
		return mon + " kind=" + p.node(node).Kind
	}
	reported := map[string]bool{}

	build := func(late bool) {
		for _, n := range p.Nodes {
			if n.Late == late {
				w.buildNode(n, model)
				if n.Kind == kIdxOne {
					continue // Index.AsCollection-derived nodes are ordinary collections: subscribed like the others below
				}
			}
		}
		for _, ix := range p.Indexes {
			if ix.Late == late || late {
				w.buildIndex(ix)
			}
		}
		// subscribers registered right at construction, before the collection has synced
		for _, n := range p.Nodes {
			if n.Late != late {
				continue
			}
			for k := r.Intn(3); k > 0; k-- {
				m := modes[r.Intn(2)] // existing-state modes: the stream must carry the whole content
				when := "early"
				if late {
					when = "early-late-node"
				}
				addSub(n.ID, m, when, nil, false)
			}
		}
	}
	build(false)

	nPhases := 3 + r.Intn(3)
	nontrivial := false
	eventsChecked := 0
	for ph := 0; ph < nPhases; ph++ {
		if ph == 1 {
			build(true)
		}
		// ---- generate the phase
		seq := r.Intn(3) == 0
		M := 1
		if !seq {
			M = 2 + r.Intn(maxMut-1)
		}
		n := totalOps / nPhases
		lists := make([][]Op, M)
		g.beginPhase(M)
		pl := phaseLog{Kind: "burst", Mutators: M}
		if seq {
			pl.Kind = "sequential"
			a := g.genMutator(0, 1, n/2)
			a = interleave(r, a, g.genSide())
			bulk := g.genBulk()
			b := g.genMutator(0, 1, n-n/2)
			lists[0] = append(append(a, bulk...), b...)
		} else {
			for m := 0; m < M; m++ {
				lists[m] = g.genMutator(m, M, n/M+1)
			}
			lists[0] = interleave(r, lists[0], g.genSide())
		}
		// Removing a member collection from a nested join while that member (or the join) still has events in
		// flight can crash the process on the unchanged tree (nil dereference in nestedjoinmerge.go
		// handleCollectionDelete; reproduction: `krtmon repro`, scenario 7). A crash would take the whole batch of
		// cases with it, so removals are issued at a quiescent point after the phase. Additions concurrent with
		// events can leave the join stale for good on the unchanged tree (repro scenario 8); they stay concurrent
		// only in the nested-race stratum. The deferred changes of one round are issued back to back: quiescent
		// for the first, not for the others where joins are chained (see settleFirst / removalRaced below).
		var removals []Op
		for m := range lists {
			var keep []Op
			for _, o := range lists[m] {
				if os.Getenv("KRTMON_NESTED_RACE") == "" && (o.Kind == "ndel" || o.Kind == "nadd" && p.Risk != "nested-race") {
					removals = append(removals, o)
				} else {
					keep = append(keep, o)
				}
			}
			lists[m] = keep
		}
		// Members leaving in one batch (outer.DeleteObjects): drawn from a stream of its own, so the programs and
		// histories are the ones generated without it. A join keeps at least one member and has at most one
		// membership change per round.
		changed := map[int]bool{}
		for _, o := range removals {
			changed[o.Node] = true
		}
		for _, nd := range p.Nodes {
			if nd.Kind != kNested || !w.built[nd.ID] || changed[nd.ID] || os.Getenv("KRTMON_NO_BATCH_REMOVAL") != "" {
				continue
			}
			cur := model.Nested[nd.ID]
			if len(cur) < 3 || rb.Intn(2) != 0 {
				continue
			}
			// the second leaving member is, where the shape has one, a member that reads the first or is read by it
			// (nested[nested[a b] a b]): their keys overlap by construction
			perm := rb.Perm(len(cur))
			first, second := cur[perm[0]], cur[perm[1]]
			for _, k := range perm[1:] {
				if p.reads(cur[k], first, model.Nested) || p.reads(first, cur[k], model.Nested) {
					second = cur[k]
					break
				}
			}
			gone := map[int]bool{first: true, second: true}
			var keep, out []int
			for _, m := range cur {
				if gone[m] {
					out = append(out, m)
				} else {
					keep = append(keep, m)
				}
			}
			model.Nested[nd.ID] = keep
			removals = append(removals, Op{Node: nd.ID, Kind: "ndelm", Members: out})
			g.kinds["nested-remove-batch"]++
		}
		// The membership changes of a round are issued back to back, so only the first is made on a quiescent system:
		// a later one can meet events the earlier ones caused. mem: every member a join has or had in this round.
		mem := map[int][]int{}
		for id, ms := range model.Nested {
			mem[id] = append([]int(nil), ms...)
		}
		touched := func(o Op) []int {
			if o.Kind == "ndelm" {
				return o.Members
			}
			return []int{o.Member}
		}
		for _, o := range removals {
			mem[o.Node] = append(mem[o.Node], touched(o)...)
		}
		for k := range removalRaced {
			delete(removalRaced, k)
		}
		// settleFirst[j]: the member being added or removed is itself downstream of an earlier change of the round
		// (it may be gaining or losing keys right now): the known crash / stale-merge conditions (repro 7, 8) that the
		// assumption "membership changes at quiescent points" excludes. A barrier is inserted before such an operation.
		settleFirst := make([]bool, len(removals))
		for j, o := range removals {
			for i, e := range removals {
				if i == j || e.Node == o.Node {
					continue
				}
				if i < j {
					for _, m := range touched(o) {
						if m == e.Node || p.reads(m, e.Node, mem) {
							settleFirst[j] = true
						}
					}
				}
				if o.Kind != "nadd" && p.reads(o.Node, e.Node, mem) {
					removalRaced[o.Node] = true // a sibling member may still deliver events for the leaving member's keys
				}
			}
			if o.Kind == "ndelm" {
				removalRaced[o.Node] = true
			}
		}
		// subscribers registering while events flow
		var midSubs []Op
		for k := r.Intn(3); k > 0; k-- {
			var cands []int
			for _, nd := range p.Nodes {
				if w.built[nd.ID] {
					cands = append(cands, nd.ID)
				}
			}
			midSubs = append(midSubs, Op{Kind: "sub", SubN: cands[r.Intn(len(cands))], SubM: modes[r.Intn(3)]})
		}
		tgt := r.Intn(M)
		lists[tgt] = interleave(r, lists[tgt], midSubs)
		nOps := 0
		for _, l := range lists {
			pl.Ops = append(pl.Ops, opStrings(l, 400))
			nOps += len(l)
		}
		phases = append(phases, pl)
		if len(phases) > 3 { // keep replay payloads bounded: earlier phases are reproducible from the seed
			phases[len(phases)-4].Ops = nil
		}
		want, dups := p.eval(model, ph >= 1)
		if len(dups) > 0 {
			vh.Abort("generator produced a many-collection key with two parents: %v", dups)
		}

		// ---- run it
		var wg sync.WaitGroup
		for m := 0; m < M; m++ {
			wg.Add(1)
			go func(ops []Op) {
				defer wg.Done()
				for j := range ops {
					if ops[j].Kind == "sub" {
						addSub(ops[j].SubN, ops[j].SubM, "mid-burst", nil, ops[j].SubM == "batch-noexisting")
						continue
					}
					w.apply(&ops[j])
				}
			}(lists[m])
		}
		wg.Wait()
		if len(removals) > 0 {
			if !waitIdle(&ist, 90*time.Second) {
				c.Count("barrier_lost", 1)
				c.Inconclusive("quiescence barrier not reached within the watchdog: " + ist.Busy)
				return
			}
			c.Count("barrier_rounds", 1)
			for j := range removals {
				if settleFirst[j] {
					if !waitIdle(&ist, 90*time.Second) {
						c.Count("barrier_lost", 1)
						c.Inconclusive("quiescence barrier not reached within the watchdog: " + ist.Busy)
						return
					}
					c.Count("barrier_rounds", 1)
					c.Count("membership_changes_after_extra_barrier", 1)
				}
				w.apply(&removals[j])
			}
			c.Count("nested_joins_removal_raced", len(removalRaced))
			pl.Ops = append(pl.Ops, opStrings(removals, 10))
			phases[len(phases)-1] = pl
		}
		c.Count("ops_applied", nOps)
		c.Count("phases_"+pl.Kind, 1)
		c.Max("mutators", M)

		// ---- quiescence barrier, then compare; a mismatch must survive two more barrier rounds
		if !waitIdle(&ist, 90*time.Second) {
			c.Count("barrier_lost", 1)
			c.Inconclusive("quiescence barrier not reached within the watchdog: " + ist.Busy)
			return
		}
		c.Count("barrier_rounds", 1)
		for _, nd := range p.Nodes {
			if w.built[nd.ID] && !w.cols[nd.ID].HasSynced() {
				c.Inconclusive(fmt.Sprintf("node %d (%s) never synced", nd.ID, nd.Kind))
				return
			}
		}
		probeSeed := r.Int63()
		var mm []mismatch
		var actual map[int]map[string]Obj
		for round := 0; round < 3; round++ {
			mm, actual = w.checkState(want, sn, rand.New(rand.NewSource(probeSeed)), &sst)
			if len(mm) == 0 {
				if round > 0 {
					c.Count("mismatch_vanished_after_extra_round", 1) // would mean the barrier is not a barrier
				}
				break
			}
			if round < 2 {
				if !waitIdle(&ist, 90*time.Second) {
					c.Inconclusive("barrier lost while re-checking a mismatch")
					return
				}
				c.Count("barrier_rounds", 1)
			}
		}
		for _, m := range mm {
			k := key(m.Monitor, m.Node)
			if reported[k] {
				continue
			}
			reported[k] = true
			c.Violation(k, fmt.Sprintf("phase %d (%s, %d mutators): %s", ph, pl.Kind, M, m.Msg), replay(m.Msg))
		}
		if sst.NonEmptyDerived > 0 {
			nontrivial = true
		}

		// ---- event streams
		subsMu.Lock()
		cur := append([]*Sub(nil), subs...)
		subsMu.Unlock()
		for _, s := range cur {
			if s.dead {
				continue
			}
			noop := p.noopFree(s.Node)
			nc, vs := s.advance(noop)
			eventsChecked += nc
			for _, v := range vs {
				if v.Rule == "noop-update" {
					// An Update whose Old equals New is wasteful, but it breaks none of the stream clauses C16 lists (order per
					// key, no duplicate add, no update/delete of an unknown key, nothing dropped, replay reproduces the
					// content): observed and counted, never a verdict.
					c.Count("noop_updates_on_noop_free_nodes", 1)
					if p.passOver(s.Node, removalRaced) {
						// same root cause as via=nested-member-removal: handleCollectionDelete republishes a merge that an
						// earlier event already computed without the leaving member, without an Equal test (repro 6, 9b)
						c.Count("noop_updates_after_nested_member_removal", 1)
					}
					continue
				}
				k := key("stream-"+v.Rule, s.Node)
				if s.When == "mid-burst" && s.Mode != "batch-noexisting" && v.Pos <= 1 && p.lineage(s.Node, kSSingle) {
					// krt.NewStatic: RegisterBatch(existing state) inserts the handler, then loads the value and calls the
					// handler itself; a Set in between is delivered as well, before or after that initial Add (singleton.go:
					// no lock spans Insert+Load, nor Swap+dispatch in Set). Registration raced a Set, first two events.
					k = "stream via=static-singleton-register-race"
				}
				if reported[k] {
					continue
				}
				reported[k] = true
				c.Violation(k, fmt.Sprintf("phase %d: subscriber %d (%s, %s) on node %d (%s): %s", ph, s.ID, s.Mode, s.When, s.Node, s.NodeKind, v.Msg), replay(v.Msg))
			}
			if d := s.replayDiff(actual[s.Node]); d != "" {
				s.dead = true
				k := key("stream-replay", s.Node)
				if reported[k] {
					continue
				}
				reported[k] = true
				c.Violation(k, fmt.Sprintf("phase %d: subscriber %d (%s, %s) on node %d (%s): replaying its %d events does not give the collection's content: %s",
					ph, s.ID, s.Mode, s.When, s.Node, s.NodeKind, s.pos, d), replay(d))
			}
		}

		// ---- late subscribers registered at the quiescent point
		for k := r.Intn(3); k > 0 && ph < nPhases-1; k-- {
			var cands []int
			for _, nd := range p.Nodes {
				if w.built[nd.ID] {
					cands = append(cands, nd.ID)
				}
			}
			nd := cands[r.Intn(len(cands))]
			m := modes[r.Intn(3)]
			var base map[string]Obj
			if m == "batch-noexisting" {
				base = actual[nd]
			}
			addSub(nd, m, "quiescent", base, false)
		}
	}

	// ---- evidence
	shapes, filters := p.features()
	for _, s := range shapes {
		c.SetAdd("collection_shapes", s)
	}
	for _, f := range filters {
		c.SetAdd("filter_kinds", f)
	}
	for f := range sst.FilterKinds {
		c.SetAdd("filter_kinds", f)
	}
	for k, n := range g.kinds {
		c.Count("hist_"+k, n)
	}
	for _, s := range subs {
		c.SetAdd("subscriber_kinds", s.Mode+"/"+s.When)
	}
	c.Count("programs", 1)
	c.Count("nodes", len(p.Nodes))
	c.Count("subscribers", len(subs))
	c.Count("stream_events_checked", eventsChecked)
	c.Count("quiescent_comparisons", sst.Comparisons)
	c.Count("objects_compared", sst.Objects)
	c.Count("getkey_checked", sst.GetKeys)
	c.Count("index_lookups_checked", sst.Lookups)
	c.Count("fetch_probes", sst.Fetches)
	c.Count("idle_snapshots", ist.Snapshots)
	c.Count("transformation_calls", int(w.calls.Load()))
	c.Count("krt_fetches", int(w.fetches.Load()))
	c.Max("goroutines_at_barrier", ist.Goroutines)
	c.Max("ops_per_program", totalOps)
	if p.Risk != "" {
		c.Count("programs_risk_"+p.Risk, 1)
	} else {
		c.Count("programs_risk_none", 1)
	}
	if nontrivial && eventsChecked > 0 {
		c.Nontrivial(vh.Hash(string(pj)))
	}
	c.Sample(map[string]any{"program": json.RawMessage(pj), "phases": len(phases), "subscribers": len(subs), "events_checked": eventsChecked})
}
