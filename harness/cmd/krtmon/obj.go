package main

// Obj is the single object type flowing through every collection of a generated program.
// This file deliberately imports nothing from krt: the type satisfies krt's optional
// interfaces (ResourceNamer, Namer, Namespacer, Labeler, LabelSelectorer, Equaler)
// structurally, and the reference evaluator (ref.go) works on plain maps of Obj.

import (
	"fmt"
	"hash/fnv"
	"sort"
	"strings"
)

type Obj struct {
	Name      string
	Namespace string
	Labels    map[string]string // read-only after construction
	Selector  map[string]string // read-only after construction
	Val       string
	Refs      []string // sorted, read-only after construction
	c         string   // canonical form, set by mk()
}

func (o Obj) ResourceName() string                { return o.Namespace + "/" + o.Name }
func (o Obj) GetName() string                     { return o.Name }
func (o Obj) GetNamespace() string                { return o.Namespace }
func (o Obj) GetLabels() map[string]string        { return o.Labels }
func (o Obj) GetLabelSelector() map[string]string { return o.Selector }

// Equals is what krt uses to detect changes (Equaler[Obj]).
func (o Obj) Equals(p Obj) bool { return o.canon() == p.canon() }

func (o Obj) canon() string {
	if o.c != "" {
		return o.c
	}
	return canonOf(o)
}

func canonMap(m map[string]string) string {
	if len(m) == 0 {
		return ""
	}
	ks := make([]string, 0, len(m))
	for k := range m {
		ks = append(ks, k)
	}
	sort.Strings(ks)
	var b strings.Builder
	for _, k := range ks {
		b.WriteString(k)
		b.WriteByte('=')
		b.WriteString(m[k])
		b.WriteByte(',')
	}
	return b.String()
}

func canonOf(o Obj) string {
	return o.Namespace + "/" + o.Name + "|L:" + canonMap(o.Labels) + "|S:" + canonMap(o.Selector) + "|V:" + o.Val + "|R:" + strings.Join(o.Refs, ",")
}

// mk finalises an object (sorts refs, computes the canonical form).
func mk(o Obj) Obj {
	if len(o.Refs) > 1 {
		r := append([]string(nil), o.Refs...)
		sort.Strings(r)
		o.Refs = r
	}
	o.c = canonOf(o)
	return o
}

func (o Obj) String() string { return o.canon() }

// h is the short digest used for derived values.
func h(parts ...string) string {
	f := fnv.New64a()
	for _, p := range parts {
		f.Write([]byte(p))
		f.Write([]byte{0})
	}
	return fmt.Sprintf("%012x", f.Sum64()&0xffffffffffff)
}

// odd is the predicate used by generic filters: parity of the last hex digit / character of Val.
func odd(o Obj) bool {
	if o.Val == "" {
		return false
	}
	return o.Val[len(o.Val)-1]&1 == 1
}

func copyMap(m map[string]string) map[string]string {
	if m == nil {
		return nil
	}
	r := make(map[string]string, len(m)+1)
	for k, v := range m {
		r[k] = v
	}
	return r
}

func subset(a, b map[string]string) bool {
	for k, v := range a {
		if w, ok := b[k]; !ok || w != v {
			return false
		}
	}
	return true
}

func sortedKeys[V any](m map[string]V) []string {
	ks := make([]string, 0, len(m))
	for k := range m {
		ks = append(ks, k)
	}
	sort.Strings(ks)
	return ks
}

// digestObjs is an order-insensitive digest of a result list (key:val pairs, sorted).
func digestObjs(os []Obj) string {
	s := make([]string, 0, len(os))
	for _, o := range os {
		s = append(s, o.ResourceName()+":"+o.Val)
	}
	sort.Strings(s)
	return strings.Join(s, ";")
}
