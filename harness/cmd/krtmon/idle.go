package main

// Quiescence is decided logically from one stop-the-world goroutine snapshot
// (runtime.Stack(all=true) stops the world, so the snapshot is consistent):
//
//	every goroutine other than the caller is parked in a state that only another goroutine
//	can end (chan receive / select / sync.Cond.Wait) — the only exception being goroutines
//	without any istio or harness frame that sit in the kernel or on a timer — and none of
//	them is inside a krt sync-wait loop.
//
// With the mutators joined, nothing is running or runnable that could wake any of them:
// an unbuffered rendezvous or a Cond.Signal makes the partner runnable immediately, and a
// runnable/running/lock-waiting goroutine makes the snapshot non-idle. Every event an input
// change caused has therefore been fully propagated and handed to every handler. The verdict
// does not depend on how long this took; only the watchdog (=> inconclusive) does.

import (
	"fmt"
	"os"
	"runtime"
	"strings"
	"time"
)

var idleStates = map[string]bool{
	"chan receive":            true,
	"select":                  true,
	"sync.Cond.Wait":          true,
	"chan receive (nil chan)": true,
	"select (no cases)":       true,
}

type idleStats struct {
	Snapshots  int
	Goroutines int
	Busy       string
}

func snapshotIdle(buf *[]byte) (idle bool, n int, why string) {
	for {
		m := runtime.Stack(*buf, true)
		if m < len(*buf) {
			return parseIdle(string((*buf)[:m]))
		}
		*buf = make([]byte, 2*len(*buf))
	}
}

func parseIdle(dump string) (bool, int, string) {
	blocks := strings.Split(dump, "\n\n")
	n := 0
	for i, b := range blocks {
		if i == 0 {
			continue // the caller
		}
		if !strings.HasPrefix(b, "goroutine ") {
			continue
		}
		relevant := strings.Contains(b, "istio.io/istio/") || strings.Contains(b, "\nmain.") || strings.Contains(b, "created by main.")
		n++
		hdr := b
		if j := strings.IndexByte(b, '\n'); j >= 0 {
			hdr = b[:j]
		}
		lb, rb := strings.IndexByte(hdr, '['), strings.LastIndexByte(hdr, ']')
		if lb < 0 || rb < lb {
			return false, n, "unparsable header: " + hdr
		}
		state := hdr[lb+1 : rb]
		if j := strings.IndexByte(state, ','); j >= 0 {
			state = state[:j]
		}
		if !idleStates[state] {
			// A goroutine that has not run yet shows only its entry function (krt starts its listener goroutines
			// through k8s wait.Group, so such a goroutine has no istio frame at all): every goroutine that is not
			// parked counts, whatever its frames, except background goroutines parked in the kernel or on a timer.
			if !relevant && (state == "syscall" || state == "IO wait" || state == "sleep") {
				continue
			}
			return false, n, "state " + state + "\n" + b
		}
		if relevant && (strings.Contains(b, "aitForCacheSync") || strings.Contains(b, "WaitUntilSynced")) {
			return false, n, "sync wait in progress\n" + b
		}
	}
	return true, n, ""
}

// waitIdle spins until a snapshot is idle. Returns false when the watchdog fired.
func waitIdle(st *idleStats, watchdog time.Duration) bool {
	buf := make([]byte, 1<<20)
	deadline := time.Now().Add(watchdog)
	for spin := 0; ; spin++ {
		idle, n, why := snapshotIdle(&buf)
		st.Snapshots++
		if idle {
			st.Goroutines = n
			if os.Getenv("KRTMON_DUMP_IDLE") != "" {
				m := runtime.Stack(buf, true)
				fmt.Fprintf(os.Stderr, "IDLE-DUMP\n%s\nEND-IDLE-DUMP\n", buf[:m])
			}
			return true
		}
		if time.Now().After(deadline) {
			fmt.Fprintf(os.Stderr, "BARRIER-LOST %s\n", why)
			if j := strings.IndexByte(why, '\n'); j >= 0 {
				why = why[:j]
			}
			st.Busy = why
			return false
		}
		if spin < 20 {
			runtime.Gosched()
		} else {
			time.Sleep(time.Duration(min(spin, 200)) * 50 * time.Microsecond)
		}
	}
}
