package main

// Per-child world: key material, four CA configurations (real IstioCA behind the real
// caserver.Server), the real authenticators with their fake back ends, and the harness's own
// pod table that the impersonation oracle is evaluated against.

import (
	"context"
	"crypto/x509"
	"encoding/json"
	"fmt"
	"net/http"
	"net/http/httptest"
	"os"
	"path/filepath"
	"sort"
	"sync"
	"time"

	jose "github.com/go-jose/go-jose/v4"
	k8sauth "k8s.io/api/authentication/v1"
	v1 "k8s.io/api/core/v1"
	metav1 "k8s.io/apimachinery/pkg/apis/meta/v1"
	"k8s.io/apimachinery/pkg/runtime"
	"k8s.io/apimachinery/pkg/types"
	"k8s.io/client-go/kubernetes"
	"k8s.io/client-go/kubernetes/fake"
	ktesting "k8s.io/client-go/testing"

	meshconfig "istio.io/api/mesh/v1alpha1"
	"istio.io/api/security/v1beta1"
	"istio.io/istio/pilot/pkg/features"
	"istio.io/istio/pkg/cluster"
	"istio.io/istio/pkg/config/mesh/meshwatcher"
	"istio.io/istio/pkg/kube"
	"istio.io/istio/pkg/kube/multicluster"
	"istio.io/istio/pkg/log"
	"istio.io/istio/pkg/security"
	"istio.io/istio/pkg/util/sets"
	"istio.io/istio/security/pkg/pki/ca"
	caserver "istio.io/istio/security/pkg/server/ca"
	"istio.io/istio/security/pkg/server/ca/authenticate"
	"istio.io/istio/security/pkg/server/ca/authenticate/kubeauth"
)

// Environment the children run with (read by pilot/pkg/features at init): the real
// configuration path for the node authorizer and the XFCC trusted networks.
const (
	envTrustedNodeAccounts = "CA_TRUSTED_NODE_ACCOUNTS=istio-system/ztunnel,kube-system/node-agent"
	envTrustedGatewayCIDR  = "TRUSTED_GATEWAY_CIDR=10.77.0.0/16,fd00:77::/32"
)

var (
	trustedAccounts = map[[2]string]bool{{"istio-system", "ztunnel"}: true, {"kube-system", "node-agent"}: true}
	trustedCIDRs    = []string{"10.77.0.0/16", "fd00:77::/32"}
)

type podRow struct {
	Cluster, NS, Name, SA, Node, UID string
}

// The harness's own pod table (trusted base: the fake API servers hold exactly these pods).
var podTable = []podRow{
	{"c1", "istio-system", "ztunnel-n1", "ztunnel", "n1", "uid-zt-n1"},
	{"c1", "istio-system", "ztunnel-n2", "ztunnel", "n2", "uid-zt-n2"},
	{"c1", "istio-system", "ztunnel-pending", "ztunnel", "", "uid-zt-p"},
	{"c1", "kube-system", "node-agent-n1", "node-agent", "n1", "uid-na-n1"},
	{"c1", "ns-a", "a-1", "sa-a", "n1", "uid-a-1"},
	{"c1", "ns-a", "b-1", "sa-b", "n2", "uid-b-1"},
	{"c1", "ns-b", "a-1", "sa-a", "n1", "uid-ba-1"},
	{"c1", "ns-b", "a-2", "sa-a", "n2", "uid-ba-2"},
	{"c1", "ns-c", "c-1", "sa-c", "", "uid-c-1"},
	{"c1", "ns-d", "d-1", "sa-d", "n3", "uid-d-1"},
	{"c1", "default", "def-1", "default", "n1", "uid-def-1"},
	{"c1", "kube-system", "admin-1", "admin", "n3", "uid-admin-1"},
	{"c2", "istio-system", "ztunnel-n1", "ztunnel", "n1", "uid-zt-c2"},
	{"c2", "ns-z", "z-1", "sa-z", "n1", "uid-z-1"},
	{"c2", "ns-a", "b-9", "sa-b", "n1", "uid-b-9"},
}

func podsOf(cl string) []podRow {
	var out []podRow
	for _, p := range podTable {
		if p.Cluster == cl {
			out = append(out, p)
		}
	}
	return out
}

func findPod(cl, ns, name string) *podRow {
	for i := range podTable {
		p := &podTable[i]
		if p.Cluster == cl && p.NS == ns && p.Name == name {
			return p
		}
	}
	return nil
}

// tokenOutcome is what the fake API server of one cluster answers for one bearer token.
type tokenOutcome struct {
	APIError      bool
	Authenticated bool
	StatusError   string
	Username      string
	Groups        []string
	PodName       string
	PodUID        string
}

type clusterEnv struct {
	ID       string
	TokenAPI *fake.Clientset // serves TokenReview with harness-chosen outcomes
	PodAPI   kube.Client     // holds the pod table for the node authorizer
	mu       sync.Mutex
	tokens   map[string]*tokenOutcome
	reviews  int
}

func (ce *clusterEnv) setToken(tok string, o *tokenOutcome) {
	ce.mu.Lock()
	ce.tokens[tok] = o
	ce.mu.Unlock()
}

func (ce *clusterEnv) clearTokens() {
	ce.mu.Lock()
	ce.tokens = map[string]*tokenOutcome{}
	ce.mu.Unlock()
}

func newClusterEnv(id string) *clusterEnv {
	ce := &clusterEnv{ID: id, tokens: map[string]*tokenOutcome{}}
	ce.TokenAPI = fake.NewClientset()
	ce.TokenAPI.PrependReactor("create", "tokenreviews", func(action ktesting.Action) (bool, runtime.Object, error) {
		tr := action.(ktesting.CreateAction).GetObject().(*k8sauth.TokenReview).DeepCopy()
		ce.mu.Lock()
		ce.reviews++
		o := ce.tokens[tr.Spec.Token]
		ce.mu.Unlock()
		if o == nil {
			tr.Status = k8sauth.TokenReviewStatus{Authenticated: false, Error: "unknown token"}
			return true, tr, nil
		}
		if o.APIError {
			return true, nil, fmt.Errorf("apiserver unavailable")
		}
		tr.Status = k8sauth.TokenReviewStatus{Authenticated: o.Authenticated, Error: o.StatusError}
		tr.Status.User = k8sauth.UserInfo{Username: o.Username, Groups: append([]string(nil), o.Groups...), Extra: map[string]k8sauth.ExtraValue{}}
		if o.PodName != "" {
			tr.Status.User.Extra["authentication.kubernetes.io/pod-name"] = k8sauth.ExtraValue{o.PodName}
		}
		if o.PodUID != "" {
			tr.Status.User.Extra["authentication.kubernetes.io/pod-uid"] = k8sauth.ExtraValue{o.PodUID}
		}
		return true, tr, nil
	})
	var objs []runtime.Object
	for _, p := range podsOf(id) {
		objs = append(objs, &v1.Pod{
			ObjectMeta: metav1.ObjectMeta{Name: p.Name, Namespace: p.NS, UID: types.UID(p.UID)},
			Spec:       v1.PodSpec{ServiceAccountName: p.SA, NodeName: p.Node},
			Status:     v1.PodStatus{Phase: v1.PodRunning},
		})
	}
	ce.PodAPI = kube.NewFakeClient(objs...)
	return ce
}

type remoteGetter struct{ clusters map[string]*clusterEnv }

func (g remoteGetter) GetRemoteKubeClient(id cluster.ID) kubernetes.Interface {
	if ce := g.clusters[string(id)]; ce != nil && id != "c1" {
		return ce.TokenAPI
	}
	return nil
}

func (g remoteGetter) ListClusters() []cluster.ID { return []cluster.ID{"c2"} }

type meshHolder struct{ td string }

func (m meshHolder) Mesh() *meshconfig.MeshConfig { return &meshconfig.MeshConfig{TrustDomain: m.td} }

// oidcEnv is the loopback issuer: discovery document + JWKS.
type oidcEnv struct {
	Srv      *httptest.Server
	URL      string
	RSAKey   jose.JSONWebKey // published
	ECKey    jose.JSONWebKey // published
	RogueKey jose.JSONWebKey // same kid as RSAKey, NOT published
	hits     int
	mu       sync.Mutex
}

func newOIDCEnv(rsaKey, rogue keyPair, ec keyPair) *oidcEnv {
	o := &oidcEnv{}
	o.RSAKey = jose.JSONWebKey{Key: rsaKey.Priv, KeyID: "k-rsa", Algorithm: string(jose.RS256), Use: "sig"}
	o.ECKey = jose.JSONWebKey{Key: ec.Priv, KeyID: "k-ec", Algorithm: string(jose.ES256), Use: "sig"}
	o.RogueKey = jose.JSONWebKey{Key: rogue.Priv, KeyID: "k-rsa", Algorithm: string(jose.RS256), Use: "sig"}
	set := jose.JSONWebKeySet{Keys: []jose.JSONWebKey{o.RSAKey.Public(), o.ECKey.Public()}}
	mux := http.NewServeMux()
	mux.HandleFunc("/.well-known/openid-configuration", func(w http.ResponseWriter, r *http.Request) {
		o.mu.Lock()
		o.hits++
		o.mu.Unlock()
		w.Header().Set("Content-Type", "application/json")
		_ = json.NewEncoder(w).Encode(map[string]any{
			"issuer":                                o.URL,
			"jwks_uri":                              o.URL + "/jwks",
			"authorization_endpoint":                o.URL + "/auth",
			"token_endpoint":                        o.URL + "/token",
			"response_types_supported":              []string{"id_token"},
			"subject_types_supported":               []string{"public"},
			"id_token_signing_alg_values_supported": []string{"RS256", "ES256"},
		})
	})
	mux.HandleFunc("/jwks", func(w http.ResponseWriter, r *http.Request) {
		o.mu.Lock()
		o.hits++
		o.mu.Unlock()
		w.Header().Set("Content-Type", "application/json")
		_ = json.NewEncoder(w).Encode(set)
	})
	o.Srv = httptest.NewServer(mux) // binds 127.0.0.1:0
	o.URL = o.Srv.URL
	return o
}

type caConfig struct {
	Name     string
	Kind     string // self-signed | plugged
	TD       string
	Auths    []string // configured authenticators, in order
	NodeAuth bool
	OIDCMode string // discovery | jwks | ""
	OIDCAuds []string
	MaxTTL   time.Duration
	DefTTL   time.Duration

	Srv    *caserver.Server
	CA     *ca.IstioCA
	Signer *x509.Certificate
	Roots  []*x509.Certificate
}

func (c *caConfig) has(auth string) bool {
	for _, a := range c.Auths {
		if a == auth {
			return true
		}
	}
	return false
}

type world struct {
	Start    time.Time
	CSRKeys  []keyPair
	LeafKey  keyPair // key of presented client certificates
	ClientCA *caNode
	OIDC     *oidcEnv
	Clusters map[string]*clusterEnv
	Cfgs     []*caConfig
	stop     chan struct{}
}

func writeFile(dir, name string, b []byte) string {
	p := filepath.Join(dir, name)
	if err := os.WriteFile(p, b, 0o600); err != nil {
		panic(fmt.Sprintf("harness: write %s: %v", p, err))
	}
	return p
}

// pluggedCA builds root -> intermediates... -> signer with harness keys and loads it through
// the real NewPluggedCertIstioCAOptions (files live only for the duration of the load).
func pluggedCA(keys []keyPair, depth int, signerNotAfter time.Time, defTTL, maxTTL time.Duration, now time.Time) (*ca.IstioCA, *x509.Certificate, []*x509.Certificate, error) {
	root, err := makeCA("casec root", keys[0].Priv, nil, now.Add(-2*time.Hour), now.Add(10*365*24*time.Hour))
	if err != nil {
		return nil, nil, nil, err
	}
	parent := root
	var chain [][]byte // signer first
	for d := 0; d < depth; d++ {
		na := now.Add(5 * 365 * 24 * time.Hour)
		if d == depth-1 {
			na = signerNotAfter
		}
		n, err := makeCA(fmt.Sprintf("casec intermediate %d", d), keys[(d+1)%len(keys)].Priv, parent, now.Add(-time.Hour), na)
		if err != nil {
			return nil, nil, nil, err
		}
		chain = append([][]byte{n.PEM}, chain...)
		parent = n
	}
	dir, err := os.MkdirTemp("", "casec-plugged-")
	if err != nil {
		return nil, nil, nil, err
	}
	defer os.RemoveAll(dir)
	kp, err := keyPEM(parent.Key)
	if err != nil {
		return nil, nil, nil, err
	}
	var chainPEM []byte
	for _, c := range chain {
		chainPEM = append(chainPEM, c...)
	}
	fb := ca.SigningCAFileBundle{
		RootCertFile:    writeFile(dir, "root-cert.pem", root.PEM),
		CertChainFiles:  []string{writeFile(dir, "cert-chain.pem", chainPEM)},
		SigningCertFile: writeFile(dir, "ca-cert.pem", parent.PEM),
		SigningKeyFile:  writeFile(dir, "ca-key.pem", kp),
	}
	opts, err := ca.NewPluggedCertIstioCAOptions(fb, defTTL, maxTTL, 2048)
	if err != nil {
		return nil, nil, nil, err
	}
	ica, err := ca.NewIstioCA(opts)
	if err != nil {
		return nil, nil, nil, err
	}
	return ica, parent.Cert, []*x509.Certificate{root.Cert}, nil
}

func selfSignedCA(defTTL, maxTTL time.Duration) (*ca.IstioCA, *x509.Certificate, []*x509.Certificate, error) {
	cs := fake.NewClientset()
	opts, err := ca.NewSelfSignedIstioCAOptions(context.Background(), 20, 365*24*time.Hour, 0, defTTL, maxTTL,
		"cluster.local", false, false, "istio-system", cs.CoreV1(), "", false, 2048)
	if err != nil {
		return nil, nil, nil, err
	}
	ica, err := ca.NewIstioCA(opts)
	if err != nil {
		return nil, nil, nil, err
	}
	signer, _, _, rootPEM := ica.GetCAKeyCertBundle().GetAll()
	roots, err := splitPEMCerts(rootPEM)
	if err != nil {
		return nil, nil, nil, err
	}
	return ica, signer, roots, nil
}

func buildWorld(progress func(string)) (*world, error) {
	w := &world{Start: time.Now(), Clusters: map[string]*clusterEnv{}, stop: make(chan struct{})}
	// keys, once per child
	rsaA, rsaB, rsaC := genKey("rsa"), genKey("rsa"), genKey("rsa")
	ecA, ecB, ecC := genKey("ec256"), genKey("ec384"), genKey("ec256")
	ecD, ecE, ecF, ecG := genKey("ec256"), genKey("ec384"), genKey("ec256"), genKey("ec384")
	ed := genKey("ed25519")
	w.CSRKeys = []keyPair{rsaA, ecA, ecB, ed, ecC}
	w.LeafKey = ecC
	progress("keys")
	var err error
	w.ClientCA, err = makeCA("casec client CA", ecA.Priv, nil, w.Start.Add(-time.Hour), w.Start.Add(365*24*time.Hour))
	if err != nil {
		return nil, err
	}
	w.OIDC = newOIDCEnv(rsaB, rsaC, ecA)
	for _, id := range []string{"c1", "c2"} {
		w.Clusters[id] = newClusterEnv(id)
	}

	w.Cfgs = []*caConfig{
		{Name: "A-selfsigned-rsa", Kind: "self-signed", TD: "cluster.local", Auths: []string{"cert", "k8s", "oidc", "xfcc"}, NodeAuth: true,
			OIDCMode: "discovery", OIDCAuds: []string{"istio-ca", "aud-A"}, MaxTTL: 2 * time.Hour, DefTTL: time.Hour},
		{Name: "B-plugged-rsa-1", Kind: "plugged", TD: "corp.example.com", Auths: []string{"k8s", "cert", "xfcc"}, NodeAuth: false,
			MaxTTL: 24 * time.Hour, DefTTL: 24 * time.Hour},
		{Name: "C-plugged-ec-2", Kind: "plugged", TD: "cluster.local", Auths: []string{"oidc", "k8s", "cert"}, NodeAuth: true,
			OIDCMode: "jwks", OIDCAuds: []string{"aud-C"}, MaxTTL: 90 * 24 * time.Hour, DefTTL: 24 * time.Hour},
		{Name: "D-plugged-ec-expiring", Kind: "plugged", TD: "td-d.test", Auths: []string{"xfcc", "oidc", "cert", "k8s"}, NodeAuth: true,
			OIDCMode: "discovery", OIDCAuds: []string{"istio-ca"}, MaxTTL: 2 * time.Hour, DefTTL: time.Hour},
	}
	mc := multicluster.NewFakeController()
	savedTrusted := features.CATrustedNodeAccounts
	if len(savedTrusted) != len(trustedAccounts) {
		return nil, fmt.Errorf("CA_TRUSTED_NODE_ACCOUNTS not in effect: %v", savedTrusted)
	}
	if len(features.TrustedGatewayCIDR) != len(trustedCIDRs) {
		return nil, fmt.Errorf("TRUSTED_GATEWAY_CIDR not in effect: %v", features.TrustedGatewayCIDR)
	}
	for _, cfg := range w.Cfgs {
		switch cfg.Name[0] {
		case 'A':
			cfg.CA, cfg.Signer, cfg.Roots, err = selfSignedCA(cfg.DefTTL, cfg.MaxTTL)
		case 'B':
			cfg.CA, cfg.Signer, cfg.Roots, err = pluggedCA([]keyPair{rsaB, rsaC}, 1, w.Start.Add(3*365*24*time.Hour), cfg.DefTTL, cfg.MaxTTL, w.Start)
		case 'C':
			cfg.CA, cfg.Signer, cfg.Roots, err = pluggedCA([]keyPair{ecD, ecE, ecF}, 2, w.Start.Add(3*365*24*time.Hour), cfg.DefTTL, cfg.MaxTTL, w.Start)
		case 'D':
			// signer expires 40 minutes after child start: every TTL above that must be clamped
			cfg.CA, cfg.Signer, cfg.Roots, err = pluggedCA([]keyPair{ecG, ecE}, 1, w.Start.Add(40*time.Minute), cfg.DefTTL, cfg.MaxTTL, w.Start)
		}
		if err != nil {
			return nil, fmt.Errorf("CA %s: %v", cfg.Name, err)
		}
		progress("ca " + cfg.Name)
		var auths []security.Authenticator
		for _, a := range cfg.Auths {
			switch a {
			case "cert":
				auths = append(auths, &authenticate.ClientCertAuthenticator{})
			case "k8s":
				auths = append(auths, kubeauth.NewKubeJWTAuthenticator(meshHolder{cfg.TD}, w.Clusters["c1"].TokenAPI, "c1", nil, remoteGetter{w.Clusters}))
			case "oidc":
				rule := &v1beta1.JWTRule{Issuer: w.OIDC.URL, Audiences: cfg.OIDCAuds}
				if cfg.OIDCMode == "jwks" {
					rule.JwksUri = w.OIDC.URL + "/jwks"
				}
				ja, err := authenticate.NewJwtAuthenticator(rule, meshwatcher.NewTestWatcher(&meshconfig.MeshConfig{TrustDomain: cfg.TD}))
				if err != nil {
					return nil, fmt.Errorf("oidc authenticator %s: %v", cfg.Name, err)
				}
				auths = append(auths, ja)
			case "xfcc":
				auths = append(auths, authenticate.XfccAuthenticator{})
			}
		}
		if cfg.NodeAuth {
			features.CATrustedNodeAccounts = savedTrusted
		} else {
			features.CATrustedNodeAccounts = sets.New[types.NamespacedName]()
		}
		cfg.Srv, err = caserver.New(cfg.CA, cfg.MaxTTL, auths, mc)
		features.CATrustedNodeAccounts = savedTrusted
		if err != nil {
			return nil, fmt.Errorf("caserver.New %s: %v", cfg.Name, err)
		}
	}
	ids := make([]string, 0, len(w.Clusters))
	for id := range w.Clusters {
		ids = append(ids, id)
	}
	sort.Strings(ids)
	for _, id := range ids {
		mc.Add(cluster.ID(id), w.Clusters[id].PodAPI, w.stop)
	}
	for _, id := range ids {
		w.Clusters[id].PodAPI.RunAndWait(w.stop)
	}
	progress("clusters")
	// the harness does not read istio's logs; keep the child logs for CASE lines and crashes
	for _, s := range log.Scopes() {
		s.SetOutputLevel(log.NoneLevel)
	}
	return w, nil
}
