package main

// PKI helpers written against the Go standard library only (no istio code): key material,
// harness-made CA hierarchies, raw SAN extension encoding/decoding, client certificates, CSRs.

import (
	"crypto"
	"crypto/ecdsa"
	"crypto/ed25519"
	"crypto/elliptic"
	"crypto/rand"
	"crypto/rsa"
	"crypto/x509"
	"crypto/x509/pkix"
	"encoding/asn1"
	"encoding/pem"
	"fmt"
	"math/big"
	"net"
	"time"
)

var oidSAN = asn1.ObjectIdentifier{2, 5, 29, 17}

// GeneralName tags (RFC 5280 appendix A.2).
const (
	tagOther = 0
	tagEmail = 1
	tagDNS   = 2
	tagDir   = 4
	tagURI   = 6
	tagIP    = 7
)

type sanEntry struct {
	Tag int
	Val []byte
}

// buildSAN encodes a GeneralNames sequence with primitive context-specific entries.
func buildSAN(entries []sanEntry, critical bool) pkix.Extension {
	var raws []asn1.RawValue
	for _, e := range entries {
		raws = append(raws, asn1.RawValue{Class: asn1.ClassContextSpecific, Tag: e.Tag, Bytes: e.Val})
	}
	b, err := asn1.Marshal(raws)
	if err != nil {
		panic(fmt.Sprintf("harness: SAN marshal: %v", err))
	}
	if len(raws) == 0 {
		b = []byte{0x30, 0x00}
	}
	return pkix.Extension{Id: oidSAN, Critical: critical, Value: b}
}

// rawSANs decodes the SAN extension of a parsed certificate into (tag, bytes) pairs. ok=false
// when the extension is absent.
func rawSANs(exts []pkix.Extension) (out []sanEntry, present bool, err error) {
	for _, e := range exts {
		if !e.Id.Equal(oidSAN) {
			continue
		}
		present = true
		var seq asn1.RawValue
		rest, err := asn1.Unmarshal(e.Value, &seq)
		if err != nil {
			return nil, true, err
		}
		if len(rest) != 0 || !seq.IsCompound || seq.Tag != asn1.TagSequence || seq.Class != asn1.ClassUniversal {
			return nil, true, fmt.Errorf("SAN is not a plain SEQUENCE")
		}
		b := seq.Bytes
		for len(b) > 0 {
			var v asn1.RawValue
			b, err = asn1.Unmarshal(b, &v)
			if err != nil {
				return nil, true, err
			}
			out = append(out, sanEntry{Tag: v.Tag, Val: v.Bytes})
		}
	}
	return out, present, nil
}

// renderSAN gives the type-erased textual form used for comparison with identity strings.
func renderSAN(e sanEntry) string {
	if e.Tag == tagIP && (len(e.Val) == 4 || len(e.Val) == 16) {
		return net.IP(e.Val).String()
	}
	return string(e.Val)
}

// canonID renders an identity string the way it must appear in a SAN under type erasure: an
// identity that is an IP literal is compared in canonical IP text form.
func canonID(s string) string {
	if ip := net.ParseIP(s); ip != nil {
		return ip.String()
	}
	return s
}

type keyPair struct {
	Kind string // rsa | ec256 | ec384 | ed25519
	Priv crypto.Signer
}

func genKey(kind string) keyPair {
	var s crypto.Signer
	var err error
	switch kind {
	case "rsa":
		s, err = rsa.GenerateKey(rand.Reader, 2048)
	case "ec256":
		s, err = ecdsa.GenerateKey(elliptic.P256(), rand.Reader)
	case "ec384":
		s, err = ecdsa.GenerateKey(elliptic.P384(), rand.Reader)
	case "ed25519":
		_, priv, e := ed25519.GenerateKey(rand.Reader)
		s, err = priv, e
	default:
		panic("harness: unknown key kind " + kind)
	}
	if err != nil {
		panic(fmt.Sprintf("harness: keygen %s: %v", kind, err))
	}
	return keyPair{Kind: kind, Priv: s}
}

func samePublicKey(a, b any) bool {
	type eq interface{ Equal(x crypto.PublicKey) bool }
	if ea, ok := a.(eq); ok {
		return ea.Equal(b)
	}
	return false
}

func serial() *big.Int {
	n, err := rand.Int(rand.Reader, new(big.Int).Lsh(big.NewInt(1), 100))
	if err != nil {
		panic(err)
	}
	return n
}

type caNode struct {
	Cert *x509.Certificate
	PEM  []byte
	Key  crypto.Signer
}

func pemCert(der []byte) []byte {
	return pem.EncodeToMemory(&pem.Block{Type: "CERTIFICATE", Bytes: der})
}

// makeCA creates a CA certificate (self-signed when parent == nil).
func makeCA(cn string, key crypto.Signer, parent *caNode, notBefore, notAfter time.Time) (*caNode, error) {
	tmpl := &x509.Certificate{
		SerialNumber:          serial(),
		Subject:               pkix.Name{Organization: []string{"casec-harness"}, CommonName: cn},
		NotBefore:             notBefore,
		NotAfter:              notAfter,
		IsCA:                  true,
		BasicConstraintsValid: true,
		KeyUsage:              x509.KeyUsageCertSign | x509.KeyUsageCRLSign | x509.KeyUsageDigitalSignature,
	}
	signerCert, signerKey := tmpl, key
	if parent != nil {
		signerCert, signerKey = parent.Cert, parent.Key
	}
	der, err := x509.CreateCertificate(rand.Reader, tmpl, signerCert, key.Public(), signerKey)
	if err != nil {
		return nil, err
	}
	c, err := x509.ParseCertificate(der)
	if err != nil {
		return nil, err
	}
	return &caNode{Cert: c, PEM: pemCert(der), Key: key}, nil
}

func keyPEM(k crypto.Signer) ([]byte, error) {
	switch kk := k.(type) {
	case *rsa.PrivateKey:
		return pem.EncodeToMemory(&pem.Block{Type: "RSA PRIVATE KEY", Bytes: x509.MarshalPKCS1PrivateKey(kk)}), nil
	case *ecdsa.PrivateKey:
		b, err := x509.MarshalECPrivateKey(kk)
		if err != nil {
			return nil, err
		}
		return pem.EncodeToMemory(&pem.Block{Type: "EC PRIVATE KEY", Bytes: b}), nil
	default:
		b, err := x509.MarshalPKCS8PrivateKey(k)
		if err != nil {
			return nil, err
		}
		return pem.EncodeToMemory(&pem.Block{Type: "PRIVATE KEY", Bytes: b}), nil
	}
}

// makeClientCert issues a leaf under the harness client CA carrying exactly the given SAN
// extension (nil = no SAN extension) and returns it in parsed form, as crypto/tls would hand
// it to the server in VerifiedChains.
func makeClientCert(ca *caNode, leafKey crypto.Signer, cn string, san *pkix.Extension, now time.Time) (*x509.Certificate, error) {
	tmpl := &x509.Certificate{
		SerialNumber: serial(),
		Subject:      pkix.Name{CommonName: cn},
		NotBefore:    now.Add(-time.Hour),
		NotAfter:     now.Add(24 * time.Hour),
		KeyUsage:     x509.KeyUsageDigitalSignature,
		ExtKeyUsage:  []x509.ExtKeyUsage{x509.ExtKeyUsageClientAuth},
	}
	if san != nil {
		tmpl.ExtraExtensions = []pkix.Extension{*san}
	}
	der, err := x509.CreateCertificate(rand.Reader, tmpl, ca.Cert, leafKey.Public(), ca.Key)
	if err != nil {
		return nil, err
	}
	return x509.ParseCertificate(der)
}

// splitPEMCerts parses every CERTIFICATE block of a PEM bundle.
func splitPEMCerts(b []byte) ([]*x509.Certificate, error) {
	var out []*x509.Certificate
	for {
		var blk *pem.Block
		blk, b = pem.Decode(b)
		if blk == nil {
			break
		}
		c, err := x509.ParseCertificate(blk.Bytes)
		if err != nil {
			return nil, err
		}
		out = append(out, c)
	}
	return out, nil
}
