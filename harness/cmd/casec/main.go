// Engine casec: property C09 — issued workload certificates carry exactly the caller's
// authenticated identity. The real IstioCA behind the real caserver.Server.CreateCertificate
// with the real authenticators is driven in-process with generated and hostile requests; the
// oracle judges the x509-parsed leaf and the gRPC status only.
package main

import (
	"context"
	"crypto/x509"
	"encoding/pem"
	"fmt"
	"os"
	"runtime/debug"
	"sort"
	"strings"
	"time"

	"google.golang.org/grpc/codes"
	"google.golang.org/grpc/metadata"
	"google.golang.org/grpc/peer"
	"google.golang.org/grpc/status"
	"google.golang.org/protobuf/types/known/structpb"

	pb "istio.io/api/security/v1alpha1"

	"verifharness/internal/vh"
)

const (
	quickCases    = 3000
	thoroughCases = 60000
)

func main() {
	vh.Main(vh.Prop{
		ID:    "C09",
		Level: "exploration",
		Rule: "case i < |strata|*4: one enumerated (dimension, shape) boundary (OIDC sub/token/aud, TokenReview outcome, client-cert SAN, XFCC text, peer, CSR, " +
			"TTL, impersonation value and caller, CertSigner) on CA configuration i%4 with all other dimensions clean; case i >= that: all dimensions drawn from " +
			"Rng(req,i). Non-trivial = the answer was judged: a returned leaf parsed and compared with the independently derived identity sets (plus CA/key/TTL/" +
			"signer/chain checks), or a hostile request (no acceptable credential, unauthorised impersonation or malformed CSR) observed to be refused with a gRPC status. " +
			"Distinct = distinct request descriptors.",
		Assumptions: []string{
			"trusted base: Go crypto/x509, encoding/asn1, encoding/pem (leaf parsing, chain verification, CSR classification); client-go fake clientset and istio's kube fake client as API servers",
			"trusted base: go-oidc token verification and go-jose signing; the loopback httptest issuer",
			"TokenReview answers carry DNS-1123 namespace/service-account names (the API server's contract); the pod table of the fake API servers is static",
			"peer address and TLS state in the context are what the gRPC transport would provide (net.TCPAddr/UnixAddr, parsed certificates)",
			"subjects that merely resemble the documented 'system:serviceaccount:<ns>:<sa>' form (extra fields, empty fields, look-alike prefix) and TokenReview users outside the service-account group are treated as unspecified: either refusal or a certificate for fields 3/4 is tolerated",
			"requests are issued sequentially; the schedule quantifier is not part of C09",
		},
		Anchors: []string{
			"security/pkg/server/ca/server.go", "security/pkg/server/ca/node_auth.go", "security/pkg/pki/ca/ca.go", "security/pkg/pki/util/generate_cert.go",
			"security/pkg/pki/util/san.go", "security/pkg/pki/util/generate_csr.go", "pkg/security/authentication.go",
			"security/pkg/server/ca/authenticate/kubeauth/kube_jwt.go", "security/pkg/server/ca/authenticate/oidc.go",
			"security/pkg/server/ca/authenticate/cert_authenticator.go", "security/pkg/server/ca/authenticate/xfcc_authenticator.go", "pkg/spiffe/spiffe.go",
		},
		CrashIsViolation: true,
		MinNontrivial: func(tier string) int {
			if tier == "thorough" {
				return 30000
			}
			return 1800
		},
		Batches: func(tier string) int {
			if tier == "thorough" {
				return 8
			}
			return 3
		},
		Parallel: func(tier string) int {
			if tier == "thorough" {
				return 6
			}
			return 3
		},
		TimeoutSec: func(tier string) int {
			if tier == "thorough" {
				return 1500
			}
			return 400
		},
		Env: []string{envTrustedNodeAccounts, envTrustedGatewayCIDR},
		Run: run,
	})
}

func run(c *vh.Ctx) {
	w, err := buildWorld(func(stage string) { fmt.Fprintf(os.Stderr, "SETUP %s\n", stage) })
	if err == nil {
		err = barrier(w)
	}
	if err != nil {
		c.Case("setup", func() { c.Inconclusive("world setup failed: " + err.Error()) })
		return
	}
	defer w.OIDC.Srv.Close()
	st := strata()
	nStrata := len(st) * len(w.Cfgs)
	c.Count("strata_cases_total", 0)
	for i := 0; i < c.N(quickCases, thoroughCases); i++ {
		if !c.Mine(i) {
			continue
		}
		cfg := w.Cfgs[i%len(w.Cfgs)]
		var f stratum
		desc := fmt.Sprintf("req-%d", i)
		if i < nStrata {
			f = st[i/len(w.Cfgs)]
			desc = fmt.Sprintf("stratum-%d-%s-%s=%s", i, cfg.Name[:1], f.Dim, f.Shape)
		}
		c.Case(desc, func() {
			g := &gen{w: w, r: c.Rng("req", i), cfg: cfg, f: f, id: fmt.Sprint(i)}
			req := g.build()
			if f.Dim != "" {
				c.Count("strata_cases_total", 1)
			}
			oneCase(c, w, req)
		})
	}
}

// call drives the real server in-process.
func call(w *world, req *request) (*pb.IstioCertificateResponse, error) {
	for _, ce := range w.Clusters {
		ce.clearTokens()
	}
	for _, t := range req.Tokens {
		w.Clusters[t.Cluster].setToken(t.Token, t.Outcome)
	}
	ctx := context.Background()
	if req.Peer != nil {
		ctx = peer.NewContext(ctx, req.Peer)
	}
	if len(req.MD) > 0 {
		ctx = metadata.NewIncomingContext(ctx, req.MD)
	}
	return req.Cfg.Srv.CreateCertificate(ctx, &pb.IstioCertificateRequest{Csr: req.CSR.PEM, ValidityDuration: req.TTL, Metadata: req.Meta})
}

// barrier waits (logical condition, generous watchdog) until every server answers known-good
// requests: the node authorizers' informers have the pod table.
func barrier(w *world) error {
	deadline := time.Now().Add(90 * time.Second)
	for _, cfg := range w.Cfgs {
		for _, cl := range []string{"c1", "c2"} {
			for {
				caller, target := podTable[0], podTable[4]
				if cl == "c2" {
					caller, target = podTable[12], podTable[13]
				}
				req := &request{Cfg: cfg, MD: metadata.MD{}}
				g := &gen{w: w, cfg: cfg, id: "barrier"}
				g.r = newBarrierRand()
				g.peerFor(req, "tls-loopback4")
				g.clusterHeader(req, cl)
				g.k8sCred(req, "valid", caller, "")
				req.CSR = g.csrFor("plain")
				req.TTL = 60
				if cfg.NodeAuth {
					req.Meta = &structpb.Struct{Fields: map[string]*structpb.Value{"ImpersonatedIdentity": structpb.NewStringValue(spiffeID(cfg.TD, target.NS, target.SA))}}
				}
				resp, err := call(w, req)
				if err == nil && resp != nil && len(resp.CertChain) > 0 {
					break
				}
				if time.Now().After(deadline) {
					return fmt.Errorf("barrier: %s/%s never answered a known-good request: %v", cfg.Name, cl, err)
				}
				time.Sleep(50 * time.Millisecond)
			}
		}
	}
	return nil
}

func credKey(req *request) string {
	if len(req.Creds) == 0 {
		return "auth=none"
	}
	var ks, ss []string
	for _, c := range req.Creds {
		ks = append(ks, c.Kind)
		ss = append(ss, shapeFamily(c.Shape))
	}
	k := "auth=" + strings.Join(ks, "+") + ":shape=" + strings.Join(ss, "+")
	if req.PeerKind != "tls" {
		k += ":peer=" + req.PeerKind
	}
	return k
}

func describe(req *request) map[string]any {
	var creds []map[string]any
	for _, c := range req.Creds {
		note := c.Note
		if len(note) > 300 {
			note = note[:300] + "…"
		}
		creds = append(creds, map[string]any{"kind": c.Kind, "shape": c.Shape, "input": note, "acceptable_identity_sets": c.Accept, "k8s": c.K8sNS + "/" + c.K8sSA + " pod=" + c.PodName + " uid=" + c.PodUID + " cluster=" + c.K8sCluster})
	}
	sg := req.Signer
	if len(sg) > 80 {
		sg = sg[:80] + "…"
	}
	return map[string]any{
		"config": req.Cfg.Name, "authenticators": req.Cfg.Auths, "trust_domain": req.Cfg.TD, "node_authorizer": req.Cfg.NodeAuth, "max_ttl_s": int64(req.Cfg.MaxTTL / time.Second),
		"forced": req.Forced, "creds": creds, "peer": req.AddrDesc, "peer_kind": req.PeerKind, "peer_trusted": req.Trusted, "clusterid_header": req.HdShape,
		"csr": req.CSR.Shape, "csr_key": req.CSR.KeyIdx, "csr_valid": req.CSR.Valid, "ttl_shape": req.TTLShape, "ttl": req.TTL,
		"impersonate_shape": req.ImpShape, "impersonate": req.Imp, "cert_signer": sg, "metadata_shape": req.MetaShape,
	}
}

func setKey(ids []string) string {
	m := map[string]bool{}
	for _, s := range ids {
		m[canonID(s)] = true
	}
	out := make([]string, 0, len(m))
	for s := range m {
		out = append(out, s)
	}
	sort.Strings(out)
	return strings.Join(out, "\x00")
}

func oneCase(c *vh.Ctx, w *world, req *request) {
	d := describe(req)
	var resp *pb.IstioCertificateResponse
	var err error
	panicked := func() (p bool) {
		defer func() {
			if r := recover(); r != nil {
				p = true
				st := string(debug.Stack())
				fmt.Fprintf(os.Stderr, "CASE-PANIC: %v\n%s\n", r, st)
				d["stack"] = firstLines(st, 45)
				c.Count("panics", 1)
				c.SetAdd("panic_sites", topFrame(st)+" | "+credKey(req))
				c.Nontrivial(vh.Hash(d["creds"], d["config"], "panic"))
				c.Violation("panic:"+topFrame(st), fmt.Sprintf("CreateCertificate panicked: %v (%s)", r, credKey(req)), d)
			}
		}()
		resp, err = call(w, req)
		return false
	}()
	t1 := time.Now() // after the call: NotAfter <= t1+max is one-sided (a slow machine only helps)
	if panicked {
		return
	}
	cfg := req.Cfg
	var allowed [][]string
	anyExpect := false
	for i := range req.Creds {
		allowed = append(allowed, req.Creds[i].Accept...)
		anyExpect = anyExpect || req.Creds[i].Expect
	}
	impOK := false
	for i := range req.Creds {
		if impAuthorized(cfg, req, &req.Creds[i]) {
			impOK = true
		}
	}
	if impOK {
		allowed = append(allowed, []string{req.Imp})
	}
	hostile := len(allowed) == 0 || !req.CSR.Valid || (req.Imp != "" && !impOK)
	c.Count("requests", 1)
	c.Count("requests_cfg_"+cfg.Name[:1], 1)
	for _, cr := range req.Creds {
		c.Count("cred_"+cr.Kind, 1)
		c.SetAdd("cred_shapes", cr.Kind+"/"+cr.Shape)
	}
	c.SetAdd("csr_shapes", req.CSR.Shape+"/"+w.CSRKeys[req.CSR.KeyIdx].Kind)
	c.SetAdd("ttl_shapes", req.TTLShape)
	c.SetAdd("imp_shapes", req.ImpShape)
	c.SetAdd("peer_shapes", req.AddrDesc)
	hash := vh.Hash(d)

	if err != nil {
		s, ok := status.FromError(err)
		if !ok || s.Code() == codes.OK {
			c.Violation("non-grpc-error", fmt.Sprintf("CreateCertificate returned a non-status error %T: %v", err, err), d)
			return
		}
		if resp != nil {
			c.Violation("response-with-error", "both a response and an error were returned", d)
		}
		c.Count("rejected", 1)
		c.Count("rejected_code_"+s.Code().String(), 1)
		c.SetAdd("outcome_rows", cfg.Name[:1]+"|"+credKey(req)+"|csr="+fmt.Sprint(req.CSR.Valid)+"|imp="+req.ImpShape+"|"+s.Code().String())
		if hostile {
			c.Count("hostile_refused", 1)
			c.Nontrivial(hash)
		} else if anyExpect && req.TTL >= 0 && req.TTL <= int64(cfg.MaxTTL/time.Second) && (req.Imp == "" || req.ClusterHd != "" && len(req.Creds) == 1) {
			// not a verdict: the property does not oblige the CA to sign; recorded so that a harness
			// whose "valid" inputs are all refused is visible
			c.Count("expected_issue_but_refused", 1)
			c.SetAdd("expected_issue_but_refused_rows", cfg.Name[:1]+"|"+credKey(req)+"|imp="+req.ImpShape+"|ttl="+req.TTLShape+"|"+s.Code().String())
		}
		return
	}

	// ---- a certificate was returned
	c.Count("issued", 1)
	c.Count("issued_cfg_"+cfg.Name[:1], 1)
	if resp == nil || len(resp.CertChain) == 0 {
		c.Violation("empty-response", "nil error but no certificate chain", d)
		return
	}
	d["cert_chain_len"] = len(resp.CertChain)
	blk, _ := pem.Decode([]byte(resp.CertChain[0]))
	if blk == nil {
		c.Violation("leaf-not-pem", "cert_chain[0] is not PEM", d)
		return
	}
	leaf, perr := x509.ParseCertificate(blk.Bytes)
	if perr != nil {
		d["leaf_pem"] = resp.CertChain[0]
		c.Violation("leaf-unparseable:"+credKey(req), "x509.ParseCertificate(cert_chain[0]): "+perr.Error(), d)
		return
	}
	if !req.CSR.Valid {
		c.Violation("issued-for-malformed-csr:csr="+req.CSR.Shape, "a certificate was issued although the CSR does not parse / verify", d)
	}
	// SANs, type-erased
	raw, present, rerr := rawSANs(leaf.Extensions)
	if rerr != nil || !present {
		c.Violation("leaf-san-missing", fmt.Sprintf("leaf SAN extension present=%v err=%v", present, rerr), d)
		return
	}
	var got []string
	var gotTyped []string
	for _, e := range raw {
		got = append(got, renderSAN(e))
		gotTyped = append(gotTyped, fmt.Sprintf("[%d]%q", e.Tag, renderSAN(e)))
	}
	d["leaf_sans"] = gotTyped
	gotKey := setKey(got)
	var matched []string
	for _, a := range allowed {
		if setKey(a) == gotKey {
			matched = a
			break
		}
	}
	ik := ""
	if req.Imp != "" {
		ik = ":imp=" + req.ImpShape
	}
	switch {
	case matched != nil:
		c.Count("san_exact_match", 1)
		if impOK && setKey([]string{req.Imp}) == gotKey {
			c.Count("issued_impersonated", 1)
		}
		for _, e := range raw {
			if e.Tag != tagURI && strings.HasPrefix(string(e.Val), "spiffe://") || e.Tag == tagDNS && strings.Contains(string(e.Val), "@") {
				c.Count("san_type_changed", 1)
			}
		}
	case len(allowed) == 0:
		c.Violation("issued-without-authentication:"+credKey(req)+ik, fmt.Sprintf("no credential in the request establishes an identity, yet a certificate with SANs %v was issued", gotTyped), d)
	case req.Imp != "" && !impOK && (gotKey == setKey([]string{req.Imp}) || gotKey == setKey(strings.Split(req.Imp, ","))):
		c.Violation("impersonation-unauthorized"+ik, fmt.Sprintf("certificate carries the impersonated identity %q although the node-authorization preconditions do not hold by the harness pod table; SANs %v", req.Imp, gotTyped), d)
	default:
		c.Violation("san-mismatch:"+credKey(req)+ik, fmt.Sprintf("SANs %v are not one of the acceptable identity sets %q", gotTyped, allowed), d)
	}
	if matched != nil && leaf.Subject.CommonName != "" {
		ok := false
		for _, m := range matched {
			if m == leaf.Subject.CommonName {
				ok = true
			}
		}
		if !ok {
			c.Violation("subject-cn-not-identity", fmt.Sprintf("leaf subject CN %q is not one of the established identities %q", leaf.Subject.CommonName, matched), d)
		}
		c.Count("leaf_with_cn", 1)
	}
	// never a CA
	if leaf.IsCA {
		c.Violation("leaf-is-ca", "issued certificate has basicConstraints CA:TRUE", d)
	}
	if leaf.KeyUsage&x509.KeyUsageCertSign != 0 || leaf.KeyUsage&x509.KeyUsageCRLSign != 0 {
		c.Violation("leaf-keyusage-certsign", fmt.Sprintf("issued certificate has key usage %b", leaf.KeyUsage), d)
	}
	for _, e := range leaf.Extensions {
		c.SetAdd("leaf_extension_oids", e.Id.String())
	}
	// binds the CSR key
	if !samePublicKey(leaf.PublicKey, w.CSRKeys[req.CSR.KeyIdx].Priv.Public()) {
		c.Violation("pubkey-mismatch", "leaf public key is not the key of the CSR", d)
	}
	// lifetime
	maxNA := t1.Add(cfg.MaxTTL)
	if leaf.NotAfter.After(maxNA) {
		c.Violation("ttl-exceeds-max:ttl="+req.TTLShape, fmt.Sprintf("NotAfter %s is later than (time after the call) + max TTL %s = %s", leaf.NotAfter, cfg.MaxTTL, maxNA), d)
	}
	if leaf.NotAfter.After(cfg.Signer.NotAfter) {
		c.Violation("notafter-beyond-signer:ttl="+req.TTLShape, fmt.Sprintf("NotAfter %s is later than the signing certificate's %s", leaf.NotAfter, cfg.Signer.NotAfter), d)
	}
	if leaf.NotAfter.Equal(cfg.Signer.NotAfter) {
		c.Count("clamped_to_signer_expiry", 1)
	}
	life := int(leaf.NotAfter.Sub(leaf.NotBefore) / time.Second)
	c.Max("leaf_validity_s_cfg_"+cfg.Name[:1], life)
	if req.TTL <= 0 || req.TTLShape == "overflow-negative" {
		c.Count("default_ttl_applied", 1)
	}
	if leaf.NotAfter.Sub(leaf.NotBefore) > cfg.MaxTTL+5*time.Minute {
		c.Count("validity_window_over_max_plus_5m", 1) // observation only (back-dating allowance is not in the property)
	}
	// chain verifies to the returned root
	if msg := verifyChain(leaf, resp.CertChain, cfg, c); msg != "" {
		c.Violation("chain-not-verifying", msg, d)
	}
	c.SetAdd("outcome_rows", cfg.Name[:1]+"|"+credKey(req)+"|csr="+fmt.Sprint(req.CSR.Valid)+"|imp="+req.ImpShape+"|OK")
	c.SetAdd("issued_key_kinds", w.CSRKeys[req.CSR.KeyIdx].Kind)
	c.Nontrivial(hash)
	d["leaf_not_after"] = leaf.NotAfter.UTC().Format(time.RFC3339)
	c.Sample(d)
}

func verifyChain(leaf *x509.Certificate, chain []string, cfg *caConfig, c *vh.Ctx) string {
	if len(chain) < 2 {
		return "response carries no root certificate"
	}
	roots, err := splitPEMCerts([]byte(chain[len(chain)-1]))
	if err != nil || len(roots) == 0 {
		return fmt.Sprintf("last chain element is not a parseable root bundle: %v", err)
	}
	rp, ip := x509.NewCertPool(), x509.NewCertPool()
	all := []*x509.Certificate{leaf}
	known := false
	for _, r := range roots {
		rp.AddCert(r)
		all = append(all, r)
		for _, k := range cfg.Roots {
			if k.Equal(r) {
				known = true
			}
		}
	}
	if known {
		c.Count("returned_root_is_configured_root", 1)
	}
	for _, p := range chain[1 : len(chain)-1] {
		is, err := splitPEMCerts([]byte(p))
		if err != nil {
			return fmt.Sprintf("intermediate does not parse: %v", err)
		}
		for _, i := range is {
			ip.AddCert(i)
			all = append(all, i)
		}
	}
	// verification instant: the latest NotBefore of the certificates involved (no wall clock)
	at := leaf.NotBefore
	minNA := leaf.NotAfter
	for _, x := range all {
		if x.NotBefore.After(at) {
			at = x.NotBefore
		}
		if x.NotAfter.Before(minNA) {
			minNA = x.NotAfter
		}
	}
	if !at.Before(minNA) {
		// no common validity instant (sub-second lifetimes right after CA creation): signatures only
		c.Count("chain_checked_signature_only", 1)
		for _, cand := range all[1:] {
			if leaf.CheckSignatureFrom(cand) == nil {
				return ""
			}
		}
		return "leaf signature does not verify under any returned certificate"
	}
	if _, err := leaf.Verify(x509.VerifyOptions{Roots: rp, Intermediates: ip, CurrentTime: at, KeyUsages: []x509.ExtKeyUsage{x509.ExtKeyUsageAny}}); err != nil {
		return "x509 verification to the returned root failed: " + err.Error()
	}
	c.Count("chain_verified", 1)
	return ""
}

func firstLines(s string, n int) string {
	l := strings.Split(s, "\n")
	if len(l) > n {
		l = l[:n]
	}
	return strings.Join(l, "\n")
}

// topFrame names the innermost istio function of a stack, including the receiver of methods
// (vh.TopIstioFrame cuts "pkg.(*T).m" at the first parenthesis).
func topFrame(st string) string {
	for _, l := range strings.Split(st, "\n") {
		l = strings.TrimSpace(l)
		if !strings.HasPrefix(l, "istio.io/istio/") {
			continue
		}
		if i := strings.LastIndex(l, "("); i > 0 {
			l = l[:i]
		}
		return l
	}
	return "unknown"
}

// shapeFamily folds the variants of one input shape into the name used in violation keys, so
// that one defect has one key per authenticator (the exact variant stays in the replay payload).
func shapeFamily(shape string) string {
	head, tail, _ := strings.Cut(shape, "/")
	switch {
	case strings.HasPrefix(head, "comma"):
		head = "comma"
	case head == "ip6-san":
		head = "ip-san"
	}
	if tail != "" {
		return head + "/" + tail
	}
	return head
}
