// Minimal reproductions, against the real istio code, of what the C09 monitor reports on the
// pinned tree. Each section uses the smallest exported entry point that shows the behaviour.
//
//	cd /verif/harness && go run -tags verif ./cmd/casec/repro [section...]
package main

import (
	"context"
	"crypto/ecdsa"
	"crypto/elliptic"
	"crypto/rand"
	"crypto/tls"
	"crypto/x509"
	"crypto/x509/pkix"
	"encoding/asn1"
	"encoding/json"
	"encoding/pem"
	"fmt"
	"math/big"
	"net"
	"net/http"
	"net/http/httptest"
	"os"
	"runtime/debug"
	"strings"
	"time"

	jose "github.com/go-jose/go-jose/v4"
	"google.golang.org/grpc/credentials"
	"google.golang.org/grpc/metadata"
	"google.golang.org/grpc/peer"
	"google.golang.org/protobuf/types/known/structpb"
	v1 "k8s.io/api/core/v1"
	metav1 "k8s.io/apimachinery/pkg/apis/meta/v1"
	"k8s.io/apimachinery/pkg/types"

	meshconfig "istio.io/api/mesh/v1alpha1"
	pb "istio.io/api/security/v1alpha1"
	"istio.io/api/security/v1beta1"
	"istio.io/istio/pilot/pkg/features"
	"istio.io/istio/pkg/config/mesh/meshwatcher"
	"istio.io/istio/pkg/kube"
	"istio.io/istio/pkg/kube/multicluster"
	"istio.io/istio/pkg/security"
	"istio.io/istio/pkg/util/sets"
	"istio.io/istio/security/pkg/pki/ca"
	caserver "istio.io/istio/security/pkg/server/ca"
	"istio.io/istio/security/pkg/server/ca/authenticate"
)

func must[T any](v T, err error) T {
	if err != nil {
		panic(err)
	}
	return v
}

func newCA() *ca.IstioCA {
	opts := must(ca.NewSelfSignedDebugIstioCAOptions("", 24*time.Hour, time.Hour, 2*time.Hour, "cluster.local", 2048))
	return must(ca.NewIstioCA(opts))
}

func newCSR() (string, *ecdsa.PrivateKey) {
	k := must(ecdsa.GenerateKey(elliptic.P256(), rand.Reader))
	der := must(x509.CreateCertificateRequest(rand.Reader, &x509.CertificateRequest{}, k))
	return string(pem.EncodeToMemory(&pem.Block{Type: "CERTIFICATE REQUEST", Bytes: der})), k
}

func showLeaf(resp *pb.IstioCertificateResponse, err error) {
	if err != nil {
		fmt.Println("  error:", err)
		return
	}
	blk, _ := pem.Decode([]byte(resp.CertChain[0]))
	leaf, perr := x509.ParseCertificate(blk.Bytes)
	if perr != nil {
		fmt.Println("  issued, but x509.ParseCertificate(leaf) fails:", perr)
		return
	}
	fmt.Printf("  issued leaf: URIs=%v DNS=%q IPs=%v\n", leaf.URIs, leaf.DNSNames, leaf.IPAddresses)
}

func sanExt(tagged ...any) pkix.Extension {
	var raws []asn1.RawValue
	for i := 0; i < len(tagged); i += 2 {
		raws = append(raws, asn1.RawValue{Class: asn1.ClassContextSpecific, Tag: tagged[i].(int), Bytes: tagged[i+1].([]byte)})
	}
	return pkix.Extension{Id: asn1.ObjectIdentifier{2, 5, 29, 17}, Value: must(asn1.Marshal(raws))}
}

// clientCertCtx presents a verified client certificate carrying the given SAN extension.
func clientCertCtx(san pkix.Extension) context.Context {
	k := must(ecdsa.GenerateKey(elliptic.P256(), rand.Reader))
	tmpl := &x509.Certificate{SerialNumber: big.NewInt(1), NotBefore: time.Now().Add(-time.Hour), NotAfter: time.Now().Add(time.Hour), ExtraExtensions: []pkix.Extension{san}}
	der := must(x509.CreateCertificate(rand.Reader, tmpl, tmpl, &k.PublicKey, k))
	c := must(x509.ParseCertificate(der))
	ti := credentials.TLSInfo{State: tls.ConnectionState{VerifiedChains: [][]*x509.Certificate{{c}}}}
	return peer.NewContext(context.Background(), &peer.Peer{Addr: &net.TCPAddr{IP: net.IPv4(127, 0, 0, 1), Port: 4000}, AuthInfo: ti})
}

// ---------------------------------------------------------------------------------------

func oidcPanic() {
	fmt.Println("== oidc-panic: signed OIDC token with sub = \"system:serviceaccount\"")
	key := jose.JSONWebKey{Key: must(ecdsa.GenerateKey(elliptic.P256(), rand.Reader)), KeyID: "k", Algorithm: "ES256"}
	var srv *httptest.Server
	srv = httptest.NewServer(http.HandlerFunc(func(w http.ResponseWriter, r *http.Request) {
		if strings.HasSuffix(r.URL.Path, "openid-configuration") {
			_ = json.NewEncoder(w).Encode(map[string]any{"issuer": srv.URL, "jwks_uri": srv.URL + "/jwks", "id_token_signing_alg_values_supported": []string{"ES256"}})
			return
		}
		_ = json.NewEncoder(w).Encode(jose.JSONWebKeySet{Keys: []jose.JSONWebKey{key.Public()}})
	}))
	defer srv.Close()
	a := must(authenticate.NewJwtAuthenticator(&v1beta1.JWTRule{Issuer: srv.URL, Audiences: []string{"istio-ca"}},
		meshwatcher.NewTestWatcher(&meshconfig.MeshConfig{TrustDomain: "cluster.local"})))
	for _, sub := range []string{"system:serviceaccount", "system:serviceaccount:ns"} {
		signer := must(jose.NewSigner(jose.SigningKey{Algorithm: jose.ES256, Key: key}, nil))
		claims, _ := json.Marshal(map[string]any{"iss": srv.URL, "aud": []string{"istio-ca"}, "sub": sub, "exp": time.Now().Add(time.Hour).Unix()})
		tok := must(must(signer.Sign(claims)).CompactSerialize())
		ctx := metadata.NewIncomingContext(context.Background(), metadata.MD{"authorization": []string{"Bearer " + tok}})
		func() {
			defer func() {
				if r := recover(); r != nil {
					st := strings.Split(string(debug.Stack()), "\n")
					fmt.Printf("  sub=%q -> PANIC: %v\n", sub, r)
					for _, l := range st {
						if strings.Contains(l, "oidc.go") || strings.Contains(l, "JwtAuthenticator") {
							fmt.Println("    " + strings.TrimSpace(l))
						}
					}
				}
			}()
			c, err := a.Authenticate(security.AuthContext{GrpcContext: ctx})
			fmt.Printf("  sub=%q -> caller=%v err=%v\n", sub, c, err)
		}()
	}
}

func commaSplit() {
	fmt.Println("== comma: one authenticated identity containing ',' becomes several SANs")
	ica := newCA()
	csr, _ := newCSR()
	for _, id := range []string{"spiffe://cluster.local/ns/a/sa/b,istiod.istio-system.svc", "spiffe://cluster.local/ns/a/sa/b,spiffe://cluster.local/ns/kube-system/sa/admin", "a.example.com,10.96.0.1"} {
		certPEM, err := ica.Sign([]byte(csr), ca.CertOpts{SubjectIDs: []string{id}, TTL: time.Minute})
		if err != nil {
			fmt.Println("  error:", err)
			continue
		}
		blk, _ := pem.Decode(certPEM)
		leaf := must(x509.ParseCertificate(blk.Bytes))
		fmt.Printf("  IstioCA.Sign(SubjectIDs=[%q]) -> URIs=%v DNS=%q IPs=%v\n", id, leaf.URIs, leaf.DNSNames, leaf.IPAddresses)
	}
	fmt.Println("  end to end, ClientCertAuthenticator, client certificate with ONE URI SAN containing a comma:")
	srv := must(caserver.New(ica, time.Hour, []security.Authenticator{&authenticate.ClientCertAuthenticator{}}, multicluster.NewFakeController()))
	ctx := clientCertCtx(sanExt(6, []byte("spiffe://cluster.local/ns/a/sa/b,spiffe://cluster.local/ns/kube-system/sa/admin")))
	showLeaf(srv.CreateCertificate(ctx, &pb.IstioCertificateRequest{Csr: csr}))
}

func ipSAN() {
	fmt.Println("== ip-san: client certificate with an iPAddress SAN; the identity is the raw address bytes and is re-issued as a dNSName")
	ica := newCA()
	csr, _ := newCSR()
	a := &authenticate.ClientCertAuthenticator{}
	srv := must(caserver.New(ica, time.Hour, []security.Authenticator{a}, multicluster.NewFakeController()))
	for _, ip := range []net.IP{net.IPv4(10, 0, 0, 1).To4(), net.IPv4(192, 168, 1, 1).To4(), net.ParseIP("fd00::1")} {
		ctx := clientCertCtx(sanExt(6, []byte("spiffe://cluster.local/ns/a/sa/b"), 7, []byte(ip)))
		c, err := a.Authenticate(security.AuthContext{GrpcContext: ctx})
		fmt.Printf("  client cert IP SAN %v -> caller identities %q err=%v\n", ip, c.Identities, err)
		showLeaf(srv.CreateCertificate(ctx, &pb.IstioCertificateRequest{Csr: csr}))
	}
}

func xfccNoCN() {
	fmt.Println("== xfcc-subject-no-cn: XFCC element whose Subject has no CN contributes the identity \"\"")
	a := authenticate.XfccAuthenticator{}
	ctx := peer.NewContext(context.Background(), &peer.Peer{Addr: &net.TCPAddr{IP: net.IPv4(127, 0, 0, 1), Port: 4000}, AuthInfo: credentials.TLSInfo{}})
	ctx = metadata.NewIncomingContext(ctx, metadata.MD{"x-forwarded-client-cert": []string{`By=spiffe://cluster.local/ns/gw/sa/gw;Hash=ab;Subject="OU=eng,O=Example";URI=spiffe://cluster.local/ns/a/sa/b`}})
	c, err := a.Authenticate(security.AuthContext{GrpcContext: ctx})
	fmt.Printf("  caller identities %q err=%v\n", c.Identities, err)
	srv := must(caserver.New(newCA(), time.Hour, []security.Authenticator{a}, multicluster.NewFakeController()))
	csr, _ := newCSR()
	showLeaf(srv.CreateCertificate(ctx, &pb.IstioCertificateRequest{Csr: csr}))
}

func nonASCII() {
	fmt.Println("== non-ascii: identity with a non-IA5 character is signed into a certificate that does not parse")
	ica := newCA()
	csr, _ := newCSR()
	certPEM, err := ica.Sign([]byte(csr), ca.CertOpts{SubjectIDs: []string{"spiffe://cluster.local/ns/a/sa/sä"}, TTL: time.Minute})
	if err != nil {
		fmt.Println("  error:", err)
		return
	}
	blk, _ := pem.Decode(certPEM)
	_, perr := x509.ParseCertificate(blk.Bytes)
	fmt.Println("  IstioCA.Sign succeeded; x509.ParseCertificate:", perr)
}

// fixedCaller stands in for a Kubernetes-token authentication result (trusted node account).
type fixedCaller struct{ c security.Caller }

func (f fixedCaller) Authenticate(security.AuthContext) (*security.Caller, error) {
	c := f.c
	return &c, nil
}
func (f fixedCaller) AuthenticatorType() string { return "fixed" }

func impersonationTD() {
	fmt.Println("== impersonation-td: the node authorizer ignores the trust domain of the requested identity")
	features.CATrustedNodeAccounts = sets.New(types.NamespacedName{Namespace: "istio-system", Name: "ztunnel"})
	mc := multicluster.NewFakeController()
	zt := fixedCaller{security.Caller{Identities: []string{"spiffe://cluster.local/ns/istio-system/sa/ztunnel"},
		KubernetesInfo: security.KubernetesInfo{PodName: "ztunnel-a", PodNamespace: "istio-system", PodUID: "u1", PodServiceAccount: "ztunnel"}}}
	srv := must(caserver.New(newCA(), time.Hour, []security.Authenticator{zt}, mc))
	pod := func(ns, name, sa, node, uid string) *v1.Pod {
		return &v1.Pod{ObjectMeta: metav1.ObjectMeta{Namespace: ns, Name: name, UID: types.UID(uid)}, Spec: v1.PodSpec{ServiceAccountName: sa, NodeName: node}}
	}
	kc := kube.NewFakeClient(pod("istio-system", "ztunnel-a", "ztunnel", "n1", "u1"), pod("ns-a", "a-1", "sa-a", "n1", "u2"))
	stop := make(chan struct{})
	mc.Add("c1", kc, stop)
	kc.RunAndWait(stop)
	csr, _ := newCSR()
	ctx := peer.NewContext(context.Background(), &peer.Peer{Addr: &net.TCPAddr{IP: net.IPv4(127, 0, 0, 1), Port: 4000}, AuthInfo: credentials.TLSInfo{}})
	ctx = metadata.NewIncomingContext(ctx, metadata.MD{"clusterid": []string{"c1"}})
	for _, id := range []string{"spiffe://cluster.local/ns/ns-a/sa/sa-a", "spiffe://foreign.example.org/ns/ns-a/sa/sa-a", "spiffe:///ns/ns-a/sa/sa-a", "spiffe://cluster.local/ns/ns-b/sa/sa-b"} {
		var resp *pb.IstioCertificateResponse
		var err error
		for i := 0; i < 100; i++ { // the informer may need a moment
			resp, err = srv.CreateCertificate(ctx, &pb.IstioCertificateRequest{Csr: csr, Metadata: &structpb.Struct{Fields: map[string]*structpb.Value{
				security.ImpersonatedIdentity: structpb.NewStringValue(id)}}})
			if err == nil || id == "spiffe://cluster.local/ns/ns-b/sa/sa-b" && i > 20 {
				break
			}
			time.Sleep(20 * time.Millisecond)
		}
		fmt.Printf("  ImpersonatedIdentity=%q (mesh trust domain cluster.local, pod ns-a/sa-a on the caller's node):\n", id)
		showLeaf(resp, err)
	}
}

func main() {
	sections := map[string]func(){"oidc-panic": oidcPanic, "comma": commaSplit, "ip-san": ipSAN, "xfcc-subject-no-cn": xfccNoCN, "non-ascii": nonASCII, "impersonation-td": impersonationTD}
	order := []string{"oidc-panic", "comma", "ip-san", "xfcc-subject-no-cn", "non-ascii", "impersonation-td"}
	if len(os.Args) > 1 {
		order = os.Args[1:]
	}
	for _, s := range order {
		if f := sections[s]; f != nil {
			f()
		}
	}
}
