package main

// Request generator. Every credential is generated from a structured model, so the identity
// list it should establish is known by construction (independent derivation from the
// credential's documented format), never by asking istio.

import (
	"crypto/rand"
	"crypto/tls"
	"crypto/x509"
	"crypto/x509/pkix"
	"encoding/asn1"
	"encoding/base64"
	"encoding/json"
	"encoding/pem"
	"fmt"
	"math"
	mrand "math/rand"
	"net"
	"net/url"
	"strings"
	"time"

	jose "github.com/go-jose/go-jose/v4"
	"google.golang.org/grpc/credentials"
	"google.golang.org/grpc/metadata"
	"google.golang.org/grpc/peer"
	"google.golang.org/protobuf/types/known/structpb"
)

type cred struct {
	Kind   string     // k8s | oidc | cert | xfcc
	Shape  string     // stable shape name (used in violation keys)
	Accept [][]string // identity sets an issued certificate may carry on the strength of this credential
	Expect bool       // the strict derivation says authentication succeeds (accounting only)
	Note   string

	// k8s only: facts for the impersonation oracle (strictly valid tokens only)
	K8sStrict                                 bool
	K8sCluster, K8sNS, K8sSA, PodName, PodUID string
}

type tokenReg struct {
	Cluster string
	Token   string
	Outcome *tokenOutcome
}

type csrSpec struct {
	Shape  string
	KeyIdx int
	PEM    string
	Valid  bool // parses and self-signature verifies (Go standard library), by construction checked
}

type request struct {
	Cfg       *caConfig
	Creds     []cred
	PeerKind  string // tls | plaintext | other-auth | no-peer
	AddrDesc  string
	Trusted   bool // peer address is loopback or inside TRUSTED_GATEWAY_CIDR (own computation)
	Peer      *peer.Peer
	MD        metadata.MD
	ClusterHd string // effective single cluster header ("" when absent or ambiguous)
	HdShape   string
	Tokens    []tokenReg
	CSR       csrSpec
	TTL       int64
	TTLShape  string
	Imp       string // string value of ImpersonatedIdentity ("" = none / not a string)
	ImpShape  string
	Signer    string
	Meta      *structpb.Struct
	MetaShape string
	Forced    string
}

func pick[T any](r *mrand.Rand, xs []T) T { return xs[r.Intn(len(xs))] }

func spiffeID(td, ns, sa string) string { return "spiffe://" + td + "/ns/" + ns + "/sa/" + sa }

var (
	nsNames = []string{"ns-a", "ns-b", "default", "prod", "team-1", "x"}
	saNames = []string{"sa-a", "sa-b", "default", "bookinfo-productpage", "s", "svc-0"}
)

// ---------------------------------------------------------------------------------------
// dimensions that can be forced by the enumerated strata

var subShapes = []string{"valid", "prefix-only", "prefix-colon", "ns-only", "ns-only-colon", "empty-ns", "extra-colon", "lookalike-prefix",
	"lookalike-plural", "no-prefix", "user", "empty", "node", "comma", "comma-ns", "comma-ip", "comma-colon", "slash", "space", "long", "non-ascii", "uppercase-prefix"}
var tokenShapes = []string{"valid", "expired", "nbf-future", "wrong-iss", "missing-iss", "rogue-key", "alg-none", "garbage", "empty", "es256", "no-exp"}
var audShapes = []string{"ok-first", "ok-among", "wrong", "empty-list", "missing", "string-ok", "string-wrong", "superstring", "case"}
var k8sShapes = []string{"valid", "valid-no-pod-extra", "parts3", "parts5", "lookalike-prefix", "empty-ns", "empty-sa", "no-group", "unauthenticated",
	"status-error", "api-error", "unknown-token", "wrong-uid"}
var certShapes = []string{"spiffe", "spiffe-multi", "uri-dns", "dns-only", "ip-san", "ip6-san", "email-san", "non-spiffe-uri", "comma-uri", "comma-dns",
	"no-san", "empty-san", "no-verified-chain", "unverified-peer-cert", "ca-has-admin-san", "other-td"}
var xfccShapes = []string{"simple", "uri-dns", "subject-cn", "subject-no-cn", "subject-empty", "two-elements", "comma-uri", "comma-cn", "ip-dns", "cn-spiffe",
	"unknown-key", "lower-key", "unterminated-quote", "empty", "only-by", "no-equals", "binary", "escaped-quote", "cert-field", "untrusted-peer",
	"two-header-values", "many-elements", "semicolon-two-uris"}
var peerShapes = []string{"tls-loopback4", "tls-loopback6", "tls-trusted4", "tls-trusted6", "tls-untrusted4", "tls-untrusted6", "tls-unix", "tls-zone6",
	"plaintext", "other-auth", "no-peer"}
var csrShapes = []string{"plain", "cn", "decoy-sans", "ca-true", "keyusage-certsign", "extra-ext", "all-hostile", "big-subject", "wrong-pem-type", "leading-text",
	"trailing-junk", "corrupt-sig", "corrupt-tbs", "truncated-pem", "truncated-der", "garbage", "empty", "cert-as-csr", "bad-base64", "two-blocks-bad-first"}
var ttlShapes = []string{"min-int64", "minus-one", "zero", "one", "max-minus-1", "max", "max-plus-1", "twice-max", "beyond-signer", "max-int64",
	"just-below-overflow", "overflow-negative", "overflow-tiny", "overflow-near-max", "overflow-above-max", "default-range", "random"}
var impShapes = []string{"none", "caller-self-foreign-td", "same-node", "same-node-2", "other-node", "other-cluster", "pending-pod", "nonexistent", "caller-self", "admin", "not-spiffe",
	"too-short", "too-long", "swapped-segments", "leading-space", "trailing-space", "comma-two-spiffe", "comma-dns", "foreign-td", "empty-td", "uppercase",
	"non-string-number", "non-string-list", "non-string-struct", "null", "empty-string"}
var impCallerShapes = []string{"zt-n1", "zt-n2", "node-agent-n1", "app-untrusted", "zt-wrong-uid", "zt-no-extra", "zt-pending", "zt-c2", "zt-n1-no-header",
	"zt-n1-wrong-header", "zt-lookalike"}
var signerShapes = []string{"none", "named", "garbage", "long", "non-string"}

type stratum struct{ Dim, Shape string }

// strata enumerates every (dimension, shape) once; the driver crosses it with the CA configs.
func strata() []stratum {
	var out []stratum
	add := func(dim string, shapes []string) {
		for _, s := range shapes {
			out = append(out, stratum{dim, s})
		}
	}
	add("oidc-sub", subShapes)
	add("oidc-token", tokenShapes)
	add("oidc-aud", audShapes)
	add("k8s", k8sShapes)
	add("cert", certShapes)
	add("xfcc", xfccShapes)
	add("peer", peerShapes)
	add("csr", csrShapes)
	add("ttl", ttlShapes)
	add("imp", impShapes)
	add("imp-caller", impCallerShapes)
	add("signer", signerShapes)
	return out
}

// ---------------------------------------------------------------------------------------

type gen struct {
	w   *world
	r   *mrand.Rand
	cfg *caConfig
	f   stratum // forced dimension (Dim == "" for free cases)
	id  string  // unique per case, used in token strings
}

func (g *gen) forced(dim string, shapes []string) string {
	if g.f.Dim == dim {
		return g.f.Shape
	}
	return ""
}

// choose returns the forced shape of the dimension, else a weighted pick: the first `common`
// shapes are chosen with probability pCommon, the rest uniformly.
func (g *gen) choose(dim string, shapes []string, common int, pCommon float64) string {
	if s := g.forced(dim, shapes); s != "" {
		return s
	}
	if g.f.Dim != "" {
		// in a forced case every other dimension stays clean so that the forced shape decides
		return shapes[0]
	}
	if g.r.Float64() < pCommon {
		return shapes[g.r.Intn(common)]
	}
	return shapes[g.r.Intn(len(shapes))]
}

// --------------------------------------------------------------------------------------- peer

type otherAuthInfo struct{}

func (otherAuthInfo) AuthType() string { return "alts" }

func ipTrusted(ip net.IP) bool {
	if ip.IsLoopback() {
		return true
	}
	for _, c := range trustedCIDRs {
		_, n, err := net.ParseCIDR(c)
		if err == nil && n.Contains(ip) {
			return true
		}
	}
	return false
}

func (g *gen) peerFor(req *request, shape string) {
	port := 1024 + g.r.Intn(60000)
	var addr net.Addr
	var ip net.IP
	zone := ""
	switch shape {
	case "tls-loopback4", "plaintext", "other-auth":
		ip = net.IPv4(127, 0, 0, byte(1+g.r.Intn(5)))
	case "tls-loopback6":
		ip = net.ParseIP("::1")
	case "tls-trusted4":
		ip = net.IPv4(10, 77, byte(g.r.Intn(256)), byte(g.r.Intn(256)))
	case "tls-trusted6":
		ip = net.ParseIP(fmt.Sprintf("fd00:77:%x::%x", g.r.Intn(65536), 1+g.r.Intn(65535)))
	case "tls-untrusted4":
		ip = pick(g.r, []net.IP{net.IPv4(10, 78, 0, 1), net.IPv4(10, 76, 255, 255), net.IPv4(192, 168, 1, 1), net.IPv4(8, 8, 8, 8), net.IPv4(128, 0, 0, 1), net.IPv4(10, 7, 7, 7)})
	case "tls-untrusted6":
		ip = net.ParseIP(pick(g.r, []string{"fd00:78::1", "fd01:77::1", "2001:db8::1", "fe80::1"}))
	case "tls-zone6":
		ip, zone = net.ParseIP("fe80::1"), "eth0"
	}
	req.AddrDesc = shape
	switch shape {
	case "no-peer":
		req.PeerKind = "no-peer"
		return
	case "tls-unix":
		addr = &net.UnixAddr{Name: "/var/run/istiod.sock", Net: "unix"}
	default:
		addr = &net.TCPAddr{IP: ip, Port: port, Zone: zone}
		req.Trusted = ipTrusted(ip)
	}
	switch shape {
	case "plaintext":
		req.PeerKind = "plaintext"
		req.Peer = &peer.Peer{Addr: addr}
	case "other-auth":
		req.PeerKind = "other-auth"
		req.Peer = &peer.Peer{Addr: addr, AuthInfo: otherAuthInfo{}}
	default:
		req.PeerKind = "tls"
		req.Peer = &peer.Peer{Addr: addr, AuthInfo: credentials.TLSInfo{State: tls.ConnectionState{HandshakeComplete: true, Version: tls.VersionTLS13}}}
	}
}

// --------------------------------------------------------------------------------------- k8s

func (g *gen) k8sCred(req *request, shape string, caller podRow, tokenOverride string) cred {
	c := cred{Kind: "k8s", Shape: shape}
	td := g.cfg.TD
	o := &tokenOutcome{Authenticated: true, Username: "system:serviceaccount:" + caller.NS + ":" + caller.SA,
		Groups: []string{"system:serviceaccounts", "system:serviceaccounts:" + caller.NS, "system:authenticated"}, PodName: caller.Name, PodUID: caller.UID}
	id := [][]string{{spiffeID(td, caller.NS, caller.SA)}}
	strict, lenient := true, false
	switch shape {
	case "valid":
	case "valid-no-pod-extra":
		o.PodName, o.PodUID = "", ""
	case "wrong-uid":
		o.PodUID = "uid-stale-" + caller.UID
	case "parts3":
		o.Username = "system:serviceaccount:" + caller.NS
		strict = false
	case "parts5":
		o.Username += ":extra"
		strict = false
	case "lookalike-prefix":
		o.Username = "sys:acct:" + caller.NS + ":" + caller.SA
		strict, lenient = false, true
	case "empty-ns":
		o.Username = "system:serviceaccount::" + caller.SA
		strict = false
	case "empty-sa":
		o.Username = "system:serviceaccount:" + caller.NS + ":"
		strict = false
	case "no-group":
		o.Groups = []string{"system:authenticated"}
		strict, lenient = false, true
	case "unauthenticated":
		o.Authenticated = false
		strict = false
	case "status-error":
		o.StatusError = "token expired"
		strict = false
	case "api-error":
		o.APIError = true
		strict = false
	case "unknown-token":
		o = nil
		strict = false
	}
	tok := tokenOverride
	if tok == "" {
		tok = "k8s." + g.id + "." + fmt.Sprint(g.r.Intn(1<<30))
	}
	if o != nil {
		req.Tokens = append(req.Tokens, tokenReg{Cluster: caller.Cluster, Token: tok, Outcome: o})
	}
	if tokenOverride == "" {
		req.MD.Append("authorization", "Bearer "+tok)
	}
	// which API server reviews the token is decided by the clusterid header
	reviewedBy := req.ClusterHd
	if reviewedBy == "" {
		reviewedBy = "c1" // absent/ambiguous header: single-cluster assumption (primary)
	}
	rightCluster := reviewedBy == caller.Cluster
	if !g.cfg.has("k8s") || !rightCluster {
		strict, lenient = false, false
	}
	if strict || lenient {
		c.Accept = id
	}
	c.Expect = strict && req.PeerKind == "tls"
	if strict || lenient {
		// (for the unspecified look-alike users the same tolerance applies to impersonation)
		c.K8sStrict = true
		c.K8sCluster, c.K8sNS, c.K8sSA, c.PodName, c.PodUID = caller.Cluster, caller.NS, caller.SA, o.PodName, o.PodUID
	}
	return c
}

func (g *gen) clusterHeader(req *request, shape string) {
	req.HdShape = shape
	switch shape {
	case "absent":
	case "c1", "c2", "c9":
		req.MD.Append("clusterid", shape)
		req.ClusterHd = shape
	case "dup":
		req.MD.Append("clusterid", "c1", "c2")
	}
}

// --------------------------------------------------------------------------------------- oidc

// subIdentity is the harness's own reading of the documented subject format
// "system:serviceaccount:<namespace>:<serviceaccount>". strict: exactly that form with
// non-empty fields. ambiguous: the subject merely starts like a service-account subject and has
// at least four colon-separated fields; what identity such a subject establishes is not
// specified, so a certificate for fields 3 and 4 is tolerated but not required.
func subIdentity(td, sub string) (id []string, strict, ambiguous bool) {
	parts := strings.Split(sub, ":")
	if len(parts) == 4 && parts[0] == "system" && parts[1] == "serviceaccount" && parts[2] != "" && parts[3] != "" {
		return []string{spiffeID(td, parts[2], parts[3])}, true, false
	}
	if strings.HasPrefix(sub, "system:serviceaccount") && len(parts) >= 4 {
		return []string{spiffeID(td, parts[2], parts[3])}, false, true
	}
	return nil, false, false
}

func (g *gen) subFor(shape string) string {
	ns, sa := pick(g.r, nsNames), pick(g.r, saNames)
	td := g.cfg.TD
	switch shape {
	case "valid":
		return "system:serviceaccount:" + ns + ":" + sa
	case "prefix-only":
		return "system:serviceaccount"
	case "prefix-colon":
		return "system:serviceaccount:"
	case "ns-only":
		return "system:serviceaccount:" + ns
	case "ns-only-colon":
		return "system:serviceaccount:" + ns + ":"
	case "empty-ns":
		return "system:serviceaccount::" + sa
	case "extra-colon":
		return "system:serviceaccount:" + ns + ":" + sa + ":extra" + strings.Repeat(":x", g.r.Intn(3))
	case "lookalike-prefix":
		return "system:serviceaccountx:" + ns + ":" + sa
	case "lookalike-plural":
		return "system:serviceaccounts:" + ns + ":" + sa
	case "no-prefix":
		return ns + ":" + sa
	case "user":
		return pick(g.r, []string{"alice@example.com", "kubernetes-admin", "system:admin", "system:serviceaccoun:" + ns + ":" + sa})
	case "empty":
		return ""
	case "node":
		return "system:node:n1"
	case "comma":
		return "system:serviceaccount:" + ns + ":" + sa + ",istiod.istio-system.svc"
	case "comma-ns":
		return "system:serviceaccount:" + ns + ",x:" + sa
	case "comma-ip":
		return "system:serviceaccount:" + ns + ":" + sa + ",10.96.0.1"
	case "comma-colon":
		// a SPIFFE URI after the comma also adds colon-separated fields
		return "system:serviceaccount:" + ns + ":" + sa + "," + spiffeID(td, "kube-system", "admin")
	case "slash":
		return "system:serviceaccount:" + ns + ":" + sa + "/extra"
	case "space":
		return "system:serviceaccount:" + ns + ":" + sa + " x"
	case "long":
		return "system:serviceaccount:" + ns + ":" + strings.Repeat("a", 70+g.r.Intn(200))
	case "non-ascii":
		return "system:serviceaccount:" + ns + ":sä-" + sa
	case "uppercase-prefix":
		return "System:ServiceAccount:" + ns + ":" + sa
	}
	panic("harness: sub shape " + shape)
}

func signJWT(key jose.JSONWebKey, alg jose.SignatureAlgorithm, claims map[string]any) (string, error) {
	s, err := jose.NewSigner(jose.SigningKey{Algorithm: alg, Key: key}, nil)
	if err != nil {
		return "", err
	}
	b, _ := json.Marshal(claims)
	sig, err := s.Sign(b)
	if err != nil {
		return "", err
	}
	return sig.CompactSerialize()
}

func (g *gen) oidcCred(req *request, subShape, tokShape, audShape string) cred {
	c := cred{Kind: "oidc", Shape: subShape}
	sub := g.subFor(subShape)
	c.Note = sub
	auds := g.cfg.OIDCAuds
	if len(auds) == 0 {
		auds = []string{"istio-ca"} // configuration without OIDC: the token is aimed at a plausible audience
	}
	okAud := auds[g.r.Intn(len(auds))]
	now := time.Now()
	claims := map[string]any{"iss": g.w.OIDC.URL, "sub": sub, "exp": now.Add(24 * time.Hour).Unix(), "iat": now.Add(-time.Minute).Unix()}
	audOK, audLenient := true, false
	switch audShape {
	case "ok-first":
		claims["aud"] = []string{okAud}
	case "ok-among":
		claims["aud"] = []string{"https://kubernetes.default.svc", okAud, "other"}
	case "wrong":
		claims["aud"], audOK = []string{"some-other-audience"}, false
	case "empty-list":
		claims["aud"], audOK = []string{}, false
	case "missing":
		audOK = false
	case "string-ok":
		claims["aud"], audOK, audLenient = okAud, false, true // a single string is a valid "aud" per RFC 7519
	case "string-wrong":
		claims["aud"], audOK = "some-other-audience", false
	case "superstring":
		claims["aud"], audOK = []string{okAud + "x", "x" + okAud}, false
	case "case":
		claims["aud"], audOK = []string{strings.ToUpper(okAud) + "-"}, false
	}
	tokOK, tokLenient := true, false
	key, alg := g.w.OIDC.RSAKey, jose.RS256
	switch tokShape {
	case "valid":
	case "expired":
		claims["exp"], tokOK = now.Add(-24*time.Hour).Unix(), false
	case "nbf-future":
		claims["nbf"], tokOK = now.Add(24*time.Hour).Unix(), false
	case "wrong-iss":
		claims["iss"], tokOK = "https://accounts.example.com", false
	case "missing-iss":
		delete(claims, "iss")
		tokOK = false
	case "rogue-key":
		key, tokOK = g.w.OIDC.RogueKey, false
	case "es256":
		key, alg = g.w.OIDC.ECKey, jose.ES256
		if g.cfg.OIDCMode != "discovery" { // only the discovery document advertises ES256
			tokOK, tokLenient = false, true
		}
	case "no-exp":
		delete(claims, "exp")
		tokOK, tokLenient = false, true // whether a token without expiry is acceptable is the OIDC library's policy
	}
	var tok string
	switch tokShape {
	case "alg-none":
		b, _ := json.Marshal(claims)
		tok = base64.RawURLEncoding.EncodeToString([]byte(`{"alg":"none","typ":"JWT"}`)) + "." + base64.RawURLEncoding.EncodeToString(b) + "."
		tokOK = false
	case "garbage":
		tok = pick(g.r, []string{"a.b.c", "not-a-jwt", "eyJhbGciOiJSUzI1NiJ9..", strings.Repeat("A", 5000), "....", "\x00\x01\x02"})
		tokOK = false
	case "empty":
		tok, tokOK = "", false
	default:
		var err error
		tok, err = signJWT(key, alg, claims)
		if err != nil {
			panic(fmt.Sprintf("harness: jwt signing: %v", err))
		}
	}
	req.MD.Append("authorization", "Bearer "+tok)
	id, strict, amb := subIdentity(g.cfg.TD, sub)
	// the shape name (used in violation keys) carries the token/audience variant only when that
	// variant is what makes the credential unacceptable
	if !tokOK && !tokLenient {
		c.Shape += "/tok=" + tokShape
	}
	if !audOK && !audLenient {
		c.Shape += "/aud=" + audShape
	}
	c.Note = fmt.Sprintf("sub=%q token=%s aud=%s", sub, tokShape, audShape)
	credOK := g.cfg.has("oidc") && (tokOK || tokLenient) && (audOK || audLenient)
	if credOK && (strict || amb) {
		c.Accept = [][]string{id}
	}
	c.Expect = g.cfg.has("oidc") && tokOK && audOK && strict && req.PeerKind == "tls"
	return c
}

// --------------------------------------------------------------------------------------- cert

func (g *gen) certCred(req *request, shape string) cred {
	c := cred{Kind: "cert", Shape: shape}
	td := g.cfg.TD
	ns, sa := pick(g.r, nsNames), pick(g.r, saNames)
	var entries []sanEntry
	withSAN := true
	switch shape {
	case "spiffe", "no-verified-chain", "unverified-peer-cert", "ca-has-admin-san":
		entries = []sanEntry{{tagURI, []byte(spiffeID(td, ns, sa))}}
	case "other-td":
		entries = []sanEntry{{tagURI, []byte(spiffeID("other.example.org", ns, sa))}}
	case "spiffe-multi":
		entries = []sanEntry{{tagURI, []byte(spiffeID(td, ns, sa))}, {tagURI, []byte(spiffeID(td, ns, sa+"-2"))}}
	case "uri-dns":
		entries = []sanEntry{{tagURI, []byte(spiffeID(td, ns, sa))}, {tagDNS, []byte(sa + "." + ns + ".svc.cluster.local")}}
	case "dns-only":
		entries = []sanEntry{{tagDNS, []byte("istiod." + ns + ".svc")}, {tagDNS, []byte("gw-" + sa + ".example.com")}}
	case "ip-san":
		entries = []sanEntry{{tagURI, []byte(spiffeID(td, ns, sa))}, {tagIP, []byte{10, byte(g.r.Intn(128)), byte(g.r.Intn(128)), byte(1 + g.r.Intn(100))}}}
	case "ip6-san":
		entries = []sanEntry{{tagIP, net.ParseIP(fmt.Sprintf("fd00::%x", 1+g.r.Intn(60000))).To16()}}
	case "email-san":
		entries = []sanEntry{{tagEmail, []byte(sa + "@" + ns + ".example.com")}}
	case "non-spiffe-uri":
		entries = []sanEntry{{tagURI, []byte("https://" + ns + ".example.com/" + sa)}}
	case "comma-uri":
		entries = []sanEntry{{tagURI, []byte(spiffeID(td, ns, sa) + "," + spiffeID(td, "kube-system", "admin"))}}
	case "comma-dns":
		entries = []sanEntry{{tagDNS, []byte(sa + ".example.com,istiod.istio-system.svc")}}
	case "no-san":
		withSAN = false
	case "empty-san":
	}
	var sanExt *pkix.Extension
	if withSAN {
		e := buildSAN(entries, false)
		sanExt = &e
	}
	leaf, err := makeClientCert(g.w.ClientCA, g.w.LeafKey.Priv, "client-"+sa, sanExt, g.w.Start)
	unparsed := false
	if err != nil {
		// Go's parser refuses this SAN; present it the way the repo's own tests do (struct with
		// the raw extension), which is what the authenticator reads.
		unparsed = true
		leaf = &x509.Certificate{Subject: pkix.Name{CommonName: "client-" + sa}}
		if sanExt != nil {
			leaf.Extensions = []pkix.Extension{*sanExt}
		}
		c.Shape += "-unparsed"
	}
	_ = unparsed
	chain := []*x509.Certificate{leaf, g.w.ClientCA.Cert}
	if shape == "ca-has-admin-san" {
		adminSAN := buildSAN([]sanEntry{{tagURI, []byte(spiffeID(td, "kube-system", "admin"))}}, false)
		chain[1] = &x509.Certificate{Raw: g.w.ClientCA.Cert.Raw, Subject: g.w.ClientCA.Cert.Subject, Extensions: []pkix.Extension{adminSAN}, IsCA: true}
	}
	ti := req.Peer.AuthInfo.(credentials.TLSInfo)
	switch shape {
	case "no-verified-chain":
		ti.State.VerifiedChains = [][]*x509.Certificate{}
		entries = nil
	case "unverified-peer-cert":
		ti.State.PeerCertificates = chain // presented but not verified: must not authenticate
		entries = nil
	default:
		ti.State.VerifiedChains = [][]*x509.Certificate{chain}
		ti.State.PeerCertificates = chain
	}
	req.Peer.AuthInfo = ti
	if len(entries) > 0 && g.cfg.has("cert") {
		var ids []string
		for _, e := range entries {
			ids = append(ids, renderSAN(e))
		}
		c.Accept = [][]string{ids}
		c.Expect = true
	}
	return c
}

// --------------------------------------------------------------------------------------- xfcc

type xfccElem struct {
	By, Hash   string
	URIs, DNSs []string
	HasSubject bool
	Subject    string // raw RFC 2253-ish text placed inside the quotes
	CN         string // the common name that Subject encodes ("" if none)
	Extra      string // extra raw ";key=value" text
}

func xfccQuote(v string) string {
	if strings.ContainsAny(v, ",;=\"") {
		return `"` + strings.ReplaceAll(v, `"`, `\"`) + `"`
	}
	return v
}

// render follows the documented Envoy format: elements separated by ",", key=value pairs by
// ";", values double-quoted when they contain a separator, Subject always quoted.
func (e xfccElem) render() string {
	var kv []string
	if e.By != "" {
		kv = append(kv, "By="+xfccQuote(e.By))
	}
	if e.Hash != "" {
		kv = append(kv, "Hash="+e.Hash)
	}
	if e.HasSubject {
		kv = append(kv, `Subject="`+e.Subject+`"`)
	}
	for _, u := range e.URIs {
		kv = append(kv, "URI="+xfccQuote(u))
	}
	for _, d := range e.DNSs {
		kv = append(kv, "DNS="+xfccQuote(d))
	}
	s := strings.Join(kv, ";")
	return s + e.Extra
}

func (e xfccElem) ids() []string {
	out := append([]string{}, e.URIs...)
	out = append(out, e.DNSs...)
	if e.CN != "" {
		out = append(out, e.CN)
	}
	return out
}

func (g *gen) xfccCred(req *request, shape string) cred {
	c := cred{Kind: "xfcc", Shape: shape}
	td := g.cfg.TD
	ns, sa := pick(g.r, nsNames), pick(g.r, saNames)
	hash := fmt.Sprintf("%064x", g.r.Int63())
	base := xfccElem{By: spiffeID(td, "istio-system", "decoy-gateway"), Hash: hash, URIs: []string{spiffeID(td, ns, sa)}}
	var header, extraHeader string
	var ids, extraIDs []string
	parseable, lenient := true, false
	switch shape {
	case "simple", "untrusted-peer":
		header, ids = base.render(), base.ids()
	case "uri-dns":
		base.DNSs = []string{sa + "." + ns + ".svc.cluster.local", "gw.example.com"}
		header, ids = base.render(), base.ids()
	case "subject-cn":
		base.HasSubject, base.Subject, base.CN = true, "CN=client-"+sa+",OU=eng,O=Example", "client-"+sa
		header, ids = base.render(), base.ids()
	case "subject-no-cn":
		base.HasSubject, base.Subject = true, "OU=eng,O=Example"
		header, ids = base.render(), base.ids()
	case "subject-empty":
		base.HasSubject = true
		header, ids = base.render(), base.ids()
	case "two-elements":
		second := xfccElem{By: spiffeID(td, "istio-system", "decoy-gateway-2"), Hash: hash, URIs: []string{spiffeID(td, ns, sa+"-front")}}
		header, ids = base.render()+","+second.render(), append(base.ids(), second.ids()...)
	case "comma-uri":
		base.URIs = []string{spiffeID(td, ns, sa) + "," + spiffeID(td, "kube-system", "admin")}
		header, ids = base.render(), base.ids()
	case "comma-cn":
		base.HasSubject, base.Subject, base.CN = true, `CN=client-`+sa+`\,istiod.istio-system.svc,O=Example`, "client-"+sa+",istiod.istio-system.svc"
		header, ids = base.render(), base.ids()
	case "ip-dns":
		base.DNSs = []string{fmt.Sprintf("10.1.%d.%d", g.r.Intn(256), g.r.Intn(256))}
		header, ids = base.render(), base.ids()
	case "cn-spiffe":
		base.URIs = nil
		base.HasSubject, base.Subject, base.CN = true, "CN="+spiffeID(td, ns, sa), spiffeID(td, ns, sa)
		header, ids = base.render(), base.ids()
	case "cert-field":
		base.Extra = `;Cert="-----BEGIN%20CERTIFICATE-----%0AMIIB%0A-----END%20CERTIFICATE-----%0A";Chain="-----BEGIN%20CERTIFICATE-----%0AMIIB%0A-----END%20CERTIFICATE-----%0A"`
		header, ids = base.render(), base.ids()
	case "semicolon-two-uris":
		base.URIs = append(base.URIs, spiffeID(td, ns, sa+"-second"))
		header, ids = base.render(), base.ids()
	case "many-elements":
		var hs []string
		for i := 0; i < 40+g.r.Intn(80); i++ {
			e := xfccElem{By: spiffeID(td, "istio-system", "decoy-gateway"), Hash: hash, URIs: []string{spiffeID(td, ns, fmt.Sprintf("%s-%d", sa, i))}}
			hs = append(hs, e.render())
			ids = append(ids, e.ids()...)
		}
		header = strings.Join(hs, ",")
	case "two-header-values":
		// two header lines: equivalent to one comma-joined list by HTTP semantics; a reader that
		// looks at the first line only establishes the first element's identities
		second := xfccElem{By: spiffeID(td, "istio-system", "decoy-gateway-2"), Hash: hash, URIs: []string{spiffeID(td, ns, sa+"-second-line")}}
		header, ids = base.render(), base.ids()
		extraHeader, extraIDs = second.render(), append(base.ids(), second.ids()...)
	case "unknown-key":
		base.Extra = ";Foo=bar"
		header, ids, lenient = base.render(), base.ids(), true // unknown keys: not specified whether ignored or fatal
	case "lower-key":
		header, ids, lenient = "by=x;uri="+spiffeID(td, ns, sa), []string{spiffeID(td, ns, sa)}, true
	case "escaped-quote":
		// a quoted value with an escaped quote inside; the exact unescaped text is not pinned down
		// by the format description, so only rejection or the plainly unescaped value is tolerated
		header = `By=x;URI="` + spiffeID(td, ns, sa) + `\"q"`
		ids, lenient = []string{spiffeID(td, ns, sa) + `"q`}, true
	case "unterminated-quote":
		header, parseable = `By=x;URI="`+spiffeID(td, ns, sa), false
	case "empty":
		header, parseable = "", false
	case "only-by":
		header, parseable = "By="+spiffeID(td, "kube-system", "admin")+";Hash="+hash, false // names no client identity at all
	case "no-equals":
		header, parseable = spiffeID(td, "kube-system", "admin"), false
	case "binary":
		b := make([]byte, 20+g.r.Intn(40))
		const alphabet = "\x00\x01\x7f\xff\xfe abcXYZ019-_/:"
		for i := range b {
			b[i] = alphabet[g.r.Intn(len(alphabet))]
		}
		header, parseable = string(b), false
	}
	req.MD.Append("x-forwarded-client-cert", header)
	if extraHeader != "" {
		req.MD.Append("x-forwarded-client-cert", extraHeader)
	}
	c.Note = header
	ok := g.cfg.has("xfcc") && req.Trusted && parseable && len(ids) > 0
	if ok {
		c.Accept = [][]string{ids}
		if extraIDs != nil {
			c.Accept = append(c.Accept, extraIDs)
		}
	}
	c.Expect = ok && !lenient && req.PeerKind == "tls"
	return c
}

// --------------------------------------------------------------------------------------- CSR

var (
	oidBasicConstraints = asn1.ObjectIdentifier{2, 5, 29, 19}
	oidKeyUsage         = asn1.ObjectIdentifier{2, 5, 29, 15}
	oidExtKeyUsage      = asn1.ObjectIdentifier{2, 5, 29, 37}
	oidNameConstraints  = asn1.ObjectIdentifier{2, 5, 29, 30}
	oidPrivate          = asn1.ObjectIdentifier{1, 3, 6, 1, 4, 1, 99999, 1}
)

func (g *gen) decoyIDs() (uris []*url.URL, dns []string, ips []net.IP, emails []string) {
	td := g.cfg.TD
	for _, s := range []string{spiffeID(td, "kube-system", "decoy-admin"), spiffeID(td, "istio-system", "decoy-istiod")} {
		u, _ := url.Parse(s)
		uris = append(uris, u)
	}
	return uris, []string{"decoy.istiod.istio-system.svc", "*.decoy.example.com"}, []net.IP{net.IPv4(10, 99, 99, 99), net.ParseIP("fd00:99::99")},
		[]string{"decoy@example.com"}
}

func (g *gen) csrFor(shape string) csrSpec {
	spec := csrSpec{Shape: shape}
	spec.KeyIdx = g.r.Intn(len(g.w.CSRKeys))
	if g.r.Float64() < 0.6 { // RSA signing is slow under the race detector; keep its share low
		spec.KeyIdx = 1 + g.r.Intn(len(g.w.CSRKeys)-1)
	}
	key := g.w.CSRKeys[spec.KeyIdx]
	tmpl := &x509.CertificateRequest{}
	caTrue := pkix.Extension{Id: oidBasicConstraints, Critical: true, Value: []byte{0x30, 0x06, 0x01, 0x01, 0xff, 0x02, 0x01, 0x03}} // cA TRUE, pathLen 3
	kuCertSign := pkix.Extension{Id: oidKeyUsage, Critical: true, Value: []byte{0x03, 0x02, 0x01, 0x06}}                             // keyCertSign|cRLSign
	ekuAny := pkix.Extension{Id: oidExtKeyUsage, Value: []byte{0x30, 0x06, 0x06, 0x04, 0x55, 0x1d, 0x25, 0x00}}
	priv := pkix.Extension{Id: oidPrivate, Critical: true, Value: []byte{0x04, 0x03, 0x01, 0x02, 0x03}}
	ncs := pkix.Extension{Id: oidNameConstraints, Critical: true, Value: []byte{0x30, 0x00}}
	switch shape {
	case "cn":
		tmpl.Subject = pkix.Name{CommonName: pick(g.r, []string{"decoy-cn.example.com", spiffeID(g.cfg.TD, "kube-system", "decoy-admin"), "x"})}
	case "decoy-sans":
		tmpl.URIs, tmpl.DNSNames, tmpl.IPAddresses, tmpl.EmailAddresses = g.decoyIDs()
	case "ca-true":
		tmpl.ExtraExtensions = []pkix.Extension{caTrue}
	case "keyusage-certsign":
		tmpl.ExtraExtensions = []pkix.Extension{kuCertSign, ekuAny}
	case "extra-ext":
		tmpl.ExtraExtensions = []pkix.Extension{priv, ncs}
	case "all-hostile":
		tmpl.Subject = pkix.Name{CommonName: "decoy-cn.example.com", Organization: []string{"decoy-org"}, SerialNumber: "1"}
		tmpl.URIs, tmpl.DNSNames, tmpl.IPAddresses, tmpl.EmailAddresses = g.decoyIDs()
		tmpl.ExtraExtensions = []pkix.Extension{caTrue, kuCertSign, ekuAny, priv}
	case "big-subject":
		tmpl.Subject = pkix.Name{CommonName: strings.Repeat("decoy", 40), Organization: []string{strings.Repeat("o", 300)}, Country: []string{"XX"},
			OrganizationalUnit: []string{"a", "b", "c"}, Locality: []string{"decoy-l"}, Province: []string{"p"}}
	}
	der, err := x509.CreateCertificateRequest(rand.Reader, tmpl, key.Priv)
	if err != nil {
		panic(fmt.Sprintf("harness: CSR creation (%s,%s): %v", shape, key.Kind, err))
	}
	good := string(pem.EncodeToMemory(&pem.Block{Type: "CERTIFICATE REQUEST", Bytes: der}))
	spec.PEM = good
	switch shape {
	case "wrong-pem-type":
		spec.PEM = string(pem.EncodeToMemory(&pem.Block{Type: pick(g.r, []string{"CERTIFICATE", "NEW CERTIFICATE REQUEST", "PRIVATE KEY", "X"}), Bytes: der}))
	case "leading-text":
		spec.PEM = "Subject: decoy\nsome text before the block\n" + good
	case "trailing-junk":
		spec.PEM = good + "-----BEGIN CERTIFICATE REQUEST-----\nAAAA\n-----END CERTIFICATE REQUEST-----\ntrailing"
	case "corrupt-sig":
		d := append([]byte(nil), der...)
		d[len(d)-1-g.r.Intn(8)] ^= byte(1 + g.r.Intn(255))
		spec.PEM = string(pem.EncodeToMemory(&pem.Block{Type: "CERTIFICATE REQUEST", Bytes: d}))
	case "corrupt-tbs":
		d := append([]byte(nil), der...)
		d[8+g.r.Intn(len(d)/2)] ^= byte(1 + g.r.Intn(255))
		spec.PEM = string(pem.EncodeToMemory(&pem.Block{Type: "CERTIFICATE REQUEST", Bytes: d}))
	case "truncated-pem":
		spec.PEM = good[:10+g.r.Intn(len(good)-20)]
	case "truncated-der":
		spec.PEM = string(pem.EncodeToMemory(&pem.Block{Type: "CERTIFICATE REQUEST", Bytes: der[:1+g.r.Intn(len(der)-1)]}))
	case "garbage":
		b := make([]byte, g.r.Intn(300))
		g.r.Read(b)
		spec.PEM = pick(g.r, []string{string(b), "dumb CSR", "-----BEGIN CERTIFICATE REQUEST-----\n-----END CERTIFICATE REQUEST-----\n", "\x00"})
	case "empty":
		spec.PEM = ""
	case "cert-as-csr":
		spec.PEM = string(g.w.ClientCA.PEM)
		if g.r.Intn(2) == 0 {
			spec.PEM = string(pem.EncodeToMemory(&pem.Block{Type: "CERTIFICATE REQUEST", Bytes: g.w.ClientCA.Cert.Raw}))
		}
	case "bad-base64":
		spec.PEM = strings.Replace(good, "\n", "\n!!!!", 2)
	case "two-blocks-bad-first":
		spec.PEM = "-----BEGIN CERTIFICATE REQUEST-----\nAAAA\n-----END CERTIFICATE REQUEST-----\n" + good
	}
	spec.Valid = csrIsValid(spec.PEM, key)
	return spec
}

// csrIsValid classifies the bytes sent with the Go standard library only: the first PEM block
// parses as a PKCS#10 request whose self-signature verifies and whose key is the harness key.
func csrIsValid(p string, key keyPair) bool {
	blk, _ := pem.Decode([]byte(p))
	if blk == nil {
		return false
	}
	cr, err := x509.ParseCertificateRequest(blk.Bytes)
	if err != nil {
		return false
	}
	if cr.CheckSignature() != nil {
		return false
	}
	return samePublicKey(cr.PublicKey, key.Priv.Public())
}

// --------------------------------------------------------------------------------------- TTL

func (g *gen) ttlFor(shape string) int64 {
	m := int64(g.cfg.MaxTTL / time.Second)
	const wrap = int64(18446744074) // smallest k with k*1e9 >= 2^64: k*1e9 wraps to 290448384 ns
	switch shape {
	case "min-int64":
		return math.MinInt64
	case "minus-one":
		return -1
	case "zero":
		return 0
	case "one":
		return 1
	case "max-minus-1":
		return m - 1
	case "max":
		return m
	case "max-plus-1":
		return m + 1
	case "twice-max":
		return 2 * m
	case "beyond-signer":
		// longer than the signer of configuration D lives, yet within every maximum
		return int64(41*60) + int64(g.r.Intn(int(m)-41*60))
	case "max-int64":
		return math.MaxInt64
	case "just-below-overflow":
		return 9223372036
	case "overflow-negative":
		return 9223372037 + int64(g.r.Intn(1000))
	case "overflow-tiny":
		return wrap
	case "overflow-near-max":
		return wrap + m - 1
	case "overflow-above-max":
		return wrap + m + int64(g.r.Intn(1000))
	case "default-range":
		return 1 + int64(g.r.Intn(int(m)))
	case "random":
		return int64(g.r.Uint64())
	}
	panic("harness: ttl shape " + shape)
}

// --------------------------------------------------------------------------------------- impersonation

func (g *gen) impFor(shape string, caller *podRow) (val *structpb.Value, s string) {
	td := g.cfg.TD
	cl, node := "c1", "n1"
	if caller != nil {
		cl, node = caller.Cluster, caller.Node
	}
	onNode := func(want bool, cluster string) *podRow {
		var cands []*podRow
		for i := range podTable {
			p := &podTable[i]
			if p.Cluster == cluster && p.Node != "" && (p.Node == node) == want && !trustedAccounts[[2]string{p.NS, p.SA}] {
				cands = append(cands, p)
			}
		}
		if len(cands) == 0 {
			return &podTable[4]
		}
		return cands[g.r.Intn(len(cands))]
	}
	str := func(x string) (*structpb.Value, string) { return structpb.NewStringValue(x), x }
	same := onNode(true, cl)
	switch shape {
	case "none":
		return nil, ""
	case "same-node", "same-node-2":
		return str(spiffeID(td, same.NS, same.SA))
	case "other-node":
		// an identity with no instance on the caller's node in the caller's cluster
		if cl == "c1" && node == "n1" {
			return str(spiffeID(td, "ns-d", "sa-d"))
		}
		return str(spiffeID(td, "kube-system", "admin"))
	case "other-cluster":
		if cl == "c1" {
			return str(spiffeID(td, "ns-z", "sa-z"))
		}
		return str(spiffeID(td, "ns-b", "sa-a"))
	case "pending-pod":
		return str(spiffeID(td, "ns-c", "sa-c"))
	case "nonexistent":
		return str(spiffeID(td, "ns-a", "no-such-sa"))
	case "caller-self":
		if caller != nil {
			return str(spiffeID(td, caller.NS, caller.SA))
		}
		return str(spiffeID(td, "istio-system", "ztunnel"))
	case "admin":
		return str(spiffeID(td, "istio-system", "istiod"))
	case "not-spiffe":
		return str(pick(g.r, []string{"not-spiffe", same.NS + "/" + same.SA, "http://" + td + "/ns/" + same.NS + "/sa/" + same.SA, "spiffe:/" + td + "/ns/a/sa/b"}))
	case "too-short":
		return str("spiffe://" + td + "/ns/" + same.NS)
	case "too-long":
		return str(spiffeID(td, same.NS, same.SA) + "/extra")
	case "swapped-segments":
		return str("spiffe://" + td + "/sa/" + same.SA + "/ns/" + same.NS)
	case "leading-space":
		return str(" " + spiffeID(td, same.NS, same.SA))
	case "trailing-space":
		return str(spiffeID(td, same.NS, same.SA) + " ")
	case "comma-two-spiffe":
		return str(spiffeID(td, same.NS, same.SA) + "," + spiffeID(td, "kube-system", "admin"))
	case "comma-dns":
		return str(spiffeID(td, same.NS, same.SA) + ",istiod.istio-system.svc")
	case "foreign-td":
		return str(spiffeID("foreign.example.org", same.NS, same.SA))
	case "caller-self-foreign-td":
		// the caller's OWN namespace and service account under another trust domain. Only asked by callers that are
		// not trusted node accounts (for those the foreign-td shape already covers the missing trust-domain comparison).
		if caller != nil && !trustedAccounts[[2]string{caller.NS, caller.SA}] {
			return str(spiffeID("partner.example.org", caller.NS, caller.SA))
		}
		if caller != nil {
			return str(spiffeID(td, caller.NS, caller.SA))
		}
		return str(spiffeID(td, "istio-system", "ztunnel"))
	case "empty-td":
		return str(spiffeID("", same.NS, same.SA))
	case "uppercase":
		return str(spiffeID(td, strings.ToUpper(same.NS), strings.ToUpper(same.SA)))
	case "non-string-number":
		return structpb.NewNumberValue(42), ""
	case "non-string-list":
		l, _ := structpb.NewList([]any{spiffeID(td, same.NS, same.SA)})
		return structpb.NewListValue(l), ""
	case "non-string-struct":
		st, _ := structpb.NewStruct(map[string]any{"id": spiffeID(td, same.NS, same.SA)})
		return structpb.NewStructValue(st), ""
	case "null":
		return structpb.NewNullValue(), ""
	case "empty-string":
		return structpb.NewStringValue(""), ""
	}
	panic("harness: imp shape " + shape)
}

// impAuthorized evaluates the node-authorization preconditions against the harness's own pod
// table: the caller authenticated with a Kubernetes token as a trusted node account, the token
// names a live pod of that account (name, UID) scheduled on node N of the caller's cluster, the
// requested identity is a well-formed workload identity of this mesh, and a pod with that
// namespace/service account runs on N in the same cluster.
func impAuthorized(cfg *caConfig, req *request, c *cred) bool {
	if !cfg.NodeAuth || !c.K8sStrict || c.Accept == nil || req.Imp == "" {
		return false
	}
	if req.ClusterHd != "" && req.ClusterHd != c.K8sCluster {
		return false
	}
	if !trustedAccounts[[2]string{c.K8sNS, c.K8sSA}] {
		return false
	}
	p := findPod(c.K8sCluster, c.K8sNS, c.PodName)
	if p == nil || p.UID != c.PodUID || p.SA != c.K8sSA || p.Node == "" {
		return false
	}
	rest, ok := strings.CutPrefix(req.Imp, "spiffe://")
	if !ok {
		return false
	}
	seg := strings.Split(rest, "/")
	if len(seg) != 5 || seg[1] != "ns" || seg[3] != "sa" || seg[0] != cfg.TD || seg[2] == "" || seg[4] == "" {
		return false
	}
	for _, q := range podsOf(c.K8sCluster) {
		if q.NS == seg[2] && q.SA == seg[4] && q.Node == p.Node {
			return true
		}
	}
	return false
}

// --------------------------------------------------------------------------------------- assembly

func callerByShape(shape string) (p podRow, k8sShape, header string) {
	switch shape {
	case "zt-n1":
		return podTable[0], "valid", "c1"
	case "zt-n2":
		return podTable[1], "valid", "c1"
	case "node-agent-n1":
		return podTable[3], "valid", "c1"
	case "app-untrusted":
		return podTable[4], "valid", "c1"
	case "zt-wrong-uid":
		return podTable[0], "wrong-uid", "c1"
	case "zt-no-extra":
		return podTable[0], "valid-no-pod-extra", "c1"
	case "zt-pending":
		return podTable[2], "valid", "c1"
	case "zt-c2":
		return podTable[12], "valid", "c2"
	case "zt-n1-no-header":
		return podTable[0], "valid", "absent"
	case "zt-n1-wrong-header":
		return podTable[0], "valid", "c2"
	case "zt-lookalike":
		return podTable[0], "lookalike-prefix", "c1"
	}
	panic("harness: caller shape " + shape)
}

func (g *gen) build() *request {
	req := &request{Cfg: g.cfg, MD: metadata.MD{}, Forced: g.f.Dim + "=" + g.f.Shape}
	r := g.r
	free := g.f.Dim == ""

	// peer
	peerShape := g.choose("peer", peerShapes, 4, 0.8)
	if g.f.Dim == "xfcc" {
		peerShape = pick(r, []string{"tls-loopback4", "tls-trusted4", "tls-trusted6", "tls-loopback6"})
		if g.f.Shape == "untrusted-peer" {
			peerShape = pick(r, []string{"tls-untrusted4", "tls-untrusted6", "tls-unix", "tls-zone6"})
		}
	}
	g.peerFor(req, peerShape)

	// which credentials
	var kinds []string
	switch g.f.Dim {
	case "oidc-sub", "oidc-token", "oidc-aud":
		kinds = []string{"oidc"}
	case "k8s", "imp", "imp-caller":
		kinds = []string{"k8s"}
	case "cert":
		kinds = []string{"cert"}
	case "xfcc":
		kinds = []string{"xfcc"}
	case "peer":
		kinds = []string{pick(r, []string{"k8s", "xfcc", "oidc"})}
	case "":
		switch x := r.Float64(); {
		case x < 0.04:
		case x < 0.82:
			kinds = []string{pick(r, []string{"k8s", "k8s", "oidc", "oidc", "cert", "xfcc"})}
		default:
			kinds = pick(r, [][]string{{"cert", "k8s"}, {"xfcc", "k8s"}, {"cert", "xfcc"}, {"cert", "oidc"}, {"xfcc", "oidc"}, {"k8s+oidc"}})
		}
	default:
		kinds = []string{pick(r, []string{"k8s", "k8s", "oidc", "cert", "xfcc"})}
	}
	multi := len(kinds) > 1 || (len(kinds) == 1 && kinds[0] == "k8s+oidc")

	// impersonation plan (decides the k8s caller)
	impShape := g.choose("imp", impShapes, 1, 0.55)
	callerShape := ""
	if g.f.Dim == "imp" {
		callerShape = "zt-n1"
	}
	if g.f.Dim == "imp-caller" {
		callerShape = g.f.Shape
		impShape = "same-node"
	}
	hasK8s := false
	for _, k := range kinds {
		if k == "k8s" || k == "k8s+oidc" {
			hasK8s = true
		}
	}
	if free && hasK8s && impShape != "none" && !multi {
		callerShape = pick(r, impCallerShapes)
		if r.Float64() < 0.5 {
			callerShape = pick(r, []string{"zt-n1", "zt-n2", "node-agent-n1", "zt-c2"})
		}
	}

	var caller *podRow
	for _, k := range kinds {
		if req.PeerKind != "tls" && k == "cert" {
			continue // no TLS state to carry a certificate
		}
		switch k {
		case "k8s":
			var p podRow
			shape := ""
			if callerShape != "" {
				var hd string
				p, shape, hd = callerByShape(callerShape)
				g.clusterHeader(req, hd)
			} else {
				p = podTable[r.Intn(len(podTable))]
				hd := "absent"
				switch x := r.Float64(); {
				case g.f.Dim != "" || x < 0.55:
					hd = p.Cluster
				case x < 0.75:
				case x < 0.85:
					hd = pick(r, []string{"c1", "c2"})
				case x < 0.93:
					hd = "c9"
				default:
					hd = "dup"
				}
				g.clusterHeader(req, hd)
				if multi {
					shape = pick(r, []string{"valid", "valid", "unauthenticated", "unknown-token"})
				} else {
					shape = g.choose("k8s", k8sShapes, 2, 0.6)
				}
			}
			caller = &p
			req.Creds = append(req.Creds, g.k8sCred(req, shape, p, ""))
		case "oidc":
			sub, tok, aud := "valid", "valid", "ok-first"
			if multi {
				tok = pick(r, []string{"valid", "valid", "expired", "rogue-key"})
			} else {
				sub = g.choose("oidc-sub", subShapes, 1, 0.35)
				tok = g.choose("oidc-token", tokenShapes, 1, 0.75)
				aud = g.choose("oidc-aud", audShapes, 2, 0.75)
			}
			req.Creds = append(req.Creds, g.oidcCred(req, sub, tok, aud))
		case "k8s+oidc":
			// one bearer token that is a valid OIDC JWT and is also known to the API server
			p := podTable[4+r.Intn(6)]
			g.clusterHeader(req, p.Cluster)
			oc := g.oidcCred(req, "valid", "valid", "ok-first")
			tok := strings.TrimPrefix(req.MD.Get("authorization")[0], "Bearer ")
			caller = &p
			req.Creds = append(req.Creds, oc, g.k8sCred(req, "valid", p, tok))
		case "cert":
			shape := g.choose("cert", certShapes, 3, 0.5)
			if multi {
				shape = pick(r, []string{"spiffe", "uri-dns", "no-san", "unverified-peer-cert"})
			}
			req.Creds = append(req.Creds, g.certCred(req, shape))
		case "xfcc":
			shape := g.choose("xfcc", xfccShapes, 3, 0.45)
			if multi {
				shape = pick(r, []string{"simple", "uri-dns", "unknown-key", "only-by"})
			}
			req.Creds = append(req.Creds, g.xfccCred(req, shape))
		}
	}
	// hostile authorization header variants around a valid credential
	if free && r.Float64() < 0.05 {
		if v := req.MD.Get("authorization"); len(v) == 1 {
			switch r.Intn(3) {
			case 0:
				req.MD.Set("authorization", "Basic ZGVjb3k6ZGVjb3k=", v[0])
				req.HdShape += "+basic-first"
			case 1:
				req.MD.Set("authorization", v[0], "Bearer decoy-second-token")
				req.HdShape += "+second-bearer"
			case 2:
				req.MD.Append("x-decoy-identity", spiffeID(g.cfg.TD, "kube-system", "decoy-admin"))
			}
		}
	}

	// CSR, TTL
	req.CSR = g.csrFor(g.choose("csr", csrShapes, 8, 0.8))
	req.TTLShape = g.choose("ttl", ttlShapes, 1, 0)
	if free && r.Float64() < 0.45 {
		req.TTLShape = "default-range"
	}
	if g.f.Dim != "" && g.f.Dim != "ttl" {
		req.TTLShape = pick(r, []string{"zero", "default-range", "beyond-signer"})
	}
	req.TTL = g.ttlFor(req.TTLShape)

	// metadata
	fields := map[string]*structpb.Value{}
	req.ImpShape = impShape
	if impShape != "none" {
		v, s := g.impFor(impShape, caller)
		fields["ImpersonatedIdentity"] = v
		req.Imp = s
	}
	sg := g.choose("signer", signerShapes, 1, 0.7)
	switch sg {
	case "named":
		req.Signer = "clusterissuers.istio.io/decoy-signer"
		fields["CertSigner"] = structpb.NewStringValue(req.Signer)
	case "garbage":
		req.Signer = "../../decoy\x00,spiffe://" + g.cfg.TD + "/ns/kube-system/sa/decoy-admin"
		fields["CertSigner"] = structpb.NewStringValue(strings.ToValidUTF8(req.Signer, "?"))
	case "long":
		req.Signer = strings.Repeat("decoy-signer/", 500)
		fields["CertSigner"] = structpb.NewStringValue(req.Signer)
	case "non-string":
		fields["CertSigner"] = structpb.NewBoolValue(true)
	}
	req.MetaShape = "fields"
	if free {
		switch x := r.Float64(); {
		case x < 0.05:
			fields["DecoyIdentity"] = structpb.NewStringValue(spiffeID(g.cfg.TD, "kube-system", "decoy-admin"))
			fields["impersonatedidentity"] = structpb.NewStringValue(spiffeID(g.cfg.TD, "kube-system", "decoy-admin"))
			req.MetaShape = "extra-decoy-fields"
		case x < 0.08:
			fields["Nil"] = nil
			req.MetaShape = "nil-value"
		}
	}
	switch {
	case len(fields) == 0 && r.Intn(2) == 0:
		req.Meta, req.MetaShape = nil, "nil"
	case len(fields) == 0:
		req.Meta, req.MetaShape = &structpb.Struct{}, "empty"
	default:
		req.Meta = &structpb.Struct{Fields: fields}
	}
	return req
}

func newBarrierRand() *mrand.Rand { return mrand.New(mrand.NewSource(1)) }
