package main

import (
	"fmt"
	"reflect"
	"runtime"
	"sort"
	"strings"
	"sync"
	"sync/atomic"
	"time"

	"github.com/anishathalye/porcupine"

	"istio.io/istio/pilot/pkg/model"
	"istio.io/istio/pilot/pkg/xds"
	"istio.io/istio/pkg/util/sets"
	"verifharness/internal/vh"
)

// ---------------------------------------------------------------------------------------
// layer 3: PushQueue

type qop struct {
	Kind   string // enq | deq | done
	Conn   int
	Tags   []int // enq: tags carried
	Forced bool
	Ver    int // snapshot version carried
}

type qout struct {
	Tags   string // deq: sorted tag multiset "1,2,2"
	Forced bool
	Ver    int
}

func (o qop) String() string {
	switch o.Kind {
	case "enq":
		return fmt.Sprintf("enq(c%d,%v,f=%v,v=%d)", o.Conn, o.Tags, o.Forced, o.Ver)
	case "deq":
		return fmt.Sprintf("deq(c%d)", o.Conn)
	}
	return fmt.Sprintf("done(c%d)", o.Conn)
}

// state of one connection: "pending|parked|processing" with "tags;forced;ver" each
type qstate struct {
	Pend, Park   string // "" = none, else "tags;f;v"
	InFlight     bool
	PendN, ParkN int
}

func mergeSlot(slot string, o qop) string {
	tags := []string{}
	forced := o.Forced
	ver := o.Ver
	if slot != "" {
		p := strings.Split(slot, ";")
		if p[0] != "" {
			tags = strings.Split(p[0], ",")
		}
		forced = forced || p[1] == "true"
	}
	for _, t := range o.Tags {
		tags = append(tags, fmt.Sprint(t))
	}
	sort.Strings(tags)
	return fmt.Sprintf("%s;%v;%d", strings.Join(tags, ","), forced, ver)
}

var queueModel = porcupine.Model{
	Partition: func(history []porcupine.Operation) [][]porcupine.Operation {
		m := map[int][]porcupine.Operation{}
		for _, o := range history {
			m[o.Input.(qop).Conn] = append(m[o.Input.(qop).Conn], o)
		}
		out := make([][]porcupine.Operation, 0, len(m))
		for _, v := range m {
			out = append(out, v)
		}
		return out
	},
	Init: func() any { return qstate{} },
	Step: func(st, in, out any) (bool, any) {
		s := st.(qstate)
		o := in.(qop)
		switch o.Kind {
		case "enq":
			if s.InFlight {
				s.Park = mergeSlot(s.Park, o)
			} else {
				s.Pend = mergeSlot(s.Pend, o)
			}
			return true, s
		case "deq":
			if s.InFlight || s.Pend == "" {
				return false, s
			}
			got := out.(qout)
			if fmt.Sprintf("%s;%v;%d", got.Tags, got.Forced, got.Ver) != s.Pend {
				return false, s
			}
			s.Pend = ""
			s.InFlight = true
			return true, s
		case "done":
			if !s.InFlight {
				return false, s
			}
			s.InFlight = false
			s.Pend, s.Park = s.Park, ""
			return true, s
		}
		return false, s
	},
	DescribeOperation: func(in, out any) string { return fmt.Sprintf("%v -> %v", in, out) },
}

func runQueue(c *vh.Ctx) {
	n := c.N(1500, 20000)
	for i := 0; i < n; i++ {
		if !c.Mine(i) {
			continue
		}
		c.Case(fmt.Sprintf("queue/%d", i), func() {
			r := c.Rng("queue", i)
			nconn := 1 + r.Intn(4)
			nprod := 1 + r.Intn(3)
			nwork := 1 + r.Intn(3)
			rounds := 3 + r.Intn(6)
			if nwork > nconn {
				nwork = nconn
			}
			q := xds.NewPushQueue()
			conns := make([]*xds.Connection, nconn)
			connIdx := map[*xds.Connection]int{}
			for j := range conns {
				conns[j] = &xds.Connection{}
				connIdx[conns[j]] = j
			}
			pushes := make([]*model.PushContext, rounds*nprod+1)
			for j := range pushes {
				pushes[j] = model.NewPushContext()
				pushes[j].PushVersion = fmt.Sprint(j)
			}
			var clock atomic.Int64
			var mu sync.Mutex
			var hist []porcupine.Operation
			rec := func(client int, in qop, call int64, out any) {
				ret := clock.Add(1)
				mu.Lock()
				hist = append(hist, porcupine.Operation{ClientId: client, Input: in, Call: call, Output: out, Return: ret})
				mu.Unlock()
			}
			type sharedReq struct {
				req  *model.PushRequest
				snap reqSnap
			}
			var shared []sharedReq
			var sharedMu sync.Mutex
			// plans (PRNG-determined before any goroutine starts)
			type enqPlan struct {
				conns  []int
				tags   []int
				forced bool
				ver    int
				yields int
			}
			plans := make([][]enqPlan, nprod)
			tag := 0
			verN := 0
			for p := range plans {
				for k := 0; k < rounds; k++ {
					verN++
					pl := enqPlan{forced: r.Intn(4) == 0, ver: verN, yields: r.Intn(4)}
					for t, nt := 0, 1+r.Intn(2); t < nt; t++ {
						tag++
						pl.tags = append(pl.tags, tag)
					}
					if r.Intn(2) == 0 {
						for j := 0; j < nconn; j++ { // shared request to every connection, as StartPush does
							pl.conns = append(pl.conns, j)
						}
					} else {
						pl.conns = []int{r.Intn(nconn)}
					}
					plans[p] = append(plans[p], pl)
				}
			}
			holdYields := make([]int, 64)
			for j := range holdYields {
				holdYields[j] = r.Intn(6)
			}
			totalEnq := 0
			for _, pp := range plans {
				for _, pl := range pp {
					totalEnq += len(pl.conns)
				}
			}

			var wg sync.WaitGroup
			start := make(chan struct{})
			for p := 0; p < nprod; p++ {
				wg.Add(1)
				go func(p int) {
					defer wg.Done()
					<-start
					for _, pl := range plans[p] {
						req := &model.PushRequest{ConfigsUpdated: sets.New[model.ConfigKey](), Reason: model.ReasonStats{}, Forced: pl.forced, Push: pushes[pl.ver]}
						for _, t := range pl.tags {
							req.ConfigsUpdated.Insert(tagKey(t, tagKinds[t%len(tagKinds)]))
							req.Reason[tagReason(t)]++
						}
						sharedMu.Lock()
						shared = append(shared, sharedReq{req, snap(req)})
						sharedMu.Unlock()
						for _, ci := range pl.conns {
							in := qop{Kind: "enq", Conn: ci, Tags: pl.tags, Forced: pl.forced, Ver: pl.ver}
							call := clock.Add(1)
							q.Enqueue(conns[ci], req)
							rec(p, in, call, qout{})
							for y := 0; y < pl.yields; y++ {
								runtime.Gosched()
							}
						}
					}
				}(p)
			}
			var inflight sync.Map
			var doubleDequeue atomic.Int64
			var wwg sync.WaitGroup
			for w := 0; w < nwork; w++ {
				wwg.Add(1)
				go func(w int) {
					defer wwg.Done()
					k := 0
					for {
						call := clock.Add(1)
						con, req, shutdown := q.Dequeue()
						if shutdown {
							return
						}
						ci := connIdx[con]
						if _, loaded := inflight.LoadOrStore(ci, true); loaded {
							doubleDequeue.Add(1)
						}
						var tags []string
						for id, cnt := range tagsOf(req) {
							for x := 0; x < cnt; x++ {
								tags = append(tags, fmt.Sprint(id))
							}
						}
						sort.Strings(tags)
						ver := -1
						if req.Push != nil {
							fmt.Sscan(req.Push.PushVersion, &ver)
						}
						rec(100+w, qop{Kind: "deq", Conn: ci}, call, qout{Tags: strings.Join(tags, ","), Forced: req.Forced, Ver: ver})
						for y := 0; y < holdYields[(w*17+k)%len(holdYields)]; y++ {
							runtime.Gosched()
						}
						k++
						call = clock.Add(1)
						inflight.Delete(ci)
						q.MarkDone(con)
						rec(100+w, qop{Kind: "done", Conn: ci}, call, qout{})
					}
				}(w)
			}
			close(start)
			wg.Wait()
			// drain: wait until the queue has nothing pending (logical), then shut down
			deadline := time.Now().Add(30 * time.Second)
			for {
				idle := q.Pending() == 0
				if idle {
					busy := false
					inflight.Range(func(_, _ any) bool { busy = true; return false })
					if !busy && q.Pending() == 0 {
						break
					}
				}
				if time.Now().After(deadline) {
					break
				}
				time.Sleep(100 * time.Microsecond)
			}
			q.ShutDown()
			wwg.Wait()
			c.Count("queue_histories", 1)
			c.Count("queue_ops", len(hist))
			if doubleDequeue.Load() > 0 {
				c.Violation("queue:two-pushes-in-flight", fmt.Sprintf("a connection was dequeued %d times while a push for it was in flight", doubleDequeue.Load()), nil)
			}
			// conservation: every tag enqueued for a connection came out for that connection
			want := map[string]int{}
			got := map[string]int{}
			parkedHit := false
			for _, o := range hist {
				in := o.Input.(qop)
				switch in.Kind {
				case "enq":
					for _, t := range in.Tags {
						want[fmt.Sprintf("c%d/%d", in.Conn, t)]++
					}
				case "deq":
					out := o.Output.(qout)
					if out.Tags != "" {
						for _, t := range strings.Split(out.Tags, ",") {
							got[fmt.Sprintf("c%d/%s", in.Conn, t)]++
						}
					}
				}
			}
			for k, w := range want {
				switch {
				case got[k] == 0:
					c.Violation("queue:tag-lost", fmt.Sprintf("tag %s was enqueued %d time(s) but never dequeued (history of %d ops)", k, w, len(hist)), map[string]any{"history": describeQ(hist)})
				case got[k] != w:
					c.Count("queue_tag_count_differs", 1)
				}
			}
			for k := range got {
				if want[k] == 0 {
					c.Violation("queue:tag-for-wrong-connection", fmt.Sprintf("tag %s was dequeued for a connection it was never enqueued for", k), map[string]any{"history": describeQ(hist)})
				}
			}
			for _, s := range shared {
				if !reflect.DeepEqual(snap(s.req), s.snap) {
					c.Violation("queue:shared-request-mutated", fmt.Sprintf("a request enqueued for several connections was modified by merging: before %+v after %+v", s.snap, snap(s.req)), nil)
				}
			}
			res, _ := porcupine.CheckOperationsVerbose(queueModel, hist, 60*time.Second)
			switch res {
			case porcupine.Ok:
				c.Count("queue_linearizable", 1)
			case porcupine.Unknown:
				c.Inconclusive("porcupine timeout on queue history")
			case porcupine.Illegal:
				c.Violation("queue:nonlinearizable", "PushQueue history does not match the sequential specification (pending/in-flight/parked per connection): "+strings.Join(describeQ(hist), " ; "),
					map[string]any{"history": describeQ(hist)})
			}
			// was an enqueue observed while its connection was in flight?
			open := map[int]int64{}
			sorted := append([]porcupine.Operation(nil), hist...)
			sort.Slice(sorted, func(a, b int) bool { return sorted[a].Call < sorted[b].Call })
			for _, o := range sorted {
				in := o.Input.(qop)
				switch in.Kind {
				case "deq":
					open[in.Conn] = o.Return
				case "done":
					delete(open, in.Conn)
				case "enq":
					if t, ok := open[in.Conn]; ok && o.Call > t {
						parkedHit = true
					}
				}
			}
			if parkedHit {
				c.Count("queue_enqueue_during_push", 1)
				c.Nontrivial(vh.Hash("queue", i, plans))
			}
			if i < 1 {
				c.Sample(map[string]any{"layer": "queue", "connections": nconn, "producers": nprod, "workers": nwork, "history": describeQ(hist)})
			}
			_ = totalEnq
		})
	}
}

func describeQ(h []porcupine.Operation) []string {
	s := append([]porcupine.Operation(nil), h...)
	sort.Slice(s, func(i, j int) bool { return s[i].Call < s[j].Call })
	out := make([]string, 0, len(s))
	for _, o := range s {
		out = append(out, fmt.Sprintf("[%d,%d] %v -> %v", o.Call, o.Return, o.Input, o.Output))
	}
	if len(out) > 80 {
		out = out[:80]
	}
	return out
}
