package main

import (
	"fmt"
	"math/rand"
	"reflect"
	"sort"
	"strings"
	"sync"
	"time"

	"go.uber.org/atomic"

	"istio.io/istio/pilot/pkg/model"
	"istio.io/istio/pilot/pkg/xds"
	"istio.io/istio/pkg/config/schema/kind"
	"istio.io/istio/pkg/util/sets"
	"verifharness/internal/vh"
)

// ---------------------------------------------------------------------------------------
// tagged requests

var tagKinds = []kind.Kind{kind.VirtualService, kind.DestinationRule, kind.ServiceEntry, kind.AuthorizationPolicy, kind.Sidecar, kind.Endpoints, kind.PeerAuthentication, kind.EnvoyFilter}

func tagKey(id int, k kind.Kind) model.ConfigKey {
	return model.ConfigKey{Kind: k, Name: fmt.Sprintf("t-%d", id), Namespace: "verif-tags"}
}

func tagReason(id int) model.TriggerReason { return model.TriggerReason(fmt.Sprintf("r-%d", id)) }

// tagsOf extracts tag id -> count from a request's reasons.
func tagsOf(req *model.PushRequest) map[int]int {
	out := map[int]int{}
	if req == nil {
		return out
	}
	for r, n := range req.Reason {
		var id int
		if _, err := fmt.Sscanf(string(r), "r-%d", &id); err == nil {
			out[id] += n
		}
	}
	return out
}

func keyTagsOf(req *model.PushRequest) map[int]bool {
	out := map[int]bool{}
	if req == nil {
		return out
	}
	for k := range req.ConfigsUpdated {
		var id int
		if _, err := fmt.Sscanf(k.Name, "t-%d", &id); err == nil {
			out[id] = true
		}
	}
	return out
}

// ---------------------------------------------------------------------------------------
// layer 1: merge algebra

type reqSnap struct {
	Nil       bool
	Configs   []string
	ConfigNil bool
	Addrs     []string
	AddrNil   bool
	Wps       []string
	WpNil     bool
	Push      string
	Reason    map[string]int
	ReasonNil bool
	Forced    bool
	Start     int64
}

func snap(r *model.PushRequest) reqSnap {
	if r == nil {
		return reqSnap{Nil: true}
	}
	s := reqSnap{ConfigNil: r.ConfigsUpdated == nil, AddrNil: r.AddressesUpdated == nil, WpNil: r.WaypointsUpdated == nil, ReasonNil: r.Reason == nil,
		Forced: r.Forced, Start: r.Start.UnixNano(), Reason: map[string]int{}}
	for k := range r.ConfigsUpdated {
		s.Configs = append(s.Configs, k.String())
	}
	for k := range r.AddressesUpdated {
		s.Addrs = append(s.Addrs, k)
	}
	for k := range r.WaypointsUpdated {
		s.Wps = append(s.Wps, fmt.Sprint(k))
	}
	sort.Strings(s.Configs)
	sort.Strings(s.Addrs)
	sort.Strings(s.Wps)
	for k, v := range r.Reason {
		s.Reason[string(k)] = v
	}
	if r.Push != nil {
		s.Push = r.Push.PushVersion
	}
	return s
}

func union(a, b []string) []string {
	m := map[string]bool{}
	for _, x := range a {
		m[x] = true
	}
	for _, x := range b {
		m[x] = true
	}
	out := make([]string, 0, len(m))
	for x := range m {
		out = append(out, x)
	}
	sort.Strings(out)
	return out
}

func genReq(r *rand.Rand, pushes []*model.PushContext, allowNilPush bool) *model.PushRequest {
	if r.Intn(12) == 0 {
		return nil
	}
	req := &model.PushRequest{Forced: r.Intn(3) == 0, Start: time.Unix(int64(1000+r.Intn(1000)), 0)}
	switch r.Intn(4) {
	case 0: // nil
	case 1:
		req.ConfigsUpdated = sets.New[model.ConfigKey]()
	default:
		req.ConfigsUpdated = sets.New[model.ConfigKey]()
		for i, n := 0, 1+r.Intn(4); i < n; i++ {
			req.ConfigsUpdated.Insert(tagKey(r.Intn(6), tagKinds[r.Intn(len(tagKinds))]))
		}
	}
	switch r.Intn(4) {
	case 0:
	case 1:
		req.AddressesUpdated = sets.New[string]()
	default:
		req.AddressesUpdated = sets.New[string]()
		for i, n := 0, 1+r.Intn(3); i < n; i++ {
			req.AddressesUpdated.Insert(fmt.Sprintf("net/10.0.0.%d", r.Intn(5)))
		}
	}
	if r.Intn(3) == 0 {
		req.WaypointsUpdated = sets.New[model.WaypointReference]()
		for i, n := 0, r.Intn(3); i < n; i++ {
			req.WaypointsUpdated.Insert(model.WaypointReference{Namespace: "ns", Hostname: fmt.Sprintf("w%d", r.Intn(3))})
		}
	}
	switch r.Intn(4) {
	case 0:
	case 1:
		req.Reason = model.ReasonStats{}
	default:
		req.Reason = model.ReasonStats{}
		for i, n := 0, 1+r.Intn(3); i < n; i++ {
			req.Reason[tagReason(r.Intn(5))] += 1 + r.Intn(2)
		}
	}
	if !allowNilPush || r.Intn(3) != 0 {
		req.Push = pushes[r.Intn(len(pushes))]
	}
	return req
}

func runAlgebra(c *vh.Ctx) {
	pushes := make([]*model.PushContext, 4)
	for i := range pushes {
		pushes[i] = model.NewPushContext()
		pushes[i].PushVersion = fmt.Sprintf("v%d", i)
	}
	n := c.N(20000, 300000)
	for i := 0; i < n; i++ {
		if !c.Mine(i) {
			continue
		}
		copyMerge := i%2 == 0
		c.Case(fmt.Sprintf("algebra/%d", i), func() {
			r := c.Rng("algebra", i)
			a := genReq(r, pushes, !copyMerge)
			b := genReq(r, pushes, !copyMerge)
			sa, sb := snap(a), snap(b)
			var m *model.PushRequest
			name := "Merge"
			if copyMerge {
				name = "CopyMerge"
				m = a.CopyMerge(b)
			} else {
				m = a.Merge(b)
			}
			sm := snap(m)
			c.Count("algebra_cases", 1)
			bad := func(what string) {
				c.Violation("algebra:"+name+":"+what, fmt.Sprintf("%s: %s; a=%+v b=%+v result=%+v", name, what, sa, sb, sm), map[string]any{"a": sa, "b": sb, "result": sm})
			}
			switch {
			case sa.Nil && sb.Nil:
				if !sm.Nil {
					bad("nil-nil-not-nil")
				}
				return
			case sa.Nil:
				if !reflect.DeepEqual(sm, sb) {
					bad("nil-left-result-differs-from-right")
				}
				return
			case sb.Nil:
				if !reflect.DeepEqual(sm, sa) {
					bad("nil-right-result-differs-from-left")
				}
				return
			}
			if strings.Join(sm.Configs, ",") != strings.Join(union(sa.Configs, sb.Configs), ",") {
				bad("configs-not-union")
			}
			if strings.Join(sm.Addrs, ",") != strings.Join(union(sa.Addrs, sb.Addrs), ",") {
				bad("addresses-not-union")
			}
			if strings.Join(sm.Wps, ",") != strings.Join(union(sa.Wps, sb.Wps), ",") {
				bad("waypoints-not-union")
			}
			if sm.Forced != (sa.Forced || sb.Forced) {
				bad("forced-not-or")
			}
			wantPush := sb.Push
			if wantPush == "" {
				wantPush = sa.Push
			}
			if sm.Push != wantPush {
				bad("snapshot-not-newest")
			}
			for k := range union(keys(sa.Reason), keys(sb.Reason)) {
				_ = k
			}
			for _, k := range union(keys(sa.Reason), keys(sb.Reason)) {
				if sm.Reason[k] != sa.Reason[k]+sb.Reason[k] {
					bad("reason-counts-not-added")
					break
				}
			}
			// the right-hand side is never mutated; CopyMerge mutates neither
			if !reflect.DeepEqual(snap(b), sb) {
				bad("right-input-mutated")
			}
			if copyMerge {
				if !reflect.DeepEqual(snap(a), sa) {
					bad("left-input-mutated")
				}
				// aliasing: writing to the result must not show through in the inputs
				if m.ConfigsUpdated != nil {
					m.ConfigsUpdated.Insert(tagKey(999, kind.Gateway))
				}
				if m.AddressesUpdated != nil {
					m.AddressesUpdated.Insert("sentinel")
				}
				if m.Reason != nil {
					m.Reason["sentinel"]++
				}
				if !reflect.DeepEqual(snap(a), sa) || !reflect.DeepEqual(snap(b), sb) {
					bad("result-aliases-an-input")
				}
			}
			overlap := len(sa.Configs)+len(sb.Configs) > len(union(sa.Configs, sb.Configs))
			if overlap || sa.ConfigNil || sb.ConfigNil {
				c.Nontrivial(vh.Hash("algebra", name, sa, sb))
			}
			if i < 2 {
				c.Sample(map[string]any{"layer": "algebra", "op": name, "a": sa, "b": sb, "result": sm})
			}
		})
	}
}

func keys(m map[string]int) []string {
	out := make([]string, 0, len(m))
	for k := range m {
		out = append(out, k)
	}
	sort.Strings(out)
	return out
}

// ---------------------------------------------------------------------------------------
// layer 2: debounce loop (hook H1)

func runDebounce(c *vh.Ctx) {
	n := c.N(300, 4000)
	for i := 0; i < n; i++ {
		if !c.Mine(i) {
			continue
		}
		c.Case(fmt.Sprintf("debounce/%d", i), func() {
			r := c.Rng("debounce", i)
			after := time.Duration(1+r.Intn(4)) * time.Millisecond
			max := after * time.Duration(2+r.Intn(6))
			edsDebounce := r.Intn(2) == 0
			ntags := 20 + r.Intn(60)
			type plan struct {
				id      int
				forced  bool
				kind    kind.Kind
				gapUS   int
				edsOnly bool
			}
			plans := make([]plan, ntags)
			for j := range plans {
				k := tagKinds[r.Intn(len(tagKinds))]
				gap := 0
				switch r.Intn(4) {
				case 0:
					gap = r.Intn(200)
				case 1:
					gap = int(after/time.Microsecond) * r.Intn(4)
				case 2:
					gap = int(after/time.Microsecond) / 2
				}
				plans[j] = plan{id: j, forced: r.Intn(5) == 0, kind: k, gapUS: gap, edsOnly: k == kind.Endpoints}
			}
			pushHoldUS := make([]int, 200)
			afterUS := int(after / time.Microsecond)
			for j := range pushHoldUS {
				pushHoldUS[j] = r.Intn(3000)
				if r.Intn(3) == 0 {
					// a push that outlasts the quiet period several times over, so that timers fire while it runs
					pushHoldUS[j] = afterUS*(1+r.Intn(5)) + r.Intn(afterUS)
				}
			}

			ch := make(chan *model.PushRequest, 10)
			stop := make(chan struct{})
			var updateSent atomic.Int64
			var mu sync.Mutex
			type delivery struct {
				tags   map[int]int
				keys   map[int]bool
				forced bool
			}
			var deliveries []delivery
			var inPush, maxOverlap, pushIdx int
			pushFn := func(req *model.PushRequest) {
				mu.Lock()
				inPush++
				if inPush > maxOverlap {
					maxOverlap = inPush
				}
				deliveries = append(deliveries, delivery{tags: tagsOf(req), keys: keyTagsOf(req), forced: req.Forced})
				hold := pushHoldUS[pushIdx%len(pushHoldUS)]
				pushIdx++
				mu.Unlock()
				time.Sleep(time.Duration(hold) * time.Microsecond)
				mu.Lock()
				inPush--
				mu.Unlock()
			}
			done := make(chan struct{})
			go func() {
				defer close(done)
				xds.DebounceForVerif(ch, stop, after, max, edsDebounce, pushFn, &updateSent)
			}()
			for _, p := range plans {
				if p.gapUS > 0 {
					time.Sleep(time.Duration(p.gapUS) * time.Microsecond)
				}
				ch <- &model.PushRequest{
					ConfigsUpdated: sets.New(tagKey(p.id, p.kind)),
					Reason:         model.NewReasonStats(tagReason(p.id)),
					Forced:         p.forced,
				}
			}
			// inputs stopped: bounded progress until every accepted notification is accounted for. The loop under test
			// is a closed system: either a push is in flight (the harness knows: inPush), or a timer of at most `max`
			// is armed, or nothing is pending. "Wedged" is decided relative to the runtime's own timers, not to a
			// wall-clock budget: 300 consecutive reference sleeps of length `max` elapse with no push in flight, no push
			// started and no notification committed, while accepted notifications are still uncommitted.
			deadline := time.Now().Add(120 * time.Second)
			progress := func() (int64, bool) {
				mu.Lock()
				defer mu.Unlock()
				return updateSent.Load()*1000003 + int64(pushIdx), inPush == 0
			}
			stall, wedged := 0, false
			for updateSent.Load() < int64(ntags) && time.Now().Before(deadline) {
				before, _ := progress()
				time.Sleep(max)
				now, nothingInFlight := progress()
				if now == before && nothingInFlight {
					stall++
				} else {
					stall = 0
				}
				if stall >= 300 {
					wedged = true
					break
				}
			}
			quiesced := updateSent.Load() >= int64(ntags)
			close(stop)
			<-done
			mu.Lock()
			defer mu.Unlock()
			if wedged {
				c.Violation("debounce:wedged-with-uncommitted-notifications",
					fmt.Sprintf("debounce loop stopped making progress: %d of %d accepted notifications committed, no push in flight, no push started while 300 reference timers of debounceMax=%v elapsed (after=%v edsDebounce=%v, %d pushes so far)",
						updateSent.Load(), ntags, max, after, edsDebounce, len(deliveries)),
					map[string]any{"after": after.String(), "max": max.String(), "edsDebounce": edsDebounce, "ntags": ntags})
				return
			}
			if !quiesced {
				c.Inconclusive(fmt.Sprintf("debounce did not account for all notifications: updateSent=%d of %d", updateSent.Load(), ntags))
				return
			}
			if updateSent.Load() > int64(ntags) {
				c.Violation("debounce:committed-exceeds-accepted", fmt.Sprintf("updateSent=%d > %d notifications fed", updateSent.Load(), ntags), nil)
			}
			count := map[int]int{}
			merged := false
			for _, d := range deliveries {
				if len(d.tags) >= 2 {
					merged = true
				}
				for id, nn := range d.tags {
					count[id] += nn
					if !d.keys[id] {
						c.Violation("debounce:key-dropped", fmt.Sprintf("push carries reason of tag %d but not its ConfigKey (union of changed keys violated)", id), nil)
					}
					if plans[id].forced && !d.forced {
						c.Violation("debounce:forced-lost", fmt.Sprintf("tag %d was forced but the push carrying it is not", id), nil)
					}
				}
			}
			for _, p := range plans {
				switch {
				case count[p.id] == 0:
					c.Violation("debounce:notification-lost", fmt.Sprintf("tag %d (kind %v, forced=%v) never reached a push; after=%v max=%v edsDebounce=%v pushes=%d", p.id, p.kind, p.forced, after, max, edsDebounce, len(deliveries)),
						map[string]any{"after": after.String(), "max": max.String(), "edsDebounce": edsDebounce, "ntags": ntags})
				case count[p.id] > 1:
					c.Count("debounce_duplicate_deliveries", 1)
				}
			}
			c.Count("debounce_runs", 1)
			c.Count("debounce_tags", ntags)
			c.Count("debounce_pushes", len(deliveries))
			c.Max("debounce_push_overlap", maxOverlap)
			c.SetAdd("debounce_merge_sizes", fmt.Sprint(maxTags(deliveries, func(d delivery) int { return len(d.tags) })))
			if merged {
				c.Nontrivial(vh.Hash("debounce", i, plans))
			}
			if i < 1 {
				c.Sample(map[string]any{"layer": "debounce", "tags": ntags, "pushes": len(deliveries), "after": after.String(), "max": max.String(), "edsDebounce": edsDebounce})
			}
		})
	}
}

func maxTags[T any](ds []T, f func(T) int) int {
	m := 0
	for _, d := range ds {
		if n := f(d); n > m {
			m = n
		}
	}
	return m
}
