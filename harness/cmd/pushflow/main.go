// Engine pushflow: property C02 — no config update is lost or weakened on its way to each
// proxy's push. Four layers, each driving real code: merge algebra (PushRequest.Merge /
// CopyMerge), the debounce loop (hook H1), the per-proxy PushQueue (porcupine + invariants)
// and the whole DiscoveryServer with stream faults.
package main

import (
	"verifharness/internal/quiet"
	"verifharness/internal/vh"
)

func main() {
	vh.Main(vh.Prop{
		ID:    "C02",
		Level: "exploration",
		Rule: "Every notification carries a unique tag (unique ConfigKey name and unique TriggerReason whose count survives merging). " +
			"algebra: PRNG request pairs through Merge/CopyMerge vs union/OR/last-snapshot/added-counts and input immutability; " +
			"debounce: N tagged requests with PRNG gaps and PRNG push durations through the real debounce loop, every tag must reach pushFn, forced preserved; " +
			"queue: concurrent producers/workers on the real PushQueue incl. one shared request per round as StartPush does, history checked with porcupine per connection and shared requests compared with their snapshots; " +
			"server: tagged ConfigUpdates from several goroutines into a FakeDiscoveryServer with K stream-shim clients while PRNG faults hit some clients (send error, context cancel, EOF, blocked send, late joiners); " +
			"at quiescence every live client must have been handed every tag accepted after it registered, forced preserved, snapshot versions non-decreasing and final == global, queue empty of dead connections. " +
			"Non-trivial: algebra case with overlapping keys or a nil side; debounce run where >=1 push carried >=2 tags; queue history where >=1 enqueue hit a connection in flight; server run where >=1 delivered request carried >=2 tags and (fault runs) >=1 client died. Distinct by hash of the generated plan.",
		Assumptions: []string{
			"ReasonStats counts add up under Merge/CopyMerge, so a tag's count over all deliveries detects loss (0) and duplication (>1, counted, not a violation)",
			"the ProxyNeedsPush hook point sees exactly the request handed to a connection's push (public field, wrapped before clients connect)",
			"bounded progress: after inputs and faults stop the control plane goes idle within the watchdog; a firing watchdog is a violation only together with logical evidence (a dead connection still held by the queue), else inconclusive",
			"porcupine v1.3.0 for the queue histories",
		},
		Anchors:       []string{"pilot/pkg/xds/pushqueue.go", "pilot/pkg/xds/discovery.go", "pilot/pkg/model/push_context.go"},
		MinNontrivial: func(t string) int { return map[string]int{"quick": 2000, "thorough": 30000}[t] },
		Batches:       func(t string) int { return map[string]int{"quick": 6, "thorough": 14}[t] },
		Parallel:      func(t string) int { return map[string]int{"quick": 6, "thorough": 14}[t] },
		TimeoutSec:    func(t string) int { return map[string]int{"quick": 900, "thorough": 3600}[t] },
		Env:           []string{"PILOT_PUSH_THROTTLE=3"},
		Run: func(c *vh.Ctx) {
			quiet.Logs("error")
			runAlgebra(c)
			runDebounce(c)
			runQueue(c)
			runServer(c)
		},
	})
}
