package main

import (
	"errors"
	"fmt"
	"math/rand"
	"sort"
	"strings"
	"sync"
	"sync/atomic"
	"time"
	vidle "verifharness/internal/idle"

	discovery "github.com/envoyproxy/go-control-plane/envoy/service/discovery/v3"

	"istio.io/istio/pilot/pkg/model"
	"istio.io/istio/pilot/pkg/xds"
	v3 "istio.io/istio/pilot/pkg/xds/v3"
	xdsfake "istio.io/istio/pilot/test/xds"
	"istio.io/istio/pkg/util/sets"
	"verifharness/internal/vh"
	"verifharness/internal/xdsshim"
)

// ---------------------------------------------------------------------------------------
// layer 4: whole server with faults

type delivered struct {
	stamp  int64
	tags   map[int]int
	keys   map[int]bool
	forced bool
	push   *model.PushContext
	ver    string
}

type sclient struct {
	id       string // proxy ID as the server knows it
	idx      int
	st       *xdsshim.SotwStream
	regStamp int64 // logical time after which every accepted tag must reach this client
	preReg   *atomic.Int64 // gated joiner: stamp taken when the connection was parked right after its registration (addCon)
	dead     atomic.Bool
	fault    string
	// fault controls
	failSendAt int32 // fail the n-th Send (1-based), 0 = never
	sends      atomic.Int32
	blockGate  chan struct{} // if non-nil, Send blocks on it once (at blockAt)
	blockAt    int32
	blocked    chan struct{}
	firstResp  chan struct{}
	once       sync.Once
	barrier    chan struct{}
}

type recorder struct {
	mu sync.Mutex
	by map[string][]delivered // proxy ID -> requests handed to its push
}

func runServer(c *vh.Ctx) {
	n := c.N(60, 1000)
	for i := 0; i < n; i++ {
		if !c.Mine(i) {
			continue
		}
		c.Case(fmt.Sprintf("server/%d", i), func() { serverRun(c, i) })
	}
}

const srvConfig = `
apiVersion: networking.istio.io/v1
kind: ServiceEntry
metadata: {name: a, namespace: default}
spec:
  hosts: [a.example.com]
  ports: [{number: 8081, name: http, protocol: HTTP}]
  resolution: STATIC
  endpoints: [{address: 10.1.0.1}]
`

func serverRun(c *vh.Ctx, i int) {
	r := c.Rng("server", i)
	withFaults := i%3 != 0
	nclients := 3 + r.Intn(c.N(4, 10))
	ntags := 60 + r.Intn(c.N(100, 400))
	nissuers := 1 + r.Intn(4)

	f := vh.NewF()
	srv := xdsfake.NewFakeDiscoveryServer(f, xdsfake.FakeOptions{ConfigString: srvConfig, DebounceTime: time.Duration(1+r.Intn(5)) * time.Millisecond})
	defer f.Done()
	ds := srv.Discovery
	xdsshim.InstallBarrier(ds)
	rec := &recorder{by: map[string][]delivered{}}
	var clock atomic.Int64
	ds.ProxyNeedsPush = func(proxy *model.Proxy, req *model.PushRequest) (*model.PushRequest, bool) {
		d := delivered{stamp: clock.Add(1), tags: tagsOf(req), keys: keyTagsOf(req), forced: req.Forced, push: req.Push}
		if req.Push != nil {
			d.ver = req.Push.PushVersion
		}
		rec.mu.Lock()
		rec.by[proxy.ID] = append(rec.by[proxy.ID], d)
		rec.mu.Unlock()
		return xds.DefaultProxyNeedsPush(proxy, req)
	}

	var clients []*sclient
	var cmu sync.Mutex
	var nextPreReg *atomic.Int64 // set just before a gated joiner connects
	connect := func(idx int, fault string, fr *rand.Rand) *sclient {
		cl := &sclient{idx: idx, fault: fault, firstResp: make(chan struct{}), barrier: make(chan struct{}, 8), blocked: make(chan struct{})}
		cl.preReg, nextPreReg = nextPreReg, nil
		cl.id = fmt.Sprintf("app-%d.default", idx)
		switch fault {
		case "send-error":
			cl.failSendAt = int32(2 + fr.Intn(6))
		case "blocked-then-cancel", "blocked-then-release":
			cl.blockGate = make(chan struct{})
			cl.blockAt = int32(2 + fr.Intn(4))
		}
		cl.st = xdsshim.NewSotw(nil, func(resp *discovery.DiscoveryResponse) error {
			if resp.TypeUrl == xdsshim.BarrierType {
				select {
				case cl.barrier <- struct{}{}:
				default:
				}
				return nil
			}
			n := cl.sends.Add(1)
			cl.once.Do(func() { close(cl.firstResp) })
			if cl.failSendAt != 0 && n >= cl.failSendAt {
				return errors.New("injected send failure")
			}
			if cl.blockGate != nil && n == cl.blockAt {
				close(cl.blocked)
				select {
				case <-cl.blockGate:
				case <-cl.st.Context().Done():
					return errors.New("context canceled while blocked in send")
				}
			}
			return nil
		})
		cl.st.Serve(ds)
		cl.st.Request(&discovery.DiscoveryRequest{TypeUrl: v3.ClusterType, Node: xdsshim.Node("sidecar", fmt.Sprintf("10.8.%d.%d", idx/250, idx%250+1), fmt.Sprintf("app-%d", idx), "default", nil)})
		select {
		case <-cl.firstResp:
		case <-cl.st.Done():
		case <-time.After(60 * time.Second):
		}
		cl.regStamp = clock.Add(1)
		if cl.preReg != nil && cl.preReg.Load() != 0 {
			// the server registered the connection (addCon) before it parked at the gate: what was accepted since must reach it
			cl.regStamp = cl.preReg.Load()
		}
		cmu.Lock()
		clients = append(clients, cl)
		cmu.Unlock()
		return cl
	}
	faults := []string{"none", "none", "none", "send-error", "cancel", "eof", "blocked-then-cancel", "blocked-then-release"}
	for k := 0; k < nclients; k++ {
		ft := "none"
		if withFaults && k > 0 { // client 0 always survives
			ft = faults[r.Intn(len(faults))]
		}
		connect(k, ft, rand.New(rand.NewSource(r.Int63())))
	}
	lateJoiners := 0
	if withFaults {
		lateJoiners = r.Intn(3)
	}

	// tag plan
	type tagPlan struct {
		id      int
		forced  bool
		kindIdx int
		gapUS   int
		issued  atomic.Int64 // logical stamp taken just before ConfigUpdate
	}
	plans := make([]*tagPlan, ntags)
	for k := range plans {
		plans[k] = &tagPlan{id: k, forced: r.Intn(3) == 0, kindIdx: r.Intn(len(tagKinds)), gapUS: []int{0, 0, 50, 500, 3000}[r.Intn(5)]}
	}
	// fault schedule: client index -> tag position at which a cancel / eof / release happens
	faultAt := map[int]int{}
	cmu.Lock()
	for _, cl := range clients {
		if cl.fault != "none" {
			faultAt[cl.idx] = 5 + r.Intn(ntags-5)
		}
	}
	cmu.Unlock()
	joinAt := map[int]bool{}
	for k := 0; k < lateJoiners; k++ {
		joinAt[5+r.Intn(ntags-5)] = true
	}
	joinSeeds := []int64{r.Int63(), r.Int63(), r.Int63()}

	var issuedN atomic.Int64
	var wg sync.WaitGroup
	next := make(chan int, ntags)
	for k := 0; k < ntags; k++ {
		next <- k
	}
	close(next)
	var fmu sync.Mutex
	gatedJoin := withFaults && i%2 == 1
	if gatedJoin && lateJoiners == 0 {
		joinAt[5+int(joinSeeds[1]%int64(ntags-5)+int64(ntags-5))%(ntags-5)] = true
	}
	var (
		gateUsed, gateWatchdog bool
		gateRelease            chan struct{}
		gateReleaseAt          int
		gateJoined             = make(chan struct{})
	)
	defer xds.SetVerifGate(nil)
	applyFaults := func(pos int) {
		fmu.Lock()
		defer fmu.Unlock()
		cmu.Lock()
		cls := append([]*sclient(nil), clients...)
		cmu.Unlock()
		for _, cl := range cls {
			at, ok := faultAt[cl.idx]
			if !ok || at != pos || cl.dead.Load() {
				continue
			}
			switch cl.fault {
			case "cancel":
				cl.dead.Store(true)
				cl.st.Cancel()
			case "eof":
				cl.dead.Store(true)
				cl.st.CloseSend()
			case "blocked-then-cancel":
				cl.dead.Store(true)
				cl.st.Cancel()
			case "blocked-then-release":
				select {
				case <-cl.blocked:
					close(cl.blockGate)
				default:
					// never reached its blocking send; make sure it will not block later
					close(cl.blockGate)
				}
			case "send-error":
				// dies on its own at the n-th send; from now on nothing is required of it
				cl.dead.Store(true)
			}
		}
		if gateRelease != nil && pos >= gateReleaseAt {
			close(gateRelease)
			gateRelease = nil
		}
		if joinAt[pos] {
			joinAt[pos] = false
			idx := 100 + pos
			if gatedJoin && !gateUsed {
				// The joiner is parked right after the server registered its connection and before its state is computed
				// (hook H4b), a few notifications are accepted meanwhile, then it goes on: each of them must reach it.
				gateUsed = true
				parked, release := make(chan struct{}), make(chan struct{})
				var armed atomic.Bool
				armed.Store(true)
				xds.SetVerifGate(func(point string) {
					if point == "ads.initializeProxy.start" && armed.CompareAndSwap(true, false) {
						close(parked)
						<-release
					}
				})
				pre := &atomic.Int64{}
				nextPreReg = pre
				fr := rand.New(rand.NewSource(joinSeeds[pos%3]))
				go func() {
					defer close(gateJoined)
					connect(idx, "none", fr)
				}()
				select {
				case <-parked:
					pre.Store(clock.Add(1))
					gateRelease, gateReleaseAt = release, pos+2+int(joinSeeds[0]%6+6)%6
					c.Count("server_gated_joiners_parked", 1)
				case <-time.After(30 * time.Second): // watchdog, not a verdict
					close(release)
					gateWatchdog = true
				}
			} else {
				connect(idx, "none", rand.New(rand.NewSource(joinSeeds[pos%3])))
			}
		}
	}
	for g := 0; g < nissuers; g++ {
		wg.Add(1)
		go func() {
			defer wg.Done()
			for k := range next {
				p := plans[k]
				if p.gapUS > 0 {
					time.Sleep(time.Duration(p.gapUS) * time.Microsecond)
				}
				applyFaults(k)
				p.issued.Store(clock.Add(1))
				ds.ConfigUpdate(&model.PushRequest{
					ConfigsUpdated: sets.New(tagKey(p.id, tagKinds[p.kindIdx])),
					Reason:         model.NewReasonStats(tagReason(p.id)),
					Forced:         p.forced,
				})
				issuedN.Add(1)
			}
		}()
	}
	wg.Wait()
	if gateRelease != nil {
		close(gateRelease)
		gateRelease = nil
	}
	if gateUsed {
		select {
		case <-gateJoined:
		case <-time.After(90 * time.Second): // watchdog
			gateWatchdog = true
		}
	}
	if gateWatchdog {
		c.Inconclusive("gated joiner did not get through (watchdog)")
		return
	}
	// a send-error client is considered dead from its scheduled point; clients that were scheduled to block and
	// were never released must be released now so that the run can quiesce (they stay "live": everything must reach them)
	cmu.Lock()
	for _, cl := range clients {
		if cl.fault == "blocked-then-release" {
			select {
			case <-cl.blockGate:
			default:
				close(cl.blockGate)
			}
		}
		if cl.fault == "send-error" || cl.fault == "blocked-then-cancel" || cl.fault == "cancel" || cl.fault == "eof" {
			if !cl.dead.Load() {
				cl.dead.Store(true)
				if cl.fault != "send-error" {
					cl.st.Cancel()
				}
			}
			if cl.fault == "send-error" {
				// it may never have reached its failing send: end it now (it is dead for the oracle either way)
				select {
				case <-cl.st.Done():
				default:
					cl.st.Cancel()
				}
			}
		}
	}
	all := append([]*sclient(nil), clients...)
	cmu.Unlock()

	// bounded progress to quiescence
	idle := xdsshim.WaitControlPlaneIdle(ds, 90*time.Second)
	deadIDs := map[string]bool{}
	live := 0
	for _, cl := range all {
		if cl.dead.Load() {
			deadIDs[cl.id] = true
		} else {
			live++
		}
	}
	if !idle {
		pend, proc := ds.PushQueueConnectionsForVerif()
		var stuck []string
		for _, id := range append(pend, proc...) {
			for d := range deadIDs {
				if strings.HasPrefix(id, d+"-") {
					stuck = append(stuck, id)
				}
			}
		}
		// a dead client's handler must have returned before its queue entry counts as leaked
		handlersReturned := true
		for _, cl := range all {
			if cl.dead.Load() {
				select {
				case <-cl.st.Done():
				default:
					handlersReturned = false
				}
			}
		}
		// a wedged debouncer: accepted notifications are uncommitted although nothing is queued or in flight and the
		// whole process is parked - decided relative to the runtime's timers (300 reference sleeps of 10x the debounce
		// time elapse with no change), after the 90 s watchdog already passed.
		wedged := false
		if len(pend) == 0 && len(proc) == 0 && ds.InboundUpdates.Load() != ds.CommittedUpdates.Load() {
			wedged = true
			in0, co0 := ds.InboundUpdates.Load(), ds.CommittedUpdates.Load()
			buf := make([]byte, 1<<20)
			for k := 0; k < 300 && wedged; k++ {
				time.Sleep(50 * time.Millisecond)
				p2, q2 := ds.PushQueueStateForVerif()
				parked, _, _ := vidle.Snapshot(&buf)
				if !parked || p2 != 0 || q2 != 0 || ds.InboundUpdates.Load() != in0 || ds.CommittedUpdates.Load() != co0 {
					wedged = false
				}
			}
		}
		if wedged {
			c.Violation("server:debouncer-wedged-with-uncommitted-notifications",
				fmt.Sprintf("control plane stopped making progress: accepted=%d committed=%d, push queue empty, nothing in flight, every goroutine parked for 300 reference timers after the 90 s watchdog",
					ds.InboundUpdates.Load(), ds.CommittedUpdates.Load()), map[string]any{"case": i})
		} else if len(stuck) > 0 && handlersReturned {
			c.Violation("server:dead-connection-holds-queue", fmt.Sprintf("control plane did not quiesce; push queue still holds closed connections %v (pending=%v processing=%v)", stuck, pend, proc),
				map[string]any{"case": i})
		} else {
			c.Inconclusive(fmt.Sprintf("control plane not idle after watchdog (in=%d committed=%d pending=%v processing=%v)", ds.InboundUpdates.Load(), ds.CommittedUpdates.Load(), pend, proc))
		}
		return
	}
	// per-connection barrier for live clients
	for _, cl := range all {
		if cl.dead.Load() {
			continue
		}
		if !cl.st.Request(&discovery.DiscoveryRequest{TypeUrl: xdsshim.BarrierType, ResourceNames: []string{"b"}}) {
			c.Violation("server:live-client-stream-ended", fmt.Sprintf("client %s had no fault injected but its stream ended: %v", cl.id, cl.st.Err()), nil)
			continue
		}
		select {
		case <-cl.barrier:
		case <-cl.st.Done():
			c.Violation("server:live-client-stream-ended", fmt.Sprintf("client %s had no fault injected but its stream ended: %v", cl.id, cl.st.Err()), nil)
		case <-time.After(60 * time.Second):
			c.Inconclusive("barrier lost for " + cl.id)
			return
		}
	}
	global := srv.Env().PushContext()
	rec.mu.Lock()
	defer rec.mu.Unlock()
	mergedSeen := false
	maxMerge := 0
	for _, cl := range all {
		if cl.dead.Load() {
			continue
		}
		ds := rec.by[cl.id]
		count := map[int]int{}
		forcedOK := map[int]bool{}
		lastVer := -1
		for _, d := range ds {
			if len(d.tags) >= 2 {
				mergedSeen = true
			}
			if len(d.tags) > maxMerge {
				maxMerge = len(d.tags)
			}
			for id, nn := range d.tags {
				count[id] += nn
				if !d.keys[id] {
					c.Violation("server:key-dropped", fmt.Sprintf("client %s: push carries reason of tag %d but not its ConfigKey", cl.id, id), nil)
				}
				if d.forced {
					forcedOK[id] = true
				}
			}
			var v int
			if _, err := fmt.Sscanf(versionNumber(d.ver), "%d", &v); err == nil {
				if v < lastVer {
					c.Violation("server:snapshot-went-backwards", fmt.Sprintf("client %s was handed snapshot %s after %d", cl.id, d.ver, lastVer), nil)
				}
				lastVer = v
			}
		}
		for _, p := range plans {
			if p.issued.Load() <= cl.regStamp {
				continue // accepted before the client registered: nothing is promised
			}
			switch {
			case count[p.id] == 0:
				c.Violation("server:notification-lost", fmt.Sprintf("client %s (fault=%s, registered at %d) was never handed tag %d (kind %v, forced=%v, accepted at %d); %d pushes reached it",
					cl.id, cl.fault, cl.regStamp, p.id, tagKinds[p.kindIdx], p.forced, p.issued.Load(), len(ds)),
					map[string]any{"case": i, "client": cl.id, "tag": p.id})
			case count[p.id] > 1:
				c.Count("server_duplicate_deliveries", 1)
			}
			if count[p.id] > 0 && p.forced && !forcedOK[p.id] {
				c.Violation("server:forced-lost", fmt.Sprintf("client %s: tag %d was forced but no push carrying it is", cl.id, p.id), nil)
			}
		}
		if len(ds) > 0 && ds[len(ds)-1].push != global {
			c.Violation("server:final-snapshot-not-newest", fmt.Sprintf("client %s: last push used snapshot %s, global is %s", cl.id, ds[len(ds)-1].ver, global.PushVersion), nil)
		}
		c.Count("server_client_checks", 1)
		c.Count("server_pushes_recorded", len(ds))
	}
	// released resources: only live clients are listed, nothing of a dead client is in the queue
	liveIDs := map[string]bool{}
	for _, cl := range all {
		if !cl.dead.Load() {
			liveIDs[cl.id] = true
		}
	}
	// the handler of every dead client must have returned (bounded wait, inconclusive otherwise)
	for _, cl := range all {
		if cl.dead.Load() {
			select {
			case <-cl.st.Done():
			case <-time.After(60 * time.Second):
				c.Inconclusive("handler of dead client did not return: " + cl.id)
				return
			}
		}
	}
	deadline := time.Now().Add(60 * time.Second)
	for {
		var ghosts []string
		for _, con := range srv.Discovery.Clients() {
			if p := con.Proxy(); p != nil && deadIDs[p.ID] {
				ghosts = append(ghosts, con.ID())
			}
		}
		if len(ghosts) == 0 {
			break
		}
		if time.Now().After(deadline) {
			c.Violation("server:dead-client-still-registered", fmt.Sprintf("closed clients are still listed as connected: %v", ghosts), nil)
			break
		}
		time.Sleep(time.Millisecond)
	}
	c.Count("server_runs", 1)
	c.Count("server_tags", ntags)
	c.Count("server_clients", len(all))
	c.Count("server_clients_killed", len(deadIDs))
	c.Max("server_merge_size", maxMerge)
	for _, cl := range all {
		c.SetAdd("server_faults_exercised", cl.fault)
	}
	if mergedSeen && (!withFaults || len(deadIDs) > 0) {
		c.Nontrivial(vh.Hash("server", i, ntags, nclients))
	}
	if i < 2 {
		var fs []string
		for _, cl := range all {
			fs = append(fs, cl.id+":"+cl.fault)
		}
		sort.Strings(fs)
		c.Sample(map[string]any{"layer": "server", "clients": fs, "tags": ntags, "issuers": nissuers, "max_tags_in_one_push": maxMerge})
	}
}

// versionNumber extracts the counter from a push version "<time>/<n>".
func versionNumber(v string) string {
	if i := strings.LastIndexByte(v, '/'); i >= 0 {
		return v[i+1:]
	}
	return v
}
