package main

// Stratum "files" (thorough only): file-mounted key/cert/root in a real temporary directory
// with the real fsnotify watcher.
//
//	phase A (sequential): publish identity k, wait for the announcement of the change, ask
//	again: the pair must match, the ROOTCA item must contain the root now on disk and the
//	configured bundle. A missing announcement within the watchdog is inconclusive (fsnotify
//	delivery is asynchronous), never a violation.
//	phase B (concurrent): a writer republishes identities (always complete files: per-file
//	atomic rename, or kubelet-style "..data" directory swap) while requests are made - B1: one
//	republication racing one request, B2: continuous republication against three readers;
//	every answer that carries a key must carry the matching certificate.

import (
	"crypto/ecdsa"
	"crypto/elliptic"
	"crypto/rand"
	"crypto/x509"
	"crypto/x509/pkix"
	"encoding/pem"
	"fmt"
	"math/big"
	"os"
	"path/filepath"
	"sync"
	"sync/atomic"
	"time"

	"verifharness/internal/vh"
)

type fileIdentity struct {
	keyPEM, certPEM, rootPEM []byte
	leafFP                   string
	root                     int
}

func makeIdentity(serial int64, root int) (*fileIdentity, error) {
	k, err := ecdsa.GenerateKey(elliptic.P256(), rand.Reader)
	if err != nil {
		return nil, err
	}
	pr := getPool()[root]
	tmpl := &x509.Certificate{
		SerialNumber: big.NewInt(serial),
		Subject:      pkix.Name{Organization: []string{"verif-harness-file"}},
		NotBefore:    time.Now().Add(-time.Minute),
		NotAfter:     time.Now().Add(24 * time.Hour),
		KeyUsage:     x509.KeyUsageDigitalSignature,
		ExtKeyUsage:  []x509.ExtKeyUsage{x509.ExtKeyUsageServerAuth, x509.ExtKeyUsageClientAuth},
	}
	der, err := x509.CreateCertificate(rand.Reader, tmpl, pr.cert, &k.PublicKey, pr.key)
	if err != nil {
		return nil, err
	}
	kb, err := x509.MarshalECPrivateKey(k)
	if err != nil {
		return nil, err
	}
	return &fileIdentity{
		keyPEM:  pem.EncodeToMemory(&pem.Block{Type: "EC PRIVATE KEY", Bytes: kb}),
		certPEM: append(pem.EncodeToMemory(&pem.Block{Type: "CERTIFICATE", Bytes: der}), []byte(pr.pem)...),
		rootPEM: []byte(pr.pem),
		leafFP:  fpOf(der),
		root:    root,
	}, nil
}

// publisher writes identities into dir in one of two layouts.
type publisher struct {
	dir    string
	layout string // "rename" | "kube"
	gen    int
}

func atomicWrite(path string, b []byte) error {
	tmp := path + ".tmp"
	if err := os.WriteFile(tmp, b, 0o600); err != nil {
		return err
	}
	return os.Rename(tmp, path)
}

func (p *publisher) publish(id *fileIdentity, certFirst bool) error {
	p.gen++
	if p.layout == "rename" {
		type f struct {
			n string
			b []byte
		}
		order := []f{{"cert.pem", id.certPEM}, {"key.pem", id.keyPEM}}
		if !certFirst {
			order[0], order[1] = order[1], order[0]
		}
		order = append(order, f{"root.pem", id.rootPEM})
		for _, x := range order {
			if err := atomicWrite(filepath.Join(p.dir, x.n), x.b); err != nil {
				return err
			}
		}
		return nil
	}
	// kubelet-style: files in a fresh ..gen directory, "..data" symlink swapped atomically
	gd := fmt.Sprintf("..gen_%06d", p.gen)
	if err := os.Mkdir(filepath.Join(p.dir, gd), 0o700); err != nil {
		return err
	}
	for n, b := range map[string][]byte{"cert.pem": id.certPEM, "key.pem": id.keyPEM, "root.pem": id.rootPEM} {
		if err := os.WriteFile(filepath.Join(p.dir, gd, n), b, 0o600); err != nil {
			return err
		}
	}
	old, _ := os.Readlink(filepath.Join(p.dir, "..data"))
	tmp := filepath.Join(p.dir, "..data_tmp")
	_ = os.Remove(tmp)
	if err := os.Symlink(gd, tmp); err != nil {
		return err
	}
	if err := os.Rename(tmp, filepath.Join(p.dir, "..data")); err != nil {
		return err
	}
	if old == "" {
		for _, n := range []string{"cert.pem", "key.pem", "root.pem"} {
			if err := os.Symlink(filepath.Join("..data", n), filepath.Join(p.dir, n)); err != nil {
				return err
			}
		}
	} else {
		_ = os.RemoveAll(filepath.Join(p.dir, old))
	}
	return nil
}

func runFiles(c *vh.Ctx) {
	if c.Quick() {
		return
	}
	const nCases = 60
	for i := 0; i < nCases; i++ {
		if !c.Mine(i) {
			continue
		}
		layout := []string{"rename", "kube"}[i%2]
		c.Case(fmt.Sprintf("files-%d-%s", i, layout), func() {
			r := c.Rng("files", i)
			dir, err := os.MkdirTemp("", "agentsec-files-")
			if err != nil {
				vh.Abort("tempdir: %v", err)
			}
			defer os.RemoveAll(dir)
			if getPool(); poolErr != nil {
				vh.Abort("root pool: %v", poolErr)
			}
			ids := make([]*fileIdentity, 3)
			for k := range ids {
				if ids[k], err = makeIdentity(int64(100+k), k); err != nil {
					vh.Abort("identity: %v", err)
				}
			}
			byFP := map[string]int{}
			for k, id := range ids {
				byFP[id.leafFP] = k
			}
			pub := &publisher{dir: dir, layout: layout}
			if err := pub.publish(ids[0], true); err != nil {
				vh.Abort("publish: %v", err)
			}
			cfg := worldCfg{Ratio: 0.5, Jitter: 0.01, TTL: time.Hour, KeyType: "p256", FileDir: dir}
			w := newWorld(c, cfg, nil, caBeh{Kind: kOK, Lifetime: time.Hour, Roots: []int{3}})
			defer w.close()

			bundle := []int{4 + r.Intn(2)}
			if err := w.sm.UpdateConfigTrustBundle(bundlePEM(bundle)); err != nil {
				vh.Abort("bundle: %v", err)
			}
			w.mu.Lock()
			w.bundles = append(w.bundles, bundle)
			w.mu.Unlock()

			ask := func(cur int, quiescent bool) bool {
				cr := w.syncCall(resWorkload)
				if cr.Panic != "" {
					c.Inconclusive("GenerateSecret panicked: " + cr.Panic)
					return false
				}
				if cr.Err != nil {
					c.Inconclusive("file-mounted default not readable while the writer is idle: " + cr.Err.Error())
					return false
				}
				if cr.Item == nil {
					w.violation("nil-item-without-error", "GenerateSecret returned (nil, nil)", nil)
					return false
				}
				fp := w.checkFilePair(cr, layout)
				if quiescent && fp != "" && fp != ids[cur].leafFP {
					c.Count("file_answers_not_current", 1)
				}
				rr := w.syncCall(resRoot)
				if rr.Err != nil || rr.Item == nil {
					c.Inconclusive(fmt.Sprintf("file-mounted ROOTCA not readable while the writer is idle: %v", rr.Err))
					return false
				}
				w.checkRootItem(rr, [][2][]int{{[]int{ids[cur].root}, bundle}})
				return true
			}

			// ---- phase A
			if !ask(0, true) {
				return
			}
			cur := 0
			swaps := 2 + r.Intn(3)
			for s := 0; s < swaps; s++ {
				cur = (cur + 1 + r.Intn(2)) % len(ids)
				seq0 := w.seq.Load()
				if err := pub.publish(ids[cur], r.Intn(2) == 0); err != nil {
					vh.Abort("publish: %v", err)
				}
				// wait for both announcements (logical condition, watchdog => inconclusive)
				deadline := time.Now().Add(30 * time.Second)
				for {
					wl, root := w.notifsSince(seq0)
					if wl > 0 && root > 0 {
						c.Count("file_changes_announced", 1)
						break
					}
					if time.Now().After(deadline) {
						c.Inconclusive(fmt.Sprintf("file change not announced within the watchdog (default=%d ROOTCA=%d, layout %s)", wl, root, layout))
						return
					}
					time.Sleep(2 * time.Millisecond)
				}
				if !ask(cur, true) {
					return
				}
			}

			// ---- phase B1: every request races with exactly one republication
			trials := 60 + r.Intn(60)
			before := w.nviol.Load()
			for t := 0; t < trials; t++ {
				startCh := make(chan struct{})
				done := make(chan *callRec, 1)
				go func() {
					<-startCh
					done <- w.syncCall(resWorkload)
				}()
				spin := time.Duration(r.Intn(600)) * time.Microsecond
				close(startCh)
				for t0 := time.Now(); time.Since(t0) < spin; {
				}
				cur = (cur + 1) % len(ids)
				if err := pub.publish(ids[cur], t%2 == 0); err != nil {
					vh.Abort("publish: %v", err)
				}
				var cr *callRec
				select {
				case cr = <-done:
				case <-time.After(watchdog):
					vh.Abort("file request did not return")
				}
				c.Count("file_single_race_trials", 1)
				if cr.Panic != "" || cr.Err != nil || cr.Item == nil {
					c.Count("file_single_race_errors", 1)
					continue
				}
				w.checkFilePair(cr, layout)
			}
			c.Count("file_single_race_mismatches", int(w.nviol.Load()-before))

			// ---- phase B2: continuous republication against three readers
			var stopReaders atomic.Bool
			var reads, readErrs atomic.Int64
			var wg sync.WaitGroup
			seen := make([]atomic.Int64, len(ids))
			for g := 0; g < 3; g++ {
				wg.Add(1)
				go func() {
					defer wg.Done()
					for !stopReaders.Load() {
						cr := w.syncCall(resWorkload)
						reads.Add(1)
						if cr.Panic != "" || cr.Err != nil || cr.Item == nil {
							readErrs.Add(1)
							continue
						}
						if fp := w.checkFilePair(cr, layout); fp != "" {
							if k, ok := byFP[fp]; ok {
								seen[k].Add(1)
							}
						}
					}
				}()
			}
			flips := 150 + r.Intn(150)
			wr := func() {
				for f := 0; f < flips; f++ {
					cur = (cur + 1) % len(ids)
					if err := pub.publish(ids[cur], f%2 == 0); err != nil {
						return
					}
					if f%3 == 0 {
						time.Sleep(time.Duration(50+r.Intn(400)) * time.Microsecond)
					}
				}
			}
			wr()
			stopReaders.Store(true)
			done := make(chan struct{})
			go func() { wg.Wait(); close(done) }()
			select {
			case <-done:
			case <-time.After(2 * watchdog):
				vh.Abort("file readers did not finish")
			}
			distinct := 0
			for k := range seen {
				if seen[k].Load() > 0 {
					distinct++
				}
			}
			c.Count("file_cases", 1)
			c.Count("file_publishes", pub.gen)
			c.Count("file_concurrent_reads", int(reads.Load()))
			c.Count("file_concurrent_read_errors", int(readErrs.Load()))
			c.SetAdd("file_layouts", layout)
			if reads.Load() >= 10 && distinct >= 2 {
				c.Nontrivial(vh.Hash("files", i, layout))
			}
			if i < 2 {
				c.Sample(map[string]any{"stratum": "files", "layout": layout, "publishes": pub.gen, "concurrent_reads": reads.Load(),
					"read_errors": readErrs.Load(), "identities_seen": distinct})
			}
		})
	}
}

// checkFilePair is checkPair for file-mounted answers, under its own key: what was read from
// two files is a different mechanism from what was signed.
func (w *world) checkFilePair(cr *callRec, layout string) string {
	it := cr.Item
	if len(it.PrivateKey) == 0 || len(it.CertificateChain) == 0 {
		w.violation("pair-incomplete res=default source=file", fmt.Sprintf("item has key=%dB chain=%dB", len(it.PrivateKey), len(it.CertificateChain)), nil)
		return ""
	}
	leaf, err := leafOf(it.CertificateChain)
	if err != nil {
		w.violation("returned-chain-unparseable source=file", err.Error(), nil)
		return ""
	}
	pub, _, err := parsePrivateKeyPEM(it.PrivateKey)
	if err != nil {
		w.violation("returned-key-unparseable source=file", err.Error(), nil)
		return ""
	}
	w.c.Count("file_pairs_checked", 1)
	if !pubEqual(leaf.PublicKey, pub) {
		w.violation("pair-mismatch res=default source=file",
			fmt.Sprintf("layout %s: file-mounted answer carries leaf %s with a private key of another identity (files were republished, each one complete, during the request)", layout, fpOf(leaf.Raw)),
			map[string]any{"layout": layout})
	}
	return fpOf(leaf.Raw)
}
