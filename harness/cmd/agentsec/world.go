package main

// One "world": a real cache.SecretManagerClient wired to the fake CA, the virtual delayed
// queue and a recording secret handler; plus the bookkeeping shared by all strata.

import (
	"fmt"
	"path/filepath"
	"sort"
	"strings"
	"sync"
	"sync/atomic"
	"time"

	istiolog "istio.io/istio/pkg/log"
	"istio.io/istio/pkg/queue"
	"istio.io/istio/pkg/security"
	"istio.io/istio/security/pkg/nodeagent/cache"

	"verifharness/internal/vh"
)

const (
	resWorkload = security.WorkloadKeyCertResourceName // "default"
	resRoot     = security.RootCertReqResourceName     // "ROOTCA"
)

var quietOnce sync.Once

func quietLogs() {
	quietOnce.Do(func() {
		for _, s := range istiolog.Scopes() {
			s.SetOutputLevel(istiolog.NoneLevel)
		}
	})
}

// ---------------------------------------------------------------------------------------
// virtual delayed queue (hook H3)

type vtask struct {
	Idx   int
	Task  queue.Task
	Delay time.Duration
	T2    time.Time // read when PushDelayed was called (after the item's CreatedTime)
	GID   int64
	Seq   int64
	Fired int
}

type vqueue struct {
	seq    *atomic.Int64
	mu     sync.Mutex
	tasks  []*vtask
	plain  int // Push (undelayed) calls: not expected
	closed chan struct{}
}

var _ queue.Delayed = &vqueue{}

func newVQueue(seq *atomic.Int64) *vqueue { return &vqueue{seq: seq, closed: make(chan struct{})} }

func (q *vqueue) PushDelayed(t queue.Task, d time.Duration) {
	now := time.Now()
	q.mu.Lock()
	q.tasks = append(q.tasks, &vtask{Idx: len(q.tasks), Task: t, Delay: d, T2: now, GID: curGID(), Seq: q.seq.Add(1)})
	q.mu.Unlock()
}

func (q *vqueue) Push(t queue.Task) {
	q.mu.Lock()
	q.plain++
	q.mu.Unlock()
}
func (q *vqueue) Run(stop <-chan struct{}) { <-stop }
func (q *vqueue) Closed() <-chan struct{}  { return q.closed }

func (q *vqueue) len() int {
	q.mu.Lock()
	defer q.mu.Unlock()
	return len(q.tasks)
}

func (q *vqueue) at(i int) *vtask {
	q.mu.Lock()
	defer q.mu.Unlock()
	return q.tasks[i]
}

// ---------------------------------------------------------------------------------------

type notifyEv struct {
	Seq int64
	Res string
}

type callRec struct {
	ID       int
	Res      string
	GID      int64
	StartSeq int64
	EndSeq   int64
	Done     bool
	Item     *security.SecretItem
	Err      error
	Panic    string
	BundleV0 int // bundle version when the call was issued
	checked  bool
}

type worldCfg struct {
	Ratio   float64       `json:"ratio"`
	Jitter  float64       `json:"jitter"`
	TTL     time.Duration `json:"secret_ttl"`
	KeyType string        `json:"key"` // p256 | p384 | rsa2048
	PKCS8   bool          `json:"pkcs8"`
	FileDir string        `json:"file_dir,omitempty"` // files stratum: cert.pem/key.pem/root.pem live here
	// OutputCerts: the agent also writes what it issues to this directory (OUTPUT_CERTS). The values used name the
	// well-known certificate directory ./etc/certs of the working directory under different spellings; the agent must
	// never take its own output for file-mounted certificates (it would never rotate again).
	OutputCerts string `json:"output_certs,omitempty"`
}

type world struct {
	c   *vh.Ctx
	cfg worldCfg
	sm  *cache.SecretManagerClient
	ca  *fakeCA
	q   *vqueue
	seq atomic.Int64

	evCh chan struct{}

	mu       sync.Mutex
	calls    []*callRec
	returned int
	notifs   []notifyEv
	log      []string

	// bundle history: bundles[v] is the configured trust bundle of version v
	bundles [][]int

	nviol  atomic.Int32 // violations reported in this world
	stop   bool         // observation and model no longer comparable: stop driving this world
	closed bool
}

const watchdog = 60 * time.Second

func newWorld(c *vh.Ctx, cfg worldCfg, script []caBeh, dflt caBeh) *world {
	quietLogs()
	if getPool(); poolErr != nil {
		vh.Abort("root pool: %v", poolErr)
	}
	w := &world{c: c, cfg: cfg, evCh: make(chan struct{}, 1), bundles: [][]int{nil}}
	w.ca = newFakeCA(&w.seq, script, dflt, w.signal)
	w.q = newVQueue(&w.seq)
	opts := &security.Options{
		TrustDomain:                          "cluster.local",
		WorkloadNamespace:                    "ns1",
		ServiceAccount:                       "sa1",
		SecretTTL:                            cfg.TTL,
		SecretRotationGracePeriodRatio:       cfg.Ratio,
		SecretRotationGracePeriodRatioJitter: cfg.Jitter,
		Pkcs8Keys:                            cfg.PKCS8,
	}
	if cfg.OutputCerts != "" {
		// as pilot-agent configures it: the well-known file locations are always set, OUTPUT_CERTS on top
		opts.OutputKeyCertToDir = cfg.OutputCerts
		opts.CertChainFilePath = security.DefaultCertChainFilePath
		opts.KeyFilePath = security.DefaultKeyFilePath
		opts.RootCertFilePath = security.DefaultRootCertFilePath
	}
	if cfg.FileDir != "" {
		opts.CertChainFilePath = filepath.Join(cfg.FileDir, "cert.pem")
		opts.KeyFilePath = filepath.Join(cfg.FileDir, "key.pem")
		opts.RootCertFilePath = filepath.Join(cfg.FileDir, "root.pem")
		opts.FileDebounceDuration = 5 * time.Millisecond
	}
	switch cfg.KeyType {
	case "rsa2048":
		opts.WorkloadRSAKeySize = 2048
	case "p384":
		opts.ECCSigAlg, opts.ECCCurve = "ECDSA", "P384"
	default:
		opts.ECCSigAlg, opts.ECCCurve = "ECDSA", "P256"
	}
	sm, err := cache.NewSecretManagerClient(w.ca, opts)
	if err != nil {
		vh.Abort("NewSecretManagerClient: %v", err)
	}
	sm.SetDelayedQueueForVerif(w.q)
	sm.RegisterSecretHandler(func(res string) {
		s := w.seq.Add(1)
		w.mu.Lock()
		w.notifs = append(w.notifs, notifyEv{Seq: s, Res: res})
		w.mu.Unlock()
	})
	w.sm = sm
	return w
}

func (w *world) signal() {
	select {
	case w.evCh <- struct{}{}:
	default:
	}
}

func (w *world) logf(format string, args ...any) {
	w.mu.Lock()
	if len(w.log) < 300 {
		w.log = append(w.log, fmt.Sprintf(format, args...))
	}
	w.mu.Unlock()
}

func (w *world) history() []string {
	w.mu.Lock()
	defer w.mu.Unlock()
	return append([]string(nil), w.log...)
}

// close releases everything still blocked and shuts the manager down.
func (w *world) close() {
	if w.closed {
		return
	}
	w.closed = true
	w.ca.freeRun()
	deadline := time.Now().Add(watchdog)
	for {
		w.mu.Lock()
		done := w.returned == len(w.calls)
		w.mu.Unlock()
		if done {
			break
		}
		if time.Now().After(deadline) {
			w.c.Inconclusive("cleanup: outstanding GenerateSecret calls never returned")
			break
		}
		w.ca.releaseAll()
		select {
		case <-w.evCh:
		case <-time.After(50 * time.Millisecond):
		}
	}
	w.sm.Close()
}

// violation reports a refuting observation; the case goes on (the model is still in step).
func (w *world) violation(key, msg string, extra map[string]any) {
	w.nviol.Add(1)
	p := map[string]any{"cfg": w.cfg, "script": w.ca.script, "history": w.history()}
	for k, v := range extra {
		p[k] = v
	}
	w.c.Violation(key, msg, p)
}

// desync reports a violation after which the model cannot follow the observation any more.
func (w *world) desync(key, msg string, extra map[string]any) {
	w.violation(key, msg, extra)
	w.stop = true
}

// ---------------------------------------------------------------------------------------
// driving

// startCall issues GenerateSecret(res) on a new goroutine. start, when non-nil, is a barrier
// the goroutine waits on first (bursts).
func (w *world) startCall(res string, start <-chan struct{}) *callRec {
	w.mu.Lock()
	cr := &callRec{ID: len(w.calls), Res: res, BundleV0: len(w.bundles) - 1}
	w.calls = append(w.calls, cr)
	w.mu.Unlock()
	ready := make(chan struct{})
	go func() {
		g := curGID()
		w.mu.Lock()
		cr.GID = g
		cr.StartSeq = w.seq.Add(1)
		w.mu.Unlock()
		close(ready)
		if start != nil {
			<-start
		}
		var item *security.SecretItem
		var err error
		var pan string
		func() {
			defer func() {
				if r := recover(); r != nil {
					pan = fmt.Sprint(r)
				}
			}()
			item, err = w.sm.GenerateSecret(res)
		}()
		w.mu.Lock()
		cr.Item, cr.Err, cr.Panic = item, err, pan
		cr.Done = true
		cr.EndSeq = w.seq.Add(1)
		w.returned++
		w.mu.Unlock()
		w.signal()
	}()
	<-ready
	return cr
}

// settle waits until nothing more can happen without the harness acting:
//
//	(a) every issued call has returned, or
//	(b) a CA call is parked at its gate and every call whose CSRSign has already exited has
//	    returned (the rest are necessarily waiting behind the parked one).
//
// Both are conditions over recorded events; the watchdog only turns a hang into
// "inconclusive". ret0/exit0 are the returned/exited counts when the operation began.
func (w *world) settle(ret0, exit0 int) {
	deadline := time.NewTimer(watchdog)
	defer deadline.Stop()
	for {
		s := w.ca.snap()
		w.mu.Lock()
		ret, issued := w.returned, len(w.calls)
		w.mu.Unlock()
		if ret == issued {
			return
		}
		if s.parked > 0 && ret-ret0 >= s.exited-exit0 {
			return
		}
		select {
		case <-w.evCh:
		case <-time.After(20 * time.Millisecond):
		case <-deadline.C:
			vh.Abort("settle watchdog: returned=%d issued=%d parked=%d", ret, issued, s.parked)
		}
	}
}

func (w *world) counts() (returned, exited int) {
	s := w.ca.snap()
	w.mu.Lock()
	defer w.mu.Unlock()
	return w.returned, s.exited
}

// notifsSince returns the notifications with Seq > seq, by resource.
func (w *world) notifsSince(seq int64) (wl, root int) {
	w.mu.Lock()
	defer w.mu.Unlock()
	for _, n := range w.notifs {
		if n.Seq > seq {
			switch n.Res {
			case resWorkload:
				wl++
			case resRoot:
				root++
			}
		}
	}
	return
}

func (w *world) otherNotifsSince(seq int64) []string {
	w.mu.Lock()
	defer w.mu.Unlock()
	var o []string
	for _, n := range w.notifs {
		if n.Seq > seq && n.Res != resWorkload && n.Res != resRoot {
			o = append(o, n.Res)
		}
	}
	return o
}

// ---------------------------------------------------------------------------------------
// oracles over single observations (shared by all strata)

// checkPair: a returned item that carries a private key must carry the matching leaf.
// It returns the fingerprint of the leaf ("" if the item has no key/cert).
func (w *world) checkPair(cr *callRec) string {
	it := cr.Item
	if it == nil {
		return ""
	}
	if len(it.PrivateKey) == 0 && len(it.CertificateChain) == 0 {
		if cr.Res == resWorkload {
			w.violation("workload-item-empty", "GenerateSecret(default) returned an item without key and certificate", nil)
		}
		return ""
	}
	if len(it.PrivateKey) == 0 || len(it.CertificateChain) == 0 {
		w.violation("pair-incomplete res="+cr.Res, fmt.Sprintf("item has key=%dB chain=%dB", len(it.PrivateKey), len(it.CertificateChain)), nil)
		return ""
	}
	leaf, err := leafOf(it.CertificateChain)
	if err != nil {
		w.violation("returned-chain-unparseable res="+cr.Res, err.Error(), nil)
		return ""
	}
	pub, kind, err := parsePrivateKeyPEM(it.PrivateKey)
	if err != nil {
		w.violation("returned-key-unparseable res="+cr.Res, err.Error(), nil)
		return ""
	}
	w.c.SetAdd("key_encodings", kind)
	w.c.Count("pairs_checked", 1)
	if !pubEqual(leaf.PublicKey, pub) {
		w.violation("pair-mismatch res="+cr.Res,
			fmt.Sprintf("call %d: public key of leaf %s differs from public key of the returned private key", cr.ID, fpOf(leaf.Raw)), nil)
	}
	return fpOf(leaf.Raw)
}

// checkRootItem: a ROOTCA item must contain the given CA roots and the configured bundle.
// alts lists the admissible (roots, bundle) combinations (one in the controlled strata).
func (w *world) checkRootItem(cr *callRec, alts [][2][]int) {
	it := cr.Item
	got, bad := certFPs(it.RootCert)
	if bad {
		w.violation("root-item-garbage", "ROOTCA item contains non-certificate PEM data", nil)
		return
	}
	w.c.Count("root_items_checked", 1)
	w.c.Max("root_item_certs", len(got))
	if len(alts) == 0 {
		w.violation("root-item-without-signing", fmt.Sprintf("call %d: ROOTCA answered although no successful signing can have been current", cr.ID), nil)
		return
	}
	var firstMissing string
	for _, alt := range alts {
		missing := ""
		for _, i := range alt[0] {
			if !got[getPool()[i].fp] {
				missing = fmt.Sprintf("ca-root (pool %d)", i)
			}
		}
		if missing == "" {
			for _, i := range alt[1] {
				if !got[getPool()[i].fp] {
					missing = fmt.Sprintf("config-bundle (pool %d)", i)
				}
			}
		}
		if missing == "" {
			return
		}
		if firstMissing == "" {
			firstMissing = missing
		}
	}
	kind := strings.SplitN(firstMissing, " ", 2)[0]
	w.violation("root-missing what="+kind,
		fmt.Sprintf("call %d: ROOTCA item lacks %s; admissible (ca roots, bundle) = %v; item has %d certs", cr.ID, firstMissing, alts, len(got)), nil)
}

// checkDelay: the renewal of attempt a scheduled as task t.
//
//	d <= max(0, NotAfter - t0)                                     always
//	d <= max(0, NotAfter - t0 - (ratio-jitter)*(NotAfter - t2))    when ratio > jitter
//
// t0 is read by the CA before it creates the certificate, t2 by the queue when the task
// arrives: lifetime as the agent sees it is >= NotAfter - t2 and its clock reading is >= t0,
// so a slow machine can only make d smaller relative to the bound.
func (w *world) checkDelay(a *attempt, t *vtask) {
	w.c.Count("rotation_delays_checked", 1)
	// A wall-clock step between t0 and t2 would invalidate the arithmetic (NotAfter has no
	// monotonic reading): detect it by comparing wall and monotonic differences.
	mono := t.T2.Sub(a.T0)
	wall := t.T2.Round(0).Sub(a.T0.Round(0))
	if d := mono - wall; d > time.Millisecond || d < -time.Millisecond {
		w.c.Inconclusive("wall clock stepped during a signing; delay bound not evaluated")
		return
	}
	untilExp := a.NotAfter.Sub(a.T0.Round(0))
	bound := untilExp
	if bound < 0 {
		bound = 0
	}
	if t.Delay < 0 {
		w.violation("rotation-delay-negative", fmt.Sprintf("PushDelayed delay %v", t.Delay), nil)
		return
	}
	const eps = time.Microsecond
	if t.Delay > bound+eps {
		w.violation("rotation-after-expiry",
			fmt.Sprintf("attempt %d: renewal scheduled in %v but certificate expires in %v (lifetime %v)", a.Idx, t.Delay, untilExp, a.Beh.Lifetime), nil)
		return
	}
	if w.cfg.Ratio > w.cfg.Jitter {
		life2 := a.NotAfter.Sub(t.T2.Round(0))
		if life2 > 0 {
			margin := time.Duration((w.cfg.Ratio - w.cfg.Jitter) * float64(life2))
			b2 := untilExp - margin
			if b2 < 0 {
				b2 = 0
			}
			w.c.Count("rotation_delays_strict", 1)
			if t.Delay > b2+eps || (margin > 0 && t.Delay >= untilExp) {
				w.violation("rotation-not-before-expiry-by-grace",
					fmt.Sprintf("attempt %d: ratio=%v jitter=%v: renewal in %v, expiry in %v, required margin %v", a.Idx, w.cfg.Ratio, w.cfg.Jitter, t.Delay, untilExp, margin), nil)
			}
		}
	}
}

func idxKey(v []int) string {
	c := append([]int(nil), v...)
	sort.Ints(c)
	return fmt.Sprint(c)
}

func sameSet(a, b []int) bool { return idxKey(a) == idxKey(b) }
