package main

// Stratum "stress": free-running goroutines (requests for both resources, timer firings,
// trust-bundle updates, CA answering without gates). Nothing about the interleaving is
// controlled here, so only schedule-independent facts are judged, at quiescence:
//
//   - every returned pair matches and is a certificate the CA really issued in an attempt
//     that succeeded; every request made at most one signing request; CSRSign calls never
//     overlapped; errors returned == failed attempts;
//   - successful signings == renewals scheduled, each within its bound;
//   - successful signings <= 1 + OnSecretUpdate(default) notifications (a pair is only ever
//     dropped by a renewal firing or a bundle change, both of which notify);
//   - ROOTCA items contain the roots of a signing that can have been current during the call
//     and a bundle that can have been configured during it;
//   - closing sequential probes: known bundle => re-sign, same pair twice, roots complete.
//
// The race detector watches the whole thing (anchored races are violations).

import (
	"fmt"
	"math/rand"
	"runtime"
	"sync"
	"sync/atomic"
	"time"

	"verifharness/internal/vh"
)

type bundleUpd struct {
	B        []int
	SeqStart int64
	SeqEnd   int64
}

func runStress(c *vh.Ctx) {
	n := c.N(40, 1200)
	for i := 0; i < n; i++ {
		if !c.Mine(i) {
			continue
		}
		c.Case(fmt.Sprintf("stress-%d", i), func() {
			r := c.Rng("stress", i)
			cfg := genCfg(r, false)
			script := genScript(r, 40)
			for k := range script {
				script[k].Park = false
			}
			dflt := caBeh{Kind: kOK, Lifetime: time.Hour, Roots: []int{0, 1}}
			w := newWorld(c, cfg, script, dflt)
			defer w.close()

			G := 3 + r.Intn(6)
			M := 10 + r.Intn(25)
			var inCalls, maxInCalls atomic.Int64
			var umu sync.Mutex
			updates := []bundleUpd{{B: nil, SeqStart: 0, SeqEnd: 0}}
			start := make(chan struct{})
			var wg sync.WaitGroup
			var fires, firePanics atomic.Int64
			for g := 0; g < G; g++ {
				gr := rand.New(rand.NewSource(r.Int63()))
				wg.Add(1)
				go func() {
					defer wg.Done()
					<-start
					for k := 0; k < M; k++ {
						switch x := gr.Intn(100); {
						case x < 60:
							res := pickRes(gr)
							cur := inCalls.Add(1)
							for {
								old := maxInCalls.Load()
								if cur <= old || maxInCalls.CompareAndSwap(old, cur) {
									break
								}
							}
							// synchronous on this goroutine: reuse startCall's recording
							// by calling through a one-shot helper
							w.syncCall(res)
							inCalls.Add(-1)
						case x < 80:
							if nt := w.q.len(); nt > 0 {
								t := w.q.at(gr.Intn(nt))
								func() {
									defer func() {
										if recover() != nil {
											firePanics.Add(1)
										}
									}()
									_ = t.Task()
								}()
								fires.Add(1)
							}
						case x < 90:
							b := genBundle(gr)
							s0 := w.seq.Add(1)
							_ = w.sm.UpdateConfigTrustBundle(bundlePEM(b))
							s1 := w.seq.Add(1)
							umu.Lock()
							updates = append(updates, bundleUpd{B: b, SeqStart: s0, SeqEnd: s1})
							umu.Unlock()
						default:
							runtime.Gosched()
						}
					}
				}()
			}
			close(start)
			done := make(chan struct{})
			go func() { wg.Wait(); close(done) }()
			select {
			case <-done:
			case <-time.After(2 * watchdog):
				vh.Abort("stress goroutines did not finish")
			}
			if firePanics.Load() > 0 {
				c.Inconclusive("a renewal task panicked")
				return
			}

			// ---- quiescent: judge
			atts := w.ca.allAttempts()
			s := w.ca.snap()
			byFP := map[string]*attempt{}
			var succ []*attempt
			failed := 0
			perGID := map[int64]int{}
			for _, a := range atts {
				perGID[a.GID]++
				if a.success() {
					succ = append(succ, a)
					byFP[a.LeafFP] = a
				} else {
					failed++
				}
			}
			if s.maxInFlight > 1 {
				w.violation("concurrent-csrsign", fmt.Sprintf("CA saw %d CSRSign calls in flight at once", s.maxInFlight), nil)
			}
			w.mu.Lock()
			calls := append([]*callRec(nil), w.calls...)
			w.mu.Unlock()
			errReturns := 0
			callsPerGID := map[int64]int{}
			for _, cr := range calls {
				callsPerGID[cr.GID]++
			}
			for _, cr := range calls {
				if cr.Panic != "" {
					c.Inconclusive("GenerateSecret panicked: " + cr.Panic)
					return
				}
				c.Count("generate_calls_returned", 1)
				if cr.Err != nil {
					errReturns++
					c.Count("generate_calls_failed", 1)
					continue
				}
				if cr.Item == nil {
					w.violation("nil-item-without-error", "GenerateSecret returned (nil, nil)", nil)
					continue
				}
				if fp := w.checkPair(cr); fp != "" {
					if byFP[fp] == nil {
						w.violation("served-cert-not-from-successful-attempt",
							fmt.Sprintf("call %d got leaf %s which no successful signing attempt produced", cr.ID, fp), nil)
					}
				}
				if cr.Res == resRoot {
					// admissible signings: the last one started before the call began, the one
					// before it, and every later one started before the call ended
					last := -1
					for k, a := range succ {
						if a.StartSeq < cr.StartSeq {
							last = k
						}
					}
					var alts [][2][]int
					umu.Lock()
					for k, a := range succ {
						if k < last-1 || a.StartSeq > cr.EndSeq {
							continue
						}
						for _, u := range updates {
							if u.SeqStart < cr.EndSeq {
								alts = append(alts, [2][]int{a.Beh.effRoots(), u.B})
							}
						}
					}
					umu.Unlock()
					w.checkRootItem(cr, alts)
				}
			}
			// every signing attempt belongs to exactly one request goroutine op; a request makes
			// at most one: attempts <= requests, and errors returned == failed attempts
			for g, na := range perGID {
				if na > callsPerGID[g] {
					w.violation("request-signed-more-than-once", fmt.Sprintf("a goroutine made %d requests but %d CSRSign calls", callsPerGID[g], na), nil)
				}
			}
			if errReturns != failed {
				k := "failure-not-reported"
				if errReturns > failed {
					k = "error-without-failed-signing"
				}
				w.violation(k, fmt.Sprintf("%d calls returned an error, %d signing attempts failed", errReturns, failed), nil)
			}
			nt := w.q.len()
			if nt != len(succ) {
				k := "rotation-not-scheduled"
				if nt > len(succ) {
					k = "rotation-scheduled-more-than-once"
				}
				w.violation(k, fmt.Sprintf("%d certificates issued to the agent, %d PushDelayed", len(succ), nt), nil)
			} else {
				for k, a := range succ {
					w.checkDelay(a, w.q.at(k))
				}
			}
			wlN, rootN := w.notifsSince(0)
			if len(succ) > 1+wlN {
				w.violation("extra-signing state=unexplained",
					fmt.Sprintf("%d successful signings but only %d OnSecretUpdate(default): a valid cached pair was re-signed", len(succ), wlN), nil)
			}
			c.Count("stress_root_notifications", rootN)
			c.Count("stress_fires", int(fires.Load()))

			// ---- closing sequential probes on the same world
			ex := newExecutor(w)
			// re-base the model on the observed quiescent state: adopt nothing but the counters
			ex.m.caIdx = len(atts)
			ex.m.expReturned = len(calls)
			ex.m.expErr = errReturns
			ex.errReturns = errReturns
			for _, a := range succ {
				ex.m.successes = append(ex.m.successes, a.Idx)
			}
			ex.tasksSeen = nt
			w.mu.Lock()
			for _, cr := range w.calls {
				cr.checked = true
			}
			w.mu.Unlock()
			if w.nviol.Load() == 0 {
				// a bundle that differs from every one used so far forces a known state
				probe := []int{4, 5, 0}
				ex.m.bundle = []int{-1}
				ex.bundle(probe)
				ex.m.cached, ex.m.nilReason = -1, "bundle"
				// (no previous signing is given to the model: which request triggered the
				// signings of the free-running phase is not attributable)
				ex.call(resWorkload)
				if !w.stop {
					ex.call(resWorkload, resRoot, resWorkload)
				}
				ex.finish()
			}

			c.Count("stress_cases", 1)
			c.Max("stress_concurrent_generate_calls", int(maxInCalls.Load()))
			if maxInCalls.Load() >= 2 && len(atts) >= 2 {
				c.Nontrivial(vh.Hash("stress", i, cfg, script))
			}
			if i%50 == 0 {
				c.Sample(map[string]any{"stratum": "stress", "goroutines": G, "ops_each": M, "csrsign_calls": len(atts),
					"successful": len(succ), "max_concurrent_generate": maxInCalls.Load(), "default_notifications": wlN})
			}
		})
	}
}

// syncCall runs GenerateSecret on the calling goroutine with the same recording as startCall.
func (w *world) syncCall(res string) *callRec {
	g := curGID()
	w.mu.Lock()
	cr := &callRec{ID: len(w.calls), Res: res, BundleV0: len(w.bundles) - 1, GID: g, StartSeq: w.seq.Add(1)}
	w.calls = append(w.calls, cr)
	w.mu.Unlock()
	func() {
		defer func() {
			if r := recover(); r != nil {
				cr.Panic = fmt.Sprint(r)
			}
		}()
		cr.Item, cr.Err = w.sm.GenerateSecret(res)
	}()
	w.mu.Lock()
	cr.Done = true
	cr.EndSeq = w.seq.Add(1)
	w.returned++
	w.mu.Unlock()
	return cr
}
