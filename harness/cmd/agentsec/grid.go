package main

// Stratum "grid": the rotation-delay computation itself (hook H3 accessor) swept over
// lifetime x ratio x jitter, many jitter draws per cell.
//
//	result in [0, lifetime]                                        always
//	result <= lifetime - (ratio - jitter) * lifetime               when ratio > jitter
//	result <  lifetime                                             when that margin is > 0
//
// CreatedTime is read before the calls and carries a monotonic reading, so time passing can
// only make the result smaller: the bounds are one-sided and load-insensitive. The jitter
// draws come from the runtime's global generator inside the function under test; the bounds
// hold for every draw, so the verdict does not depend on them.

import (
	"fmt"
	"time"

	"istio.io/istio/pkg/security"
	"istio.io/istio/security/pkg/nodeagent/cache"

	"verifharness/internal/vh"
)

var gridLifetimes = []time.Duration{
	0, time.Second, 30 * time.Second, time.Minute, time.Hour, 24 * time.Hour, 90 * 24 * time.Hour,
}

type gridCell struct {
	Life   time.Duration
	Ratio  float64
	Jitter float64
}

func runGrid(c *vh.Ctx) {
	var cells []gridCell
	for _, l := range gridLifetimes {
		for _, ra := range ratioGrid {
			for _, ji := range jitterGrid {
				cells = append(cells, gridCell{l, ra, ji})
			}
		}
	}
	sampled := false
	nGrid := len(cells)
	nRand := c.N(150, 3000)
	draws := c.N(1000, 10000)
	for i := 0; i < nGrid+nRand; i++ {
		if !c.Mine(i) {
			continue
		}
		var cell gridCell
		if i < nGrid {
			cell = cells[i]
		} else {
			r := c.Rng("grid", i)
			cell = gridCell{Life: time.Duration(r.Int63n(int64(48 * time.Hour))), Ratio: r.Float64(), Jitter: r.Float64()}
			if r.Intn(4) == 0 { // near-equal ratio and jitter: the boundary of the strict clause
				cell.Jitter = cell.Ratio + (r.Float64()-0.5)*1e-6
				if cell.Jitter < 0 {
					cell.Jitter = 0
				}
				if cell.Jitter > 1 {
					cell.Jitter = 1
				}
			}
		}
		c.Case(fmt.Sprintf("grid-%d-life=%v-ratio=%v-jitter=%v", i, cell.Life, cell.Ratio, cell.Jitter), func() {
			now := time.Now()
			item := security.SecretItem{CreatedTime: now, ExpireTime: now.Add(cell.Life), ResourceName: resWorkload}
			strict := cell.Ratio > cell.Jitter
			upper := cell.Life
			var margin time.Duration
			if strict {
				margin = time.Duration((cell.Ratio - cell.Jitter) * float64(cell.Life))
				upper = cell.Life - margin
			}
			const eps = time.Microsecond
			minV, maxV := time.Duration(1<<62), time.Duration(-1<<62)
			for d := 0; d < draws; d++ {
				v := cache.RotateTimeForVerif(item, cell.Ratio, cell.Jitter)
				if v < minV {
					minV = v
				}
				if v > maxV {
					maxV = v
				}
				if v < 0 {
					c.Violation("rotateTime-negative", fmt.Sprintf("cell %+v: %v", cell, v), cell)
					break
				}
				if v > cell.Life {
					c.Violation("rotateTime-after-expiry", fmt.Sprintf("cell %+v: renewal in %v, lifetime %v", cell, v, cell.Life), cell)
					break
				}
				if strict && (v > upper+eps || (margin > 0 && v >= cell.Life)) {
					c.Violation("rotateTime-ignores-grace",
						fmt.Sprintf("cell %+v: renewal in %v, must be at most lifetime*(1-(ratio-jitter)) = %v", cell, v, upper), cell)
					break
				}
			}
			c.Count("grid_cells", 1)
			c.Count("rotate_time_draws", draws)
			if strict {
				c.Count("grid_cells_strict", 1)
			}
			if cell.Life > 0 {
				// where in the lifetime the renewals fell, in percent, as observed
				c.SetAdd("grid_observed_span_pct", fmt.Sprintf("%3.0f-%3.0f", 100*float64(minV)/float64(cell.Life), 100*float64(maxV)/float64(cell.Life)))
				c.Nontrivial(vh.Hash("grid", cell))
			}
			if !sampled && strict && cell.Life > 0 && cell.Jitter > 0 {
				sampled = true
				c.Sample(map[string]any{"stratum": "grid", "cell": cell, "draws": draws, "min": minV.String(), "max": maxV.String(), "upper_bound": upper.String()})
			}
		})
	}
}
