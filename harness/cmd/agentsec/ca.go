package main

// Harness certificate authority and the recording, scripted fake security.Client.
//
// The fake really signs the CSR it receives (public key taken from the CSR, signature of the
// CSR verified), so "key and certificate belong together" is a fact about real keys, not
// about labels. Everything it does is recorded with a logical sequence number.

import (
	"crypto"
	"crypto/ecdsa"
	"crypto/elliptic"
	"crypto/rand"
	"crypto/rsa"
	"crypto/sha256"
	"crypto/x509"
	"crypto/x509/pkix"
	"encoding/hex"
	"encoding/pem"
	"errors"
	"fmt"
	"math/big"
	"runtime"
	"strconv"
	"strings"
	"sync"
	"sync/atomic"
	"time"
)

// ---------------------------------------------------------------------------------------
// root pool

type poolRoot struct {
	key     *ecdsa.PrivateKey
	cert    *x509.Certificate
	pem     string
	fp      string // sha256 of DER
	intKey  *ecdsa.PrivateKey
	intCert *x509.Certificate
	intPEM  string
}

// nPoolRoots: indexes 0..3 are used by the CA, 4..5 only by configured trust bundles.
const nPoolRoots = 6

var (
	poolOnce sync.Once
	pool     []*poolRoot
	poolErr  error
)

func fpOf(der []byte) string {
	s := sha256.Sum256(der)
	return hex.EncodeToString(s[:8])
}

func getPool() []*poolRoot {
	poolOnce.Do(func() {
		for i := 0; i < nPoolRoots; i++ {
			k, err := ecdsa.GenerateKey(elliptic.P256(), rand.Reader)
			if err != nil {
				poolErr = err
				return
			}
			tmpl := &x509.Certificate{
				SerialNumber:          big.NewInt(int64(1000 + i)),
				Subject:               pkix.Name{Organization: []string{"verif-harness"}, CommonName: fmt.Sprintf("harness-root-%d", i)},
				NotBefore:             time.Now().Add(-time.Hour),
				NotAfter:              time.Now().Add(10 * 365 * 24 * time.Hour),
				IsCA:                  true,
				BasicConstraintsValid: true,
				KeyUsage:              x509.KeyUsageCertSign | x509.KeyUsageDigitalSignature,
			}
			der, err := x509.CreateCertificate(rand.Reader, tmpl, tmpl, &k.PublicKey, k)
			if err != nil {
				poolErr = err
				return
			}
			cert, _ := x509.ParseCertificate(der)
			ik, err := ecdsa.GenerateKey(elliptic.P256(), rand.Reader)
			if err != nil {
				poolErr = err
				return
			}
			itmpl := &x509.Certificate{
				SerialNumber:          big.NewInt(int64(2000 + i)),
				Subject:               pkix.Name{Organization: []string{"verif-harness"}, CommonName: fmt.Sprintf("harness-intermediate-%d", i)},
				NotBefore:             time.Now().Add(-time.Hour),
				NotAfter:              time.Now().Add(5 * 365 * 24 * time.Hour),
				IsCA:                  true,
				BasicConstraintsValid: true,
				KeyUsage:              x509.KeyUsageCertSign | x509.KeyUsageDigitalSignature,
			}
			ider, err := x509.CreateCertificate(rand.Reader, itmpl, cert, &ik.PublicKey, k)
			if err != nil {
				poolErr = err
				return
			}
			icert, _ := x509.ParseCertificate(ider)
			pool = append(pool, &poolRoot{
				key: k, cert: cert, fp: fpOf(der),
				pem:    string(pem.EncodeToMemory(&pem.Block{Type: "CERTIFICATE", Bytes: der})),
				intKey: ik, intCert: icert,
				intPEM: string(pem.EncodeToMemory(&pem.Block{Type: "CERTIFICATE", Bytes: ider})),
			})
		}
	})
	return pool
}

// bundlePEM renders root indexes as one PEM blob (the form UpdateConfigTrustBundle takes).
func bundlePEM(idx []int) []byte {
	if len(idx) == 0 {
		return nil
	}
	var sb strings.Builder
	for _, i := range idx {
		sb.WriteString(getPool()[i].pem)
	}
	return []byte(sb.String())
}

// certFPs parses a PEM blob into the set of certificate fingerprints; bad reports garbage.
func certFPs(b []byte) (set map[string]bool, bad bool) {
	set = map[string]bool{}
	rest := b
	for {
		var blk *pem.Block
		blk, rest = pem.Decode(rest)
		if blk == nil {
			break
		}
		if blk.Type != "CERTIFICATE" {
			bad = true
			continue
		}
		if _, err := x509.ParseCertificate(blk.Bytes); err != nil {
			bad = true
			continue
		}
		set[fpOf(blk.Bytes)] = true
	}
	return set, bad
}

// ---------------------------------------------------------------------------------------
// scripted behaviour

const (
	kOK       = "ok"
	kErrSign  = "errSign"  // CSRSign returns an error
	kErrRoots = "errRoots" // CSRSign succeeds, GetRootCertBundle returns an error
)

// caBeh is the scripted behaviour of one CSRSign call (and of the GetRootCertBundle call that
// follows it).
type caBeh struct {
	Kind     string        `json:"kind"`
	Park     bool          `json:"park,omitempty"`  // block on a gate before answering
	Lifetime time.Duration `json:"lifetime"`        // NotAfter - now, chosen by the CA
	Roots    []int         `json:"roots"`           // the CA's current roots; Roots[0] signs
	ViaChain bool          `json:"via_chain"`       // GetRootCertBundle returns nothing; root only inferable from the chain
	UseInter bool          `json:"inter,omitempty"` // leaf signed by an intermediate
}

func (b caBeh) ok() bool { return b.Kind == kOK }

// effRoots is what the agent can know of the CA's current roots from this answer.
func (b caBeh) effRoots() []int {
	if b.ViaChain {
		return b.Roots[:1]
	}
	return b.Roots
}

func (b caBeh) String() string {
	s := b.Kind
	if b.Park {
		s = "delay+" + s
	}
	return fmt.Sprintf("%s/life=%v/roots=%v/chain=%v/int=%v", s, b.Lifetime, b.Roots, b.ViaChain, b.UseInter)
}

// attempt is the record of one CSRSign call.
type attempt struct {
	Idx        int
	Beh        caBeh
	GID        int64 // goroutine that called CSRSign
	TTLReq     int64
	StartSeq   int64
	EndSeq     int64
	Exited     bool
	CSRKey     crypto.PublicKey
	LeafDER    []byte
	LeafFP     string
	ChainPEM   []string
	NotAfter   time.Time
	T0         time.Time // read immediately before the certificate was created
	Issued     bool      // a certificate was produced by CSRSign
	RootsAsked bool      // GetRootCertBundle was called after it
}

// success: the whole signing attempt succeeded from the agent's point of view.
func (a *attempt) success() bool { return a.Beh.ok() && a.Issued }

type fakeCA struct {
	seq    *atomic.Int64
	notify func()

	mu          sync.Mutex
	script      []caBeh
	dflt        caBeh
	noPark      bool // cleanup mode: never park again
	attempts    []*attempt
	inFlight    int
	maxInFlight int
	parked      map[int]chan struct{}
	exited      int
	last        *attempt // most recent CSRSign that returned a certificate
	rootCalls   int
	closed      int
	serial      int64
	csrProblems []string
}

func newFakeCA(seq *atomic.Int64, script []caBeh, dflt caBeh, notify func()) *fakeCA {
	return &fakeCA{seq: seq, script: script, dflt: dflt, notify: notify, parked: map[int]chan struct{}{}}
}

func curGID() int64 {
	var buf [64]byte
	n := runtime.Stack(buf[:], false)
	s := strings.TrimPrefix(string(buf[:n]), "goroutine ")
	if i := strings.IndexByte(s, ' '); i > 0 {
		if id, err := strconv.ParseInt(s[:i], 10, 64); err == nil {
			return id
		}
	}
	return -1
}

func (ca *fakeCA) behAt(i int) caBeh {
	if i < len(ca.script) {
		return ca.script[i]
	}
	return ca.dflt
}

// CSRSign implements security.Client.
func (ca *fakeCA) CSRSign(csrPEM []byte, ttl int64) ([]string, error) {
	g := curGID()
	ca.mu.Lock()
	a := &attempt{Idx: len(ca.attempts), GID: g, TTLReq: ttl, StartSeq: ca.seq.Add(1)}
	a.Beh = ca.behAt(a.Idx)
	ca.attempts = append(ca.attempts, a)
	ca.inFlight++
	if ca.inFlight > ca.maxInFlight {
		ca.maxInFlight = ca.inFlight
	}
	var gate chan struct{}
	if a.Beh.Park && !ca.noPark {
		gate = make(chan struct{})
		ca.parked[a.Idx] = gate
	}
	ca.mu.Unlock()
	if gate != nil {
		ca.notify()
		<-gate
	}

	var chain []string
	var err error
	if a.Beh.Kind == kErrSign {
		err = errors.New("harness CA: scripted signing failure")
	} else {
		chain, err = ca.sign(a, csrPEM)
	}

	ca.mu.Lock()
	ca.inFlight--
	a.Exited = true
	a.EndSeq = ca.seq.Add(1)
	ca.exited++
	if err == nil {
		ca.last = a
	}
	ca.mu.Unlock()
	ca.notify()
	return chain, err
}

func (ca *fakeCA) sign(a *attempt, csrPEM []byte) ([]string, error) {
	blk, _ := pem.Decode(csrPEM)
	if blk == nil {
		ca.problem("CSR is not PEM")
		return nil, errors.New("harness CA: CSR is not PEM")
	}
	csr, err := x509.ParseCertificateRequest(blk.Bytes)
	if err != nil {
		ca.problem("CSR does not parse: " + err.Error())
		return nil, err
	}
	if err := csr.CheckSignature(); err != nil {
		ca.problem("CSR signature invalid: " + err.Error())
		return nil, err
	}
	root := getPool()[a.Beh.Roots[0]]
	signerCert, signerKey := root.cert, root.key
	if a.Beh.UseInter {
		signerCert, signerKey = root.intCert, root.intKey
	}
	ca.mu.Lock()
	ca.serial++
	serial := ca.serial
	ca.mu.Unlock()

	t0 := time.Now()
	tmpl := &x509.Certificate{
		SerialNumber:          big.NewInt(serial),
		Subject:               pkix.Name{Organization: []string{"verif-harness"}},
		NotBefore:             t0,
		NotAfter:              t0.Add(a.Beh.Lifetime),
		KeyUsage:              x509.KeyUsageDigitalSignature | x509.KeyUsageKeyEncipherment,
		ExtKeyUsage:           []x509.ExtKeyUsage{x509.ExtKeyUsageServerAuth, x509.ExtKeyUsageClientAuth},
		BasicConstraintsValid: true,
	}
	for _, e := range csr.Extensions {
		if e.Id.Equal([]int{2, 5, 29, 17}) { // subjectAltName
			tmpl.ExtraExtensions = append(tmpl.ExtraExtensions, e)
		}
	}
	der, err := x509.CreateCertificate(rand.Reader, tmpl, signerCert, csr.PublicKey, signerKey)
	if err != nil {
		ca.problem("CreateCertificate: " + err.Error())
		return nil, err
	}
	leaf, err := x509.ParseCertificate(der)
	if err != nil {
		ca.problem("own leaf does not parse: " + err.Error())
		return nil, err
	}
	chain := []string{string(pem.EncodeToMemory(&pem.Block{Type: "CERTIFICATE", Bytes: der}))}
	if a.Beh.UseInter {
		chain = append(chain, root.intPEM)
	}
	chain = append(chain, root.pem)

	ca.mu.Lock()
	a.CSRKey = csr.PublicKey
	a.LeafDER = der
	a.LeafFP = fpOf(der)
	a.ChainPEM = chain
	a.NotAfter = leaf.NotAfter // as encoded (whole seconds)
	a.T0 = t0
	a.Issued = true
	ca.mu.Unlock()
	return chain, nil
}

func (ca *fakeCA) problem(s string) {
	ca.mu.Lock()
	ca.csrProblems = append(ca.csrProblems, s)
	ca.mu.Unlock()
}

// GetRootCertBundle implements security.Client. It answers for the most recent signed CSR.
func (ca *fakeCA) GetRootCertBundle() ([]string, error) {
	ca.mu.Lock()
	defer ca.mu.Unlock()
	ca.rootCalls++
	a := ca.last
	if a == nil {
		return nil, nil
	}
	a.RootsAsked = true
	if a.Beh.Kind == kErrRoots {
		return nil, errors.New("harness CA: scripted root bundle failure")
	}
	if a.Beh.ViaChain {
		return nil, nil
	}
	out := make([]string, 0, len(a.Beh.Roots))
	for _, i := range a.Beh.Roots {
		out = append(out, getPool()[i].pem)
	}
	return out, nil
}

// Close implements security.Client.
func (ca *fakeCA) Close() {
	ca.mu.Lock()
	ca.closed++
	ca.mu.Unlock()
}

// ---- harness side

type caSnap struct {
	calls, exited, parked, maxInFlight int
}

func (ca *fakeCA) snap() caSnap {
	ca.mu.Lock()
	defer ca.mu.Unlock()
	return caSnap{calls: len(ca.attempts), exited: ca.exited, parked: len(ca.parked), maxInFlight: ca.maxInFlight}
}

// releaseAll opens the gate of every parked call and returns how many there were.
func (ca *fakeCA) releaseAll() int {
	ca.mu.Lock()
	n := len(ca.parked)
	for i, g := range ca.parked {
		close(g)
		delete(ca.parked, i)
	}
	ca.mu.Unlock()
	return n
}

// freeRun is cleanup mode: nothing parks any more and everything parked is released.
func (ca *fakeCA) freeRun() {
	ca.mu.Lock()
	ca.noPark = true
	ca.mu.Unlock()
	ca.releaseAll()
}

func (ca *fakeCA) attemptAt(i int) *attempt {
	ca.mu.Lock()
	defer ca.mu.Unlock()
	if i < 0 || i >= len(ca.attempts) {
		return nil
	}
	cp := *ca.attempts[i]
	return &cp
}

func (ca *fakeCA) allAttempts() []*attempt {
	ca.mu.Lock()
	defer ca.mu.Unlock()
	out := make([]*attempt, len(ca.attempts))
	for i, a := range ca.attempts {
		cp := *a
		out[i] = &cp
	}
	return out
}

// ---------------------------------------------------------------------------------------
// key / certificate helpers used by the oracle (standard library only)

func parsePrivateKeyPEM(b []byte) (crypto.PublicKey, string, error) {
	blk, _ := pem.Decode(b)
	if blk == nil {
		return nil, "", errors.New("private key is not PEM")
	}
	switch blk.Type {
	case "EC PRIVATE KEY":
		k, err := x509.ParseECPrivateKey(blk.Bytes)
		if err != nil {
			return nil, blk.Type, err
		}
		return &k.PublicKey, "ec-sec1", nil
	case "RSA PRIVATE KEY":
		k, err := x509.ParsePKCS1PrivateKey(blk.Bytes)
		if err != nil {
			return nil, blk.Type, err
		}
		return &k.PublicKey, "rsa-pkcs1", nil
	case "PRIVATE KEY":
		k, err := x509.ParsePKCS8PrivateKey(blk.Bytes)
		if err != nil {
			return nil, blk.Type, err
		}
		switch kk := k.(type) {
		case *ecdsa.PrivateKey:
			return &kk.PublicKey, "ec-pkcs8", nil
		case *rsa.PrivateKey:
			return &kk.PublicKey, "rsa-pkcs8", nil
		}
		return nil, blk.Type, fmt.Errorf("unsupported pkcs8 key %T", k)
	}
	return nil, blk.Type, fmt.Errorf("unexpected PEM type %q", blk.Type)
}

func leafOf(chain []byte) (*x509.Certificate, error) {
	blk, _ := pem.Decode(chain)
	if blk == nil {
		return nil, errors.New("certificate chain is not PEM")
	}
	return x509.ParseCertificate(blk.Bytes)
}

func pubEqual(a, b crypto.PublicKey) bool {
	type eq interface{ Equal(crypto.PublicKey) bool }
	if ae, ok := a.(eq); ok {
		return ae.Equal(b)
	}
	return false
}
