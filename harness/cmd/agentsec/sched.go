package main

// Strata "sched" (PRNG schedules) and "faults" (enumerated CA behaviour sequences), both run
// on the controlled executor.

import (
	"fmt"
	"math/rand"
	"os"
	"path/filepath"
	"strings"
	"time"

	"verifharness/internal/vh"
)

var lifetimes = []time.Duration{
	time.Second, 2 * time.Second, 10 * time.Second, time.Minute, 10 * time.Minute,
	time.Hour, 6 * time.Hour, 24 * time.Hour,
}

var ratioGrid = []float64{0, 0.01, 0.1, 0.25, 0.5, 0.75, 0.9, 0.99, 1}
var jitterGrid = []float64{0, 0.01, 0.1, 0.25, 0.5, 0.75, 1}

func genCfg(r *rand.Rand, allowRSA bool) worldCfg {
	cfg := worldCfg{}
	switch r.Intn(4) {
	case 0:
		cfg.Ratio, cfg.Jitter = r.Float64(), r.Float64()
	case 1: // production defaults
		cfg.Ratio, cfg.Jitter = 0.5, 0.01
	default:
		cfg.Ratio, cfg.Jitter = ratioGrid[r.Intn(len(ratioGrid))], jitterGrid[r.Intn(len(jitterGrid))]
	}
	cfg.TTL = lifetimes[r.Intn(len(lifetimes))]
	switch k := r.Intn(100); {
	case k < 3 && allowRSA:
		cfg.KeyType = "rsa2048"
	case k < 18:
		cfg.KeyType = "p384"
	default:
		cfg.KeyType = "p256"
	}
	cfg.PKCS8 = r.Intn(3) == 0
	if outputCertsSpellings != nil && r.Intn(5) == 0 {
		cfg.OutputCerts = outputCertsSpellings[r.Intn(len(outputCertsSpellings))]
	}
	return cfg
}

// outputCertsSpellings: spellings of <working directory>/etc/certs, set by prepareOutputCerts (nil when the working
// directory could not be prepared: the dimension is then simply not drawn).
var outputCertsSpellings []string

// prepareOutputCerts moves the process into a private working directory that has an (empty) etc/certs directory, the
// place where the agent looks for file-mounted workload certificates by default (./etc/certs/*.pem).
func prepareOutputCerts() (cleanup func()) {
	dir, err := os.MkdirTemp("", "agentsec-cwd-")
	if err != nil {
		return func() {}
	}
	if os.MkdirAll(filepath.Join(dir, "etc", "certs"), 0o755) != nil || os.Chdir(dir) != nil {
		_ = os.RemoveAll(dir)
		return func() {}
	}
	abs := filepath.Join(dir, "etc", "certs")
	outputCertsSpellings = []string{abs, abs + "/", "./etc/certs", "etc/certs", "etc/../etc/certs", filepath.Join(dir, ".", "etc", "certs") + "/."}
	return func() { _ = os.Chdir("/"); _ = os.RemoveAll(dir) }
}

func genRoots(r *rand.Rand) []int {
	n := 1 + r.Intn(3)
	p := r.Perm(4)[:n]
	return append([]int(nil), p...)
}

func genScript(r *rand.Rand, n int) []caBeh {
	cur := genRoots(r)
	out := make([]caBeh, n)
	for i := range out {
		if i > 0 && r.Intn(100) < 35 {
			cur = genRoots(r)
		}
		b := caBeh{Kind: kOK, Roots: cur}
		switch k := r.Intn(100); {
		case k < 20:
			b.Kind = kErrSign
		case k < 28:
			b.Kind = kErrRoots
		}
		b.Park = r.Intn(100) < 40
		if r.Intn(5) == 0 {
			b.Lifetime = time.Second + time.Duration(r.Int63n(int64(24*time.Hour)))
		} else {
			b.Lifetime = lifetimes[r.Intn(len(lifetimes))]
		}
		b.ViaChain = r.Intn(100) < 20
		b.UseInter = r.Intn(100) < 30
		out[i] = b
	}
	return out
}

func genBundle(r *rand.Rand) []int {
	n := r.Intn(3) // 0 => empty bundle
	p := r.Perm(nPoolRoots)[:n]
	return append([]int(nil), p...)
}

func pickRes(r *rand.Rand) string {
	if r.Intn(3) == 0 {
		return resRoot
	}
	return resWorkload
}

// runSched: PRNG interleavings of requests, bursts of concurrent requests, gate releases,
// timer firings (current and stale) and trust-bundle updates.
func runSched(c *vh.Ctx) {
	n := c.N(300, 10000)
	sampled := false
	for i := 0; i < n; i++ {
		if !c.Mine(i) {
			continue
		}
		c.Case(fmt.Sprintf("sched-%d", i), func() {
			r := c.Rng("sched", i)
			cfg := genCfg(r, true)
			script := genScript(r, 6+r.Intn(10))
			dflt := caBeh{Kind: kOK, Lifetime: time.Hour, Roots: script[len(script)-1].Roots}
			w := newWorld(c, cfg, script, dflt)
			defer w.close()
			ex := newExecutor(w)
			nops := 8 + r.Intn(25)
			for k := 0; k < nops && !w.stop; k++ {
				x := r.Intn(100)
				if ex.m.parked {
					switch {
					case x < 30:
						ex.call(pickRes(r))
					case x < 42:
						g := 2 + r.Intn(5)
						rs := make([]string, g)
						for j := range rs {
							rs[j] = pickRes(r)
						}
						ex.call(rs...)
					case x < 80:
						ex.release()
					case x < 90:
						if nt := w.q.len(); nt > 0 {
							ex.fire(r.Intn(nt))
						}
					default:
						ex.bundle(genBundle(r))
					}
					continue
				}
				switch {
				case x < 30:
					ex.call(pickRes(r))
				case x < 45:
					g := 2 + r.Intn(7)
					rs := make([]string, g)
					for j := range rs {
						rs[j] = pickRes(r)
					}
					ex.call(rs...)
				case x < 65: // the current renewal fires
					if ex.m.cached >= 0 {
						ex.fire(len(ex.m.successes) - 1)
					}
				case x < 77: // some renewal fires (often a stale one)
					if nt := w.q.len(); nt > 0 {
						ex.fire(r.Intn(nt))
					}
				case x < 92:
					ex.bundle(genBundle(r))
				default:
					ex.bundle(ex.m.bundle) // unchanged bundle
				}
			}
			ex.finish()

			c.Count("schedules", 1)
			c.Count("schedule_ops", len(ex.ops))
			s := w.ca.snap()
			features := []string{}
			add := func(b bool, f string) {
				if b {
					features = append(features, f)
					c.Count("schedules_with_"+f, 1)
				}
			}
			add(ex.groups > 0, "single_flight_group")
			add(ex.freshFires > 0, "rotation")
			add(ex.staleFires > 0, "stale_fire")
			add(ex.rootChanges > 0, "root_change")
			add(ex.bundleUpd > 0, "bundle_update")
			add(ex.afterFail > 0, "resign_after_failure")
			c.SetAdd("cfg_keytypes", cfg.KeyType)
			if s.calls >= 2 && len(features) >= 2 && !w.stop {
				c.Nontrivial(vh.Hash("sched", cfg, script, ex.ops))
			}
			if !sampled && len(features) >= 4 {
				sampled = true
				c.Sample(map[string]any{"stratum": "sched", "cfg": cfg, "script": script, "ops": ex.ops, "csrsign_calls": s.calls, "features": features})
			}
		})
	}
}

// ---------------------------------------------------------------------------------------
// fault enumeration

var faultAlphabet = []struct {
	name string
	kind string
	park bool
}{
	{"ok", kOK, false},
	{"err", kErrSign, false},
	{"rooterr", kErrRoots, false},
	{"delay-ok", kOK, true},
	{"delay-err", kErrSign, true},
	{"delay-rooterr", kErrRoots, true},
}

// faultSeqs enumerates every sequence of length 1..maxLen over the alphabet.
func faultSeqs(maxLen int) [][]int {
	var out [][]int
	var rec func(cur []int)
	rec = func(cur []int) {
		if len(cur) > 0 {
			out = append(out, append([]int(nil), cur...))
		}
		if len(cur) == maxLen {
			return
		}
		for a := range faultAlphabet {
			rec(append(cur, a))
		}
	}
	rec(nil)
	return out
}

const faultMaxLen = 4

// runFaults: for every behaviour sequence of consecutive CA calls (<= 4), in two variants of
// who asks (workload requests only / workload and ROOTCA requests mixed): requests are issued
// until the sequence is consumed; after a success the current renewal is fired so that the
// next request must sign; while a call is parked three more requests arrive. The model says
// after each step how many CSRSign calls there must have been, who got an error and which
// pair everybody else got; the closing probes check the state after the last element.
func runFaults(c *vh.Ctx) {
	seqs := faultSeqs(faultMaxLen)
	sampled := false
	for i := 0; i < 2*len(seqs); i++ {
		if !c.Mine(i) {
			continue
		}
		seq, mixed := seqs[i/2], i%2 == 1
		names := make([]string, len(seq))
		for k, a := range seq {
			names[k] = faultAlphabet[a].name
		}
		desc := fmt.Sprintf("faults-%s-%s", map[bool]string{false: "wl", true: "mixed"}[mixed], strings.Join(names, ","))
		c.Case(desc, func() {
			script := make([]caBeh, len(seq))
			for k, a := range seq {
				script[k] = caBeh{
					Kind: faultAlphabet[a].kind, Park: faultAlphabet[a].park,
					Lifetime: lifetimes[(k*3+len(seq))%len(lifetimes)],
					Roots:    []int{k % 3, 3},
					ViaChain: k%4 == 3,
				}
			}
			dflt := caBeh{Kind: kOK, Lifetime: time.Hour, Roots: []int{len(seq) % 3, 3}}
			cfg := worldCfg{Ratio: 0.5, Jitter: 0.01, TTL: 24 * time.Hour, KeyType: "p256", PKCS8: i%4 >= 2}
			w := newWorld(c, cfg, script, dflt)
			defer w.close()
			ex := newExecutor(w)
			resAt := func(k int) string {
				if mixed && k%2 == 1 {
					return resRoot
				}
				return resWorkload
			}
			ncall := 0
			for guard := 0; ex.m.caIdx < len(seq) && !w.stop && guard < 64; guard++ {
				if ex.m.parked {
					ex.call(resAt(ncall+1), resAt(ncall+2), resAt(ncall+3))
					ncall += 3
					if !w.stop {
						ex.release()
					}
					continue
				}
				if ex.m.cached >= 0 {
					ex.fire(len(ex.m.successes) - 1)
				}
				ex.call(resAt(ncall))
				ncall++
			}
			if ex.m.parked && !w.stop {
				ex.call(resAt(ncall+1), resAt(ncall+2), resAt(ncall+3))
				if !w.stop {
					ex.release()
				}
			}
			ex.finish()
			c.Count("fault_sequences", 1)
			c.Max("fault_sequence_len", len(seq))
			c.SetAdd("fault_sequence_lengths", fmt.Sprint(len(seq)))
			// non-trivial: the CA really saw every element of the sequence
			atts := w.ca.allAttempts()
			if len(atts) >= len(seq) && !w.stop {
				c.Nontrivial(vh.Hash("faults", desc))
				nonOK := 0
				for _, a := range atts[:len(seq)] {
					if !a.Beh.ok() || a.Beh.Park {
						nonOK++
					}
				}
				if nonOK > 0 {
					c.Count("fault_sequences_with_fault", 1)
				}
			} else if !w.stop {
				c.Inconclusive(fmt.Sprintf("sequence not consumed: CA saw %d of %d", len(atts), len(seq)))
			}
			if !sampled && len(seq) == 4 && strings.Contains(desc, "delay-err") && strings.Contains(desc, ",ok") {
				sampled = true
				c.Sample(map[string]any{"stratum": "faults", "sequence": names, "mixed": mixed, "ops": ex.ops})
			}
		})
	}
}
