// Engine agentsec: property C18 — the node agent serves a valid, matching key and
// certificate, signs once for concurrent requests, schedules exactly one renewal before
// expiry, does not make a failed signing sticky and announces changed roots.
package main

import (
	"os"
	"strings"

	"verifharness/internal/vh"
)

func main() {
	vh.Main(vh.Prop{
		ID:    "C18",
		Level: "fault_enumeration",
		Rule: "Real cache.SecretManagerClient with a recording fake security.Client that signs the CSR with a harness CA (scripted per call: ok / CSRSign error / root-bundle error, " +
			"optionally parked on a gate; lifetime 1s..24h chosen by the CA; CA roots changing between calls; root via bundle or only via chain) and a virtual delayed queue (hook H3): " +
			"renewal timers fire when the schedule says so. Strata by case name: (faults) every sequence of length 1..4 over {ok,err,rooterr}x{immediate,delayed} for consecutive CA calls, " +
			"each with workload-only and mixed workload/ROOTCA requesters, three more requests arriving while a call is parked - enumerated completely; (sched) PRNG schedules of requests, " +
			"bursts of 2-8 simultaneous requests, gate releases, current and stale timer firings, changed/unchanged trust-bundle updates; (stress) free-running goroutines doing the same " +
			"without gates, judged by schedule-independent invariants; (grid) rotateTime over lifetime x ratio x jitter incl. 0, 1, ratio<jitter, 1e3/1e4 jitter draws per cell; " +
			"(files, thorough only) file-mounted key/cert/root in a real temp dir with the real fsnotify watcher, republished by per-file atomic rename or kubelet-style ..data swap, " +
			"sequentially (announcement awaited) and concurrently with requests. " +
			"Non-trivial: fault sequence whose every element the CA really saw; schedule with >=2 CSRSign calls and >=2 of {callers sharing one signing, rotation, stale firing, root change, " +
			"bundle update, re-sign after failure} observed; stress case with >=2 overlapping GenerateSecret calls and >=2 CSRSign calls; grid cell with lifetime>0; files case with >=10 " +
			"concurrent reads that saw >=2 identities. Distinct by hash of inputs.",
		Assumptions: []string{
			"security.Client is replaced by the harness CA: retries/backoff inside caclient/providers/citadel and the SDS push path (sdsservice.go) are not exercised",
			"the delayed queue is virtual: pkg/queue/delay.go timing is not exercised; a firing is the harness calling the recorded task",
			"reference model (exec.go) is our reading of the property: cached pair answers, otherwise exactly one signing per waiting group; failure caches nothing; renewal task clears only its own pair; changed bundle clears the pair",
			"goroutine ids (runtime.Stack) attribute a CSRSign call to the request that made it; used only to key root-change findings by trigger",
			"the secret handler only records; a subscriber that re-requests from inside the callback is not modelled",
			"files stratum: a file change that is not announced within 30 s is counted inconclusive, not violated (fsnotify delivery is asynchronous); the writer only ever publishes complete files",
			"delay bounds use the wall clock (NotAfter has no monotonic reading); a detected wall-clock step during a signing makes that one bound inconclusive",
		},
		Anchors:       []string{"security/pkg/nodeagent/cache/"},
		MinNontrivial: func(t string) int { return map[string]int{"quick": 2500, "thorough": 10000}[t] },
		Batches:       func(t string) int { return map[string]int{"quick": 4, "thorough": 6}[t] },
		Parallel:      func(t string) int { return map[string]int{"quick": 4, "thorough": 6}[t] },
		TimeoutSec:    func(t string) int { return map[string]int{"quick": 600, "thorough": 2400}[t] },
		// true for the enumerated fault stratum only (see Explanation)
		Exhaustive: func(t string) bool { return true },
		Explanation: "exhaustive refers to the fault stratum only: all 1554 sequences of length<=4 over 6 CA behaviours x 2 requester variants are run in both tiers; " +
			"sched/stress/grid/files strata are PRNG exploration",
		Run: run,
	})
}

func run(c *vh.Ctx) {
	// AGENTSEC_STRATA (development aid only) restricts the run to the named strata.
	only := os.Getenv("AGENTSEC_STRATA")
	on := func(s string) bool { return only == "" || strings.Contains(only, s) }
	defer prepareOutputCerts()()
	if on("grid") {
		runGrid(c)
	}
	if on("faults") {
		runFaults(c)
	}
	if on("sched") {
		runSched(c)
	}
	if on("stress") {
		runStress(c)
	}
	if on("files") {
		runFiles(c)
	}
}
