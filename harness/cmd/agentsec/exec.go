package main

// Controlled executor: operations are applied one at a time from the case goroutine; the only
// things running concurrently are GenerateSecret calls, and those are either finished or
// blocked (at the CA gate, or behind the call that is) when the next operation starts. That
// makes the expected outcome of every operation a function of the operation list, which the
// reference model below computes from the property text:
//
//   - a request is answered from the cached pair if there is one, otherwise it makes exactly
//     one signing request; success caches the pair and schedules one renewal, failure caches
//     nothing and is reported to exactly that caller;
//   - requests arriving while a signing request is outstanding wait for it;
//   - a renewal task clears the pair iff the pair it was scheduled for is still the cached
//     one; a changed trust bundle clears it too.

import (
	"fmt"
)

type model struct {
	caIdx       int // CSRSign calls expected so far
	cached      int // attempt index of the cached pair, -1 none
	nilReason   string
	pending     int
	parked      bool
	parkedIdx   int
	successes   []int // attempt indexes of successful signings, in order (k-th PushDelayed)
	prevSuccess int
	prevTrigger string
	expReturned int
	expErr      int
	bundle      []int
	lastOp      string
}

type executor struct {
	w *world
	m model

	errReturns  int
	tasksSeen   int
	ops         []string
	afterFail   int // signings observed right after a failed attempt
	afterRotate int
	rootChanges int
	staleFires  int
	freshFires  int
	maxPending  int
	bundleUpd   int
	groups      int // settles in which >=2 callers shared one signing
}

func newExecutor(w *world) *executor {
	return &executor{w: w, m: model{cached: -1, nilReason: "initial", prevSuccess: -1, prevTrigger: "none"}}
}

func (ex *executor) beh(i int) caBeh { return ex.w.ca.behAt(i) }

func (ex *executor) op(format string, args ...any) {
	s := fmt.Sprintf(format, args...)
	ex.ops = append(ex.ops, s)
	ex.w.logf("op %s", s)
	ex.m.lastOp = s
}

// modelResolve applies the outcome of CA attempt idx to one pending caller.
func (ex *executor) modelResolve(idx int) (newSucc int) {
	m := &ex.m
	b := ex.beh(idx)
	m.pending--
	m.expReturned++
	if !b.ok() {
		m.expErr++
		m.nilReason = "failure"
		return -1
	}
	m.cached = idx
	m.successes = append(m.successes, idx)
	return idx
}

// modelSettle lets pending callers proceed until all returned or one is parked at the CA.
func (ex *executor) modelSettle(newSucc int) int {
	m := &ex.m
	for m.pending > 0 && !m.parked {
		if m.cached >= 0 {
			m.expReturned += m.pending
			m.pending = 0
			break
		}
		idx := m.caIdx
		m.caIdx++
		if ex.beh(idx).Park {
			m.parked, m.parkedIdx = true, idx
			break
		}
		if s := ex.modelResolve(idx); s >= 0 {
			newSucc = s
		}
	}
	return newSucc
}

// ---- operations

func (ex *executor) call(res ...string) {
	w := ex.w
	ex.op("call %v", res)
	ret0, exit0 := w.counts()
	seq0 := w.seq.Load()
	var start chan struct{}
	if len(res) > 1 {
		start = make(chan struct{})
	}
	for _, r := range res {
		w.startCall(r, start)
	}
	if start != nil {
		close(start)
	}
	before := ex.m.pending
	ex.m.pending += len(res)
	if ex.m.pending > ex.maxPending {
		ex.maxPending = ex.m.pending
	}
	cachedBefore := ex.m.cached
	ns := ex.modelSettle(-1)
	if ns >= 0 && before+len(res) >= 2 && cachedBefore < 0 {
		ex.groups++
	}
	w.settle(ret0, exit0)
	ex.evaluate(seq0, ns)
}

func (ex *executor) release() {
	w := ex.w
	if !ex.m.parked {
		return
	}
	ex.op("release(attempt %d, %d waiting)", ex.m.parkedIdx, ex.m.pending)
	ret0, exit0 := w.counts()
	seq0 := w.seq.Load()
	npend := ex.m.pending
	ex.m.parked = false
	ns := ex.modelResolve(ex.m.parkedIdx)
	if ns >= 0 && npend >= 2 {
		ex.groups++
	}
	ns = ex.modelSettle(ns)
	w.ca.releaseAll()
	w.settle(ret0, exit0)
	ex.evaluate(seq0, ns)
}

// fire runs recorded renewal task i ("the timer fired").
func (ex *executor) fire(i int) {
	w := ex.w
	if i < 0 || i >= w.q.len() || i >= len(ex.m.successes) {
		return
	}
	t := w.q.at(i)
	att := ex.m.successes[i]
	fresh := ex.m.cached == att
	ex.op("fire task %d (attempt %d, %s)", i, att, map[bool]string{true: "current", false: "stale"}[fresh])
	seq0 := w.seq.Load()
	var pan any
	func() {
		defer func() { pan = recover() }()
		_ = t.Task()
	}()
	t.Fired++
	if pan != nil {
		w.c.Inconclusive(fmt.Sprintf("renewal task panicked: %v", pan))
		w.stop = true
		return
	}
	wl, root := w.notifsSince(seq0)
	if fresh {
		ex.freshFires++
		w.c.Count("rotations_fired", 1)
		if wl != 1 {
			n := "0"
			if wl > 1 {
				n = "many"
			}
			w.violation("rotation-fire-notify n="+n,
				fmt.Sprintf("firing the renewal of the cached certificate (attempt %d) produced %d OnSecretUpdate(default), want exactly 1", att, wl), nil)
		}
		ex.m.cached = -1
		ex.m.nilReason = "rotation"
	} else {
		ex.staleFires++
		w.c.Count("stale_tasks_fired", 1)
		if wl != 0 || root != 0 {
			w.violation("stale-fire-notified",
				fmt.Sprintf("firing stale renewal task %d (attempt %d, cached attempt %d) produced notifications default=%d ROOTCA=%d, want none", i, att, ex.m.cached, wl, root), nil)
		}
	}
}

func (ex *executor) bundle(b []int) {
	w := ex.w
	changed := fmt.Sprint(b) != fmt.Sprint(ex.m.bundle)
	ex.op("bundle %v (changed=%v)", b, changed)
	seq0 := w.seq.Load()
	if err := w.sm.UpdateConfigTrustBundle(bundlePEM(b)); err != nil {
		w.c.Inconclusive("UpdateConfigTrustBundle: " + err.Error())
		w.stop = true
		return
	}
	wl, root := w.notifsSince(seq0)
	if !changed {
		// The property is silent about re-applying the same bundle. If the agent announces
		// the workload resource it has told its subscribers that the pair is gone, and the
		// model follows; if it stays silent the pair must still be there.
		w.c.Count("bundle_updates_same", 1)
		if wl > 0 && ex.m.cached >= 0 {
			w.c.Count("bundle_updates_same_announced", 1)
			ex.m.cached = -1
			ex.m.nilReason = "bundle"
		}
		return
	}
	ex.bundleUpd++
	w.c.Count("bundle_updates_effective", 1)
	w.mu.Lock()
	w.bundles = append(w.bundles, append([]int(nil), b...))
	w.mu.Unlock()
	ex.m.bundle = append([]int(nil), b...)
	if root == 0 {
		w.violation("bundle-update-notify res=ROOTCA n=0", "changed trust bundle not announced for ROOTCA", nil)
	}
	if wl == 0 {
		w.violation("bundle-update-notify res=default n=0", "changed trust bundle not announced for default", nil)
	}
	if ex.m.cached >= 0 {
		ex.m.cached = -1
		ex.m.nilReason = "bundle"
	}
}

// ---- comparison of the observation with the model after an operation

func (ex *executor) evaluate(seq0 int64, newSucc int) {
	w, m := ex.w, &ex.m
	s := w.ca.snap()
	ctx := map[string]any{"ops": ex.ops}

	if s.maxInFlight > 1 {
		w.desync("concurrent-csrsign", fmt.Sprintf("CA saw %d CSRSign calls in flight at once", s.maxInFlight), ctx)
		return
	}
	if s.calls > m.caIdx {
		state := "pair-cached"
		if m.cached < 0 {
			state = "no-pair"
		}
		if m.parked || m.pending > 0 {
			state = "signing-outstanding"
		}
		w.desync("extra-signing state="+state,
			fmt.Sprintf("after %q: CA saw %d CSRSign calls, at most %d are explained by the requests (cached attempt %d)", m.lastOp, s.calls, m.caIdx, m.cached), ctx)
		return
	}
	if s.calls < m.caIdx {
		w.desync("missing-signing after="+m.nilReason,
			fmt.Sprintf("after %q: CA saw %d CSRSign calls, %d expected: a request that found no valid cached pair (%s) did not sign", m.lastOp, s.calls, m.caIdx, m.nilReason), ctx)
		return
	}
	if (s.parked > 0) != m.parked {
		w.c.Inconclusive(fmt.Sprintf("model/harness desync on parked state after %q", m.lastOp))
		w.stop = true
		return
	}

	// calls that returned
	w.mu.Lock()
	var fresh []*callRec
	for _, cr := range w.calls {
		if cr.Done && !cr.checked {
			cr.checked = true
			fresh = append(fresh, cr)
		}
	}
	ret := w.returned
	bundle := append([]int(nil), m.bundle...)
	w.mu.Unlock()

	for _, cr := range fresh {
		if cr.Panic != "" {
			w.c.Inconclusive("GenerateSecret panicked: " + cr.Panic)
			w.stop = true
			return
		}
		w.c.Count("generate_calls_returned", 1)
		if cr.Err != nil {
			ex.errReturns++
			w.c.Count("generate_calls_failed", 1)
			if cr.Item != nil {
				w.violation("error-with-item", "GenerateSecret returned both an error and an item", ctx)
			}
			continue
		}
		if cr.Item == nil {
			w.violation("nil-item-without-error", "GenerateSecret returned (nil, nil)", ctx)
			continue
		}
		fp := w.checkPair(cr)
		if m.cached < 0 {
			// reported below through the counters; keep the more specific message here
			w.desync("item-served-without-valid-pair res="+cr.Res,
				fmt.Sprintf("after %q: call %d was answered although no successful signing is current (%s)", m.lastOp, cr.ID, m.nilReason), ctx)
			continue
		}
		cur := w.ca.attemptAt(m.cached)
		if fp != "" && fp != cur.LeafFP {
			w.violation("wrong-cert-served res="+cr.Res,
				fmt.Sprintf("after %q: call %d got leaf %s, the current certificate (attempt %d) is %s: callers do not all get the same pair", m.lastOp, cr.ID, fp, m.cached, cur.LeafFP), ctx)
		}
		if cr.Res == resRoot {
			w.checkRootItem(cr, [][2][]int{{cur.Beh.effRoots(), bundle}})
		}
	}
	if w.stop {
		return
	}
	if ret != m.expReturned {
		w.desync("calls-returned-mismatch",
			fmt.Sprintf("after %q: %d calls returned, %d expected", m.lastOp, ret, m.expReturned), ctx)
		return
	}
	if ex.errReturns != m.expErr {
		k := "failure-not-reported"
		if ex.errReturns > m.expErr {
			k = "error-without-failed-signing"
		}
		w.desync(k, fmt.Sprintf("after %q: %d calls returned an error, %d signing attempts failed", m.lastOp, ex.errReturns, m.expErr), ctx)
		return
	}

	// renewals scheduled
	nt := w.q.len()
	if nt != len(m.successes) {
		k := "rotation-not-scheduled"
		if nt > len(m.successes) {
			k = "rotation-scheduled-more-than-once"
		}
		w.desync(k, fmt.Sprintf("after %q: %d certificates issued to the agent, %d PushDelayed", m.lastOp, len(m.successes), nt), ctx)
		return
	}
	for ; ex.tasksSeen < nt; ex.tasksSeen++ {
		w.checkDelay(w.ca.attemptAt(m.successes[ex.tasksSeen]), w.q.at(ex.tasksSeen))
	}

	// root change announcement
	if newSucc >= 0 {
		a := w.ca.attemptAt(newSucc)
		trigger := "unknown"
		w.mu.Lock()
		for _, cr := range w.calls {
			if cr.GID == a.GID {
				trigger = cr.Res
			}
		}
		w.mu.Unlock()
		w.c.SetAdd("signing_triggers", trigger)
		if newSucc > 0 && !w.ca.attemptAt(newSucc-1).success() {
			ex.afterFail++
			w.c.Count("signings_after_failed_attempt", 1)
		}
		_, rootN := w.notifsSince(seq0)
		if m.prevSuccess >= 0 {
			prev := w.ca.attemptAt(m.prevSuccess)
			if !sameSet(prev.Beh.effRoots(), a.Beh.effRoots()) {
				ex.rootChanges++
				w.c.Count("root_changes", 1)
				w.c.SetAdd("root_change_triggers", trigger+"/prev="+m.prevTrigger)
				switch {
				case rootN == 0:
					key := "root-change-not-announced trigger=" + trigger
					if trigger != resRoot {
						// a default-triggered signing compares with the root remembered from the
						// previous signing: who triggered that one is part of the failure kind
						key += " prev=" + m.prevTrigger
					}
					w.violation(key,
						fmt.Sprintf("attempt %d (triggered by a %s request) came with CA roots %v, the previous successful signing (attempt %d, triggered by %s) with %v: no OnSecretUpdate(ROOTCA)",
							newSucc, trigger, a.Beh.effRoots(), m.prevSuccess, m.prevTrigger, prev.Beh.effRoots()), ctx)
				case rootN > 1:
					w.violation("root-change-announced-more-than-once", fmt.Sprintf("%d OnSecretUpdate(ROOTCA) for one root change", rootN), ctx)
				default:
					w.c.Count("root_changes_announced", 1)
				}
			} else if rootN > 0 {
				w.c.Count("root_announcements_without_change", 1)
			}
		}
		m.prevSuccess, m.prevTrigger = newSucc, trigger
	}
	if o := w.otherNotifsSince(seq0); len(o) > 0 {
		w.c.SetAdd("unexpected_notification_resources", fmt.Sprint(o))
	}
}

// drain releases parked calls until nothing is outstanding.
func (ex *executor) drain() {
	for i := 0; ex.m.parked && !ex.w.stop && i < 1000; i++ {
		ex.release()
	}
}

// finish: drain, then the closing probes every controlled case ends with: a request of each
// kind, a firing of the current renewal, and a request that must therefore sign again.
func (ex *executor) finish() {
	w := ex.w
	step := func(f func()) {
		if !w.stop {
			f()
			ex.drain()
		}
	}
	ex.drain()
	step(func() { ex.call(resWorkload) })
	step(func() { ex.call(resRoot) })
	step(func() {
		if ex.m.cached >= 0 {
			ex.fire(len(ex.m.successes) - 1)
		}
	})
	step(func() { ex.call(resWorkload) })
	if !w.stop {
		s := w.ca.snap()
		if s.maxInFlight > 1 {
			w.violation("concurrent-csrsign", fmt.Sprintf("CA saw %d CSRSign calls in flight at once", s.maxInFlight), nil)
		}
		if len(w.ca.csrProblems) > 0 {
			w.c.Inconclusive("CA could not process a CSR: " + w.ca.csrProblems[0])
		}
	}
	w.c.Count("csrsign_calls", w.ca.snap().calls)
	w.c.Count("single_flight_groups", ex.groups)
	w.c.Max("callers_waiting_on_one_signing", ex.maxPending)
}
