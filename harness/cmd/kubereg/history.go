package main

// history.go: a simulated cluster (API-server truth + a lagging EndpointSlice controller) whose
// random walk yields a *cluster history*: per-object sequences of create/update/delete plus the
// few cross-object precedence edges a real cluster enforces (an IP is handed to a new pod only
// after its previous owner released it).

import (
	"fmt"
	"math/rand"
	"sort"
	"strings"
	"time"

	corev1 "k8s.io/api/core/v1"
	discoveryv1 "k8s.io/api/discovery/v1"
	metav1 "k8s.io/apimachinery/pkg/apis/meta/v1"
	kruntime "k8s.io/apimachinery/pkg/runtime"
	"k8s.io/apimachinery/pkg/types"
	"k8s.io/apimachinery/pkg/util/intstr"
)

type objKind int

const (
	kNamespace objKind = iota
	kNode
	kService
	kPod
	kSlice
)

var kindNames = [...]string{"ns", "node", "svc", "pod", "slice"}

type objID struct {
	Kind objKind
	NS   string
	Name string
}

func (o objID) String() string {
	if o.NS == "" {
		return kindNames[o.Kind] + "/" + o.Name
	}
	return kindNames[o.Kind] + "/" + o.NS + "/" + o.Name
}

type op struct {
	ID     int // position in the true cluster history
	Obj    objID
	Verb   string // create | update | delete | replay
	Object kruntime.Object
	Deps   []int // ops of other objects that precede this one in every real cluster
	Note   string
}

func (o *op) String() string { return fmt.Sprintf("#%d %s %s [%s]", o.ID, o.Verb, o.Obj, o.Note) }

type history struct {
	Ops   []*op
	Final map[objID]kruntime.Object // objects existing at the end
	Tags  map[string]bool           // features of the history itself
}

// ---------------------------------------------------------------------------------------

type nsSim struct {
	name   string
	labels map[string]string
	annos  map[string]string
	exists bool
}

type nodeSim struct {
	name       string
	labels     map[string]string
	externalIP string
	exists     bool
	inc        int
}

type svcPort struct {
	name   string
	port   int32
	target intstr.IntOrString
	node   int32
}

type svcSim struct {
	ns, name string
	typ      string // clusterip | headless | externalname | nodeport-gw | selectorless
	ports    []svcPort
	selector map[string]string
	labels   map[string]string
	annos    map[string]string
	trafficD string
	publish  bool
	exists   bool
	inc      int
	ip       string
	// slice controller view
	maxSlices int
	assign    map[string]int // pod name -> slice index (sticky)
	manual    []string       // addresses of a selector-less service
}

type podSim struct {
	ns, name    string
	labels      map[string]string
	sa          string
	node        string
	ip          string
	phase       corev1.PodPhase
	ready       bool
	terminating bool
	exists      bool
	ownsIP      bool
	inc         int
}

type epSim struct {
	ip                          string
	pod                         string // "" => no targetRef
	uid                         string // targetRef.uid, as the EndpointSlice controller writes it ("" in hand-written slices)
	node                        string
	ready, serving, terminating bool
}

type sliceSim struct {
	ns, name string
	svc      string
	eps      []epSim
	ports    []discoveryv1.EndpointPort
	exists   bool
	inc      int
}

type sim struct {
	r         *rand.Rand
	h         *history
	nss       map[string]*nsSim
	nodes     map[string]*nodeSim
	svcs      map[string]*svcSim
	pods      map[string]*podSim
	slices    map[string]*sliceSim
	ipFree    []string
	ipRelease map[string]int // ip -> op that released it
	svcIPn    int
}

var baseTime = time.Date(2026, 1, 1, 0, 0, 0, 0, time.UTC)

func (s *sim) emit(id objID, verb string, obj kruntime.Object, note string, deps ...int) int {
	o := &op{ID: len(s.h.Ops), Obj: id, Verb: verb, Object: obj, Note: note, Deps: deps}
	if obj != nil {
		acc := obj.(metav1.Object)
		acc.SetResourceVersion(fmt.Sprint(1000 + o.ID))
		s.h.Final[id] = obj
	} else {
		delete(s.h.Final, id)
	}
	s.h.Ops = append(s.h.Ops, o)
	return o.ID
}

func (s *sim) tag(t string) { s.h.Tags[t] = true }

func cloneMap(m map[string]string) map[string]string {
	if m == nil {
		return nil
	}
	out := make(map[string]string, len(m))
	for k, v := range m {
		out[k] = v
	}
	return out
}

func sortedKeys[V any](m map[string]V) []string {
	out := make([]string, 0, len(m))
	for k := range m {
		out = append(out, k)
	}
	sort.Strings(out)
	return out
}

func pick[T any](r *rand.Rand, xs []T) T { return xs[r.Intn(len(xs))] }

// objects --------------------------------------------------------------------------------

func (n *nsSim) object() *corev1.Namespace {
	return &corev1.Namespace{ObjectMeta: metav1.ObjectMeta{
		Name: n.name, Labels: cloneMap(n.labels), Annotations: cloneMap(n.annos),
		UID: types.UID("ns-" + n.name), CreationTimestamp: metav1.NewTime(baseTime),
	}}
}

func (n *nodeSim) object() *corev1.Node {
	o := &corev1.Node{ObjectMeta: metav1.ObjectMeta{
		Name: n.name, Labels: cloneMap(n.labels),
		UID: types.UID(fmt.Sprintf("node-%s-%d", n.name, n.inc)), CreationTimestamp: metav1.NewTime(baseTime),
	}}
	o.Status.Addresses = []corev1.NodeAddress{{Type: corev1.NodeInternalIP, Address: "192.168.0." + strings.TrimPrefix(n.name, "node-")}}
	if n.externalIP != "" {
		o.Status.Addresses = append(o.Status.Addresses, corev1.NodeAddress{Type: corev1.NodeExternalIP, Address: n.externalIP})
	}
	return o
}

func (v *svcSim) object() *corev1.Service {
	o := &corev1.Service{ObjectMeta: metav1.ObjectMeta{
		Name: v.name, Namespace: v.ns, Labels: cloneMap(v.labels), Annotations: cloneMap(v.annos),
		UID:               types.UID(fmt.Sprintf("svc-%s-%s-%d", v.ns, v.name, v.inc)),
		CreationTimestamp: metav1.NewTime(baseTime.Add(time.Duration(v.inc) * time.Hour)),
	}}
	for _, p := range v.ports {
		o.Spec.Ports = append(o.Spec.Ports, corev1.ServicePort{Name: p.name, Port: p.port, Protocol: corev1.ProtocolTCP, TargetPort: p.target, NodePort: p.node})
	}
	o.Spec.Selector = cloneMap(v.selector)
	o.Spec.PublishNotReadyAddresses = v.publish
	if v.trafficD != "" {
		o.Spec.TrafficDistribution = strp(v.trafficD)
	}
	switch v.typ {
	case "clusterip", "selectorless":
		o.Spec.Type = corev1.ServiceTypeClusterIP
		o.Spec.ClusterIP = v.ip
		o.Spec.ClusterIPs = []string{v.ip}
	case "headless":
		o.Spec.Type = corev1.ServiceTypeClusterIP
		o.Spec.ClusterIP = corev1.ClusterIPNone
		o.Spec.ClusterIPs = []string{corev1.ClusterIPNone}
	case "externalname":
		o.Spec.Type = corev1.ServiceTypeExternalName
		o.Spec.ExternalName = "ext-" + v.name + ".example.com"
		o.Spec.Selector = nil
	case "nodeport-gw":
		o.Spec.Type = corev1.ServiceTypeNodePort
		o.Spec.ClusterIP = v.ip
		o.Spec.ClusterIPs = []string{v.ip}
	}
	return o
}

func podUID(ns, name string, inc int) string { return fmt.Sprintf("pod-%s-%s-%d", ns, name, inc) }

func (p *podSim) object() *corev1.Pod {
	o := &corev1.Pod{ObjectMeta: metav1.ObjectMeta{
		Name: p.name, Namespace: p.ns, Labels: cloneMap(p.labels),
		UID:               types.UID(podUID(p.ns, p.name, p.inc)),
		CreationTimestamp: metav1.NewTime(baseTime.Add(time.Duration(p.inc) * time.Hour)),
	}}
	o.Spec.ServiceAccountName = p.sa
	o.Spec.NodeName = p.node
	o.Spec.Containers = []corev1.Container{{Name: "app", Ports: []corev1.ContainerPort{
		{Name: "http", ContainerPort: 8080, Protocol: corev1.ProtocolTCP},
		{Name: "grpc", ContainerPort: 9090, Protocol: corev1.ProtocolTCP},
	}}}
	o.Status.Phase = p.phase
	if p.ip != "" {
		o.Status.PodIP = p.ip
		o.Status.PodIPs = []corev1.PodIP{{IP: p.ip}}
	}
	if p.phase == corev1.PodRunning || p.phase == corev1.PodFailed {
		st := corev1.ConditionFalse
		if p.ready {
			st = corev1.ConditionTrue
		}
		o.Status.Conditions = []corev1.PodCondition{{Type: corev1.PodReady, Status: st}}
	}
	if p.terminating {
		t := metav1.NewTime(baseTime.Add(48 * time.Hour))
		o.DeletionTimestamp = &t
		o.DeletionGracePeriodSeconds = new(int64)
	}
	return o
}

func (l *sliceSim) object() *discoveryv1.EndpointSlice {
	o := &discoveryv1.EndpointSlice{ObjectMeta: metav1.ObjectMeta{
		Name: l.name, Namespace: l.ns, Labels: map[string]string{discoveryv1.LabelServiceName: l.svc},
		UID:               types.UID(fmt.Sprintf("slice-%s-%s-%d", l.ns, l.name, l.inc)),
		CreationTimestamp: metav1.NewTime(baseTime.Add(time.Duration(l.inc) * time.Hour)),
	}, AddressType: discoveryv1.AddressTypeIPv4}
	for _, e := range l.eps {
		ep := discoveryv1.Endpoint{
			Addresses:  []string{e.ip},
			Conditions: discoveryv1.EndpointConditions{Ready: boolp(e.ready), Serving: boolp(e.serving), Terminating: boolp(e.terminating)},
		}
		if e.pod != "" {
			ep.TargetRef = &corev1.ObjectReference{Kind: "Pod", Name: e.pod, Namespace: l.ns, UID: types.UID(e.uid)}
		}
		if e.node != "" {
			ep.NodeName = strp(e.node)
		}
		o.Endpoints = append(o.Endpoints, ep)
	}
	o.Ports = append(o.Ports, l.ports...)
	return o
}

// ---------------------------------------------------------------------------------------

var (
	workNamespaces = []string{"ns-a", "ns-a", "ns-a", "ns-b"}
	appValues      = []string{"a", "a", "a", "b", "b", "c"}
	zones          = []string{"z1", "z2", "z3"}
	portMenu       = []svcPort{
		{name: "http", port: 80, target: intstr.FromInt32(8080)},
		{name: "http", port: 80, target: intstr.FromString("http")},
		{name: "grpc", port: 9090, target: intstr.FromString("grpc")},
		{name: "tcp-db", port: 3306, target: intstr.FromInt32(3306)},
		{name: "http-alt", port: 8081, target: intstr.FromInt32(8080)},
		{name: "tls", port: 15443, target: intstr.FromInt32(15443)},
	}
)

func newSim(r *rand.Rand) *sim {
	return &sim{
		r: r, h: &history{Final: map[objID]kruntime.Object{}, Tags: map[string]bool{}},
		nss: map[string]*nsSim{}, nodes: map[string]*nodeSim{}, svcs: map[string]*svcSim{}, pods: map[string]*podSim{},
		slices: map[string]*sliceSim{}, ipRelease: map[string]int{},
	}
}

func genHistory(r *rand.Rand, steps int) *history {
	s := newSim(r)
	// a small address pool forces reuse
	for i := 1; i <= 4+r.Intn(3); i++ {
		s.ipFree = append(s.ipFree, fmt.Sprintf("10.0.0.%d", i))
	}
	// the cluster's own beginning: namespaces and nodes exist before workloads (in the true
	// history; arrival orders may still deliver them late)
	for _, n := range []string{systemNS, "ns-a", "ns-b"} {
		ns := &nsSim{name: n, labels: map[string]string{"kubernetes.io/metadata.name": n}, annos: map[string]string{}, exists: true}
		if n == systemNS && r.Intn(3) == 0 {
			ns.labels[networkLabel] = "net-1"
			s.tag("system-ns-network")
		}
		if n != systemNS && r.Intn(4) == 0 {
			ns.annos[tdAnnotation] = pick(r, []string{"PreferClose", "PreferSameNode"})
			s.tag("ns-traffic-distribution")
		}
		s.nss[n] = ns
		s.emit(objID{kNamespace, "", n}, "create", ns.object(), "create")
	}
	for i := 1; i <= 2+r.Intn(2); i++ {
		s.nodeCreate(fmt.Sprintf("node-%d", i))
	}
	// workloads come up
	for i, n := 0, 2+r.Intn(2); i < n; i++ {
		s.svcCreateOrRecreate()
	}
	for i, n := 0, 3+r.Intn(3); i < n; i++ {
		s.podCreate()
	}
	for i, n := 0, 4+r.Intn(8); i < n; i++ {
		s.podAdvance()
	}
	for i := 0; i < steps; i++ {
		s.step()
		// the slice controller follows with a lag
		for _, k := range sortedKeys(s.svcs) {
			if r.Intn(100) < 45 {
				s.sliceSync(s.svcs[k])
			}
		}
	}
	// the cluster settles: the slice controller catches up with the final truth
	for _, k := range sortedKeys(s.svcs) {
		s.sliceSync(s.svcs[k])
	}
	return s.h
}

func (s *sim) step() {
	r := s.r
	x := r.Intn(100)
	switch {
	case x < 6:
		s.svcCreateOrRecreate()
	case x < 20:
		s.svcEdit()
	case x < 23:
		s.svcDelete()
	case x < 33:
		s.podCreate()
	case x < 65:
		s.podAdvance()
	case x < 73:
		s.podRelabel()
	case x < 82:
		s.sliceRebalance()
	case x < 87:
		s.manualEndpoints()
	case x < 94:
		s.nodeEdit()
	default:
		s.nsEdit()
	}
}

// namespaces / nodes ---------------------------------------------------------------------

func (s *sim) nsEdit() {
	r := s.r
	n := s.nss[pick(r, []string{systemNS, "ns-a", "ns-b"})]
	if n.name == systemNS {
		cur := n.labels[networkLabel]
		nv := pick(r, []string{"", "net-1", "net-2"})
		if nv == cur {
			return
		}
		if nv == "" {
			delete(n.labels, networkLabel)
		} else {
			n.labels[networkLabel] = nv
		}
		s.tag("system-ns-network")
		s.emit(objID{kNamespace, "", n.name}, "update", n.object(), "network="+nv)
		return
	}
	nv := pick(r, []string{"", "PreferClose", "PreferSameNode"})
	if nv == n.annos[tdAnnotation] {
		return
	}
	if nv == "" {
		delete(n.annos, tdAnnotation)
	} else {
		n.annos[tdAnnotation] = nv
	}
	s.tag("ns-traffic-distribution")
	s.emit(objID{kNamespace, "", n.name}, "update", n.object(), "traffic-distribution="+nv)
}

func (s *sim) nodeCreate(name string) {
	r := s.r
	n := s.nodes[name]
	if n == nil {
		n = &nodeSim{name: name}
		s.nodes[name] = n
	}
	n.inc++
	n.exists = true
	z := pick(r, zones)
	n.labels = map[string]string{"topology.kubernetes.io/region": "r" + z[1:], "topology.kubernetes.io/zone": z}
	if r.Intn(3) == 0 {
		n.labels["topology.istio.io/subzone"] = "sz1"
	}
	if r.Intn(2) == 0 {
		n.labels["gw"] = "yes"
	}
	n.externalIP = ""
	if r.Intn(2) == 0 {
		n.externalIP = "203.0.113." + strings.TrimPrefix(name, "node-")
	}
	s.emit(objID{kNode, "", name}, "create", n.object(), fmt.Sprintf("zone=%s ext=%s", z, n.externalIP))
}

func (s *sim) nodeEdit() {
	r := s.r
	names := sortedKeys(s.nodes)
	n := s.nodes[pick(r, names)]
	if !n.exists {
		s.nodeCreate(n.name)
		return
	}
	switch r.Intn(6) {
	case 0, 1:
		z := pick(r, zones)
		if z == n.labels["topology.kubernetes.io/zone"] {
			return
		}
		n.labels["topology.kubernetes.io/zone"] = z
		n.labels["topology.kubernetes.io/region"] = "r" + z[1:]
		s.tag("node-zone-change")
		s.emit(objID{kNode, "", n.name}, "update", n.object(), "zone="+z)
	case 2:
		if n.labels["gw"] == "yes" {
			delete(n.labels, "gw")
		} else {
			n.labels["gw"] = "yes"
		}
		s.emit(objID{kNode, "", n.name}, "update", n.object(), "gw="+n.labels["gw"])
	case 3, 4:
		if n.externalIP == "" {
			n.externalIP = "203.0.113." + strings.TrimPrefix(n.name, "node-")
		} else if r.Intn(2) == 0 {
			n.externalIP = ""
		} else {
			n.externalIP = "198.51.100." + strings.TrimPrefix(n.name, "node-")
		}
		s.emit(objID{kNode, "", n.name}, "update", n.object(), "ext="+n.externalIP)
	case 5:
		// a node is only removed when nothing runs on it
		for _, k := range sortedKeys(s.pods) {
			if p := s.pods[k]; p.exists && p.node == n.name {
				return
			}
		}
		n.exists = false
		s.tag("node-delete")
		s.emit(objID{kNode, "", n.name}, "delete", nil, "delete")
	}
}

// services -------------------------------------------------------------------------------

func (s *sim) svcCreateOrRecreate() {
	r := s.r
	// prefer re-creating a deleted one
	for _, k := range sortedKeys(s.svcs) {
		if v := s.svcs[k]; !v.exists && r.Intn(2) == 0 {
			s.svcInit(v)
			s.tag("service-recreate")
			s.emit(objID{kService, v.ns, v.name}, "create", v.object(), "recreate "+v.describe())
			return
		}
	}
	if len(s.svcs) >= 4 {
		return
	}
	v := &svcSim{ns: pick(r, workNamespaces), name: fmt.Sprintf("svc-%d", len(s.svcs)+1)}
	s.svcs[v.ns+"/"+v.name] = v
	s.svcInit(v)
	s.emit(objID{kService, v.ns, v.name}, "create", v.object(), "create "+v.describe())
}

func (v *svcSim) describe() string {
	ps := []string{}
	for _, p := range v.ports {
		ps = append(ps, fmt.Sprintf("%s:%d->%s", p.name, p.port, p.target.String()))
	}
	return fmt.Sprintf("%s sel=%v ports=%v labels=%v annos=%v td=%q publish=%v", v.typ, v.selector, ps, v.labels, v.annos, v.trafficD, v.publish)
}

func (s *sim) svcInit(v *svcSim) {
	r := s.r
	v.inc++
	v.exists = true
	v.typ = pick(r, []string{"clusterip", "clusterip", "clusterip", "headless", "headless", "externalname", "nodeport-gw", "selectorless"})
	s.tag("svc-type:" + v.typ)
	s.svcIPn++
	v.ip = fmt.Sprintf("10.96.0.%d", s.svcIPn)
	v.labels = map[string]string{}
	v.annos = map[string]string{}
	v.trafficD = ""
	v.publish = false
	v.selector = nil
	v.manual = nil
	if v.assign == nil {
		v.assign = map[string]int{}
	}
	v.maxSlices = 1 + r.Intn(3)
	v.ports = nil
	used := map[string]bool{}
	for len(v.ports) < 1+r.Intn(2) {
		p := pick(r, portMenu)
		if used[p.name] {
			continue
		}
		used[p.name] = true
		v.ports = append(v.ports, p)
	}
	switch v.typ {
	case "clusterip", "headless", "nodeport-gw":
		v.selector = map[string]string{"app": pick(r, appValues)}
		if r.Intn(4) == 0 {
			v.selector["version"] = "v1"
		}
	}
	if v.typ == "nodeport-gw" {
		v.annos[nodeSelAnno] = pick(r, []string{`{"gw":"yes"}`, `{}`})
		v.labels[networkLabel] = pick(r, []string{"net-gw", "net-1"})
		if !used["tls"] {
			v.ports = append(v.ports, portMenu[5])
		}
		for i := range v.ports {
			v.ports[i].node = 30000 + v.ports[i].port%1000
		}
	}
	if r.Intn(5) == 0 {
		v.labels["istio.io/persistent-session"] = "cookie"
	}
	if r.Intn(6) == 0 {
		v.annos["alpha.istio.io/kubernetes-serviceaccounts"] = "extra-sa"
	}
	if r.Intn(8) == 0 {
		v.annos["networking.istio.io/exportTo"] = pick(r, []string{"~", ".", "*"})
	}
}

func (s *sim) liveSvc() *svcSim {
	var live []*svcSim
	for _, k := range sortedKeys(s.svcs) {
		if s.svcs[k].exists {
			live = append(live, s.svcs[k])
		}
	}
	if len(live) == 0 {
		return nil
	}
	return pick(s.r, live)
}

func (s *sim) svcEdit() {
	r := s.r
	v := s.liveSvc()
	if v == nil {
		return
	}
	note := ""
	switch r.Intn(8) {
	case 0: // add or remove a port
		if len(v.ports) > 1 && r.Intn(2) == 0 {
			i := r.Intn(len(v.ports))
			note = "remove port " + v.ports[i].name
			v.ports = append(append([]svcPort{}, v.ports[:i]...), v.ports[i+1:]...)
		} else {
			p := pick(r, portMenu)
			for _, q := range v.ports {
				if q.name == p.name || q.port == p.port {
					return
				}
			}
			if v.typ == "nodeport-gw" {
				p.node = 30000 + p.port%1000
			}
			v.ports = append(v.ports, p)
			note = "add port " + p.name
		}
		s.tag("svc-port-edit")
	case 1: // change a target port
		i := r.Intn(len(v.ports))
		if v.ports[i].target.Type == intstr.Int {
			v.ports[i].target = intstr.FromInt32(v.ports[i].target.IntVal + 1)
		} else {
			v.ports[i].target = intstr.FromInt32(8080)
		}
		note = "targetPort " + v.ports[i].name + "=" + v.ports[i].target.String()
		s.tag("svc-targetport-edit")
	case 2, 3: // selector
		if v.selector == nil {
			return
		}
		if r.Intn(2) == 0 {
			v.selector["app"] = pick(r, appValues)
		} else if _, ok := v.selector["version"]; ok {
			delete(v.selector, "version")
		} else {
			v.selector["version"] = pick(r, []string{"v1", "v2"})
		}
		note = fmt.Sprintf("selector=%v", v.selector)
		s.tag("svc-selector-edit")
	case 4:
		if v.labels["istio.io/persistent-session"] != "" {
			delete(v.labels, "istio.io/persistent-session")
		} else {
			v.labels["istio.io/persistent-session"] = "cookie"
		}
		note = fmt.Sprintf("labels=%v", v.labels)
		s.tag("svc-persistent-session-edit")
	case 5:
		nv := pick(r, []string{"", "PreferClose", "PreferSameNode"})
		if nv == v.trafficD {
			return
		}
		v.trafficD = nv
		note = "trafficDistribution=" + nv
		s.tag("svc-traffic-distribution-edit")
	case 6:
		nv := pick(r, []string{"", "~", ".", "*"})
		if nv == v.annos["networking.istio.io/exportTo"] {
			return
		}
		if nv == "" {
			delete(v.annos, "networking.istio.io/exportTo")
		} else {
			v.annos["networking.istio.io/exportTo"] = nv
		}
		note = "exportTo=" + nv
		s.tag("svc-exportto-edit")
	case 7:
		if v.selector == nil {
			return
		}
		v.publish = !v.publish
		note = fmt.Sprintf("publishNotReady=%v", v.publish)
		s.tag("svc-publish-notready-edit")
	}
	s.emit(objID{kService, v.ns, v.name}, "update", v.object(), note)
}

func (s *sim) svcDelete() {
	v := s.liveSvc()
	if v == nil {
		return
	}
	v.exists = false
	s.tag("service-delete")
	s.emit(objID{kService, v.ns, v.name}, "delete", nil, "delete")
}

// pods -----------------------------------------------------------------------------------

func (s *sim) podCreate() {
	r := s.r
	// re-create a deleted pod under the same name (StatefulSet style), possibly with another SA
	for _, k := range sortedKeys(s.pods) {
		if p := s.pods[k]; !p.exists && r.Intn(2) == 0 {
			s.podInit(p, true)
			s.tag("pod-recreate")
			s.emit(objID{kPod, p.ns, p.name}, "create", p.object(), "recreate "+p.describe())
			return
		}
	}
	if len(s.pods) >= 8 {
		return
	}
	p := &podSim{ns: pick(r, workNamespaces), name: fmt.Sprintf("pod-%d", len(s.pods)+1)}
	s.pods[p.ns+"/"+p.name] = p
	s.podInit(p, false)
	s.emit(objID{kPod, p.ns, p.name}, "create", p.object(), "create "+p.describe())
}

func (p *podSim) describe() string {
	return fmt.Sprintf("phase=%s ip=%s ready=%v term=%v node=%s sa=%s labels=%v", p.phase, p.ip, p.ready, p.terminating, p.node, p.sa, p.labels)
}

func (s *sim) podInit(p *podSim, again bool) {
	r := s.r
	p.inc++
	p.exists = true
	p.phase = corev1.PodPending
	p.ip, p.node, p.ready, p.terminating, p.ownsIP = "", "", false, false, false
	if !again || r.Intn(2) == 0 {
		p.labels = map[string]string{"app": pick(r, appValues), "version": pick(r, []string{"v1", "v2"})}
		if r.Intn(3) == 0 {
			p.labels["security.istio.io/tlsMode"] = "istio"
		}
		if r.Intn(8) == 0 {
			p.labels[networkLabel] = "net-pod"
		}
	}
	nsa := pick(r, []string{"sa-1", "sa-2", "default"})
	if again && nsa != p.sa {
		s.tag("pod-sa-change")
	}
	p.sa = nsa
}

func (s *sim) livePods(f func(*podSim) bool) []*podSim {
	var out []*podSim
	for _, k := range sortedKeys(s.pods) {
		if p := s.pods[k]; p.exists && (f == nil || f(p)) {
			out = append(out, p)
		}
	}
	return out
}

func (s *sim) liveNodes() []string {
	var out []string
	for _, k := range sortedKeys(s.nodes) {
		if s.nodes[k].exists {
			out = append(out, k)
		}
	}
	return out
}

func (s *sim) releaseIP(p *podSim, by int) {
	if p.ownsIP && p.ip != "" {
		s.ipRelease[p.ip] = by
		s.ipFree = append(s.ipFree, p.ip)
	}
	p.ownsIP = false
}

// podAdvance moves one pod one step through its life.
func (s *sim) podAdvance() {
	r := s.r
	ps := s.livePods(nil)
	if len(ps) == 0 {
		s.podCreate()
		return
	}
	p := pick(r, ps)
	id := objID{kPod, p.ns, p.name}
	switch {
	case p.phase == corev1.PodPending && p.ip == "":
		nodes := s.liveNodes()
		if len(nodes) == 0 || len(s.ipFree) == 0 {
			return
		}
		p.node = pick(r, nodes)
		// most recently released addresses first: reuse is the interesting case
		i := len(s.ipFree) - 1
		if r.Intn(3) == 0 {
			i = r.Intn(len(s.ipFree))
		}
		p.ip = s.ipFree[i]
		s.ipFree = append(append([]string{}, s.ipFree[:i]...), s.ipFree[i+1:]...)
		p.phase = corev1.PodRunning
		p.ownsIP = true
		var deps []int
		if rel, ok := s.ipRelease[p.ip]; ok {
			deps = append(deps, rel)
			s.tag("ip-reuse")
		}
		if r.Intn(3) == 0 {
			p.ready = true // the kubelet reports IP and readiness in one status update
		}
		s.emit(id, "update", p.object(), "scheduled "+p.describe(), deps...)
	case p.terminating:
		p.exists = false
		by := s.emit(id, "delete", nil, "delete (was terminating)")
		s.releaseIP(p, by)
	case p.phase == corev1.PodFailed:
		p.exists = false
		by := s.emit(id, "delete", nil, "delete (was failed)")
		s.releaseIP(p, by)
	case p.phase == corev1.PodRunning && !p.ready:
		if r.Intn(5) == 0 {
			s.podEnd(p)
			return
		}
		p.ready = true
		s.emit(id, "update", p.object(), "ready "+p.describe())
	case p.phase == corev1.PodRunning && p.ready:
		switch r.Intn(6) {
		case 0, 1:
			p.ready = false
			s.tag("pod-unready")
			s.emit(id, "update", p.object(), "unready "+p.describe())
		case 2, 3:
			s.podEnd(p)
		default:
			s.podRelabel()
		}
	}
}

func (s *sim) podEnd(p *podSim) {
	r := s.r
	id := objID{kPod, p.ns, p.name}
	switch r.Intn(4) {
	case 0: // graceful termination
		p.terminating = true
		s.tag("pod-terminating")
		s.emit(id, "update", p.object(), "terminating "+p.describe())
	case 1: // failed / evicted; an eviction may also clear the address
		p.phase = corev1.PodFailed
		p.ready = false
		owned := p.ip
		if r.Intn(2) == 0 {
			p.ip = ""
		}
		s.tag("pod-failed")
		by := s.emit(id, "update", p.object(), "failed "+p.describe())
		if p.ownsIP && owned != "" {
			s.ipRelease[owned] = by
			s.ipFree = append(s.ipFree, owned)
		}
		p.ownsIP = false
	default: // force delete
		p.exists = false
		by := s.emit(id, "delete", nil, "delete")
		s.releaseIP(p, by)
	}
}

func (s *sim) podRelabel() {
	r := s.r
	ps := s.livePods(nil)
	if len(ps) == 0 {
		return
	}
	p := pick(r, ps)
	switch r.Intn(3) {
	case 0:
		p.labels["app"] = pick(r, appValues)
	case 1:
		p.labels["version"] = pick(r, []string{"v1", "v2", "v3"})
	case 2:
		if p.labels["security.istio.io/tlsMode"] != "" {
			delete(p.labels, "security.istio.io/tlsMode")
		} else {
			p.labels["security.istio.io/tlsMode"] = "istio"
		}
	}
	s.tag("pod-relabel")
	s.emit(objID{kPod, p.ns, p.name}, "update", p.object(), "relabel "+p.describe())
}

// the EndpointSlice controller -----------------------------------------------------------

func selects(sel, lbl map[string]string) bool {
	if len(sel) == 0 {
		return false
	}
	for k, v := range sel {
		if lbl[k] != v {
			return false
		}
	}
	return true
}

func resolveTarget(t intstr.IntOrString) int32 {
	if t.Type == intstr.Int {
		return t.IntVal
	}
	switch t.StrVal {
	case "http":
		return 8080
	case "grpc":
		return 9090
	}
	return 0
}

func (s *sim) sliceName(v *svcSim, i int) string { return fmt.Sprintf("%s-s%d", v.name, i+1) }

func epsEqual(a, b []epSim) bool {
	if len(a) != len(b) {
		return false
	}
	for i := range a {
		if a[i] != b[i] {
			return false
		}
	}
	return true
}

func portsEqual(a, b []discoveryv1.EndpointPort) bool {
	if len(a) != len(b) {
		return false
	}
	for i := range a {
		if *a[i].Name != *b[i].Name || *a[i].Port != *b[i].Port {
			return false
		}
	}
	return true
}

// sliceSync brings the slices of one service up to date with the pods and the service.
func (s *sim) sliceSync(v *svcSim) {
	r := s.r
	want := make([][]epSim, v.maxSlices)
	var ports []discoveryv1.EndpointPort
	if v.exists && v.typ != "externalname" {
		for _, p := range v.ports {
			ports = append(ports, discoveryv1.EndpointPort{Name: strp(p.name), Port: i32p(resolveTarget(p.target)), Protocol: protop(corev1.ProtocolTCP)})
		}
		if v.typ == "selectorless" {
			for _, a := range v.manual {
				want[0] = append(want[0], epSim{ip: a, ready: true, serving: true})
			}
		} else {
			seen := map[string]bool{}
			for _, p := range s.livePods(func(p *podSim) bool { return p.ns == v.ns }) {
				if !selects(v.selector, p.labels) || p.ip == "" || p.phase != corev1.PodRunning {
					continue
				}
				seen[p.name] = true
				i, ok := v.assign[p.name]
				if !ok || i >= v.maxSlices {
					i = r.Intn(v.maxSlices)
					v.assign[p.name] = i
				}
				e := epSim{ip: p.ip, pod: p.name, uid: podUID(p.ns, p.name, p.inc), node: p.node, serving: p.ready, terminating: p.terminating}
				e.ready = (p.ready || v.publish) && !p.terminating
				want[i] = append(want[i], e)
			}
			for _, n := range sortedKeys(v.assign) {
				if !seen[n] {
					delete(v.assign, n)
				}
			}
		}
	}
	for i := 0; i < 3; i++ {
		name := s.sliceName(v, i)
		l := s.slices[v.ns+"/"+name]
		var eps []epSim
		if i < len(want) {
			eps = want[i]
			sort.Slice(eps, func(a, b int) bool { return eps[a].ip < eps[b].ip })
		}
		id := objID{kSlice, v.ns, name}
		gone := !v.exists || v.typ == "externalname"
		switch {
		case l == nil || !l.exists:
			if len(eps) == 0 {
				continue
			}
			if l == nil {
				l = &sliceSim{ns: v.ns, name: name, svc: v.name}
				s.slices[v.ns+"/"+name] = l
			}
			l.inc++
			l.exists, l.eps, l.ports = true, eps, ports
			s.emit(id, "create", l.object(), l.describe())
		case gone || (len(eps) == 0 && r.Intn(2) == 0):
			l.exists, l.eps = false, nil
			s.tag("slice-delete")
			s.emit(id, "delete", nil, "delete")
		case !epsEqual(l.eps, eps) || !portsEqual(l.ports, ports):
			l.eps, l.ports = eps, ports
			s.emit(id, "update", l.object(), l.describe())
		}
	}
}

func (l *sliceSim) describe() string {
	var es []string
	for _, e := range l.eps {
		c := ""
		if e.ready {
			c += "R"
		}
		if e.serving {
			c += "S"
		}
		if e.terminating {
			c += "T"
		}
		es = append(es, fmt.Sprintf("%s(%s,%s)", e.ip, e.pod, c))
	}
	var ps []string
	for _, p := range l.ports {
		ps = append(ps, fmt.Sprintf("%s:%d", *p.Name, *p.Port))
	}
	return fmt.Sprintf("svc=%s eps=%v ports=%v", l.svc, es, ps)
}

// sliceRebalance moves one endpoint to another slice of the same service: two updates whose
// relative order the slice controller does not promise.
func (s *sim) sliceRebalance() {
	r := s.r
	v := s.liveSvc()
	if v == nil || v.maxSlices < 2 || len(v.assign) == 0 || v.typ == "selectorless" || v.typ == "externalname" {
		return
	}
	pod := pick(r, sortedKeys(v.assign))
	from := v.assign[pod]
	to := (from + 1 + r.Intn(v.maxSlices-1)) % v.maxSlices
	src := s.slices[v.ns+"/"+s.sliceName(v, from)]
	if src == nil || !src.exists {
		return
	}
	var moved *epSim
	var rest []epSim
	for i := range src.eps {
		if src.eps[i].pod == pod {
			e := src.eps[i]
			moved = &e
		} else {
			rest = append(rest, src.eps[i])
		}
	}
	if moved == nil {
		return
	}
	v.assign[pod] = to
	s.tag("address-moves-between-slices")
	addFirst := r.Intn(2) == 0
	doAdd := func() {
		name := s.sliceName(v, to)
		dst := s.slices[v.ns+"/"+name]
		id := objID{kSlice, v.ns, name}
		if dst == nil || !dst.exists {
			if dst == nil {
				dst = &sliceSim{ns: v.ns, name: name, svc: v.name}
				s.slices[v.ns+"/"+name] = dst
			}
			dst.inc++
			dst.exists, dst.eps, dst.ports = true, []epSim{*moved}, src.ports
			s.emit(id, "create", dst.object(), "move-in "+dst.describe())
			return
		}
		dst.eps = append(append([]epSim{}, dst.eps...), *moved)
		sort.Slice(dst.eps, func(a, b int) bool { return dst.eps[a].ip < dst.eps[b].ip })
		s.emit(id, "update", dst.object(), "move-in "+dst.describe())
	}
	doRemove := func() {
		src.eps = rest
		s.emit(objID{kSlice, v.ns, src.name}, "update", src.object(), "move-out "+src.describe())
	}
	if addFirst {
		doAdd()
		doRemove()
	} else {
		doRemove()
		doAdd()
	}
}

// manualEndpoints edits the hand-written slice of a selector-less service (addresses that
// belong to no pod).
func (s *sim) manualEndpoints() {
	r := s.r
	for _, k := range sortedKeys(s.svcs) {
		v := s.svcs[k]
		if !v.exists || v.typ != "selectorless" {
			continue
		}
		a := fmt.Sprintf("172.16.0.%d", 1+r.Intn(3))
		found := -1
		for i, m := range v.manual {
			if m == a {
				found = i
			}
		}
		if found >= 0 {
			v.manual = append(append([]string{}, v.manual[:found]...), v.manual[found+1:]...)
		} else {
			v.manual = append(v.manual, a)
		}
		s.tag("manual-endpoints")
		s.sliceSync(v)
		return
	}
}
