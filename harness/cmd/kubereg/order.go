package main

// order.go: arrival orders. An arrival order is a linear extension of the history's partial
// order (each object's own sequence + the IP hand-over edges), optionally with replays
// (an unchanged object applied again, as an informer resync delivers it). Strategies bias the
// draw towards the shapes the controller's repair logic exists for; the shapes actually
// exercised are measured from the drawn order, not assumed from the strategy name.

import (
	"fmt"
	"math/rand"
	"sort"

	corev1 "k8s.io/api/core/v1"
	discoveryv1 "k8s.io/api/discovery/v1"
	kruntime "k8s.io/apimachinery/pkg/runtime"
)

type strategy struct {
	name string
	prio []objKind // kinds in the order they are drained; nil => other mechanisms
	lag  bool      // true history order with a random per-kind stream lag
	ser  bool      // one object at a time
	fifo bool      // every kind's own stream keeps the API server's order (only the streams interleave)
}

// strategies[0] is the true order; fifoStrategies keep each kind's stream in API-server order
// (tier "kind-streams": exactly the interleavings of per-type informer streams); objStrategies
// only keep each object's own order (tier "per-object": every such merge is itself a history a
// cluster can produce, since the per-object sequences and the IP hand-over edges are kept).
var strategies = []strategy{
	{name: "true-order"},
	{name: "stream-lag", lag: true, fifo: true},
	{name: "uniform-streams", fifo: true},
	{name: "streams:slices-first(slice,pod,svc,node,ns)", fifo: true, prio: []objKind{kSlice, kPod, kService, kNode, kNamespace}},
	{name: "streams:all-pods-last(ns,node,svc,slice,pod)", fifo: true, prio: []objKind{kNamespace, kNode, kService, kSlice, kPod}},
	{name: "streams:all-services-last(ns,node,pod,slice,svc)", fifo: true, prio: []objKind{kNamespace, kNode, kPod, kSlice, kService}},
	{name: "streams:reverse(slice,svc,pod,node,ns)", fifo: true, prio: []objKind{kSlice, kService, kPod, kNode, kNamespace}},
	{name: "streams:nodes-namespaces-last(svc,pod,slice,node,ns)", fifo: true, prio: []objKind{kService, kPod, kSlice, kNode, kNamespace}},
	{name: "streams:pods-first(pod,slice,svc,ns,node)", fifo: true, prio: []objKind{kPod, kSlice, kService, kNamespace, kNode}},
	{name: "uniform"},
	{name: "object-serial", ser: true},
	{name: "slices-first(slice,pod,svc,node,ns)", prio: []objKind{kSlice, kPod, kService, kNode, kNamespace}},
	{name: "all-pods-last(ns,node,svc,slice,pod)", prio: []objKind{kNamespace, kNode, kService, kSlice, kPod}},
	{name: "all-services-last(ns,node,pod,slice,svc)", prio: []objKind{kNamespace, kNode, kPod, kSlice, kService}},
	{name: "reverse(slice,svc,pod,node,ns)", prio: []objKind{kSlice, kService, kPod, kNode, kNamespace}},
	{name: "nodes-namespaces-last(svc,pod,slice,node,ns)", prio: []objKind{kService, kPod, kSlice, kNode, kNamespace}},
	{name: "pods-first(pod,slice,svc,ns,node)", prio: []objKind{kPod, kSlice, kService, kNamespace, kNode}},
}

// drawOrder returns the arrival order (a fresh slice of ops; replays are synthesized ops).
func drawOrder(r *rand.Rand, h *history, st strategy, replayPct int) []*op {
	n := len(h.Ops)
	done := make([]bool, n)
	prevOfObj := make([]int, n) // previous op of the same object, -1 if none
	last := map[objID]int{}
	for _, o := range h.Ops {
		if p, ok := last[o.Obj]; ok {
			prevOfObj[o.ID] = p
		} else {
			prevOfObj[o.ID] = -1
		}
		last[o.Obj] = o.ID
	}
	ready := func(o *op) bool {
		if done[o.ID] {
			return false
		}
		if p := prevOfObj[o.ID]; p >= 0 && !done[p] {
			return false
		}
		for _, d := range o.Deps {
			if !done[d] {
				return false
			}
		}
		return true
	}
	var lagOf [5]int
	if st.lag {
		for k := range lagOf {
			lagOf[k] = r.Intn(25)
		}
		lagOf[r.Intn(5)] = 0
	}
	rank := map[objKind]int{}
	for i, k := range st.prio {
		rank[k] = i
	}
	var out []*op
	present := map[objID]kruntime.Object{}
	var cur *objID
	for {
		var avail []*op
		for _, o := range h.Ops {
			if ready(o) {
				avail = append(avail, o)
			}
		}
		if len(avail) == 0 {
			break
		}
		var pickd *op
		switch {
		case st.name == "true-order":
			pickd = avail[0]
		case st.name == "uniform":
			pickd = avail[r.Intn(len(avail))]
		case st.name == "uniform-streams":
			k := avail[r.Intn(len(avail))].Obj.Kind
			for _, o := range avail {
				if o.Obj.Kind == k {
					pickd = o
					break
				}
			}
		case st.lag:
			best := 1 << 30
			for _, o := range avail {
				if v := o.ID + lagOf[o.Obj.Kind]; v < best {
					best, pickd = v, o
				}
			}
		case st.ser:
			if cur != nil {
				for _, o := range avail {
					if o.Obj == *cur {
						pickd = o
						break
					}
				}
			}
			if pickd == nil {
				pickd = avail[r.Intn(len(avail))]
				id := pickd.Obj
				cur = &id
			}
		default:
			if r.Intn(100) < 12 { // a little noise keeps the strata from being rigid
				pickd = avail[r.Intn(len(avail))]
				if st.fifo {
					for _, o := range avail {
						if o.Obj.Kind == pickd.Obj.Kind {
							pickd = o
							break
						}
					}
				}
				break
			}
			best := 99
			var cands []*op
			for _, o := range avail {
				if rk := rank[o.Obj.Kind]; rk < best {
					best, cands = rk, []*op{o}
				} else if rk == best {
					cands = append(cands, o)
				}
			}
			pickd = cands[r.Intn(len(cands))]
			if st.fifo {
				pickd = cands[0]
			}
		}
		done[pickd.ID] = true
		out = append(out, pickd)
		if pickd.Object != nil {
			present[pickd.Obj] = pickd.Object
		} else {
			delete(present, pickd.Obj)
		}
		if replayPct > 0 && len(present) > 0 && r.Intn(100) < replayPct {
			ids := make([]objID, 0, len(present))
			for id := range present {
				ids = append(ids, id)
			}
			sort.Slice(ids, func(i, j int) bool { return ids[i].String() < ids[j].String() })
			id := ids[r.Intn(len(ids))]
			out = append(out, &op{ID: -1, Obj: id, Verb: "replay", Object: present[id], Note: "unchanged object applied again"})
		}
	}
	if len(out) < n {
		panic(fmt.Sprintf("order generator stuck: %d of %d ops", len(out), n))
	}
	return out
}

// shapesOf measures which hard shapes an arrival order exercises.
func shapesOf(order []*op) map[string]bool {
	sh := map[string]bool{}
	present := map[objID]kruntime.Object{}
	everIP := map[string]objID{} // ip -> pod that last showed it in this arrival order
	seenPod := map[objID]bool{}
	pendingRef := map[objID]bool{} // pods referenced by an applied slice before they arrived ready
	podReady := func(id objID) (exists, ready bool) {
		o, ok := present[id]
		if !ok {
			return false, false
		}
		p := o.(*corev1.Pod)
		if p.Status.PodIP == "" || p.Status.Phase != corev1.PodRunning || p.DeletionTimestamp != nil {
			return true, false
		}
		for _, c := range p.Status.Conditions {
			if c.Type == corev1.PodReady && c.Status == corev1.ConditionTrue {
				return true, true
			}
		}
		return true, false
	}
	for _, o := range order {
		if o.Verb == "replay" {
			sh["replay:"+kindNames[o.Obj.Kind]] = true
			continue
		}
		switch o.Obj.Kind {
		case kSlice:
			if o.Object == nil {
				if old, ok := present[o.Obj]; ok {
					for _, e := range old.(*discoveryv1.EndpointSlice).Endpoints {
						if e.TargetRef != nil && pendingRef[objID{kPod, o.Obj.NS, e.TargetRef.Name}] {
							sh["slice-deleted-while-endpoint-waits-for-pod"] = true
						}
					}
				}
				break
			}
			sl := o.Object.(*discoveryv1.EndpointSlice)
			svcID := objID{kService, o.Obj.NS, sl.Labels[discoveryv1.LabelServiceName]}
			if _, ok := present[svcID]; !ok {
				sh["slice-before-service"] = true
			}
			now := map[string]bool{}
			for _, e := range sl.Endpoints {
				now[e.Addresses[0]] = true
				if e.TargetRef == nil {
					sh["endpoint-without-targetref"] = true
					continue
				}
				pid := objID{kPod, o.Obj.NS, e.TargetRef.Name}
				ex, rd := podReady(pid)
				if !ex {
					sh["slice-before-pod"] = true
					pendingRef[pid] = true
				} else if !rd {
					sh["slice-before-pod-ready"] = true
				}
				if e.Conditions.Terminating != nil && *e.Conditions.Terminating {
					sh["endpoint-terminating"] = true
				}
				if e.Conditions.Ready != nil && !*e.Conditions.Ready {
					sh["endpoint-not-ready"] = true
				}
				// duplicate across slices of the same service
				for id, other := range present {
					if id.Kind != kSlice || id == o.Obj || id.NS != o.Obj.NS {
						continue
					}
					os := other.(*discoveryv1.EndpointSlice)
					if os.Labels[discoveryv1.LabelServiceName] != sl.Labels[discoveryv1.LabelServiceName] {
						continue
					}
					for _, oe := range os.Endpoints {
						if oe.Addresses[0] == e.Addresses[0] {
							sh["address-in-two-slices-at-once"] = true
						}
					}
				}
			}
			if old, ok := present[o.Obj]; ok {
				for _, e := range old.(*discoveryv1.EndpointSlice).Endpoints {
					if !now[e.Addresses[0]] && e.TargetRef != nil && pendingRef[objID{kPod, o.Obj.NS, e.TargetRef.Name}] {
						sh["slice-update-removes-endpoint-waiting-for-pod"] = true
					}
				}
			}
		case kPod:
			if o.Object == nil {
				for id, other := range present {
					if id.Kind != kSlice || id.NS != o.Obj.NS {
						continue
					}
					for _, e := range other.(*discoveryv1.EndpointSlice).Endpoints {
						if e.TargetRef != nil && e.TargetRef.Name == o.Obj.Name {
							sh["pod-deleted-while-in-slice"] = true
						}
					}
				}
				break
			}
			p := o.Object.(*corev1.Pod)
			_, wasReady := podReady(o.Obj)
			oldObj := present[o.Obj]
			present[o.Obj] = o.Object
			_, isReady := podReady(o.Obj)
			if ip := p.Status.PodIP; ip != "" {
				if prev, ok := everIP[ip]; ok && prev != o.Obj {
					sh["ip-reuse-by-another-pod"] = true
				}
				if oldObj == nil && o.Verb == "create" {
					if prev, ok := everIP[ip]; ok && prev == o.Obj {
						sh["delete-recreate-same-ip"] = true
					}
				}
				everIP[ip] = o.Obj
			}
			if o.Verb == "create" && seenPod[o.Obj] {
				sh["pod-name-recreated"] = true
			}
			seenPod[o.Obj] = true
			if isReady && !wasReady && pendingRef[o.Obj] {
				sh["pod-arrives-ready-after-its-endpoint"] = true
				delete(pendingRef, o.Obj)
			}
			if oldObj != nil && isReady && wasReady {
				op := oldObj.(*corev1.Pod)
				if fmt.Sprint(op.Labels) != fmt.Sprint(p.Labels) {
					for id, other := range present {
						if id.Kind != kSlice || id.NS != o.Obj.NS {
							continue
						}
						for _, e := range other.(*discoveryv1.EndpointSlice).Endpoints {
							if e.TargetRef != nil && e.TargetRef.Name == o.Obj.Name {
								sh["label-change-of-pod-in-slice"] = true
							}
						}
					}
				}
			}
			if isReady {
				selected := false
				for id, other := range present {
					if id.Kind == kService && id.NS == o.Obj.NS && selects(other.(*corev1.Service).Spec.Selector, p.Labels) {
						selected = true
					}
				}
				if !selected {
					sh["ready-pod-without-service-yet"] = true
				}
			}
			if p.Spec.NodeName != "" {
				if _, ok := present[objID{kNode, "", p.Spec.NodeName}]; !ok {
					sh["pod-before-its-node"] = true
				}
			}
			if _, ok := present[objID{kNamespace, "", o.Obj.NS}]; !ok {
				sh["object-before-its-namespace"] = true
			}
		case kService:
			if o.Object == nil {
				sh["service-delete"] = true
				break
			}
			sv := o.Object.(*corev1.Service)
			_, had := present[o.Obj]
			for id, other := range present {
				if id.NS != o.Obj.NS {
					continue
				}
				switch id.Kind {
				case kPod:
					if _, rd := podReady(id); rd && !had && selects(sv.Spec.Selector, other.(*corev1.Pod).Labels) {
						sh["pod-before-service"] = true
					}
				case kSlice:
					if !had && other.(*discoveryv1.EndpointSlice).Labels[discoveryv1.LabelServiceName] == o.Obj.Name {
						sh["service-after-its-slices"] = true
					}
				}
			}
			if _, ok := present[objID{kNamespace, "", o.Obj.NS}]; !ok {
				sh["object-before-its-namespace"] = true
			}
			if had && o.Verb == "update" {
				sh["service-update"] = true
			}
		case kNode:
			for id, other := range present {
				if id.Kind == kPod && other.(*corev1.Pod).Spec.NodeName == o.Obj.Name {
					if o.Object == nil {
						sh["node-deleted-under-pod"] = true
					} else if _, had := present[o.Obj]; !had {
						sh["node-after-its-pod"] = true
					} else {
						sh["node-update-with-pods"] = true
					}
				}
			}
		case kNamespace:
			if _, had := present[o.Obj]; had && o.Object != nil {
				sh["namespace-update"] = true
			}
		}
		if o.Object != nil {
			present[o.Obj] = o.Object
		} else {
			delete(present, o.Obj)
		}
	}
	return sh
}

const firstObjStrategy = 9 // index of the first per-object strategy in strategies

// tierOf measures how far an arrival order departs from the API server's order.
func tierOf(order []*op) string {
	var lastOf [5]int
	for i := range lastOf {
		lastOf[i] = -1
	}
	last, global, streams := -1, true, true
	for _, o := range order {
		if o.Verb == "replay" {
			continue
		}
		if o.ID < last {
			global = false
		}
		last = o.ID
		if o.ID < lastOf[o.Obj.Kind] {
			streams = false
		}
		lastOf[o.Obj.Kind] = o.ID
	}
	switch {
	case global:
		return "true-order"
	case streams:
		return "kind-streams"
	}
	return "per-object"
}
