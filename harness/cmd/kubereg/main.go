// Engine kubereg serves C15: the Kubernetes service registry converges regardless of the order
// in which Service / EndpointSlice / Pod / Node / Namespace events arrive or are replayed.
package main

import (
	"fmt"
	"os"
	"sort"
	"strconv"
	"strings"
	"sync"

	kruntime "k8s.io/apimachinery/pkg/runtime"

	istiolog "istio.io/istio/pkg/log"

	"verifharness/internal/vh"
)

func main() {
	if len(os.Args) > 1 && os.Args[1] == "repro" {
		os.Exit(runRepro(os.Args[2:]))
	}
	vh.Main(vh.Prop{
		ID:    "C15",
		Level: "exploration",
		Rule: "case = (cluster history, arrival order). A history is a PRNG random walk of a simulated cluster (services incl. headless/" +
			"ExternalName/NodePort-gateway/selector-less with port, selector, label, exportTo edits; pods Pending->Running->Ready->" +
			"Terminating/Failed/deleted with IP assignment and reuse, label edits, re-creation with another service account; a lagging " +
			"EndpointSlice controller with several slices per service and address moves; nodes with topology labels; namespaces) ending " +
			"in a settled state. An arrival order is a linear extension of the per-object sequences (+ IP hand-over edges) drawn by a " +
			"biased strategy, with replays; its tier (true-order / kind-streams / per-object) is measured. The real kube controller " +
			"processes the order one op at a time (sentinel barrier after each op); its services, endpoint shards (addresses, ports, " +
			"health, labels, service account, locality, network), shard service-account sets, network gateways and per-pod proxy views " +
			"are compared with a controller cold-started on the final objects and with the true order of the same history; unequal after " +
			"two more barrier rounds => violation. The cold start's endpoint membership (address, port name, target port per service) " +
			"is additionally compared with a reference computed from the final EndpointSlices/Pods by their documented meaning alone " +
			"(catches a conversion that is wrong whatever the order). The key of a violation is the datum class, unless a ledger of the arrival order " +
			"(ledger.go, explain.go) recognises a root cause: the live value is exactly what the inputs at the endpoint's last documented " +
			"conversion occasion yield, the cold value what the final objects yield, and the inputs changed afterwards by an event that " +
			"gives the controller no occasion to convert again; then the key names that cause. Not asserted (counted): the endpoint " +
			"index of services exported to nobody by the final objects, the per-endpoint push hint SendUnhealthyEndpoints. " +
			"Plus hand-written directed orders, one per repair mechanism and one per recognised root cause (`kubereg repro <name>`). " +
			"Non-trivial = the order exercises at least one measured hard shape and the final state has at least one service; " +
			"distinct = distinct op sequence.",
		Assumptions: []string{
			"trusted base: client-go fake clientset/object tracker and shared informers deliver per-kind FIFO watch streams",
			"barrier: a sentinel of the op's kind through the same informer/handler/queue, observed at the far end (service label in GetService, EDSUpdate call for the sentinel hostname, ProxyUpdate for the sentinel pod address, sentinel node address among NetworkGateways, namespace annotation inherited by the sentinel service), then two service sentinels as queue markers; lost barrier => inconclusive",
			"trusted base: model.EndpointIndex driven by model.FakeEndpointIndexUpdater, which makes exactly the EndpointIndex calls of DiscoveryServer.EDSUpdate/EDSCacheUpdate/SvcUpdate/RemoveShard/PruneShard (pilot/pkg/xds/eds.go); pushes never write to the index",
			"the fake API server ignores field selectors: the pod watch status.phase!=Failed is reproduced by the harness (a pod turning Failed is delivered as a deletion, a Failed pod is never listed)",
			"final cluster states are settled (the EndpointSlice controller has caught up with pods and services)",
			"the cold start's informers deliver services and slices to the controller queue in scheduler-dependent order: the reference itself may show the service-event root cause (key suffix seen-in=cold-start)",
			"ENABLE_PROXY_FIND_POD_BY_IP=true so that the pod-by-IP index is observable through GetProxyServiceTargets/GetProxyWorkloadLabels",
		},
		Anchors:       []string{"pilot/pkg/serviceregistry/kube/controller/"},
		MinNontrivial: func(t string) int { return map[string]int{"quick": 40, "thorough": 1200}[t] },
		Batches:       func(t string) int { return map[string]int{"quick": 5, "thorough": 16}[t] },
		Parallel: func(t string) int {
			if n, err := strconv.Atoi(os.Getenv("KUBEREG_PARALLEL")); err == nil && n > 0 { // development aid on a shared machine
				return n
			}
			return map[string]int{"quick": 5, "thorough": 8}[t]
		},
		TimeoutSec: func(t string) int { return map[string]int{"quick": 600, "thorough": 3000}[t] },
		Env:        []string{"ENABLE_PROXY_FIND_POD_BY_IP=true"},
		Run:        run,
	})
}

var hardShapes = map[string]bool{
	"slice-before-pod": true, "slice-before-pod-ready": true, "pod-arrives-ready-after-its-endpoint": true,
	"slice-before-service": true, "service-after-its-slices": true, "pod-before-service": true,
	"ip-reuse-by-another-pod": true, "delete-recreate-same-ip": true, "pod-name-recreated": true,
	"address-in-two-slices-at-once": true, "slice-update-removes-endpoint-waiting-for-pod": true,
	"slice-deleted-while-endpoint-waits-for-pod": true, "label-change-of-pod-in-slice": true,
	"pod-deleted-while-in-slice": true, "pod-before-its-node": true, "node-after-its-pod": true,
	"object-before-its-namespace": true, "node-update-with-pods": true,
}

type orderRun struct {
	strat   string
	tier    string
	order   []*op
	shapes  map[string]bool
	snap    *snapshot
	w       *world
	lost    string
	replays int
	diffs   map[string]bool // live-vs-cold difference identities of this order
}

func run(c *vh.Ctx) {
	for _, s := range istiolog.Scopes() {
		s.SetOutputLevel(istiolog.NoneLevel)
	}
	for i, sc := range directed {
		if c.Mine(i) {
			runDirected(c, sc)
		}
	}
	nh, no := c.N(25, 400), c.N(4, 8)
	if os.Getenv("KUBEREG_ONLY") == "directed" { // development aid
		nh = 0
	}
	for hi := 0; hi < nh; hi++ {
		if c.Mine(hi) {
			runHistory(c, hi, no)
		}
	}
}

var (
	traitsOnce sync.Once
	traitsVal  traits
)

// controllerTraits measures, once per process, which occasions to convert the controller under
// test has (see traits in ledger.go): three tiny arrival orders against the real controller.
func controllerTraits() traits {
	traitsOnce.Do(func() {
		probe := func(name string, build func(b *sb)) *snapshot {
			b := &sb{final: map[objID]kruntime.Object{}}
			build(b)
			or := execOrder("probe-"+name, "probe", b.ops, b.final)
			defer or.w.close()
			if or.lost != "" {
				return nil
			}
			return or.snap
		}
		svcKey := string(svcHost("svc", "ns-a")) + " ns-a"
		if s := probe("replay", func(b *sb) {
			base(b)
			b.put(xSvc("svc", selA, nil), "service")
			b.put(xSlice("svc-s1", "svc", 8080, epNotReady("10.0.0.1", "p1", "node-1")), "slice names p1, unknown")
			b.put(xPod("p1", "10.0.0.1", "node-1", "sa-1", "running", lblA, 1), "p1 arrives not ready")
		}); s != nil {
			traitsVal.replayOnAnyArrival = len(s.Endpoints[svcKey]) > 0
		}
		if s := probe("relabel", func(b *sb) {
			base(b)
			b.put(xSvc("svc", selA, nil), "service")
			b.put(xPod("p1", "10.0.0.1", "node-1", "sa-1", "running", map[string]string{"app": "a", "security.istio.io/tlsMode": "istio"}, 1), "p1 not ready")
			b.put(xSlice("svc-s1", "svc", 8080, epNotReady("10.0.0.1", "p1", "node-1")), "slice")
			b.put(xPod("p1", "10.0.0.1", "node-1", "sa-1", "running", map[string]string{"app": "a"}, 1), "p1 relabelled while not ready")
		}); s != nil {
			for _, e := range s.Endpoints[svcKey] {
				traitsVal.relabelOutsideIndex = e["tlsMode"] == "disabled"
			}
		}
		if s := probe("match", func(b *sb) {
			base(b)
			b.put(xSvc("svc", selA, nil), "service")
			b.put(xPod("p1", "10.0.0.1", "node-1", "sa-1", "ready", lblA, 1), "p1 ready at .1")
			b.put(xSlice("svc-s1", "svc", 8080, epReady("10.0.0.2", "p1", "node-1")), "slice names p1 at .2")
		}); s != nil {
			traitsVal.strictPodMatch = len(s.Endpoints[svcKey]) == 0
		}
	})
	return traitsVal
}

func finalObjects(final map[objID]kruntime.Object) []kruntime.Object {
	ids := make([]objID, 0, len(final))
	for id := range final {
		ids = append(ids, id)
	}
	sort.Slice(ids, func(i, j int) bool { return ids[i].String() < ids[j].String() })
	objs := sentinelObjects()
	for _, id := range ids {
		objs = append(objs, final[id])
	}
	return objs
}

// execOrder runs one arrival order through a fresh controller and leaves the world open.
func execOrder(name, strat string, order []*op, final map[objID]kruntime.Object) *orderRun {
	or := &orderRun{strat: strat, order: order, shapes: shapesOf(order), tier: tierOf(order)}
	w := newWorld(name, sentinelObjects())
	or.w = w
	for _, o := range or.order {
		w.apply(o)
		if o.Verb == "replay" {
			or.replays++
		}
		if !w.barrier(o.Obj.Kind) {
			or.lost = fmt.Sprintf("barrier lost (%s) after %s", w.barrierLost, o)
			return or
		}
	}
	if !w.settle() || !w.settle() {
		or.lost = "barrier lost (" + w.barrierLost + ") while settling"
		return or
	}
	or.snap = w.snapshot(final, addressesOf(order))
	return or
}

func drawFor(c *vh.Ctx, h *history, hi, oi int) (string, []*op) {
	r := c.Rng("order", hi*64+oi)
	var st strategy
	replayPct := 0
	switch {
	case oi == 0:
		st = strategies[0]
	case oi%3 == 1: // interleavings of the per-kind streams
		st = strategies[1+r.Intn(firstObjStrategy-1)]
	case oi%3 == 2: // per-object merges
		st = strategies[firstObjStrategy+r.Intn(len(strategies)-firstObjStrategy)]
	default:
		st = strategies[1+r.Intn(len(strategies)-1)]
	}
	if oi > 0 {
		replayPct = []int{0, 8, 15}[r.Intn(3)]
	}
	return st.name, drawOrder(r, h, st, replayPct)
}

func describeOrder(order []*op) []string {
	out := make([]string, 0, len(order))
	for _, o := range order {
		out = append(out, o.String())
	}
	return out
}

func describeFinal(ops []*op, final map[objID]kruntime.Object) []string {
	var out []string
	last := map[objID]*op{}
	for _, o := range ops {
		if o.Verb != "replay" {
			last[o.Obj] = o
		}
	}
	for id := range final {
		out = append(out, id.String()+": "+last[id].Note)
	}
	sort.Strings(out)
	return out
}

// compare evaluates the oracle for one executed order. other (may be nil) is the true order of
// the same history. It returns false when the case is inconclusive.
func compare(c *vh.Ctx, or *orderRun, cw *world, other *orderRun, final map[objID]kruntime.Object, ops []*op, extra map[string]any) bool {
	x := newExplainer(or.order, final, cw)
	hidden := finalHidden(final)
	addrs := addressesOf(ops)
	coldSnap := cw.snapshot(final, addrs)
	diffs := diffSnap("live-vs-cold", or.snap, coldSnap, "live", "cold", x, hidden)
	rechecks := 0
	if asserted(diffs) > 0 {
		// unequal: two more barrier rounds on both controllers, then look again
		rechecks = 2
		for i := 0; i < 2; i++ {
			if !or.w.settle() || !cw.settle() {
				c.Inconclusive("barrier lost during re-check: " + or.w.barrierLost + cw.barrierLost)
				return false
			}
		}
		or.snap = or.w.snapshot(final, addrs)
		coldSnap = cw.snapshot(final, addrs)
		diffs = diffSnap("live-vs-cold", or.snap, coldSnap, "live", "cold", x, hidden)
		c.Count("rechecks_after_extra_barrier_rounds", 1)
	}
	or.diffs = map[string]bool{}
	for _, d := range diffs {
		or.diffs[d.ID] = true
	}
	// the cold start itself against the membership the final objects define
	refDiffs := diffReference(coldSnap, final, hidden)
	c.Count("reference_membership_checks", 1)
	diffs = append(diffs, refDiffs...)
	if other != nil {
		// two orders of one history against each other; what either already shows against
		// the cold start is not reported twice
		for _, d := range diffSnap("order-vs-order", or.snap, other.snap, "this-order", "true-order", nil, hidden) {
			if !or.diffs[d.ID] && !other.diffs[d.ID] {
				diffs = append(diffs, d)
			}
		}
	}
	ns, ne, np := coldSnap.counts()
	c.Count("services_compared", ns)
	c.Count("endpoints_compared", ne)
	c.Count("proxy_views_compared", np)
	c.Count("comparisons", 1+map[bool]int{true: 1, false: 0}[other != nil])
	c.Max("endpoints_in_final_state", ne)
	hard := 0
	for s := range or.shapes {
		if hardShapes[s] {
			hard++
		}
	}
	ids := make([]string, 0, len(or.order))
	for _, o := range or.order {
		ids = append(ids, fmt.Sprintf("%d%s", o.ID, o.Obj))
	}
	if hard > 0 && ns > 0 {
		c.Nontrivial(vh.Hash(or.w.name, ids))
	}
	c.SetAdd("tiers", or.tier)
	c.SetAdd("controller_traits_measured", fmt.Sprintf("%+v", controllerTraits()))
	sample := map[string]any{
		"strategy": or.strat, "tier": or.tier, "ops": len(or.order), "replays": or.replays,
		"shapes": sortedKeys(or.shapes), "final_services": ns, "final_endpoints": ne, "proxy_views": np,
		"first_ops": describeOrder(or.order[:min(8, len(or.order))]),
	}
	for k, v := range extra {
		sample[k] = v
	}
	c.Sample(sample)
	byKey := map[string][]string{}
	var keys []string
	for _, d := range diffs {
		if d.Unasserted != "" {
			c.Count(d.Unasserted, 1)
			continue
		}
		if d.Explained {
			c.Count("differences_with_recognised_root_cause", 1)
		} else {
			c.Count("differences_without_recognised_root_cause", 1)
		}
		if _, ok := byKey[d.Key]; !ok {
			keys = append(keys, d.Key)
		}
		byKey[d.Key] = append(byKey[d.Key], d.Detail)
	}
	for _, k := range keys {
		det := byKey[k]
		if len(det) > 6 {
			det = det[:6]
		}
		payload := map[string]any{
			"strategy": or.strat, "tier": or.tier,
			"differences":   det,
			"arrival_order": describeOrder(or.order),
			"final_objects": describeFinal(ops, final),
			"shapes":        sortedKeys(or.shapes),
		}
		for kk, v := range extra {
			payload[kk] = v
		}
		c.Violation(k, fmt.Sprintf("%s (strategy %s, tier %s, %d ops, %d differences of this kind; still unequal after %d extra barrier rounds)",
			det[0], or.strat, or.tier, len(or.order), len(byKey[k]), rechecks), payload)
	}
	return true
}

func asserted(diffs []diffEntry) int {
	n := 0
	for _, d := range diffs {
		if d.Unasserted == "" {
			n++
		}
	}
	return n
}

func account(c *vh.Ctx, or *orderRun) {
	c.Count("orders", 1)
	c.Count("ops_applied", or.w.opsApplied)
	c.Count("replays_applied", or.replays)
	c.Count("barrier_rounds", or.w.barrierRounds)
	c.Max("ops_per_order", len(or.order))
	c.SetAdd("strategies", or.strat)
	for _, s := range sortedKeys(or.shapes) {
		c.SetAdd("shapes_exercised", s)
	}
}

func runHistory(c *vh.Ctx, hi, no int) {
	var (
		h       *history
		cold    *world
		coldErr string
		first   *orderRun
	)
	hist := func() *history {
		if h == nil {
			r := c.Rng("history", hi)
			h = genHistory(r, 30+r.Intn(30))
			if os.Getenv("KUBEREG_DUMP") != "" {
				for _, o := range h.Ops {
					fmt.Fprintf(os.Stderr, "HIST %d %s deps=%v\n", hi, o, o.Deps)
				}
				for _, l := range describeFinal(h.Ops, h.Final) {
					fmt.Fprintf(os.Stderr, "FINAL %d %s\n", hi, l)
				}
			}
		}
		return h
	}
	defer func() { cold.close() }()
	getCold := func() *world {
		if cold == nil && coldErr == "" {
			cold = newWorld(fmt.Sprintf("cold-h%d", hi), finalObjects(hist().Final))
			if !cold.settle() || !cold.settle() {
				coldErr = "barrier lost (" + cold.barrierLost + ") in the cold-started controller"
			}
			c.Count("cold_starts", 1)
		}
		return cold
	}
	// the true order's run is needed by every other order of the history (also under replay,
	// when only one case runs): computed on demand, silently, including its own cold diff
	getFirst := func() *orderRun {
		if first == nil {
			_, ord := drawFor(c, hist(), hi, 0)
			or := execOrder(fmt.Sprintf("live-h%d-o0", hi), strategies[0].name, ord, hist().Final)
			if or.lost == "" {
				if cw := getCold(); coldErr == "" {
					or.diffs = map[string]bool{}
					for _, d := range diffSnap("live-vs-cold", or.snap, cw.snapshot(hist().Final, addressesOf(hist().Ops)), "live", "cold", nil, finalHidden(hist().Final)) {
						or.diffs[d.ID] = true
					}
				}
			}
			or.w.close()
			first = or
		}
		return first
	}
	counted := false
	for oi := 0; oi < no; oi++ {
		oi := oi
		c.Case(fmt.Sprintf("hist-%d/order-%d", hi, oi), func() {
			h := hist()
			if !counted {
				counted = true
				c.Count("histories", 1)
				c.Count("history_ops", len(h.Ops))
				c.Max("history_ops", len(h.Ops))
				for _, t := range sortedKeys(h.Tags) {
					c.SetAdd("history_features", t)
				}
			}
			strat, ord := drawFor(c, h, hi, oi)
			or := execOrder(fmt.Sprintf("live-h%d-o%d", hi, oi), strat, ord, h.Final)
			defer or.w.close()
			account(c, or)
			if or.lost != "" {
				c.Inconclusive(or.lost)
				return
			}
			cw := getCold()
			if coldErr != "" {
				c.Inconclusive(coldErr)
				return
			}
			var other *orderRun
			if oi > 0 {
				other = getFirst()
				if other.lost != "" {
					c.Inconclusive("true order of the history: " + other.lost)
					return
				}
			}
			ok := compare(c, or, cw, other, h.Final, h.Ops, map[string]any{"history": hi, "order": oi})
			if ok && oi == 0 {
				cp := *or
				cp.w = nil
				first = &cp
			}
		})
	}
}

func runDirected(c *vh.Ctx, sc scenario) {
	c.Case("directed/"+sc.name, func() {
		b := &sb{final: map[objID]kruntime.Object{}}
		sc.build(b)
		or := execOrder("directed-"+sc.name, "directed:"+sc.name, b.ops, b.final)
		defer or.w.close()
		or.tier = sc.tier
		if or.tier == "" {
			or.tier = "true-order"
		}
		account(c, or)
		c.Count("directed_orders", 1)
		if or.lost != "" {
			c.Inconclusive(or.lost)
			return
		}
		cw := newWorld("cold-"+sc.name, finalObjects(b.final))
		defer cw.close()
		c.Count("cold_starts", 1)
		if !cw.settle() || !cw.settle() {
			c.Inconclusive("barrier lost (" + cw.barrierLost + ") in the cold-started controller")
			return
		}
		compare(c, or, cw, nil, b.final, b.ops, map[string]any{"directed": sc.name, "about": sc.about})
	})
}

// runRepro: `kubereg repro [name...]` runs hand-written arrival orders (scenarios.go) against the
// real controller and prints the minimal world, what istio derived and what the property demands.
func runRepro(names []string) int {
	for _, s := range istiolog.Scopes() {
		s.SetOutputLevel(istiolog.NoneLevel)
	}
	if len(names) == 0 {
		for _, sc := range directed {
			fmt.Printf("%-55s %s\n", sc.name, sc.about)
		}
		return 0
	}
	rc := 0
	for _, name := range names {
		var sc *scenario
		for i := range directed {
			if directed[i].name == name || directed[i].name == "finding/"+name {
				sc = &directed[i]
			}
		}
		if sc == nil {
			fmt.Printf("unknown scenario %q\n", name)
			rc = 2
			continue
		}
		b := &sb{final: map[objID]kruntime.Object{}}
		sc.build(b)
		fmt.Printf("== %s: %s\n", sc.name, sc.about)
		fmt.Println("arrival order (each op is processed completely before the next is applied):")
		for i, o := range b.ops {
			fmt.Printf("  %2d %s %s [%s]\n", i, o.Verb, o.Obj, o.Note)
		}
		or := execOrder("repro-"+sc.name, "directed:"+sc.name, b.ops, b.final)
		if or.lost != "" {
			fmt.Println("inconclusive:", or.lost)
			or.w.close()
			rc = 3
			continue
		}
		cw := newWorld("cold-"+sc.name, finalObjects(b.final))
		if !cw.settle() || !cw.settle() {
			fmt.Println("inconclusive: barrier lost in the cold-started controller")
			or.w.close()
			cw.close()
			rc = 3
			continue
		}
		live, cold := or.snap, cw.snapshot(b.final, addressesOf(b.ops))
		for _, k := range unionKeys(live.Endpoints, cold.Endpoints) {
			for _, ek := range unionKeys(live.Endpoints[k], cold.Endpoints[k]) {
				fmt.Printf("  istio, lived through the order: [%s] [%s] %s\n", k, ek, renderMap(live.Endpoints[k][ek]))
				fmt.Printf("  istio, cold start on final objs: [%s] [%s] %s\n", k, ek, renderMap(cold.Endpoints[k][ek]))
			}
			fmt.Printf("  shard service accounts: live=%q cold=%q\n", live.ShardSAs[k], cold.ShardSAs[k])
		}
		fmt.Printf("  network gateways: live=%q cold=%q\n", live.Misc["networkGateways"], cold.Misc["networkGateways"])
		diffs := diffSnap("live-vs-cold", live, cold, "live", "cold", newExplainer(b.ops, b.final, cw), finalHidden(b.final))
		diffs = append(diffs, diffReference(cold, b.final, finalHidden(b.final))...)
		fmt.Println("the property demands: no difference between the two (state depends only on the final objects)")
		if len(diffs) == 0 {
			fmt.Println("  no difference")
		}
		for _, d := range diffs {
			if d.Unasserted != "" {
				fmt.Printf("  NOT ASSERTED (%s): %s\n", d.Unasserted, d.Detail)
				continue
			}
			rc = 1
			fmt.Printf("  DIFFERENCE key=%s\n      %s\n", strings.Join(strings.Fields(d.Key), "_"), d.Detail)
		}
		or.w.close()
		cw.close()
	}
	return rc
}
