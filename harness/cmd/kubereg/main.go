// Engine kubereg serves C15: the Kubernetes service registry converges regardless of the order
// in which Service / EndpointSlice / Pod / Node / Namespace events arrive or are replayed.
package main

import (
	"fmt"
	"os"
	"sort"
	"strings"

	corev1 "k8s.io/api/core/v1"
	kruntime "k8s.io/apimachinery/pkg/runtime"

	istiolog "istio.io/istio/pkg/log"

	"verifharness/internal/vh"
)

func main() {
	vh.Main(vh.Prop{
		ID:    "C15",
		Level: "exploration",
		Rule: "case = (cluster history, arrival order). A history is a PRNG random walk of a simulated cluster (services incl. headless/" +
			"ExternalName/NodePort-gateway/selector-less with port, selector, label, exportTo edits; pods Pending->Running->Ready->" +
			"Terminating/Failed/deleted with IP assignment and reuse, label edits, re-creation with another service account; a lagging " +
			"EndpointSlice controller with several slices per service and address moves; nodes with topology labels; namespaces) ending " +
			"in a settled state. An arrival order is a linear extension of the per-object sequences (+ IP hand-over edges) drawn by a " +
			"biased strategy, with replays; its tier (true-order / kind-streams / per-object) is measured. The real kube controller " +
			"processes the order one op at a time (sentinel barrier after each op); its services, endpoint shards and per-pod proxy " +
			"views are compared with a controller cold-started on the final objects and with the true order of the same history. " +
			"Plus hand-written directed orders, one per repair mechanism. Non-trivial = the order exercises at least one measured hard " +
			"shape and the final state has at least one service; distinct = distinct op sequence.",
		Assumptions: []string{
			"trusted base: client-go fake clientset/object tracker and shared informers deliver per-kind FIFO watch streams",
			"trusted base: model.EndpointIndex driven exactly as DiscoveryServer.EDSUpdate/EDSCacheUpdate/SvcUpdate drive it",
			"field selector status.phase!=Failed is not enforced by the fake API server: Failed pods stay visible to the controller",
			"final cluster states are settled (the EndpointSlice controller has caught up with pods and services)",
			"ENABLE_PROXY_FIND_POD_BY_IP=true so that the pod-by-IP index is observable through GetProxyServiceTargets/GetProxyWorkloadLabels",
		},
		Anchors:       []string{"pilot/pkg/serviceregistry/kube/controller/"},
		MinNontrivial: func(t string) int { return map[string]int{"quick": 40, "thorough": 1200}[t] },
		Batches:       func(t string) int { return map[string]int{"quick": 5, "thorough": 8}[t] },
		Parallel:      func(t string) int { return map[string]int{"quick": 5, "thorough": 8}[t] },
		TimeoutSec:    func(t string) int { return map[string]int{"quick": 600, "thorough": 3000}[t] },
		Env:           []string{"ENABLE_PROXY_FIND_POD_BY_IP=true"},
		Run:           run,
	})
}

var hardShapes = map[string]bool{
	"slice-before-pod": true, "slice-before-pod-ready": true, "pod-arrives-ready-after-its-endpoint": true,
	"slice-before-service": true, "service-after-its-slices": true, "pod-before-service": true,
	"ip-reuse-by-another-pod": true, "delete-recreate-same-ip": true, "pod-name-recreated": true,
	"address-in-two-slices-at-once": true, "slice-update-removes-endpoint-waiting-for-pod": true,
	"slice-deleted-while-endpoint-waits-for-pod": true, "label-change-of-pod-in-slice": true,
	"pod-deleted-while-in-slice": true, "pod-before-its-node": true, "node-after-its-pod": true,
	"object-before-its-namespace": true, "node-update-with-pods": true,
}

type orderRun struct {
	strat   string
	tier    string
	order   []*op
	shapes  map[string]bool
	snap    *snapshot
	w       *world
	lost    string
	replays int
	diffs   map[string]bool // live-vs-cold difference identities of this order
}

func run(c *vh.Ctx) {
	for _, s := range istiolog.Scopes() {
		s.SetOutputLevel(istiolog.NoneLevel)
	}
	for i, sc := range directed {
		if c.Mine(i) {
			runDirected(c, sc)
		}
	}
	nh, no := c.N(25, 400), c.N(4, 8)
	if os.Getenv("KUBEREG_ONLY") == "directed" { // development aid
		nh = 0
	}
	for hi := 0; hi < nh; hi++ {
		if c.Mine(hi) {
			runHistory(c, hi, no)
		}
	}
}

func finalObjects(final map[objID]kruntime.Object) []kruntime.Object {
	ids := make([]objID, 0, len(final))
	for id := range final {
		ids = append(ids, id)
	}
	sort.Slice(ids, func(i, j int) bool { return ids[i].String() < ids[j].String() })
	objs := sentinelObjects()
	for _, id := range ids {
		objs = append(objs, final[id])
	}
	return objs
}

// execOrder runs one arrival order through a fresh controller and leaves the world open.
func execOrder(name, strat string, order []*op, final map[objID]kruntime.Object) *orderRun {
	or := &orderRun{strat: strat, order: order, shapes: shapesOf(order), tier: tierOf(order)}
	w := newWorld(name, sentinelObjects())
	or.w = w
	for _, o := range or.order {
		w.apply(o)
		if o.Verb == "replay" {
			or.replays++
		}
		if !w.barrier(o.Obj.Kind) {
			or.lost = fmt.Sprintf("barrier lost (%s) after %s", w.barrierLost, o)
			return or
		}
	}
	if !w.settle() || !w.settle() {
		or.lost = "barrier lost (" + w.barrierLost + ") while settling"
		return or
	}
	or.snap = w.snapshot(final, addressesOf(order))
	return or
}

func drawFor(c *vh.Ctx, h *history, hi, oi int) (string, []*op) {
	r := c.Rng("order", hi*64+oi)
	var st strategy
	replayPct := 0
	switch {
	case oi == 0:
		st = strategies[0]
	case oi%3 == 1: // interleavings of the per-kind streams
		st = strategies[1+r.Intn(firstObjStrategy-1)]
	case oi%3 == 2: // per-object merges
		st = strategies[firstObjStrategy+r.Intn(len(strategies)-firstObjStrategy)]
	default:
		st = strategies[1+r.Intn(len(strategies)-1)]
	}
	if oi > 0 {
		replayPct = []int{0, 8, 15}[r.Intn(3)]
	}
	return st.name, drawOrder(r, h, st, replayPct)
}

func describeOrder(order []*op) []string {
	out := make([]string, 0, len(order))
	for _, o := range order {
		out = append(out, o.String())
	}
	return out
}

func describeFinal(ops []*op, final map[objID]kruntime.Object) []string {
	var out []string
	last := map[objID]*op{}
	for _, o := range ops {
		if o.Verb != "replay" {
			last[o.Obj] = o
		}
	}
	for id := range final {
		out = append(out, id.String()+": "+last[id].Note)
	}
	sort.Strings(out)
	return out
}

// qualifiers from the final objects (see quals).
func svcQualifier(final map[objID]kruntime.Object, ops []*op) quals {
	hidden := func(o kruntime.Object) bool {
		for _, e := range strings.Split(o.(*corev1.Service).Annotations["networking.istio.io/exportTo"], ",") {
			if strings.TrimSpace(e) == "~" {
				return true
			}
		}
		return false
	}
	wasHidden := map[objID]bool{}
	for _, o := range ops {
		if o.Obj.Kind == kService && o.Object != nil && hidden(o.Object) {
			wasHidden[o.Obj] = true
		}
	}
	return quals{
		svc: func(k string) string {
			hostNS := strings.SplitN(k, " ", 2)
			p := strings.Split(hostNS[0], ".")
			name, ns := p[0], ""
			if len(p) > 1 {
				ns = p[1]
			}
			o, ok := final[objID{kService, ns, name}]
			switch {
			case !ok:
				return ":svc=absent"
			case hidden(o):
				return ":svc=exported-to-nobody"
			case wasHidden[objID{kService, ns, name}]:
				// while a service is exported to nobody its endpoints are not maintained; what
				// it shows after becoming visible again is a failure of its own kind
				return ":svc=was-exported-to-nobody"
			}
			return ""
		},
		pod: func(ns, name string) string {
			o, ok := final[objID{kPod, ns, name}]
			if !ok {
				return "pod-absent"
			}
			p := o.(*corev1.Pod)
			if p.Status.PodIP != "" && p.Status.Phase == corev1.PodRunning && p.DeletionTimestamp == nil {
				for _, c := range p.Status.Conditions {
					if c.Type == corev1.PodReady && c.Status == corev1.ConditionTrue {
						return "pod-ready"
					}
				}
			}
			return "pod-not-ready"
		},
	}
}

// compare evaluates the oracle for one executed order. other (may be nil) is the true order of
// the same history. It returns false when the case is inconclusive.
func compare(c *vh.Ctx, or *orderRun, cw *world, other *orderRun, final map[objID]kruntime.Object, ops []*op, extra map[string]any) bool {
	q := svcQualifier(final, ops)
	addrs := addressesOf(ops)
	coldSnap := cw.snapshot(final, addrs)
	diffs := diffSnap("live-vs-cold", or.snap, coldSnap, "live", "cold", q)
	rechecks := 0
	if len(diffs) > 0 {
		// unequal: two more barrier rounds on both controllers, then look again
		rechecks = 2
		for i := 0; i < 2; i++ {
			if !or.w.settle() || !cw.settle() {
				c.Inconclusive("barrier lost during re-check: " + or.w.barrierLost + cw.barrierLost)
				return false
			}
		}
		or.snap = or.w.snapshot(final, addrs)
		coldSnap = cw.snapshot(final, addrs)
		diffs = diffSnap("live-vs-cold", or.snap, coldSnap, "live", "cold", q)
		c.Count("rechecks_after_extra_barrier_rounds", 1)
	}
	or.diffs = map[string]bool{}
	for _, d := range diffs {
		or.diffs[d.ID] = true
	}
	if other != nil {
		// two orders of one history against each other; what either already shows against
		// the cold start is not reported twice
		for _, d := range diffSnap("order-vs-order", or.snap, other.snap, "this-order", "true-order", q) {
			if !or.diffs[d.ID] && !other.diffs[d.ID] {
				diffs = append(diffs, d)
			}
		}
	}
	ns, ne, np := coldSnap.counts()
	c.Count("services_compared", ns)
	c.Count("endpoints_compared", ne)
	c.Count("proxy_views_compared", np)
	c.Count("comparisons", 1+map[bool]int{true: 1, false: 0}[other != nil])
	c.Max("endpoints_in_final_state", ne)
	hard := 0
	for s := range or.shapes {
		if hardShapes[s] {
			hard++
		}
	}
	ids := make([]string, 0, len(or.order))
	for _, o := range or.order {
		ids = append(ids, fmt.Sprintf("%d%s", o.ID, o.Obj))
	}
	if hard > 0 && ns > 0 {
		c.Nontrivial(vh.Hash(or.w.name, ids))
	}
	c.SetAdd("tiers", or.tier)
	sample := map[string]any{
		"strategy": or.strat, "tier": or.tier, "ops": len(or.order), "replays": or.replays,
		"shapes": sortedKeys(or.shapes), "final_services": ns, "final_endpoints": ne, "proxy_views": np,
		"first_ops": describeOrder(or.order[:min(8, len(or.order))]),
	}
	for k, v := range extra {
		sample[k] = v
	}
	c.Sample(sample)
	if len(diffs) == 0 {
		return true
	}
	byKey := map[string][]string{}
	var keys []string
	for _, d := range diffs {
		k := d.keyOf(or.tier)
		if _, ok := byKey[k]; !ok {
			keys = append(keys, k)
		}
		byKey[k] = append(byKey[k], d.Detail)
	}
	for _, k := range keys {
		det := byKey[k]
		if len(det) > 6 {
			det = det[:6]
		}
		payload := map[string]any{
			"strategy": or.strat, "tier": or.tier,
			"differences":   det,
			"arrival_order": describeOrder(or.order),
			"final_objects": describeFinal(ops, final),
			"shapes":        sortedKeys(or.shapes),
		}
		for kk, v := range extra {
			payload[kk] = v
		}
		c.Violation(k, fmt.Sprintf("%s (strategy %s, %d ops, %d differences of this kind; still unequal after %d extra barrier rounds)",
			det[0], or.strat, len(or.order), len(byKey[k]), rechecks), payload)
	}
	return true
}

func account(c *vh.Ctx, or *orderRun) {
	c.Count("orders", 1)
	c.Count("ops_applied", or.w.opsApplied)
	c.Count("replays_applied", or.replays)
	c.Count("barrier_rounds", or.w.barrierRounds)
	c.Max("ops_per_order", len(or.order))
	c.SetAdd("strategies", or.strat)
	for _, s := range sortedKeys(or.shapes) {
		c.SetAdd("shapes_exercised", s)
	}
}

func runHistory(c *vh.Ctx, hi, no int) {
	var (
		h       *history
		cold    *world
		coldErr string
		first   *orderRun
	)
	hist := func() *history {
		if h == nil {
			r := c.Rng("history", hi)
			h = genHistory(r, 30+r.Intn(30))
			if os.Getenv("KUBEREG_DUMP") != "" {
				for _, o := range h.Ops {
					fmt.Fprintf(os.Stderr, "HIST %d %s deps=%v\n", hi, o, o.Deps)
				}
				for _, l := range describeFinal(h.Ops, h.Final) {
					fmt.Fprintf(os.Stderr, "FINAL %d %s\n", hi, l)
				}
			}
		}
		return h
	}
	defer func() { cold.close() }()
	getCold := func() *world {
		if cold == nil && coldErr == "" {
			cold = newWorld(fmt.Sprintf("cold-h%d", hi), finalObjects(hist().Final))
			if !cold.settle() || !cold.settle() {
				coldErr = "barrier lost (" + cold.barrierLost + ") in the cold-started controller"
			}
			c.Count("cold_starts", 1)
		}
		return cold
	}
	// the true order's run is needed by every other order of the history (also under replay,
	// when only one case runs): computed on demand, silently, including its own cold diff
	getFirst := func() *orderRun {
		if first == nil {
			_, ord := drawFor(c, hist(), hi, 0)
			or := execOrder(fmt.Sprintf("live-h%d-o0", hi), strategies[0].name, ord, hist().Final)
			if or.lost == "" {
				if cw := getCold(); coldErr == "" {
					or.diffs = map[string]bool{}
					for _, d := range diffSnap("live-vs-cold", or.snap, cw.snapshot(hist().Final, addressesOf(hist().Ops)), "live", "cold", svcQualifier(hist().Final, hist().Ops)) {
						or.diffs[d.ID] = true
					}
				}
			}
			or.w.close()
			first = or
		}
		return first
	}
	counted := false
	for oi := 0; oi < no; oi++ {
		oi := oi
		c.Case(fmt.Sprintf("hist-%d/order-%d", hi, oi), func() {
			h := hist()
			if !counted {
				counted = true
				c.Count("histories", 1)
				c.Count("history_ops", len(h.Ops))
				c.Max("history_ops", len(h.Ops))
				for _, t := range sortedKeys(h.Tags) {
					c.SetAdd("history_features", t)
				}
			}
			strat, ord := drawFor(c, h, hi, oi)
			or := execOrder(fmt.Sprintf("live-h%d-o%d", hi, oi), strat, ord, h.Final)
			defer or.w.close()
			account(c, or)
			if or.lost != "" {
				c.Inconclusive(or.lost)
				return
			}
			cw := getCold()
			if coldErr != "" {
				c.Inconclusive(coldErr)
				return
			}
			var other *orderRun
			if oi > 0 {
				other = getFirst()
				if other.lost != "" {
					c.Inconclusive("true order of the history: " + other.lost)
					return
				}
			}
			ok := compare(c, or, cw, other, h.Final, h.Ops, map[string]any{"history": hi, "order": oi})
			if ok && oi == 0 {
				cp := *or
				cp.w = nil
				first = &cp
			}
		})
	}
}

func runDirected(c *vh.Ctx, sc scenario) {
	c.Case("directed/"+sc.name, func() {
		b := &sb{final: map[objID]kruntime.Object{}}
		sc.build(b)
		or := execOrder("directed-"+sc.name, "directed:"+sc.name, b.ops, b.final)
		defer or.w.close()
		or.tier = sc.tier
		if or.tier == "" {
			or.tier = "true-order"
		}
		account(c, or)
		c.Count("directed_orders", 1)
		if or.lost != "" {
			c.Inconclusive(or.lost)
			return
		}
		cw := newWorld("cold-"+sc.name, finalObjects(b.final))
		defer cw.close()
		c.Count("cold_starts", 1)
		if !cw.settle() || !cw.settle() {
			c.Inconclusive("barrier lost (" + cw.barrierLost + ") in the cold-started controller")
			return
		}
		compare(c, or, cw, nil, b.final, b.ops, map[string]any{"directed": sc.name, "about": sc.about})
	})
}
