package main

// world.go: one real kube service-registry controller (fake clientset, real informers, real
// queue) plus the logical barrier that makes the *processing* order equal the applied order.

import (
	"context"
	"fmt"
	"runtime"
	"sync"
	"time"

	corev1 "k8s.io/api/core/v1"
	discoveryv1 "k8s.io/api/discovery/v1"
	metav1 "k8s.io/apimachinery/pkg/apis/meta/v1"
	kruntime "k8s.io/apimachinery/pkg/runtime"
	"k8s.io/apimachinery/pkg/util/intstr"

	meshconfig "istio.io/api/mesh/v1alpha1"
	"istio.io/istio/pilot/pkg/model"
	"istio.io/istio/pilot/pkg/serviceregistry/aggregate"
	kubecontroller "istio.io/istio/pilot/pkg/serviceregistry/kube/controller"
	"istio.io/istio/pkg/cluster"
	"istio.io/istio/pkg/config/host"
	"istio.io/istio/pkg/config/mesh/meshwatcher"
	kubelib "istio.io/istio/pkg/kube"
	"istio.io/istio/pkg/util/sets"

	"verifharness/internal/vh"
)

const (
	barrierNS     = "verif-barrier"
	systemNS      = "istio-system"
	domainSuffix  = "cluster.local"
	sentinelSvc   = "sentinel"
	sentinelNP    = "sentinel-np"
	sentinelSlice = "sentinel-slice"
	sentinelPod   = "sentinel-pod"
	sentinelNode  = "verif-sentinel-node"
	watchdog      = 60 * time.Second
	tdAnnotation  = "networking.istio.io/traffic-distribution"
	nodeSelAnno   = "traffic.istio.io/nodeSelector"
	networkLabel  = "topology.istio.io/network"
)

// recUpdater is the XDSUpdater handed to the controller. It performs exactly the EndpointIndex
// calls DiscoveryServer.EDSUpdate/EDSCacheUpdate/SvcUpdate/RemoveShard/PruneShard perform (by
// delegating to model.FakeEndpointIndexUpdater over a real model.EndpointIndex) and records the
// ProxyUpdate addresses, which is the only far-end trace a pod event leaves.
type recUpdater struct {
	d *model.FakeEndpointIndexUpdater

	mu       sync.Mutex
	proxyIPs map[string]int
	calls    map[string]int
	// order of the controller's calls per hostname: when the service was first announced, and when
	// its slices were last converted and pushed (EDSUpdate; EDSCacheUpdate re-sends converted endpoints)
	seq        int
	svcFirstAt map[string]int
	firstSeen  map[*model.IstioEndpoint]int // when a converted endpoint object was first handed over
	edsCalls   map[string]int               // EDSUpdate calls per hostname
	idx        *model.EndpointIndex
}

func (u *recUpdater) edsCallsFor(host string) int {
	u.mu.Lock()
	defer u.mu.Unlock()
	return u.edsCalls[host]
}

func newRecUpdater(idx *model.EndpointIndex) *recUpdater {
	return &recUpdater{d: model.NewEndpointIndexUpdater(idx), proxyIPs: map[string]int{}, calls: map[string]int{},
		svcFirstAt: map[string]int{}, firstSeen: map[*model.IstioEndpoint]int{}, edsCalls: map[string]int{}, idx: idx}
}

func (u *recUpdater) sawEndpoints(eps []*model.IstioEndpoint) {
	u.mu.Lock()
	u.seq++
	for _, e := range eps {
		if _, ok := u.firstSeen[e]; !ok {
			u.firstSeen[e] = u.seq
		}
	}
	u.mu.Unlock()
}

// convertedBeforeServiceKnown: the endpoint object the index holds for (host, addr, port) was
// handed over by the controller before it announced the service (the service handler stores
// the service, then announces it; an endpoint is a fresh object per conversion).
func (u *recUpdater) convertedBeforeServiceKnown(host, ns, addr, port string) bool {
	sh, ok := u.idx.ShardsForService(host, ns)
	if !ok {
		return false
	}
	var found []*model.IstioEndpoint
	sh.RLock()
	for _, eps := range sh.Shards {
		for _, e := range eps {
			if e.FirstAddressOrNil() == addr && e.ServicePortName == port {
				found = append(found, e)
			}
		}
	}
	sh.RUnlock()
	u.mu.Lock()
	defer u.mu.Unlock()
	s, known := u.svcFirstAt[host]
	if !known || len(found) == 0 {
		return false
	}
	for _, e := range found {
		if at, ok := u.firstSeen[e]; !ok || at > s {
			return false
		}
	}
	return true
}

func (u *recUpdater) count(what string) {
	u.mu.Lock()
	u.calls[what]++
	u.mu.Unlock()
}

func (u *recUpdater) ConfigUpdate(req *model.PushRequest) {
	u.count("ConfigUpdate")
	u.d.ConfigUpdate(req)
}
func (u *recUpdater) EDSUpdate(s model.ShardKey, h, ns string, e []*model.IstioEndpoint) {
	u.count("EDSUpdate")
	u.sawEndpoints(e)
	defer func() { // after the index has been written
		u.mu.Lock()
		u.edsCalls[h]++
		u.mu.Unlock()
	}()
	u.d.EDSUpdate(s, h, ns, e)
}

func (u *recUpdater) EDSCacheUpdate(s model.ShardKey, h, ns string, e []*model.IstioEndpoint) {
	u.count("EDSCacheUpdate")
	u.sawEndpoints(e)
	u.d.EDSCacheUpdate(s, h, ns, e)
}

func (u *recUpdater) SvcUpdate(s model.ShardKey, h, ns string, ev model.Event) {
	u.count("SvcUpdate")
	u.mu.Lock()
	u.seq++
	if _, ok := u.svcFirstAt[h]; !ok && ev != model.EventDelete {
		u.svcFirstAt[h] = u.seq
	}
	u.mu.Unlock()
	u.d.SvcUpdate(s, h, ns, ev)
}

func (u *recUpdater) ProxyUpdate(c cluster.ID, ip string) {
	u.mu.Lock()
	u.proxyIPs[ip]++
	u.calls["ProxyUpdate"]++
	u.mu.Unlock()
	u.d.ProxyUpdate(c, ip)
}
func (u *recUpdater) RemoveShard(k model.ShardKey) { u.count("RemoveShard"); u.d.RemoveShard(k) }
func (u *recUpdater) PruneShard(k model.ShardKey, keep map[string]sets.String) {
	u.count("PruneShard")
	u.d.PruneShard(k, keep)
}

func (u *recUpdater) sawProxy(ip string) bool {
	u.mu.Lock()
	defer u.mu.Unlock()
	return u.proxyIPs[ip] > 0
}

type world struct {
	name   string
	f      *vh.F
	client kubelib.Client
	ctl    *kubecontroller.FakeController
	idx    *model.EndpointIndex
	upd    *recUpdater
	agg    *aggregate.Controller

	gen           int // sentinel generation
	nsToggle      int
	sysNetwork    string // network label of the latest applied system namespace object
	barrierRounds int
	barrierLost   string
	opsApplied    int
	podKnown      map[objID]bool // pods the pod watch (field selector status.phase!=Failed) currently shows
}

func svcHost(name, ns string) host.Name {
	return host.Name(name + "." + ns + ".svc." + domainSuffix)
}

func genIP(prefix, g int) string { return fmt.Sprintf("10.%d.%d.%d", prefix, (g>>8)&255, g&255) }

// sentinel objects --------------------------------------------------------------------

func sentinelObjects() []kruntime.Object {
	tr := true
	return []kruntime.Object{
		&corev1.Namespace{ObjectMeta: metav1.ObjectMeta{Name: barrierNS, Annotations: map[string]string{tdAnnotation: "PreferSameZone"}}},
		&corev1.Service{
			ObjectMeta: metav1.ObjectMeta{Name: sentinelSvc, Namespace: barrierNS, Labels: map[string]string{"verif-gen": "0"}},
			Spec: corev1.ServiceSpec{
				ClusterIP: "10.96.255.1", Selector: map[string]string{"verif-sentinel": "1"},
				Ports: []corev1.ServicePort{{Name: "http", Port: 80, Protocol: corev1.ProtocolTCP, TargetPort: intstr.FromInt32(80)}},
			},
		},
		&corev1.Service{
			ObjectMeta: metav1.ObjectMeta{
				Name: sentinelNP, Namespace: barrierNS,
				Labels:      map[string]string{networkLabel: "verif-sentinel-net"},
				Annotations: map[string]string{nodeSelAnno: `{"verif-sentinel-node":"1"}`},
			},
			Spec: corev1.ServiceSpec{
				Type: corev1.ServiceTypeNodePort, ClusterIP: "10.96.255.2",
				Ports: []corev1.ServicePort{{Name: "tls", Port: 15443, NodePort: 31443, Protocol: corev1.ProtocolTCP, TargetPort: intstr.FromInt32(15443)}},
			},
		},
		&discoveryv1.EndpointSlice{
			ObjectMeta:  metav1.ObjectMeta{Name: sentinelSlice, Namespace: barrierNS, Labels: map[string]string{discoveryv1.LabelServiceName: sentinelSvc}},
			AddressType: discoveryv1.AddressTypeIPv4,
			Endpoints:   []discoveryv1.Endpoint{{Addresses: []string{genIP(251, 0)}, Conditions: discoveryv1.EndpointConditions{Ready: &tr}}},
			Ports:       []discoveryv1.EndpointPort{{Name: strp("http"), Port: i32p(80), Protocol: protop(corev1.ProtocolTCP)}},
		},
		sentinelPodObj(0),
		sentinelNodeObj(0),
	}
}

func sentinelPodObj(g int) *corev1.Pod {
	return &corev1.Pod{
		ObjectMeta: metav1.ObjectMeta{Name: sentinelPod, Namespace: barrierNS, Labels: map[string]string{"verif-sentinel": "1"}},
		Spec:       corev1.PodSpec{ServiceAccountName: "sentinel", Containers: []corev1.Container{{Name: "c"}}},
		Status: corev1.PodStatus{
			Phase: corev1.PodRunning, PodIP: genIP(252, g), PodIPs: []corev1.PodIP{{IP: genIP(252, g)}},
			Conditions: []corev1.PodCondition{{Type: corev1.PodReady, Status: corev1.ConditionTrue}},
		},
	}
}

func sentinelNodeObj(g int) *corev1.Node {
	return &corev1.Node{
		ObjectMeta: metav1.ObjectMeta{Name: sentinelNode, Labels: map[string]string{"verif-sentinel-node": "1"}},
		Status:     corev1.NodeStatus{Addresses: []corev1.NodeAddress{{Type: corev1.NodeExternalIP, Address: genIP(253, g)}}},
	}
}

func strp(s string) *string                     { return &s }
func i32p(i int32) *int32                       { return &i }
func boolp(b bool) *bool                        { return &b }
func protop(p corev1.Protocol) *corev1.Protocol { return &p }

// newWorld starts a controller on a client pre-loaded with objs (cold start when objs holds
// a cluster; an otherwise empty cluster when it holds only the sentinels).
func newWorld(name string, objs []kruntime.Object) *world {
	w := &world{name: name, f: vh.NewF(), podKnown: map[objID]bool{}}
	cp := make([]kruntime.Object, 0, len(objs))
	for _, o := range objs {
		if p, ok := o.(*corev1.Pod); ok {
			if p.Status.Phase == corev1.PodFailed {
				continue // never listed by a watch with status.phase!=Failed
			}
			w.podKnown[idOf(p)] = true
		}
		cp = append(cp, o.DeepCopyObject())
		if ns, ok := o.(*corev1.Namespace); ok && ns.Name == systemNS {
			w.sysNetwork = ns.Labels[networkLabel]
		}
	}
	w.client = kubelib.NewFakeClient(cp...)
	w.idx = model.NewEndpointIndex(model.DisabledCache{})
	w.upd = newRecUpdater(w.idx)
	mw := meshwatcher.NewTestWatcher(&meshconfig.MeshConfig{TrustDomain: "cluster.local"})
	ctl, _ := kubecontroller.NewFakeControllerWithOptions(w.f, kubecontroller.FakeControllerOptions{
		Client:          w.client,
		XDSUpdater:      w.upd,
		DomainSuffix:    domainSuffix,
		SystemNamespace: systemNS,
		MeshWatcher:     mw,
	})
	w.ctl = ctl
	w.agg = aggregate.NewController(aggregate.Options{MeshHolder: mw})
	w.agg.AddRegistry(ctl.Controller)
	return w
}

func (w *world) close() {
	if w != nil && w.f != nil {
		w.f.Done()
	}
}

// wait spins on a logical condition; the watchdog only ever yields "barrier lost".
func (w *world) wait(what string, cond func() bool) bool {
	if w.barrierLost != "" {
		return false
	}
	start := time.Now()
	for i := 0; ; i++ {
		if cond() {
			return true
		}
		if i < 200 {
			runtime.Gosched()
		} else {
			time.Sleep(100 * time.Microsecond)
		}
		if i%512 == 511 && time.Since(start) > watchdog {
			w.barrierLost = what
			return false
		}
	}
}

var bg = context.Background()

// bumpService: service-informer sentinel; also used as the queue marker for rounds 2..k.
func (w *world) bumpService() bool {
	w.gen++
	g := fmt.Sprint(w.gen)
	o := sentinelObjects()[1].(*corev1.Service)
	o.Labels["verif-gen"] = g
	if _, err := w.client.Kube().CoreV1().Services(barrierNS).Update(bg, o, metav1.UpdateOptions{}); err != nil {
		vh.Abort("sentinel service update: %v", err)
	}
	h := svcHost(sentinelSvc, barrierNS)
	w.barrierRounds++
	return w.wait("service sentinel", func() bool {
		s := w.ctl.GetService(h)
		return s != nil && s.Attributes.Labels["verif-gen"] == g
	})
}

func (w *world) bumpSlice() bool {
	w.gen++
	ip := genIP(251, w.gen)
	o := sentinelObjects()[3].(*discoveryv1.EndpointSlice)
	o.Endpoints[0].Addresses = []string{ip}
	h := string(svcHost(sentinelSvc, barrierNS))
	before := w.upd.edsCallsFor(h)
	if _, err := w.client.Kube().DiscoveryV1().EndpointSlices(barrierNS).Update(bg, o, metav1.UpdateOptions{}); err != nil {
		vh.Abort("sentinel slice update: %v", err)
	}
	w.barrierRounds++
	// the slice handler ends with an EDSUpdate call for the slice's hostname whatever the conversion
	// yields; only sentinel slice events cause one for the sentinel hostname. Seeing the call (or the
	// address itself) means the handler has run; the barrier must not depend on a correct conversion.
	return w.wait("endpointslice sentinel", func() bool {
		if w.upd.edsCallsFor(h) > before {
			return true
		}
		sh, ok := w.idx.ShardsForService(h, barrierNS)
		if !ok {
			return false
		}
		sh.RLock()
		defer sh.RUnlock()
		for _, eps := range sh.Shards {
			for _, e := range eps {
				if e.FirstAddressOrNil() == ip {
					return true
				}
			}
		}
		return false
	})
}

func (w *world) bumpPod() bool {
	w.gen++
	ip := genIP(252, w.gen)
	if _, err := w.client.Kube().CoreV1().Pods(barrierNS).Update(bg, sentinelPodObj(w.gen), metav1.UpdateOptions{}); err != nil {
		vh.Abort("sentinel pod update: %v", err)
	}
	w.barrierRounds++
	return w.wait("pod sentinel", func() bool { return w.upd.sawProxy(ip) })
}

func (w *world) bumpNode() bool {
	w.gen++
	ip := genIP(253, w.gen)
	if _, err := w.client.Kube().CoreV1().Nodes().Update(bg, sentinelNodeObj(w.gen), metav1.UpdateOptions{}); err != nil {
		vh.Abort("sentinel node update: %v", err)
	}
	w.barrierRounds++
	// a NodePort gateway service selecting the sentinel node turns its address into a network
	// gateway: the only public trace of the controller's node map
	return w.wait("node sentinel", func() bool {
		for _, g := range w.ctl.NetworkGateways() {
			if g.Addr == ip {
				return true
			}
		}
		return false
	})
}

// bumpNamespace covers the queued namespace handlers: the traffic-distribution handler through the
// barrier namespace (its services are re-converted on an annotation change), the system
// namespace handler through the controller's default network.
func (w *world) bumpNamespace() bool {
	w.nsToggle++
	val, want := "PreferSameNode", model.TrafficDistributionPreferSameNode
	if w.nsToggle%2 == 0 {
		val, want = "PreferSameZone", model.TrafficDistributionPreferSameZone
	}
	o := sentinelObjects()[0].(*corev1.Namespace)
	o.Annotations[tdAnnotation] = val
	if _, err := w.client.Kube().CoreV1().Namespaces().Update(bg, o, metav1.UpdateOptions{}); err != nil {
		vh.Abort("sentinel namespace update: %v", err)
	}
	h := svcHost(sentinelSvc, barrierNS)
	w.barrierRounds++
	if !w.wait("namespace sentinel", func() bool {
		s := w.ctl.GetService(h)
		return s != nil && s.Attributes.TrafficDistribution == want
	}) {
		return false
	}
	return w.wait("system namespace network", func() bool {
		return string(w.ctl.Network("192.0.2.1", nil)) == w.sysNetwork
	})
}

// barrier: k=3 rounds. Round 1 is a sentinel of the op's own kind (same informer stream, same
// handler, same queue => FIFO, so its far-end effect implies the op's task has run). Rounds 2-3
// are service sentinels acting as queue markers: they are enqueued after every follow-up task
// the op's task pushed (pod arrival re-queuing endpoint slices).
func (w *world) barrier(k objKind) bool {
	ok := false
	switch k {
	case kNamespace:
		ok = w.bumpNamespace()
	case kNode:
		ok = w.bumpNode()
	case kService:
		ok = w.bumpService()
	case kPod:
		ok = w.bumpPod()
	case kSlice:
		ok = w.bumpSlice()
	}
	return ok && w.bumpService() && w.bumpService()
}

// settle is the barrier used before comparing: every informer stream once, then two markers.
func (w *world) settle() bool {
	return w.bumpNamespace() && w.bumpNode() && w.bumpPod() && w.bumpSlice() && w.bumpService() && w.bumpService() && w.bumpService()
}

// apply issues one operation through the clientset. The fake API server does not implement
// field selectors; the controller watches pods with status.phase!=Failed, so what such a watch
// delivers is produced here: a pod turning Failed is a deletion, a Failed pod is never seen.
func (w *world) apply(o *op) {
	var err error
	k := w.client.Kube()
	verb, skip := failedPodVerb(o, w.podKnown[o.Obj])
	if skip {
		w.opsApplied++
		return
	}
	if o.Obj.Kind == kPod {
		if verb == "delete" {
			delete(w.podKnown, o.Obj)
		} else {
			w.podKnown[o.Obj] = true
		}
	}
	switch o.Obj.Kind {
	case kNamespace:
		switch verb {
		case "create":
			_, err = k.CoreV1().Namespaces().Create(bg, o.Object.DeepCopyObject().(*corev1.Namespace), metav1.CreateOptions{})
		case "update":
			_, err = k.CoreV1().Namespaces().Update(bg, o.Object.DeepCopyObject().(*corev1.Namespace), metav1.UpdateOptions{})
		case "delete":
			err = k.CoreV1().Namespaces().Delete(bg, o.Obj.Name, metav1.DeleteOptions{})
		}
		if o.Obj.Name == systemNS && o.Object != nil {
			w.sysNetwork = o.Object.(*corev1.Namespace).Labels[networkLabel]
		}
	case kNode:
		switch verb {
		case "create":
			_, err = k.CoreV1().Nodes().Create(bg, o.Object.DeepCopyObject().(*corev1.Node), metav1.CreateOptions{})
		case "update":
			_, err = k.CoreV1().Nodes().Update(bg, o.Object.DeepCopyObject().(*corev1.Node), metav1.UpdateOptions{})
		case "delete":
			err = k.CoreV1().Nodes().Delete(bg, o.Obj.Name, metav1.DeleteOptions{})
		}
	case kService:
		switch verb {
		case "create":
			_, err = k.CoreV1().Services(o.Obj.NS).Create(bg, o.Object.DeepCopyObject().(*corev1.Service), metav1.CreateOptions{})
		case "update":
			_, err = k.CoreV1().Services(o.Obj.NS).Update(bg, o.Object.DeepCopyObject().(*corev1.Service), metav1.UpdateOptions{})
		case "delete":
			err = k.CoreV1().Services(o.Obj.NS).Delete(bg, o.Obj.Name, metav1.DeleteOptions{})
		}
	case kPod:
		switch verb {
		case "create":
			_, err = k.CoreV1().Pods(o.Obj.NS).Create(bg, o.Object.DeepCopyObject().(*corev1.Pod), metav1.CreateOptions{})
		case "update":
			_, err = k.CoreV1().Pods(o.Obj.NS).Update(bg, o.Object.DeepCopyObject().(*corev1.Pod), metav1.UpdateOptions{})
		case "delete":
			err = k.CoreV1().Pods(o.Obj.NS).Delete(bg, o.Obj.Name, metav1.DeleteOptions{})
		}
	case kSlice:
		switch verb {
		case "create":
			_, err = k.DiscoveryV1().EndpointSlices(o.Obj.NS).Create(bg, o.Object.DeepCopyObject().(*discoveryv1.EndpointSlice), metav1.CreateOptions{})
		case "update":
			_, err = k.DiscoveryV1().EndpointSlices(o.Obj.NS).Update(bg, o.Object.DeepCopyObject().(*discoveryv1.EndpointSlice), metav1.UpdateOptions{})
		case "delete":
			err = k.DiscoveryV1().EndpointSlices(o.Obj.NS).Delete(bg, o.Obj.Name, metav1.DeleteOptions{})
		}
	}
	if err != nil {
		vh.Abort("%s: apply %s %s: %v", w.name, o.Verb, o.Obj, err)
	}
	w.opsApplied++
}
