package main

// ledger.go: a ledger of the arrival order, kept beside the real controller. It never feeds the
// oracle (the oracle is: live controller == cold-started controller). It only serves to NAME a
// difference the oracle found: for every endpoint it records when the controller last had a
// documented occasion to convert it (a slice event, the replay for a pod that entered the
// ready-pod index, the re-computation for a label change of an indexed pod, a default-network
// change) and what the cluster looked like at that moment. A difference is attributed to a root
// cause only if the value the live controller holds is exactly the value derived from those
// older inputs and the inputs really changed afterwards without any occasion to convert again;
// everything else keeps a generic key.

import (
	"sort"
	"strings"

	corev1 "k8s.io/api/core/v1"
	discoveryv1 "k8s.io/api/discovery/v1"
	kruntime "k8s.io/apimachinery/pkg/runtime"
)

// convFacts: what one (slice, address) conversion saw.
type convFacts struct {
	at        int // position in the arrival order
	trigger   string
	slice     objID
	expectPod bool
	podName   string // targetRef name ("" without targetRef)
	skipped   bool   // the pod named by targetRef was unknown: no endpoint, replay registered
	pod       *corev1.Pod
	node      *corev1.Node
	svc       *corev1.Service
	sysNet    string
	cond      discoveryv1.EndpointConditions
}

type svcFacts struct {
	at  int
	svc *corev1.Service
	ns  *corev1.Namespace // the namespace object known when the service was converted
}

type podChange struct {
	at                int
	verb              string
	before, after     *corev1.Pod // nil: absent
	indexedBefore     bool        // the pod was in the ready-pod index before the event
	indexedAfter      bool
	selectedBy        map[string]bool // services (names) of the namespace selecting the pod's labels after the event
	labelsChanged     bool
	schedulingChanged bool // node or address
}

// traits: which occasions to convert the controller under test has. They are measured, not
// assumed (probeTraits in main.go runs three tiny arrival orders against the real controller),
// so that the ledger stays truthful when one of the proposed repairs is applied.
type traits struct {
	replayOnAnyArrival  bool // an endpoint waiting for its pod is replayed when the pod arrives with the address, ready or not
	relabelOutsideIndex bool // a label change of a pod outside the ready-pod index recomputes its services too
	strictPodMatch      bool // a pod object that does not own the endpoint's address (or has another uid) counts as unknown
}

type ledger struct {
	tr         traits
	present    map[objID]kruntime.Object
	byIP       map[string]map[objID]bool // model of the ready-pod index
	ipOf       map[objID]string
	needResync map[string]map[objID]bool // address -> slices waiting for its pod
	sysNet     string
	conv       map[objID]map[string]*convFacts
	svcs       map[objID]*svcFacts
	podLog     map[objID][]podChange
	hiddenEver map[objID]bool
	// node name -> external address the controller's node map still holds
	nodeAddr map[string]string
	n        int
}

func newLedger(tr traits) *ledger {
	return &ledger{
		tr:      tr,
		present: map[objID]kruntime.Object{}, byIP: map[string]map[objID]bool{}, ipOf: map[objID]string{},
		needResync: map[string]map[objID]bool{}, conv: map[objID]map[string]*convFacts{}, svcs: map[objID]*svcFacts{},
		podLog: map[objID][]podChange{}, hiddenEver: map[objID]bool{}, nodeAddr: map[string]string{},
	}
}

func podIsReady(p *corev1.Pod) bool {
	for _, c := range p.Status.Conditions {
		if c.Type == corev1.PodReady {
			return c.Status == corev1.ConditionTrue
		}
	}
	return false
}

// podBelongsInEndpoints: the EndpointSlice controller's documented rule (not terminal, has an
// address, not being deleted).
func podBelongsInEndpoints(p *corev1.Pod) bool {
	if p.Status.Phase == corev1.PodFailed || p.Status.Phase == corev1.PodSucceeded {
		return false
	}
	if p.Status.PodIP == "" && len(p.Status.PodIPs) == 0 {
		return false
	}
	return p.DeletionTimestamp == nil
}

func exportedToNobody(s *corev1.Service) bool {
	for _, e := range strings.Split(s.Annotations["networking.istio.io/exportTo"], ",") {
		if strings.TrimSpace(e) == "~" {
			return true
		}
	}
	return false
}

func mapsEqual(a, b map[string]string) bool {
	if len(a) != len(b) {
		return false
	}
	for k, v := range a {
		if w, ok := b[k]; !ok || w != v {
			return false
		}
	}
	return true
}

func externalIP(n *corev1.Node) string {
	for _, a := range n.Status.Addresses {
		if a.Type == corev1.NodeExternalIP && a.Address != "" {
			return a.Address
		}
	}
	return ""
}

// failedPodVerb maps an op on a pod to what a watch with the field selector status.phase!=Failed
// delivers: an object that leaves the selector is a DELETED event, one that never entered it is
// nothing at all. known tells whether the watcher currently has the pod.
func failedPodVerb(o *op, known bool) (verb string, skip bool) {
	verb = o.Verb
	if verb == "replay" {
		verb = "update"
	}
	if o.Obj.Kind != kPod {
		return verb, false
	}
	failed := false
	if p, ok := o.Object.(*corev1.Pod); ok && p != nil {
		failed = p.Status.Phase == corev1.PodFailed
	}
	switch {
	case failed && known:
		return "delete", false
	case failed || (verb == "delete" && !known):
		return "", true
	case verb == "update" && !known:
		return "create", false // re-enters the selector (not generated: Failed is terminal)
	}
	return verb, false
}

func (l *ledger) apply(o *op) {
	i := l.n
	l.n++
	_, known := l.present[o.Obj]
	verb, skip := failedPodVerb(o, known)
	if skip {
		return
	}
	switch o.Obj.Kind {
	case kPod:
		l.podOp(i, o, verb)
	case kSlice:
		l.sliceOp(i, o, verb)
	case kService:
		if verb == "delete" {
			delete(l.present, o.Obj)
			delete(l.svcs, o.Obj)
			return
		}
		s := o.Object.(*corev1.Service)
		l.present[o.Obj] = s
		if exportedToNobody(s) {
			l.hiddenEver[o.Obj] = true
		}
		ns, _ := l.present[objID{kNamespace, "", o.Obj.NS}].(*corev1.Namespace)
		l.svcs[o.Obj] = &svcFacts{at: i, svc: s, ns: ns}
	case kNamespace:
		if verb == "delete" {
			delete(l.present, o.Obj)
			return
		}
		old, _ := l.present[o.Obj].(*corev1.Namespace)
		cur := o.Object.(*corev1.Namespace)
		l.present[o.Obj] = cur
		if o.Obj.Name == systemNS {
			if nw := cur.Labels[networkLabel]; nw != l.sysNet {
				// default network changed: pods are fed through the pod handler again as additions,
				// then every slice is converted again
				l.sysNet = nw
				for _, id := range l.sortedPresent(kPod) {
					l.podEvent(i, id, nil, l.present[id].(*corev1.Pod), "create", false)
				}
				for _, id := range l.sortedPresent(kSlice) {
					l.convert(i, id, "default-network-change")
				}
			}
			return
		}
		if old != nil && old.Annotations[tdAnnotation] != cur.Annotations[tdAnnotation] {
			// documented: a changed traffic-distribution annotation re-converts the namespace's services
			for _, id := range l.sortedPresent(kService) {
				if id.NS == o.Obj.Name {
					l.svcs[id] = &svcFacts{at: i, svc: l.present[id].(*corev1.Service), ns: cur}
				}
			}
		}
	case kNode:
		if verb == "delete" {
			delete(l.present, o.Obj)
			delete(l.nodeAddr, o.Obj.Name)
			return
		}
		n := o.Object.(*corev1.Node)
		l.present[o.Obj] = n
		if a := externalIP(n); a != "" {
			l.nodeAddr[o.Obj.Name] = a
		}
	}
}

func (l *ledger) sortedPresent(k objKind) []objID {
	var ids []objID
	for id := range l.present {
		if id.Kind == k {
			ids = append(ids, id)
		}
	}
	sort.Slice(ids, func(i, j int) bool { return ids[i].String() < ids[j].String() })
	return ids
}

func (l *ledger) selectedBy(p *corev1.Pod) map[string]bool {
	out := map[string]bool{}
	for _, id := range l.sortedPresent(kService) {
		if id.NS == p.Namespace && selects(l.present[id].(*corev1.Service).Spec.Selector, p.Labels) {
			out[id.Name] = true
		}
	}
	return out
}

func (l *ledger) podOp(i int, o *op, verb string) {
	old, _ := l.present[o.Obj].(*corev1.Pod)
	var cur *corev1.Pod
	if verb != "delete" {
		cur = o.Object.(*corev1.Pod)
		l.present[o.Obj] = cur
	} else {
		delete(l.present, o.Obj)
	}
	l.podEvent(i, o.Obj, old, cur, verb, true)
}

// podEvent follows the documented pod handling: only pods that are Ready (and belong in
// endpoints) are in the address index; entering it replays the endpoints waiting for the
// address; a label change of a pod already in it re-computes the services selecting it.
func (l *ledger) podEvent(i int, id objID, old, cur *corev1.Pod, verb string, record bool) {
	ch := podChange{at: i, verb: verb, before: old, after: cur, indexedBefore: l.ipOf[id] != "" && l.byIP[l.ipOf[id]][id]}
	defer func() {
		ch.indexedAfter = l.ipOf[id] != "" && l.byIP[l.ipOf[id]][id]
		if cur != nil {
			ch.selectedBy = l.selectedBy(cur)
		}
		if old != nil && cur != nil {
			ch.labelsChanged = !mapsEqual(old.Labels, cur.Labels)
			ch.schedulingChanged = old.Spec.NodeName != cur.Spec.NodeName || old.Status.PodIP != cur.Status.PodIP
		}
		if record {
			l.podLog[id] = append(l.podLog[id], ch)
		}
	}()
	ref := cur
	if ref == nil {
		ref = old
	}
	if ref == nil {
		return
	}
	ip := ref.Status.PodIP
	if ip == "" {
		ip = l.ipOf[id]
		if ip == "" {
			return
		}
	}
	remove := func() {
		if l.byIP[ip][id] {
			delete(l.byIP[ip], id)
			delete(l.ipOf, id)
		}
	}
	if verb != "delete" && l.tr.replayOnAnyArrival {
		defer l.replayWaiting(i, ip, "pod-arrived")
	}
	switch verb {
	case "delete":
		remove()
	case "create":
		if podBelongsInEndpoints(cur) && podIsReady(cur) {
			l.addPod(i, id, cur, ip, false)
		}
	default:
		relabelled := old != nil && !mapsEqual(old.Labels, cur.Labels)
		if !podBelongsInEndpoints(cur) || !podIsReady(cur) {
			remove()
			if relabelled && l.tr.relabelOutsideIndex {
				l.recompute(i, cur, "label-change-of-pod-outside-index")
			}
			return
		}
		l.addPod(i, id, cur, ip, relabelled)
	}
}

// recompute: the services selecting the pod's (new) labels have all their slices converted again.
func (l *ledger) recompute(i int, p *corev1.Pod, trigger string) {
	for _, sid := range l.sortedPresent(kService) {
		if sid.NS != p.Namespace || !selects(l.present[sid].(*corev1.Service).Spec.Selector, p.Labels) {
			continue
		}
		for _, lid := range l.sortedPresent(kSlice) {
			if lid.NS == sid.NS && l.present[lid].(*discoveryv1.EndpointSlice).Labels[discoveryv1.LabelServiceName] == sid.Name {
				l.convert(i, lid, trigger)
			}
		}
	}
}

func (l *ledger) replayWaiting(i int, ip, trigger string) {
	waiting := l.needResync[ip]
	if waiting == nil {
		return
	}
	delete(l.needResync, ip)
	var ids []objID
	for lid := range waiting {
		ids = append(ids, lid)
	}
	sort.Slice(ids, func(a, b int) bool { return ids[a].String() < ids[b].String() })
	for _, lid := range ids {
		if _, ok := l.present[lid]; ok {
			l.convert(i, lid, trigger)
		}
	}
}

func (l *ledger) addPod(i int, id objID, p *corev1.Pod, ip string, labelsChanged bool) {
	if l.byIP[ip][id] {
		if labelsChanged {
			l.recompute(i, p, "label-change-of-indexed-pod")
		}
		return
	}
	if cur := l.ipOf[id]; cur != "" {
		delete(l.byIP[cur], id)
	}
	if l.byIP[ip] == nil {
		l.byIP[ip] = map[objID]bool{}
	}
	l.byIP[ip][id] = true
	l.ipOf[id] = ip
	l.replayWaiting(i, ip, "pod-entered-ready-index")
	if labelsChanged && l.tr.relabelOutsideIndex {
		l.recompute(i, p, "label-change-of-pod-entering-index")
	}
}

func (l *ledger) forget(slice objID, addr string) {
	if s := l.needResync[addr]; s != nil {
		delete(s, slice)
		if len(s) == 0 {
			delete(l.needResync, addr)
		}
	}
}

func (l *ledger) sliceOp(i int, o *op, verb string) {
	old, _ := l.present[o.Obj].(*discoveryv1.EndpointSlice)
	if verb == "delete" {
		if old != nil {
			for _, e := range old.Endpoints {
				for _, a := range e.Addresses {
					l.forget(o.Obj, a)
				}
			}
		}
		delete(l.present, o.Obj)
		delete(l.conv, o.Obj)
		return
	}
	cur := o.Object.(*discoveryv1.EndpointSlice)
	l.present[o.Obj] = cur
	if verb == "update" && old != nil {
		now := map[string]bool{}
		for _, e := range cur.Endpoints {
			for _, a := range e.Addresses {
				now[a] = true
			}
		}
		for _, e := range old.Endpoints {
			for _, a := range e.Addresses {
				if !now[a] {
					l.forget(o.Obj, a)
				}
			}
		}
	}
	l.convert(i, o.Obj, "slice-event")
}

func (l *ledger) convert(i int, slice objID, trigger string) {
	sl := l.present[slice].(*discoveryv1.EndpointSlice)
	svc, _ := l.present[objID{kService, slice.NS, sl.Labels[discoveryv1.LabelServiceName]}].(*corev1.Service)
	facts := map[string]*convFacts{}
	for _, e := range sl.Endpoints {
		for _, a := range e.Addresses {
			f := &convFacts{at: i, trigger: trigger, slice: slice, svc: svc, sysNet: l.sysNet, cond: e.Conditions}
			if e.TargetRef != nil && e.TargetRef.Kind == "Pod" {
				f.expectPod = true
				f.podName = e.TargetRef.Name
				f.pod, _ = l.present[objID{kPod, slice.NS, e.TargetRef.Name}].(*corev1.Pod)
				if f.pod != nil && l.tr.strictPodMatch && !podOwns(f.pod, a, string(e.TargetRef.UID)) {
					f.pod = nil
				}
				if f.pod == nil {
					f.skipped = true
					if l.needResync[a] == nil {
						l.needResync[a] = map[objID]bool{}
					}
					l.needResync[a][slice] = true
				}
			} else {
				var ids []objID
				for id := range l.byIP[a] {
					if id.NS == slice.NS {
						ids = append(ids, id)
					}
				}
				sort.Slice(ids, func(x, y int) bool { return ids[x].String() < ids[y].String() })
				if len(ids) > 0 {
					f.pod, _ = l.present[ids[0]].(*corev1.Pod)
				}
			}
			if f.pod != nil && f.pod.Spec.NodeName != "" {
				f.node, _ = l.present[objID{kNode, "", f.pod.Spec.NodeName}].(*corev1.Node)
			}
			facts[a] = f
		}
	}
	l.conv[slice] = facts
}

// podOwns: the pod object carries the address (and the uid the slice names, when it names one).
func podOwns(p *corev1.Pod, addr, uid string) bool {
	if uid != "" && string(p.UID) != uid {
		return false
	}
	if p.Status.PodIP == addr {
		return true
	}
	for _, x := range p.Status.PodIPs {
		if x.IP == addr {
			return true
		}
	}
	return false
}

// factsFor returns the conversions that produced (or skipped) an endpoint of the service at addr.
func (l *ledger) factsFor(ns, svcName, addr string) []*convFacts {
	var out []*convFacts
	for _, lid := range l.sortedPresent(kSlice) {
		if lid.NS != ns || l.present[lid].(*discoveryv1.EndpointSlice).Labels[discoveryv1.LabelServiceName] != svcName {
			continue
		}
		if f := l.conv[lid][addr]; f != nil {
			out = append(out, f)
		}
	}
	return out
}

// endpointsInCache: how many endpoints the slices of the service yield by the ledger's account.
func (l *ledger) endpointsInCache(ns, svcName string) int {
	n := 0
	for _, lid := range l.sortedPresent(kSlice) {
		if lid.NS != ns || l.present[lid].(*discoveryv1.EndpointSlice).Labels[discoveryv1.LabelServiceName] != svcName {
			continue
		}
		for _, f := range l.conv[lid] {
			if !f.skipped {
				n++
			}
		}
	}
	return n
}

func ledgerOf(order []*op, tr traits) *ledger {
	l := newLedger(tr)
	for _, o := range order {
		l.apply(o)
	}
	return l
}
