package main

// explain.go: names the root cause of a live-vs-cold difference, from the shape of the arrival
// order (ledger.go). An explanation needs three things: the live value is what the inputs of the
// endpoint's last conversion yield, the cold value is what the final objects yield, and the
// inputs changed after that conversion by an event of a kind that gives the controller no
// occasion to convert again. Whatever is not explained keeps its generic key.

import (
	"fmt"
	"sort"
	"strings"

	corev1 "k8s.io/api/core/v1"
	discoveryv1 "k8s.io/api/discovery/v1"
	kruntime "k8s.io/apimachinery/pkg/runtime"
)

const (
	causePodLabelOutsideIndex = "cause=pod-label-change-outside-ready-pod-index-does-not-recompute-endpoints"
	causePodScheduledLater    = "cause=endpoint-built-from-pod-without-node-or-address-not-rebuilt-when-pod-is-scheduled"
	causePreviousPod          = "cause=endpoint-built-from-previous-pod-of-the-same-name-no-address-or-uid-check"
	causeRelabelNotSelected   = "cause=label-change-of-ready-pod-recomputes-only-services-selecting-the-new-labels"
	causeNodeEvent            = "cause=node-event-does-not-recompute-endpoints-of-its-pods"
	causeServiceEvent         = "cause=service-event-does-not-reconvert-endpoint-slices"
	causeResyncOnlyWhenReady  = "cause=endpoint-of-unknown-pod-replayed-only-when-pod-enters-ready-pod-index"
	causeHiddenService        = "cause=index-not-maintained-while-exported-to-nobody-and-empty-update-skipped-when-visible-again"
	causeRecomputeEmpty       = "cause=recompute-after-pod-label-change-does-not-forward-empty-endpoint-set-to-index"
	causeShardSAs             = "cause=service-accounts-not-recomputed-when-shard-is-emptied"
	causeNamespaceAdd         = "cause=namespace-add-does-not-reprocess-its-services"
	causeNodeLostAddress      = "cause=node-without-external-address-ignored-instead-of-removed-from-node-map"
)

type explainer struct {
	l     *ledger
	final map[objID]kruntime.Object
	// observed at the cold-started controller's XDSUpdater: the endpoint object it holds was
	// converted before its service was announced
	coldConvertedEarly func(host, ns, addr, port string) bool
}

func newExplainer(order []*op, final map[objID]kruntime.Object, cold *world) *explainer {
	x := &explainer{l: ledgerOf(order, controllerTraits()), final: final, coldConvertedEarly: func(_, _, _, _ string) bool { return false }}
	if cold != nil {
		x.coldConvertedEarly = cold.upd.convertedBeforeServiceKnown
	}
	return x
}

func splitSvcKey(k string) (name, ns string) {
	host := strings.SplitN(k, " ", 2)[0]
	p := strings.Split(host, ".")
	if len(p) > 1 {
		return p[0], p[1]
	}
	return p[0], ""
}

func addrOfEpKey(ek string) string {
	f := strings.Fields(ek)
	if len(f) >= 2 {
		return f[1]
	}
	return ""
}

func parseLabels(v string) map[string]string {
	out := map[string]string{}
	for _, kv := range strings.Split(v, ",") {
		if i := strings.Index(kv, "="); i > 0 {
			out[kv[:i]] = kv[i+1:]
		}
	}
	return out
}

func labelClass(k string) string {
	switch {
	case k == networkLabel:
		return "network"
	case strings.HasPrefix(k, "topology.") || k == "kubernetes.io/hostname" || strings.HasPrefix(k, "failure-domain."):
		return "node-derived-metadata"
	}
	return "pod-metadata"
}

// localityOf: region/zone/subzone of the pod's node ("" when the node is unknown).
func localityOf(p *corev1.Pod, n *corev1.Node) string {
	if p == nil || n == nil {
		return ""
	}
	r, z, s := n.Labels["topology.kubernetes.io/region"], n.Labels["topology.kubernetes.io/zone"], n.Labels["topology.istio.io/subzone"]
	if r == "" && z == "" && s == "" {
		return ""
	}
	return r + "/" + z + "/" + s
}

func nodeDerivedLabels(p *corev1.Pod, n *corev1.Node) map[string]string {
	out := map[string]string{}
	if p == nil {
		return out
	}
	if p.Spec.NodeName != "" {
		out["kubernetes.io/hostname"] = p.Spec.NodeName
	}
	if loc := localityOf(p, n); loc != "" {
		parts := strings.Split(loc, "/")
		for i, k := range []string{"topology.kubernetes.io/region", "topology.kubernetes.io/zone", "topology.istio.io/subzone"} {
			if parts[i] != "" {
				out[k] = parts[i]
			}
		}
	}
	return out
}

func boolOr(b *bool, d bool) bool {
	if b == nil {
		return d
	}
	return *b
}

// healthOf: health of an endpoint from its conditions, as the converter sees it when svc is
// the service it knows (nil: none). Documented: ready => healthy; otherwise terminating =>
// terminating (draining for persistent-session services still serving); otherwise unhealthy.
// Without a known service the converter cannot tell and reports unhealthy.
func healthOf(c discoveryv1.EndpointConditions, svc *corev1.Service) string {
	if boolOr(c.Ready, true) {
		return "Healthy"
	}
	if svc == nil {
		return "UnHealthy"
	}
	persistent := svc.Labels["istio.io/persistent-session"] != "" || svc.Labels["istio.io/persistent-session-header"] != ""
	if persistent && boolOr(c.Serving, true) && boolOr(c.Terminating, true) {
		return "Draining"
	}
	if boolOr(c.Terminating, true) {
		return "Terminating"
	}
	return "UnHealthy"
}

func (x *explainer) finalPod(ns, name string) *corev1.Pod {
	p, _ := x.final[objID{kPod, ns, name}].(*corev1.Pod)
	if p != nil && p.Status.Phase == corev1.PodFailed {
		return nil
	}
	return p
}

func (x *explainer) finalNode(p *corev1.Pod) *corev1.Node {
	if p == nil || p.Spec.NodeName == "" {
		return nil
	}
	n, _ := x.final[objID{kNode, "", p.Spec.NodeName}].(*corev1.Node)
	return n
}

// podCause classifies why the pod's change after the conversion f reached no endpoint.
func (x *explainer) podCause(f *convFacts, svcName string, p0, p1 *corev1.Pod) string {
	if p0.UID != p1.UID {
		return causePreviousPod
	}
	log := x.l.podLog[objID{kPod, p1.Namespace, p1.Name}]
	for i := len(log) - 1; i >= 0; i-- {
		ch := log[i]
		if ch.at <= f.at {
			break
		}
		switch {
		case ch.labelsChanged:
			if (ch.indexedBefore && ch.indexedAfter) || x.l.tr.relabelOutsideIndex {
				// the label change did recompute the services selecting the new labels
				if ch.selectedBy[svcName] {
					return "" // the service was recomputed then: not this
				}
				return causeRelabelNotSelected
			}
			return causePodLabelOutsideIndex
		case ch.schedulingChanged:
			return causePodScheduledLater
		}
	}
	return ""
}

// endpointClass explains a difference of one field class of an endpoint present on both sides.
// fields: the differing fields of that class (for "labels": the differing label keys, prefixed "label:").
func (x *explainer) endpointClass(svcKey, epKey, class string, fields []string, live, cold map[string]string) string {
	name, ns := splitSvcKey(svcKey)
	addr := addrOfEpKey(epKey)
	for _, f := range x.l.factsFor(ns, name, addr) {
		if f.skipped {
			continue
		}
		if c := x.endpointClassWith(f, name, ns, class, fields, live, cold); c != "" {
			return c
		}
	}
	return x.indexBehindCache(svcKey, epKey)
}

func (x *explainer) endpointClassWith(f *convFacts, svcName, ns, class string, fields []string, live, cold map[string]string) string {
	p0 := f.pod
	var p1 *corev1.Pod
	if f.podName != "" {
		p1 = x.finalPod(ns, f.podName)
	} else if p0 != nil {
		p1 = x.finalPod(ns, p0.Name)
	}
	liveL, coldL := parseLabels(live["labels"]), parseLabels(cold["labels"])
	lbl := func(p *corev1.Pod, k string) string {
		if p == nil {
			return ""
		}
		return p.Labels[k]
	}
	switch class {
	case "pod-metadata":
		if p0 == nil || p1 == nil || p0 == p1 {
			return ""
		}
		for _, fld := range fields {
			var l0, l1 string
			switch {
			case strings.HasPrefix(fld, "label:"):
				k := strings.TrimPrefix(fld, "label:")
				if liveL[k] != lbl(p0, k) || coldL[k] != lbl(p1, k) {
					return ""
				}
				continue
			case fld == "serviceAccount":
				l0 = "spiffe://cluster.local/ns/" + p0.Namespace + "/sa/" + p0.Spec.ServiceAccountName
				l1 = "spiffe://cluster.local/ns/" + p1.Namespace + "/sa/" + p1.Spec.ServiceAccountName
			case fld == "tlsMode":
				l0, l1 = "disabled", "disabled"
				if v, ok := p0.Labels["security.istio.io/tlsMode"]; ok {
					l0 = v
				}
				if v, ok := p1.Labels["security.istio.io/tlsMode"]; ok {
					l1 = v
				}
			default:
				return "" // workload name, namespace, hostname, subdomain do not change for a pod name here
			}
			if live[fld] != l0 || cold[fld] != l1 {
				return ""
			}
		}
		return x.podCause(f, svcName, p0, p1)
	case "node-derived-metadata":
		if p0 == nil || p1 == nil {
			return ""
		}
		n0, n1 := f.node, x.finalNode(p1)
		d0, d1 := nodeDerivedLabels(p0, n0), nodeDerivedLabels(p1, n1)
		for _, fld := range fields {
			switch {
			case strings.HasPrefix(fld, "label:"):
				k := strings.TrimPrefix(fld, "label:")
				if liveL[k] != d0[k] || coldL[k] != d1[k] {
					return ""
				}
			case fld == "locality":
				if live[fld] != localityOf(p0, n0) || cold[fld] != localityOf(p1, n1) {
					return ""
				}
			case fld == "nodeName":
				if live[fld] != p0.Spec.NodeName || cold[fld] != p1.Spec.NodeName {
					return ""
				}
			default:
				return ""
			}
		}
		if p0.UID != p1.UID || p0.Spec.NodeName != p1.Spec.NodeName {
			return x.podCause(f, svcName, p0, p1)
		}
		if n0 == n1 {
			return ""
		}
		return causeNodeEvent
	case "network":
		if p0 == nil || p1 == nil || p0 == p1 {
			return ""
		}
		net0, net1 := lbl(p0, networkLabel), lbl(p1, networkLabel)
		if net0 == net1 {
			return "" // a default-network change converts everything again: nothing documented leaves this stale
		}
		if net0 == "" {
			net0 = f.sysNet
		}
		if net1 == "" {
			net1 = x.l.sysNet
		}
		for _, fld := range fields {
			var lv, cv string
			switch fld {
			case "network":
				lv, cv = live[fld], cold[fld]
			case "label:" + networkLabel:
				lv, cv = liveL[networkLabel], coldL[networkLabel]
			default:
				return ""
			}
			if lv != net0 || cv != net1 {
				return ""
			}
		}
		return x.podCause(f, svcName, p0, p1)
	case "health":
		s1, _ := x.final[objID{kService, ns, svcName}].(*corev1.Service)
		lv, cv := live["health"], cold["health"]
		right := healthOf(f.cond, s1)
		// each side is either right or shows exactly what its older view of the service yields
		liveStale := lv != right && lv == healthOf(f.cond, f.svc) && f.svc != s1
		// the cold start's informers deliver the slice and the service in no defined order
		coldStale := cv != right && cv == healthOf(f.cond, nil) && s1 != nil &&
			x.coldConvertedEarly(svcName+"."+ns+".svc."+domainSuffix, ns, cold["addresses"], cold["servicePortName"])
		switch {
		case liveStale && coldStale:
			return causeServiceEvent + ":seen-in=live+cold-start"
		case liveStale && cv == right:
			return causeServiceEvent + ":seen-in=live"
		case coldStale && lv == right:
			return causeServiceEvent + ":seen-in=cold-start"
		}
	}
	return ""
}

// indexBehindCache: by the ledger's account the slices of the service yield nothing (every endpoint
// waits for its pod) and they were last converted by the re-computation for a relabelled pod, the
// one conversion path that writes to the endpoint index only when something is left.
func (x *explainer) indexBehindCache(svcKey, epKey string) string {
	name, ns := splitSvcKey(svcKey)
	fs := x.l.factsFor(ns, name, addrOfEpKey(epKey))
	if len(fs) == 0 || x.l.endpointsInCache(ns, name) != 0 {
		return ""
	}
	for _, f := range fs {
		if !f.skipped || !strings.HasPrefix(f.trigger, "label-change-of-") {
			return ""
		}
	}
	return causeRecomputeEmpty
}

// endpointOnlyInCold: the live controller has no endpoint where the cold start has one.
func (x *explainer) endpointOnlyInCold(svcKey, epKey string) string {
	name, ns := splitSvcKey(svcKey)
	fs := x.l.factsFor(ns, name, addrOfEpKey(epKey))
	if len(fs) == 0 {
		return ""
	}
	for _, f := range fs {
		if !f.skipped || x.finalPod(ns, f.podName) == nil {
			return ""
		}
	}
	return causeResyncOnlyWhenReady
}

// endpointOnlyInLive: the live index holds an endpoint no slice yields.
func (x *explainer) endpointOnlyInLive(svcKey, epKey string, coldCount int) string {
	name, ns := splitSvcKey(svcKey)
	if x.l.hiddenEver[objID{kService, ns, name}] && coldCount == 0 && x.l.endpointsInCache(ns, name) == 0 {
		return causeHiddenService
	}
	return x.indexBehindCache(svcKey, epKey)
}

func (x *explainer) shardSAs(liveSAs, coldSAs string, liveEndpoints, coldEndpoints int) string {
	if liveEndpoints == 0 && coldEndpoints == 0 && liveSAs != "" && coldSAs == "" {
		return causeShardSAs
	}
	return ""
}

func (x *explainer) serviceField(host, field, live, cold string) string {
	if field != "attr.trafficDistribution" {
		return ""
	}
	p := strings.Split(host, ".")
	if len(p) < 2 {
		return ""
	}
	id := objID{kService, p[1], p[0]}
	sf := x.l.svcs[id]
	ns, _ := x.final[objID{kNamespace, "", p[1]}].(*corev1.Namespace)
	if sf == nil || ns == nil || sf.ns != nil {
		return ""
	}
	// the value can only come from the namespace when the service says nothing itself
	if sf.svc.Spec.TrafficDistribution != nil || sf.svc.Annotations[tdAnnotation] != "" || ns.Annotations[tdAnnotation] == "" {
		return ""
	}
	if live != "0" || cold == "0" {
		return ""
	}
	return causeNamespaceAdd
}

func gatewayAddrs(v string) map[string]string {
	out := map[string]string{}
	for _, g := range strings.Fields(v) {
		// network/cluster/addr:port/hbone
		p := strings.Split(g, "/")
		if len(p) >= 3 {
			out[g] = strings.SplitN(p[2], ":", 2)[0]
		}
	}
	return out
}

func (x *explainer) networkGateways(live, cold string) string {
	lg, cg := gatewayAddrs(live), gatewayAddrs(cold)
	stale := map[string]bool{}
	for name, a := range x.l.nodeAddr {
		if n, ok := x.final[objID{kNode, "", name}].(*corev1.Node); ok && externalIP(n) == "" {
			stale[a] = true
		}
	}
	extra := 0
	for g, a := range lg {
		if _, ok := cg[g]; ok {
			continue
		}
		if !stale[a] {
			return ""
		}
		extra++
	}
	for g := range cg {
		if _, ok := lg[g]; !ok {
			return ""
		}
	}
	if extra == 0 {
		return ""
	}
	return causeNodeLostAddress
}

func describeFacts(f *convFacts) string {
	pod, node, svc := "none", "none", "unknown"
	if f.pod != nil {
		pod = fmt.Sprintf("%s(uid=%s rv=%s node=%q ip=%q labels=%v)", f.pod.Name, f.pod.UID, f.pod.ResourceVersion, f.pod.Spec.NodeName, f.pod.Status.PodIP, f.pod.Labels)
	}
	if f.node != nil {
		node = fmt.Sprintf("%s(rv=%s)", f.node.Name, f.node.ResourceVersion)
	}
	if f.svc != nil {
		svc = fmt.Sprintf("%s(rv=%s)", f.svc.Name, f.svc.ResourceVersion)
	}
	return fmt.Sprintf("last conversion at op %d by %s of %s: pod=%s node=%s service=%s skipped=%v", f.at, f.trigger, f.slice, pod, node, svc, f.skipped)
}

func (x *explainer) describe(svcKey, epKey string) string {
	name, ns := splitSvcKey(svcKey)
	var out []string
	for _, f := range x.l.factsFor(ns, name, addrOfEpKey(epKey)) {
		out = append(out, describeFacts(f))
	}
	sort.Strings(out)
	return strings.Join(out, "; ")
}
