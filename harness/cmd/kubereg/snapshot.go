package main

// snapshot.go: what the control plane derived from the cluster -- services, endpoint shards,
// workload identities -- rendered canonically (everything that is a collection is compared
// as a set) and compared field by field.

import (
	"fmt"
	"sort"
	"strings"

	corev1 "k8s.io/api/core/v1"
	discoveryv1 "k8s.io/api/discovery/v1"
	kruntime "k8s.io/apimachinery/pkg/runtime"

	"istio.io/istio/pilot/pkg/model"
	"istio.io/istio/pkg/cluster"
)

type snapshot struct {
	Services  map[string]map[string]string            // hostname -> field -> value
	Endpoints map[string]map[string]map[string]string // "host ns" -> "shard addr port-name" -> field -> value
	ShardSAs  map[string]string                       // "host ns" -> service accounts recorded on the shards
	Proxies   map[string]map[string]string            // "by-name|by-ip ns/pod ip" -> targets / labels
	Misc      map[string]string
}

func (s *snapshot) counts() (svcs, eps, proxies int) {
	for _, m := range s.Endpoints {
		eps += len(m)
	}
	return len(s.Services), eps, len(s.Proxies)
}

func renderMap(m map[string]string) string {
	ks := make([]string, 0, len(m))
	for k := range m {
		ks = append(ks, k)
	}
	sort.Strings(ks)
	var b strings.Builder
	for _, k := range ks {
		fmt.Fprintf(&b, "%s=%s,", k, m[k])
	}
	return b.String()
}

func sortedCopy(xs []string) []string {
	out := append([]string{}, xs...)
	sort.Strings(out)
	return out
}

func isSentinelAddr(a string) bool {
	return strings.HasPrefix(a, "10.251.") || strings.HasPrefix(a, "10.252.") || strings.HasPrefix(a, "10.253.")
}

func renderAddrMap(m *model.AddressMap) string {
	var parts []string
	m.ForEach(func(c cluster.ID, addrs []string) {
		var keep []string
		for _, a := range addrs {
			if !isSentinelAddr(a) {
				keep = append(keep, a)
			}
		}
		sort.Strings(keep)
		if len(keep) > 0 {
			parts = append(parts, fmt.Sprintf("%s:%v", c, keep))
		}
	})
	sort.Strings(parts)
	return strings.Join(parts, ";")
}

func healthName(h model.HealthStatus) string {
	switch h {
	case model.Healthy:
		return "Healthy"
	case model.UnHealthy:
		return "UnHealthy"
	case model.Draining:
		return "Draining"
	case model.Terminating:
		return "Terminating"
	}
	return fmt.Sprintf("health(%d)", h)
}

func renderService(s *model.Service) map[string]string {
	f := map[string]string{}
	var ports []string
	for _, p := range s.Ports {
		ports = append(ports, fmt.Sprintf("%s:%d/%s", p.Name, p.Port, p.Protocol))
	}
	f["ports"] = strings.Join(ports, ",") // spec order is part of the object, not of the arrival order
	f["resolution"] = fmt.Sprint(int(s.Resolution))
	f["defaultAddress"] = s.DefaultAddress
	f["clusterVIPs"] = renderAddrMap(&s.ClusterVIPs)
	f["serviceAccounts"] = strings.Join(sortedCopy(s.ServiceAccounts), ",")
	f["meshExternal"] = fmt.Sprint(s.MeshExternal)
	f["creationTime"] = s.CreationTime.UTC().Format("2006-01-02T15:04:05Z")
	f["resourceVersion"] = s.ResourceVersion
	a := s.Attributes
	f["attr.name"] = a.Name
	f["attr.namespace"] = a.Namespace
	f["attr.labels"] = renderMap(a.Labels)
	var ex []string
	for v := range a.ExportTo {
		ex = append(ex, string(v))
	}
	f["attr.exportTo"] = strings.Join(sortedCopy(ex), ",")
	f["attr.labelSelectors"] = renderMap(a.LabelSelectors)
	f["attr.type"] = a.Type
	f["attr.externalName"] = a.ExternalName
	f["attr.nodeLocal"] = fmt.Sprint(a.NodeLocal)
	f["attr.trafficDistribution"] = fmt.Sprint(int(a.TrafficDistribution))
	f["attr.publishNotReadyAddresses"] = fmt.Sprint(a.PublishNotReadyAddresses)
	f["attr.clusterExternalAddresses"] = renderAddrMap(&a.ClusterExternalAddresses)
	var cep []string
	for c, m := range a.ClusterExternalPorts {
		var ps []string
		for k, v := range m {
			ps = append(ps, fmt.Sprintf("%d>%d", k, v))
		}
		sort.Strings(ps)
		cep = append(cep, fmt.Sprintf("%s:%v", c, ps))
	}
	f["attr.clusterExternalPorts"] = strings.Join(sortedCopy(cep), ";")
	var al []string
	for _, x := range a.Aliases {
		al = append(al, x.Namespace+"/"+string(x.Hostname))
	}
	f["attr.aliases"] = strings.Join(sortedCopy(al), ",")
	return f
}

func renderEndpoint(e *model.IstioEndpoint) map[string]string {
	f := map[string]string{}
	f["addresses"] = strings.Join(e.Addresses, ",")
	f["endpointPort"] = fmt.Sprint(e.EndpointPort)
	f["servicePortName"] = e.ServicePortName
	f["labels"] = renderMap(e.Labels)
	f["serviceAccount"] = e.ServiceAccount
	f["health"] = healthName(e.HealthStatus)
	f["locality"] = e.Locality.Label
	f["localityCluster"] = string(e.Locality.ClusterID)
	f["network"] = string(e.Network)
	f["tlsMode"] = e.TLSMode
	f["namespace"] = e.Namespace
	f["workloadName"] = e.WorkloadName
	f["hostName"] = e.HostName
	f["subDomain"] = e.SubDomain
	f["nodeName"] = e.NodeName
	f["sendUnhealthy"] = fmt.Sprint(e.SendUnhealthyEndpoints)
	f["lbWeight"] = fmt.Sprint(e.LbWeight)
	if e.DiscoverabilityPolicy != nil {
		f["discoverability"] = e.DiscoverabilityPolicy.String()
	}
	return f
}

func (w *world) proxyFor(p *corev1.Pod, byName bool) *model.Proxy {
	px := &model.Proxy{
		Type:            model.SidecarProxy,
		IPAddresses:     []string{p.Status.PodIP},
		ConfigNamespace: p.Namespace,
		Metadata:        &model.NodeMetadata{Namespace: p.Namespace, NodeName: p.Spec.NodeName},
	}
	if byName {
		px.ID = p.Name + "." + p.Namespace
		px.Labels = p.Labels
	} else {
		px.ID = "unidentified" // no namespace part: the registry has to find the pod by address
	}
	return px
}

// nsIP is an address some pod of the history once had.
type nsIP struct{ NS, IP string }

// addressesOf lists every (namespace, address) a pod showed in the given ops.
func addressesOf(ops []*op) []nsIP {
	seen := map[nsIP]bool{}
	var out []nsIP
	for _, o := range ops {
		if p, ok := o.Object.(*corev1.Pod); ok && p.Status.PodIP != "" {
			k := nsIP{p.Namespace, p.Status.PodIP}
			if !seen[k] {
				seen[k] = true
				out = append(out, k)
			}
		}
	}
	sort.Slice(out, func(i, j int) bool { return out[i].NS+out[i].IP < out[j].NS+out[j].IP })
	return out
}

func (w *world) snapshot(final map[objID]kruntime.Object, addrs []nsIP) *snapshot {
	s := &snapshot{
		Services: map[string]map[string]string{}, Endpoints: map[string]map[string]map[string]string{},
		ShardSAs: map[string]string{}, Proxies: map[string]map[string]string{}, Misc: map[string]string{},
	}
	for _, svc := range w.agg.Services() {
		if svc.Attributes.Namespace == barrierNS {
			continue
		}
		s.Services[string(svc.Hostname)] = renderService(svc)
	}
	for h, byNS := range w.idx.Shardz() {
		for ns, sh := range byNS {
			if ns == barrierNS {
				continue
			}
			key := h + " " + ns
			eps := map[string]map[string]string{}
			for sk, list := range sh.Shards {
				var rendered []map[string]string
				for _, e := range list {
					rendered = append(rendered, renderEndpoint(e))
				}
				// order inside a shard is creation order of slices: compare as a set
				sort.Slice(rendered, func(i, j int) bool { return renderMap(rendered[i]) < renderMap(rendered[j]) })
				seen := map[string]int{}
				for _, r := range rendered {
					k := fmt.Sprintf("%s %s %s", sk.String(), r["addresses"], r["servicePortName"])
					seen[k]++
					if seen[k] > 1 {
						k = fmt.Sprintf("%s #%d", k, seen[k])
					}
					eps[k] = r
				}
			}
			// a key whose shards are empty is the index remembering a name, not an endpoint set
			if len(eps) > 0 {
				s.Endpoints[key] = eps
			}
			if sas := sh.ServiceAccounts.UnsortedList(); len(sas) > 0 {
				s.ShardSAs[key] = strings.Join(sortedCopy(sas), ",")
			}
		}
	}
	ids := make([]objID, 0, len(final))
	for id := range final {
		ids = append(ids, id)
	}
	sort.Slice(ids, func(i, j int) bool { return ids[i].String() < ids[j].String() })
	for _, id := range ids {
		if id.Kind != kPod {
			continue
		}
		p := final[id].(*corev1.Pod)
		if p.Status.PodIP == "" {
			continue
		}
		for _, byName := range []bool{true, false} {
			px := w.proxyFor(p, byName)
			var ts []string
			for _, t := range w.agg.GetProxyServiceTargets(px) {
				pn, pp := "", 0
				if t.Port.ServicePort != nil {
					pn, pp = t.Port.ServicePort.Name, t.Port.ServicePort.Port
				}
				ts = append(ts, fmt.Sprintf("%s|%s:%d->%d", t.Service.Hostname, pn, pp, t.Port.TargetPort))
			}
			mode := "by-ip"
			if byName {
				mode = "by-name"
			}
			s.Proxies[fmt.Sprintf("%s %s/%s %s", mode, p.Namespace, p.Name, p.Status.PodIP)] = map[string]string{
				"targets": strings.Join(sortedCopy(ts), " "),
				"labels":  renderMap(w.agg.GetProxyWorkloadLabels(px)),
			}
		}
	}
	// addresses no pod holds any more: a proxy known only by such an address must resolve to nothing
	held := map[nsIP]bool{}
	for _, id := range ids {
		if id.Kind == kPod {
			p := final[id].(*corev1.Pod)
			held[nsIP{p.Namespace, p.Status.PodIP}] = true
		}
	}
	for _, a := range addrs {
		if held[a] {
			continue
		}
		px := &model.Proxy{Type: model.SidecarProxy, IPAddresses: []string{a.IP}, ConfigNamespace: a.NS, ID: "unidentified",
			Metadata: &model.NodeMetadata{Namespace: a.NS}}
		var ts []string
		for _, t := range w.agg.GetProxyServiceTargets(px) {
			pn, pp := "", 0
			if t.Port.ServicePort != nil {
				pn, pp = t.Port.ServicePort.Name, t.Port.ServicePort.Port
			}
			ts = append(ts, fmt.Sprintf("%s|%s:%d->%d", t.Service.Hostname, pn, pp, t.Port.TargetPort))
		}
		s.Proxies[fmt.Sprintf("by-released-ip %s %s", a.NS, a.IP)] = map[string]string{
			"targets": strings.Join(sortedCopy(ts), " "),
			"labels":  renderMap(w.agg.GetProxyWorkloadLabels(px)),
		}
	}
	s.Misc["defaultNetwork"] = string(w.ctl.Network("192.0.2.1", nil))
	var gws []string
	for _, g := range w.ctl.NetworkGateways() {
		if isSentinelAddr(g.Addr) {
			continue
		}
		gws = append(gws, fmt.Sprintf("%s/%s/%s:%d/%d", g.Network, g.Cluster, g.Addr, g.Port, g.HBONEPort))
	}
	s.Misc["networkGateways"] = strings.Join(sortedCopy(gws), " ")
	return s
}

type diffEntry struct {
	Key        string // kind of difference: root cause where one was recognised, else the datum class
	Explained  bool
	Unasserted string // non-empty: outside what the property covers; counted under this name, not asserted
	ID         string // which datum differs (independent of the comparison it was found by)
	Detail     string
}

// field classes of an endpoint
var endpointFieldClasses = map[string]string{
	"locality": "node-derived-metadata", "nodeName": "node-derived-metadata",
	"serviceAccount": "pod-metadata", "tlsMode": "pod-metadata", "workloadName": "pod-metadata", "namespace": "pod-metadata",
	"hostName": "pod-metadata", "subDomain": "pod-metadata",
	"network": "network", "endpointPort": "port", "servicePortName": "port", "addresses": "addresses", "health": "health",
	"lbWeight": "lb-weight", "discoverability": "discoverability", "localityCluster": "cluster",
}

// unassertedEndpointFields: data of the registry's own bookkeeping that reach no proxy.
// sendUnhealthy only decides whether the arrival of an unhealthy endpoint triggers a push.
var unassertedEndpointFields = map[string]string{"sendUnhealthy": "endpoint_push_hint_differences_not_asserted"}

func finalHidden(final map[objID]kruntime.Object) func(svcKey string) bool {
	return func(k string) bool {
		name, ns := splitSvcKey(k)
		s, ok := final[objID{kService, ns, name}].(*corev1.Service)
		return ok && exportedToNobody(s)
	}
}

// diffSnap compares two snapshots; ra/rb name the roles (e.g. "live", "cold"). x (may be nil)
// names root causes for the live-vs-cold comparison; hidden tells which services no proxy can
// import according to the final objects.
func diffSnap(cmp string, a, b *snapshot, ra, rb string, x *explainer, hidden func(string) bool) []diffEntry {
	var out []diffEntry
	prefix := ""
	if cmp != "live-vs-cold" {
		prefix = cmp + ":"
	}
	add := func(generic, cause, id, detail string) {
		e := diffEntry{Key: prefix + generic, ID: id, Detail: detail}
		if cause != "" {
			e.Key, e.Explained = prefix+cause, true
		}
		out = append(out, e)
	}
	unasserted := func(counter, id, detail string) {
		out = append(out, diffEntry{Unasserted: counter, ID: id, Detail: detail})
	}
	why := func(k, ek string) string {
		if x == nil {
			return ""
		}
		if d := x.describe(k, ek); d != "" {
			return " {" + d + "}"
		}
		return ""
	}

	for _, h := range unionKeys(a.Services, b.Services) {
		sa, oka := a.Services[h]
		sb, okb := b.Services[h]
		switch {
		case !okb:
			add("service:only-in-"+ra, "", "service|"+h, fmt.Sprintf("service %s exists only in %s: %s", h, ra, renderMap(sa)))
		case !oka:
			add("service:only-in-"+rb, "", "service|"+h, fmt.Sprintf("service %s exists only in %s: %s", h, rb, renderMap(sb)))
		default:
			for _, f := range unionKeys(sa, sb) {
				if sa[f] != sb[f] {
					cause := ""
					if x != nil {
						if c := x.serviceField(h, f, sa[f], sb[f]); c != "" {
							cause = "service:stale-traffic-distribution:" + c
						}
					}
					add("service:field="+f, cause, "service|"+h+"|"+f, fmt.Sprintf("service %s %s: %s=%q %s=%q", h, f, ra, sa[f], rb, sb[f]))
				}
			}
		}
	}
	endpointsDiffer := map[string]bool{}
	for _, k := range unionKeys(a.Endpoints, b.Endpoints) {
		ea, eb := a.Endpoints[k], b.Endpoints[k]
		for _, ek := range unionKeys(ea, eb) {
			xa, oka := ea[ek]
			xb, okb := eb[ek]
			id := "endpoint|" + k + "|" + ek
			if hidden(k) {
				// no proxy can import the service: whatever the index holds for it reaches nobody
				if !oka || !okb || renderMap(xa) != renderMap(xb) {
					endpointsDiffer[k] = true
					unasserted("endpoint_differences_of_services_exported_to_nobody_not_asserted", id,
						fmt.Sprintf("service [%s] (exported to nobody) endpoint [%s]: %s=%s | %s=%s", k, ek, ra, renderMap(xa), rb, renderMap(xb)))
				}
				continue
			}
			switch {
			case !okb:
				endpointsDiffer[k] = true
				cause := ""
				if x != nil {
					if c := x.endpointOnlyInLive(k, ek, len(eb)); c != "" {
						cause = "endpoint-index:stale-endpoint-kept:" + c
					}
				}
				add("endpoint:only-in-"+ra, cause, id, fmt.Sprintf("service [%s] endpoint [%s] exists only in %s: %s%s", k, ek, ra, renderMap(xa), why(k, ek)))
			case !oka:
				endpointsDiffer[k] = true
				cause := ""
				if x != nil {
					if c := x.endpointOnlyInCold(k, ek); c != "" {
						cause = "endpoint:missing:" + c
					}
				}
				add("endpoint:only-in-"+rb, cause, id, fmt.Sprintf("service [%s] endpoint [%s] exists only in %s: %s%s", k, ek, rb, renderMap(xb), why(k, ek)))
			default:
				// differing fields by class
				byClass := map[string][]string{}
				for _, f := range unionKeys(xa, xb) {
					if xa[f] == xb[f] {
						continue
					}
					if counter, ok := unassertedEndpointFields[f]; ok {
						unasserted(counter, id+"|"+f, fmt.Sprintf("service [%s] endpoint [%s] %s: %s=%q %s=%q", k, ek, f, ra, xa[f], rb, xb[f]))
						continue
					}
					endpointsDiffer[k] = true
					if f == "labels" {
						la, lb := parseLabels(xa[f]), parseLabels(xb[f])
						for _, lk := range unionKeys(la, lb) {
							if la[lk] != lb[lk] {
								c := labelClass(lk)
								byClass[c] = append(byClass[c], "label:"+lk)
							}
						}
						continue
					}
					c, ok := endpointFieldClasses[f]
					if !ok {
						c = f
					}
					byClass[c] = append(byClass[c], f)
				}
				for _, c := range sortedKeys(byClass) {
					fields := byClass[c]
					var vals []string
					for _, f := range fields {
						if strings.HasPrefix(f, "label:") {
							lk := strings.TrimPrefix(f, "label:")
							vals = append(vals, fmt.Sprintf("%s: %s=%q %s=%q", f, ra, parseLabels(xa["labels"])[lk], rb, parseLabels(xb["labels"])[lk]))
						} else {
							vals = append(vals, fmt.Sprintf("%s: %s=%q %s=%q", f, ra, xa[f], rb, xb[f]))
						}
					}
					cause := ""
					if x != nil {
						if cc := x.endpointClass(k, ek, c, fields, xa, xb); cc != "" {
							cause = "endpoint:stale:" + cc
							if cc == causeRecomputeEmpty {
								cause = "endpoint-index:stale-endpoint-kept:" + cc
							}
						}
					}
					generic := "endpoint:" + c
					if c == "health" {
						hs := []string{xa["health"], xb["health"]}
						sort.Strings(hs)
						generic = "endpoint:health(" + hs[0] + "|" + hs[1] + ")"
					}
					add(generic, cause, id+"|"+c, fmt.Sprintf("service [%s] endpoint [%s] %s%s", k, ek, strings.Join(vals, "; "), why(k, ek)))
				}
			}
		}
	}
	for _, k := range unionKeys(a.ShardSAs, b.ShardSAs) {
		// when the endpoint sets differ, differing service accounts are implied; the recorded set
		// is a datum of its own only where the endpoint sets agree
		if a.ShardSAs[k] == b.ShardSAs[k] || endpointsDiffer[k] {
			continue
		}
		det := fmt.Sprintf("service [%s] service accounts recorded on the shards differ although the endpoint sets agree: %s=%q %s=%q (endpoints: %s=%d %s=%d)",
			k, ra, a.ShardSAs[k], rb, b.ShardSAs[k], ra, len(a.Endpoints[k]), rb, len(b.Endpoints[k]))
		if hidden(k) {
			unasserted("endpoint_differences_of_services_exported_to_nobody_not_asserted", "shard-sa|"+k, det)
			continue
		}
		cause := ""
		if x != nil {
			if c := x.shardSAs(a.ShardSAs[k], b.ShardSAs[k], len(a.Endpoints[k]), len(b.Endpoints[k])); c != "" {
				cause = "shard-service-accounts:left-behind:" + c
			}
		}
		add("shard-service-accounts", cause, "shard-sa|"+k, det)
	}
	for _, k := range unionKeys(a.Proxies, b.Proxies) {
		mode := strings.SplitN(k, " ", 2)[0]
		for _, f := range []string{"targets", "labels"} {
			if a.Proxies[k][f] != b.Proxies[k][f] {
				key := "proxy-" + mode + ":" + f
				if f == "labels" {
					for _, c := range labelClasses(a.Proxies[k][f], b.Proxies[k][f]) {
						add(key+"("+c+")", "", "proxy|"+k+"|"+f, fmt.Sprintf("proxy [%s] %s: %s=%q %s=%q", k, f, ra, a.Proxies[k][f], rb, b.Proxies[k][f]))
					}
					continue
				}
				add(key, "", "proxy|"+k+"|"+f, fmt.Sprintf("proxy [%s] %s: %s=%q %s=%q", k, f, ra, a.Proxies[k][f], rb, b.Proxies[k][f]))
			}
		}
	}
	for _, k := range unionKeys(a.Misc, b.Misc) {
		if a.Misc[k] != b.Misc[k] {
			cause := ""
			if x != nil && k == "networkGateways" {
				if c := x.networkGateways(a.Misc[k], b.Misc[k]); c != "" {
					cause = "network-gateways:stale-node-address:" + c
				}
			}
			add("misc:"+k, cause, "misc|"+k, fmt.Sprintf("%s: %s=%q %s=%q", k, ra, a.Misc[k], rb, b.Misc[k]))
		}
	}
	return out
}

// referenceMembership: which endpoints the final objects define, by the documented meaning of
// EndpointSlices alone (written without the controller): every address of every slice, once per
// slice port, under the hostname of the service the slice is labelled with; an address whose
// targetRef names a pod the pod watch does not show (absent or Failed) is not served.
// "host ns" -> "addr port-name" -> target port.
func referenceMembership(final map[objID]kruntime.Object) map[string]map[string]string {
	out := map[string]map[string]string{}
	for id, o := range final {
		sl, ok := o.(*discoveryv1.EndpointSlice)
		if !ok || sl.AddressType == discoveryv1.AddressTypeFQDN {
			continue
		}
		name := sl.Labels[discoveryv1.LabelServiceName]
		if name == "" {
			continue
		}
		k := string(svcHost(name, id.NS)) + " " + id.NS
		for _, e := range sl.Endpoints {
			if e.TargetRef != nil && e.TargetRef.Kind == "Pod" {
				p, ok := final[objID{kPod, id.NS, e.TargetRef.Name}].(*corev1.Pod)
				if !ok || p.Status.Phase == corev1.PodFailed {
					continue
				}
			}
			for _, a := range e.Addresses {
				for _, port := range sl.Ports {
					pn, num := "", int32(0)
					if port.Name != nil {
						pn = *port.Name
					}
					if port.Port != nil {
						num = *port.Port
					}
					if out[k] == nil {
						out[k] = map[string]string{}
					}
					ek := a + " " + pn
					if _, dup := out[k][ek]; !dup {
						out[k][ek] = fmt.Sprint(num)
					}
				}
			}
		}
	}
	return out
}

// diffReference compares the cold-started controller's endpoint membership with the reference.
// It catches what the differential oracle cannot: a conversion that is wrong whatever the order.
func diffReference(cold *snapshot, final map[objID]kruntime.Object, hidden func(string) bool) []diffEntry {
	ref := referenceMembership(final)
	got := map[string]map[string]string{}
	for k, eps := range cold.Endpoints {
		for ek, f := range eps {
			p := strings.Fields(ek) // shard, address, port name[, #n]
			if len(p) < 2 {
				continue
			}
			pn := ""
			if len(p) > 2 && !strings.HasPrefix(p[2], "#") {
				pn = p[2]
			}
			if got[k] == nil {
				got[k] = map[string]string{}
			}
			got[k][p[1]+" "+pn] = f["endpointPort"]
		}
	}
	var out []diffEntry
	for _, k := range unionKeys(ref, got) {
		if hidden(k) {
			continue
		}
		for _, ek := range unionKeys(ref[k], got[k]) {
			r, okr := ref[k][ek]
			g, okg := got[k][ek]
			id := "reference|" + k + "|" + ek
			switch {
			case okr && !okg:
				out = append(out, diffEntry{Key: "cold-start-vs-final-objects:endpoint:missing", ID: id,
					Detail: fmt.Sprintf("service [%s]: the final slices define endpoint [%s] (port %s); the cold-started controller has none", k, ek, r)})
			case !okr && okg:
				out = append(out, diffEntry{Key: "cold-start-vs-final-objects:endpoint:unexpected", ID: id,
					Detail: fmt.Sprintf("service [%s]: the cold-started controller has endpoint [%s] (port %s); no final slice defines it", k, ek, g)})
			case r != g:
				out = append(out, diffEntry{Key: "cold-start-vs-final-objects:endpoint:port", ID: id,
					Detail: fmt.Sprintf("service [%s] endpoint [%s]: port %s, the final slices say %s", k, ek, g, r)})
			}
		}
	}
	return out
}

func unionKeys[V any](a, b map[string]V) []string {
	m := map[string]bool{}
	for k := range a {
		m[k] = true
	}
	for k := range b {
		m[k] = true
	}
	out := make([]string, 0, len(m))
	for k := range m {
		out = append(out, k)
	}
	sort.Strings(out)
	return out
}

// labelClasses: labels the registry derives from the node (locality, hostname) or from the
// network are a different kind of datum than the pod's own labels.
func labelClasses(va, vb string) []string {
	pa, pb := map[string]string{}, map[string]string{}
	for _, kv := range strings.Split(va, ",") {
		if i := strings.Index(kv, "="); i > 0 {
			pa[kv[:i]] = kv[i+1:]
		}
	}
	for _, kv := range strings.Split(vb, ",") {
		if i := strings.Index(kv, "="); i > 0 {
			pb[kv[:i]] = kv[i+1:]
		}
	}
	set := map[string]bool{}
	for _, k := range unionKeys(pa, pb) {
		if pa[k] == pb[k] {
			continue
		}
		switch {
		case k == "topology.istio.io/network":
			set["network"] = true
		case strings.HasPrefix(k, "topology.") || k == "kubernetes.io/hostname" || strings.HasPrefix(k, "failure-domain."):
			set["node-derived-metadata"] = true
		default:
			set["pod-metadata"] = true
		}
	}
	if len(set) == 0 {
		set["pod-metadata"] = true
	}
	out := make([]string, 0, len(set))
	for k := range set {
		out = append(out, k)
	}
	sort.Strings(out)
	return out
}
