package main

// scenarios.go: hand-written arrival orders. One per repair mechanism named by the property
// (they must hold), and minimal reproductions ("finding/...") of every root cause the random
// exploration found on the unchanged tree: the violation key is the same as the one the
// exploration produces. `kubereg repro <name>` runs one and prints what istio derived.

import (
	"fmt"

	corev1 "k8s.io/api/core/v1"
	discoveryv1 "k8s.io/api/discovery/v1"
	metav1 "k8s.io/apimachinery/pkg/apis/meta/v1"
	kruntime "k8s.io/apimachinery/pkg/runtime"
	"k8s.io/apimachinery/pkg/util/intstr"
)

type scenario struct {
	name  string
	about string
	tier  string // what kind of arrival order the scenario stands for ("" => true-order)
	build func(b *sb)
}

type sb struct {
	ops   []*op
	final map[objID]kruntime.Object
}

func idOf(obj kruntime.Object) objID {
	m := obj.(metav1.Object)
	switch obj.(type) {
	case *corev1.Namespace:
		return objID{kNamespace, "", m.GetName()}
	case *corev1.Node:
		return objID{kNode, "", m.GetName()}
	case *corev1.Service:
		return objID{kService, m.GetNamespace(), m.GetName()}
	case *corev1.Pod:
		return objID{kPod, m.GetNamespace(), m.GetName()}
	case *discoveryv1.EndpointSlice:
		return objID{kSlice, m.GetNamespace(), m.GetName()}
	}
	panic(fmt.Sprintf("unknown object %T", obj))
}

// put creates the object if the scenario has not got it, else updates it.
func (b *sb) put(obj kruntime.Object, note string) {
	id := idOf(obj)
	verb := "update"
	if _, ok := b.final[id]; !ok {
		verb = "create"
	}
	obj.(metav1.Object).SetResourceVersion(fmt.Sprint(1000 + len(b.ops)))
	b.final[id] = obj
	b.ops = append(b.ops, &op{ID: len(b.ops), Obj: id, Verb: verb, Object: obj, Note: note})
}

func (b *sb) replay(obj kruntime.Object) {
	b.ops = append(b.ops, &op{ID: -1, Obj: idOf(obj), Verb: "replay", Object: b.final[idOf(obj)], Note: "unchanged object applied again"})
}

func (b *sb) del(obj kruntime.Object) {
	id := idOf(obj)
	delete(b.final, id)
	b.ops = append(b.ops, &op{ID: len(b.ops), Obj: id, Verb: "delete", Note: "delete"})
}

// object shorthands (built by the same constructors the random histories use)

func xNS(name string, annos map[string]string) *corev1.Namespace {
	n := &nsSim{name: name, labels: map[string]string{"kubernetes.io/metadata.name": name}, annos: annos}
	return n.object()
}

func xSysNS(network string) *corev1.Namespace {
	n := &nsSim{name: systemNS, labels: map[string]string{}}
	if network != "" {
		n.labels[networkLabel] = network
	}
	return n.object()
}

func xNode(name, zone, ext string) *corev1.Node {
	n := &nodeSim{name: name, inc: 1, externalIP: ext, labels: map[string]string{"topology.kubernetes.io/region": "r" + zone[1:], "topology.kubernetes.io/zone": zone, "gw": "yes"}}
	return n.object()
}

func xSvc(name string, sel map[string]string, mod func(*svcSim)) *corev1.Service {
	v := &svcSim{ns: "ns-a", name: name, typ: "clusterip", inc: 1, ip: "10.96.0.9", selector: sel, labels: map[string]string{}, annos: map[string]string{},
		ports: []svcPort{{name: "http", port: 80, target: intstr.FromInt32(8080)}}}
	if mod != nil {
		mod(v)
	}
	return v.object()
}

// xPod: state is one of pending | unscheduled-with-ip | running | ready | terminating | failed
func xPod(name, ip, node, sa, state string, labels map[string]string, inc int) *corev1.Pod {
	p := &podSim{ns: "ns-a", name: name, ip: ip, node: node, sa: sa, labels: labels, inc: inc, phase: corev1.PodRunning}
	switch state {
	case "pending":
		p.phase, p.ip, p.node = corev1.PodPending, "", ""
	case "running":
	case "ready":
		p.ready = true
	case "terminating":
		p.ready, p.terminating = true, true
	case "failed":
		p.phase = corev1.PodFailed
	default:
		panic("state " + state)
	}
	return p.object()
}

func xSlice(name, svc string, port int32, eps ...epSim) *discoveryv1.EndpointSlice {
	l := &sliceSim{ns: "ns-a", name: name, svc: svc, inc: 1, eps: eps,
		ports: []discoveryv1.EndpointPort{{Name: strp("http"), Port: i32p(port), Protocol: protop(corev1.ProtocolTCP)}}}
	return l.object()
}

func epReady(ip, pod, node string) epSim {
	return epSim{ip: ip, pod: pod, node: node, ready: true, serving: true}
}
func epNotReady(ip, pod, node string) epSim { return epSim{ip: ip, pod: pod, node: node} }
func epTerminating(ip, pod, node string) epSim {
	return epSim{ip: ip, pod: pod, node: node, serving: true, terminating: true}
}

var (
	lblA  = map[string]string{"app": "a", "version": "v1"}
	lblA2 = map[string]string{"app": "a", "version": "v2"}
	selA  = map[string]string{"app": "a"}
)

func base(b *sb) {
	b.put(xNS("ns-a", nil), "namespace")
	b.put(xNode("node-1", "z1", ""), "node zone z1")
}

var directed = []scenario{
	// ---- the repair mechanisms the property names: these must hold --------------------------
	{name: "usual-order", about: "namespace, node, service, ready pod, slice", build: func(b *sb) {
		base(b)
		b.put(xSvc("svc", selA, nil), "service")
		b.put(xPod("p1", "10.0.0.1", "node-1", "sa-1", "ready", lblA, 1), "pod ready")
		b.put(xSlice("svc-s1", "svc", 8080, epReady("10.0.0.1", "p1", "node-1")), "slice")
	}},
	{name: "slice-before-pod", tier: "kind-streams", about: "endpoint seen before its pod; the pod arrives pending, then ready (needResync replay)", build: func(b *sb) {
		base(b)
		b.put(xSvc("svc", selA, nil), "service")
		b.put(xSlice("svc-s1", "svc", 8080, epReady("10.0.0.1", "p1", "node-1")), "slice names p1, which is unknown")
		b.put(xPod("p1", "", "", "sa-1", "pending", lblA, 1), "pod pending")
		b.put(xPod("p1", "10.0.0.1", "node-1", "sa-1", "ready", lblA, 1), "pod ready with its address")
	}},
	{name: "slice-before-pod-two-slices", tier: "kind-streams", about: "two services wait for the same pod", build: func(b *sb) {
		base(b)
		b.put(xSvc("svc", selA, nil), "service")
		b.put(xSvc("svc2", selA, func(v *svcSim) { v.ip = "10.96.0.10" }), "service 2")
		b.put(xSlice("svc-s1", "svc", 8080, epReady("10.0.0.1", "p1", "node-1")), "slice of svc")
		b.put(xSlice("svc2-s1", "svc2", 8080, epReady("10.0.0.1", "p1", "node-1")), "slice of svc2")
		b.put(xPod("p1", "10.0.0.1", "node-1", "sa-1", "ready", lblA, 1), "pod ready")
	}},
	{name: "everything-before-service", tier: "kind-streams", about: "pods and slices first, the service last (endpoints recomputed on service add)", build: func(b *sb) {
		base(b)
		b.put(xPod("p1", "10.0.0.1", "node-1", "sa-1", "ready", lblA, 1), "pod ready")
		b.put(xSlice("svc-s1", "svc", 8080, epReady("10.0.0.1", "p1", "node-1")), "slice without service")
		b.put(xSvc("svc", selA, nil), "service last")
	}},
	{name: "service-delete-recreate", about: "service deleted and re-created while its slices stay", build: func(b *sb) {
		base(b)
		s := xSvc("svc", selA, nil)
		b.put(s, "service")
		b.put(xPod("p1", "10.0.0.1", "node-1", "sa-1", "ready", lblA, 1), "pod ready")
		b.put(xSlice("svc-s1", "svc", 8080, epReady("10.0.0.1", "p1", "node-1")), "slice")
		b.del(s)
		b.put(xSvc("svc", selA, func(v *svcSim) { v.inc = 2 }), "service again")
	}},
	{name: "service-deleted", about: "a service with endpoints is deleted, its slice follows", build: func(b *sb) {
		base(b)
		s := xSvc("svc", selA, nil)
		b.put(s, "service")
		b.put(xSvc("svc2", selA, func(v *svcSim) { v.ip = "10.96.0.10" }), "service 2")
		b.put(xPod("p1", "10.0.0.1", "node-1", "sa-1", "ready", lblA, 1), "pod ready")
		l := xSlice("svc-s1", "svc", 8080, epReady("10.0.0.1", "p1", "node-1"))
		b.put(l, "slice of svc")
		b.put(xSlice("svc2-s1", "svc2", 8080, epReady("10.0.0.1", "p1", "node-1")), "slice of svc2")
		b.del(s)
		b.del(l)
	}},
	{name: "ip-reuse", about: "p1 deleted, p2 takes its address; a proxy identified only by address must be p2", build: func(b *sb) {
		base(b)
		b.put(xSvc("svc", selA, nil), "service")
		p1 := xPod("p1", "10.0.0.1", "node-1", "sa-1", "ready", lblA, 1)
		b.put(p1, "p1 ready")
		b.put(xSlice("svc-s1", "svc", 8080, epReady("10.0.0.1", "p1", "node-1")), "slice with p1")
		b.del(p1)
		b.put(xPod("p2", "10.0.0.1", "node-1", "sa-2", "ready", lblA2, 1), "p2 ready with p1's address")
		b.put(xSlice("svc-s1", "svc", 8080, epReady("10.0.0.1", "p2", "node-1")), "slice with p2")
	}},
	{name: "ip-reuse-slice-first", tier: "kind-streams", about: "as ip-reuse, but the slice naming p2 arrives before p1 is gone and p2 is known", build: func(b *sb) {
		base(b)
		b.put(xSvc("svc", selA, nil), "service")
		p1 := xPod("p1", "10.0.0.1", "node-1", "sa-1", "ready", lblA, 1)
		b.put(p1, "p1 ready")
		b.put(xSlice("svc-s1", "svc", 8080, epReady("10.0.0.1", "p1", "node-1")), "slice with p1")
		b.put(xSlice("svc-s1", "svc", 8080, epReady("10.0.0.1", "p2", "node-1")), "slice with p2 (unknown)")
		b.del(p1)
		b.put(xPod("p2", "10.0.0.1", "node-1", "sa-2", "ready", lblA2, 1), "p2 ready")
	}},
	{name: "pod-changes-ip", about: "one pod moves to another address (ipByPods clean-up); the old address must resolve to nothing", build: func(b *sb) {
		base(b)
		b.put(xSvc("svc", selA, nil), "service")
		b.put(xPod("p1", "10.0.0.1", "node-1", "sa-1", "ready", lblA, 1), "p1 ready at .1")
		b.put(xPod("p2", "10.0.0.3", "node-1", "sa-2", "ready", lblA2, 1), "p2 ready at .3")
		b.put(xPod("p1", "10.0.0.2", "node-1", "sa-1", "ready", lblA, 1), "p1 now at .2")
		b.put(xPod("p2", "10.0.0.1", "node-1", "sa-2", "ready", lblA2, 1), "p2 now at .1")
		b.put(xSlice("svc-s1", "svc", 8080, epReady("10.0.0.1", "p2", "node-1"), epReady("10.0.0.2", "p1", "node-1")), "slice")
	}},
	{name: "evicted-pod-loses-ip", about: "eviction: Failed and address cleared in one update; the address is re-used", build: func(b *sb) {
		base(b)
		b.put(xSvc("svc", selA, nil), "service")
		b.put(xPod("p1", "10.0.0.1", "node-1", "sa-1", "ready", lblA, 1), "p1 ready")
		b.put(xPod("p1", "", "node-1", "sa-1", "failed", lblA, 1), "p1 evicted (no address)")
		b.put(xPod("p2", "10.0.0.1", "node-1", "sa-2", "ready", lblA2, 1), "p2 ready at p1's address")
		b.put(xSlice("svc-s1", "svc", 8080, epReady("10.0.0.1", "p2", "node-1")), "slice")
	}},
	{name: "address-moves-add-first", about: "an address is in two slices for a while (added to s2 before removed from s1)", build: func(b *sb) {
		base(b)
		b.put(xSvc("svc", selA, nil), "service")
		b.put(xPod("p1", "10.0.0.1", "node-1", "sa-1", "ready", lblA, 1), "p1")
		b.put(xPod("p2", "10.0.0.2", "node-1", "sa-1", "ready", lblA, 1), "p2")
		b.put(xSlice("svc-s1", "svc", 8080, epReady("10.0.0.1", "p1", "node-1"), epReady("10.0.0.2", "p2", "node-1")), "s1: p1 p2")
		b.put(xSlice("svc-s2", "svc", 8080, epReady("10.0.0.2", "p2", "node-1")), "s2: p2 (duplicate)")
		b.put(xSlice("svc-s1", "svc", 8080, epReady("10.0.0.1", "p1", "node-1")), "s1: p1")
	}},
	{name: "address-moves-then-leaves", about: "moved to s2, then removed from s2: the stale copy in s1's cache must not survive", build: func(b *sb) {
		base(b)
		b.put(xSvc("svc", selA, nil), "service")
		b.put(xPod("p1", "10.0.0.1", "node-1", "sa-1", "ready", lblA, 1), "p1")
		b.put(xPod("p2", "10.0.0.2", "node-1", "sa-1", "ready", lblA, 1), "p2")
		b.put(xSlice("svc-s1", "svc", 8080, epReady("10.0.0.1", "p1", "node-1"), epReady("10.0.0.2", "p2", "node-1")), "s1: p1 p2")
		b.put(xSlice("svc-s1", "svc", 8080, epReady("10.0.0.1", "p1", "node-1")), "s1: p1")
		b.put(xSlice("svc-s2", "svc", 8080, epReady("10.0.0.2", "p2", "node-1")), "s2: p2")
		b.put(xSlice("svc-s2", "svc", 8080, epNotReady("10.0.0.2", "p2", "node-1")), "s2: p2 not ready")
		s2 := xSlice("svc-s2", "svc", 8080)
		b.put(s2, "s2: empty")
		b.del(s2)
	}},
	{name: "slice-shrinks", about: "a slice update drops one address and changes the port", build: func(b *sb) {
		base(b)
		b.put(xSvc("svc", selA, nil), "service")
		b.put(xPod("p1", "10.0.0.1", "node-1", "sa-1", "ready", lblA, 1), "p1")
		b.put(xPod("p2", "10.0.0.2", "node-1", "sa-1", "ready", lblA, 1), "p2")
		b.put(xSlice("svc-s1", "svc", 8080, epReady("10.0.0.1", "p1", "node-1"), epReady("10.0.0.2", "p2", "node-1")), "s1: p1 p2")
		b.put(xSlice("svc-s1", "svc", 8081, epReady("10.0.0.2", "p2", "node-1")), "s1: p2, port 8081")
	}},
	{name: "label-change-of-ready-pod", about: "a ready pod in a slice changes labels", build: func(b *sb) {
		base(b)
		b.put(xSvc("svc", selA, nil), "service")
		b.put(xPod("p1", "10.0.0.1", "node-1", "sa-1", "ready", lblA, 1), "p1 v1")
		b.put(xSlice("svc-s1", "svc", 8080, epReady("10.0.0.1", "p1", "node-1")), "slice")
		b.put(xPod("p1", "10.0.0.1", "node-1", "sa-1", "ready", map[string]string{"app": "a", "version": "v2", "security.istio.io/tlsMode": "istio"}, 1), "p1 v2 + tlsMode")
	}},
	{name: "readiness-flaps", about: "ready -> not ready -> ready -> not ready endpoint conditions, with replays", build: func(b *sb) {
		base(b)
		s := xSvc("svc", selA, nil)
		b.put(s, "service")
		p := xPod("p1", "10.0.0.1", "node-1", "sa-1", "ready", lblA, 1)
		b.put(p, "p1 ready")
		b.put(xSlice("svc-s1", "svc", 8080, epReady("10.0.0.1", "p1", "node-1")), "ready")
		b.put(xPod("p1", "10.0.0.1", "node-1", "sa-1", "running", lblA, 1), "p1 not ready")
		b.put(xSlice("svc-s1", "svc", 8080, epNotReady("10.0.0.1", "p1", "node-1")), "not ready")
		b.replay(s)
		b.put(xPod("p1", "10.0.0.1", "node-1", "sa-1", "ready", lblA, 1), "p1 ready again")
		b.put(xSlice("svc-s1", "svc", 8080, epReady("10.0.0.1", "p1", "node-1")), "ready again")
		b.put(xPod("p1", "10.0.0.1", "node-1", "sa-1", "running", lblA, 1), "p1 not ready")
		b.put(xSlice("svc-s1", "svc", 8080, epNotReady("10.0.0.1", "p1", "node-1")), "not ready")
		b.replay(p)
	}},
	{name: "headless-and-externalname", tier: "kind-streams", about: "headless service with endpoints; ExternalName service; both after their slices", build: func(b *sb) {
		base(b)
		b.put(xPod("p1", "10.0.0.1", "node-1", "sa-1", "ready", lblA, 1), "p1")
		b.put(xSlice("hl-s1", "hl", 8080, epReady("10.0.0.1", "p1", "node-1")), "slice of headless")
		b.put(xSvc("hl", selA, func(v *svcSim) { v.typ = "headless" }), "headless")
		b.put(xSvc("ext", nil, func(v *svcSim) { v.typ = "externalname" }), "externalname")
	}},
	{name: "system-namespace-network-late", tier: "kind-streams", about: "the system namespace (default network label) arrives after everything", build: func(b *sb) {
		base(b)
		b.put(xSvc("svc", selA, nil), "service")
		b.put(xPod("p1", "10.0.0.1", "node-1", "sa-1", "ready", lblA, 1), "p1")
		b.put(xSlice("svc-s1", "svc", 8080, epReady("10.0.0.1", "p1", "node-1")), "slice")
		b.put(xSysNS("net-1"), "system namespace network=net-1")
		b.put(xSysNS("net-2"), "system namespace network=net-2")
	}},
	{name: "nodeport-gateway-nodes-late", tier: "kind-streams", about: "NodePort gateway service first, its nodes later, one node deleted", build: func(b *sb) {
		b.put(xNS("ns-a", nil), "namespace")
		b.put(xSvc("gw", selA, func(v *svcSim) {
			v.typ = "nodeport-gw"
			v.labels[networkLabel] = "net-gw"
			v.annos[nodeSelAnno] = `{"gw":"yes"}`
			v.ports = []svcPort{{name: "tls", port: 15443, target: intstr.FromInt32(15443), node: 30443}}
		}), "gateway service")
		b.put(xNode("node-1", "z1", "203.0.113.1"), "node-1 ext")
		n2 := xNode("node-2", "z2", "203.0.113.2")
		b.put(n2, "node-2 ext")
		b.put(xNode("node-1", "z1", "198.51.100.1"), "node-1 other ext")
		b.del(n2)
	}},

	// ---- minimal reproductions of divergences found on the unchanged tree --------------------
	{name: "finding/node-after-endpoint", tier: "kind-streams", about: "the node (locality source) arrives after the endpoint was built", build: func(b *sb) {
		b.put(xNS("ns-a", nil), "namespace")
		b.put(xSvc("svc", selA, nil), "service")
		b.put(xPod("p1", "10.0.0.1", "node-1", "sa-1", "ready", lblA, 1), "p1 on node-1 (unknown node)")
		b.put(xSlice("svc-s1", "svc", 8080, epReady("10.0.0.1", "p1", "node-1")), "slice")
		b.put(xNode("node-1", "z1", ""), "node-1 zone z1")
	}},
	{name: "finding/node-zone-change", about: "true order; the node's zone label changes after the endpoint was built", build: func(b *sb) {
		base(b)
		b.put(xSvc("svc", selA, nil), "service")
		b.put(xPod("p1", "10.0.0.1", "node-1", "sa-1", "ready", lblA, 1), "p1")
		b.put(xSlice("svc-s1", "svc", 8080, epReady("10.0.0.1", "p1", "node-1")), "slice")
		b.put(xNode("node-1", "z2", ""), "node-1 zone z2")
	}},
	{name: "finding/node-external-ip-removed", about: "true order; a gateway node loses its ExternalIP", build: func(b *sb) {
		b.put(xNS("ns-a", nil), "namespace")
		b.put(xSvc("gw", selA, func(v *svcSim) {
			v.typ = "nodeport-gw"
			v.labels[networkLabel] = "net-gw"
			v.annos[nodeSelAnno] = `{}`
			v.ports = []svcPort{{name: "tls", port: 15443, target: intstr.FromInt32(15443), node: 30443}}
		}), "gateway service")
		b.put(xNode("node-1", "z1", "203.0.113.1"), "node-1 ext")
		b.put(xNode("node-1", "z1", ""), "node-1 without ext")
	}},
	{name: "finding/service-accounts-left-behind", about: "true order; the last endpoint of a service goes away", build: func(b *sb) {
		base(b)
		b.put(xSvc("svc", selA, nil), "service")
		p := xPod("p1", "10.0.0.1", "node-1", "sa-1", "ready", lblA, 1)
		b.put(p, "p1")
		s := xSlice("svc-s1", "svc", 8080, epReady("10.0.0.1", "p1", "node-1"))
		b.put(s, "slice")
		b.del(p)
		b.del(s)
	}},
	{name: "finding/namespace-after-service", tier: "kind-streams", about: "the namespace carrying a traffic-distribution annotation arrives after its service", build: func(b *sb) {
		b.put(xSvc("svc", selA, nil), "service")
		b.put(xNS("ns-a", map[string]string{tdAnnotation: "PreferClose"}), "namespace with traffic-distribution")
	}},
	{name: "finding/slice-before-unready-pod", tier: "kind-streams", about: "endpoint seen before its pod; the pod arrives but is not ready (and stays so)", build: func(b *sb) {
		base(b)
		b.put(xSvc("svc", selA, nil), "service")
		b.put(xSlice("svc-s1", "svc", 8080, epNotReady("10.0.0.1", "p1", "node-1")), "slice names p1 (not ready), p1 unknown")
		b.put(xPod("p1", "10.0.0.1", "node-1", "sa-1", "running", lblA, 1), "p1 running, not ready")
	}},
	{name: "finding/publish-not-ready-slice-before-pod", tier: "kind-streams", about: "publishNotReadyAddresses: the slice lists a ready endpoint for a pod that is not Ready; the slice arrives first, so a healthy endpoint is missing for as long as the pod stays not Ready", build: func(b *sb) {
		base(b)
		b.put(xSvc("svc", selA, func(v *svcSim) { v.typ, v.publish = "headless", true }), "headless service, publishNotReadyAddresses")
		b.put(xSlice("svc-s1", "svc", 8080, epSim{ip: "10.0.0.1", pod: "p1", node: "node-1", ready: true}), "slice: p1 ready (published although not Ready), p1 unknown")
		b.put(xPod("p1", "10.0.0.1", "node-1", "sa-1", "running", lblA, 1), "p1 running, not ready")
	}},
	{name: "finding/slice-sees-unscheduled-pod", tier: "kind-streams", about: "the slice is processed while the pod informer still shows the pod unscheduled", build: func(b *sb) {
		base(b)
		b.put(xSvc("svc", selA, nil), "service")
		b.put(xPod("p1", "", "", "sa-1", "pending", lblA, 1), "p1 pending, no node")
		b.put(xSlice("svc-s1", "svc", 8080, epNotReady("10.0.0.1", "p1", "node-1")), "slice names p1 (not ready)")
		b.put(xPod("p1", "10.0.0.1", "node-1", "sa-1", "running", lblA, 1), "p1 scheduled, running, not ready")
	}},
	{name: "finding/relabel-while-not-ready", about: "true order; a pod that is not ready changes labels", build: func(b *sb) {
		base(b)
		b.put(xSvc("svc", selA, nil), "service")
		b.put(xPod("p1", "10.0.0.1", "node-1", "sa-1", "running", map[string]string{"app": "a", "security.istio.io/tlsMode": "istio"}, 1), "p1 running, not ready")
		b.put(xSlice("svc-s1", "svc", 8080, epNotReady("10.0.0.1", "p1", "node-1")), "slice (not ready)")
		b.put(xPod("p1", "10.0.0.1", "node-1", "sa-1", "running", map[string]string{"app": "a"}, 1), "p1 drops the tlsMode label")
	}},
	{name: "finding/recreated-pod-other-service-account", tier: "kind-streams", about: "a pod name is re-used with another service account; the slice is processed while the old pod is still cached", build: func(b *sb) {
		base(b)
		b.put(xSvc("svc", selA, func(v *svcSim) { v.publish = true }), "service (publishNotReadyAddresses)")
		old := xPod("web-0", "10.0.0.1", "node-1", "sa-old", "ready", lblA, 1)
		b.put(old, "web-0 (sa-old) ready")
		b.put(xSlice("svc-s1", "svc", 8080, epReady("10.0.0.1", "web-0", "node-1")), "slice: web-0 at .1")
		b.put(xSlice("svc-s1", "svc", 8080, epReady("10.0.0.2", "web-0", "node-1")), "slice: the new web-0 at .2 (slice stream ahead)")
		b.del(old)
		b.put(xPod("web-0", "", "", "sa-new", "pending", lblA2, 2), "new web-0 (sa-new) pending")
		b.put(xPod("web-0", "10.0.0.2", "node-1", "sa-new", "ready", lblA2, 2), "new web-0 ready at .2")
	}},
	{name: "finding/label-and-selector-race", tier: "kind-streams", about: "slice stream ahead; pod relabelled a->c before the service's selector follows", build: func(b *sb) {
		base(b)
		b.put(xSvc("svc", selA, nil), "service selects app=a")
		b.put(xPod("p1", "10.0.0.1", "node-1", "sa-1", "ready", lblA, 1), "p1 app=a")
		b.put(xSlice("svc-s1", "svc", 8080, epReady("10.0.0.1", "p1", "node-1")), "slice (final: p1 is a member before and after)")
		b.put(xPod("p1", "10.0.0.1", "node-1", "sa-1", "ready", map[string]string{"app": "c", "version": "v1"}, 1), "p1 app=c")
		b.put(xSvc("svc", map[string]string{"app": "c"}, nil), "service selects app=c")
	}},
	{name: "finding/relabel-recompute-leaves-index-behind", tier: "kind-streams", about: "the re-computation for a relabelled pod finds every endpoint of the service waiting for its pod; the empty result is not written to the endpoint index, which keeps the deleted pod's endpoint", build: func(b *sb) {
		base(b)
		b.put(xSvc("svc", selA, nil), "service selects app=a")
		old := xPod("p1", "10.0.0.1", "node-1", "sa-old", "ready", lblA, 1)
		b.put(old, "p1 (sa-old) ready at .1")
		b.put(xSlice("svc-s1", "svc", 8080, epNotReady("10.0.0.1", "p1", "node-1")), "slice: p1 at .1, not ready (final version; the slice stream is ahead)")
		b.put(xPod("p2", "10.0.0.2", "node-1", "sa-1", "ready", lblA, 1), "p2 ready, app=a (not yet in a slice)")
		b.del(old)
		b.put(xPod("p2", "10.0.0.2", "node-1", "sa-1", "ready", lblA2, 1), "p2 version v2: svc is recomputed, p1 is unknown, nothing is left")
		b.put(xPod("p2", "10.0.0.2", "node-1", "sa-1", "ready", map[string]string{"app": "b", "version": "v2"}, 1), "p2 app=b: no longer selected")
		b.put(xPod("p1", "", "", "sa-new", "pending", lblA, 2), "new p1 (sa-new) pending")
		b.put(xPod("p1", "10.0.0.1", "node-1", "sa-new", "running", lblA, 2), "new p1 running at .1, not ready")
	}},
	{name: "finding/unexported-service-endpoints", about: "true order; endpoints of a service exported to nobody are not maintained", build: func(b *sb) {
		base(b)
		b.put(xSvc("svc", selA, nil), "service")
		b.put(xPod("p1", "10.0.0.1", "node-1", "sa-1", "ready", lblA, 1), "p1")
		b.put(xPod("p2", "10.0.0.2", "node-1", "sa-1", "ready", lblA, 1), "p2")
		b.put(xSlice("svc-s1", "svc", 8080, epReady("10.0.0.1", "p1", "node-1")), "slice: p1")
		b.put(xSvc("svc", selA, func(v *svcSim) { v.annos["networking.istio.io/exportTo"] = "~" }), "exportTo ~")
		b.put(xSlice("svc-s1", "svc", 8080, epReady("10.0.0.2", "p2", "node-1")), "slice: p2")
	}},
	{name: "finding/cold-start-race-terminating-endpoint", about: "usual order: service, then a slice with a terminating endpoint; the cold start converts the slice before or after the service, at random", build: func(b *sb) {
		base(b)
		b.put(xSvc("svc", selA, nil), "service")
		b.put(xPod("p1", "10.0.0.1", "node-1", "sa-1", "terminating", lblA, 1), "p1 terminating")
		b.put(xSlice("svc-s1", "svc", 8080, epTerminating("10.0.0.1", "p1", "node-1")), "slice")
	}},
	{name: "finding/service-visible-again-keeps-old-endpoints", about: "true order; a service is exported to nobody while its endpoints go away, then becomes visible again", build: func(b *sb) {
		base(b)
		b.put(xSvc("svc", selA, nil), "service")
		p := xPod("p1", "10.0.0.1", "node-1", "sa-1", "ready", lblA, 1)
		b.put(p, "p1")
		l := xSlice("svc-s1", "svc", 8080, epReady("10.0.0.1", "p1", "node-1"))
		b.put(l, "slice: p1")
		b.put(xSvc("svc", selA, func(v *svcSim) { v.annos["networking.istio.io/exportTo"] = "~" }), "exportTo ~")
		b.del(p)
		b.del(l)
		b.put(xSvc("svc", selA, nil), "visible again")
	}},
	{name: "finding/slice-before-service-terminating", tier: "kind-streams", about: "a terminating endpoint is converted before its service is known", build: func(b *sb) {
		base(b)
		b.put(xPod("p1", "10.0.0.1", "node-1", "sa-1", "terminating", lblA, 1), "p1 terminating")
		b.put(xSlice("svc-s1", "svc", 8080, epTerminating("10.0.0.1", "p1", "node-1")), "slice without service")
		b.put(xSvc("svc", selA, nil), "service last")
	}},
}
