package main

// Construction of the real sidecar-injection webhook (inject.NewWebhook) from an external main
// package and driving it through its HTTP mux with AdmissionReview JSON — the public boundary.
// Nothing in this file judges the output.

import (
	"bytes"
	"encoding/json"
	"fmt"
	"net/http"
	"net/http/httptest"
	"path/filepath"
	"sort"
	"strings"
	"sync"

	jsonpatch "github.com/evanphx/json-patch/v5"
	"sigs.k8s.io/yaml"

	meshconfig "istio.io/api/mesh/v1alpha1"
	"istio.io/istio/operator/pkg/render"
	"istio.io/istio/pilot/pkg/features"
	"istio.io/istio/pilot/pkg/model"
	"istio.io/istio/pkg/config/mesh"
	"istio.io/istio/pkg/config/mesh/meshwatcher"
	"istio.io/istio/pkg/kube/inject"
	"istio.io/istio/pkg/kube/multicluster"
	"istio.io/istio/pkg/log"

	"verifharness/internal/vh"
)

// repoRoot is where the istio tree under test lives; go.mod's replace decides which tree is
// compiled, this decides which charts / fixtures are read. Both must be the same tree, so it is
// derived from the location of a source file of the compiled inject package (see init in main.go).
var repoRoot = "/repo"

// settings is what the istio-sidecar-injector ConfigMap and the istio ConfigMap carry.
type settings struct {
	name      string
	rawConfig string // "config" key of the injector ConfigMap (YAML)
	values    string // "values" key
	mesh      *meshconfig.MeshConfig
}

var (
	settingsMu    sync.Mutex
	settingsCache = map[string]*settings{}
)

// loadSettings renders the in-repo charts with the operator exactly as istioctl / the repo's own
// tests do, and extracts the two ConfigMaps the injector consumes.
func loadSettings(name string, setFlags []string, files []string) *settings {
	settingsMu.Lock()
	defer settingsMu.Unlock()
	if s, ok := settingsCache[name]; ok {
		return s
	}
	flags := append([]string{}, setFlags...)
	flags = append(flags, "installPackagePath="+filepath.Join(repoRoot, "manifests"), "profile=empty", "components.pilot.enabled=true")
	manifests, _, err := render.GenerateManifest(files, flags, false, nil, nil)
	if err != nil {
		vh.Abort("render charts (%s): %v", name, err)
	}
	s := &settings{name: name}
	for _, set := range manifests {
		for _, o := range set.Manifests {
			if o.GetKind() != "ConfigMap" {
				continue
			}
			data, _ := o.Object["data"].(map[string]any)
			switch o.GetName() {
			case "istio-sidecar-injector":
				s.rawConfig, _ = data["config"].(string)
				s.values, _ = data["values"].(string)
			case "istio":
				md, _ := data["mesh"].(string)
				mc, err := mesh.ApplyMeshConfig(md, mesh.DefaultMeshConfig())
				if err != nil {
					vh.Abort("mesh config (%s): %v", name, err)
				}
				s.mesh = mc
			}
		}
	}
	if s.rawConfig == "" || s.values == "" || s.mesh == nil {
		vh.Abort("render charts (%s): injector ConfigMap or mesh ConfigMap missing", name)
	}
	settingsCache[name] = s
	return s
}

// editConfig returns the injector config YAML with top-level keys replaced; this is the same
// document an operator would edit in the istio-sidecar-injector ConfigMap.
func editConfig(raw string, set map[string]any) string {
	m := map[string]any{}
	if err := yaml.Unmarshal([]byte(raw), &m); err != nil {
		vh.Abort("injector config is not YAML: %v", err)
	}
	for k, v := range set {
		m[k] = v
	}
	b, err := yaml.Marshal(m)
	if err != nil {
		vh.Abort("marshal injector config: %v", err)
	}
	return string(b)
}

// staticWatcher implements inject.Watcher. Set pushes a new configuration through the handler
// the webhook registered — the same path a ConfigMap update takes.
type staticWatcher struct {
	mu      sync.Mutex
	cfg     *inject.Config
	values  string
	handler func(*inject.Config, string) error
}

func (w *staticWatcher) SetHandler(h func(*inject.Config, string) error) { w.handler = h }
func (w *staticWatcher) Run(stop <-chan struct{})                        { <-stop }
func (w *staticWatcher) Get() (*inject.Config, string, error) {
	w.mu.Lock()
	defer w.mu.Unlock()
	return w.cfg, w.values, nil
}

func (w *staticWatcher) Set(cfg *inject.Config, values string) {
	w.mu.Lock()
	w.cfg, w.values = cfg, values
	w.mu.Unlock()
	if err := w.handler(cfg, values); err != nil {
		vh.Abort("webhook rejected configuration: %v", err)
	}
}

// hook is one real webhook instance behind its mux.
type hook struct {
	mux     *http.ServeMux
	watcher *staticWatcher
	wh      *inject.Webhook
	values  string
	curCfg  string
	parsed  map[string]*inject.Config
	base    *inject.Config
	baseRaw string
	native  bool
	stop    chan struct{}
}

func parseConfig(raw string) *inject.Config {
	c, err := inject.UnmarshalConfig([]byte(raw))
	if err != nil {
		vh.Abort("UnmarshalConfig: %v", err)
	}
	return &c
}

// newHook builds the webhook the way pilot's bootstrap and webhook_test.go createWebhook do.
// native selects features.EnableNativeSidecars ("true" / "false"), a process-wide switch read at
// construction and at each request; callers run cases sequentially.
func newHook(s *settings, rawConfig string, native bool, revision string) *hook {
	if native {
		features.EnableNativeSidecars = features.NativeSidecarModeEnabled
	} else {
		features.EnableNativeSidecars = features.NativeSidecarModeDisabled
	}
	env := &model.Environment{Watcher: meshwatcher.NewTestWatcher(s.mesh)}
	env.SetPushContext(&model.PushContext{ProxyConfigs: &model.ProxyConfigs{}})
	h := &hook{mux: http.NewServeMux(), values: s.values, parsed: map[string]*inject.Config{}, stop: make(chan struct{}), native: native, baseRaw: rawConfig}
	h.base = parseConfig(rawConfig)
	h.parsed[rawConfig] = h.base
	h.watcher = &staticWatcher{cfg: h.base, values: s.values}
	h.curCfg = rawConfig
	wh, err := inject.NewWebhook(inject.WebhookParameters{
		Watcher:      h.watcher,
		Env:          env,
		Mux:          h.mux,
		Revision:     revision,
		MultiCluster: multicluster.NewFakeController(),
	})
	if err != nil {
		vh.Abort("NewWebhook: %v", err)
	}
	h.wh = wh
	wh.Run(h.stop)
	return h
}

func (h *hook) close() { close(h.stop) }

// setConfig switches the injector configuration (parsed once per distinct document).
func (h *hook) setConfig(raw string) {
	if raw == h.curCfg {
		return
	}
	c := h.parsed[raw]
	if c == nil {
		c = parseConfig(raw)
		h.parsed[raw] = c
	}
	h.watcher.Set(c, h.values)
	h.curCfg = raw
}

// setDecisionConfig switches policy and selectors. The three keys go through the real
// inject.UnmarshalConfig as a YAML document (so the parsing of these fields is the code under
// test); the already parsed templates of the base configuration are attached to the result
// instead of re-parsing ~110 kB of templates for every row.
func (h *hook) setDecisionConfig(policy string, never, always any) {
	doc, err := yaml.Marshal(map[string]any{"policy": policy, "neverInjectSelector": never, "alwaysInjectSelector": always})
	if err != nil {
		vh.Abort("marshal decision config: %v", err)
	}
	key := "decision:" + string(doc)
	if key == h.curCfg {
		return
	}
	c := h.parsed[key]
	if c == nil {
		c = parseConfig(string(doc))
		c.RawTemplates, c.Templates = h.base.RawTemplates, h.base.Templates
		c.DefaultTemplates, c.Aliases, c.InjectedAnnotations = h.base.DefaultTemplates, h.base.Aliases, h.base.InjectedAnnotations
		h.parsed[key] = c
	}
	h.watcher.Set(c, h.values)
	h.curCfg = key
}

// activate sets the process-wide native-sidecar switch this hook was built for.
func (h *hook) activate() {
	if h.native {
		features.EnableNativeSidecars = features.NativeSidecarModeEnabled
	} else {
		features.EnableNativeSidecars = features.NativeSidecarModeDisabled
	}
}

// outcome is what the API server would see.
type outcome struct {
	Status  int    // HTTP status
	Allowed bool   //
	Patched bool   // response carries a patch
	Patch   []byte // JSON patch
	Error   string // response.result.message
}

func (o outcome) decision() string {
	switch {
	case o.Status != http.StatusOK:
		return fmt.Sprintf("http-%d", o.Status)
	case o.Error != "":
		return "error"
	case o.Patched:
		return "inject"
	case o.Allowed:
		return "skip"
	}
	return "denied"
}

type admissionReview struct {
	APIVersion string `json:"apiVersion"`
	Kind       string `json:"kind"`
	Request    *struct {
		UID       string          `json:"uid"`
		Kind      map[string]any  `json:"kind"`
		Resource  map[string]any  `json:"resource"`
		Namespace string          `json:"namespace,omitempty"`
		Operation string          `json:"operation"`
		Object    json.RawMessage `json:"object"`
	} `json:"request,omitempty"`
	Response *struct {
		UID     string `json:"uid"`
		Allowed bool   `json:"allowed"`
		Result  *struct {
			Message string `json:"message"`
		} `json:"status,omitempty"`
		Patch     []byte  `json:"patch,omitempty"`
		PatchType *string `json:"patchType,omitempty"`
	} `json:"response,omitempty"`
}

// submit posts one AdmissionReview (v1) for the pod JSON to the mux and decodes the answer.
func (h *hook) submit(podJSON []byte, reqNamespace, path string) outcome {
	ar := admissionReview{APIVersion: "admission.k8s.io/v1", Kind: "AdmissionReview"}
	ar.Request = &struct {
		UID       string          `json:"uid"`
		Kind      map[string]any  `json:"kind"`
		Resource  map[string]any  `json:"resource"`
		Namespace string          `json:"namespace,omitempty"`
		Operation string          `json:"operation"`
		Object    json.RawMessage `json:"object"`
	}{
		UID:       "verif-uid",
		Kind:      map[string]any{"group": "", "version": "v1", "kind": "Pod"},
		Resource:  map[string]any{"group": "", "version": "v1", "resource": "pods"},
		Namespace: reqNamespace,
		Operation: "CREATE",
		Object:    podJSON,
	}
	body, err := json.Marshal(&ar)
	if err != nil {
		vh.Abort("marshal review: %v", err)
	}
	if path == "" {
		path = "/inject"
	}
	req := httptest.NewRequest(http.MethodPost, path, bytes.NewReader(body))
	req.Header.Set("Content-Type", "application/json")
	rec := httptest.NewRecorder()
	h.mux.ServeHTTP(rec, req)
	out := outcome{Status: rec.Code}
	if rec.Code != http.StatusOK {
		out.Error = strings.TrimSpace(rec.Body.String())
		return out
	}
	var resp admissionReview
	if err := json.Unmarshal(rec.Body.Bytes(), &resp); err != nil || resp.Response == nil {
		vh.Abort("webhook answered something that is not an AdmissionReview response: %v: %.200s", err, rec.Body.String())
	}
	if resp.Response.UID != "verif-uid" {
		vh.Abort("response uid %q does not echo the request", resp.Response.UID)
	}
	out.Allowed = resp.Response.Allowed
	if resp.Response.Result != nil {
		out.Error = resp.Response.Result.Message
	}
	out.Patch = resp.Response.Patch
	out.Patched = len(resp.Response.Patch) > 0
	return out
}

// applyPatch applies an RFC 6902 patch the way the API server does.
func applyPatch(doc, patch []byte) ([]byte, error) {
	p, err := jsonpatch.DecodePatch(patch)
	if err != nil {
		return nil, err
	}
	return p.Apply(doc)
}

// canon re-encodes JSON with sorted keys and no insignificant whitespace.
func canon(doc []byte) string {
	var v any
	d := json.NewDecoder(bytes.NewReader(doc))
	d.UseNumber()
	if err := d.Decode(&v); err != nil {
		vh.Abort("canon: %v", err)
	}
	b, _ := json.Marshal(v)
	return string(b)
}

func sortedKeys[V any](m map[string]V) []string {
	ks := make([]string, 0, len(m))
	for k := range m {
		ks = append(ks, k)
	}
	sort.Strings(ks)
	return ks
}

func quietLogs() {
	for _, s := range log.Scopes() {
		s.SetOutputLevel(log.NoneLevel)
	}
}
