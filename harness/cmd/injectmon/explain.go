package main

// "injectmon explain <replay.json|pod.json> [variant]" re-runs one pod through the real webhook
// and prints what happens on the first and on the second admission call. Development aid and
// a way to look at a replay file by hand; it renders no verdict.

import (
	"encoding/json"
	"fmt"
	"os"
	"strings"
)

func explain(args []string) {
	quietLogs()
	b, err := os.ReadFile(args[0])
	if err != nil {
		fmt.Println(err)
		os.Exit(2)
	}
	vname := "default"
	var rf struct {
		V struct {
			Replay struct {
				Pod      json.RawMessage `json:"pod"`
				Settings string          `json:"settings"`
				ReqNs    string          `json:"request_namespace"`
				Path     string          `json:"path"`
			} `json:"replay"`
		} `json:"violation"`
	}
	podJSON := b
	ns, path := "default", ""
	if json.Unmarshal(b, &rf) == nil && len(rf.V.Replay.Pod) > 0 {
		podJSON, vname, ns, path = rf.V.Replay.Pod, rf.V.Replay.Settings, rf.V.Replay.ReqNs, rf.V.Replay.Path
	}
	if len(args) > 1 {
		vname = args[1]
	}
	var v variant
	for _, x := range variants {
		if x.name == vname {
			v = x
		}
	}
	if v.name == "" {
		fmt.Println("unknown variant", vname)
		os.Exit(2)
	}
	h := hookFor(v)
	h.setConfig(h.baseRaw)
	cur := podJSON
	for round := 1; round <= 3; round++ {
		o := h.submit(cur, ns, path)
		fmt.Printf("== call %d: %s %s\n", round, o.decision(), o.Error)
		if !o.Patched {
			break
		}
		fmt.Printf("patch: %s\n", firstN(string(o.Patch), 3000))
		next, err := applyPatch(cur, o.Patch)
		if err != nil {
			fmt.Println("patch does not apply:", err)
			break
		}
		_, next = roundTrip(next)
		if round > 1 {
			fmt.Println("diff to previous:\n  " + strings.Join(jsonDiff(cur, next, 40), "\n  "))
		} else if len(args) > 2 {
			fmt.Println(canon(next))
		}
		cur = next
	}
}
