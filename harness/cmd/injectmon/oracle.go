package main

// Monitor 2: idempotency of injection and preservation of what the user wrote.

import (
	"bytes"
	"encoding/json"
	"fmt"
	"regexp"
	"strings"

	corev1 "k8s.io/api/core/v1"

	"verifharness/internal/vh"
)

// Container names the injector owns (documented constants ProxyContainerName,
// ValidationContainerName, InitContainerName, EnableCoreDumpName in pkg/kube/inject/inject.go).
// A container with one of these names in the submitted pod is, by the documented "customizing
// injection" mechanism, a set of overrides merged into the injected container, not a user
// container; the property's "user container" clause does not cover it.
var injectorOwned = map[string]bool{"istio-proxy": true, "istio-init": true, "istio-validation": true, "enable-core-dump": true}

// roundTrip is what the API server does between two admission calls: decode into the typed
// object, encode again.
func roundTrip(doc []byte) (*corev1.Pod, []byte) {
	p := &corev1.Pod{}
	if err := json.Unmarshal(doc, p); err != nil {
		vh.Abort("patched document is not a Pod: %v", err)
	}
	b, err := json.Marshal(p)
	if err != nil {
		vh.Abort("marshal pod: %v", err)
	}
	return p, b
}

var idxRe = regexp.MustCompile(`\[\d+\]`)

// jsonDiff lists the paths at which two JSON documents differ (at most max).
func jsonDiff(a, b []byte, max int) []string {
	var va, vb any
	da := json.NewDecoder(bytes.NewReader(a))
	da.UseNumber()
	_ = da.Decode(&va)
	db := json.NewDecoder(bytes.NewReader(b))
	db.UseNumber()
	_ = db.Decode(&vb)
	var out []string
	var walk func(path string, x, y any)
	short := func(v any) string {
		s, _ := json.Marshal(v)
		if len(s) > 160 {
			s = append(s[:160], "…"...)
		}
		return string(s)
	}
	walk = func(path string, x, y any) {
		if len(out) >= max {
			return
		}
		switch xv := x.(type) {
		case map[string]any:
			yv, ok := y.(map[string]any)
			if !ok {
				out = append(out, fmt.Sprintf("%s: %s -> %s", path, short(x), short(y)))
				return
			}
			keys := map[string]bool{}
			for k := range xv {
				keys[k] = true
			}
			for k := range yv {
				keys[k] = true
			}
			for _, k := range sortedKeys(keys) {
				xe, xok := xv[k]
				ye, yok := yv[k]
				switch {
				case !xok:
					out = append(out, fmt.Sprintf("%s.%s: (absent) -> %s", path, k, short(ye)))
				case !yok:
					out = append(out, fmt.Sprintf("%s.%s: %s -> (absent)", path, k, short(xe)))
				default:
					walk(path+"."+k, xe, ye)
				}
				if len(out) >= max {
					return
				}
			}
		case []any:
			yv, ok := y.([]any)
			if !ok {
				out = append(out, fmt.Sprintf("%s: %s -> %s", path, short(x), short(y)))
				return
			}
			if len(xv) != len(yv) {
				out = append(out, fmt.Sprintf("%s: length %d -> %d: %s -> %s", path, len(xv), len(yv), names(xv), names(yv)))
				return
			}
			for i := range xv {
				walk(fmt.Sprintf("%s[%d]", path, i), xv[i], yv[i])
			}
		default:
			if fmt.Sprint(x) != fmt.Sprint(y) || (x == nil) != (y == nil) {
				out = append(out, fmt.Sprintf("%s: %s -> %s", path, short(x), short(y)))
			}
		}
	}
	walk("", va, vb)
	return out
}

// names renders a list of named objects (containers, volumes, env) by name for messages.
func names(xs []any) string {
	var ns []string
	for _, x := range xs {
		if m, ok := x.(map[string]any); ok {
			if n, ok := m["name"].(string); ok {
				ns = append(ns, n)
				continue
			}
		}
		s, _ := json.Marshal(x)
		if len(s) > 40 {
			s = append(s[:40], "…"...)
		}
		ns = append(ns, string(s))
	}
	return "[" + strings.Join(ns, ",") + "]"
}

// stablePath turns "….containers[2].env[14].value: a -> b" into a key without volatile data.
func stablePath(d string) string {
	p := d
	if i := strings.Index(p, ": "); i >= 0 {
		p = p[:i]
	}
	return idxRe.ReplaceAllString(p, "[]")
}

func fieldJSON(v any) string {
	b, _ := json.Marshal(v)
	return string(b)
}

type podCase struct {
	Kind     string   // fixture | generated | template
	Source   string   // file#doc or generator index
	Settings string   // settings variant
	Features []string // what the pod contains
	Pod      *corev1.Pod
	ReqNs    string
	Path     string
}

// runPodCase: inject => pod1; submit pod1 => pod2; oracle pod2 == pod1 and pod1 preserves the original.
func runPodCase(c *vh.Ctx, h *hook, pc podCase) {
	orig := pc.Pod
	origJSON, err := json.Marshal(orig)
	if err != nil {
		vh.Abort("marshal pod: %v", err)
	}
	c.Count("pods", 1)
	c.SetAdd("settings_variants", pc.Settings)
	o1 := h.submit(origJSON, pc.ReqNs, pc.Path)
	tmpls := "sidecar"
	if a, ok := orig.Annotations["inject.istio.io/templates"]; ok {
		tmpls = a
	}
	replay := map[string]any{"kind": pc.Kind, "source": pc.Source, "settings": pc.Settings, "features": pc.Features, "pod": json.RawMessage(origJSON),
		"request_namespace": pc.ReqNs, "path": pc.Path}
	switch d := o1.decision(); d {
	case "inject":
	case "skip":
		c.Count("pods_not_injected", 1)
		return
	case "error":
		c.Count("pods_rejected_by_webhook", 1)
		c.SetAdd("rejections", pc.Kind+":"+tmpls+": "+firstN(o1.Error, 90))
		for _, t := range strings.Split(tmpls, ",") {
			c.SetAdd("templates_not_rendered", strings.TrimSpace(t)+" ("+pc.Kind+")")
		}
		return
	default:
		c.Inconclusive("webhook answered " + d + ": " + o1.Error)
		return
	}
	c.Count("pods_injected", 1)
	patched1, err := applyPatch(origJSON, o1.Patch)
	if err != nil {
		c.Violation("patch-does-not-apply", fmt.Sprintf("%s %s: the returned JSON patch does not apply to the submitted pod: %v", pc.Kind, pc.Source, err), replay)
		return
	}
	pod1, pod1JSON := roundTrip(patched1)
	for _, t := range strings.Split(tmpls, ",") {
		c.SetAdd("templates_exercised", strings.TrimSpace(t))
	}
	for _, f := range pc.Features {
		c.SetAdd("pod_features", f)
	}
	c.Max("containers_in_injected_pod", len(pod1.Spec.Containers)+len(pod1.Spec.InitContainers))

	// ---- preservation: pod1 ⊇ original -----------------------------------------------------
	checkList := func(what string, before, after []corev1.Container) {
		var want []string
		for _, bc := range before {
			if injectorOwned[bc.Name] {
				c.Count("override_containers_seen", 1)
				continue
			}
			want = append(want, bc.Name)
			var ac *corev1.Container
			for i := range after {
				if after[i].Name == bc.Name {
					ac = &after[i]
					break
				}
			}
			if ac == nil {
				c.Violation("preservation "+what+" lost",
					fmt.Sprintf("%s %s: user %s %q is missing after injection (after: %s)", pc.Kind, pc.Source, what, bc.Name, containerNames(after)), replay)
				continue
			}
			c.Count("containers_compared", 1)
			for _, f := range []struct {
				name string
				b, a any
			}{{"image", bc.Image, ac.Image}, {"command", bc.Command, ac.Command}, {"args", bc.Args, ac.Args}, {"ports", bc.Ports, ac.Ports}} {
				c.Count("container_fields_compared", 1)
				if fieldJSON(f.b) != fieldJSON(f.a) {
					c.Violation("preservation "+what+" field="+f.name,
						fmt.Sprintf("%s %s: user %s %q: %s changed by injection: %s -> %s", pc.Kind, pc.Source, what, bc.Name, f.name, fieldJSON(f.b), fieldJSON(f.a)), replay)
				}
			}
		}
		// relative order (and multiplicity) among user-owned items
		in := map[string]bool{}
		for _, n := range want {
			in[n] = true
		}
		var got []string
		for _, ac := range after {
			if in[ac.Name] {
				got = append(got, ac.Name)
			}
		}
		if len(want) > 1 {
			c.Count("order_checks_with_2plus_items", 1)
		}
		if strings.Join(got, "\x00") != strings.Join(want, "\x00") && len(got) >= len(want) {
			c.Violation("preservation "+what+" order",
				fmt.Sprintf("%s %s: user %ss were %v, after injection they appear as %v (all: %s)", pc.Kind, pc.Source, what, want, got, containerNames(after)), replay)
		}
	}
	checkList("container", orig.Spec.Containers, pod1.Spec.Containers)
	checkList("initContainer", orig.Spec.InitContainers, pod1.Spec.InitContainers)
	{
		// names of the volumes the templates contributed, as recorded in the status annotation
		templateVolumes := map[string]bool{}
		var st struct {
			Volumes []string `json:"volumes"`
		}
		_ = json.Unmarshal([]byte(pod1.Annotations["sidecar.istio.io/status"]), &st)
		for _, v := range st.Volumes {
			templateVolumes[v] = true
		}
		var want, got []string
		in := map[string]bool{}
		for _, v := range orig.Spec.Volumes {
			want = append(want, v.Name)
			in[v.Name] = true
		}
		for _, v := range pod1.Spec.Volumes {
			if in[v.Name] {
				got = append(got, v.Name)
			}
		}
		for _, bv := range orig.Spec.Volumes {
			var found *corev1.Volume
			for i := range pod1.Spec.Volumes {
				if pod1.Spec.Volumes[i].Name == bv.Name {
					found = &pod1.Spec.Volumes[i]
					break
				}
			}
			c.Count("volumes_compared", 1)
			if found == nil {
				c.Violation("preservation volume lost", fmt.Sprintf("%s %s: user volume %q is missing after injection", pc.Kind, pc.Source, bv.Name), replay)
				continue
			}
			// A volume the templates define under the same name is merged by name (strategic merge
			// patch, the documented template semantics); only volumes that are the user's alone must
			// keep their source.
			if templateVolumes[bv.Name] {
				c.Count("volumes_sharing_a_template_name", 1)
				continue
			}
			c.Count("volume_sources_compared", 1)
			if fieldJSON(bv) != fieldJSON(*found) {
				c.Violation("preservation volume source", fmt.Sprintf("%s %s: user volume %q changed by injection: %s -> %s", pc.Kind, pc.Source, bv.Name, fieldJSON(bv), fieldJSON(*found)), replay)
			}
		}
		if strings.Join(got, "\x00") != strings.Join(want, "\x00") && len(got) >= len(want) {
			c.Violation("preservation volume order", fmt.Sprintf("%s %s: user volumes were %v, after injection they appear as %v", pc.Kind, pc.Source, want, got), replay)
		}
	}

	// ---- idempotency: submit pod1 again ------------------------------------------------------
	o2 := h.submit(pod1JSON, pc.ReqNs, pc.Path)
	c.Count("reinvocations", 1)
	var pod2JSON []byte
	pod2 := pod1
	switch d := o2.decision(); d {
	case "inject":
		patched2, err := applyPatch(pod1JSON, o2.Patch)
		if err != nil {
			c.Violation("reinvocation patch-does-not-apply", fmt.Sprintf("%s %s: second patch does not apply: %v", pc.Kind, pc.Source, err), replay)
			return
		}
		pod2, pod2JSON = roundTrip(patched2)
		if string(o2.Patch) == "[]" {
			c.Count("reinvocations_with_empty_patch", 1)
		}
	case "skip":
		c.Count("reinvocations_skipped_by_policy", 1)
		pod2JSON = pod1JSON
	case "error":
		c.Violation("reinvocation rejected",
			fmt.Sprintf("%s %s (templates %s): the webhook injected the pod but rejects its own output on re-invocation: %s", pc.Kind, pc.Source, tmpls, firstN(o2.Error, 300)), replay)
		return
	default:
		c.Inconclusive("re-invocation answered " + d)
		return
	}
	if canon(pod2JSON) != canon(pod1JSON) {
		// Findings are keyed by where the second call changed the pod, with lists of named things
		// (containers, volumes, env) addressed by name so that keys do not depend on positions.
		diffs := jsonDiff(keyedView(pod1JSON), keyedView(pod2JSON), 12)
		raw := jsonDiff(pod1JSON, pod2JSON, 8)
		replay["diff_pod1_to_pod2"] = raw
		replay["second_patch"] = json.RawMessage(o2.Patch)
		cl := &classifier{orig: orig, pod1: pod1, pod2: pod2, settings: pc.Settings, path: pc.Path, tmpls: tmpls}
		seen := map[string]bool{}
		for _, d := range diffs {
			if strings.Contains(d, "#order: length ") && len(diffs) > 1 {
				continue // members came or went; each is reported under its own name
			}
			key := cl.key(d)
			if seen[key] {
				continue
			}
			seen[key] = true
			c.Violation(key, fmt.Sprintf("%s %s (templates %s, settings %s): re-submitting the injected pod changes it again: %s   [all: %s]",
				pc.Kind, pc.Source, tmpls, pc.Settings, d, strings.Join(raw, " ; ")), replay)
		}
		c.Count("pods_not_idempotent", 1)
	} else {
		c.Count("pods_idempotent", 1)
	}
	c.Nontrivial(vh.Hash("pod", pc.Settings, origJSON))
	c.Sample(map[string]any{"kind": pc.Kind, "source": pc.Source, "settings": pc.Settings, "templates": tmpls, "features": pc.Features,
		"containers_after": containerNames(pod1.Spec.Containers), "init_after": containerNames(pod1.Spec.InitContainers), "second_patch_bytes": len(o2.Patch)})
}

func containerNames(cs []corev1.Container) string {
	var ns []string
	for _, c := range cs {
		ns = append(ns, c.Name)
	}
	return "[" + strings.Join(ns, ",") + "]"
}

func firstN(s string, n int) string {
	s = strings.Join(strings.Fields(s), " ")
	if len(s) > n {
		return s[:n] + "…"
	}
	return s
}

// keyedView rewrites a pod document so that lists of named objects become objects keyed by name
// plus an "#order" list; differences are then reported as ".spec.containers{istio-proxy}.env{X}.value".
func keyedView(doc []byte) []byte {
	var v any
	d := json.NewDecoder(bytes.NewReader(doc))
	d.UseNumber()
	if err := d.Decode(&v); err != nil {
		return doc
	}
	var conv func(x any, field string) any
	conv = func(x any, field string) any {
		switch xv := x.(type) {
		case map[string]any:
			out := map[string]any{}
			for k, e := range xv {
				out[k] = conv(e, k)
			}
			return out
		case []any:
			named := field == "containers" || field == "initContainers" || field == "volumes" || field == "env" || field == "imagePullSecrets"
			if named {
				out := map[string]any{}
				var order []any
				ok := true
				for _, e := range xv {
					m, isMap := e.(map[string]any)
					n, hasName := m["name"].(string)
					if !isMap || !hasName || out["{"+n+"}"] != nil {
						ok = false
						break
					}
					out["{"+n+"}"] = conv(e, "")
					order = append(order, n)
				}
				if ok {
					out["#order"] = order
					return out
				}
			}
			out := make([]any, len(xv))
			for i, e := range xv {
				out[i] = conv(e, "")
			}
			return out
		}
		return x
	}
	b, err := json.Marshal(conv(v, ""))
	if err != nil {
		return doc
	}
	return b
}
