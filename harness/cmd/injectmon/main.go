// Engine injectmon — property C19: sidecar injection decides by the documented precedence and is
// idempotent. The real webhook (inject.NewWebhook) is driven over its HTTP mux with
// AdmissionReview JSON; two monitors observe it (table.go, oracle.go).
package main

import (
	"fmt"
	"os"
	"path/filepath"
	"reflect"
	"runtime"
	"strings"

	corev1 "k8s.io/api/core/v1"
	metav1 "k8s.io/apimachinery/pkg/apis/meta/v1"

	meshconfig "istio.io/api/mesh/v1alpha1"
	"istio.io/istio/pkg/config/mesh"
	"istio.io/istio/pkg/kube/inject"

	"verifharness/internal/vh"
)

// variant is one injector installation: chart values, mesh config, native-sidecar switch,
// revision and webhook path.
type variant struct {
	name     string
	setFlags []string
	iop      []string // fixture IstioOperator files (relative to testdata/inject)
	mesh     func(*meshconfig.MeshConfig)
	native   bool
	revision string
	path     string
}

var variants = []variant{
	{name: "default"},
	{name: "native", native: true},
	{name: "cni", setFlags: []string{"components.cni.enabled=true"}},
	{name: "hold", setFlags: []string{"values.global.proxy.holdApplicationUntilProxyStarts=true"}},
	{name: "tproxy", mesh: func(m *meshconfig.MeshConfig) { m.DefaultConfig.InterceptionMode = meshconfig.ProxyConfig_TPROXY }},
	{name: "norewrite", setFlags: []string{"values.sidecarInjectorWebhook.rewriteAppHTTPProbe=false"}},
	{name: "cni-native-rev", setFlags: []string{"components.cni.enabled=true"}, native: true, revision: "canary", path: "/inject/cluster/c9/net/n9"},
	{name: "hold-native", setFlags: []string{"values.global.proxy.holdApplicationUntilProxyStarts=true"}, native: true},
}

var hooks = map[string]*hook{}

func hookFor(v variant) *hook {
	if h, ok := hooks[v.name]; ok {
		h.activate()
		return h
	}
	var files []string
	for _, f := range v.iop {
		files = append(files, filepath.Join(fixtureDir(), f))
	}
	s := loadSettings(v.name, v.setFlags, files)
	if v.mesh != nil {
		mc, err := mesh.DeepCopyMeshConfig(s.mesh)
		if err != nil {
			vh.Abort("copy mesh config: %v", err)
		}
		v.mesh(mc)
		s = &settings{name: s.name, rawConfig: s.rawConfig, values: s.values, mesh: mc}
	}
	h := newHook(s, s.rawConfig, v.native, v.revision)
	hooks[v.name] = h
	return h
}

// templatesFor lists the inject.istio.io/templates values the generator may choose under a variant.
func templatesFor(v variant) []string {
	return []string{"sidecar", "gateway", "grpc-agent", "grpc-simple", "sidecar,sidecar"}
}

type caseDesc struct {
	name string
	run  func(c *vh.Ctx)
}

func buildCases(c *vh.Ctx) []caseDesc {
	var cases []caseDesc
	thorough := !c.Quick()

	// ---- monitor 1: the decision table, exhaustively, under 1 (quick) / 8 (thorough) variants
	tableVariants := 1
	if thorough {
		tableVariants = 8
	}
	for tv := 0; tv < tableVariants; tv++ {
		v := variants[tv%len(variants)]
		for i := 0; i < tableRows; i++ {
			tv, i, v := tv, i, v
			cases = append(cases, caseDesc{fmt.Sprintf("table-v%d-row-%04d", tv, i), func(c *vh.Ctx) { runTableRow(c, hookFor(v), tv, i) }})
		}
	}

	// ---- monitor 2: fixtures
	fx := loadFixtures()
	fxVariants := variants[:2]
	if thorough {
		fxVariants = variants
	}
	for _, v := range fxVariants {
		for _, f := range fx {
			v, f := v, f
			cases = append(cases, caseDesc{fmt.Sprintf("fixture-%s#%d-%s", f.File, f.Doc, v.name), func(c *vh.Ctx) {
				h := hookFor(v)
				h.setConfig(h.baseRaw)
				ns := f.Ns
				if ns == "" {
					ns = "default"
				}
				runPodCase(c, h, podCase{Kind: "fixture", Source: fmt.Sprintf("%s#%d", f.File, f.Doc), Settings: v.name, Pod: f.Pod.DeepCopy(), ReqNs: ns, Path: v.path,
					Features: []string{"fixture"}})
			}})
		}
	}

	// ---- monitor 2: every shipped template, addressed explicitly ("where renderable")
	shipped := []string{"sidecar", "gateway", "grpc-agent", "grpc-simple", "waypoint", "kube-gateway", "agentgateway", "agentgateway-waypoint"}
	for _, t := range shipped {
		for k := 0; k < 3; k++ {
			t, k := t, k
			cases = append(cases, caseDesc{fmt.Sprintf("template-%s-%d", t, k), func(c *vh.Ctx) {
				v := variants[k%2]
				h := hookFor(v)
				h.setConfig(h.baseRaw)
				if _, ok := h.base.RawTemplates[t]; !ok {
					c.SetAdd("templates_not_shipped", t)
					return
				}
				r := c.Rng("template-"+t, k)
				p, feats := genPod(r, genOpts{})
				if p.Annotations == nil {
					p.Annotations = map[string]string{}
				}
				p.Annotations["inject.istio.io/templates"] = t
				if strings.Contains(t, "gateway") && !hasContainerNamed(p, "istio-proxy") {
					p.Spec.Containers = []corev1.Container{{Name: "istio-proxy", Image: "auto"}}
				}
				runPodCase(c, h, podCase{Kind: "template", Source: fmt.Sprintf("%s-%d", t, k), Settings: v.name, Pod: p, ReqNs: p.Namespace, Path: v.path, Features: feats})
			}})
		}
	}

	// ---- monitor 2: generated pods
	n := c.N(220, 4500)
	for i := 0; i < n; i++ {
		i := i
		cases = append(cases, caseDesc{fmt.Sprintf("gen-%05d", i), func(c *vh.Ctx) {
			r := c.Rng("gen", i)
			v := variants[r.Intn(len(variants))]
			h := hookFor(v)
			h.setConfig(h.baseRaw)
			p, feats := genPod(r, genOpts{templates: templatesFor(v)})
			ns := p.Namespace
			if r.Intn(4) == 0 {
				p.Namespace = "" // as for pods created from a controller's template: only request.namespace is set
			}
			runPodCase(c, h, podCase{Kind: "generated", Source: fmt.Sprint(i), Settings: v.name, Pod: p, ReqNs: ns, Path: v.path, Features: feats})
		}})
	}
	return cases
}

func run(c *vh.Ctx) {
	quietLogs()
	// Setup (chart rendering, fixture loading) runs outside c.Case so that replay filters do not skip
	// it; if it is impossible the child dies with a harness panic, which the parent reports as a
	// harness error (never as "held").
	hookFor(variants[0])
	cases := buildCases(c)
	c.SetAdd("shipped_templates", strings.Join(sortedKeys(hooks["default"].base.RawTemplates), ","))
	c.SetAdd("ignored_namespaces_documented", strings.Join(ignoredNamespaces, ","))
	for i, cd := range cases {
		if !c.Mine(i) {
			continue
		}
		cd := cd
		c.Case(cd.name, func() { cd.run(c) })
	}
}

func init() {
	// The charts and fixtures must come from the same tree the binary was compiled against
	// (mutant runs compile against a scratch copy): locate it through a symbol of that tree.
	if root := compiledRepoRoot(); root != "" {
		repoRoot = root
	}
}

// compiledRepoRoot finds the directory of the istio module this binary was built from, using
// the file name recorded for a function of pkg/kube/inject.
func compiledRepoRoot() string {
	f := runtime.FuncForPC(reflect.ValueOf(inject.UnmarshalConfig).Pointer())
	if f == nil {
		return ""
	}
	file, _ := f.FileLine(f.Entry())
	const suffix = "/pkg/kube/inject/inject.go"
	if strings.HasSuffix(file, suffix) {
		return strings.TrimSuffix(file, suffix)
	}
	return ""
}

func main() {
	if len(os.Args) > 2 && os.Args[1] == "explain" {
		explain(os.Args[2:])
		return
	}
	vh.Main(vh.Prop{
		ID:    "C19",
		Level: "exploration",
		Rule: "Monitor 1 enumerates the full decision table (hostNetwork x ignored-ns x label{absent,true,false,empty,garbage} x annotation{same} x neverSelector x alwaysSelector x policy{enabled,disabled,other} = 1200 rows; " +
			"concrete namespaces / garbage values / policy strings / selector shapes drawn from the PRNG) against the real webhook over HTTP; each row is submitted twice around a configuration reload and once with unrelated additions; " +
			"a row is non-trivial when the webhook gave a decision (inject/skip). Monitor 2 submits fixture pods (testdata/inject/*.yaml) and PRNG-generated pods under several installations of the shipped injector " +
			"(shipped chart templates only: sidecar, gateway, grpc-agent, grpc-simple where they render for pods), applies the patch, re-submits the result and compares; " +
			"a pod is non-trivial (distinct by settings+pod JSON) when it was injected and re-submitted.",
		Assumptions: []string{
			"trusted base: k8s.io/api types and encoding/json (typed round trip between admission calls, as the API server does), github.com/evanphx/json-patch (patch application), operator/pkg/render + helm (chart rendering)",
			"the webhook is driven in-process through the http.ServeMux it registered on (no TLS, no API server); MutatingWebhookConfiguration namespaceSelector/objectSelector are outside this code and not modelled",
			"native sidecar support is selected through features.EnableNativeSidecars (true/false); node-version auto-detection is not exercised",
			"a policy value other than enabled/disabled switches injection off as a whole (documented by the injector's error message); such rows are expected 'skip' under rule illegal-policy",
			"containers named istio-proxy / istio-init / istio-validation / enable-core-dump in the submitted pod are overrides of injected containers (documented customisation), not user containers",
			"only the templates shipped in the istio-discovery chart are used; the repository's test-only templates (custom, spire) are not part of the workload, fixtures that ask for them are rejected by the webhook and counted as such",
			"re-invocation is simulated by submitting the patched pod unchanged (no other webhook mutates it in between)",
		},
		Anchors:          []string{"pkg/kube/inject/"},
		CrashIsViolation: false,
		MinNontrivial: func(tier string) int {
			if tier == "thorough" {
				return 8*tableRows + 3000
			}
			return tableRows + 200
		},
		Batches: func(tier string) int {
			if tier == "thorough" {
				return 8
			}
			return 4
		},
		Parallel: func(tier string) int {
			if tier == "thorough" {
				return 8
			}
			return 4
		},
		TimeoutSec: func(tier string) int {
			if tier == "thorough" {
				return 2400
			}
			return 600
		},
		Exhaustive:  func(tier string) bool { return true },
		Explanation: "exhaustive refers to monitor 1: all 1200 combinations of the seven abstract decision inputs are enumerated (counter table_rows); monitor 2 is a sampled exploration",
		Run:         run,
	})
}

var _ = metav1.ObjectMeta{}
