package main

// Inputs of monitor 2: the repo's own fixture pods and PRNG-generated pod specs.

import (
	"bufio"
	"bytes"
	"encoding/json"
	"fmt"
	"io"
	"math/rand"
	"os"
	"path/filepath"
	"sort"
	"strings"

	corev1 "k8s.io/api/core/v1"
	"k8s.io/apimachinery/pkg/api/resource"
	metav1 "k8s.io/apimachinery/pkg/apis/meta/v1"
	"k8s.io/apimachinery/pkg/util/intstr"
	k8syaml "k8s.io/apimachinery/pkg/util/yaml"
	"sigs.k8s.io/yaml"

	"verifharness/internal/vh"
)

// ---------------------------------------------------------------------------------------------
// fixtures

type fixture struct {
	File string
	Doc  int
	Pod  *corev1.Pod
	Ns   string
}

func fixtureDir() string { return filepath.Join(repoRoot, "pkg/kube/inject/testdata/inject") }

// loadFixtures turns every workload in testdata/inject/*.yaml (inputs only) into the Pod the
// API server would submit for it, the way the repo's objectToPod helper does.
func loadFixtures() []fixture {
	ents, err := os.ReadDir(fixtureDir())
	if err != nil {
		vh.Abort("fixtures: %v", err)
	}
	var names []string
	for _, e := range ents {
		n := e.Name()
		if !strings.HasSuffix(n, ".yaml") || strings.HasSuffix(n, ".iop.yaml") {
			continue
		}
		names = append(names, n)
	}
	sort.Strings(names)
	var out []fixture
	for _, n := range names {
		b, err := os.ReadFile(filepath.Join(fixtureDir(), n))
		if err != nil {
			vh.Abort("fixtures: %v", err)
		}
		rd := k8syaml.NewYAMLReader(bufio.NewReader(bytes.NewReader(b)))
		doc := 0
		for {
			raw, err := rd.Read()
			if err == io.EOF {
				break
			}
			if err != nil {
				break
			}
			for _, p := range podsFromDoc(raw) {
				ns := p.Namespace
				out = append(out, fixture{File: n, Doc: doc, Pod: p, Ns: ns})
				doc++
			}
		}
	}
	return out
}

func podsFromDoc(raw []byte) []*corev1.Pod {
	m := map[string]any{}
	if err := yaml.Unmarshal(raw, &m); err != nil || m == nil {
		return nil
	}
	kind, _ := m["kind"].(string)
	meta, _ := m["metadata"].(map[string]any)
	name, _ := meta["name"].(string)
	topNs, _ := meta["namespace"].(string)
	dig := func(path ...string) any {
		var cur any = m
		for _, p := range path {
			mm, ok := cur.(map[string]any)
			if !ok {
				return nil
			}
			cur = mm[p]
		}
		return cur
	}
	var tmpl any
	ownerKind, ownerAPI, ownerName, hash := kind, fmt.Sprint(m["apiVersion"]), name, false
	switch kind {
	case "Pod":
		p := &corev1.Pod{}
		if err := yaml.Unmarshal(raw, p); err != nil {
			return nil
		}
		p.TypeMeta = metav1.TypeMeta{APIVersion: "v1", Kind: "Pod"}
		return []*corev1.Pod{p}
	case "List":
		var out []*corev1.Pod
		items, _ := m["items"].([]any)
		for _, it := range items {
			b, err := yaml.Marshal(it)
			if err == nil {
				out = append(out, podsFromDoc(b)...)
			}
		}
		return out
	case "CronJob":
		tmpl = dig("spec", "jobTemplate", "spec", "template")
	case "Deployment":
		tmpl = dig("spec", "template")
		ownerKind, ownerAPI, ownerName, hash = "ReplicaSet", "apps/v1", name+"-fake", true
	case "DeploymentConfig", "DaemonSet", "StatefulSet", "Job", "ReplicaSet", "ReplicationController":
		tmpl = dig("spec", "template")
	default:
		return nil
	}
	if tmpl == nil {
		return nil
	}
	b, _ := json.Marshal(tmpl)
	var ts corev1.PodTemplateSpec
	if err := json.Unmarshal(b, &ts); err != nil {
		return nil
	}
	p := &corev1.Pod{TypeMeta: metav1.TypeMeta{APIVersion: "v1", Kind: "Pod"}, ObjectMeta: ts.ObjectMeta, Spec: ts.Spec}
	t := true
	p.GenerateName = ownerName + "-"
	p.OwnerReferences = []metav1.OwnerReference{{APIVersion: ownerAPI, Kind: ownerKind, Name: ownerName, Controller: &t}}
	if hash {
		if p.Labels == nil {
			p.Labels = map[string]string{}
		}
		p.Labels["pod-template-hash"] = "fake"
	}
	if p.Namespace == "" {
		p.Namespace = topNs
	}
	return []*corev1.Pod{p}
}

// ---------------------------------------------------------------------------------------------
// generator

type genOpts struct {
	templates []string // names selectable through inject.istio.io/templates under the current settings
}

func q(s string) resource.Quantity { return resource.MustParse(s) }

var (
	images       = []string{"registry.example/app:1.4", "docker.io/library/nginx@sha256:0d17b565c37bcbd895e9d92315a05c1c3c9a29f762b011a10c54a66cd53c9b31", "gcr.io/p/svc:latest", "busybox", "localhost:5000/a/b/c:v0.0.1-rc.1"}
	cmds         = [][]string{nil, {"/bin/server"}, {"sh", "-c", "exec app --flag=\"a b\" $(POD_NAME)"}, {"/app", ""}, {"python3", "-m", "http.server"}}
	argss        = [][]string{nil, {"--port=8080"}, {"-v", "4", "--name", "$(POD_NAME)"}, {"proxy", "sidecar"}, {"", " "}, {"--json={\"a\":[1,2]}"}}
	portNames    = []string{"http", "grpc", "tcp-db", "http-admin", "metrics", "https", ""}
	userVolNames = []string{"data", "config", "certs", "scratch", "secret-vol", "cache", "podinfo", "tls", "tmp", "shared"}
)

func genProbe(r *rand.Rand, ports []corev1.ContainerPort, feats map[string]bool, allowExec bool) *corev1.Probe {
	p := &corev1.Probe{}
	if r.Intn(2) == 0 {
		p.InitialDelaySeconds = int32(r.Intn(30))
		p.PeriodSeconds = int32(1 + r.Intn(20))
		p.TimeoutSeconds = int32(1 + r.Intn(5))
		p.FailureThreshold = int32(1 + r.Intn(5))
	}
	port := func() intstr.IntOrString {
		if len(ports) > 0 && r.Intn(2) == 0 {
			cp := ports[r.Intn(len(ports))]
			if cp.Name != "" && r.Intn(2) == 0 {
				feats["probe-named-port"] = true
				return intstr.FromString(cp.Name)
			}
			return intstr.FromInt32(cp.ContainerPort)
		}
		if r.Intn(8) == 0 {
			feats["probe-unknown-named-port"] = true
			return intstr.FromString("nosuchport")
		}
		return intstr.FromInt32(int32(1024 + r.Intn(30000)))
	}
	switch k := r.Intn(5); {
	case k == 0 || k == 1:
		feats["probe-http"] = true
		h := &corev1.HTTPGetAction{Path: pick(r, []string{"/healthz", "/", "", "/ready?full=1"}), Port: port()}
		if r.Intn(3) == 0 {
			h.Scheme = corev1.URISchemeHTTPS
			feats["probe-https"] = true
		}
		if r.Intn(3) == 0 {
			h.HTTPHeaders = []corev1.HTTPHeader{{Name: "X-Probe", Value: "1"}}
		}
		if r.Intn(6) == 0 {
			h.Host = "127.0.0.1"
		}
		p.HTTPGet = h
	case k == 2:
		feats["probe-tcp"] = true
		p.TCPSocket = &corev1.TCPSocketAction{Port: port()}
	case k == 3:
		feats["probe-grpc"] = true
		g := &corev1.GRPCAction{Port: int32(1024 + r.Intn(30000))}
		if r.Intn(2) == 0 {
			s := "liveness"
			g.Service = &s
		}
		p.GRPC = g
	default:
		if !allowExec {
			feats["probe-tcp"] = true
			p.TCPSocket = &corev1.TCPSocketAction{Port: port()}
			break
		}
		feats["probe-exec"] = true
		p.Exec = &corev1.ExecAction{Command: []string{"cat", "/tmp/healthy"}}
	}
	return p
}

func genLifecycleHandler(r *rand.Rand, feats map[string]bool) *corev1.LifecycleHandler {
	switch r.Intn(3) {
	case 0:
		feats["lifecycle-exec"] = true
		return &corev1.LifecycleHandler{Exec: &corev1.ExecAction{Command: []string{"sleep", "5"}}}
	case 1:
		feats["lifecycle-http"] = true
		return &corev1.LifecycleHandler{HTTPGet: &corev1.HTTPGetAction{Path: "/quit", Port: intstr.FromInt32(int32(8000 + r.Intn(100)))}}
	default:
		feats["lifecycle-tcp"] = true
		return &corev1.LifecycleHandler{TCPSocket: &corev1.TCPSocketAction{Port: intstr.FromInt32(int32(8000 + r.Intn(100)))}}
	}
}

func genContainer(r *rand.Rand, name string, vols []corev1.Volume, feats map[string]bool, init bool) corev1.Container {
	c := corev1.Container{Name: name, Image: pick(r, images), Command: pick(r, cmds), Args: pick(r, argss)}
	np := r.Intn(4)
	used := map[int32]bool{}
	usedNames := map[string]bool{}
	for i := 0; i < np; i++ {
		cp := corev1.ContainerPort{ContainerPort: int32(pick(r, []int{80, 443, 8080, 8443, 9090, 3306, 15010, 7070, 53}))}
		if used[cp.ContainerPort] {
			continue
		}
		used[cp.ContainerPort] = true
		if n := pick(r, portNames); n != "" && !usedNames[n] {
			cp.Name = n
			usedNames[n] = true
		}
		switch r.Intn(5) {
		case 0:
			cp.Protocol = corev1.ProtocolTCP
		case 1:
			cp.Protocol = corev1.ProtocolUDP
			feats["port-udp"] = true
		}
		if r.Intn(8) == 0 {
			cp.HostPort = cp.ContainerPort
		}
		c.Ports = append(c.Ports, cp)
	}
	if r.Intn(2) == 0 {
		c.Env = append(c.Env, corev1.EnvVar{Name: "MODE", Value: "prod"})
		if r.Intn(2) == 0 {
			c.Env = append(c.Env, corev1.EnvVar{Name: "POD_NAME", ValueFrom: &corev1.EnvVarSource{FieldRef: &corev1.ObjectFieldSelector{FieldPath: "metadata.name"}}})
		}
		if r.Intn(4) == 0 {
			// names the templates also use for their own containers
			c.Env = append(c.Env, corev1.EnvVar{Name: pick(r, []string{"ISTIO_META_CLUSTER_ID", "GRPC_XDS_BOOTSTRAP", "SOME_ENV", "INSTANCE_IP"}), Value: "user-value"})
			feats["env-name-shared-with-template"] = true
		}
	}
	for _, v := range vols {
		if r.Intn(3) == 0 {
			c.VolumeMounts = append(c.VolumeMounts, corev1.VolumeMount{Name: v.Name, MountPath: "/mnt/" + v.Name, ReadOnly: r.Intn(2) == 0})
		}
	}
	if r.Intn(3) == 0 {
		c.Resources = corev1.ResourceRequirements{Requests: corev1.ResourceList{corev1.ResourceCPU: q("50m")}, Limits: corev1.ResourceList{corev1.ResourceMemory: q("64Mi")}}
	}
	if r.Intn(4) == 0 {
		uid := int64(pick(r, []int{0, 1000, 1337, 65534}))
		c.SecurityContext = &corev1.SecurityContext{RunAsUser: &uid}
		feats["container-runAsUser"] = true
	}
	if r.Intn(5) == 0 {
		c.ImagePullPolicy = pick(r, []corev1.PullPolicy{corev1.PullAlways, corev1.PullIfNotPresent, corev1.PullNever})
	}
	if r.Intn(6) == 0 {
		c.WorkingDir = "/srv"
	}
	if init {
		if r.Intn(3) == 0 {
			// a user's own native sidecar
			always := corev1.ContainerRestartPolicyAlways
			c.RestartPolicy = &always
			feats["user-native-sidecar"] = true
			if r.Intn(2) == 0 {
				c.ReadinessProbe = genProbe(r, c.Ports, feats, true)
			}
			if r.Intn(3) == 0 {
				c.StartupProbe = genProbe(r, c.Ports, feats, true)
			}
		}
		return c
	}
	if r.Intn(2) == 0 {
		c.ReadinessProbe = genProbe(r, c.Ports, feats, true)
		feats["readiness"] = true
	}
	if r.Intn(3) == 0 {
		c.LivenessProbe = genProbe(r, c.Ports, feats, true)
		feats["liveness"] = true
	}
	if r.Intn(4) == 0 {
		c.StartupProbe = genProbe(r, c.Ports, feats, true)
		feats["startup"] = true
	}
	if r.Intn(4) == 0 {
		c.Lifecycle = &corev1.Lifecycle{}
		if r.Intn(2) == 0 {
			c.Lifecycle.PreStop = genLifecycleHandler(r, feats)
		}
		if r.Intn(2) == 0 || c.Lifecycle.PreStop == nil {
			c.Lifecycle.PostStart = genLifecycleHandler(r, feats)
		}
	}
	return c
}

func genVolume(r *rand.Rand, name string, feats map[string]bool) corev1.Volume {
	v := corev1.Volume{Name: name}
	switch r.Intn(8) {
	case 0:
		v.EmptyDir = &corev1.EmptyDirVolumeSource{}
		feats["volume:emptyDir"] = true
	case 1:
		v.EmptyDir = &corev1.EmptyDirVolumeSource{Medium: corev1.StorageMediumMemory}
		feats["volume:emptyDir-memory"] = true
	case 2:
		v.ConfigMap = &corev1.ConfigMapVolumeSource{LocalObjectReference: corev1.LocalObjectReference{Name: "cm-" + name},
			Items: []corev1.KeyToPath{{Key: "k", Path: "p/k"}}}
		feats["volume:configMap"] = true
	case 3:
		v.Secret = &corev1.SecretVolumeSource{SecretName: "sec-" + name}
		feats["volume:secret"] = true
	case 4:
		v.HostPath = &corev1.HostPathVolumeSource{Path: "/var/lib/" + name}
		feats["volume:hostPath"] = true
	case 5:
		v.PersistentVolumeClaim = &corev1.PersistentVolumeClaimVolumeSource{ClaimName: "pvc-" + name}
		feats["volume:pvc"] = true
	case 6:
		exp := int64(3600)
		v.Projected = &corev1.ProjectedVolumeSource{Sources: []corev1.VolumeProjection{
			{ServiceAccountToken: &corev1.ServiceAccountTokenProjection{Audience: "aud", ExpirationSeconds: &exp, Path: "token"}},
			{ConfigMap: &corev1.ConfigMapProjection{LocalObjectReference: corev1.LocalObjectReference{Name: "cm"}}},
		}}
		feats["volume:projected"] = true
	default:
		v.DownwardAPI = &corev1.DownwardAPIVolumeSource{Items: []corev1.DownwardAPIVolumeFile{{Path: "labels", FieldRef: &corev1.ObjectFieldSelector{FieldPath: "metadata.labels"}}}}
		feats["volume:downwardAPI"] = true
	}
	return v
}

// genProxyOverride is a user-supplied istio-proxy container carrying overrides, as documented in
// "Customizing injection" (image "auto" means: use the injected image).
func genProxyOverride(r *rand.Rand, vols []corev1.Volume, feats map[string]bool) corev1.Container {
	c := corev1.Container{Name: "istio-proxy", Image: "auto"}
	if r.Intn(5) == 0 {
		c.Image = "registry.example/custom-proxy:9"
		feats["existing-proxy-custom-image"] = true
	}
	if r.Intn(2) == 0 {
		c.Resources = corev1.ResourceRequirements{Requests: corev1.ResourceList{corev1.ResourceCPU: q("123m")}, Limits: corev1.ResourceList{corev1.ResourceCPU: q("3")}}
	}
	if r.Intn(2) == 0 {
		c.Env = []corev1.EnvVar{{Name: "USER_ENV", Value: "1"}}
		if r.Intn(2) == 0 {
			c.Env = append(c.Env, corev1.EnvVar{Name: "ISTIO_META_CLUSTER_ID", Value: "user-cluster"})
		}
	}
	if r.Intn(3) == 0 {
		uid := int64(pick(r, []int{0, 1234, 1337}))
		c.SecurityContext = &corev1.SecurityContext{RunAsUser: &uid}
		if r.Intn(2) == 0 {
			gid := int64(4321)
			c.SecurityContext.RunAsGroup = &gid
		}
		feats["existing-proxy-runAsUser"] = true
	}
	if len(vols) > 0 && r.Intn(2) == 0 {
		v := vols[r.Intn(len(vols))]
		c.VolumeMounts = []corev1.VolumeMount{{Name: v.Name, MountPath: "/etc/user/" + v.Name}}
	}
	if r.Intn(3) == 0 {
		c.Lifecycle = &corev1.Lifecycle{PreStop: &corev1.LifecycleHandler{Exec: &corev1.ExecAction{Command: []string{"sleep", "10"}}}}
	}
	if r.Intn(4) == 0 {
		c.ReadinessProbe = &corev1.Probe{FailureThreshold: 7, ProbeHandler: corev1.ProbeHandler{HTTPGet: &corev1.HTTPGetAction{Path: "/healthz/ready", Port: intstr.FromInt32(15021)}}}
	}
	if r.Intn(5) == 0 {
		c.Args = []string{"proxy", "sidecar", "--extra"}
	}
	if r.Intn(5) == 0 {
		c.TTY = true
		c.TerminationMessagePath = "/dev/term"
	}
	if r.Intn(4) == 0 {
		c.Ports = []corev1.ContainerPort{{ContainerPort: 15999, Name: "user-port"}}
	}
	return c
}

// genPod draws one pod. feats records what it contains (for evidence).
func genPod(r *rand.Rand, o genOpts) (*corev1.Pod, []string) {
	feats := map[string]bool{}
	p := &corev1.Pod{TypeMeta: metav1.TypeMeta{APIVersion: "v1", Kind: "Pod"}}
	p.Namespace = pick(r, []string{"default", "prod", "team-a"})
	p.Labels = map[string]string{}
	p.Annotations = map[string]string{}
	if r.Intn(2) == 0 {
		p.Name = "web-0"
	} else {
		t := true
		p.GenerateName = "web-5c9f-"
		p.OwnerReferences = []metav1.OwnerReference{{APIVersion: "apps/v1", Kind: "ReplicaSet", Name: "web-5c9f", Controller: &t}}
		p.Labels["pod-template-hash"] = "5c9f"
	}
	if r.Intn(4) != 0 {
		p.Labels["app"] = "web"
	}
	if r.Intn(3) == 0 {
		p.Labels["version"] = "v2"
	}
	if r.Intn(6) == 0 {
		p.Labels["service.istio.io/canonical-name"] = "custom-canonical"
	}
	if r.Intn(5) == 0 {
		p.Labels[injectKey] = "true"
	}
	if r.Intn(8) == 0 {
		p.Labels["topology.istio.io/network"] = "net-x"
	}

	// volumes
	nv := r.Intn(5)
	names := append([]string{}, userVolNames...)
	r.Shuffle(len(names), func(i, j int) { names[i], names[j] = names[j], names[i] })
	for i := 0; i < nv; i++ {
		p.Spec.Volumes = append(p.Spec.Volumes, genVolume(r, names[i], feats))
	}

	// containers
	nc := 1 + r.Intn(4)
	cnames := []string{"app", "web", "worker", "log-shipper", "db-proxy", "cache"}
	r.Shuffle(len(cnames), func(i, j int) { cnames[i], cnames[j] = cnames[j], cnames[i] })
	for i := 0; i < nc; i++ {
		p.Spec.Containers = append(p.Spec.Containers, genContainer(r, cnames[i], p.Spec.Volumes, feats, false))
	}
	ni := 0
	if r.Intn(2) == 0 {
		ni = 1 + r.Intn(3)
	}
	inames := []string{"init-db", "migrate", "fetch-config", "wait-for", "warm"}
	r.Shuffle(len(inames), func(i, j int) { inames[i], inames[j] = inames[j], inames[i] })
	for i := 0; i < ni; i++ {
		p.Spec.InitContainers = append(p.Spec.InitContainers, genContainer(r, inames[i], p.Spec.Volumes, feats, true))
		feats["init-containers"] = true
	}
	feats[fmt.Sprintf("containers=%d", nc)] = true
	feats[fmt.Sprintf("initContainers=%d", ni)] = true
	feats[fmt.Sprintf("volumes=%d", nv)] = true

	// template selection
	tmpl := ""
	if len(o.templates) > 0 && r.Intn(3) == 0 {
		tmpl = pick(r, o.templates)
		p.Annotations["inject.istio.io/templates"] = tmpl
		feats["templates-annotation"] = true
	}
	wantsProxyContainer := strings.Contains(tmpl, "gateway")

	// an existing istio-proxy container with overrides
	if wantsProxyContainer || r.Intn(4) == 0 {
		oc := genProxyOverride(r, p.Spec.Volumes, feats)
		feats["existing-proxy-container"] = true
		if !wantsProxyContainer && r.Intn(4) == 0 {
			always := corev1.ContainerRestartPolicyAlways
			oc.RestartPolicy = &always
			p.Spec.InitContainers = insertAt(p.Spec.InitContainers, r.Intn(len(p.Spec.InitContainers)+1), oc)
			feats["existing-proxy-in-initContainers"] = true
		} else {
			p.Spec.Containers = insertAt(p.Spec.Containers, r.Intn(len(p.Spec.Containers)+1), oc)
		}
	}
	if r.Intn(10) == 0 {
		p.Spec.InitContainers = insertAt(p.Spec.InitContainers, r.Intn(len(p.Spec.InitContainers)+1),
			corev1.Container{Name: "istio-init", Image: "registry.example/custom-init:1", Args: []string{"my", "custom", "args"}})
		feats["existing-istio-init-override"] = true
	}
	if r.Intn(10) == 0 {
		ov := map[string]any{"containers": []any{map[string]any{"name": "istio-proxy", "resources": map[string]any{"requests": map[string]any{"cpu": "55m"}}, "env": []any{map[string]any{"name": "FROM_OVERRIDES", "value": "1"}}}}}
		b, _ := json.Marshal(ov)
		p.Annotations["proxy.istio.io/overrides"] = string(b)
		feats["overrides-annotation"] = true
	}

	// annotations that steer the templates and the post-processing
	type ann struct {
		k string
		v []string
		p int
	}
	anns := []ann{
		{"sidecar.istio.io/rewriteAppHTTPProbers", []string{"true", "false"}, 5},
		{"proxy.istio.io/config", []string{"holdApplicationUntilProxyStarts: true", "concurrency: 3", "{\"proxyMetadata\":{\"A\":\"b\"}}", "holdApplicationUntilProxyStarts: false", "statusPort: 15025"}, 5},
		{"sidecar.istio.io/interceptionMode", []string{"TPROXY", "REDIRECT", "NONE"}, 8},
		{"status.sidecar.istio.io/port", []string{"15021", "0", "15999"}, 8},
		{"sidecar.istio.io/nativeSidecar", []string{"true", "false"}, 5},
		{"traffic.sidecar.istio.io/includeOutboundIPRanges", []string{"*", "10.0.0.0/8,172.16.0.0/12", ""}, 10},
		{"traffic.sidecar.istio.io/excludeInboundPorts", []string{"9090", "1,2,3", ""}, 10},
		{"traffic.sidecar.istio.io/includeInboundPorts", []string{"*", "80,8080", ""}, 10},
		{"traffic.sidecar.istio.io/excludeOutboundPorts", []string{"3306"}, 12},
		{"prometheus.io/scrape", []string{"true", "false"}, 6},
		{"prometheus.io/port", []string{"9090", "8080"}, 6},
		{"prometheus.io/path", []string{"/metrics"}, 8},
		{"prometheus.istio.io/merge-metrics", []string{"true", "false"}, 10},
		{"sidecar.istio.io/proxyImage", []string{"registry.example/proxy:x", "proxyv2-custom"}, 12},
		{"sidecar.istio.io/proxyImageType", []string{"debug", "distroless", "default"}, 12},
		{"sidecar.istio.io/proxyCPU", []string{"200m"}, 10},
		{"sidecar.istio.io/proxyMemoryLimit", []string{"256Mi"}, 10},
		{"sidecar.istio.io/userVolume", []string{`{"user-volume-1":{"persistentVolumeClaim":{"claimName":"pvc-claim"}}}`}, 12},
		{"sidecar.istio.io/userVolumeMount", []string{`{"user-volume-1":{"mountPath":"/mnt/volume-1","readOnly":true}}`}, 12},
		{"sidecar.istio.io/logLevel", []string{"debug"}, 12},
		{"sidecar.istio.io/bootstrapOverride", []string{"my-bootstrap-cm"}, 14},
		{"sidecar.istio.io/enableCoreDump", []string{"true"}, 12},
		{"kubectl.kubernetes.io/default-container", []string{"app"}, 10},
		{"sidecar.istio.io/extraStatTags", []string{"a,b"}, 14},
		{"sidecar.istio.io/inject", []string{"true"}, 10},
		{"k8s.v1.cni.cncf.io/networks", []string{"other-net", `[{"name":"other-net"}]`}, 14},
		{"istio.io/reroute-virtual-interfaces", []string{"net1"}, 16},
	}
	for _, a := range anns {
		if r.Intn(a.p) == 0 {
			p.Annotations[a.k] = pick(r, a.v)
			feats["ann:"+a.k] = true
		}
	}
	if r.Intn(3) == 0 {
		p.Spec.ServiceAccountName = "sa-web"
	}
	if r.Intn(6) == 0 {
		fs := int64(2000)
		p.Spec.SecurityContext = &corev1.PodSecurityContext{FSGroup: &fs}
	}
	if r.Intn(6) == 0 {
		p.Spec.ImagePullSecrets = []corev1.LocalObjectReference{{Name: "regcred"}}
	}
	if r.Intn(6) == 0 {
		p.Spec.DNSPolicy = corev1.DNSClusterFirst
	}
	if r.Intn(6) == 0 {
		p.Spec.NodeName = "node-1"
	}
	if len(p.Annotations) == 0 {
		p.Annotations = nil
	}
	if len(p.Labels) == 0 {
		p.Labels = nil
	}
	var fl []string
	for k := range feats {
		fl = append(fl, k)
	}
	sort.Strings(fl)
	return p, fl
}

func insertAt(cs []corev1.Container, i int, c corev1.Container) []corev1.Container {
	out := make([]corev1.Container, 0, len(cs)+1)
	out = append(out, cs[:i]...)
	out = append(out, c)
	out = append(out, cs[i:]...)
	return out
}
