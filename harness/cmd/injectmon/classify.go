package main

// Keys for idempotency findings. A key names the trigger present in the submitted pod together
// with what changed; a trigger-specific key is only used when that trigger is really there, so
// the same field changing for another reason is filed under "idempotency:other:at=<path>".

import (
	"encoding/json"
	"regexp"
	"strings"

	corev1 "k8s.io/api/core/v1"
	"k8s.io/apimachinery/pkg/util/intstr"
)

var (
	containerRe = regexp.MustCompile(`\.(containers|initContainers)\.\{([^}]*)\}`)
	envNameRe   = regexp.MustCompile(`^\.env\.\{([^}]*)\}`)
)

func stablePathOnly(d string) string {
	p := d
	if i := strings.Index(p, ": "); i >= 0 {
		p = p[:i]
	}
	p = idxRe.ReplaceAllString(p, "[]")
	return strings.ReplaceAll(p, "#order[]", "#order")
}

type classifier struct {
	orig, pod1, pod2 *corev1.Pod
	settings         string // variant name
	path             string // webhook path
	tmpls            string
}

func allContainersOf(p *corev1.Pod) []corev1.Container {
	return append(append([]corev1.Container{}, p.Spec.Containers...), p.Spec.InitContainers...)
}

func findContainer(p *corev1.Pod, name string) *corev1.Container {
	for _, c := range allContainersOf(p) {
		if c.Name == name {
			c := c
			return &c
		}
	}
	return nil
}

// userOverrides returns, in keyed generic form, what the submitted pod says about an
// injector-owned container: a container of that name in the spec and/or an entry in the
// proxy.istio.io/overrides annotation.
func (x *classifier) userOverrides(name string) []map[string]any {
	var out []map[string]any
	add := func(c corev1.Container) {
		if c.Name != name {
			return
		}
		b, _ := json.Marshal(map[string]any{"containers": []any{c}})
		var v map[string]any
		_ = json.Unmarshal(keyedView(b), &v)
		if cs, ok := v["containers"].(map[string]any); ok {
			if m, ok := cs["{"+name+"}"].(map[string]any); ok {
				out = append(out, m)
			}
		}
	}
	for _, c := range allContainersOf(x.orig) {
		add(c)
	}
	var ov struct {
		Containers     []corev1.Container `json:"containers"`
		InitContainers []corev1.Container `json:"initContainers"`
	}
	if a, ok := x.orig.Annotations["proxy.istio.io/overrides"]; ok && json.Unmarshal([]byte(a), &ov) == nil {
		for _, c := range append(ov.Containers, ov.InitContainers...) {
			add(c)
		}
	}
	return out
}

// overrideCovers reports whether the user's override of container name says anything at the
// path rest (".securityContext.runAsUser", ".env.{X}.value", ".args").
func (x *classifier) overrideCovers(name, rest string) bool {
	segs := strings.Split(strings.TrimPrefix(rest, "."), ".")
	for _, ov := range x.userOverrides(name) {
		var cur any = ov
		covered := false
		for _, s := range segs {
			s = strings.TrimSuffix(s, "[]")
			m, ok := cur.(map[string]any)
			if !ok {
				covered = true // the override holds a leaf or a list above this point
				break
			}
			next, ok := m[s]
			if !ok {
				covered = false
				cur = nil
				break
			}
			cur = next
			covered = true
		}
		if covered && cur != nil {
			if segs[0] == "image" && cur == "auto" {
				continue // "auto" is the documented request for the injected image, not an override
			}
			return true
		}
	}
	return false
}

func (x *classifier) proxyOverrideSetsUser() bool {
	for _, ov := range x.userOverrides("istio-proxy") {
		if sc, ok := ov["securityContext"].(map[string]any); ok {
			if sc["runAsUser"] != nil || sc["runAsGroup"] != nil {
				return true
			}
		}
	}
	return false
}

func envNames(c *corev1.Container, skip map[string]bool) []string {
	var out []string
	if c == nil {
		return out
	}
	for _, e := range c.Env {
		if !skip[e.Name] {
			out = append(out, e.Name)
		}
	}
	return out
}

// clusterEnvTrigger: the request carries a network / cluster id from the pod label or the webhook
// URL, which the injector writes into the proxy's environment after rendering.
func (x *classifier) clusterEnvTrigger() string {
	var t []string
	if _, ok := x.orig.Labels["topology.istio.io/network"]; ok {
		t = append(t, "network-label")
	}
	if strings.Count(strings.Trim(x.path, "/"), "/") >= 2 {
		t = append(t, "inject-url-params")
	}
	return strings.Join(t, "+")
}

// unresolvableNamedProbePort: some probe / lifecycle handler of the submitted pod names a port
// its own container does not declare.
func (x *classifier) unresolvableNamedProbePort() bool {
	for _, c := range allContainersOf(x.orig) {
		named := map[string]bool{}
		for _, p := range c.Ports {
			if p.Name != "" {
				named[p.Name] = true
			}
		}
		bad := func(p *intstr.IntOrString) bool { return p != nil && p.Type == intstr.String && !named[p.StrVal] }
		probe := func(p *corev1.Probe) bool {
			if p == nil {
				return false
			}
			return (p.HTTPGet != nil && bad(&p.HTTPGet.Port)) || (p.TCPSocket != nil && bad(&p.TCPSocket.Port))
		}
		lh := func(h *corev1.LifecycleHandler) bool {
			if h == nil {
				return false
			}
			return (h.HTTPGet != nil && bad(&h.HTTPGet.Port)) || (h.TCPSocket != nil && bad(&h.TCPSocket.Port))
		}
		if probe(c.ReadinessProbe) || probe(c.LivenessProbe) || probe(c.StartupProbe) {
			return true
		}
		if c.Lifecycle != nil && (lh(c.Lifecycle.PreStop) || lh(c.Lifecycle.PostStart)) {
			return true
		}
	}
	return false
}

func topField(rest string) string {
	f := strings.TrimPrefix(rest, ".")
	if i := strings.IndexAny(f, ".["); i >= 0 {
		f = f[:i]
	}
	return f
}

// key classifies one keyedView difference between pod1 and pod2.
func (x *classifier) key(d string) string {
	p := stablePathOnly(d)
	loc := containerRe.FindStringSubmatchIndex(p)
	if loc == nil {
		return "idempotency:other:at=" + strings.TrimPrefix(p, ".spec")
	}
	list, name, rest := p[loc[2]:loc[3]], p[loc[4]:loc[5]], p[loc[1]:]
	if !injectorOwned[name] {
		// a user container changed on the second call
		if m := envNameRe.FindStringSubmatch(rest); m != nil {
			o, c1 := findContainer(x.orig, name), findContainer(x.pod1, name)
			if o != nil && c1 != nil {
				for _, e := range o.Env {
					if e.Name == m[1] && x.tmpls != "sidecar" {
						for _, e1 := range c1.Env {
							if e1.Name == e.Name && fieldJSON(e1) == fieldJSON(e) {
								// the user's value survived the first call and is replaced on the second
								return "idempotency:user-env-overridden-by-template:template=" + x.tmpls
							}
						}
					}
				}
			}
		}
		return "idempotency:other:at=." + list + ".{<user>}" + rest
	}
	c1, c2 := findContainer(x.pod1, name), findContainer(x.pod2, name)
	switch {
	case name == "istio-proxy" && rest == ".env.#order":
		if t := x.clusterEnvTrigger(); t != "" {
			skip := map[string]bool{"ISTIO_META_NETWORK": true, "ISTIO_META_CLUSTER_ID": true}
			if strings.Join(envNames(c1, skip), ",") == strings.Join(envNames(c2, skip), ",") {
				return "idempotency:proxy-env-order:cause=" + t
			}
		}
	case name == "istio-proxy" && rest == ".securityContext.runAsUser":
		// On re-invocation the injector takes the proxy it injected itself for a user override and,
		// when TPROXY is in effect by its own test (mesh default or annotation), forces uid 0 —
		// although the template had chosen a non-root uid.
		uid := func(c *corev1.Container) int64 {
			if c == nil || c.SecurityContext == nil || c.SecurityContext.RunAsUser == nil {
				return -1
			}
			return *c.SecurityContext.RunAsUser
		}
		mode, has := x.orig.Annotations["sidecar.istio.io/interceptionMode"]
		tproxyMesh := x.settings == "tproxy"
		if (tproxyMesh || (has && mode == "TPROXY")) && uid(c1) > 0 && uid(c2) == 0 {
			switch {
			case tproxyMesh && has && mode != "TPROXY":
				return "idempotency:proxy-uid-forced-to-0-on-reinvocation:cause=" + strings.ToLower(mode) + "-annotation-under-tproxy-mesh"
			case strings.Contains(x.tmpls, "gateway") && (findContainer(x.orig, "istio-init") != nil || findContainer(x.orig, "istio-validation") != nil):
				// the gateway template has no init container and never runs as root; the uid is only
				// touched when the user brought an istio-init / istio-validation container along
				return "idempotency:proxy-uid-forced-to-0-on-reinvocation:cause=gateway-template+user-init-container-under-tproxy"
			}
		}
	case name == "istio-proxy" && strings.HasPrefix(rest, ".env.{ISTIO_KUBE_APP_PROBERS}"):
		if _, has := x.orig.Annotations["status.sidecar.istio.io/port"]; has && x.unresolvableNamedProbePort() {
			return "idempotency:status-port-annotation+named-port-probe:ISTIO_KUBE_APP_PROBERS"
		}
	}
	if x.overrideCovers(name, rest) {
		return "idempotency:user-override-of-injected-container:" + name + "." + topField(rest)
	}
	// derived from the override: the template lists the ports of all containers it is given, and
	// on re-injection it is given the override container at a different place
	if name == "istio-proxy" && strings.HasPrefix(rest, ".env.{ISTIO_META_POD_PORTS}") {
		for _, ov := range x.userOverrides("istio-proxy") {
			if ov["ports"] != nil {
				return "idempotency:user-override-of-injected-container:derived-istio-proxy.env.ISTIO_META_POD_PORTS"
			}
		}
	}
	// documented derivation: the proxy's user id chosen by the user is copied into the init /
	// validation container (adjustInitContainerUser)
	if (name == "istio-init" || name == "istio-validation") && (topField(rest) == "args" || topField(rest) == "securityContext") && x.proxyOverrideSetsUser() {
		return "idempotency:user-override-of-injected-container:derived-" + name + "." + topField(rest)
	}
	r := rest
	if m := envNameRe.FindString(rest); m != "" {
		r = m // one key per env var, whichever of its sub-fields differs
	}
	return "idempotency:other:at=.{" + name + "}" + r
}
