package main

// Monitor 1: the injection decision table, enumerated exhaustively in its seven abstract
// dimensions (2·2·5·5·2·2·3 = 1200 rows). The reference (refDecision) is written from the
// documented precedence, never from injectRequired.

import (
	"encoding/json"
	"fmt"
	"math/rand"

	corev1 "k8s.io/api/core/v1"
	metav1 "k8s.io/apimachinery/pkg/apis/meta/v1"

	"verifharness/internal/vh"
)

const (
	injectKey = "sidecar.istio.io/inject" // both the label (new API) and the annotation (old API) use this key

	valAbsent  = 0
	valTrue    = 1
	valFalse   = 2
	valEmpty   = 3
	valGarbage = 4

	polEnabled  = 0
	polDisabled = 1
	polOther    = 2

	tableRows = 2 * 2 * 5 * 5 * 2 * 2 * 3
)

var valNames = []string{"absent", "true", "false", "empty", "garbage"}
var polNames = []string{"enabled", "disabled", "other"}

// row is one point of the abstract table.
type row struct {
	HostNetwork bool
	NsIgnored   bool
	Label       int
	Anno        int
	Never       bool // pod labels match a configured neverInjectSelector
	Always      bool // pod labels match a configured alwaysInjectSelector
	Policy      int
}

func rowOf(i int) row {
	var r row
	r.Policy = i % 3
	i /= 3
	r.Always = i%2 == 1
	i /= 2
	r.Never = i%2 == 1
	i /= 2
	r.Anno = i % 5
	i /= 5
	r.Label = i % 5
	i /= 5
	r.NsIgnored = i%2 == 1
	i /= 2
	r.HostNetwork = i%2 == 1
	return r
}

func (r row) String() string {
	return fmt.Sprintf("hostNetwork=%v nsIgnored=%v label=%s annotation=%s never=%v always=%v policy=%s",
		r.HostNetwork, r.NsIgnored, valNames[r.Label], valNames[r.Anno], r.Never, r.Always, polNames[r.Policy])
}

// refDecision is the independent table function. Sources:
//   - property C19: "in order: host networking and ignored namespaces (never), the pod's inject
//     label, else its inject annotation, else never/always-inject selectors, else the namespace
//     policy";
//   - documentation of inject.Config (NeverInjectSelector "Takes precedence over
//     AlwaysInjectSelector"), of InjectionPolicy{Enabled,Disabled} and of the chart values
//     (sidecarInjectorWebhook.{never,always}InjectSelector);
//   - the documented treatment of values: "The label is the new API; if both are present we
//     prefer the label" (presence decides, not the value) and "Only 'true' and 'false' are
//     accepted. Falling back to default injection policy." (any other value, including the empty
//     string, expresses no choice);
//   - the documented treatment of a policy that is neither "enabled" nor "disabled": "Illegal
//     value for autoInject … Auto injection disabled!" — the injector is switched off as a whole.
//     The property's linear order does not mention this gate; it is kept as a separate rule name
//     ("illegal-policy") so that it can be told apart in evidence and in violation keys.
//
// It returns the expected decision and the name of the rule that decides.
func refDecision(r row) (inject bool, rule string) {
	if r.HostNetwork {
		return false, "host-network"
	}
	if r.NsIgnored {
		return false, "ignored-namespace"
	}
	if r.Policy == polOther {
		return false, "illegal-policy"
	}
	choice, src := r.Anno, "annotation"
	if r.Label != valAbsent {
		choice, src = r.Label, "label"
	}
	switch choice {
	case valTrue:
		return true, src
	case valFalse:
		return false, src
	}
	if r.Never {
		return false, "never-selector"
	}
	if r.Always {
		return true, "always-selector"
	}
	return r.Policy == polEnabled, "policy"
}

// ---------------------------------------------------------------------------------------------
// Concrete representatives of the abstract levels, drawn per (variant,row) from the PRNG.

var (
	ignoredNamespaces = []string{"kube-system", "kube-public", "kube-node-lease", "local-path-storage"} // documented list (initializer.go)
	normalNamespaces  = []string{"default", "prod", "kube-system-2", "my-kube-public", "kube", "system", "istio-test"}
	// "garbage": anything that is neither "true" nor "false" nor empty. Label values are restricted
	// by the API server to [A-Za-z0-9._-]; annotation values are free text.
	garbageLabel = []string{"yes", "on", "True", "TRUE", "1", "enabled", "False", "0", "t", "true.", "disabled", "random"}
	garbageAnno  = []string{"yes", "on", "True", "TRUE", "1", "enabled", "False", "0", " true", "true ", "\"true\"", "no", "disabled"}
	otherPolicy  = []string{"", "off", "Enabled", "ENABLED", "Disabled", "true", "false", "default", "wrong_policy", "enabled ", "always"}
)

type selectorStyle struct {
	name string
	// configured selectors and the pod labels that make them match / not match
	sel      []metav1.LabelSelector
	match    map[string]string
	nomatch  []map[string]string // alternatives for "configured but does not match"
	emptyCfg bool                // for the no-match level the selector list may also be empty
}

func selectorStyles(key string) []selectorStyle {
	return []selectorStyle{
		{name: "matchLabels", sel: []metav1.LabelSelector{{MatchLabels: map[string]string{key: "yes"}}},
			match: map[string]string{key: "yes"}, nomatch: []map[string]string{{}, {key: "no"}, {key + "x": "yes"}}},
		{name: "exists", sel: []metav1.LabelSelector{{MatchExpressions: []metav1.LabelSelectorRequirement{{Key: key, Operator: metav1.LabelSelectorOpExists}}}},
			match: map[string]string{key: ""}, nomatch: []map[string]string{{}, {key + "x": ""}}},
		{name: "in", sel: []metav1.LabelSelector{{MatchExpressions: []metav1.LabelSelectorRequirement{{Key: key, Operator: metav1.LabelSelectorOpIn, Values: []string{"a", "b"}}}}},
			match: map[string]string{key: "b"}, nomatch: []map[string]string{{}, {key: "c"}}},
		{name: "or-second", sel: []metav1.LabelSelector{{MatchLabels: map[string]string{key + "-first": "1"}}, {MatchLabels: map[string]string{key: "2"}}},
			match: map[string]string{key: "2"}, nomatch: []map[string]string{{}, {key: "1"}, {key + "-first": "2"}}},
		{name: "and-two-labels", sel: []metav1.LabelSelector{{MatchLabels: map[string]string{key: "1", key + "-b": "2"}}},
			match: map[string]string{key: "1", key + "-b": "2"}, nomatch: []map[string]string{{}, {key: "1"}, {key + "-b": "2"}}},
		// lists in which an entry that selects nothing (malformed: the webhook logs "Invalid selector" and goes on; empty:
		// documented as never matching) precedes or follows the entry that decides
		{name: "malformed-first", sel: []metav1.LabelSelector{{MatchExpressions: []metav1.LabelSelectorRequirement{{Key: key + "-bad", Operator: metav1.LabelSelectorOpIn}}}, {MatchLabels: map[string]string{key: "yes"}}},
			match: map[string]string{key: "yes"}, nomatch: []map[string]string{{}, {key: "no"}, {key + "-bad": "yes"}}},
		{name: "bad-operator-first", sel: []metav1.LabelSelector{{MatchExpressions: []metav1.LabelSelectorRequirement{{Key: key, Operator: "Near", Values: []string{"yes"}}}}, {MatchExpressions: []metav1.LabelSelectorRequirement{{Key: key, Operator: metav1.LabelSelectorOpExists}}}},
			match: map[string]string{key: "yes"}, nomatch: []map[string]string{{}, {key + "x": "yes"}}},
		{name: "malformed-last", sel: []metav1.LabelSelector{{MatchLabels: map[string]string{key: "yes"}}, {MatchExpressions: []metav1.LabelSelectorRequirement{{Key: key + "-bad", Operator: metav1.LabelSelectorOpExists, Values: []string{"x"}}}}},
			match: map[string]string{key: "yes"}, nomatch: []map[string]string{{}, {key: "no"}, {key + "-bad": "x"}}},
		{name: "empty-first", sel: []metav1.LabelSelector{{}, {MatchLabels: map[string]string{key: "yes"}}},
			match: map[string]string{key: "yes"}, nomatch: []map[string]string{{}, {key: "no"}}},
	}
}

// concrete is one fully concrete instance of a row.
type concrete struct {
	Row         row                    `json:"row"`
	Namespace   string                 `json:"namespace"`
	NsInObject  bool                   `json:"ns_in_object"` // namespace present in the pod object (else only in request.namespace)
	Labels      map[string]string      `json:"labels"`
	Annos       map[string]string      `json:"annotations"`
	Policy      string                 `json:"policy"`
	Never       []metav1.LabelSelector `json:"neverInjectSelector"`
	Always      []metav1.LabelSelector `json:"alwaysInjectSelector"`
	NeverStyle  string                 `json:"never_style"`
	AlwaysStyle string                 `json:"always_style"`
	Named       bool                   `json:"named"`
	Path        string                 `json:"path"`
}

func pick[T any](r *rand.Rand, xs []T) T { return xs[r.Intn(len(xs))] }

func concretize(rw row, r *rand.Rand) concrete {
	c := concrete{Row: rw, Labels: map[string]string{}, Annos: map[string]string{}}
	if rw.NsIgnored {
		c.Namespace = pick(r, ignoredNamespaces)
	} else {
		c.Namespace = pick(r, normalNamespaces)
	}
	c.NsInObject = r.Intn(3) != 0
	c.Named = r.Intn(2) == 0
	if r.Intn(4) == 0 {
		c.Path = "/inject/cluster/c1/net/n1"
	} else {
		c.Path = "/inject"
	}
	switch rw.Label {
	case valTrue:
		c.Labels[injectKey] = "true"
	case valFalse:
		c.Labels[injectKey] = "false"
	case valEmpty:
		c.Labels[injectKey] = ""
	case valGarbage:
		c.Labels[injectKey] = pick(r, garbageLabel)
	}
	switch rw.Anno {
	case valTrue:
		c.Annos[injectKey] = "true"
	case valFalse:
		c.Annos[injectKey] = "false"
	case valEmpty:
		c.Annos[injectKey] = ""
	case valGarbage:
		c.Annos[injectKey] = pick(r, garbageAnno)
	}
	switch rw.Policy {
	case polEnabled:
		c.Policy = "enabled"
	case polDisabled:
		c.Policy = "disabled"
	default:
		c.Policy = pick(r, otherPolicy)
	}
	apply := func(match bool, key string) ([]metav1.LabelSelector, string) {
		st := pick(r, selectorStyles(key))
		if match {
			for k, v := range st.match {
				c.Labels[k] = v
			}
			return st.sel, st.name
		}
		// no match: either nothing configured, or configured and the pod's labels miss it
		if r.Intn(3) == 0 {
			return nil, "none"
		}
		for k, v := range pick(r, st.nomatch) {
			c.Labels[k] = v
		}
		return st.sel, st.name + "-miss"
	}
	c.Never, c.NeverStyle = apply(rw.Never, "verif-never")
	c.Always, c.AlwaysStyle = apply(rw.Always, "verif-always")
	return c
}

// pod builds the admission object of a concrete row. extras adds labels / annotations / spec
// details that the property says are irrelevant to the decision.
func (c concrete) pod(extras *rand.Rand) *corev1.Pod {
	p := &corev1.Pod{
		TypeMeta: metav1.TypeMeta{APIVersion: "v1", Kind: "Pod"},
		Spec: corev1.PodSpec{
			HostNetwork: c.Row.HostNetwork,
			Containers:  []corev1.Container{{Name: "app", Image: "registry.example/app:1", Ports: []corev1.ContainerPort{{ContainerPort: 8080}}}},
		},
	}
	if c.Named {
		p.Name = "row-pod"
	} else {
		p.GenerateName = "row-pod-7d9f-"
	}
	if c.NsInObject {
		p.Namespace = c.Namespace
	}
	p.Labels = map[string]string{}
	p.Annotations = map[string]string{}
	for k, v := range c.Labels {
		p.Labels[k] = v
	}
	for k, v := range c.Annos {
		p.Annotations[k] = v
	}
	if extras != nil {
		addUnrelated(p, extras)
	}
	if len(p.Labels) == 0 && (extras == nil || extras.Intn(2) == 0) {
		p.Labels = nil
	}
	if len(p.Annotations) == 0 && (extras == nil || extras.Intn(2) == 0) {
		p.Annotations = nil
	}
	return p
}

// Things the property says do not take part in the decision. Includes near misses of the
// relevant keys and labels other parts of istio care about.
var (
	unrelatedLabels = [][2]string{
		{"app", "web"}, {"version", "v2"}, {"istio.io/rev", "canary"}, {"istio-injection", "disabled"}, {"istio-injection", "enabled"},
		{"sidecar.istio.io/injectx", "false"}, {"sidecar.istio.io/Inject", "false"}, {"inject", "false"}, {"sidecar.istio.io/inject-", "true"},
		{"istio.io/dataplane-mode", "none"}, {"security.istio.io/tlsMode", "istio"}, {"topology.istio.io/network", "n7"},
		{"pod-template-hash", "7d9f"}, {"app.kubernetes.io/name", "web"}, {"sidecar.istio.io/injected", "true"},
	}
	unrelatedAnnos = [][2]string{
		{"sidecar.istio.io/Inject", "false"}, {"sidecar.istio.io/injectx", "true"}, {"istio.io/inject", "false"}, {"inject", "true"},
		{"sidecar.istio.io/logLevel", "debug"}, {"prometheus.io/scrape", "true"}, {"prometheus.io/port", "9090"},
		{"sidecar.istio.io/proxyCPU", "200m"}, {"kubectl.kubernetes.io/default-container", "app"}, {"istio.io/rev", "canary"},
		{"sidecar.istio.io/interceptionMode", "REDIRECT"}, {"traffic.sidecar.istio.io/excludeInboundPorts", "9090"},
		{"sidecar.istio.io/rewriteAppHTTPProbers", "false"}, {"owner", "team-a"}, {"proxy.istio.io/config", "concurrency: 3"},
	}
)

func addUnrelated(p *corev1.Pod, r *rand.Rand) {
	n := 1 + r.Intn(4)
	for i := 0; i < n; i++ {
		kv := pick(r, unrelatedLabels)
		p.Labels[kv[0]] = kv[1]
	}
	n = 1 + r.Intn(4)
	for i := 0; i < n; i++ {
		kv := pick(r, unrelatedAnnos)
		p.Annotations[kv[0]] = kv[1]
	}
	if r.Intn(2) == 0 {
		p.Spec.Containers = append(p.Spec.Containers, corev1.Container{Name: "helper", Image: "registry.example/helper:2"})
	}
	if r.Intn(2) == 0 {
		p.Spec.Volumes = append(p.Spec.Volumes, corev1.Volume{Name: "scratch", VolumeSource: corev1.VolumeSource{EmptyDir: &corev1.EmptyDirVolumeSource{}}})
	}
	if r.Intn(3) == 0 {
		p.Spec.ServiceAccountName = "sa-web"
	}
	if r.Intn(3) == 0 {
		p.Spec.DNSPolicy = corev1.DNSDefault
	}
	if r.Intn(3) == 0 {
		p.Spec.HostPID = true
	}
	if r.Intn(3) == 0 {
		t := true
		p.OwnerReferences = []metav1.OwnerReference{{APIVersion: "apps/v1", Kind: "ReplicaSet", Name: "row-pod-7d9f", Controller: &t}}
	}
	if r.Intn(3) == 0 {
		p.Spec.NodeName = "node-3"
	}
}

// selectorsFor gives the two selector lists of a concrete row in generic (YAML-able) form.
func (c concrete) selectorsFor() (never, always any) {
	never, always = []any{}, []any{}
	if len(c.Never) > 0 {
		never = toGeneric(c.Never)
	}
	if len(c.Always) > 0 {
		always = toGeneric(c.Always)
	}
	return never, always
}

func toGeneric(v any) any {
	b, err := json.Marshal(v)
	if err != nil {
		vh.Abort("marshal: %v", err)
	}
	var out any
	_ = json.Unmarshal(b, &out)
	return out
}

// ---------------------------------------------------------------------------------------------

// runTableRow evaluates one row of one variant against the webhook.
func runTableRow(c *vh.Ctx, h *hook, variant, i int) {
	rw := rowOf(i)
	r := c.Rng(fmt.Sprintf("table-%d", variant), i)
	cc := concretize(rw, r)
	want, rule := refDecision(rw)

	never, always := cc.selectorsFor()
	submit := func(p *corev1.Pod) outcome {
		b, err := json.Marshal(p)
		if err != nil {
			vh.Abort("marshal pod: %v", err)
		}
		return h.submit(b, cc.Namespace, cc.Path)
	}

	h.activate()
	h.setDecisionConfig(cc.Policy, never, always)
	plain := cc.pod(nil)
	a := submit(plain)
	// the same input again, after the configuration was replaced (by the chart's own document)
	// and restored
	h.setConfig(h.baseRaw)
	h.setDecisionConfig(cc.Policy, never, always)
	b := submit(cc.pod(nil))
	ex := c.Rng(fmt.Sprintf("table-extras-%d", variant), i)
	withExtras := cc.pod(ex)
	x := submit(withExtras)

	c.Count("table_rows", 1)
	c.Count("table_submissions", 3)
	replay := map[string]any{"row": rw.String(), "index": i, "variant": variant, "concrete": cc, "want_inject": want, "rule": rule,
		"got": a.decision(), "got_repeat": b.decision(), "got_with_unrelated": x.decision(), "error": a.Error}

	da := a.decision()
	if da != "inject" && da != "skip" {
		c.Count("table_rows_undecided", 1)
		c.Inconclusive(fmt.Sprintf("row %d (%s): webhook answered %s: %s", i, rw, da, a.Error))
		return
	}
	got := da == "inject"
	if got {
		c.Count("decisions_injected", 1)
		// an injected answer must actually carry a proxy: apply the patch and look
		pj, _ := json.Marshal(plain)
		if patched, err := applyPatch(pj, a.Patch); err != nil {
			c.Inconclusive(fmt.Sprintf("row %d: patch does not apply: %v", i, err))
		} else {
			var pp corev1.Pod
			if json.Unmarshal(patched, &pp) == nil && hasContainerNamed(&pp, "istio-proxy") {
				c.Count("decisions_injected_with_proxy_container", 1)
			}
		}
	} else {
		c.Count("decisions_not_injected", 1)
	}
	c.SetAdd("deciding_rule", fmt.Sprintf("%s=>%v", rule, want))
	c.Count("rule:"+rule, 1)
	if rule == "illegal-policy" {
		// how many rows does the documented "illegal policy switches injection off" gate override
		// an explicit request to inject (label/annotation "true" or always-selector)?
		if w2, r2 := refDecision(row{Label: rw.Label, Anno: rw.Anno, Never: rw.Never, Always: rw.Always, Policy: polDisabled}); w2 {
			c.Count("rows_illegal_policy_overrides_explicit_inject", 1)
			c.SetAdd("illegal_policy_overrides", r2+"=>observed:"+da)
		}
	}
	c.SetAdd("policy_values", cc.Policy)
	c.SetAdd("namespaces", cc.Namespace)
	c.SetAdd("selector_styles", cc.NeverStyle+"/"+cc.AlwaysStyle)
	if rw.Label == valGarbage {
		c.SetAdd("garbage_values", "label:"+cc.Labels[injectKey])
	}
	if rw.Anno == valGarbage {
		c.SetAdd("garbage_values", "annotation:"+cc.Annos[injectKey])
	}
	c.Nontrivial(vh.Hash("table", variant, i))
	if i%397 == 0 {
		c.Sample(replay)
	}

	if got != want {
		c.Violation(fmt.Sprintf("decision rule=%s want=%s got=%s", rule, decisionName(want), da),
			fmt.Sprintf("row %d [%s] (ns=%s policy=%q labels=%v annotations=%v never=%s always=%s): documented precedence says %s by rule %q, webhook answered %s",
				i, rw, cc.Namespace, cc.Policy, cc.Labels, cc.Annos, cc.NeverStyle, cc.AlwaysStyle, decisionName(want), rule, da), replay)
	}
	if b.decision() != da {
		c.Violation("decision-not-deterministic",
			fmt.Sprintf("row %d [%s]: same input answered %s, then %s after the same configuration was re-applied", i, rw, da, b.decision()), replay)
	} else if got {
		// not part of the property (which speaks of the decision only), recorded as evidence: are the
		// two patches, and the pods they produce, the same?
		if string(a.Patch) == string(b.Patch) {
			c.Count("repeat_patch_byte_identical", 1)
		}
		pj, _ := json.Marshal(plain)
		pa, ea := applyPatch(pj, a.Patch)
		pb, eb := applyPatch(pj, b.Patch)
		if ea == nil && eb == nil {
			if canon(pa) == canon(pb) {
				c.Count("repeat_injected_pod_identical", 1)
			} else {
				c.Count("repeat_injected_pod_differs", 1)
			}
		}
	}
	if dx := x.decision(); dx != da {
		if dx != "inject" && dx != "skip" {
			c.Count("table_extras_undecided", 1)
			c.Inconclusive(fmt.Sprintf("row %d with unrelated additions: webhook answered %s: %s", i, dx, x.Error))
		} else {
			replay["unrelated_labels"] = withExtras.Labels
			replay["unrelated_annotations"] = withExtras.Annotations
			c.Violation("decision-depends-on-unrelated-input",
				fmt.Sprintf("row %d [%s]: decision %s became %s when only unrelated labels/annotations/spec fields were added (labels=%v annotations=%v)",
					i, rw, da, dx, withExtras.Labels, withExtras.Annotations), replay)
		}
	}
}

func decisionName(inject bool) string {
	if inject {
		return "inject"
	}
	return "skip"
}

func hasContainerNamed(p *corev1.Pod, name string) bool {
	for _, c := range p.Spec.Containers {
		if c.Name == name {
			return true
		}
	}
	for _, c := range p.Spec.InitContainers {
		if c.Name == name {
			return true
		}
	}
	return false
}
